import PortusModel.Lemmas.CompileLower
/-!
# The final scope as the register assignment of the C01 proof (`RhoOk`, `DefsFor`)
-/
namespace Portus.Lang.Frag
open Portus Portus.Lang Portus.Vm

/-! ## `varDecls` -/

theorem lastVal_eq (n : Name) (upd : List (Name × Nat)) : Frag.lastVal n upd = Lang.lastVal n upd := by
  induction upd with
  | nil => rfl
  | cons p rest ih =>
    obtain ⟨m, v⟩ := p
    simp only [Frag.lastVal, Lang.lastVal, ih]
    cases Lang.lastVal n rest <;> rfl

/-- the literal initial value of a declared variable after the overrides -/
def initNat (upd : List (Name × Nat)) (d : Decl) : Option Nat :=
  match Lang.lastVal d.var upd with
  | some v => some v
  | none =>
    match d.init with
    | .num (some n) => some n
    | .bool (some b) => some (if b then 1 else 0)
    | _ => none

def oneOpt (upd : List (Name × Nat)) (d : Decl) : Option Sem.VarDecl :=
  match initNat upd d with
  | some n =>
    if n = 0x3fffffff then none
    else some { name := d.var, isReport := "Report.".toList.isPrefixOf d.var, vol := d.vol, init := Sem.immVal n }
  | none => none

def oneD (upd : List (Name × Nat)) (d : Decl) : Sem.VarDecl :=
  { name := d.var, isReport := "Report.".toList.isPrefixOf d.var, vol := d.vol,
    init := Sem.immVal ((initNat upd d).getD 0) }

theorem varDecls_eq (ds : List Decl) (upd : List (Name × Nat)) :
    varDecls ds upd = (do
      let rs ← (reportsOf ds).mapM (oneOpt upd)
      let cs ← (controlsOf ds).mapM (oneOpt upd)
      pure (rs ++ cs)) := by
  unfold varDecls
  dsimp only
  have key : ∀ (f : Decl → Option Sem.VarDecl), (∀ d, f d = oneOpt upd d) →
      (do let rs ← (reportsOf ds).mapM f
          let cs ← (controlsOf ds).mapM f
          pure (rs ++ cs)) =
      (do let rs ← (reportsOf ds).mapM (oneOpt upd)
          let cs ← (controlsOf ds).mapM (oneOpt upd)
          pure (rs ++ cs)) := by
    intro f hf; rw [funext hf]
  apply key
  intro d
  unfold oneOpt initNat
  rw [lastVal_eq]
  rfl

theorem mapM_oneOpt {upd : List (Name × Nat)} {l : List Decl} {l' : List Sem.VarDecl}
    (h : l.mapM (oneOpt upd) = some l') :
    l' = l.map (oneD upd) ∧ ∀ d ∈ l, ∃ n, initNat upd d = some n ∧ n ≠ 0x3fffffff := by
  induction l generalizing l' with
  | nil =>
    simp only [List.mapM_nil, Option.pure_def, Option.some.injEq] at h
    subst h
    exact ⟨rfl, fun d hd => by cases hd⟩
  | cons d rest ih =>
    simp only [List.mapM_cons, Option.bind_eq_bind, Option.bind_eq_some_iff, Option.pure_def,
      Option.some.injEq] at h
    obtain ⟨v, hv, vs, hvs, rfl⟩ := h
    obtain ⟨e1, e2⟩ := ih hvs
    have hd : ∃ n, initNat upd d = some n ∧ n ≠ 0x3fffffff ∧ v = oneD upd d := by
      unfold oneOpt at hv
      split at hv
      · rename_i n hn
        split at hv
        · cases hv
        · rename_i hne
          cases hv
          exact ⟨n, hn, hne, by simp only [oneD, hn, Option.getD_some]⟩
      · cases hv
    obtain ⟨n, hn, hne, rfl⟩ := hd
    refine ⟨by rw [e1]; rfl, ?_⟩
    intro d' hd'
    rcases List.mem_cons.mp hd' with rfl | hd'
    · exact ⟨n, hn, hne⟩
    · exact e2 d' hd'

theorem mem_split_decls {ds : List Decl} {d : Decl} : d ∈ ds ↔ d ∈ reportsOf ds ++ controlsOf ds := by
  simp only [List.mem_append, List.mem_filter]
  constructor
  · intro h
    by_cases hp : "Report.".toList.isPrefixOf d.var = true
    · exact Or.inl ⟨h, hp⟩
    · exact Or.inr ⟨h, by rw [Bool.not_eq_true] at hp; rw [hp]; rfl⟩
  · rintro (h | h) <;> exact h.1

theorem varDecls_inv {ds : List Decl} {upd : List (Name × Nat)} {decls : List Sem.VarDecl}
    (h : varDecls ds upd = some decls) :
    decls = (reportsOf ds ++ controlsOf ds).map (oneD upd) ∧
    ∀ d ∈ ds, ∃ n, initNat upd d = some n ∧ n ≠ 0x3fffffff := by
  rw [varDecls_eq] at h
  simp only [Option.bind_eq_bind, Option.bind_eq_some_iff, Option.pure_def, Option.some.injEq] at h
  obtain ⟨rs, hrs, cs, hcs, rfl⟩ := h
  obtain ⟨r1, r2⟩ := mapM_oneOpt hrs
  obtain ⟨c1, c2⟩ := mapM_oneOpt hcs
  refine ⟨by rw [r1, c1, List.map_append], ?_⟩
  intro d hd
  rcases List.mem_append.mp (mem_split_decls.mp hd) with hd | hd
  · exact r2 d hd
  · exact c2 d hd

/-! ## the DEF preamble as a `filterMap` -/

def defOf (p : Name × Reg) : Option Instr :=
  match p.2 with
  | .report _ (.num (some n)) _ => some { res := p.2, op := .def, left := p.2, right := .immNum n }
  | .control _ (.num (some n)) _ => some { res := p.2, op := .def, left := p.2, right := .immNum n }
  | .report _ (.bool (some b)) _ => some { res := p.2, op := .def, left := p.2, right := .immBool b }
  | .control _ (.bool (some b)) _ => some { res := p.2, op := .def, left := p.2, right := .immBool b }
  | _ => none

theorem defInstrs_eq_filterMap (l : List (Name × Reg)) : defInstrs l = l.filterMap defOf := by
  induction l with
  | nil => rfl
  | cons p rest ih =>
    obtain ⟨n, reg⟩ := p
    simp only [defInstrs, List.filterMap_cons, defOf]
    split <;> simp only [ih]

theorem defOf_num {x : Name} {reg : Reg} {n : Nat} (hrc : isRC reg = true) (ht : reg.getType = .num (some n)) :
    defOf (x, reg) = some (defNum reg n) := by
  cases reg <;> simp only [isRC, Reg.getType, Bool.false_eq_true] at hrc ht <;> subst ht <;> rfl

theorem defOf_bool {x : Name} {reg : Reg} {b : Bool} (hrc : isRC reg = true) (ht : reg.getType = .bool (some b)) :
    defOf (x, reg) = some (defBool reg b) := by
  cases reg <;> simp only [isRC, Reg.getType, Bool.false_eq_true] at hrc ht <;> subst ht <;> rfl

theorem defOf_builtin : builtinNamed.filterMap defOf = [] := by decide +kernel

/-! ## the register file when compilation starts -/

section Start
variable {uid : Nat} {ds : List Decl} {sc0 : Scope}

/-- every declared variable is bound, after the overrides, to a report or control register whose
recorded type is the declared one or the overriding literal -/
theorem decl_reg (hnd : (ds.map (·.var)).Nodup) (hfresh : ∀ d ∈ ds, (Scope.new uid).get d.var = none)
    (h0 : declareAll (Scope.new uid) ds = .ok sc0) (upd : List (Name × Nat)) :
    ∀ d ∈ ds, ∃ reg, (applyUpdates sc0 upd).get d.var = some reg ∧ isRC reg = true ∧
      reg.getType = C13.overrideTy upd d.var d.init := by
  obtain ⟨ha, hb, -, -, -⟩ := C13.report_slots uid ds sc0 hnd hfresh h0
  intro d hd
  rcases List.mem_append.mp (mem_split_decls.mp hd) with hd | hd
  · obtain ⟨k, hk, rfl⟩ := List.getElem_of_mem hd
    exact ⟨_, by rw [applyUpdates_get, ha k hk, C13.overrideSpec_report], rfl, rfl⟩
  · obtain ⟨k, hk, rfl⟩ := List.getElem_of_mem hd
    exact ⟨_, by rw [applyUpdates_get, hb k hk, C13.overrideSpec_control], rfl, rfl⟩

/-- the register file as a list, up to order -/
theorem named_perm (hnd : (ds.map (·.var)).Nodup) (hfresh : ∀ d ∈ ds, (Scope.new uid).get d.var = none)
    (h0 : declareAll (Scope.new uid) ds = .ok sc0) (upd : List (Name × Nat)) :
    (applyUpdates sc0 upd).named.Perm
      (builtinNamed ++ (reportsOf ds ++ controlsOf ds).map
        (fun d => (d.var, ((applyUpdates sc0 upd).get d.var).getD .none))) := by
  have hnn : NamesNodup (applyUpdates sc0 upd) :=
    (applyUpdates_reach sc0 upd).namesNodup (declareAll_namesNodup hnd hfresh h0)
  have ofNames : ∀ l : List (Name × Reg), (regNames l).Nodup → l.Nodup := by
    intro l hl
    exact List.Pairwise.of_map (fun p => p.1) (fun a b hab e => hab (by rw [e])) hl
  have hperm : (reportsOf ds ++ controlsOf ds).Perm ds := List.filter_append_perm _ ds
  obtain ⟨-, -, -, hd, he⟩ := C13.report_slots uid ds sc0 hnd hfresh h0
  refine (List.perm_ext_iff_of_nodup (ofNames _ hnn) (ofNames _ ?_)).mpr ?_
  · -- names of the right-hand list
    rw [show regNames (builtinNamed ++ (reportsOf ds ++ controlsOf ds).map
          (fun d => (d.var, ((applyUpdates sc0 upd).get d.var).getD .none))) =
        regNames builtinNamed ++ (reportsOf ds ++ controlsOf ds).map (·.var) from by
      unfold regNames; rw [List.map_append, List.map_map]; rfl]
    refine List.nodup_append.mpr ⟨builtinNamed_nodup, ?_, ?_⟩
    · exact (hperm.map (·.var)).nodup_iff.mpr hnd
    · intro a ha b hb e
      subst e
      obtain ⟨d, hd', rfl⟩ := List.mem_map.mp hb
      have hf := hfresh d (mem_split_decls.mpr hd')
      rw [Scope.new_get] at hf
      exact regGet_eq_none_iff.mp hf ha
  · rintro ⟨n, r⟩
    constructor
    · intro hm
      have hg : (applyUpdates sc0 upd).get n = some r := hnn.get_of_mem hm
      rw [List.mem_append]
      have hg' := hg
      rw [applyUpdates_get] at hg'
      cases h1 : sc0.get n with
      | none =>
        rw [h1] at hg'
        unfold overrideSpec at hg'
        cases hl : Lang.lastVal n upd <;> simp [hl] at hg'
      | some r0 =>
        rcases he n r0 h1 with hbi | ⟨d, hd', rfl⟩
        · left
          have hbr := Scope.new_get_builtin hbi
          rw [h1, C13.overrideSpec_builtin upd n hbr] at hg'
          cases hg'
          rw [Scope.new_get] at hbi
          exact regGet_some_mem hbi
        · right
          exact List.mem_map.mpr ⟨d, mem_split_decls.mp hd', by rw [hg]; rfl⟩
    · intro hm
      rcases List.mem_append.mp hm with hm | hm
      · have h1 : (Scope.new uid).get n = some r := by
          rw [Scope.new_get]; exact regGet_of_mem_nodup builtinNamed_nodup hm
        have hbr := Scope.new_get_builtin h1
        have : (applyUpdates sc0 upd).get n = some r := by
          rw [applyUpdates_get, hd n r h1, C13.overrideSpec_builtin upd n hbr]
        exact regGet_some_mem this
      · obtain ⟨d, hd', e⟩ := List.mem_map.mp hm
        obtain ⟨reg, hreg, -, -⟩ := decl_reg hnd hfresh h0 upd d (mem_split_decls.mpr hd')
        rw [hreg] at e
        simp only [Option.getD_some, Prod.mk.injEq] at e
        obtain ⟨rfl, rfl⟩ := e
        exact regGet_some_mem hreg

end Start

/-! ## declared variables, their registers and their DEF instructions -/

theorem serR_immNum_cases {n : Nat} (h : SerR (.immNum n)) : n = 2^64 - 1 ∨ n < 2^31 := by
  obtain ⟨c, x, h⟩ := h
  simp only [Reg.classIdx] at h
  split at h
  · assumption
  · cases h

theorem immVal_toNat {n : Nat} (h : n = 2^64 - 1 ∨ n < 2^31) : (Sem.immVal n).toNat = n % 2^32 := by
  unfold Sem.immVal
  split
  · rename_i e; subst e; decide
  · rename_i ne
    rcases h with h | h
    · exact absurd h ne
    · rw [UInt64.toNat_ofNat', Nat.mod_eq_of_lt (by omega), Nat.mod_eq_of_lt (by omega)]

theorem toVReg_immNum_immVal {n : Nat} (h : SerR (.immNum n)) :
    toVReg (.immNum n) = ⟨1, (Sem.immVal n).toNat⟩ := by
  rw [toVReg_immNum h, immVal_toNat (serR_immNum_cases h)]; rfl

theorem toVReg_immBool_immVal (b : Bool) :
    toVReg (.immBool b) = ⟨1, (Sem.immVal (if b then 1 else 0)).toNat⟩ := by
  cases b <;> decide

theorem mem_compile_instrs {evs : List Event} {sc scF : Scope} {bin : Bin}
    (h : compileProg evs sc = .ok (bin, scF)) : ∀ i ∈ defInstrs sc.named, i ∈ bin.instrs := by
  unfold compileProg at h
  obtain ⟨cp, -, h⟩ := Out.bind_eq_ok.mp h
  simp only [Out.pure_eq, Out.ok.injEq, Prod.mk.injEq] at h
  obtain ⟨rfl, -⟩ := h
  intro i hi
  exact List.mem_append_left _ hi

/-- what is known of a declared variable `d`: its register after the overrides, its literal initial
value `n`, and its DEF instruction, which the encoder accepted -/
structure DeclFacts (sc1 : Scope) (upd : List (Name × Nat)) (d : Decl) (reg : Reg) (n : Nat) : Prop where
  get : sc1.get d.var = some reg
  rc : isRC reg = true
  ser : SerR reg
  init : initNat upd d = some n
  notInf : n ≠ 0x3fffffff
  fits : n = 2^64 - 1 ∨ n < 2^31
  defI : (defOf (d.var, reg)).map toVInstr =
    some { op := 2, ret := toVReg reg, left := toVReg reg, right := ⟨1, (Sem.immVal n).toNat⟩ }

theorem decl_facts {uid : Nat} {ds : List Decl} {sc0 : Scope} {upd : List (Name × Nat)}
    {decls : List Sem.VarDecl}
    (hnd : (ds.map (·.var)).Nodup) (hfresh : ∀ d ∈ ds, (Scope.new uid).get d.var = none)
    (h0 : declareAll (Scope.new uid) ds = .ok sc0) (hv : varDecls ds upd = some decls)
    (hdefs : ∀ i ∈ defInstrs (applyUpdates sc0 upd).named, SerI i) :
    ∀ d ∈ ds, ∃ reg n, DeclFacts (applyUpdates sc0 upd) upd d reg n := by
  intro d hd
  obtain ⟨reg, hg, hrc, hty⟩ := decl_reg hnd hfresh h0 upd d hd
  obtain ⟨n, hn, hne⟩ := (varDecls_inv hv).2 d hd
  have hmem : (d.var, reg) ∈ (applyUpdates sc0 upd).named := regGet_some_mem hg
  have hin : ∀ i, defOf (d.var, reg) = some i → SerI i := by
    intro i hi
    refine hdefs i ?_
    rw [defInstrs_eq_filterMap]
    exact List.mem_filterMap.mpr ⟨_, hmem, hi⟩
  have hnum : ∀ m, reg.getType = .num (some m) → n = m → DeclFacts (applyUpdates sc0 upd) upd d reg n := by
    intro m hm e
    subst e
    have hdo := defOf_num (x := d.var) hrc hm
    have hs := hin _ hdo
    refine ⟨hg, hrc, hs.1, hn, hne, serR_immNum_cases hs.2.2, ?_⟩
    rw [hdo]
    simp only [Option.map_some, toVInstr, defNum, toVReg_immNum_immVal hs.2.2]
    rfl
  unfold initNat at hn
  unfold C13.overrideTy at hty
  cases hl : Lang.lastVal d.var upd with
  | some v =>
    rw [hl] at hn hty
    simp only [Option.some.injEq] at hn
    exact ⟨reg, n, hnum v hty hn.symm⟩
  | none =>
    rw [hl] at hn hty
    simp only at hn hty
    split at hn
    · rename_i m hm
      simp only [Option.some.injEq] at hn
      exact ⟨reg, n, hnum m (by rw [hty, hm]) hn.symm⟩
    · rename_i b hb
      simp only [Option.some.injEq] at hn
      subst hn
      have hdo := defOf_bool (x := d.var) hrc (by rw [hty, hb] : reg.getType = .bool (some b))
      have hs := hin _ hdo
      refine ⟨reg, _, hg, hrc, hs.1, ?_, hne, ?_, ?_⟩
      · unfold initNat; rw [hl]; simp only [hb]
      · cases b <;> simp
      · rw [hdo]
        simp only [Option.map_some, toVInstr, defBool, toVReg_immBool_immVal]
        rfl
    · cases hn

theorem filterMap_map_eq {α β γ : Type} {f : α → Option β} {g : β → γ} {h : α → γ} {l : List α}
    (hh : ∀ a ∈ l, (f a).map g = some (h a)) : (l.filterMap f).map g = l.map h := by
  induction l with
  | nil => rfl
  | cons a rest ih =>
    have h1 := hh a List.mem_cons_self
    have h2 := ih (fun b hb => hh b (List.mem_cons_of_mem _ hb))
    cases hf : f a with
    | none => rw [hf] at h1; cases h1
    | some b =>
      rw [hf] at h1
      simp only [Option.map_some, Option.some.injEq] at h1
      simp only [List.filterMap_cons, hf, List.map_cons, h1, h2]

/-! ## T-C -/

/-- **T-C.** The DEF preamble is one DEF per declared variable (in register-file order). -/
theorem defsFor_of_compile (uid : Nat) (src : List Char) (upd : List (Name × Nat)) (ds : List Decl)
    (evs : List Event) (sc0 : Scope) (bin : Bin) (scF : Scope) (img : Bytes) (decls : List Sem.VarDecl)
    (hp : parseSource src = some (ds, evs))
    (hnd : (ds.map (·.var)).Nodup)
    (hfresh : ∀ d ∈ ds, (Scope.new uid).get d.var = none)
    (h0 : declareAll (Scope.new uid) ds = .ok sc0)
    (hc : compile uid src upd = .ok (bin, scF))
    (hser : bin.serialize = .ok img)
    (hv : varDecls ds upd = some decls) :
    DefsFor (fun n => (scF.get n).map toVReg) decls
      ((defInstrs (applyUpdates sc0 upd).named).map toVInstr) := by
  obtain ⟨ds', evs', sc0', hp', h0', hcp⟩ := C13.compile_ok hc
  rw [hp] at hp'
  simp only [Option.some.injEq, Prod.mk.injEq] at hp'
  obtain ⟨rfl, rfl⟩ := hp'
  rw [h0] at h0'
  cases h0'
  have hsi := serI_of_serialize hser
  have hdefs : ∀ i ∈ defInstrs (applyUpdates sc0 upd).named, SerI i :=
    fun i hi => hsi i (mem_compile_instrs hcp i hi)
  have hreach : Reach False (applyUpdates sc0 upd) scF := compileProg_reach (F := False) (fun f => f.elim) hcp
  have facts := decl_facts hnd hfresh h0 hv hdefs
  unfold DefsFor
  rw [defInstrs_eq_filterMap, (varDecls_inv hv).1]
  refine ((named_perm hnd hfresh h0 upd).filterMap defOf).map toVInstr |>.trans ?_
  rw [List.filterMap_append, defOf_builtin, List.nil_append, List.filterMap_map, List.map_map]
  refine List.Perm.of_eq (filterMap_map_eq ?_)
  intro d hd
  obtain ⟨reg, n, f⟩ := facts d (mem_split_decls.mpr hd)
  have hρ : rhoOf scF d.var = some (toVReg reg) := rhoOf_of_reach hreach f.get
  simp only [Function.comp_apply, f.get, Option.getD_some, f.defI, Option.some.injEq]
  simp only [mkDef, oneD, f.init, Option.getD_some]
  have hρ' : Option.map toVReg (scF.get d.var) = some (toVReg reg) := hρ
  rw [hρ']
  rfl

/-! ## the built-in table, by evaluation -/

instance (a b : VReg) : Decidable (sameCell a b) := by unfold sameCell; infer_instance

theorem abi_file : ∀ p ∈ C13.abiTable, fileOf (toVReg p.2).cls = 4 ∨ fileOf (toVReg p.2).cls = 2 := by
  decide +kernel

theorem abi_inj : ∀ p ∈ C13.abiTable, ∀ q ∈ C13.abiTable, sameCell (toVReg p.2) (toVReg q.2) → p.1 = q.1 := by
  decide +kernel

theorem abi_builtin : ∀ p ∈ C13.abiTable, isBuiltinName p.1.toList = true := by decide +kernel

theorem abi_prims : ∀ i (h : i < 15), ∃ p ∈ C13.abiTable, p.1 = primNames[i] ∧ toVReg p.2 = ⟨4, i⟩ := by
  decide +kernel

theorem abi_impls : ∀ i (h : i < 6), ∃ p ∈ C13.abiTable, p.1 = implNames[i] ∧ toVReg p.2 = ⟨2, i⟩ := by
  decide +kernel

theorem builtin_abi_name : ∀ s ∈ primNames ++ implNames, ∃ p ∈ C13.abiTable, p.1 = s := by decide +kernel

theorem isBuiltinName_abi {x : Name} (h : isBuiltinName x = true) : ∃ p ∈ C13.abiTable, p.1.toList = x := by
  unfold isBuiltinName at h
  simp only [Bool.or_eq_true, List.any_eq_true, decide_eq_true_eq] at h
  rcases h with ⟨s, hs, e⟩ | ⟨s, hs, e⟩
  · obtain ⟨p, hp, rfl⟩ := builtin_abi_name s (List.mem_append_left _ hs)
    exact ⟨p, hp, e⟩
  · obtain ⟨p, hp, rfl⟩ := builtin_abi_name s (List.mem_append_right _ hs)
    exact ⟨p, hp, e⟩

theorem toVReg_report {k : Nat} (t : Ty) (v : Bool) (h : k ≤ 15) :
    toVReg (.report k t v) = ⟨if v then 5 else 6, k⟩ := by
  simp only [toVReg, Reg.classIdx, if_neg (show ¬ k > 15 by omega)]

theorem toVReg_control {k : Nat} (t : Ty) (v : Bool) (h : k ≤ 15) :
    toVReg (.control k t v) = ⟨if v then 8 else 0, k⟩ := by
  simp only [toVReg, Reg.classIdx, if_neg (show ¬ k > 15 by omega)]

theorem toVReg_local {i : Nat} (t : Ty) (h : i ≤ 5) : toVReg (.local i t) = ⟨3, i⟩ := by
  simp only [toVReg, Reg.classIdx, if_neg (show ¬ i > 5 by omega)]

theorem SerR_report {k : Nat} {t : Ty} {v : Bool} (h : SerR (.report k t v)) : k ≤ 15 := by
  obtain ⟨c, x, h⟩ := h
  simp only [Reg.classIdx] at h
  split at h
  · cases h
  · omega

theorem SerR_control {k : Nat} {t : Ty} {v : Bool} (h : SerR (.control k t v)) : k ≤ 15 := by
  obtain ⟨c, x, h⟩ := h
  simp only [Reg.classIdx] at h
  split at h
  · cases h
  · omega

theorem SerR_of_slot {r r' : Reg} (h : r'.slot = r.slot) (hs : SerR r) : SerR r' := by
  obtain ⟨c, x, hc⟩ := hs
  exact ⟨c, x, by rw [← classIdx_slot, h, classIdx_slot, hc]⟩

/-! ## the bindings of the final scope, classified -/

/-- the kinds of bindings `x ↦ r` in the final scope, with the machine cell `v = toVReg r` of each -/
inductive Kind (uid : Nat) (ds : List Decl) (scF : Scope) (x : Name) (v : VReg) : Prop
  | builtin (p : String × Reg) (hp : p ∈ C13.abiTable) (hx : p.1.toList = x) (hv : v = toVReg p.2)
  | report (k : Nat) (hk : k < (reportsOf ds).length) (hx : x = (reportsOf ds)[k].var)
      (hv : v = ⟨if (reportsOf ds)[k].vol then 5 else 6, k⟩) (hb : k ≤ 15)
  | control (k : Nat) (hk : k < (controlsOf ds).length) (hx : x = (controlsOf ds)[k].var)
      (hv : v = ⟨if (controlsOf ds)[k].vol then 8 else 0, k⟩) (hb : k ≤ 15)
  | loc (i : Nat) (t : Ty) (hr : scF.get x = some (.local i t)) (hv : v = ⟨3, i⟩) (hb : i ≤ 5)
      (hnb : (Scope.new uid).get x = none) (hnd : ∀ d ∈ ds, d.var ≠ x)

macro "file_contra" h:ident : tactic =>
  `(tactic| (revert $h:ident; dsimp only; (repeat' split) <;> decide))

theorem filter_isReport (ds : List Decl) (upd : List (Name × Nat)) :
    ((reportsOf ds ++ controlsOf ds).map (oneD upd)).filter (·.isReport) = (reportsOf ds).map (oneD upd) := by
  rw [List.filter_map, List.filter_append]
  have h1 : (reportsOf ds).filter ((fun d : Sem.VarDecl => d.isReport) ∘ oneD upd) = reportsOf ds := by
    apply List.filter_eq_self.mpr
    intro d hd
    exact (List.mem_filter.mp hd).2
  have h2 : (controlsOf ds).filter ((fun d : Sem.VarDecl => d.isReport) ∘ oneD upd) = [] := by
    apply List.filter_eq_nil_iff.mpr
    intro d hd
    have := (List.mem_filter.mp hd).2
    simp only [Function.comp_apply, oneD]
    intro h
    rw [h] at this
    cases this
  rw [h1, h2, List.append_nil]

theorem filter_notReport (ds : List Decl) (upd : List (Name × Nat)) :
    ((reportsOf ds ++ controlsOf ds).map (oneD upd)).filter (!·.isReport) = (controlsOf ds).map (oneD upd) := by
  rw [List.filter_map, List.filter_append]
  have h1 : (reportsOf ds).filter ((fun d : Sem.VarDecl => !d.isReport) ∘ oneD upd) = [] := by
    apply List.filter_eq_nil_iff.mpr
    intro d hd
    have := (List.mem_filter.mp hd).2
    simp only [Function.comp_apply, oneD]
    intro h
    rw [this] at h
    cases h
  have h2 : (controlsOf ds).filter ((fun d : Sem.VarDecl => !d.isReport) ∘ oneD upd) = controlsOf ds := by
    apply List.filter_eq_self.mpr
    intro d hd
    exact (List.mem_filter.mp hd).2
  rw [h1, h2, List.nil_append]

theorem immVal_inits {n : Nat} (hf : n = 2^64 - 1 ∨ n < 2^31) (hne : n ≠ 0x3fffffff) :
    ((Sem.immVal n).toNat < 2^31 ∨ Sem.immVal n = U32MAX) ∧ (Sem.immVal n).toNat ≠ 0x3fffffff := by
  by_cases e : n = 2^64 - 1
  · subst e
    exact ⟨Or.inr (by decide), by decide⟩
  · have hlt : n < 2^31 := by rcases hf with h | h; exact absurd h e; exact h
    have := immVal_toNat hf
    rw [Nat.mod_eq_of_lt (by omega)] at this
    rw [this]
    exact ⟨Or.inl hlt, hne⟩

/-! ## T-B -/

/-- **T-B.** The final scope of an accepted program with literal initial values is a register
assignment as the simulation proof needs it.

`hloc` (at most 6 local variables) is an **added** hypothesis: the encoder checks only registers that
occur in instructions, and a local with index 6 or 7 — `RhoOk.vars` would allow `idx < 8` — is not
encodable (`Reg.classIdx` refuses local indices above 5), so `toVReg` maps it outside class 3. The
index bounds of report and control variables are *derived*: every declared variable has a DEF
instruction (`varDecls = some _`: all initial values are literals), which the encoder accepted. -/
theorem rhoOk_of_compile (uid : Nat) (src : List Char) (upd : List (Name × Nat)) (ds : List Decl)
    (evs : List Event) (bin : Bin) (scF : Scope) (img : Bytes) (decls : List Sem.VarDecl)
    (hp : parseSource src = some (ds, evs))
    (hnd : (ds.map (·.var)).Nodup)
    (hfresh : ∀ d ∈ ds, (Scope.new uid).get d.var = none)
    (hc : compile uid src upd = .ok (bin, scF))
    (hser : bin.serialize = .ok img)
    (hv : varDecls ds upd = some decls)
    (hloc : scF.numLocal ≤ 6) :
    RhoOk (fun n => (scF.get n).map toVReg) decls := by
  obtain ⟨ds', evs', sc0, hp', h0, hcp⟩ := C13.compile_ok hc
  rw [hp] at hp'
  simp only [Option.some.injEq, Prod.mk.injEq] at hp'
  obtain ⟨rfl, rfl⟩ := hp'
  have hsi := serI_of_serialize hser
  have hdefs : ∀ i ∈ defInstrs (applyUpdates sc0 upd).named, SerI i :=
    fun i hi => hsi i (mem_compile_instrs hcp i hi)
  have hreach : Reach False (applyUpdates sc0 upd) scF := compileProg_reach (F := False) (fun f => f.elim) hcp
  have facts := decl_facts hnd hfresh h0 hv hdefs
  obtain ⟨s1, s2, -, s4, ⟨s5b, s5i, -⟩, s6⟩ :=
    C13.compile_scope_slots uid src upd ds evs bin scF hp hnd hfresh hc
  obtain ⟨hdecls, -⟩ := varDecls_inv hv
  -- index bounds from the DEF instructions
  have serF : ∀ d ∈ ds, ∀ r, scF.get d.var = some r → SerR r := by
    intro d hd r hr
    obtain ⟨reg, n, f⟩ := facts d hd
    obtain ⟨r', h1, h2⟩ := hreach.fwd f.get
    rw [hr] at h1; cases h1
    exact SerR_of_slot h2 f.ser
  have repB : ∀ k (hk : k < (reportsOf ds).length), k ≤ 15 := fun k hk =>
    SerR_report (serF _ (mem_split_decls.mpr (List.mem_append_left _ (List.getElem_mem hk))) _ (s1 k hk))
  have ctlB : ∀ k (hk : k < (controlsOf ds).length), k ≤ 15 := fun k hk =>
    SerR_control (serF _ (mem_split_decls.mpr (List.mem_append_right _ (List.getElem_mem hk))) _ (s2 k hk))
  -- classification of every binding
  have classify : ∀ x r, (scF.get x).map toVReg = some r → Kind uid ds scF x r := by
    intro x r hx
    obtain ⟨reg, hg, rfl⟩ := Option.map_eq_some_iff.mp hx
    rcases s6 x reg hg with ⟨p, hp1, hp2, rfl⟩ | ⟨k, hk, rfl, rfl⟩ | ⟨k, hk, rfl, rfl⟩ | ⟨i, t, rfl, hnb, hndl⟩
    · exact .builtin p hp1 hp2 rfl
    · exact .report k hk rfl (toVReg_report _ _ (repB k hk)) (repB k hk)
    · exact .control k hk rfl (toVReg_control _ _ (ctlB k hk)) (ctlB k hk)
    · have hi : i ≤ 5 := by have := s5b x i t hg; omega
      exact .loc i t hg (toVReg_local _ hi) hi hnb hndl
  have notBuiltin : ∀ d ∈ ds, isBuiltinName d.var = false := by
    intro d hd
    cases hb : isBuiltinName d.var with
    | false => rfl
    | true =>
      obtain ⟨p, hp1, hp2⟩ := isBuiltinName_abi hb
      have := (C13.builtin_abi uid).1 p hp1
      rw [hp2, hfresh d hd] at this
      cases this
  have declOf : ∀ d ∈ decls, ∃ d0 ∈ ds, d = oneD upd d0 := by
    intro d hd
    rw [hdecls] at hd
    obtain ⟨d0, h0', rfl⟩ := List.mem_map.mp hd
    exact ⟨d0, mem_split_decls.mpr h0', rfl⟩
  have isDecl : ∀ d0 ∈ ds, ∃ d ∈ decls, d.name = d0.var := by
    intro d0 h0'
    refine ⟨oneD upd d0, ?_, rfl⟩
    rw [hdecls]
    exact List.mem_map.mpr ⟨d0, mem_split_decls.mp h0', rfl⟩
  refine ⟨?_, ?_, ?_, ?_, ?_, ?_, ?_, ?_, ?_, ?_⟩
  · -- prims
    intro i h
    obtain ⟨p, hp1, hp2, hp3⟩ := abi_prims i h
    rw [← hp2, s4 p hp1, Option.map_some, hp3]
  · -- impls
    intro i h
    obtain ⟨p, hp1, hp2, hp3⟩ := abi_impls i h
    rw [← hp2, s4 p hp1, Option.map_some, hp3]
  · -- vars
    intro x r hx hnb
    cases classify x r hx with
    | builtin p hp1 hp2 hv => rw [← hp2, abi_builtin p hp1] at hnb; cases hnb
    | report k hk hx' hv hb =>
      subst hv; right; right
      exact ⟨by split <;> simp, by show k < 110; omega⟩
    | control k hk hx' hv hb =>
      subst hv; right; left
      exact ⟨by split <;> simp, by show k < 110; omega⟩
    | loc i t hr hv hb _ _ => subst hv; left; exact ⟨rfl, by show i < 8; omega⟩
  · -- inj
    intro x y rx ry hx hy hs
    have kx := classify x rx hx
    have ky := classify y ry hy
    have hfile : fileOf rx.cls = fileOf ry.cls := hs.1
    have hidx : rx.idx = ry.idx := hs.2
    cases kx with
    | builtin p hp1 hp2 hv =>
      cases ky with
      | builtin q hq1 hq2 hw =>
        subst hv hw
        rw [← hp2, ← hq2, abi_inj p hp1 q hq1 hs]
      | report k hk hx' hw hb =>
        subst hv hw; exfalso
        rcases abi_file p hp1 with h | h <;> rw [h] at hfile <;> file_contra hfile
      | control k hk hx' hw hb =>
        subst hv hw; exfalso
        rcases abi_file p hp1 with h | h <;> rw [h] at hfile <;> file_contra hfile
      | loc i t hr hw hb _ _ =>
        subst hv hw; exfalso
        rcases abi_file p hp1 with h | h <;> rw [h] at hfile <;> file_contra hfile
    | report k hk hx' hv hb =>
      cases ky with
      | builtin q hq1 hq2 hw =>
        subst hv hw; exfalso
        rcases abi_file q hq1 with h | h <;> rw [h] at hfile <;> file_contra hfile
      | report k' hk' hy' hw hb' =>
        subst hv hw
        simp only at hidx
        subst hidx
        rw [hx', hy']
      | control k' hk' hy' hw hb' =>
        subst hv hw; exfalso
        file_contra hfile
      | loc i t hr hw hb' _ _ =>
        subst hv hw; exfalso
        file_contra hfile
    | control k hk hx' hv hb =>
      cases ky with
      | builtin q hq1 hq2 hw =>
        subst hv hw; exfalso
        rcases abi_file q hq1 with h | h <;> rw [h] at hfile <;> file_contra hfile
      | report k' hk' hy' hw hb' =>
        subst hv hw; exfalso
        file_contra hfile
      | control k' hk' hy' hw hb' =>
        subst hv hw
        simp only at hidx
        subst hidx
        rw [hx', hy']
      | loc i t hr hw hb' _ _ =>
        subst hv hw; exfalso
        file_contra hfile
    | loc i t hr hv hb _ _ =>
      cases ky with
      | builtin q hq1 hq2 hw =>
        subst hv hw; exfalso
        rcases abi_file q hq1 with h | h <;> rw [h] at hfile <;> file_contra hfile
      | report k' hk' hy' hw hb' =>
        subst hv hw; exfalso
        file_contra hfile
      | control k' hk' hy' hw hb' =>
        subst hv hw; exfalso
        file_contra hfile
      | loc i' t' hr' hw hb' _ _ =>
        subst hv hw
        simp only at hidx
        subst hidx
        exact s5i x y i t t' hr hr'
  · -- reports
    have key : ∀ L : List Sem.VarDecl, L = (reportsOf ds).map (oneD upd) → ∀ k (h : k < L.length),
        (scF.get L[k].name).map toVReg = some ⟨if L[k].vol then 5 else 6, k⟩ := by
      intro L hL
      subst hL
      intro k h
      have hk : k < (reportsOf ds).length := by simpa using h
      simp only [List.getElem_map, oneD]
      rw [s1 k hk, Option.map_some, toVReg_report _ _ (repB k hk)]
    exact key _ (by rw [hdecls, filter_isReport])
  · -- controls
    have key : ∀ L : List Sem.VarDecl, L = (controlsOf ds).map (oneD upd) → ∀ k (h : k < L.length),
        (scF.get L[k].name).map toVReg = some ⟨if L[k].vol then 8 else 0, k⟩ := by
      intro L hL
      subst hL
      intro k h
      have hk : k < (controlsOf ds).length := by simpa using h
      simp only [List.getElem_map, oneD]
      rw [s2 k hk, Option.map_some, toVReg_control _ _ (ctlB k hk)]
    exact key _ (by rw [hdecls, filter_notReport])
  · -- declNames
    intro d hd
    obtain ⟨d0, h0', rfl⟩ := declOf d hd
    exact notBuiltin d0 h0'
  · -- declNodup
    rw [hdecls, List.map_map]
    have hperm : (reportsOf ds ++ controlsOf ds).Perm ds := List.filter_append_perm _ ds
    exact (hperm.map (·.var)).nodup_iff.mpr hnd
  · -- inits
    intro d hd
    obtain ⟨d0, h0', rfl⟩ := declOf d hd
    obtain ⟨reg, n, f⟩ := facts d0 h0'
    simp only [oneD, f.init, Option.getD_some]
    exact immVal_inits f.fits f.notInf
  · -- locals
    intro x r hx hnb hnd'
    cases classify x r hx with
    | builtin p hp1 hp2 hv => rw [← hp2, abi_builtin p hp1] at hnb; cases hnb
    | report k hk hx' hv hb =>
      exfalso
      obtain ⟨d, hd1, hd2⟩ := isDecl _ (mem_split_decls.mpr (List.mem_append_left _ (List.getElem_mem hk)))
      exact hnd' d hd1 (by rw [hd2, hx'])
    | control k hk hx' hv hb =>
      exfalso
      obtain ⟨d, hd1, hd2⟩ := isDecl _ (mem_split_decls.mpr (List.mem_append_right _ (List.getElem_mem hk)))
      exact hnd' d hd1 (by rw [hd2, hx'])
    | loc i t hr hv hb _ _ => subst hv; rfl

/-! ## Non-vacuity, and the former counter-example to T-A without `DefBeforeUse` -/

/-- the conclusion of T-A as a check of one compilation (hypotheses `InOracle` and serializability
included; `true` when a hypothesis fails). With `withDbu` the former hypothesis `DefBeforeUse` is
added to them: `refinesOn true` is what was provable before the repair F11, `refinesOn false` is the
full statement. -/
def refinesOn (withDbu : Bool) (uid : Nat) (src : List Char) (upd : List (Name × Nat)) : Bool :=
  match parseSource src with
  | none => true
  | some (ds, evs) =>
    match declareAll (Scope.new uid) ds with
    | .ok sc0 =>
      match compileProg evs (applyUpdates sc0 upd) with
      | .ok (bin, scF) =>
        if !InOracle evs then true
        else if withDbu && !DefBeforeUse ds evs then true
        else match bin.serialize with
          | .ok _ =>
            decide (lowerProg (fun n => (scF.get n).map toVReg)
                ((defInstrs (applyUpdates sc0 upd).named).map toVInstr) evs =
              some ⟨bin.events.map evToExpr, bin.instrs.map toVInstr⟩)
          | _ => true
      | _ => true
    | _ => true

/-- T-A says: the check never fails, with or without `DefBeforeUse` -/
theorem refinesOn_true (withDbu : Bool) (uid : Nat) (src : List Char) (upd : List (Name × Nat)) :
    refinesOn withDbu uid src upd = true := by
  unfold refinesOn
  split
  · rfl
  · rename_i ds evs hp
    split
    · rename_i sc0 h0
      split
      · rename_i bin scF hc
        split
        · rfl
        · rename_i hst
          split
          · rfl
          · split
            · rename_i img hser
              simp only [Bool.not_eq_true', Bool.not_eq_false] at hst
              exact decide_eq_true
                (compile_refines_lower uid src upd ds evs sc0 bin scF img hp h0 hc hst hser)
            · rfl
      · rfl
    · rfl

/-- a program that uses `y` before any definition: accepted, stratified, encodable. Before the repair
F11 (`fix: bind must not copy an untyped right-hand side's Type::Name onto its target`) the statement
without `DefBeforeUse` failed on it: `(:= x 3)` was compiled to `bind y y 3` (the register of `y`, whose name
had become the recorded type of `x`); `refinesOn false 1 cexSrc [] = false` was then a `decide +kernel`
theorem. With the repaired `bindTarget` T-A holds without the hypothesis, so the check passes — now as an
instance of the theorem (`refinesOn_true false`); the `#guard` is kept as a compiler-evaluated test. -/
def cexSrc : List Char := "(def (Report (acked 0)) (c 0)) (when true (:= x y) (:= x 3))".toList

#guard refinesOn false 1 cexSrc [] = true   -- a test (compiler-evaluated), not a theorem

example : refinesOn false 1 cexSrc [] = true := refinesOn_true false 1 cexSrc []

/-- `cexSrc` continued so that the value of the re-typed `x` is observable: the never-assigned `y` is read,
`x` stays untyped after `(:= x y)`, is re-typed by `(:= x 3)`, then reported -/
def cexSrc2 : List Char :=
  "(def (Report (acked 0)) (c 0)) (when true (:= x y) (:= x 3) (:= Report.acked x) (report))".toList

#guard refinesOn false 1 cexSrc2 [] = true   -- a test (compiler-evaluated), not a theorem

/-- non-vacuity of T-A: the example program of C13 satisfies every hypothesis -/
theorem exSrc_hyps :
    (match parseSource C13.exSrc with
      | some (_, evs) =>
        Stratified evs && InOracle evs &&
        (match compile 3 C13.exSrc [("bar".toList, 9)] with
          | .ok (bin, _) => bin.serialize.isOk
          | _ => false)
      | none => false) = true := by decide +kernel

/-- non-vacuity of T-A *outside* the former hypothesis: `cexSrc2` reads a never-assigned name
(`DefBeforeUse` is false for it) and satisfies every hypothesis of T-A -/
theorem cexSrc2_hyps :
    (match parseSource cexSrc2 with
      | some (ds, evs) =>
        Stratified evs && InOracle evs && !DefBeforeUse ds evs &&
        (match compile 1 cexSrc2 [] with
          | .ok (bin, _) => bin.serialize.isOk
          | _ => false)
      | none => false) = true := by decide +kernel

/-- a program with a plain bind used as a value (`Report.saved` is assigned inside the expression bound to
`Report.out`): outside `Stratified`, inside `InOracle` -/
def nestedSrc : List Char :=
  ("(def (Report (out 0) (saved 0))) (when true (:= Report.out (+ (* Ack.bytes_acked 2) " ++
   "(+ (:= Report.saved Ack.packets_acked) 1))) (report))").toList

#guard refinesOn false 1 nestedSrc [] = true   -- a test (compiler-evaluated), not a theorem

/-- non-vacuity of T-A on nested binds: `nestedSrc` is not stratified and satisfies every hypothesis of T-A -/
theorem nestedSrc_hyps :
    (match parseSource nestedSrc with
      | some (_, evs) =>
        !Stratified evs && InOracle evs &&
        (match compile 1 nestedSrc [] with
          | .ok (bin, _) => bin.serialize.isOk
          | _ => false)
      | none => false) = true := by decide +kernel

end Portus.Lang.Frag
