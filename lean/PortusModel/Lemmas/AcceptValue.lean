import PortusModel.Lemmas.Accept
/-!
# C20, acceptance: assignments used as values (`typeOfG`, `typeOfV`, `checkStmtV`, `checkCondV`, …)

The stage lemma `compile_valueG` generalises `compile_pure` (`Accept.lean`) to expressions that contain
assignments – plain or guarded – in value position (`compile_value` is its restriction to values). Three
things are new with respect to pure expressions:

* the scope changes while an expression is compiled (new locals, re-typed locals), so the lemma
  threads the typing environment exactly as `typeOfG` does;
* the compiler allocates the local of a new target **before** it compiles the right-hand side, and
  gives it a type only **after**: in between the scope holds *pending* locals, bound (to a register
  whose recorded type is still their own name) but unknown to the typing environment. The invariant
  `InvP Γ P sc` carries the list `P` of such names;
* a guarded form (`if`, `!if`, `ewma`) compiles to an instruction *without result register* and yields the
  placeholder `Reg::None` (`GuardOut`); the `Op::Bind` arm with a declared variable on the left gives the
  instruction its result register and yields a value again.

Conditions (`compile_flagV`) are value expressions whose top node is an operator (or a boolean
literal); the environment and the scope they leave are those the body is checked / compiled in.
The statement rules `checkRhsV`, … are instances of the value rule (`checkRhsV_eq`, `checkStmtV_eq`).
-/
namespace Portus.Lang.Typing
open Portus Portus.Lang

/-! ## `lookup`, `setTy`, `numLocals` -/

theorem lookup_setTy (y x : Name) (τ : Ty) (Γ : Env) :
    lookup y (setTy x τ Γ) = if y = x then (lookup x Γ).map (fun kt => (kt.1, τ)) else lookup y Γ := by
  induction Γ with
  | nil => simp [setTy, lookup]
  | cons p rest ih =>
    obtain ⟨z, k, t⟩ := p
    have hcons : setTy x τ ((z, k, t) :: rest) = (if z = x then (z, k, τ) else (z, k, t)) :: setTy x τ rest := rfl
    rw [hcons]
    by_cases hzx : z = x
    · subst hzx
      rw [if_pos rfl]
      by_cases hy : z = y
      · subst hy
        simp only [lookup_cons, if_true, Option.map_some]
      · have hy' : ¬ y = z := fun e => hy e.symm
        rw [lookup_cons, if_neg hy, ih, if_neg hy', if_neg hy', lookup_cons, if_neg hy]
    · rw [if_neg hzx]
      by_cases hy : z = y
      · subst hy
        rw [lookup_cons, if_pos rfl, if_neg hzx, lookup_cons, if_pos rfl]
      · rw [lookup_cons, if_neg hy, ih]
        by_cases hyx : y = x
        · subst hyx
          rw [if_pos rfl, if_pos rfl, lookup_cons, if_neg hzx]
        · rw [if_neg hyx, if_neg hyx, lookup_cons, if_neg hy]

theorem lookup_setTy_isNone (y x : Name) (τ : Ty) (Γ : Env) :
    (lookup y (setTy x τ Γ)).isNone = (lookup y Γ).isNone := by
  rw [lookup_setTy]
  split
  · rename_i h; subst h; cases lookup y Γ <;> rfl
  · rfl

theorem numLocals_setTy (x : Name) (τ : Ty) (Γ : Env) : numLocals (setTy x τ Γ) = numLocals Γ := by
  induction Γ with
  | nil => rfl
  | cons p rest ih =>
    obtain ⟨z, k, t⟩ := p
    have hcons : setTy x τ ((z, k, t) :: rest) = (if z = x then (z, k, τ) else (z, k, t)) :: setTy x τ rest := rfl
    rw [hcons]
    unfold numLocals at ih ⊢
    rw [List.countP_cons, List.countP_cons, ih]
    split <;> rfl

theorem numLocals_cons_loc (x : Name) (τ : Ty) (Γ : Env) :
    numLocals ((x, Kind.loc, τ) :: Γ) = numLocals Γ + 1 := by
  simp [numLocals]

/-! ## Pending names -/

/-- the names of `P` that `Γ` does not know (yet) -/
def pendOf (P : List Name) (Γ : Env) : List Name := P.filter fun y => (lookup y Γ).isNone

/-- locals in existence: those of `Γ` plus the pending ones -/
def mu (Γ : Env) (P : List Name) : Nat := numLocals Γ + (pendOf P Γ).length

theorem pendOf_cons_known {x : Name} {P : List Name} {Γ : Env} (h : (lookup x Γ).isSome = true) :
    pendOf (x :: P) Γ = pendOf P Γ := by
  unfold pendOf
  rw [List.filter_cons]
  rw [if_neg (by cases hl : lookup x Γ <;> simp_all)]

theorem pendOf_cons_unknown {x : Name} {P : List Name} {Γ : Env} (h : lookup x Γ = none) :
    pendOf (x :: P) Γ = x :: pendOf P Γ := by
  unfold pendOf
  rw [List.filter_cons, if_pos (by rw [h]; rfl)]

theorem pendOf_congr {P : List Name} {Γ1 Γ2 : Env}
    (h : ∀ y, (lookup y Γ1).isNone = (lookup y Γ2).isNone) : pendOf P Γ1 = pendOf P Γ2 := by
  unfold pendOf
  congr 1
  funext y
  exact h y

theorem pendOf_cons_env (P : List Name) (x : Name) (kt : Kind × Ty) (Γ : Env) :
    pendOf P ((x, kt) :: Γ) = (pendOf P Γ).filter fun y => decide (y ≠ x) := by
  unfold pendOf
  rw [List.filter_filter]
  congr 1
  funext y
  rw [lookup_cons]
  by_cases h : x = y
  · subst h; simp
  · rw [if_neg h]
    have : decide (y ≠ x) = true := by simp only [decide_eq_true_eq]; exact fun e => h e.symm
    rw [this, Bool.true_and]

theorem filter_ne_length {l : List Name} (hn : l.Nodup) (x : Name) :
    (l.filter fun y => decide (y ≠ x)).length + (if x ∈ l then 1 else 0) = l.length := by
  induction l with
  | nil => simp
  | cons a rest ih =>
    have hn' := List.nodup_cons.mp hn
    have ih' := ih hn'.2
    rw [List.filter_cons]
    by_cases hax : a = x
    · subst hax
      rw [if_neg (by simp), if_pos List.mem_cons_self]
      rw [if_neg hn'.1] at ih'
      simp only [List.length_cons]
      omega
    · rw [if_pos (by simp only [decide_eq_true_eq]; exact hax)]
      simp only [List.length_cons, List.mem_cons]
      by_cases hx : x ∈ rest
      · rw [if_pos hx] at ih'
        rw [if_pos (Or.inr hx)]
        omega
      · rw [if_neg hx] at ih'
        rw [if_neg (by rintro (h | h); exact hax h.symm; exact hx h)]
        omega

theorem pendOf_nodup {P : List Name} (hn : P.Nodup) (Γ : Env) : (pendOf P Γ).Nodup :=
  hn.filter _

theorem mem_pendOf {x : Name} {P : List Name} {Γ : Env} :
    x ∈ pendOf P Γ ↔ x ∈ P ∧ lookup x Γ = none := by
  unfold pendOf
  rw [List.mem_filter]
  cases lookup x Γ <;> simp

/-- adding an unknown name to the environment as a local: the number of locals in existence grows by
one unless the name was pending -/
theorem mu_cons_loc {P : List Name} (hn : P.Nodup) {x : Name} {Γ : Env} (hx : lookup x Γ = none) (τ : Ty) :
    mu ((x, Kind.loc, τ) :: Γ) P + (if x ∈ P then 1 else 0) = mu Γ P + 1 := by
  unfold mu
  rw [numLocals_cons_loc, pendOf_cons_env]
  have := filter_ne_length (pendOf_nodup hn Γ) x
  have hiff : x ∈ pendOf P Γ ↔ x ∈ P := by
    rw [mem_pendOf]; exact ⟨fun h => h.1, fun h => ⟨h, hx⟩⟩
  by_cases hxP : x ∈ P
  · rw [if_pos (hiff.mpr hxP)] at this
    rw [if_pos hxP]
    omega
  · rw [if_neg (fun h => hxP (hiff.mp h))] at this
    rw [if_neg hxP]
    omega

theorem mu_setTy (P : List Name) (x : Name) (τ : Ty) (Γ : Env) : mu (setTy x τ Γ) P = mu Γ P := by
  unfold mu
  rw [numLocals_setTy, pendOf_congr (lookup_setTy_isNone · x τ Γ)]

theorem mu_cons_known {x : Name} {P : List Name} {Γ : Env} (h : (lookup x Γ).isSome = true) :
    mu Γ (x :: P) = mu Γ P := by
  unfold mu; rw [pendOf_cons_known h]

theorem mu_cons_unknown {x : Name} {P : List Name} {Γ : Env} (h : lookup x Γ = none) :
    mu Γ (x :: P) = mu Γ P + 1 := by
  unfold mu; rw [pendOf_cons_unknown h]; simp only [List.length_cons]; omega

/-! ## Inversion of `typeOfV` -/

theorem bindName_some {o : Op} {l : Expr} {x : Name} (h : bindName o l = some x) :
    o = .bind ∧ l = .atom (.name x) := by
  unfold bindName at h
  split at h
  · simp only [Option.some.injEq] at h; subst h; exact ⟨rfl, rfl⟩
  · cases h

theorem typeOfV_eq_some {Γ Γ' : Env} {e : Expr} {τ : Ty} :
    typeOfV Γ e = some (τ, Γ') ↔ typeOfG Γ e = some (some τ, Γ') := by
  unfold typeOfV
  cases h : typeOfG Γ e with
  | none => simp
  | some p =>
    obtain ⟨oτ, Γ1⟩ := p
    cases oτ with
    | none => simp
    | some τ1 => simp

theorem typeOfV_eq_none {Γ : Env} {e : Expr} (h : typeOfG Γ e = none) : typeOfV Γ e = none := by
  unfold typeOfV; rw [h]

theorem typeOfV_of_guard {Γ Γ' : Env} {e : Expr} (h : typeOfG Γ e = some (none, Γ')) : typeOfV Γ e = none := by
  unfold typeOfV; rw [h]

theorem typeOfV_of_val {Γ Γ' : Env} {e : Expr} {τ : Ty} (h : typeOfG Γ e = some (some τ, Γ')) :
    typeOfV Γ e = some (τ, Γ') := typeOfV_eq_some.mpr h

theorem typeOfG_op {o : Op} {a res : Ty} (hs : opSig o = some (a, res)) (Γ : Env) (l r : Expr) :
    typeOfG Γ (.sexp o l r) =
      match typeOfG Γ l with
      | some (some tl, Γ1) =>
        match typeOfG Γ1 r with
        | some (some tr, Γ2) => if tl = a ∧ tr = a then some (some res, Γ2) else none
        | _ => none
      | _ => none := by
  rw [typeOfG, hs]
  rfl

theorem typeOfG_bind (Γ : Env) (x : Name) (r : Expr) :
    typeOfG Γ (.sexp .bind (.atom (.name x)) r) =
      match typeOfG Γ r with
      | some (some τ, Γ') => (bindValue Γ Γ' x τ).map fun p => (some p.1, p.2)
      | some (none, Γ') => bindGuarded Γ Γ' x
      | none => none := by
  rw [typeOfG]
  simp only [opSig, bindName]
  rfl

theorem guardOk_op {o : Op} {tl tr : Ty} (h : guardOk o tl tr = true) : o = .if ∨ o = .notIf ∨ o = .ewma := by
  cases o <;> cases tl <;> cases tr <;> simp [guardOk] at h <;> simp

theorem bindGuarded_inv {Γ Γ' Γ'' : Env} {x : Name} {oτ : Option Ty} (h : bindGuarded Γ Γ' x = some (oτ, Γ'')) :
    ∃ τ, oτ = some τ ∧ Γ'' = Γ' ∧ lookup x Γ = some (Kind.var, τ) := by
  unfold bindGuarded guardedTargetDeclared at h
  cases hl : lookup x Γ with
  | none => rw [hl] at h; simp at h
  | some kt =>
    obtain ⟨k, τ⟩ := kt
    rw [hl] at h
    simp only [decide_eq_true_eq, Option.map_some] at h
    split at h
    · rename_i hk
      subst hk
      simp only [Option.some.injEq, Prod.mk.injEq] at h
      exact ⟨τ, h.1.symm, h.2.symm, rfl⟩
    · cases h

/-- the four ways an operator node can be typed: an operator of `opSig`, a plain assignment, a guarded
assignment (all three are values), or a guarded form (a placeholder) -/
theorem typeOfG_sexp_inv {Γ Γ'' : Env} {o : Op} {l r : Expr} {oτ : Option Ty}
    (h : typeOfG Γ (.sexp o l r) = some (oτ, Γ'')) :
    (∃ a τ Γ1, opSig o = some (a, τ) ∧ oτ = some τ ∧ typeOfG Γ l = some (some a, Γ1) ∧
      typeOfG Γ1 r = some (some a, Γ'')) ∨
    (∃ x τr τ Γ', o = .bind ∧ l = .atom (.name x) ∧ oτ = some τ ∧ typeOfG Γ r = some (some τr, Γ') ∧
      bindValue Γ Γ' x τr = some (τ, Γ'')) ∨
    (∃ x τ, o = .bind ∧ l = .atom (.name x) ∧ oτ = some τ ∧ typeOfG Γ r = some (none, Γ'') ∧
      lookup x Γ = some (Kind.var, τ)) ∨
    (∃ tl tr Γ1, (o = .if ∨ o = .notIf ∨ o = .ewma) ∧ oτ = none ∧ guardOk o tl tr = true ∧
      typeOfG Γ l = some (some tl, Γ1) ∧ typeOfG Γ1 r = some (some tr, Γ'')) := by
  rw [typeOfG] at h
  cases hs : opSig o with
  | some ar =>
    obtain ⟨a, res⟩ := ar
    rw [hs] at h
    simp only at h
    left
    cases hl : typeOfG Γ l with
    | none => rw [hl] at h; cases h
    | some p1 =>
      obtain ⟨otl, Γ1⟩ := p1
      cases otl with
      | none => rw [hl] at h; cases h
      | some tl =>
        rw [hl] at h
        simp only at h
        cases hr : typeOfG Γ1 r with
        | none => rw [hr] at h; cases h
        | some p2 =>
          obtain ⟨otr, Γ2⟩ := p2
          cases otr with
          | none => rw [hr] at h; cases h
          | some tr =>
            rw [hr] at h
            simp only at h
            split at h
            · rename_i hand
              obtain ⟨rfl, rfl⟩ := hand
              simp only [Option.some.injEq, Prod.mk.injEq] at h
              obtain ⟨rfl, rfl⟩ := h
              exact ⟨_, _, _, rfl, rfl, rfl, hr⟩
            · cases h
  | none =>
    rw [hs] at h
    simp only at h
    right
    cases hb : bindName o l with
    | some x =>
      rw [hb] at h
      simp only at h
      obtain ⟨rfl, rfl⟩ := bindName_some hb
      cases hr : typeOfG Γ r with
      | none => rw [hr] at h; cases h
      | some p =>
        obtain ⟨oτr, Γ'⟩ := p
        rw [hr] at h
        cases oτr with
        | some τr =>
          simp only at h
          left
          cases hbv : bindValue Γ Γ' x τr with
          | none => rw [hbv] at h; cases h
          | some q =>
            obtain ⟨τ, Γ2⟩ := q
            rw [hbv] at h
            simp only [Option.map_some, Option.some.injEq, Prod.mk.injEq] at h
            obtain ⟨rfl, rfl⟩ := h
            exact ⟨x, τr, τ, Γ', rfl, rfl, rfl, rfl, hbv⟩
        | none =>
          simp only at h
          right; left
          obtain ⟨τ, rfl, rfl, hlk⟩ := bindGuarded_inv h
          exact ⟨x, τ, rfl, rfl, rfl, rfl, hlk⟩
    | none =>
      rw [hb] at h
      simp only at h
      right; right
      cases hl : typeOfG Γ l with
      | none => rw [hl] at h; cases h
      | some p1 =>
        obtain ⟨otl, Γ1⟩ := p1
        cases otl with
        | none => rw [hl] at h; cases h
        | some tl =>
          rw [hl] at h
          simp only at h
          cases hr : typeOfG Γ1 r with
          | none => rw [hr] at h; cases h
          | some p2 =>
            obtain ⟨otr, Γ2⟩ := p2
            cases otr with
            | none => rw [hr] at h; cases h
            | some tr =>
              rw [hr] at h
              simp only at h
              split at h
              · rename_i hg
                simp only [Option.some.injEq, Prod.mk.injEq] at h
                obtain ⟨rfl, rfl⟩ := h
                exact ⟨tl, tr, Γ1, guardOk_op hg, rfl, hg, rfl, hr⟩
              · cases h

/-- the three outcomes of the `Op::Bind` arm -/
theorem bindValue_inv {Γ Γ' Γ'' : Env} {x : Name} {τr τ : Ty} (h : bindValue Γ Γ' x τr = some (τ, Γ'')) :
    (∃ k, lookup x Γ = some (k, τ) ∧ notReadOnly k = true ∧ Γ'' = Γ') ∨
    (lookup x Γ = none ∧ τ = τr ∧
      ((∃ kt, lookup x Γ' = some kt ∧ Γ'' = setTy x τr Γ') ∨
       (lookup x Γ' = none ∧ numLocals Γ' < 6 ∧ Γ'' = (x, Kind.loc, τr) :: Γ'))) := by
  unfold bindValue at h
  cases hl : lookup x Γ with
  | some kt =>
    obtain ⟨k, τx⟩ := kt
    rw [hl] at h
    simp only at h
    split at h
    · rename_i hk
      simp only [knownTargetType, Option.some.injEq, Prod.mk.injEq] at h
      obtain ⟨rfl, rfl⟩ := h
      exact Or.inl ⟨k, rfl, hk, rfl⟩
    · cases h
  | none =>
    rw [hl] at h
    simp only at h
    right
    cases hl' : lookup x Γ' with
    | some kt =>
      rw [hl'] at h
      simp only [Option.some.injEq, Prod.mk.injEq] at h
      obtain ⟨rfl, rfl⟩ := h
      exact ⟨rfl, rfl, Or.inl ⟨kt, rfl, rfl⟩⟩
    | none =>
      rw [hl'] at h
      simp only at h
      split at h
      · rename_i hlt
        simp only [Option.some.injEq, Prod.mk.injEq] at h
        obtain ⟨rfl, rfl⟩ := h
        exact ⟨rfl, rfl, Or.inr ⟨rfl, hlt, rfl⟩⟩
      · cases h

/-! ## How the environment evolves while an expression is typed -/

structure Grow (Γ Γ' : Env) : Prop where
  /-- a known name keeps its kind and type -/
  keep : ∀ x kt, lookup x Γ = some kt → lookup x Γ' = some kt
  /-- new names are locals -/
  newLoc : ∀ x k t, lookup x Γ = none → lookup x Γ' = some (k, t) → k = Kind.loc
  /-- locals in existence (with any set of pending names) only become more -/
  mu : ∀ P : List Name, P.Nodup → mu Γ P ≤ mu Γ' P
  le : numLocals Γ ≤ 6 → numLocals Γ' ≤ 6

theorem Grow.refl (Γ : Env) : Grow Γ Γ :=
  ⟨fun _ _ h => h, fun x k t h1 h2 => (by rw [h1] at h2; cases h2), fun _ _ => Nat.le_refl _, fun h => h⟩

theorem Grow.trans {Γ Γ1 Γ2 : Env} (h1 : Grow Γ Γ1) (h2 : Grow Γ1 Γ2) : Grow Γ Γ2 := by
  refine ⟨fun x kt h => h2.keep x kt (h1.keep x kt h), ?_, fun P hn => Nat.le_trans (h1.mu P hn) (h2.mu P hn),
    fun h => h2.le (h1.le h)⟩
  intro x k t hx hx2
  cases hl : lookup x Γ1 with
  | none => exact h2.newLoc x k t hl hx2
  | some kt =>
    have := h2.keep x kt hl
    rw [hx2] at this
    cases this
    exact h1.newLoc x k t hx hl

theorem bindValue_mu {Γ Γ' Γ'' : Env} {x : Name} {τr τ : Ty} (h : bindValue Γ Γ' x τr = some (τ, Γ''))
    {P : List Name} (hn : P.Nodup) : mu Γ' P ≤ mu Γ'' P := by
  rcases bindValue_inv h with ⟨k, _, _, rfl⟩ | ⟨_, _, ⟨kt, _, rfl⟩ | ⟨hx', _, rfl⟩⟩
  · exact Nat.le_refl _
  · rw [mu_setTy]; exact Nat.le_refl _
  · have := mu_cons_loc hn hx' τr
    split at this <;> omega

theorem bindValue_grow {Γ Γ' Γ'' : Env} {x : Name} {τr τ : Ty} (hg : Grow Γ Γ')
    (h : bindValue Γ Γ' x τr = some (τ, Γ'')) : Grow Γ Γ'' := by
  refine ⟨?_, ?_, fun P hn => Nat.le_trans (hg.mu P hn) (bindValue_mu h hn), ?_⟩
  · intro y kt hy
    rcases bindValue_inv h with ⟨k, _, _, rfl⟩ | ⟨hx, _, ⟨kt', _, rfl⟩ | ⟨hx', _, rfl⟩⟩
    · exact hg.keep y kt hy
    · rw [lookup_setTy, if_neg (lookup_ne_of_none_some hx hy)]
      exact hg.keep y kt hy
    · rw [lookup_cons, if_neg (fun e => lookup_ne_of_none_some hx hy e.symm)]
      exact hg.keep y kt hy
  · intro y k t hy hy2
    rcases bindValue_inv h with ⟨k', _, _, rfl⟩ | ⟨hx, _, ⟨kt', hx', rfl⟩ | ⟨hx', _, rfl⟩⟩
    · exact hg.newLoc y k t hy hy2
    · rw [lookup_setTy] at hy2
      split at hy2
      · rename_i e
        subst e
        rw [hx'] at hy2
        simp only [Option.map_some, Option.some.injEq, Prod.mk.injEq] at hy2
        obtain ⟨k1, t1⟩ := kt'
        exact hy2.1 ▸ hg.newLoc y k1 t1 hy hx'
      · exact hg.newLoc y k t hy hy2
    · rw [lookup_cons] at hy2
      split at hy2
      · simp only [Option.some.injEq, Prod.mk.injEq] at hy2
        exact hy2.1.symm
      · exact hg.newLoc y k t hy hy2
  · intro hle
    have := hg.le hle
    rcases bindValue_inv h with ⟨k', _, _, rfl⟩ | ⟨hx, _, ⟨kt', hx', rfl⟩ | ⟨hx', hlt, rfl⟩⟩
    · exact this
    · rw [numLocals_setTy]; exact this
    · rw [numLocals_cons_loc]; omega

theorem typeOfG_grow : ∀ (e : Expr) (Γ : Env) (oτ : Option Ty) (Γ' : Env),
    typeOfG Γ e = some (oτ, Γ') → Grow Γ Γ' := by
  intro e
  induction e with
  | atom p =>
    intro Γ τ Γ' h
    cases p with
    | bool b => simp only [typeOfG, Option.some.injEq, Prod.mk.injEq] at h; rw [← h.2]; exact Grow.refl _
    | num n => simp only [typeOfG, Option.some.injEq, Prod.mk.injEq] at h; rw [← h.2]; exact Grow.refl _
    | name x =>
      simp only [typeOfG] at h
      cases hl : lookup x Γ with
      | none => rw [hl] at h; cases h
      | some kt =>
        rw [hl] at h
        simp only [Option.map_some, Option.some.injEq, Prod.mk.injEq] at h
        rw [← h.2]; exact Grow.refl _
  | cmd c => intro Γ τ Γ' h; simp [typeOfG] at h
  | none => intro Γ τ Γ' h; simp [typeOfG] at h
  | sexp o l r ihl ihr =>
    intro Γ oτ Γ'' h
    rcases typeOfG_sexp_inv h with ⟨a, τ, Γ1, _, _, hl, hr⟩ | ⟨x, τr, τ, Γ', rfl, rfl, _, hr, hb⟩ |
      ⟨x, τ, rfl, rfl, _, hr, _⟩ | ⟨tl, tr, Γ1, _, _, _, hl, hr⟩
    · exact (ihl _ _ _ hl).trans (ihr _ _ _ hr)
    · exact bindValue_grow (ihr _ _ _ hr) hb
    · exact ihr _ _ _ hr
    · exact (ihl _ _ _ hl).trans (ihr _ _ _ hr)

theorem typeOfV_grow (e : Expr) (Γ : Env) (τ : Ty) (Γ' : Env) (h : typeOfV Γ e = some (τ, Γ')) : Grow Γ Γ' :=
  typeOfG_grow e Γ (some τ) Γ' (typeOfV_eq_some.mp h)

/-! ## The invariant inside an expression -/

/-- `Inv` (`Accept.lean`) with pending names: a name of `P` that `Γ` does not know is bound to a
local (inside the encoder's range) whose recorded type is still its own name; nothing else is bound;
`numLocal` counts the locals of `Γ` and the pending ones -/
structure InvP (Γ : Env) (P : List Name) (sc : Scope) : Prop where
  fwd : Fwd Γ sc.named
  pend : ∀ x ∈ P, lookup x Γ = none → ∃ i, i ≤ 5 ∧ regGet x sc.named = some (.local i (.name x))
  bwd : ∀ x, lookup x Γ = none → x ∉ P → regGet x sc.named = none
  nloc : sc.numLocal = mu Γ P
  flag : (lookup flagName Γ).isSome = true

theorem InvP.congr {Γ : Env} {P : List Name} {sc sc' : Scope} (hi : InvP Γ P sc) (hn : sc'.named = sc.named)
    (hl : sc'.numLocal = sc.numLocal) : InvP Γ P sc' :=
  ⟨(by rw [hn]; exact hi.fwd), (by rw [hn]; exact hi.pend), (by rw [hn]; exact hi.bwd),
    (by rw [hl]; exact hi.nloc), hi.flag⟩

theorem mu_nil (Γ : Env) : mu Γ [] = numLocals Γ := by simp [mu, pendOf]

theorem Inv.toP {Γ : Env} {sc : Scope} (hi : Inv Γ sc) : InvP Γ [] sc :=
  ⟨hi.fwd, fun x hx => (by cases hx), fun x hx _ => hi.bwd x hx, (by rw [mu_nil]; exact hi.nloc), hi.flag⟩

theorem InvP.toInv {Γ : Env} {sc : Scope} (hi : InvP Γ [] sc) : Inv Γ sc :=
  ⟨hi.fwd, fun x hx => hi.bwd x hx (by simp), (by rw [← mu_nil]; exact hi.nloc), hi.flag⟩

/-! ## The `Op::Bind` arm when the (stale) left register is still untyped -/

theorem combineBind_retype {x : Name} {i j : Nat} {t : Lang.Ty} {right : Reg} (sc : Scope) (is : List Instr)
    (hg : regGet x sc.named = some (.local j t)) (hr : right ≠ .none) (ht : ∀ s, right.getType ≠ .name s) :
    combineBind is (.local i (.name x)) right sc =
      .ok ⟨is ++ [{ res := .local j right.getType, op := .bind, left := .local j right.getType, right := right }],
           .local j right.getType,
           { sc with named := regSet x (.local j right.getType) sc.named }⟩ := by
  have hbt : bindTarget (.local i (.name x)) right sc =
      .ok (.local j right.getType, { sc with named := regSet x (.local j right.getType) sc.named }) := by
    unfold bindTarget
    rw [show (Reg.local i (Lang.Ty.name x)).getType = .name x from rfl]
    simp only
    cases h : right.getType with
    | name s => exact absurd h (ht s)
    | _ => simp only [Scope.updateType, hg]
  unfold combineBind
  rw [hbt]
  simp only [bindEmit]
  rw [if_neg hr, if_pos (by rfl)]

/-- the target of an assignment that the environment does not know: it is pending already, or the
compiler allocates it now -/
theorem target_unknown {Γ : Env} {P : List Name} {sc : Scope} {x : Name} (hi : InvP Γ P sc) (hn : P.Nodup)
    (hx : lookup x Γ = none) (hmu : x ∉ P → mu Γ P < 6) :
    ∃ c P1 i, compileAtom (.name x) sc = .ok c ∧ c.instrs = [] ∧ c.reg = .local i (.name x) ∧
      c.sc.tmp = sc.tmp ∧ (P1 = P ∨ (P1 = x :: P ∧ x ∉ P)) ∧ x ∈ P1 ∧ P1.Nodup ∧ InvP Γ P1 c.sc := by
  by_cases hxP : x ∈ P
  · obtain ⟨i, _, hg⟩ := hi.pend x hxP hx
    exact ⟨⟨[], .local i (.name x), sc⟩, P, i, compileAtom_known (show sc.get x = some _ from hg), rfl, rfl, rfl, Or.inl rfl, hxP, hn, hi⟩
  · have hg : sc.get x = none := hi.bwd x hx hxP
    have hnl : sc.numLocal ≤ 5 := by
      rw [hi.nloc]
      have := hmu hxP
      omega
    refine ⟨_, x :: P, sc.numLocal, compileAtom_new hg (by omega), rfl, rfl, rfl, Or.inr ⟨rfl, hxP⟩,
      List.mem_cons_self, List.nodup_cons.mpr ⟨hxP, hn⟩, ?_, ?_, ?_, ?_, hi.flag⟩
    · intro y k τy hy
      obtain ⟨r, h1, h2, h3⟩ := hi.fwd y k τy hy
      exact ⟨r, by simp only; rw [regGet_regInsert_ne (lookup_ne_of_none_some hx hy)]; exact h1, h2, h3⟩
    · intro y hy hyΓ
      simp only
      rcases List.mem_cons.mp hy with rfl | hy
      · exact ⟨sc.numLocal, hnl, regGet_regInsert_self _ _ _⟩
      · have hne : y ≠ x := fun e => hxP (e ▸ hy)
        rw [regGet_regInsert_ne hne]
        exact hi.pend y hy hyΓ
    · intro y hyΓ hy
      simp only
      have hne : y ≠ x := fun e => hy (e ▸ List.mem_cons_self)
      rw [regGet_regInsert_ne hne]
      exact hi.bwd y hyΓ (fun h => hy (List.mem_cons_of_mem _ h))
    · simp only
      rw [hi.nloc, mu_cons_unknown hx]

/-- … and what the bind arm leaves: the target, typed, in the environment -/
theorem InvP.bind_new {Γ' Γ'' : Env} {P1 P : List Name} {sc : Scope} {x : Name} {j : Nat} {t rt : Lang.Ty}
    {τr : Ty} (hi : InvP Γ' P1 sc) (hP1 : P1 = P ∨ (P1 = x :: P ∧ x ∉ P)) (hxP1 : x ∈ P1) (hn : P1.Nodup)
    (hg : regGet x sc.named = some (.local j t)) (hj : j ≤ 5) (hm : tyMatch τr rt = true)
    (hΓ : (∃ t1, lookup x Γ' = some (Kind.loc, t1) ∧ Γ'' = setTy x τr Γ') ∨
          (lookup x Γ' = none ∧ Γ'' = (x, Kind.loc, τr) :: Γ')) :
    InvP Γ'' P { sc with named := regSet x (.local j rt) sc.named } := by
  have hnP : P.Nodup := by
    rcases hP1 with rfl | ⟨rfl, _⟩
    · exact hn
    · exact (List.nodup_cons.mp hn).2
  have hsub : ∀ y, y ∈ P → y ∈ P1 := by
    rcases hP1 with rfl | ⟨rfl, _⟩
    · exact fun _ h => h
    · exact fun _ h => List.mem_cons_of_mem _ h
  have hsup : ∀ y, y ≠ x → y ∈ P1 → y ∈ P := by
    rcases hP1 with rfl | ⟨rfl, _⟩
    · exact fun _ _ h => h
    · intro y hne h
      rcases List.mem_cons.mp h with e | h
      · exact absurd e hne
      · exact h
  -- what `Γ''` knows
  have hlk : ∀ y, y ≠ x → lookup y Γ'' = lookup y Γ' := by
    intro y hne
    rcases hΓ with ⟨t1, _, rfl⟩ | ⟨_, rfl⟩
    · rw [lookup_setTy, if_neg hne]
    · rw [lookup_cons, if_neg (fun e => hne e.symm)]
  have hlx : lookup x Γ'' = some (Kind.loc, τr) := by
    rcases hΓ with ⟨t1, h1, rfl⟩ | ⟨_, rfl⟩
    · rw [lookup_setTy, if_pos rfl, h1]; rfl
    · rw [lookup_cons, if_pos rfl]
  refine ⟨?_, ?_, ?_, ?_, ?_⟩
  · intro y k τy hy
    simp only
    by_cases hyx : y = x
    · subst hyx
      rw [hlx] at hy
      simp only [Option.some.injEq, Prod.mk.injEq] at hy
      obtain ⟨rfl, rfl⟩ := hy
      refine ⟨.local j rt, ?_, by simp only [kindOk, decide_eq_true_eq]; exact hj, hm⟩
      rw [regGet_regSet_self, hg]; rfl
    · rw [hlk y hyx] at hy
      obtain ⟨r, h1, h2, h3⟩ := hi.fwd y k τy hy
      exact ⟨r, by rw [regGet_regSet_ne hyx]; exact h1, h2, h3⟩
  · intro y hy hyΓ
    simp only
    have hyx : y ≠ x := by
      intro e; subst e; rw [hlx] at hyΓ; cases hyΓ
    rw [hlk y hyx] at hyΓ
    rw [regGet_regSet_ne hyx]
    exact hi.pend y (hsub y hy) hyΓ
  · intro y hyΓ hy
    simp only
    have hyx : y ≠ x := by
      intro e; subst e; rw [hlx] at hyΓ; cases hyΓ
    rw [hlk y hyx] at hyΓ
    rw [regGet_regSet_ne hyx]
    exact hi.bwd y hyΓ (fun h => hy (hsup y hyx h))
  · simp only
    rw [hi.nloc]
    rcases hΓ with ⟨t1, h1, rfl⟩ | ⟨h1, rfl⟩
    · rw [mu_setTy]
      rcases hP1 with rfl | ⟨rfl, _⟩
      · rfl
      · exact mu_cons_known (by rw [h1]; rfl)
    · have := mu_cons_loc hnP h1 τr
      rcases hP1 with rfl | ⟨rfl, hxP⟩
      · rw [if_pos hxP1] at this; omega
      · rw [if_neg hxP] at this
        rw [mu_cons_unknown h1]; omega
  · by_cases hfx : flagName = x
    · rw [hfx, hlx]; rfl
    · rw [hlk _ hfx]; exact hi.flag

/-! ## The stage lemma for value expressions -/

theorem tmps_bind (x : Name) (r : Expr) : tmps (.sexp .bind (.atom (.name x)) r) = tmps r := by
  simp [tmps, opSig]

theorem instrOk_bind {left right : Reg} (hl : regOk left = true) (hr : regOk right = true) :
    instrOk { res := left, op := .bind, left := left, right := right } = true := by
  simp only [instrOk, Bool.and_eq_true]
  exact ⟨⟨⟨rfl, hl⟩, hl⟩, hr⟩

theorem kindOk_loc {r : Reg} (h : kindOk .loc r = true) : ∃ j t, r = .local j t ∧ j ≤ 5 := by
  cases r <;> simp only [kindOk, Bool.false_eq_true, decide_eq_true_eq] at h
  exact ⟨_, _, rfl, h⟩

/-- what a guarded form compiles to: no value register (`Reg::None`), and a last instruction without
result register that serializes as soon as it is given one -/
def GuardOut (c : CE) : Prop :=
  c.reg = .none ∧ ∃ pre last, c.instrs = pre ++ [last] ∧ last.res = .none ∧ (∀ i ∈ pre, instrOk i = true) ∧
    opOk last.op = true ∧ regOk last.left = true ∧ regOk last.right = true

/-- a value: a typed register that serializes, and instructions that serialize -/
def ValOut (τ : Ty) (c : CE) : Prop :=
  tyMatch τ c.reg.getType = true ∧ regOk c.reg = true ∧ ∀ i ∈ c.instrs, instrOk i = true

/-- the outcome of `compile_expr` on an expression typed `oτ` by `typeOfG` -/
def OutOk : Option Ty → CE → Prop
  | some τ, c => ValOut τ c
  | none, c => GuardOut c

/-- **Stage lemma, expressions.** An expression typed `oτ` (a value of type `τ`, or the placeholder of a
guarded form) that leaves the environment `Γ'` compiles in every scope that agrees with `Γ` (up to pending
locals `P`), into a scope that agrees with `Γ'`; `tmps e` temporaries are allocated; a value has a
register of type `τ` and every emitted instruction serializes; a guarded form has no register and its
last instruction waits for one. The bound on locals is a bound on the *final* environment (the compiler
allocates the local of a new target before the right-hand side, the check records it after). The last
two conjuncts (value of an operator node: a temporary; of a boolean literal: itself) are what
`compile_flag` looks at. -/
theorem compile_valueG : ∀ (e : Expr) (Γ : Env) (oτ : Option Ty) (Γ' : Env) (P : List Name) (sc : Scope),
    typeOfG Γ e = some (oτ, Γ') → Frag.litsOkE e = true → P.Nodup → InvP Γ P sc → mu Γ' P ≤ 6 →
    sc.tmp.length + tmps e ≤ 8 →
    ∃ c, compileExpr e sc = .ok c ∧ InvP Γ' P c.sc ∧ c.sc.tmp.length = sc.tmp.length + tmps e ∧ OutOk oτ c ∧
      (∀ o l r, e = .sexp o l r → (opSig o).isSome = true → c.instrs ≠ [] ∧ ∃ i t, c.reg = .tmp i t) ∧
      (∀ b, e = .atom (.bool b) → c.reg = .immBool b ∧ c.instrs = []) := by
  intro e
  induction e with
  | atom p =>
    intro Γ oτ Γ' P sc hty hlit hn hi hmu htmp
    rw [compileExpr_atom]
    cases p with
    | bool b =>
      simp only [typeOfG, Option.some.injEq, Prod.mk.injEq] at hty
      obtain ⟨rfl, rfl⟩ := hty
      refine ⟨⟨[], .immBool b, sc⟩, rfl, hi, by simp [tmps], ⟨rfl, rfl, by simp⟩, by simp, ?_⟩
      intro b' hb'
      simp only [Expr.atom.injEq, Prim.bool.injEq] at hb'
      subst hb'
      exact ⟨rfl, rfl⟩
    | num n =>
      simp only [typeOfG, Option.some.injEq, Prod.mk.injEq] at hty
      obtain ⟨rfl, rfl⟩ := hty
      have hl : litOk n = true := hlit
      exact ⟨⟨[], .immNum n, sc⟩, rfl, hi, by simp [tmps], ⟨rfl, regOk_immNum hl, by simp⟩, by simp, by simp⟩
    | name x =>
      simp only [typeOfG] at hty
      cases hlk : lookup x Γ with
      | none => rw [hlk] at hty; cases hty
      | some kt =>
        obtain ⟨k, τ'⟩ := kt
        rw [hlk] at hty
        simp only [Option.map_some, Option.some.injEq, Prod.mk.injEq] at hty
        obtain ⟨rfl, rfl⟩ := hty
        obtain ⟨r, hg, hk, ht⟩ := hi.fwd x k τ' hlk
        exact ⟨⟨[], r, sc⟩, compileAtom_known (show sc.get x = some r from hg), hi, by simp [tmps],
          ⟨ht, kindOk_regOk hk, by simp⟩, by simp, by simp⟩
  | cmd c => intro Γ τ Γ' P sc hty; simp [typeOfG] at hty
  | none => intro Γ τ Γ' P sc hty; simp [typeOfG] at hty
  | sexp o l r ihl ihr =>
    intro Γ oτ Γ'' P sc hty hlit hn hi hmu htmp
    simp only [Frag.litsOkE, Bool.and_eq_true] at hlit
    rcases typeOfG_sexp_inv hty with ⟨a, τ, Γ1, hs, rfl, hl, hr⟩ | ⟨x, τr, τ, Γ', rfl, rfl, rfl, hr, hb⟩ |
      ⟨x, τ, rfl, rfl, rfl, hr, hxv⟩ | ⟨tl, tr, Γ1, ho, rfl, _, hl, hr⟩
    · -- an operator
      have htm : tmps (.sexp o l r) = 1 + tmps l + tmps r := by simp [tmps, hs]
      rw [htm] at htmp
      have hg2 := typeOfG_grow _ _ _ _ hr
      obtain ⟨cl, e1, i1, t1, ⟨m1, k1, in1⟩, _, _⟩ :=
        ihl Γ _ Γ1 P sc hl hlit.1 hn hi (Nat.le_trans (hg2.mu P hn) hmu) (by omega)
      obtain ⟨cr, e2, i2, t2, ⟨m2, k2, in2⟩, _, _⟩ := ihr Γ1 _ Γ'' P cl.sc hr hlit.2 hn i1 hmu (by omega)
      rw [compileExpr_sexp, e1, Out.bind_ok, e2, Out.bind_ok, combine_sig hs _ m1 m2]
      have hlen : cr.sc.tmp.length % 256 = sc.tmp.length + tmps l + tmps r := by
        rw [t2, t1]; omega
      refine ⟨_, rfl, i2.congr rfl rfl, ?_, ⟨?_, ?_, ?_⟩, ?_, by simp⟩
      · simp only [List.length_append, List.length_cons, List.length_nil]
        rw [htm, t2, t1]; omega
      · cases τ <;> rfl
      · exact regOk_tmp _ (by rw [hlen]; omega)
      · intro i hi'
        simp only [List.mem_append, List.mem_singleton] at hi'
        rcases hi' with (hi' | hi') | rfl
        · exact in1 i hi'
        · exact in2 i hi'
        · simp only [instrOk, Bool.and_eq_true]
          exact ⟨⟨⟨opOk_lowerOp hs, regOk_tmp _ (by rw [hlen]; omega)⟩, k1⟩, k2⟩
      · intro o' l' r' _ _
        exact ⟨by simp, _, _, rfl⟩
    · -- a plain assignment
      rw [tmps_bind] at htmp ⊢
      have hgr := typeOfG_grow _ _ _ _ hr
      have hnop : ∀ o' l' r', Expr.sexp .bind (.atom (.name x)) r = .sexp o' l' r' → (opSig o').isSome = true →
          False := by
        intro o' l' r' he ho'
        simp only [Expr.sexp.injEq] at he
        rw [← he.1] at ho'
        cases ho'
      rcases bindValue_inv hb with ⟨k, hx, hk, rfl⟩ | ⟨hx, rfl, hΓ⟩
      · -- the target is known: its register is typed and stays what it is
        obtain ⟨rx, hg, hkr, htr⟩ := hi.fwd x k τ hx
        obtain ⟨cr, e2, i2, t2, ⟨m2, k2, in2⟩, _, _⟩ := ihr Γ _ Γ'' P sc hr hlit.2 hn hi hmu htmp
        rw [compileExpr_sexp, compileExpr_atom, compileAtom_known (show sc.get x = some rx from hg), Out.bind_ok]
        simp only
        rw [e2, Out.bind_ok, combine_bind,
          combineBind_typed _ _ (tyMatch_not_name htr) (regOk_ne_none k2) (kindOk_assignable hkr hk)]
        refine ⟨_, rfl, i2, t2, ⟨htr, kindOk_regOk hkr, ?_⟩, fun o' l' r' he ho' => (hnop o' l' r' he ho').elim,
          by simp⟩
        intro i hi'
        simp only [List.nil_append, List.mem_append, List.mem_singleton] at hi'
        rcases hi' with hi' | rfl
        · exact in2 i hi'
        · exact instrOk_bind (kindOk_regOk hkr) k2
      · -- the target is unknown: pending already, or allocated now; typed by this assignment
        have hgr2 : Grow Γ Γ'' := bindValue_grow hgr hb
        have hx2 : (lookup x Γ'').isSome = true := by
          rcases hΓ with ⟨kt, h1, rfl⟩ | ⟨_, _, rfl⟩
          · rw [lookup_setTy, if_pos rfl, h1]; rfl
          · rw [lookup_cons, if_pos rfl]; rfl
        obtain ⟨cl, P1, i0, ea, hci, hcr, hct, hP1, hxP1, hn1, hi1⟩ := target_unknown hi hn hx (by
          intro hxP
          have h1 := hgr2.mu (x :: P) (List.nodup_cons.mpr ⟨hxP, hn⟩)
          rw [mu_cons_known hx2, mu_cons_unknown hx] at h1
          omega)
        have hmu1 : mu Γ' P1 ≤ 6 := by
          have h1 := bindValue_mu hb hn1
          have h2 : mu Γ'' P1 = mu Γ'' P := by
            rcases hP1 with rfl | ⟨rfl, _⟩
            · rfl
            · exact mu_cons_known hx2
          omega
        obtain ⟨cr, e2, i2, t2, ⟨m2, k2, in2⟩, _, _⟩ :=
          ihr Γ _ Γ' P1 cl.sc hr hlit.2 hn1 hi1 hmu1 (by rw [hct]; exact htmp)
        -- the binding of the target after the right-hand side
        have hbx : ∃ j t, j ≤ 5 ∧ regGet x cr.sc.named = some (.local j t) ∧
            ((∃ t1, lookup x Γ' = some (Kind.loc, t1) ∧ Γ'' = setTy x τ Γ') ∨
             (lookup x Γ' = none ∧ Γ'' = (x, Kind.loc, τ) :: Γ')) := by
          rcases hΓ with ⟨kt, h1, rfl⟩ | ⟨h1, _, rfl⟩
          · obtain ⟨k1, t1⟩ := kt
            have : k1 = Kind.loc := hgr.newLoc x k1 t1 hx h1
            subst this
            obtain ⟨rx, hg, hkr, _⟩ := i2.fwd x _ t1 h1
            obtain ⟨j, t, rfl, hj⟩ := kindOk_loc hkr
            exact ⟨j, t, hj, hg, Or.inl ⟨t1, h1, rfl⟩⟩
          · obtain ⟨j, hj, hg⟩ := i2.pend x hxP1 h1
            exact ⟨j, _, hj, hg, Or.inr ⟨h1, rfl⟩⟩
        obtain ⟨j, t, hj, hgx, hΓ'⟩ := hbx
        rw [compileExpr_sexp, compileExpr_atom, ea, Out.bind_ok, e2, Out.bind_ok, combine_bind, hcr,
          combineBind_retype _ _ hgx (regOk_ne_none k2) (tyMatch_not_name m2)]
        have hloc' : regOk (.local j cr.reg.getType) = true :=
          kindOk_regOk (k := .loc) (by simp only [kindOk, decide_eq_true_eq]; exact hj)
        refine ⟨_, rfl, i2.bind_new hP1 hxP1 hn1 hgx hj m2 hΓ', ?_, ⟨m2, hloc', ?_⟩,
          fun o' l' r' he ho' => (hnop o' l' r' he ho').elim, by simp⟩
        · simp only
          rw [t2, hct]
        · intro i hi'
          rw [hci] at hi'
          simp only [List.nil_append, List.mem_append, List.mem_singleton] at hi'
          rcases hi' with hi' | rfl
          · exact in2 i hi'
          · exact instrOk_bind hloc' k2
    · -- a guarded assignment: the target is a declared variable, the right-hand side a placeholder
      rw [tmps_bind] at htmp ⊢
      have hnop : ∀ o' l' r', Expr.sexp .bind (.atom (.name x)) r = .sexp o' l' r' → (opSig o').isSome = true →
          False := by
        intro o' l' r' he ho'
        simp only [Expr.sexp.injEq] at he
        rw [← he.1] at ho'
        cases ho'
      obtain ⟨rx, hg, hkr, htr⟩ := hi.fwd x _ τ hxv
      obtain ⟨cr, e2, i2, t2, ⟨hrn, pre, last, his, hlr, hpre, hlo, hll, hlrr⟩, _, _⟩ :=
        ihr Γ _ Γ'' P sc hr hlit.2 hn hi hmu htmp
      rw [compileExpr_sexp, compileExpr_atom, compileAtom_known (show sc.get x = some rx from hg), Out.bind_ok]
      simp only
      rw [e2, Out.bind_ok, combine_bind, hrn, his, List.nil_append,
        combineBind_guarded _ _ _ (tyMatch_not_name htr) (kindOk_var hkr) hlr]
      refine ⟨_, rfl, i2, t2, ⟨htr, kindOk_regOk hkr, ?_⟩, fun o' l' r' he ho' => (hnop o' l' r' he ho').elim,
        by simp⟩
      intro i hi'
      simp only [List.mem_append, List.mem_singleton] at hi'
      rcases hi' with hi' | rfl
      · exact hpre i hi'
      · simp only [instrOk, Bool.and_eq_true]
        exact ⟨⟨⟨hlo, kindOk_regOk hkr⟩, hll⟩, hlrr⟩
    · -- a guarded form: two values, an instruction without result register
      rw [tmps_guard ho] at htmp ⊢
      have hg2 := typeOfG_grow _ _ _ _ hr
      obtain ⟨cl, e1, i1, t1, ⟨_, k1, in1⟩, _, _⟩ :=
        ihl Γ _ Γ1 P sc hl hlit.1 hn hi (Nat.le_trans (hg2.mu P hn) hmu) (by omega)
      obtain ⟨cr, e2, i2, t2, ⟨_, k2, in2⟩, _, _⟩ := ihr Γ1 _ Γ'' P cl.sc hr hlit.2 hn i1 hmu (by omega)
      rw [compileExpr_sexp, e1, Out.bind_ok, e2, Out.bind_ok,
        combine_guard ho _ _ (regOk_ne_none k1) (regOk_ne_none k2)]
      refine ⟨_, rfl, i2, by rw [t2, t1]; omega, ⟨rfl, _, _, rfl, rfl, ?_, ?_, k1, k2⟩, ?_, by simp⟩
      · intro i hi'
        rcases List.mem_append.mp hi' with hi' | hi'
        · exact in1 i hi'
        · exact in2 i hi'
      · rcases ho with rfl | rfl | rfl <;> rfl
      · intro o' l' r' he ho'
        simp only [Expr.sexp.injEq] at he
        rw [← he.1] at ho'
        rcases ho with rfl | rfl | rfl <;> cases ho'

/-- **Stage lemma, value expressions.** An expression of type `τ` that leaves the environment `Γ'`
compiles in every scope that agrees with `Γ` (up to pending locals `P`), into a scope that agrees with
`Γ'`; `tmps e` temporaries are allocated, the value register has type `τ` and every emitted
instruction serializes. -/
theorem compile_value (e : Expr) (Γ : Env) (τ : Ty) (Γ' : Env) (P : List Name) (sc : Scope)
    (hty : typeOfV Γ e = some (τ, Γ')) (hlit : Frag.litsOkE e = true) (hn : P.Nodup) (hi : InvP Γ P sc)
    (hmu : mu Γ' P ≤ 6) (htmp : sc.tmp.length + tmps e ≤ 8) :
    ∃ c, compileExpr e sc = .ok c ∧ InvP Γ' P c.sc ∧ c.sc.tmp.length = sc.tmp.length + tmps e ∧
      tyMatch τ c.reg.getType = true ∧ regOk c.reg = true ∧ (∀ i ∈ c.instrs, instrOk i = true) := by
  obtain ⟨c, e1, i1, t1, ⟨m1, k1, in1⟩, _, _⟩ :=
    compile_valueG e Γ (some τ) Γ' P sc (typeOfV_eq_some.mp hty) hlit hn hi hmu htmp
  exact ⟨c, e1, i1, t1, m1, k1, in1⟩

/-! ## Statements -/

theorem checkPlainV_some {Γ Γ' : Env} {x : Name} {e : Expr} (h : checkPlainV Γ x e = some Γ') :
    ∃ τ, typeOfV Γ (.sexp .bind (.atom (.name x)) e) = some (τ, Γ') := by
  unfold checkPlainV at h
  cases hty : typeOfV Γ e with
  | none => rw [hty] at h; cases h
  | some p =>
    obtain ⟨τr, Γ1⟩ := p
    rw [hty] at h
    simp only at h
    cases hb : bindValue Γ Γ1 x τr with
    | none => rw [hb] at h; cases h
    | some q =>
      obtain ⟨τ, Γ2⟩ := q
      rw [hb] at h
      simp only [Option.map_some, Option.some.injEq] at h
      subst h
      refine ⟨τ, typeOfV_eq_some.mpr ?_⟩
      rw [typeOfG_bind, typeOfV_eq_some.mp hty]
      simp only [hb, Option.map_some]

/-- `(:= x e)`: the statement is the value expression -/
theorem stmt_plainV {Γ Γ' : Env} {sc : Scope} {x : Name} {e : Expr}
    (hi : Inv Γ sc) (hle : numLocals Γ ≤ 6) (ht0 : sc.tmp = []) (h : checkPlainV Γ x e = some Γ')
    (hlit : Frag.litsOkE e = true) (htmp : tmps e ≤ 8) :
    ∃ c, compileExpr (.sexp .bind (.atom (.name x)) e) sc = .ok c ∧ c.reg ≠ .none ∧ Inv Γ' c.sc ∧
      numLocals Γ' ≤ 6 ∧ ∀ i ∈ c.instrs, instrOk i = true := by
  obtain ⟨τ, hty⟩ := checkPlainV_some h
  have hle' := (typeOfV_grow _ _ _ _ hty).le hle
  obtain ⟨c, e1, i1, _, _, k1, in1⟩ := compile_value _ Γ τ Γ' [] sc hty
    (by simp only [Frag.litsOkE, Bool.true_and]; exact hlit) List.nodup_nil hi.toP
    (by rw [mu_nil]; exact hle') (by rw [ht0, tmps_bind]; simpa using htmp)
  exact ⟨c, e1, regOk_ne_none k1, i1.toInv, hle', in1⟩

/-- `(:= x (if c v))`, `(:= x (!if c v))`, `(:= x (ewma a v))`, `x` declared; the operands are values -/
theorem stmt_guardedV {Γ Γ1 Γ2 : Env} {sc : Scope} {x : Name} {o : Op} {τc τv : Ty} {c v : Expr}
    (ho : o = .if ∨ o = .notIf ∨ o = .ewma)
    (hi : Inv Γ sc) (hle : numLocals Γ ≤ 6) (ht0 : sc.tmp = []) (hx : guardedTargetDeclared Γ x = true)
    (hc : typeOfV Γ c = some (τc, Γ1)) (hv : typeOfV Γ1 v = some (τv, Γ2))
    (hlc : Frag.litsOkE c = true) (hlv : Frag.litsOkE v = true) (htmp : tmps c + tmps v ≤ 8) :
    ∃ cc, compileExpr (.sexp .bind (.atom (.name x)) (.sexp o c v)) sc = .ok cc ∧ cc.reg ≠ .none ∧
      Inv Γ2 cc.sc ∧ numLocals Γ2 ≤ 6 ∧ ∀ i ∈ cc.instrs, instrOk i = true := by
  unfold guardedTargetDeclared at hx
  cases hlk : lookup x Γ with
  | none => rw [hlk] at hx; cases hx
  | some kt =>
    obtain ⟨k, τx⟩ := kt
    rw [hlk] at hx
    simp only [decide_eq_true_eq] at hx
    subst hx
    obtain ⟨r, hg, hkr, htr⟩ := hi.fwd x _ τx hlk
    have hle1 := (typeOfV_grow _ _ _ _ hc).le hle
    have hle2 := (typeOfV_grow _ _ _ _ hv).le hle1
    obtain ⟨cl, e1, i1, t1, _, k1, in1⟩ := compile_value c Γ τc Γ1 [] sc hc hlc List.nodup_nil hi.toP
      (by rw [mu_nil]; exact hle1) (by rw [ht0]; simp only [List.length_nil]; omega)
    obtain ⟨cr, e2, i2, _, _, k2, in2⟩ := compile_value v Γ1 τv Γ2 [] cl.sc hv hlv List.nodup_nil i1
      (by rw [mu_nil]; exact hle2) (by rw [t1, ht0]; simp only [List.length_nil]; omega)
    rw [compileExpr_sexp, compileExpr_atom, compileAtom_known (show sc.get x = some r from hg), Out.bind_ok]
    simp only
    rw [compileExpr_sexp, e1, Out.bind_ok, e2, Out.bind_ok,
      combine_guard ho _ _ (regOk_ne_none k1) (regOk_ne_none k2), Out.bind_ok]
    simp only [List.nil_append]
    rw [combine_bind, combineBind_guarded _ _ _ (tyMatch_not_name htr) (kindOk_var hkr) rfl]
    refine ⟨_, rfl, regOk_ne_none (kindOk_regOk hkr), i2.toInv, hle2, ?_⟩
    intro i hi'
    simp only [List.mem_append, List.mem_singleton] at hi'
    rcases hi' with (hi' | hi') | rfl
    · exact in1 i hi'
    · exact in2 i hi'
    · simp only [instrOk, Bool.and_eq_true]
      refine ⟨⟨⟨?_, kindOk_regOk hkr⟩, k1⟩, k2⟩
      rcases ho with rfl | rfl | rfl <;> rfl

theorem checkGuardedV_some {Γ Γ' : Env} {x : Name} {c v : Expr} (h : checkGuardedV Γ x c v = some Γ') :
    guardedTargetDeclared Γ x = true ∧
      ∃ Γ1 τv, typeOfV Γ c = some (.bool, Γ1) ∧ typeOfV Γ1 v = some (τv, Γ') := by
  unfold checkGuardedV at h
  split at h
  · rename_i hx
    refine ⟨hx, ?_⟩
    split at h
    · rename_i Γ1 hc
      cases hv : typeOfV Γ1 v with
      | none => rw [hv] at h; cases h
      | some p =>
        obtain ⟨τv, Γ2⟩ := p
        rw [hv] at h
        simp only [Option.map_some, Option.some.injEq] at h
        subst h
        exact ⟨Γ1, τv, hc, hv⟩
    · cases h
  · cases h

theorem checkEwmaV_some {Γ Γ' : Env} {x : Name} {a v : Expr} (h : checkEwmaV Γ x a v = some Γ') :
    guardedTargetDeclared Γ x = true ∧
      ∃ Γ1, typeOfV Γ a = some (.num, Γ1) ∧ typeOfV Γ1 v = some (.num, Γ') := by
  unfold checkEwmaV at h
  split at h
  · rename_i hx
    refine ⟨hx, ?_⟩
    split at h
    · rename_i Γ1 ha
      split at h
      · rename_i Γ2 hv
        simp only [Option.some.injEq] at h
        subst h
        exact ⟨Γ1, ha, hv⟩
      · cases h
    · cases h
  · cases h

/-- **Stage lemma, statements.** -/
theorem compile_stmtV {Γ Γ' : Env} {sc : Scope} {e : Expr} (hi : Inv Γ sc) (hle : numLocals Γ ≤ 6)
    (ht0 : sc.tmp = []) (hs : checkStmtV Γ e = some Γ') (hne : e ≠ .none) (hlit : Frag.litsOkE e = true) :
    ∃ c, compileExpr e sc = .ok c ∧ c.reg ≠ .none ∧ Inv Γ' c.sc ∧ numLocals Γ' ≤ 6 ∧
      ∀ i ∈ c.instrs, instrOk i = true := by
  unfold checkStmtV at hs
  split at hs
  · exact absurd rfl hne
  · rename_i x rhs
    split at hs
    · rename_i htmp
      have htmp : tmps rhs ≤ 8 := htmp
      simp only [Frag.litsOkE, Bool.true_and] at hlit
      unfold checkRhsV at hs
      split at hs
      · rename_i o l r
        simp only [Frag.litsOkE, Bool.and_eq_true] at hlit
        split at hs
        · obtain ⟨hx, Γ1, τv, hc, hv⟩ := checkGuardedV_some hs
          have ho : Op.if = .if ∨ Op.if = .notIf ∨ Op.if = .ewma := Or.inl rfl
          rw [tmps_guard ho] at htmp
          exact stmt_guardedV ho hi hle ht0 hx hc hv hlit.1 hlit.2 htmp
        · obtain ⟨hx, Γ1, τv, hc, hv⟩ := checkGuardedV_some hs
          have ho : Op.notIf = .if ∨ Op.notIf = .notIf ∨ Op.notIf = .ewma := Or.inr (Or.inl rfl)
          rw [tmps_guard ho] at htmp
          exact stmt_guardedV ho hi hle ht0 hx hc hv hlit.1 hlit.2 htmp
        · obtain ⟨hx, Γ1, hc, hv⟩ := checkEwmaV_some hs
          have ho : Op.ewma = .if ∨ Op.ewma = .notIf ∨ Op.ewma = .ewma := Or.inr (Or.inr rfl)
          rw [tmps_guard ho] at htmp
          exact stmt_guardedV ho hi hle ht0 hx hc hv hlit.1 hlit.2 htmp
        · exact stmt_plainV hi hle ht0 hs (by simp only [Frag.litsOkE, Bool.and_eq_true]; exact hlit) htmp
      · exact stmt_plainV hi hle ht0 hs hlit htmp
    · cases hs
  · cases hs

/-! ## The statement rules are the value rule -/

/-- only a guarded form is typed as a placeholder -/
theorem typeOfG_placeholder {Γ Γ' : Env} {e : Expr} (h : typeOfG Γ e = some (none, Γ')) :
    ∃ o l r, e = .sexp o l r ∧ (o = .if ∨ o = .notIf ∨ o = .ewma) := by
  cases e with
  | atom p =>
    cases p with
    | bool b => simp [typeOfG] at h
    | num n => simp [typeOfG] at h
    | name x =>
      simp only [typeOfG] at h
      cases hl : lookup x Γ with
      | none => rw [hl] at h; cases h
      | some kt => rw [hl] at h; simp at h
  | cmd c => simp [typeOfG] at h
  | none => simp [typeOfG] at h
  | sexp o l r =>
    rcases typeOfG_sexp_inv h with ⟨_, _, _, _, h1, _⟩ | ⟨_, _, _, _, _, _, h1, _⟩ | ⟨_, _, _, _, h1, _⟩ |
      ⟨_, _, _, ho, _⟩
    · cases h1
    · cases h1
    · cases h1
    · exact ⟨o, l, r, rfl, ho⟩

theorem typeOfG_guard {o : Op} (ho : o = .if ∨ o = .notIf ∨ o = .ewma) (Γ : Env) (l r : Expr) :
    typeOfG Γ (.sexp o l r) =
      match typeOfG Γ l with
      | some (some tl, Γ1) =>
        match typeOfG Γ1 r with
        | some (some tr, Γ2) => if guardOk o tl tr then some (none, Γ2) else none
        | _ => none
      | _ => none := by
  rcases ho with rfl | rfl | rfl <;> (rw [typeOfG]; simp only [opSig, bindName]; rfl)

theorem checkPlainV_eq {Γ : Env} {e : Expr} (x : Name) (hng : ∀ Γ', typeOfG Γ e ≠ some (none, Γ')) :
    checkPlainV Γ x e = (typeOfV Γ (.sexp .bind (.atom (.name x)) e)).map (·.2) := by
  unfold checkPlainV typeOfV
  rw [typeOfG_bind]
  cases h : typeOfG Γ e with
  | none => rfl
  | some p =>
    obtain ⟨oτ, Γ1⟩ := p
    cases oτ with
    | none => exact absurd h (hng Γ1)
    | some τ =>
      simp only
      cases bindValue Γ Γ1 x τ <;> rfl

theorem typeOfV_def (Γ : Env) (e : Expr) :
    typeOfV Γ e = match typeOfG Γ e with
      | some (some τ, Γ') => some (τ, Γ')
      | _ => none := rfl

theorem bindGuarded_snd (Γ Γ' : Env) (x : Name) :
    (match bindGuarded Γ Γ' x with
      | some (some τ, Γ'') => some (τ, Γ'')
      | _ => (none : Option (Ty × Env))).map (fun (p : Ty × Env) => p.2) =
      if guardedTargetDeclared Γ x then some Γ' else none := by
  unfold bindGuarded guardedTargetDeclared
  cases lookup x Γ with
  | none => simp
  | some kt =>
    obtain ⟨k, τ⟩ := kt
    by_cases hk : k = Kind.var <;> simp [hk]

theorem checkGuardedV_eq {o : Op} (ho : o = .if ∨ o = .notIf) (Γ : Env) (x : Name) (c v : Expr) :
    checkGuardedV Γ x c v = (typeOfV Γ (.sexp .bind (.atom (.name x)) (.sexp o c v))).map (·.2) := by
  have ho' : o = .if ∨ o = .notIf ∨ o = .ewma := by rcases ho with h | h <;> simp [h]
  unfold checkGuardedV
  rw [typeOfV_def Γ (.sexp _ _ _), typeOfG_bind, typeOfG_guard ho']
  simp only [typeOfV_def]
  cases hc : typeOfG Γ c with
  | none => simp
  | some p1 =>
    obtain ⟨otl, Γ1⟩ := p1
    cases otl with
    | none => simp
    | some tl =>
      cases tl with
      | num =>
        have : ∀ tr, guardOk o .num tr = false := by intro tr; rcases ho with rfl | rfl <;> rfl
        simp only
        cases hv : typeOfG Γ1 v with
        | none => simp
        | some p2 =>
          obtain ⟨otr, Γ2⟩ := p2
          cases otr <;> simp [this]
      | bool =>
        have : ∀ tr, guardOk o .bool tr = true := by intro tr; rcases ho with rfl | rfl <;> rfl
        simp only
        cases hv : typeOfG Γ1 v with
        | none => simp
        | some p2 =>
          obtain ⟨otr, Γ2⟩ := p2
          cases otr with
          | none => simp
          | some tr =>
            simp only [this, if_true, Option.map_some]
            rw [bindGuarded_snd]

theorem checkEwmaV_eq (Γ : Env) (x : Name) (a v : Expr) :
    checkEwmaV Γ x a v = (typeOfV Γ (.sexp .bind (.atom (.name x)) (.sexp .ewma a v))).map (·.2) := by
  unfold checkEwmaV
  rw [typeOfV_def Γ (.sexp _ _ _), typeOfG_bind, typeOfG_guard (Or.inr (Or.inr rfl))]
  simp only [typeOfV_def]
  cases hc : typeOfG Γ a with
  | none => simp
  | some p1 =>
    obtain ⟨otl, Γ1⟩ := p1
    cases otl with
    | none => simp
    | some tl =>
      cases tl with
      | bool =>
        simp only
        cases hv : typeOfG Γ1 v with
        | none => simp
        | some p2 =>
          obtain ⟨otr, Γ2⟩ := p2
          cases otr <;> simp [guardOk]
      | num =>
        simp only
        cases hv : typeOfG Γ1 v with
        | none => simp
        | some p2 =>
          obtain ⟨otr, Γ2⟩ := p2
          cases otr with
          | none => simp
          | some tr =>
            cases tr with
            | bool => simp [guardOk]
            | num =>
              simp only [guardOk, if_true]
              rw [bindGuarded_snd]

/-- **the statement rules are the value rule**: a statement `(:= x rhs)` is checked exactly as the value
expression `(:= x rhs)` is typed (`checkRhsV`, `checkPlainV`, `checkGuardedV`, `checkEwmaV` spell the
three shapes out) -/
theorem checkRhsV_eq (Γ : Env) (x : Name) (rhs : Expr) :
    checkRhsV Γ x rhs = (typeOfV Γ (.sexp .bind (.atom (.name x)) rhs)).map (·.2) := by
  have hplain : (∀ o l r, rhs = .sexp o l r → ¬ (o = .if ∨ o = .notIf ∨ o = .ewma)) →
      checkPlainV Γ x rhs = (typeOfV Γ (.sexp .bind (.atom (.name x)) rhs)).map (·.2) := by
    intro hno
    apply checkPlainV_eq
    intro Γ' h
    obtain ⟨o, l, r, he, ho⟩ := typeOfG_placeholder h
    exact hno o l r he ho
  cases rhs with
  | sexp o l r =>
    cases o
    case «if» => exact checkGuardedV_eq (Or.inl rfl) Γ x l r
    case notIf => exact checkGuardedV_eq (Or.inr rfl) Γ x l r
    case ewma => exact checkEwmaV_eq Γ x l r
    all_goals
      exact hplain (by
        intro o' l' r' he ho
        simp only [Expr.sexp.injEq] at he
        rcases ho with h | h | h <;> (rw [h] at he; exact absurd he.1 (by decide)))
  | atom p => exact hplain (by intro o l r he; cases he)
  | cmd c => exact hplain (by intro o l r he; cases he)
  | none => exact hplain (by intro o l r he; cases he)

theorem checkStmtV_eq (Γ : Env) (x : Name) (rhs : Expr) :
    checkStmtV Γ (.sexp .bind (.atom (.name x)) rhs) =
      if tmps rhs ≤ maxTmps then (typeOfV Γ (.sexp .bind (.atom (.name x)) rhs)).map (·.2) else none := by
  simp only [checkStmtV, checkRhsV_eq]

/-! ## Bodies and events -/

theorem compile_bodyV {Γ' : Env} : ∀ (body : List Expr) (Γ : Env) (sc : Scope), Inv Γ sc → numLocals Γ ≤ 6 →
    checkBodyV Γ body = some Γ' → body.all Frag.litsOkE = true →
    ∃ is sc', compileBody body sc = .ok (is, sc') ∧ Inv Γ' sc' ∧ numLocals Γ' ≤ 6 ∧
      ∀ i ∈ is, instrOk i = true := by
  intro body
  induction body with
  | nil =>
    intro Γ sc hi hle hb _
    simp only [checkBodyV, Option.some.injEq] at hb
    subst hb
    exact ⟨[], sc, rfl, hi, hle, by simp⟩
  | cons e rest ih =>
    intro Γ sc hi hle hb hlit
    simp only [List.all_cons, Bool.and_eq_true] at hlit
    simp only [checkBodyV] at hb
    cases hs : checkStmtV Γ e with
    | none => rw [hs] at hb; cases hb
    | some Γ1 =>
      rw [hs] at hb
      simp only at hb
      rw [compileBody]
      by_cases hne : e = .none
      · subst hne
        simp only [checkStmtV, Option.some.injEq] at hs
        subst hs
        rw [if_pos rfl]
        exact ih Γ sc hi hle hb hlit.2
      · rw [if_neg hne]
        obtain ⟨c, e1, hr, hi1, hle1, hin⟩ := compile_stmtV hi.clearTmps hle rfl hs hne hlit.1
        obtain ⟨is, sc', e2, hi2, hle2, hin2⟩ := ih Γ1 c.sc hi1 hle1 hb hlit.2
        rw [e1, Out.bind_ok, if_neg hr, e2, Out.bind_ok]
        refine ⟨_, _, rfl, hi2, hle2, ?_⟩
        intro i hi'
        rcases List.mem_append.mp hi' with h | h
        · exact hin i h
        · exact hin2 i h

theorem checkCondV_some {Γ Γ' : Env} {f : Expr} (h : checkCondV Γ f = some Γ') :
    typeOfV Γ f = some (.bool, Γ') ∧ noBareBoolCondition f = true ∧ noBindCondition f = true ∧ tmps f ≤ 8 := by
  unfold checkCondV at h
  split at h
  · rename_i Γ1 hty
    split at h
    · rename_i hc
      simp only [Bool.and_eq_true, maxTmps] at hc
      simp only [Option.some.injEq] at h
      subst h
      exact ⟨hty, hc.1.1, hc.1.2, of_decide_eq_true hc.2⟩
    · cases h
  · cases h

/-- **Stage lemma, conditions** (assignments allowed inside the operands of the top operator): the
scope, and the environment, the body is compiled in are those the condition leaves. -/
theorem compile_flagV {Γ Γ' : Env} {sc : Scope} {f : Expr} (hi : Inv Γ sc) (hle : numLocals Γ ≤ 6)
    (hc : checkCondV Γ f = some Γ') (hlit : Frag.litsOkE f = true) :
    ∃ is sc', compileFlag f sc = .ok (is, sc') ∧ Inv Γ' sc' ∧ numLocals Γ' ≤ 6 ∧ ∀ i ∈ is, instrOk i = true := by
  obtain ⟨hty, hshape, hnb, htmp⟩ := checkCondV_some hc
  have hle' := (typeOfV_grow _ _ _ _ hty).le hle
  obtain ⟨c, e1, i1, _, ⟨m1, k1, in1⟩, hsexp, hbool⟩ :=
    compile_valueG f Γ (some .bool) Γ' [] sc.clearTmps (typeOfV_eq_some.mp hty) hlit List.nodup_nil
      hi.clearTmps.toP (by rw [mu_nil]; exact hle')
      (by show ([] : List Reg).length + tmps f ≤ 8
          simpa using htmp)
  have hinv : Inv Γ' c.sc := i1.toInv
  obtain ⟨kt, hfl⟩ := Option.isSome_iff_exists.mp hinv.flag
  obtain ⟨fr, hg, hk, _⟩ := hinv.fwd flagName kt.1 kt.2 hfl
  have hfr : regOk fr = true := kindOk_regOk hk
  have hg' : c.sc.get "__eventFlag".toList = some fr := hg
  unfold compileFlag
  rw [e1, Out.bind_ok, hg']
  simp only [unwrapP, Out.bind_ok]
  cases f with
  | atom p =>
    cases p with
    | bool b =>
      obtain ⟨hr, his⟩ := hbool b rfl
      rw [hr, his]
      refine ⟨_, _, rfl, hinv, hle', ?_⟩
      intro i hi'
      simp only [List.nil_append, List.mem_singleton] at hi'
      subst hi'
      simp only [instrOk, Bool.and_eq_true]
      exact ⟨⟨⟨rfl, hfr⟩, hfr⟩, rfl⟩
    | name x => cases hshape
    | num n => cases hshape
  | sexp o l r =>
    obtain ⟨hne, i, t, hr⟩ := hsexp o l r rfl hnb
    rw [hr] at m1
    have : ∃ v, t = .bool v := by
      cases t <;> simp only [tyMatch, Reg.getType, Bool.false_eq_true] at m1
      exact ⟨_, rfl⟩
    obtain ⟨v, rfl⟩ := this
    rw [hr]
    simp only
    rw [if_neg (by simpa using hne)]
    exact ⟨_, _, rfl, hinv, hle', instrOk_setLastRes in1 hfr⟩
  | cmd c => cases hshape
  | none => cases hshape

theorem compile_eventsV {Γ' : Env} : ∀ (evs : List Event) (Γ : Env) (sc : Scope) (idx : Nat), Inv Γ sc →
    numLocals Γ ≤ 6 → checkEventsV Γ evs = some Γ' → Frag.LitsOk evs = true →
    ∃ cp, compileEvents evs idx sc = .ok cp ∧ Inv Γ' cp.sc ∧ ∀ i ∈ cp.instrs, instrOk i = true := by
  intro evs
  induction evs with
  | nil =>
    intro Γ sc idx hi _ hb _
    simp only [checkEventsV, Option.some.injEq] at hb
    subst hb
    exact ⟨⟨[], [], sc⟩, rfl, hi, by simp⟩
  | cons ev rest ih =>
    intro Γ sc idx hi hle hb hlit
    simp only [Frag.LitsOk, List.all_cons, Bool.and_eq_true] at hlit
    simp only [checkEventsV] at hb
    cases hc : checkCondV Γ ev.flag with
    | none => rw [hc] at hb; cases hb
    | some Γ0 =>
      rw [hc] at hb
      simp only at hb
      cases hbd : checkBodyV Γ0 ev.body with
      | none => rw [hbd] at hb; cases hb
      | some Γ1 =>
        rw [hbd] at hb
        simp only at hb
        obtain ⟨fi, sc1, e1, hi1, hle1, hin1⟩ := compile_flagV hi hle hc hlit.1.1
        obtain ⟨bi, sc2, e2, hi2, hle2, hin2⟩ := compile_bodyV ev.body Γ0 sc1 hi1 hle1 hbd hlit.1.2
        obtain ⟨cp, e3, hi3, hin3⟩ := ih Γ1 sc2 (idx + fi.length + bi.length) hi2 hle2 hb hlit.2
        rw [compileEvents, e1, Out.bind_ok]
        simp only
        rw [e2, Out.bind_ok]
        simp only
        rw [e3, Out.bind_ok]
        refine ⟨_, rfl, hi3, ?_⟩
        intro i hi'
        simp only [List.mem_append] at hi'
        rcases hi' with (h | h) | h
        · exact hin1 i h
        · exact hin2 i h
        · exact hin3 i h

/-! ## The former check is the restriction of the extended one to stratified programs -/

theorem pureE_opSig {o : Op} {l r : Expr} (h : Frag.pureE (.sexp o l r) = true) :
    (∃ a res, opSig o = some (a, res)) ∧ Frag.pureE l = true ∧ Frag.pureE r = true := by
  simp only [Frag.pureE, Bool.and_eq_true] at h
  obtain ⟨⟨h1, h2⟩, h3⟩ := h
  refine ⟨?_, h2, h3⟩
  cases o <;> first | exact ⟨_, _, rfl⟩ | cases h1

/-- on a pure expression `typeOfG` is `typeOf`, and the environment is left alone -/
theorem typeOfG_pure : ∀ (e : Expr), Frag.pureE e = true → ∀ Γ : Env,
    typeOfG Γ e = (typeOf Γ e).map (fun τ => (some τ, Γ)) := by
  intro e
  induction e with
  | atom p =>
    intro _ Γ
    cases p with
    | bool b => rfl
    | num n => rfl
    | name x => simp only [typeOfG, typeOf, Option.map_map]; rfl
  | cmd c => intro h; cases h
  | none => intro h; cases h
  | sexp o l r ihl ihr =>
    intro h Γ
    obtain ⟨⟨a, res, hs⟩, hl, hr⟩ := pureE_opSig h
    rw [typeOfG_op hs, ihl hl Γ]
    simp only [typeOf, hs]
    cases h1 : typeOf Γ l with
    | none => rfl
    | some tl =>
      simp only [Option.map_some]
      rw [ihr hr Γ]
      cases h2 : typeOf Γ r with
      | none => rfl
      | some tr =>
        simp only [Option.map_some]
        split <;> rfl

theorem typeOfV_pure (e : Expr) (hp : Frag.pureE e = true) (Γ : Env) :
    typeOfV Γ e = (typeOf Γ e).map (fun τ => (τ, Γ)) := by
  unfold typeOfV
  rw [typeOfG_pure e hp Γ]
  cases typeOf Γ e <;> rfl

theorem checkPlainV_pure {e : Expr} (hp : Frag.pureE e = true) (Γ : Env) (x : Name) :
    checkPlainV Γ x e = checkPlain Γ x e := by
  unfold checkPlainV checkPlain
  rw [typeOfV_pure e hp Γ]
  cases typeOf Γ e with
  | none => rfl
  | some τ =>
    simp only [Option.map_some, bindValue]
    cases hl : lookup x Γ with
    | some kt =>
      obtain ⟨k, τx⟩ := kt
      simp only
      split <;> rfl
    | none =>
      simp only
      split <;> rfl

theorem checkGuardedV_pure {c v : Expr} (hc : Frag.pureE c = true) (hv : Frag.pureE v = true) (Γ : Env)
    (x : Name) : checkGuardedV Γ x c v = checkGuarded Γ x c v := by
  unfold checkGuardedV checkGuarded
  rw [typeOfV_pure c hc Γ]
  cases guardedTargetDeclared Γ x with
  | false => simp
  | true =>
    cases h1 : typeOf Γ c with
    | none => simp
    | some tc =>
      cases tc with
      | num => simp
      | bool =>
        simp only [Option.map_some, if_true]
        rw [typeOfV_pure v hv Γ]
        cases h2 : typeOf Γ v with
        | none => simp
        | some tv => simp

theorem checkEwmaV_pure {a v : Expr} (ha : Frag.pureE a = true) (hv : Frag.pureE v = true) (Γ : Env)
    (x : Name) : checkEwmaV Γ x a v = checkEwma Γ x a v := by
  unfold checkEwmaV checkEwma
  rw [typeOfV_pure a ha Γ]
  cases guardedTargetDeclared Γ x with
  | false => simp
  | true =>
    cases h1 : typeOf Γ a with
    | none => simp
    | some ta =>
      cases ta with
      | bool => simp
      | num =>
        simp only [Option.map_some, if_true]
        rw [typeOfV_pure v hv Γ]
        cases h2 : typeOf Γ v with
        | none => simp
        | some tv => cases tv <;> simp

theorem checkRhsV_pure {r : Expr} (hp : Frag.pureE r = true) (Γ : Env) (x : Name) :
    checkRhsV Γ x r = checkRhs Γ x r := by
  cases r with
  | atom p => exact checkPlainV_pure hp Γ x
  | cmd c => cases hp
  | none => cases hp
  | sexp o l r =>
    cases o <;> first
      | (simp [Frag.pureE] at hp; done)
      | exact checkPlainV_pure hp Γ x

theorem checkStmtV_stmtOk {e : Expr} (h : Frag.stmtOk e = true) (Γ : Env) : checkStmtV Γ e = checkStmt Γ e := by
  unfold Frag.stmtOk at h
  split at h
  · rfl
  · simp only [Bool.and_eq_true] at h
    simp only [checkStmtV, checkStmt, checkRhsV, checkRhs, checkGuardedV_pure h.1 h.2]
  · simp only [Bool.and_eq_true] at h
    simp only [checkStmtV, checkStmt, checkRhsV, checkRhs, checkGuardedV_pure h.1 h.2]
  · simp only [Bool.and_eq_true] at h
    simp only [checkStmtV, checkStmt, checkRhsV, checkRhs, checkEwmaV_pure h.1 h.2]
  · simp only [checkStmtV, checkStmt, checkRhsV_pure h]
  · cases h

theorem checkBodyV_stmtOk : ∀ (body : List Expr), body.all Frag.stmtOk = true → ∀ Γ : Env,
    checkBodyV Γ body = checkBody Γ body := by
  intro body
  induction body with
  | nil => intro _ Γ; rfl
  | cons e rest ih =>
    intro h Γ
    simp only [List.all_cons, Bool.and_eq_true] at h
    simp only [checkBodyV, checkBody, checkStmtV_stmtOk h.1]
    cases checkStmt Γ e with
    | none => rfl
    | some Γ1 => exact ih h.2 Γ1

theorem noBindCondition_pure {e : Expr} (hp : Frag.pureE e = true) : noBindCondition e = true := by
  cases e with
  | sexp o l r =>
    obtain ⟨⟨a, res, hs⟩, _, _⟩ := pureE_opSig hp
    simp only [noBindCondition, hs, Option.isSome_some]
  | atom p => rfl
  | cmd c => rfl
  | none => rfl

/-- on a pure condition `checkCondV` is `checkCond`, and the environment is left alone -/
theorem checkCondV_pure {c : Expr} (hp : Frag.pureE c = true) (Γ : Env) :
    checkCondV Γ c = if checkCond Γ c then some Γ else none := by
  unfold checkCondV checkCond
  rw [typeOfV_pure c hp Γ, noBindCondition_pure hp]
  cases h1 : typeOf Γ c with
  | none => simp
  | some τ =>
    cases τ with
    | num => simp
    | bool => simp

theorem checkEventsV_stratified : ∀ (evs : List Event), Frag.Stratified evs = true → ∀ Γ : Env,
    checkEventsV Γ evs = checkEvents Γ evs := by
  intro evs
  induction evs with
  | nil => intro _ Γ; rfl
  | cons ev rest ih =>
    intro h Γ
    simp only [Frag.Stratified, List.all_cons, Bool.and_eq_true] at h
    simp only [checkEventsV, checkEvents, checkCondV_pure h.1.1]
    cases checkCond Γ ev.flag with
    | false => rfl
    | true =>
      simp only [if_true, checkBodyV_stmtOk _ h.1.2]
      cases checkBody Γ ev.body with
      | none => rfl
      | some Γ1 => exact ih (by simp only [Frag.Stratified]; exact h.2) Γ1

end Portus.Lang.Typing
