import PortusModel.Lemmas.Accept
/-!
# C20, acceptance: assignments used as values (`typeOfV`, `checkStmtV`, …)

The stage lemma `compile_value` generalises `compile_pure` (`Accept.lean`) to expressions that contain
plain assignments in value position. Two things are new with respect to pure expressions:

* the scope changes while an expression is compiled (new locals, re-typed locals), so the lemma
  threads the typing environment exactly as `typeOfV` does;
* the compiler allocates the local of a new target **before** it compiles the right-hand side, and
  gives it a type only **after**: in between the scope holds *pending* locals, bound (to a register
  whose recorded type is still their own name) but unknown to the typing environment. The invariant
  `InvP Γ P sc` carries the list `P` of such names.
-/
namespace Portus.Lang.Typing
open Portus Portus.Lang

/-! ## `lookup`, `setTy`, `numLocals` -/

theorem lookup_setTy (y x : Name) (τ : Ty) (Γ : Env) :
    lookup y (setTy x τ Γ) = if y = x then (lookup x Γ).map (fun kt => (kt.1, τ)) else lookup y Γ := by
  induction Γ with
  | nil => simp [setTy, lookup]
  | cons p rest ih =>
    obtain ⟨z, k, t⟩ := p
    have hcons : setTy x τ ((z, k, t) :: rest) = (if z = x then (z, k, τ) else (z, k, t)) :: setTy x τ rest := rfl
    rw [hcons]
    by_cases hzx : z = x
    · subst hzx
      rw [if_pos rfl]
      by_cases hy : z = y
      · subst hy
        simp only [lookup_cons, if_true, Option.map_some]
      · have hy' : ¬ y = z := fun e => hy e.symm
        rw [lookup_cons, if_neg hy, ih, if_neg hy', if_neg hy', lookup_cons, if_neg hy]
    · rw [if_neg hzx]
      by_cases hy : z = y
      · subst hy
        rw [lookup_cons, if_pos rfl, if_neg hzx, lookup_cons, if_pos rfl]
      · rw [lookup_cons, if_neg hy, ih]
        by_cases hyx : y = x
        · subst hyx
          rw [if_pos rfl, if_pos rfl, lookup_cons, if_neg hzx]
        · rw [if_neg hyx, if_neg hyx, lookup_cons, if_neg hy]

theorem lookup_setTy_isNone (y x : Name) (τ : Ty) (Γ : Env) :
    (lookup y (setTy x τ Γ)).isNone = (lookup y Γ).isNone := by
  rw [lookup_setTy]
  split
  · rename_i h; subst h; cases lookup y Γ <;> rfl
  · rfl

theorem numLocals_setTy (x : Name) (τ : Ty) (Γ : Env) : numLocals (setTy x τ Γ) = numLocals Γ := by
  induction Γ with
  | nil => rfl
  | cons p rest ih =>
    obtain ⟨z, k, t⟩ := p
    have hcons : setTy x τ ((z, k, t) :: rest) = (if z = x then (z, k, τ) else (z, k, t)) :: setTy x τ rest := rfl
    rw [hcons]
    unfold numLocals at ih ⊢
    rw [List.countP_cons, List.countP_cons, ih]
    split <;> rfl

theorem numLocals_cons_loc (x : Name) (τ : Ty) (Γ : Env) :
    numLocals ((x, Kind.loc, τ) :: Γ) = numLocals Γ + 1 := by
  simp [numLocals]

/-! ## Pending names -/

/-- the names of `P` that `Γ` does not know (yet) -/
def pendOf (P : List Name) (Γ : Env) : List Name := P.filter fun y => (lookup y Γ).isNone

/-- locals in existence: those of `Γ` plus the pending ones -/
def mu (Γ : Env) (P : List Name) : Nat := numLocals Γ + (pendOf P Γ).length

theorem pendOf_cons_known {x : Name} {P : List Name} {Γ : Env} (h : (lookup x Γ).isSome = true) :
    pendOf (x :: P) Γ = pendOf P Γ := by
  unfold pendOf
  rw [List.filter_cons]
  rw [if_neg (by cases hl : lookup x Γ <;> simp_all)]

theorem pendOf_cons_unknown {x : Name} {P : List Name} {Γ : Env} (h : lookup x Γ = none) :
    pendOf (x :: P) Γ = x :: pendOf P Γ := by
  unfold pendOf
  rw [List.filter_cons, if_pos (by rw [h]; rfl)]

theorem pendOf_congr {P : List Name} {Γ1 Γ2 : Env}
    (h : ∀ y, (lookup y Γ1).isNone = (lookup y Γ2).isNone) : pendOf P Γ1 = pendOf P Γ2 := by
  unfold pendOf
  congr 1
  funext y
  exact h y

theorem pendOf_cons_env (P : List Name) (x : Name) (kt : Kind × Ty) (Γ : Env) :
    pendOf P ((x, kt) :: Γ) = (pendOf P Γ).filter fun y => decide (y ≠ x) := by
  unfold pendOf
  rw [List.filter_filter]
  congr 1
  funext y
  rw [lookup_cons]
  by_cases h : x = y
  · subst h; simp
  · rw [if_neg h]
    have : decide (y ≠ x) = true := by simp only [decide_eq_true_eq]; exact fun e => h e.symm
    rw [this, Bool.true_and]

theorem filter_ne_length {l : List Name} (hn : l.Nodup) (x : Name) :
    (l.filter fun y => decide (y ≠ x)).length + (if x ∈ l then 1 else 0) = l.length := by
  induction l with
  | nil => simp
  | cons a rest ih =>
    have hn' := List.nodup_cons.mp hn
    have ih' := ih hn'.2
    rw [List.filter_cons]
    by_cases hax : a = x
    · subst hax
      rw [if_neg (by simp), if_pos List.mem_cons_self]
      rw [if_neg hn'.1] at ih'
      simp only [List.length_cons]
      omega
    · rw [if_pos (by simp only [decide_eq_true_eq]; exact hax)]
      simp only [List.length_cons, List.mem_cons]
      by_cases hx : x ∈ rest
      · rw [if_pos hx] at ih'
        rw [if_pos (Or.inr hx)]
        omega
      · rw [if_neg hx] at ih'
        rw [if_neg (by rintro (h | h); exact hax h.symm; exact hx h)]
        omega

theorem pendOf_nodup {P : List Name} (hn : P.Nodup) (Γ : Env) : (pendOf P Γ).Nodup :=
  hn.filter _

theorem mem_pendOf {x : Name} {P : List Name} {Γ : Env} :
    x ∈ pendOf P Γ ↔ x ∈ P ∧ lookup x Γ = none := by
  unfold pendOf
  rw [List.mem_filter]
  cases lookup x Γ <;> simp

/-- adding an unknown name to the environment as a local: the number of locals in existence grows by
one unless the name was pending -/
theorem mu_cons_loc {P : List Name} (hn : P.Nodup) {x : Name} {Γ : Env} (hx : lookup x Γ = none) (τ : Ty) :
    mu ((x, Kind.loc, τ) :: Γ) P + (if x ∈ P then 1 else 0) = mu Γ P + 1 := by
  unfold mu
  rw [numLocals_cons_loc, pendOf_cons_env]
  have := filter_ne_length (pendOf_nodup hn Γ) x
  have hiff : x ∈ pendOf P Γ ↔ x ∈ P := by
    rw [mem_pendOf]; exact ⟨fun h => h.1, fun h => ⟨h, hx⟩⟩
  by_cases hxP : x ∈ P
  · rw [if_pos (hiff.mpr hxP)] at this
    rw [if_pos hxP]
    omega
  · rw [if_neg (fun h => hxP (hiff.mp h))] at this
    rw [if_neg hxP]
    omega

theorem mu_setTy (P : List Name) (x : Name) (τ : Ty) (Γ : Env) : mu (setTy x τ Γ) P = mu Γ P := by
  unfold mu
  rw [numLocals_setTy, pendOf_congr (lookup_setTy_isNone · x τ Γ)]

theorem mu_cons_known {x : Name} {P : List Name} {Γ : Env} (h : (lookup x Γ).isSome = true) :
    mu Γ (x :: P) = mu Γ P := by
  unfold mu; rw [pendOf_cons_known h]

theorem mu_cons_unknown {x : Name} {P : List Name} {Γ : Env} (h : lookup x Γ = none) :
    mu Γ (x :: P) = mu Γ P + 1 := by
  unfold mu; rw [pendOf_cons_unknown h]; simp only [List.length_cons]; omega

/-! ## Inversion of `typeOfV` -/

theorem bindName_some {o : Op} {l : Expr} {x : Name} (h : bindName o l = some x) :
    o = .bind ∧ l = .atom (.name x) := by
  unfold bindName at h
  split at h
  · simp only [Option.some.injEq] at h; subst h; exact ⟨rfl, rfl⟩
  · cases h

theorem typeOfV_bind (Γ : Env) (x : Name) (r : Expr) :
    typeOfV Γ (.sexp .bind (.atom (.name x)) r) =
      match typeOfV Γ r with
      | some (τ, Γ') => bindValue Γ Γ' x τ
      | none => none := by
  rw [typeOfV]
  simp only [opSig, bindName]
  rfl

theorem typeOfV_op {o : Op} {a res : Ty} (hs : opSig o = some (a, res)) (Γ : Env) (l r : Expr) :
    typeOfV Γ (.sexp o l r) =
      match typeOfV Γ l with
      | some (tl, Γ1) =>
        match typeOfV Γ1 r with
        | some (tr, Γ2) => if tl = a ∧ tr = a then some (res, Γ2) else none
        | none => none
      | none => none := by
  rw [typeOfV, hs]
  rfl

/-- the two ways an operator node can be a value: an operator of `opSig`, or a plain assignment -/
theorem typeOfV_sexp_inv {Γ Γ'' : Env} {o : Op} {l r : Expr} {τ : Ty}
    (h : typeOfV Γ (.sexp o l r) = some (τ, Γ'')) :
    (∃ a Γ1, opSig o = some (a, τ) ∧ typeOfV Γ l = some (a, Γ1) ∧ typeOfV Γ1 r = some (a, Γ'')) ∨
    (∃ x τr Γ', o = .bind ∧ l = .atom (.name x) ∧ typeOfV Γ r = some (τr, Γ') ∧
      bindValue Γ Γ' x τr = some (τ, Γ'')) := by
  rw [typeOfV] at h
  cases hs : opSig o with
  | some ar =>
    obtain ⟨a, res⟩ := ar
    rw [hs] at h
    simp only at h
    left
    cases hl : typeOfV Γ l with
    | none => rw [hl] at h; cases h
    | some p1 =>
      obtain ⟨tl, Γ1⟩ := p1
      rw [hl] at h
      simp only at h
      cases hr : typeOfV Γ1 r with
      | none => rw [hr] at h; cases h
      | some p2 =>
        obtain ⟨tr, Γ2⟩ := p2
        rw [hr] at h
        simp only at h
        split at h
        · rename_i hand
          obtain ⟨rfl, rfl⟩ := hand
          simp only [Option.some.injEq, Prod.mk.injEq] at h
          obtain ⟨rfl, rfl⟩ := h
          exact ⟨_, _, rfl, rfl, hr⟩
        · cases h
  | none =>
    rw [hs] at h
    simp only at h
    right
    cases hb : bindName o l with
    | none => rw [hb] at h; cases h
    | some x =>
      rw [hb] at h
      simp only at h
      obtain ⟨rfl, rfl⟩ := bindName_some hb
      cases hr : typeOfV Γ r with
      | none => rw [hr] at h; cases h
      | some p =>
        obtain ⟨τr, Γ'⟩ := p
        rw [hr] at h
        exact ⟨x, τr, Γ', rfl, rfl, rfl, h⟩

/-- the three outcomes of the `Op::Bind` arm -/
theorem bindValue_inv {Γ Γ' Γ'' : Env} {x : Name} {τr τ : Ty} (h : bindValue Γ Γ' x τr = some (τ, Γ'')) :
    (∃ k, lookup x Γ = some (k, τ) ∧ notReadOnly k = true ∧ Γ'' = Γ') ∨
    (lookup x Γ = none ∧ τ = τr ∧
      ((∃ kt, lookup x Γ' = some kt ∧ Γ'' = setTy x τr Γ') ∨
       (lookup x Γ' = none ∧ numLocals Γ' < 6 ∧ Γ'' = (x, Kind.loc, τr) :: Γ'))) := by
  unfold bindValue at h
  cases hl : lookup x Γ with
  | some kt =>
    obtain ⟨k, τx⟩ := kt
    rw [hl] at h
    simp only at h
    split at h
    · rename_i hk
      simp only [knownTargetType, Option.some.injEq, Prod.mk.injEq] at h
      obtain ⟨rfl, rfl⟩ := h
      exact Or.inl ⟨k, rfl, hk, rfl⟩
    · cases h
  | none =>
    rw [hl] at h
    simp only at h
    right
    cases hl' : lookup x Γ' with
    | some kt =>
      rw [hl'] at h
      simp only [Option.some.injEq, Prod.mk.injEq] at h
      obtain ⟨rfl, rfl⟩ := h
      exact ⟨rfl, rfl, Or.inl ⟨kt, rfl, rfl⟩⟩
    | none =>
      rw [hl'] at h
      simp only at h
      split at h
      · rename_i hlt
        simp only [Option.some.injEq, Prod.mk.injEq] at h
        obtain ⟨rfl, rfl⟩ := h
        exact ⟨rfl, rfl, Or.inr ⟨rfl, hlt, rfl⟩⟩
      · cases h

/-! ## How the environment evolves while an expression is typed -/

structure Grow (Γ Γ' : Env) : Prop where
  /-- a known name keeps its kind and type -/
  keep : ∀ x kt, lookup x Γ = some kt → lookup x Γ' = some kt
  /-- new names are locals -/
  newLoc : ∀ x k t, lookup x Γ = none → lookup x Γ' = some (k, t) → k = Kind.loc
  /-- locals in existence (with any set of pending names) only become more -/
  mu : ∀ P : List Name, P.Nodup → mu Γ P ≤ mu Γ' P
  le : numLocals Γ ≤ 6 → numLocals Γ' ≤ 6

theorem Grow.refl (Γ : Env) : Grow Γ Γ :=
  ⟨fun _ _ h => h, fun x k t h1 h2 => (by rw [h1] at h2; cases h2), fun _ _ => Nat.le_refl _, fun h => h⟩

theorem Grow.trans {Γ Γ1 Γ2 : Env} (h1 : Grow Γ Γ1) (h2 : Grow Γ1 Γ2) : Grow Γ Γ2 := by
  refine ⟨fun x kt h => h2.keep x kt (h1.keep x kt h), ?_, fun P hn => Nat.le_trans (h1.mu P hn) (h2.mu P hn),
    fun h => h2.le (h1.le h)⟩
  intro x k t hx hx2
  cases hl : lookup x Γ1 with
  | none => exact h2.newLoc x k t hl hx2
  | some kt =>
    have := h2.keep x kt hl
    rw [hx2] at this
    cases this
    exact h1.newLoc x k t hx hl

theorem bindValue_mu {Γ Γ' Γ'' : Env} {x : Name} {τr τ : Ty} (h : bindValue Γ Γ' x τr = some (τ, Γ''))
    {P : List Name} (hn : P.Nodup) : mu Γ' P ≤ mu Γ'' P := by
  rcases bindValue_inv h with ⟨k, _, _, rfl⟩ | ⟨_, _, ⟨kt, _, rfl⟩ | ⟨hx', _, rfl⟩⟩
  · exact Nat.le_refl _
  · rw [mu_setTy]; exact Nat.le_refl _
  · have := mu_cons_loc hn hx' τr
    split at this <;> omega

theorem bindValue_grow {Γ Γ' Γ'' : Env} {x : Name} {τr τ : Ty} (hg : Grow Γ Γ')
    (h : bindValue Γ Γ' x τr = some (τ, Γ'')) : Grow Γ Γ'' := by
  refine ⟨?_, ?_, fun P hn => Nat.le_trans (hg.mu P hn) (bindValue_mu h hn), ?_⟩
  · intro y kt hy
    rcases bindValue_inv h with ⟨k, _, _, rfl⟩ | ⟨hx, _, ⟨kt', _, rfl⟩ | ⟨hx', _, rfl⟩⟩
    · exact hg.keep y kt hy
    · rw [lookup_setTy, if_neg (lookup_ne_of_none_some hx hy)]
      exact hg.keep y kt hy
    · rw [lookup_cons, if_neg (fun e => lookup_ne_of_none_some hx hy e.symm)]
      exact hg.keep y kt hy
  · intro y k t hy hy2
    rcases bindValue_inv h with ⟨k', _, _, rfl⟩ | ⟨hx, _, ⟨kt', hx', rfl⟩ | ⟨hx', _, rfl⟩⟩
    · exact hg.newLoc y k t hy hy2
    · rw [lookup_setTy] at hy2
      split at hy2
      · rename_i e
        subst e
        rw [hx'] at hy2
        simp only [Option.map_some, Option.some.injEq, Prod.mk.injEq] at hy2
        obtain ⟨k1, t1⟩ := kt'
        exact hy2.1 ▸ hg.newLoc y k1 t1 hy hx'
      · exact hg.newLoc y k t hy hy2
    · rw [lookup_cons] at hy2
      split at hy2
      · simp only [Option.some.injEq, Prod.mk.injEq] at hy2
        exact hy2.1.symm
      · exact hg.newLoc y k t hy hy2
  · intro hle
    have := hg.le hle
    rcases bindValue_inv h with ⟨k', _, _, rfl⟩ | ⟨hx, _, ⟨kt', hx', rfl⟩ | ⟨hx', hlt, rfl⟩⟩
    · exact this
    · rw [numLocals_setTy]; exact this
    · rw [numLocals_cons_loc]; omega

theorem typeOfV_grow : ∀ (e : Expr) (Γ : Env) (τ : Ty) (Γ' : Env), typeOfV Γ e = some (τ, Γ') → Grow Γ Γ' := by
  intro e
  induction e with
  | atom p =>
    intro Γ τ Γ' h
    cases p with
    | bool b => simp only [typeOfV, Option.some.injEq, Prod.mk.injEq] at h; rw [← h.2]; exact Grow.refl _
    | num n => simp only [typeOfV, Option.some.injEq, Prod.mk.injEq] at h; rw [← h.2]; exact Grow.refl _
    | name x =>
      simp only [typeOfV] at h
      cases hl : lookup x Γ with
      | none => rw [hl] at h; cases h
      | some kt =>
        rw [hl] at h
        simp only [Option.map_some, Option.some.injEq, Prod.mk.injEq] at h
        rw [← h.2]; exact Grow.refl _
  | cmd c => intro Γ τ Γ' h; simp [typeOfV] at h
  | none => intro Γ τ Γ' h; simp [typeOfV] at h
  | sexp o l r ihl ihr =>
    intro Γ τ Γ'' h
    rcases typeOfV_sexp_inv h with ⟨a, Γ1, _, hl, hr⟩ | ⟨x, τr, Γ', rfl, rfl, hr, hb⟩
    · exact (ihl _ _ _ hl).trans (ihr _ _ _ hr)
    · exact bindValue_grow (ihr _ _ _ hr) hb

/-! ## The invariant inside an expression -/

/-- `Inv` (`Accept.lean`) with pending names: a name of `P` that `Γ` does not know is bound to a
local (inside the encoder's range) whose recorded type is still its own name; nothing else is bound;
`numLocal` counts the locals of `Γ` and the pending ones -/
structure InvP (Γ : Env) (P : List Name) (sc : Scope) : Prop where
  fwd : Fwd Γ sc.named
  pend : ∀ x ∈ P, lookup x Γ = none → ∃ i, i ≤ 5 ∧ regGet x sc.named = some (.local i (.name x))
  bwd : ∀ x, lookup x Γ = none → x ∉ P → regGet x sc.named = none
  nloc : sc.numLocal = mu Γ P
  flag : (lookup flagName Γ).isSome = true

theorem InvP.congr {Γ : Env} {P : List Name} {sc sc' : Scope} (hi : InvP Γ P sc) (hn : sc'.named = sc.named)
    (hl : sc'.numLocal = sc.numLocal) : InvP Γ P sc' :=
  ⟨(by rw [hn]; exact hi.fwd), (by rw [hn]; exact hi.pend), (by rw [hn]; exact hi.bwd),
    (by rw [hl]; exact hi.nloc), hi.flag⟩

theorem mu_nil (Γ : Env) : mu Γ [] = numLocals Γ := by simp [mu, pendOf]

theorem Inv.toP {Γ : Env} {sc : Scope} (hi : Inv Γ sc) : InvP Γ [] sc :=
  ⟨hi.fwd, fun x hx => (by cases hx), fun x hx _ => hi.bwd x hx, (by rw [mu_nil]; exact hi.nloc), hi.flag⟩

theorem InvP.toInv {Γ : Env} {sc : Scope} (hi : InvP Γ [] sc) : Inv Γ sc :=
  ⟨hi.fwd, fun x hx => hi.bwd x hx (by simp), (by rw [← mu_nil]; exact hi.nloc), hi.flag⟩

/-! ## The `Op::Bind` arm when the (stale) left register is still untyped -/

theorem combineBind_retype {x : Name} {i j : Nat} {t : Lang.Ty} {right : Reg} (sc : Scope) (is : List Instr)
    (hg : regGet x sc.named = some (.local j t)) (hr : right ≠ .none) (ht : ∀ s, right.getType ≠ .name s) :
    combineBind is (.local i (.name x)) right sc =
      .ok ⟨is ++ [{ res := .local j right.getType, op := .bind, left := .local j right.getType, right := right }],
           .local j right.getType,
           { sc with named := regSet x (.local j right.getType) sc.named }⟩ := by
  have hbt : bindTarget (.local i (.name x)) right sc =
      .ok (.local j right.getType, { sc with named := regSet x (.local j right.getType) sc.named }) := by
    unfold bindTarget
    rw [show (Reg.local i (Lang.Ty.name x)).getType = .name x from rfl]
    simp only
    cases h : right.getType with
    | name s => exact absurd h (ht s)
    | _ => simp only [Scope.updateType, hg]
  unfold combineBind
  rw [hbt]
  simp only [bindEmit]
  rw [if_neg hr, if_pos (by rfl)]

/-- the target of an assignment that the environment does not know: it is pending already, or the
compiler allocates it now -/
theorem target_unknown {Γ : Env} {P : List Name} {sc : Scope} {x : Name} (hi : InvP Γ P sc) (hn : P.Nodup)
    (hx : lookup x Γ = none) (hmu : x ∉ P → mu Γ P < 6) :
    ∃ c P1 i, compileAtom (.name x) sc = .ok c ∧ c.instrs = [] ∧ c.reg = .local i (.name x) ∧
      c.sc.tmp = sc.tmp ∧ (P1 = P ∨ (P1 = x :: P ∧ x ∉ P)) ∧ x ∈ P1 ∧ P1.Nodup ∧ InvP Γ P1 c.sc := by
  by_cases hxP : x ∈ P
  · obtain ⟨i, _, hg⟩ := hi.pend x hxP hx
    exact ⟨⟨[], .local i (.name x), sc⟩, P, i, compileAtom_known (show sc.get x = some _ from hg), rfl, rfl, rfl, Or.inl rfl, hxP, hn, hi⟩
  · have hg : sc.get x = none := hi.bwd x hx hxP
    have hnl : sc.numLocal ≤ 5 := by
      rw [hi.nloc]
      have := hmu hxP
      omega
    refine ⟨_, x :: P, sc.numLocal, compileAtom_new hg (by omega), rfl, rfl, rfl, Or.inr ⟨rfl, hxP⟩,
      List.mem_cons_self, List.nodup_cons.mpr ⟨hxP, hn⟩, ?_, ?_, ?_, ?_, hi.flag⟩
    · intro y k τy hy
      obtain ⟨r, h1, h2, h3⟩ := hi.fwd y k τy hy
      exact ⟨r, by simp only; rw [regGet_regInsert_ne (lookup_ne_of_none_some hx hy)]; exact h1, h2, h3⟩
    · intro y hy hyΓ
      simp only
      rcases List.mem_cons.mp hy with rfl | hy
      · exact ⟨sc.numLocal, hnl, regGet_regInsert_self _ _ _⟩
      · have hne : y ≠ x := fun e => hxP (e ▸ hy)
        rw [regGet_regInsert_ne hne]
        exact hi.pend y hy hyΓ
    · intro y hyΓ hy
      simp only
      have hne : y ≠ x := fun e => hy (e ▸ List.mem_cons_self)
      rw [regGet_regInsert_ne hne]
      exact hi.bwd y hyΓ (fun h => hy (List.mem_cons_of_mem _ h))
    · simp only
      rw [hi.nloc, mu_cons_unknown hx]

/-- … and what the bind arm leaves: the target, typed, in the environment -/
theorem InvP.bind_new {Γ' Γ'' : Env} {P1 P : List Name} {sc : Scope} {x : Name} {j : Nat} {t rt : Lang.Ty}
    {τr : Ty} (hi : InvP Γ' P1 sc) (hP1 : P1 = P ∨ (P1 = x :: P ∧ x ∉ P)) (hxP1 : x ∈ P1) (hn : P1.Nodup)
    (hg : regGet x sc.named = some (.local j t)) (hj : j ≤ 5) (hm : tyMatch τr rt = true)
    (hΓ : (∃ t1, lookup x Γ' = some (Kind.loc, t1) ∧ Γ'' = setTy x τr Γ') ∨
          (lookup x Γ' = none ∧ Γ'' = (x, Kind.loc, τr) :: Γ')) :
    InvP Γ'' P { sc with named := regSet x (.local j rt) sc.named } := by
  have hnP : P.Nodup := by
    rcases hP1 with rfl | ⟨rfl, _⟩
    · exact hn
    · exact (List.nodup_cons.mp hn).2
  have hsub : ∀ y, y ∈ P → y ∈ P1 := by
    rcases hP1 with rfl | ⟨rfl, _⟩
    · exact fun _ h => h
    · exact fun _ h => List.mem_cons_of_mem _ h
  have hsup : ∀ y, y ≠ x → y ∈ P1 → y ∈ P := by
    rcases hP1 with rfl | ⟨rfl, _⟩
    · exact fun _ _ h => h
    · intro y hne h
      rcases List.mem_cons.mp h with e | h
      · exact absurd e hne
      · exact h
  -- what `Γ''` knows
  have hlk : ∀ y, y ≠ x → lookup y Γ'' = lookup y Γ' := by
    intro y hne
    rcases hΓ with ⟨t1, _, rfl⟩ | ⟨_, rfl⟩
    · rw [lookup_setTy, if_neg hne]
    · rw [lookup_cons, if_neg (fun e => hne e.symm)]
  have hlx : lookup x Γ'' = some (Kind.loc, τr) := by
    rcases hΓ with ⟨t1, h1, rfl⟩ | ⟨_, rfl⟩
    · rw [lookup_setTy, if_pos rfl, h1]; rfl
    · rw [lookup_cons, if_pos rfl]
  refine ⟨?_, ?_, ?_, ?_, ?_⟩
  · intro y k τy hy
    simp only
    by_cases hyx : y = x
    · subst hyx
      rw [hlx] at hy
      simp only [Option.some.injEq, Prod.mk.injEq] at hy
      obtain ⟨rfl, rfl⟩ := hy
      refine ⟨.local j rt, ?_, by simp only [kindOk, decide_eq_true_eq]; exact hj, hm⟩
      rw [regGet_regSet_self, hg]; rfl
    · rw [hlk y hyx] at hy
      obtain ⟨r, h1, h2, h3⟩ := hi.fwd y k τy hy
      exact ⟨r, by rw [regGet_regSet_ne hyx]; exact h1, h2, h3⟩
  · intro y hy hyΓ
    simp only
    have hyx : y ≠ x := by
      intro e; subst e; rw [hlx] at hyΓ; cases hyΓ
    rw [hlk y hyx] at hyΓ
    rw [regGet_regSet_ne hyx]
    exact hi.pend y (hsub y hy) hyΓ
  · intro y hyΓ hy
    simp only
    have hyx : y ≠ x := by
      intro e; subst e; rw [hlx] at hyΓ; cases hyΓ
    rw [hlk y hyx] at hyΓ
    rw [regGet_regSet_ne hyx]
    exact hi.bwd y hyΓ (fun h => hy (hsup y hyx h))
  · simp only
    rw [hi.nloc]
    rcases hΓ with ⟨t1, h1, rfl⟩ | ⟨h1, rfl⟩
    · rw [mu_setTy]
      rcases hP1 with rfl | ⟨rfl, _⟩
      · rfl
      · exact mu_cons_known (by rw [h1]; rfl)
    · have := mu_cons_loc hnP h1 τr
      rcases hP1 with rfl | ⟨rfl, hxP⟩
      · rw [if_pos hxP1] at this; omega
      · rw [if_neg hxP] at this
        rw [mu_cons_unknown h1]; omega
  · by_cases hfx : flagName = x
    · rw [hfx, hlx]; rfl
    · rw [hlk _ hfx]; exact hi.flag

/-! ## The stage lemma for value expressions -/

theorem tmps_bind (x : Name) (r : Expr) : tmps (.sexp .bind (.atom (.name x)) r) = tmps r := by
  simp [tmps, opSig]

theorem instrOk_bind {left right : Reg} (hl : regOk left = true) (hr : regOk right = true) :
    instrOk { res := left, op := .bind, left := left, right := right } = true := by
  simp only [instrOk, Bool.and_eq_true]
  exact ⟨⟨⟨rfl, hl⟩, hl⟩, hr⟩

theorem kindOk_loc {r : Reg} (h : kindOk .loc r = true) : ∃ j t, r = .local j t ∧ j ≤ 5 := by
  cases r <;> simp only [kindOk, Bool.false_eq_true, decide_eq_true_eq] at h
  exact ⟨_, _, rfl, h⟩

/-- **Stage lemma, value expressions.** An expression of type `τ` that leaves the environment `Γ'`
compiles in every scope that agrees with `Γ` (up to pending locals `P`), into a scope that agrees with
`Γ'`; `tmps e` temporaries are allocated, the value register has type `τ` and every emitted
instruction serializes. The bound on locals is a bound on the *final* environment (the compiler
allocates the local of a new target before the right-hand side, the check records it after). -/
theorem compile_value : ∀ (e : Expr) (Γ : Env) (τ : Ty) (Γ' : Env) (P : List Name) (sc : Scope),
    typeOfV Γ e = some (τ, Γ') → Frag.litsOkE e = true → P.Nodup → InvP Γ P sc → mu Γ' P ≤ 6 →
    sc.tmp.length + tmps e ≤ 8 →
    ∃ c, compileExpr e sc = .ok c ∧ InvP Γ' P c.sc ∧ c.sc.tmp.length = sc.tmp.length + tmps e ∧
      tyMatch τ c.reg.getType = true ∧ regOk c.reg = true ∧ (∀ i ∈ c.instrs, instrOk i = true) := by
  intro e
  induction e with
  | atom p =>
    intro Γ τ Γ' P sc hty hlit hn hi hmu htmp
    rw [compileExpr_atom]
    cases p with
    | bool b =>
      simp only [typeOfV, Option.some.injEq, Prod.mk.injEq] at hty
      obtain ⟨rfl, rfl⟩ := hty
      exact ⟨⟨[], .immBool b, sc⟩, rfl, hi, by simp [tmps], rfl, rfl, by simp⟩
    | num n =>
      simp only [typeOfV, Option.some.injEq, Prod.mk.injEq] at hty
      obtain ⟨rfl, rfl⟩ := hty
      have hl : litOk n = true := hlit
      exact ⟨⟨[], .immNum n, sc⟩, rfl, hi, by simp [tmps], rfl, regOk_immNum hl, by simp⟩
    | name x =>
      simp only [typeOfV] at hty
      cases hlk : lookup x Γ with
      | none => rw [hlk] at hty; cases hty
      | some kt =>
        obtain ⟨k, τ'⟩ := kt
        rw [hlk] at hty
        simp only [Option.map_some, Option.some.injEq, Prod.mk.injEq] at hty
        obtain ⟨rfl, rfl⟩ := hty
        obtain ⟨r, hg, hk, ht⟩ := hi.fwd x k τ' hlk
        exact ⟨⟨[], r, sc⟩, compileAtom_known (show sc.get x = some r from hg), hi, by simp [tmps], ht,
          kindOk_regOk hk, by simp⟩
  | cmd c => intro Γ τ Γ' P sc hty; simp [typeOfV] at hty
  | none => intro Γ τ Γ' P sc hty; simp [typeOfV] at hty
  | sexp o l r ihl ihr =>
    intro Γ τ Γ'' P sc hty hlit hn hi hmu htmp
    simp only [Frag.litsOkE, Bool.and_eq_true] at hlit
    rcases typeOfV_sexp_inv hty with ⟨a, Γ1, hs, hl, hr⟩ | ⟨x, τr, Γ', rfl, rfl, hr, hb⟩
    · -- an operator
      have htm : tmps (.sexp o l r) = 1 + tmps l + tmps r := by simp [tmps, hs]
      rw [htm] at htmp
      have hg2 := typeOfV_grow _ _ _ _ hr
      obtain ⟨cl, e1, i1, t1, m1, k1, in1⟩ :=
        ihl Γ a Γ1 P sc hl hlit.1 hn hi (Nat.le_trans (hg2.mu P hn) hmu) (by omega)
      obtain ⟨cr, e2, i2, t2, m2, k2, in2⟩ := ihr Γ1 a Γ'' P cl.sc hr hlit.2 hn i1 hmu (by omega)
      rw [compileExpr_sexp, e1, Out.bind_ok, e2, Out.bind_ok, combine_sig hs _ m1 m2]
      have hlen : cr.sc.tmp.length % 256 = sc.tmp.length + tmps l + tmps r := by
        rw [t2, t1]; omega
      refine ⟨_, rfl, i2.congr rfl rfl, ?_, ?_, ?_, ?_⟩
      · simp only [List.length_append, List.length_cons, List.length_nil]
        rw [htm, t2, t1]; omega
      · cases τ <;> rfl
      · exact regOk_tmp _ (by rw [hlen]; omega)
      · intro i hi'
        simp only [List.mem_append, List.mem_singleton] at hi'
        rcases hi' with (hi' | hi') | rfl
        · exact in1 i hi'
        · exact in2 i hi'
        · simp only [instrOk, Bool.and_eq_true]
          exact ⟨⟨⟨opOk_lowerOp hs, regOk_tmp _ (by rw [hlen]; omega)⟩, k1⟩, k2⟩
    · -- an assignment
      rw [tmps_bind] at htmp ⊢
      have hgr := typeOfV_grow _ _ _ _ hr
      rcases bindValue_inv hb with ⟨k, hx, hk, rfl⟩ | ⟨hx, rfl, hΓ⟩
      · -- the target is known: its register is typed and stays what it is
        obtain ⟨rx, hg, hkr, htr⟩ := hi.fwd x k τ hx
        obtain ⟨cr, e2, i2, t2, m2, k2, in2⟩ := ihr Γ τr Γ'' P sc hr hlit.2 hn hi hmu htmp
        rw [compileExpr_sexp, compileExpr_atom, compileAtom_known (show sc.get x = some rx from hg), Out.bind_ok]
        simp only
        rw [e2, Out.bind_ok, combine_bind,
          combineBind_typed _ _ (tyMatch_not_name htr) (regOk_ne_none k2) (kindOk_assignable hkr hk)]
        refine ⟨_, rfl, i2, t2, htr, kindOk_regOk hkr, ?_⟩
        intro i hi'
        simp only [List.nil_append, List.mem_append, List.mem_singleton] at hi'
        rcases hi' with hi' | rfl
        · exact in2 i hi'
        · exact instrOk_bind (kindOk_regOk hkr) k2
      · -- the target is unknown: pending already, or allocated now; typed by this assignment
        have hgr2 : Grow Γ Γ'' := bindValue_grow hgr hb
        have hx2 : (lookup x Γ'').isSome = true := by
          rcases hΓ with ⟨kt, h1, rfl⟩ | ⟨_, _, rfl⟩
          · rw [lookup_setTy, if_pos rfl, h1]; rfl
          · rw [lookup_cons, if_pos rfl]; rfl
        obtain ⟨cl, P1, i0, ea, hci, hcr, hct, hP1, hxP1, hn1, hi1⟩ := target_unknown hi hn hx (by
          intro hxP
          have h1 := hgr2.mu (x :: P) (List.nodup_cons.mpr ⟨hxP, hn⟩)
          rw [mu_cons_known hx2, mu_cons_unknown hx] at h1
          omega)
        have hmu1 : mu Γ' P1 ≤ 6 := by
          have h1 := bindValue_mu hb hn1
          have h2 : mu Γ'' P1 = mu Γ'' P := by
            rcases hP1 with rfl | ⟨rfl, _⟩
            · rfl
            · exact mu_cons_known hx2
          omega
        obtain ⟨cr, e2, i2, t2, m2, k2, in2⟩ :=
          ihr Γ _ Γ' P1 cl.sc hr hlit.2 hn1 hi1 hmu1 (by rw [hct]; exact htmp)
        -- the binding of the target after the right-hand side
        have hbx : ∃ j t, j ≤ 5 ∧ regGet x cr.sc.named = some (.local j t) ∧
            ((∃ t1, lookup x Γ' = some (Kind.loc, t1) ∧ Γ'' = setTy x τ Γ') ∨
             (lookup x Γ' = none ∧ Γ'' = (x, Kind.loc, τ) :: Γ')) := by
          rcases hΓ with ⟨kt, h1, rfl⟩ | ⟨h1, _, rfl⟩
          · obtain ⟨k1, t1⟩ := kt
            have : k1 = Kind.loc := hgr.newLoc x k1 t1 hx h1
            subst this
            obtain ⟨rx, hg, hkr, _⟩ := i2.fwd x _ t1 h1
            obtain ⟨j, t, rfl, hj⟩ := kindOk_loc hkr
            exact ⟨j, t, hj, hg, Or.inl ⟨t1, h1, rfl⟩⟩
          · obtain ⟨j, hj, hg⟩ := i2.pend x hxP1 h1
            exact ⟨j, _, hj, hg, Or.inr ⟨h1, rfl⟩⟩
        obtain ⟨j, t, hj, hgx, hΓ'⟩ := hbx
        rw [compileExpr_sexp, compileExpr_atom, ea, Out.bind_ok, e2, Out.bind_ok, combine_bind, hcr,
          combineBind_retype _ _ hgx (regOk_ne_none k2) (tyMatch_not_name m2)]
        have hloc' : regOk (.local j cr.reg.getType) = true :=
          kindOk_regOk (k := .loc) (by simp only [kindOk, decide_eq_true_eq]; exact hj)
        refine ⟨_, rfl, i2.bind_new hP1 hxP1 hn1 hgx hj m2 hΓ', ?_, m2, hloc', ?_⟩
        · simp only
          rw [t2, hct]
        · intro i hi'
          rw [hci] at hi'
          simp only [List.nil_append, List.mem_append, List.mem_singleton] at hi'
          rcases hi' with hi' | rfl
          · exact in2 i hi'
          · exact instrOk_bind hloc' k2

/-! ## Statements -/

theorem checkPlainV_eq (Γ : Env) (x : Name) (e : Expr) :
    checkPlainV Γ x e = (typeOfV Γ (.sexp .bind (.atom (.name x)) e)).map (·.2) := by
  rw [typeOfV_bind]
  unfold checkPlainV
  cases typeOfV Γ e with
  | none => rfl
  | some p => rfl

/-- `(:= x e)`: the statement is the value expression -/
theorem stmt_plainV {Γ Γ' : Env} {sc : Scope} {x : Name} {e : Expr}
    (hi : Inv Γ sc) (hle : numLocals Γ ≤ 6) (ht0 : sc.tmp = []) (h : checkPlainV Γ x e = some Γ')
    (hlit : Frag.litsOkE e = true) (htmp : tmps e ≤ 8) :
    ∃ c, compileExpr (.sexp .bind (.atom (.name x)) e) sc = .ok c ∧ c.reg ≠ .none ∧ Inv Γ' c.sc ∧
      numLocals Γ' ≤ 6 ∧ ∀ i ∈ c.instrs, instrOk i = true := by
  rw [checkPlainV_eq] at h
  cases hty : typeOfV Γ (.sexp .bind (.atom (.name x)) e) with
  | none => rw [hty] at h; cases h
  | some p =>
    obtain ⟨τ, Γ1⟩ := p
    rw [hty] at h
    simp only [Option.map_some, Option.some.injEq] at h
    subst h
    have hle' := (typeOfV_grow _ _ _ _ hty).le hle
    obtain ⟨c, e1, i1, _, _, k1, in1⟩ := compile_value _ Γ τ Γ1 [] sc hty
      (by simp only [Frag.litsOkE, Bool.true_and]; exact hlit) List.nodup_nil hi.toP
      (by rw [mu_nil]; exact hle') (by rw [ht0, tmps_bind]; simpa using htmp)
    exact ⟨c, e1, regOk_ne_none k1, i1.toInv, hle', in1⟩

/-- `(:= x (if c v))`, `(:= x (!if c v))`, `(:= x (ewma a v))`, `x` declared; the operands are values -/
theorem stmt_guardedV {Γ Γ1 Γ2 : Env} {sc : Scope} {x : Name} {o : Op} {τc τv : Ty} {c v : Expr}
    (ho : o = .if ∨ o = .notIf ∨ o = .ewma)
    (hi : Inv Γ sc) (hle : numLocals Γ ≤ 6) (ht0 : sc.tmp = []) (hx : guardedTargetDeclared Γ x = true)
    (hc : typeOfV Γ c = some (τc, Γ1)) (hv : typeOfV Γ1 v = some (τv, Γ2))
    (hlc : Frag.litsOkE c = true) (hlv : Frag.litsOkE v = true) (htmp : tmps c + tmps v ≤ 8) :
    ∃ cc, compileExpr (.sexp .bind (.atom (.name x)) (.sexp o c v)) sc = .ok cc ∧ cc.reg ≠ .none ∧
      Inv Γ2 cc.sc ∧ numLocals Γ2 ≤ 6 ∧ ∀ i ∈ cc.instrs, instrOk i = true := by
  unfold guardedTargetDeclared at hx
  cases hlk : lookup x Γ with
  | none => rw [hlk] at hx; cases hx
  | some kt =>
    obtain ⟨k, τx⟩ := kt
    rw [hlk] at hx
    simp only [decide_eq_true_eq] at hx
    subst hx
    obtain ⟨r, hg, hkr, htr⟩ := hi.fwd x _ τx hlk
    have hle1 := (typeOfV_grow _ _ _ _ hc).le hle
    have hle2 := (typeOfV_grow _ _ _ _ hv).le hle1
    obtain ⟨cl, e1, i1, t1, _, k1, in1⟩ := compile_value c Γ τc Γ1 [] sc hc hlc List.nodup_nil hi.toP
      (by rw [mu_nil]; exact hle1) (by rw [ht0]; simp only [List.length_nil]; omega)
    obtain ⟨cr, e2, i2, _, _, k2, in2⟩ := compile_value v Γ1 τv Γ2 [] cl.sc hv hlv List.nodup_nil i1
      (by rw [mu_nil]; exact hle2) (by rw [t1, ht0]; simp only [List.length_nil]; omega)
    rw [compileExpr_sexp, compileExpr_atom, compileAtom_known (show sc.get x = some r from hg), Out.bind_ok]
    simp only
    rw [compileExpr_sexp, e1, Out.bind_ok, e2, Out.bind_ok,
      combine_guard ho _ _ (regOk_ne_none k1) (regOk_ne_none k2), Out.bind_ok]
    simp only [List.nil_append]
    rw [combine_bind, combineBind_guarded _ _ _ (tyMatch_not_name htr) (kindOk_var hkr) rfl]
    refine ⟨_, rfl, regOk_ne_none (kindOk_regOk hkr), i2.toInv, hle2, ?_⟩
    intro i hi'
    simp only [List.mem_append, List.mem_singleton] at hi'
    rcases hi' with (hi' | hi') | rfl
    · exact in1 i hi'
    · exact in2 i hi'
    · simp only [instrOk, Bool.and_eq_true]
      refine ⟨⟨⟨?_, kindOk_regOk hkr⟩, k1⟩, k2⟩
      rcases ho with rfl | rfl | rfl <;> rfl

theorem checkGuardedV_some {Γ Γ' : Env} {x : Name} {c v : Expr} (h : checkGuardedV Γ x c v = some Γ') :
    guardedTargetDeclared Γ x = true ∧
      ∃ Γ1 τv, typeOfV Γ c = some (.bool, Γ1) ∧ typeOfV Γ1 v = some (τv, Γ') := by
  unfold checkGuardedV at h
  split at h
  · rename_i hx
    refine ⟨hx, ?_⟩
    split at h
    · rename_i Γ1 hc
      cases hv : typeOfV Γ1 v with
      | none => rw [hv] at h; cases h
      | some p =>
        obtain ⟨τv, Γ2⟩ := p
        rw [hv] at h
        simp only [Option.map_some, Option.some.injEq] at h
        subst h
        exact ⟨Γ1, τv, hc, hv⟩
    · cases h
  · cases h

theorem checkEwmaV_some {Γ Γ' : Env} {x : Name} {a v : Expr} (h : checkEwmaV Γ x a v = some Γ') :
    guardedTargetDeclared Γ x = true ∧
      ∃ Γ1, typeOfV Γ a = some (.num, Γ1) ∧ typeOfV Γ1 v = some (.num, Γ') := by
  unfold checkEwmaV at h
  split at h
  · rename_i hx
    refine ⟨hx, ?_⟩
    split at h
    · rename_i Γ1 ha
      split at h
      · rename_i Γ2 hv
        simp only [Option.some.injEq] at h
        subst h
        exact ⟨Γ1, ha, hv⟩
      · cases h
    · cases h
  · cases h

/-- **Stage lemma, statements.** -/
theorem compile_stmtV {Γ Γ' : Env} {sc : Scope} {e : Expr} (hi : Inv Γ sc) (hle : numLocals Γ ≤ 6)
    (ht0 : sc.tmp = []) (hs : checkStmtV Γ e = some Γ') (hne : e ≠ .none) (hlit : Frag.litsOkE e = true) :
    ∃ c, compileExpr e sc = .ok c ∧ c.reg ≠ .none ∧ Inv Γ' c.sc ∧ numLocals Γ' ≤ 6 ∧
      ∀ i ∈ c.instrs, instrOk i = true := by
  unfold checkStmtV at hs
  split at hs
  · exact absurd rfl hne
  · rename_i x rhs
    split at hs
    · rename_i htmp
      have htmp : tmps rhs ≤ 8 := htmp
      simp only [Frag.litsOkE, Bool.true_and] at hlit
      unfold checkRhsV at hs
      split at hs
      · rename_i o l r
        simp only [Frag.litsOkE, Bool.and_eq_true] at hlit
        split at hs
        · obtain ⟨hx, Γ1, τv, hc, hv⟩ := checkGuardedV_some hs
          have ho : Op.if = .if ∨ Op.if = .notIf ∨ Op.if = .ewma := Or.inl rfl
          rw [tmps_guard ho] at htmp
          exact stmt_guardedV ho hi hle ht0 hx hc hv hlit.1 hlit.2 htmp
        · obtain ⟨hx, Γ1, τv, hc, hv⟩ := checkGuardedV_some hs
          have ho : Op.notIf = .if ∨ Op.notIf = .notIf ∨ Op.notIf = .ewma := Or.inr (Or.inl rfl)
          rw [tmps_guard ho] at htmp
          exact stmt_guardedV ho hi hle ht0 hx hc hv hlit.1 hlit.2 htmp
        · obtain ⟨hx, Γ1, hc, hv⟩ := checkEwmaV_some hs
          have ho : Op.ewma = .if ∨ Op.ewma = .notIf ∨ Op.ewma = .ewma := Or.inr (Or.inr rfl)
          rw [tmps_guard ho] at htmp
          exact stmt_guardedV ho hi hle ht0 hx hc hv hlit.1 hlit.2 htmp
        · exact stmt_plainV hi hle ht0 hs (by simp only [Frag.litsOkE, Bool.and_eq_true]; exact hlit) htmp
      · exact stmt_plainV hi hle ht0 hs hlit htmp
    · cases hs
  · cases hs

/-! ## Bodies and events -/

theorem compile_bodyV {Γ' : Env} : ∀ (body : List Expr) (Γ : Env) (sc : Scope), Inv Γ sc → numLocals Γ ≤ 6 →
    checkBodyV Γ body = some Γ' → body.all Frag.litsOkE = true →
    ∃ is sc', compileBody body sc = .ok (is, sc') ∧ Inv Γ' sc' ∧ numLocals Γ' ≤ 6 ∧
      ∀ i ∈ is, instrOk i = true := by
  intro body
  induction body with
  | nil =>
    intro Γ sc hi hle hb _
    simp only [checkBodyV, Option.some.injEq] at hb
    subst hb
    exact ⟨[], sc, rfl, hi, hle, by simp⟩
  | cons e rest ih =>
    intro Γ sc hi hle hb hlit
    simp only [List.all_cons, Bool.and_eq_true] at hlit
    simp only [checkBodyV] at hb
    cases hs : checkStmtV Γ e with
    | none => rw [hs] at hb; cases hb
    | some Γ1 =>
      rw [hs] at hb
      simp only at hb
      rw [compileBody]
      by_cases hne : e = .none
      · subst hne
        simp only [checkStmtV, Option.some.injEq] at hs
        subst hs
        rw [if_pos rfl]
        exact ih Γ sc hi hle hb hlit.2
      · rw [if_neg hne]
        obtain ⟨c, e1, hr, hi1, hle1, hin⟩ := compile_stmtV hi.clearTmps hle rfl hs hne hlit.1
        obtain ⟨is, sc', e2, hi2, hle2, hin2⟩ := ih Γ1 c.sc hi1 hle1 hb hlit.2
        rw [e1, Out.bind_ok, if_neg hr, e2, Out.bind_ok]
        refine ⟨_, _, rfl, hi2, hle2, ?_⟩
        intro i hi'
        rcases List.mem_append.mp hi' with h | h
        · exact hin i h
        · exact hin2 i h

theorem compile_eventsV {Γ' : Env} : ∀ (evs : List Event) (Γ : Env) (sc : Scope) (idx : Nat), Inv Γ sc →
    numLocals Γ ≤ 6 → checkEventsV Γ evs = some Γ' → Frag.LitsOk evs = true →
    ∃ cp, compileEvents evs idx sc = .ok cp ∧ Inv Γ' cp.sc ∧ ∀ i ∈ cp.instrs, instrOk i = true := by
  intro evs
  induction evs with
  | nil =>
    intro Γ sc idx hi _ hb _
    simp only [checkEventsV, Option.some.injEq] at hb
    subst hb
    exact ⟨⟨[], [], sc⟩, rfl, hi, by simp⟩
  | cons ev rest ih =>
    intro Γ sc idx hi hle hb hlit
    simp only [Frag.LitsOk, List.all_cons, Bool.and_eq_true] at hlit
    simp only [checkEventsV] at hb
    split at hb
    · rename_i hc
      cases hbd : checkBodyV Γ ev.body with
      | none => rw [hbd] at hb; cases hb
      | some Γ1 =>
        rw [hbd] at hb
        simp only at hb
        obtain ⟨fi, sc1, e1, hi1, hin1⟩ := compile_flag hi hc hlit.1.1
        obtain ⟨bi, sc2, e2, hi2, hle2, hin2⟩ := compile_bodyV ev.body Γ sc1 hi1 hle hbd hlit.1.2
        obtain ⟨cp, e3, hi3, hin3⟩ := ih Γ1 sc2 (idx + fi.length + bi.length) hi2 hle2 hb hlit.2
        rw [compileEvents, e1, Out.bind_ok]
        simp only
        rw [e2, Out.bind_ok]
        simp only
        rw [e3, Out.bind_ok]
        refine ⟨_, rfl, hi3, ?_⟩
        intro i hi'
        simp only [List.mem_append] at hi'
        rcases hi' with (h | h) | h
        · exact hin1 i h
        · exact hin2 i h
        · exact hin3 i h
    · cases hb

/-! ## The former check is the restriction of the extended one to stratified programs -/

theorem pureE_opSig {o : Op} {l r : Expr} (h : Frag.pureE (.sexp o l r) = true) :
    (∃ a res, opSig o = some (a, res)) ∧ Frag.pureE l = true ∧ Frag.pureE r = true := by
  simp only [Frag.pureE, Bool.and_eq_true] at h
  obtain ⟨⟨h1, h2⟩, h3⟩ := h
  refine ⟨?_, h2, h3⟩
  cases o <;> first | exact ⟨_, _, rfl⟩ | cases h1

/-- on a pure expression `typeOfV` is `typeOf`, and the environment is left alone -/
theorem typeOfV_pure : ∀ (e : Expr), Frag.pureE e = true → ∀ Γ : Env,
    typeOfV Γ e = (typeOf Γ e).map (fun τ => (τ, Γ)) := by
  intro e
  induction e with
  | atom p =>
    intro _ Γ
    cases p with
    | bool b => rfl
    | num n => rfl
    | name x => simp only [typeOfV, typeOf, Option.map_map]; rfl
  | cmd c => intro h; cases h
  | none => intro h; cases h
  | sexp o l r ihl ihr =>
    intro h Γ
    obtain ⟨⟨a, res, hs⟩, hl, hr⟩ := pureE_opSig h
    rw [typeOfV_op hs, ihl hl Γ]
    simp only [typeOf, hs]
    cases h1 : typeOf Γ l with
    | none => rfl
    | some tl =>
      simp only [Option.map_some]
      rw [ihr hr Γ]
      cases h2 : typeOf Γ r with
      | none => rfl
      | some tr =>
        simp only [Option.map_some]
        split <;> rfl

theorem checkPlainV_pure {e : Expr} (hp : Frag.pureE e = true) (Γ : Env) (x : Name) :
    checkPlainV Γ x e = checkPlain Γ x e := by
  unfold checkPlainV checkPlain
  rw [typeOfV_pure e hp Γ]
  cases typeOf Γ e with
  | none => rfl
  | some τ =>
    simp only [Option.map_some, bindValue]
    cases hl : lookup x Γ with
    | some kt =>
      obtain ⟨k, τx⟩ := kt
      simp only
      split <;> rfl
    | none =>
      simp only
      split <;> rfl

theorem checkGuardedV_pure {c v : Expr} (hc : Frag.pureE c = true) (hv : Frag.pureE v = true) (Γ : Env)
    (x : Name) : checkGuardedV Γ x c v = checkGuarded Γ x c v := by
  unfold checkGuardedV checkGuarded
  rw [typeOfV_pure c hc Γ]
  cases guardedTargetDeclared Γ x with
  | false => simp
  | true =>
    cases h1 : typeOf Γ c with
    | none => simp
    | some tc =>
      cases tc with
      | num => simp
      | bool =>
        simp only [Option.map_some, if_true]
        rw [typeOfV_pure v hv Γ]
        cases h2 : typeOf Γ v with
        | none => simp
        | some tv => simp

theorem checkEwmaV_pure {a v : Expr} (ha : Frag.pureE a = true) (hv : Frag.pureE v = true) (Γ : Env)
    (x : Name) : checkEwmaV Γ x a v = checkEwma Γ x a v := by
  unfold checkEwmaV checkEwma
  rw [typeOfV_pure a ha Γ]
  cases guardedTargetDeclared Γ x with
  | false => simp
  | true =>
    cases h1 : typeOf Γ a with
    | none => simp
    | some ta =>
      cases ta with
      | bool => simp
      | num =>
        simp only [Option.map_some, if_true]
        rw [typeOfV_pure v hv Γ]
        cases h2 : typeOf Γ v with
        | none => simp
        | some tv => cases tv <;> simp

theorem checkRhsV_pure {r : Expr} (hp : Frag.pureE r = true) (Γ : Env) (x : Name) :
    checkRhsV Γ x r = checkRhs Γ x r := by
  cases r with
  | atom p => exact checkPlainV_pure hp Γ x
  | cmd c => cases hp
  | none => cases hp
  | sexp o l r =>
    cases o <;> first
      | (simp [Frag.pureE] at hp; done)
      | exact checkPlainV_pure hp Γ x

theorem checkStmtV_stmtOk {e : Expr} (h : Frag.stmtOk e = true) (Γ : Env) : checkStmtV Γ e = checkStmt Γ e := by
  unfold Frag.stmtOk at h
  split at h
  · rfl
  · simp only [Bool.and_eq_true] at h
    simp only [checkStmtV, checkStmt, checkRhsV, checkRhs, checkGuardedV_pure h.1 h.2]
  · simp only [Bool.and_eq_true] at h
    simp only [checkStmtV, checkStmt, checkRhsV, checkRhs, checkGuardedV_pure h.1 h.2]
  · simp only [Bool.and_eq_true] at h
    simp only [checkStmtV, checkStmt, checkRhsV, checkRhs, checkEwmaV_pure h.1 h.2]
  · simp only [checkStmtV, checkStmt, checkRhsV_pure h]
  · cases h

theorem checkBodyV_stmtOk : ∀ (body : List Expr), body.all Frag.stmtOk = true → ∀ Γ : Env,
    checkBodyV Γ body = checkBody Γ body := by
  intro body
  induction body with
  | nil => intro _ Γ; rfl
  | cons e rest ih =>
    intro h Γ
    simp only [List.all_cons, Bool.and_eq_true] at h
    simp only [checkBodyV, checkBody, checkStmtV_stmtOk h.1]
    cases checkStmt Γ e with
    | none => rfl
    | some Γ1 => exact ih h.2 Γ1

theorem checkEventsV_stratified : ∀ (evs : List Event), Frag.Stratified evs = true → ∀ Γ : Env,
    checkEventsV Γ evs = checkEvents Γ evs := by
  intro evs
  induction evs with
  | nil => intro _ Γ; rfl
  | cons ev rest ih =>
    intro h Γ
    simp only [Frag.Stratified, List.all_cons, Bool.and_eq_true] at h
    simp only [checkEventsV, checkEvents, checkBodyV_stmtOk _ h.1.2]
    split
    · cases checkBody Γ ev.body with
      | none => rfl
      | some Γ1 => exact ih (by simp only [Frag.Stratified]; exact h.2) Γ1
    · rfl

end Portus.Lang.Typing
