import PortusModel.Rt.Run
import PortusModel.Lemmas.CompileInv
import PortusModel.Lemmas.Ctl
/-! Lemmas about the dispatch-loop model (used by Props/C02, C05, C09, C16). -/
namespace Portus.Rt
open Portus Portus.Lang Portus.Wire Portus.Ipc

/-! ## association lists -/

theorem lookup_filter_ne {β : Type} (l : List (Nat × β)) (a b : Nat) :
    (l.filter fun p => p.1 ≠ a).lookup b = if b = a then none else l.lookup b := by
  induction l with
  | nil => simp
  | cons p rest ih =>
    obtain ⟨k, v⟩ := p
    by_cases hk : k = a
    · subst hk
      simp only [ne_eq, not_true_eq_false, decide_false, Bool.false_eq_true, not_false_eq_true,
        List.filter_cons_of_neg, ih]
      by_cases hb : b = k
      · simp [hb]
      · have : (b == k) = false := by simpa using hb
        simp [hb, List.lookup_cons, this]
    · have hd : decide (k ≠ a) = true := by simpa using hk
      rw [List.filter_cons_of_pos (by simpa using hk)]
      simp only [List.lookup_cons]
      by_cases hbk : b = k
      · subst hbk
        simp [hk]
      · have : (b == k) = false := by simpa using hbk
        simp only [this]
        exact ih

theorem lookup_setAddr {σ : Type} (flows : List (Addr × List (Nat × Flow σ))) (a b : Addr)
    (fm : List (Nat × Flow σ)) :
    (setAddr flows a fm).lookup b = if b = a then some fm else flows.lookup b := by
  unfold setAddr
  by_cases hb : b = a
  · subst hb; simp [List.lookup_cons]
  · have : (b == a) = false := by simpa using hb
    simp only [List.lookup_cons, this, hb, if_false]
    have := lookup_filter_ne flows a b
    simp only [hb, if_false] at this
    exact this

/-- the flat partial map `(datapath address, flow id) ⇀ flow`: the specification's state -/
def cur {σ : Type} (st : St σ) (a : Addr) (s : Nat) : Option (Flow σ) :=
  (st.flows.lookup a).bind fun fm => fm.lookup s

def curNo {σ : Type} (st : St σ) (a : Addr) (s : Nat) : Option Nat := (cur st a s).map (·.no)

/-! ## handle commands -/

theorem resolveField_reg {sc : Scope} {f : Name × Nat} {r : Reg × Nat} (h : resolveField sc f = .ok r) :
    r.1 ≠ .none := by
  unfold resolveField at h
  split at h
  · cases h
  · split at h <;> (try cases h) <;> (try simp)
    · split at h
      · injection h with h; subst h; simp
      · cases h

theorem resolveFields_regs {sc : Scope} {fs : List (Name × Nat)} {rs : List (Reg × Nat)}
    (h : resolveFields sc fs = .ok rs) : rs.length = fs.length ∧ ∀ r ∈ rs, r.1 ≠ .none := by
  induction fs generalizing rs with
  | nil => simp [resolveFields] at h; subst h; simp
  | cons f rest ih =>
    simp only [resolveFields] at h
    cases h1 : resolveField sc f with
    | err => simp [h1] at h
    | panic => simp [h1] at h
    | ok r =>
      cases h2 : resolveFields sc rest with
      | err => simp [h1, h2] at h
      | panic => simp [h1, h2] at h
      | ok rs' =>
        simp [h1, h2] at h
        subst h
        obtain ⟨l, hn⟩ := ih h2
        refine ⟨by simp [l], ?_⟩
        intro x hx
        simp only [List.mem_cons] at hx
        rcases hx with rfl | hx
        · exact resolveField_reg h1
        · exact hn x hx

theorem resolveField_no_panic (sc : Scope) (f : Name × Nat) : resolveField sc f ≠ .panic := by
  unfold resolveField
  split
  · simp
  · split <;> simp
    split <;> simp

theorem resolveFields_no_panic (sc : Scope) (fs : List (Name × Nat)) : resolveFields sc fs ≠ .panic := by
  induction fs with
  | nil => simp [resolveFields]
  | cons f rest ih =>
    simp only [resolveFields]
    have := resolveField_no_panic sc f
    cases h1 : resolveField sc f <;> cases h2 : resolveFields sc rest <;> simp_all

theorem serializeUpdates_no_panic (rs : List (Reg × Nat)) (h : ∀ r ∈ rs, r.1 ≠ .none) :
    serializeUpdates rs ≠ .panic := by
  induction rs with
  | nil => simp [serializeUpdates]
  | cons r rest ih =>
    obtain ⟨reg, v⟩ := r
    simp only [serializeUpdates]
    have h1 := Reg.serialize_no_panic (h (reg, v) (by simp))
    have h2 := ih (fun x hx => h x (by simp [hx]))
    cases e1 : reg.serialize <;> cases e2 : serializeUpdates rest <;> simp_all

/-- header facts of a change-program message -/
theorem serializeChangeProg_hdr {m : ChangeProg} {b : Bytes} (h : serializeChangeProg m = .ok b) :
    rd16 b = 4 ∧ rd32 (b.drop 4) = m.sid % 2^32 ∧ rd32 (b.drop 8) = m.uid % 2^32 := by
  unfold serializeChangeProg u32LenP serializeWith at h
  split at h
  · cases h
  split at h
  · cases h
  · cases hu : serializeUpdates m.fields with
    | err => simp [hu] at h
    | panic => simp [hu] at h
    | ok ub =>
      simp [hu] at h
      have e : b = le16 4 ++ (le16 (8 + 4 + 4 + m.numFields * 13) ++ (le32 m.sid ++ (le32 m.uid ++
          (le32 m.numFields ++ ub)))) := by
        rw [← h]; simp [serializeHeader, CHANGEPROG, List.append_assoc]
      have d4 : b.drop 4 = le32 m.sid ++ (le32 m.uid ++ (le32 m.numFields ++ ub)) := by
        rw [e]; simp [le16]
      have d8 : b.drop 8 = le32 m.uid ++ (le32 m.numFields ++ ub) := by rw [e]; simp [le16, le32]
      refine ⟨by rw [e, rd16_le16_append], ?_, ?_⟩
      · rw [d4, rd32_le32_append]
      · rw [d8, rd32_le32_append]

theorem serializeUpdateField_hdr {m : UpdateField} {b : Bytes} (h : serializeUpdateField m = .ok b) :
    rd16 b = 3 ∧ rd32 (b.drop 4) = m.sid % 2^32 := by
  unfold serializeUpdateField serializeWith at h
  split at h
  · cases h
  · cases hu : serializeUpdates m.fields with
    | err => simp [hu] at h
    | panic => simp [hu] at h
    | ok ub =>
      simp [hu] at h
      have e : b = le16 3 ++ (le16 (8 + 4 + m.numFields * 13) ++ (le32 m.sid ++ (le32 m.numFields ++ ub))) := by
        rw [← h]; simp [serializeHeader, UPDATE_FIELD, List.append_assoc]
      have d4 : b.drop 4 = le32 m.sid ++ (le32 m.numFields ++ ub) := by rw [e]; simp [le16]
      exact ⟨by rw [e, rd16_le16_append], by rw [d4, rd32_le32_append]⟩

theorem setProgram_no_panic (scopeMap : List (String × Scope)) (sid : Nat) (p : String)
    (f : Option (List (Name × Nat))) (hlen : (f.getD []).length < 2^24) :
    setProgram scopeMap sid p f ≠ .panic := by
  unfold setProgram
  cases scopeMap.lookup p with
  | none => simp
  | some sc =>
    simp only
    have h1 := resolveFields_no_panic sc (f.getD [])
    cases hr : resolveFields sc (f.getD []) with
    | panic => exact absurd hr h1
    | err => simp
    | ok rs =>
      obtain ⟨hl, hn⟩ := resolveFields_regs hr
      simp only [Out.bind_ok]
      unfold serializeChangeProg u32LenP serializeWith
      rw [if_neg (by simp only [hl]; omega)]
      split
      · simp
      · have := serializeUpdates_no_panic rs hn
        cases hs : serializeUpdates rs <;> simp_all

theorem setProgram_ok {scopeMap : List (String × Scope)} {sid : Nat} {p : String}
    {f : Option (List (Name × Nat))} {sc : Scope} {b : Bytes} (h : setProgram scopeMap sid p f = .ok (sc, b)) :
    scopeMap.lookup p = some sc ∧ rd16 b = 4 ∧ rd32 (b.drop 4) = sid % 2^32 ∧ rd32 (b.drop 8) = sc.uid % 2^32 := by
  unfold setProgram at h
  cases hl : scopeMap.lookup p with
  | none => simp [hl] at h
  | some sc' =>
    simp only [hl] at h
    cases hr : resolveFields sc' (f.getD []) with
    | panic => simp [hr] at h
    | err => simp [hr] at h
    | ok rs =>
      simp only [hr, Out.bind_ok] at h
      cases hs : serializeChangeProg { sid := sid, uid := sc'.uid, numFields := rs.length, fields := rs } with
      | panic => simp [hs] at h
      | err => simp [hs] at h
      | ok b' =>
        simp [hs] at h
        obtain ⟨rfl, rfl⟩ := h
        exact ⟨rfl, serializeChangeProg_hdr hs⟩

theorem updateField_no_panic (sc : Scope) (sid : Nat) (f : List (Name × Nat)) : updateField sc sid f ≠ .panic := by
  unfold updateField
  have h1 := resolveFields_no_panic sc f
  cases hr : resolveFields sc f with
  | panic => exact absurd hr h1
  | err => simp
  | ok rs =>
    obtain ⟨hl, hn⟩ := resolveFields_regs hr
    simp only [Out.bind_ok]
    split
    · simp
    · unfold serializeUpdateField serializeWith
      split
      · simp
      · have := serializeUpdates_no_panic rs hn
        cases hs : serializeUpdates rs <;> simp_all

theorem updateField_ok {sc : Scope} {sid : Nat} {f : List (Name × Nat)} {b : Bytes}
    (h : updateField sc sid f = .ok b) : rd16 b = 3 ∧ rd32 (b.drop 4) = sid % 2^32 := by
  unfold updateField at h
  cases hr : resolveFields sc f with
  | panic => simp [hr] at h
  | err => simp [hr] at h
  | ok rs =>
    simp only [hr, Out.bind_ok] at h
    split at h
    · cases h
    · exact serializeUpdateField_hdr h

/-! ## user code -/

/-- no field list is absurdly long (the `u32` length arithmetic of `get_hdr` would overflow) -/
def UProg.Bounded {σ : Type} : UProg σ → Prop
  | .done _ => True
  | .log _ k => k.Bounded
  | .setProgram _ f k => (f.getD []).length < 2^24 ∧ ∀ r, (k r).Bounded
  | .updateField _ _ k => ∀ b, (k b).Bounded

structure Policy.Bounded {σ : Type} (pol : Policy σ) : Prop where
  newFlow : ∀ a n i, (pol.newFlow a n i).Bounded
  onReport : ∀ s a u f, (pol.onReport s a u f).Bounded
  onClose : ∀ s, (pol.onClose s).Bounded

/-- what a flow's user code can cause: a (possibly failed) send of a change-program/update-field message
carrying the flow's own id to the flow's own address, or a log line -/
def UserEv (addr sid flow : Nat) (e : Ev) : Prop :=
  e = .txFail addr ∨
  (∃ b, e = .tx addr b ∧ (rd16 b = 4 ∨ rd16 b = 3) ∧ rd32 (b.drop 4) = sid % 2^32) ∨
  (∃ m, e = .log flow m)

/-- change-program messages sent by user code name a configured program's uid -/
def UidOk (cfg : Cfg) (e : Ev) : Prop :=
  ∀ a b, e = .tx a b → rd16 b = 4 → ∃ p ∈ cfg.progs, rd32 (b.drop 8) = p.scope.uid % 2^32

theorem lookup_map_scope (l : List ProgInfo) (p : String) (sc : Scope)
    (h : (l.map fun q => (q.pname, q.scope)).lookup p = some sc) : ∃ q ∈ l, q.scope = sc := by
  induction l with
  | nil => simp at h
  | cons x rest ih =>
    simp only [List.map_cons, List.lookup_cons] at h
    split at h
    · injection h with h; exact ⟨x, by simp, h⟩
    · obtain ⟨q, hq, e⟩ := ih h
      exact ⟨q, by simp [hq], e⟩

theorem lookup_scopeMap {cfg : Cfg} {p : String} {sc : Scope} (h : cfg.scopeMap.lookup p = some sc) :
    ∃ q ∈ cfg.progs, q.scope = sc := lookup_map_scope cfg.progs p sc h

theorem runUser_spec {σ : Type} (cfg : Cfg) (addr sid flow : Nat) (p : UProg σ) (hb : p.Bounded)
    (sf : Nat) (acc : List Ev) :
    ∃ u sf' evs, runUser cfg addr sid flow p sf acc = .ok (u, sf', acc ++ evs) ∧
      (∀ e ∈ evs, UserEv addr sid flow e) ∧ (∀ e ∈ evs, UidOk cfg e) := by
  induction p generalizing sf acc with
  | done s => exact ⟨s, sf, [], by simp [runUser], by simp, by simp⟩
  | log m k ih =>
    obtain ⟨u, sf', evs, h, h1, h2⟩ := ih hb sf (acc ++ [.log flow m])
    refine ⟨u, sf', .log flow m :: evs, by simp [runUser, h], ?_, ?_⟩
    · intro e he
      simp only [List.mem_cons] at he
      rcases he with rfl | he
      · exact Or.inr (Or.inr ⟨m, rfl⟩)
      · exact h1 e he
    · intro e he
      simp only [List.mem_cons] at he
      rcases he with rfl | he
      · intro a b hh; cases hh
      · exact h2 e he
  | setProgram pn f k ih =>
    obtain ⟨hlen, hk⟩ := hb
    simp only [runUser]
    have hnp := setProgram_no_panic cfg.scopeMap sid pn f hlen
    cases hs : setProgram cfg.scopeMap sid pn f with
    | panic => exact absurd hs hnp
    | err => exact ih none (hk none) sf acc
    | ok q =>
      obtain ⟨sc, b⟩ := q
      obtain ⟨hl, ht, hsid, huid⟩ := setProgram_ok hs
      simp only [sendTo]
      by_cases hsf : sf > 0
      · simp only [hsf, if_true]
        obtain ⟨u, sf', evs, h, h1, h2⟩ := ih none (hk none) (sf - 1) (acc ++ [.txFail addr])
        refine ⟨u, sf', .txFail addr :: evs, by simp [h], ?_, ?_⟩
        · intro e he
          simp only [List.mem_cons] at he
          rcases he with rfl | he
          · exact Or.inl rfl
          · exact h1 e he
        · intro e he
          simp only [List.mem_cons] at he
          rcases he with rfl | he
          · intro a b hh; cases hh
          · exact h2 e he
      · simp only [hsf, if_false]
        obtain ⟨u, sf', evs, h, h1, h2⟩ := ih (some sc) (hk (some sc)) sf (acc ++ [.tx addr b])
        refine ⟨u, sf', .tx addr b :: evs, by simp [h], ?_, ?_⟩
        · intro e he
          simp only [List.mem_cons] at he
          rcases he with rfl | he
          · exact Or.inr (Or.inl ⟨b, rfl, Or.inl ht, hsid⟩)
          · exact h1 e he
        · intro e he
          simp only [List.mem_cons] at he
          rcases he with rfl | he
          · intro a b' hh _
            injection hh with _ hb'
            subst hb'
            obtain ⟨q, hq, e⟩ := lookup_scopeMap hl
            exact ⟨q, hq, by rw [e]; exact huid⟩
          · exact h2 e he
  | updateField sc f k ih =>
    simp only [runUser]
    have hnp := updateField_no_panic sc sid f
    cases hs : updateField sc sid f with
    | panic => exact absurd hs hnp
    | err => exact ih false (hb false) sf acc
    | ok b =>
      obtain ⟨ht, hsid⟩ := updateField_ok hs
      simp only [sendTo]
      by_cases hsf : sf > 0
      · simp only [hsf, if_true]
        obtain ⟨u, sf', evs, h, h1, h2⟩ := ih false (hb false) (sf - 1) (acc ++ [.txFail addr])
        refine ⟨u, sf', .txFail addr :: evs, by simp [h], ?_, ?_⟩
        · intro e he
          simp only [List.mem_cons] at he
          rcases he with rfl | he
          · exact Or.inl rfl
          · exact h1 e he
        · intro e he
          simp only [List.mem_cons] at he
          rcases he with rfl | he
          · intro a b hh; cases hh
          · exact h2 e he
      · simp only [hsf, if_false]
        obtain ⟨u, sf', evs, h, h1, h2⟩ := ih true (hb true) sf (acc ++ [.tx addr b])
        refine ⟨u, sf', .tx addr b :: evs, by simp [h], ?_, ?_⟩
        · intro e he
          simp only [List.mem_cons] at he
          rcases he with rfl | he
          · exact Or.inr (Or.inl ⟨b, rfl, Or.inr ht, hsid⟩)
          · exact h1 e he
        · intro e he
          simp only [List.mem_cons] at he
          rcases he with rfl | he
          · intro a b' hh h4
            injection hh with _ hb'
            subst hb'
            rw [ht] at h4; cases h4
          · exact h2 e he

end Portus.Rt
