import PortusModel.Lemmas.LowerSem
/-!
# `lower ≈ Sem`, part 2: events (stage 3), one invocation (stage 4), runs (stage 5), program switch

## Correction to the statement of stage 3 as first proposed

`Sem.evalEvents` decides the break rule on the *condition value* `c` it just computed, the machine on
the *register* `impl[0]` after the body. A body statement `(:= __eventFlag 0)` (it is `stmtOk`, and
`__eventFlag` is not a primitive) separates the two: with events
`(when true (:= __eventFlag 0)) (when true (:= Cwnd 1))` the source stops after the first event
(`cont = 0`), the machine sees `impl[0] = 0` and goes on to the second. Hence the extra decidable
hypothesis `noFlagWriteE` on body statements (part of `WritesOk`); the parser guarantees it (user
names never start with `__`, `(report)`/`(fallthrough)` assign `__shouldReport`/`__shouldContinue`).
-/
namespace Portus.Lang.Frag
open Portus Portus.Lang Portus.Vm


/-! ## the simulation relation in coordinates -/

/-- `Sim` spelled out: the clock origin, the six implicit registers, and the user variables -/
structure SimC (ρ : Rho) (s : Sem.SrcState) (c : Conn) : Prop where
  t0 : c.t0 = s.t0
  ev : c.regs.impl.getD 0 0 = s.ev
  cont : c.regs.impl.getD 1 0 = s.cont
  rep : c.regs.impl.getD 2 0 = s.rep
  micros : c.regs.impl.getD 3 0 = s.micros
  cwnd : c.regs.impl.getD 4 0 = s.cwnd
  rate : c.regs.impl.getD 5 0 = s.rate
  vars : ∀ (env : Env) x r, ρ x = some r → isBuiltinName x = false → readReg env c r = Sem.lookupVar s.vars x

def env0 : Env := ⟨0, 0, ⟨[], 0, 0⟩⟩

theorem Sim.toC {ρ : Rho} {decls : List Sem.VarDecl} (hρ : RhoOk ρ decls) {s : Sem.SrcState} {c : Conn}
    (h : Sim ρ s c) : SimC ρ s c where
  t0 := h.2
  ev := h.1 env0 "__eventFlag".toList ⟨2, 0⟩ (hρ.impls 0 (by decide))
  cont := h.1 env0 "__shouldContinue".toList ⟨2, 1⟩ (hρ.impls 1 (by decide))
  rep := h.1 env0 "__shouldReport".toList ⟨2, 2⟩ (hρ.impls 2 (by decide))
  micros := h.1 env0 "Micros".toList ⟨2, 3⟩ (hρ.impls 3 (by decide))
  cwnd := h.1 env0 "Cwnd".toList ⟨2, 4⟩ (hρ.impls 4 (by decide))
  rate := h.1 env0 "Rate".toList ⟨2, 5⟩ (hρ.impls 5 (by decide))
  vars := fun env x r hx hb => (h.1 env x r hx).trans (read_nonbuiltin env s hb)

theorem SimC.toSim {ρ : Rho} {decls : List Sem.VarDecl} (hρ : RhoOk ρ decls) {s : Sem.SrcState} {c : Conn}
    (h : SimC ρ s c) : Sim ρ s c := by
  refine ⟨fun env x r hx => ?_, h.t0⟩
  rcases rho_cases hρ hx with ⟨i, hi, rfl, rfl⟩ | ⟨i, hi, rfl, rfl⟩ | ⟨hb, _⟩
  · exact (read_prim env s i hi).symm
  · match i, hi with
    | 0, _ => exact (show c.regs.impl.getD 0 0 = Sem.read env s "__eventFlag".toList from h.ev)
    | 1, _ => exact (show c.regs.impl.getD 1 0 = Sem.read env s "__shouldContinue".toList from h.cont)
    | 2, _ => exact (show c.regs.impl.getD 2 0 = Sem.read env s "__shouldReport".toList from h.rep)
    | 3, _ => exact (show c.regs.impl.getD 3 0 = Sem.read env s "Micros".toList from h.micros)
    | 4, _ => exact (show c.regs.impl.getD 4 0 = Sem.read env s "Cwnd".toList from h.cwnd)
    | 5, _ => exact (show c.regs.impl.getD 5 0 = Sem.read env s "Rate".toList from h.rate)
  · exact (h.vars env x r hx hb).trans (read_nonbuiltin env s hb).symm

theorem sim_iff {ρ : Rho} {decls : List Sem.VarDecl} (hρ : RhoOk ρ decls) {s : Sem.SrcState} {c : Conn} :
    Sim ρ s c ↔ SimC ρ s c := ⟨Sim.toC hρ, SimC.toSim hρ⟩

/-- a user variable's cell is read from the report / control / local files only -/
theorem readReg_varCell {r : VReg} (hr : VarCell r) (env env' : Env) {c c' : Conn}
    (h1 : c'.regs.report = c.regs.report) (h2 : c'.regs.control = c.regs.control) (h3 : c'.regs.loc = c.regs.loc) :
    readReg env' c' r = readReg env c r := by
  obtain ⟨a, i⟩ := r
  simp only [VarCell] at hr
  rcases hr with ⟨rfl, _⟩ | ⟨rfl | rfl, _⟩ | ⟨rfl | rfl, _⟩ <;> simp only [readReg, h1, h2, h3]

/-! ## stage 3: events -/

/-- no body statement assigns a primitive or the event flag. Only the targets of *statements* are tested here:
the targets of nested binds are ordinary variables by `valueE` (`valueE_writes_ok`), so for a program of the
fragment `InOracle` this constrains every assignment. -/
def WritesOk (evs : List Event) : Bool :=
  evs.all fun ev => ev.body.all fun e => writesOkE e && noFlagWriteE e

theorem lowerBody_cons_inv {ρ : Rho} {e : Expr} {rest : List Expr} {is : List VInstr}
    (h : lowerBody ρ (e :: rest) = some is) :
    ∃ a b, lowerStmt ρ e = some a ∧ lowerBody ρ rest = some b ∧ is = a ++ b := by
  rw [lowerBody] at h
  split at h
  · rename_i a b h1 h2; exact ⟨a, b, h1, h2, (Option.some.inj h).symm⟩
  · cases h

/-- outcome of an event body -/
def BodyRes (ρ : Rho) (env : Env) (s : Sem.SrcState) (c : Conn) (body : List Expr) (is : List VInstr) : Prop :=
  (∃ s' c', Sem.evalStmts env s body = .ok s' 0 ∧ execInstrs env c is = (c', 0) ∧ Sim ρ s' c' ∧ RegsWf c' ∧
      s'.ev = s.ev) ∨
  (∃ s' rc c', Sem.evalStmts env s body = .fault s' rc ∧ rc < 0 ∧ execInstrs env c is = (c', rc) ∧
      Sim ρ s' c' ∧ RegsWf c') ∨
  Sem.evalStmts env s body = .outside

theorem lowerBody_res {ρ : Rho} {decls : List Sem.VarDecl} (hρ : RhoOk ρ decls) (env : Env) :
    ∀ (body : List Expr) (is : List VInstr), body.all stmtOk2 = true → body.all litsOkE = true →
      (body.all fun e => writesOkE e && noFlagWriteE e) = true → lowerBody ρ body = some is → TmpsOk is →
      ∀ (s : Sem.SrcState) (c : Conn), Sim ρ s c → RegsWf c → BodyRes ρ env s c body is := by
  intro body
  induction body with
  | nil =>
    intro is _ _ _ hlow _ s c sim wf
    rw [lowerBody] at hlow; cases hlow
    exact .inl ⟨s, c, rfl, rfl, sim, wf, rfl⟩
  | cons e rest ih =>
    intro is hok hlit hwr hlow ht s c sim wf
    obtain ⟨a, b, ha, hb, rfl⟩ := lowerBody_cons_inv hlow
    simp only [List.all_cons, Bool.and_eq_true] at hok hlit hwr
    obtain ⟨hta, htb⟩ := TmpsOk.append ht
    by_cases hne : e = .none
    · subst hne
      rw [lowerStmt] at ha; cases ha
      rw [List.nil_append, BodyRes, Sem.evalStmts]
      exact ih b hok.2 hlit.2 hwr.2 hb htb s c sim wf
    · rw [BodyRes, evalStmts_single env s e rest hne]
      rcases lowerStmt_res hρ hok.1 hne hlit.1 hwr.1.1 ha hta env s c sim wf with
        ⟨s1, v, c1, ev, x, sim1, wf1, hev⟩ | ⟨sf, rc, c1, ev, hrc, x, sim1, wf1⟩ | ev
      · rw [ev]
        rcases ih b hok.2 hlit.2 hwr.2 hb htb s1 c1 sim1 wf1 with
          ⟨s2, c2, ev2, x2, sim2, wf2, hev2⟩ | ⟨s2, rc, c2, ev2, hrc, x2, sim2, wf2⟩ | ev2
        · exact .inl ⟨s2, c2, ev2, by rw [execInstrs_append_ok _ x]; exact x2, sim2, wf2,
            hev2.trans (hev hwr.1.2)⟩
        · exact .inr (.inl ⟨s2, rc, c2, ev2, hrc, by rw [execInstrs_append_ok _ x]; exact x2, sim2, wf2⟩)
        · exact .inr (.inr ev2)
      · rw [ev]
        exact .inr (.inl ⟨sf, rc, c1, rfl, hrc, execInstrs_append_fault _ x hrc, sim1, wf1⟩)
      · rw [ev]; exact .inr (.inr rfl)

theorem setLastRet_snoc (a : List VInstr) (i : VInstr) (r : VReg) :
    setLastRet (a ++ [i]) r = a ++ [{ i with ret := r }] := by
  simp [setLastRet]

theorem lowerFlag_inv {ρ : Rho} {e : Expr} {fi : List VInstr} (h : lowerFlag ρ e = some fi) :
    ∃ c, lowerE ρ e 0 = some c ∧
      ((c.reg.cls = 7 ∧ c.instrs ≠ [] ∧ fi = setLastRet c.instrs vFlag) ∨
       (c.reg.cls = 1 ∧ fi = c.instrs ++ [⟨1, vFlag, vFlag, c.reg⟩])) := by
  unfold lowerFlag at h
  split at h
  · rename_i c hc
    refine ⟨c, hc, ?_⟩
    split at h
    · rename_i h7
      split at h
      · cases h
      · rename_i hne
        exact .inl ⟨h7, by simpa using hne, (Option.some.inj h).symm⟩
    · split at h
      · rename_i h1; exact .inr ⟨h1, (Option.some.inj h).symm⟩
      · cases h
  · cases h

/-- outcome of a condition block: the event flag (impl 0 / `ev`) receives the condition's value -/
def FlagRes (ρ : Rho) (env : Env) (s : Sem.SrcState) (c : Conn) (e : Expr) (fi : List VInstr) : Prop :=
  (∃ v c', Sem.evalE env s e = .ok s v ∧ execInstrs env c fi = (c', 0) ∧ Sim ρ { s with ev := v } c' ∧
      RegsWf c' ∧ c'.regs.impl.getD 0 0 = v) ∨
  (∃ rc c', Sem.evalE env s e = .fault s rc ∧ rc < 0 ∧ execInstrs env c fi = (c', rc) ∧ Sim ρ s c' ∧ RegsWf c') ∨
  Sem.evalE env s e = .outside

theorem flag_write {ρ : Rho} {decls : List Sem.VarDecl} (hρ : RhoOk ρ decls) (env : Env) {s : Sem.SrcState}
    {c : Conn} (sim : Sim ρ s c) (wf : RegsWf c) (v : Val) :
    Sim ρ { s with ev := v } (writeReg env c v vFlag) ∧ RegsWf (writeReg env c v vFlag) ∧
      (writeReg env c v vFlag).regs.impl.getD 0 0 = v := by
  have hsim : Sim ρ { s with ev := v } (writeReg env c v vFlag) :=
    write_sim hρ (x := "__eventFlag".toList) (hρ.impls 0 (by decide)) rfl sim wf
  exact ⟨hsim, writeReg_wf _ _ _ _ wf, (Sim.toC hρ hsim).ev⟩

theorem lowerFlag_res {ρ : Rho} {decls : List Sem.VarDecl} (hρ : RhoOk ρ decls) {e : Expr} {fi : List VInstr}
    (hp : pureE e = true) (hlit : litsOkE e = true) (hlow : lowerFlag ρ e = some fi) (ht : TmpsOk fi)
    (env : Env) (s : Sem.SrcState) (c : Conn) (sim : Sim ρ s c) (wf : RegsWf c) : FlagRes ρ env s c e fi := by
  obtain ⟨hst1, hst2⟩ := evalE_pure_state (env := env) e hp s
  obtain ⟨le, hle, ⟨h7, hne, rfl⟩ | ⟨h1, rfl⟩⟩ := lowerFlag_inv hlow
  · cases e with
    | cmd _ => simp [pureE] at hp
    | none => simp [pureE] at hp
    | atom p =>
      exfalso
      cases p with
      | bool b => simp only [lowerE, Option.some.injEq] at hle; subst hle; exact hne rfl
      | num n => simp only [lowerE, Option.some.injEq] at hle; subst hle; exact hne rfl
      | name x =>
        simp only [lowerE, Option.map_eq_some_iff] at hle
        obtain ⟨r, _, rfl⟩ := hle
        exact hne rfl
    | sexp o l r =>
      obtain ⟨code, ho⟩ := pureE_sexp_op hp
      obtain ⟨cl, cr, hl, hr, rfl⟩ := lowerE_sexp_inv ho hle
      obtain ⟨hpl, hpr⟩ := pureE_sexpL hp
      obtain ⟨hll, hlr⟩ := litsOkE_sexp hlit
      simp only [setLastRet_snoc] at ht ⊢
      have hops := cond_operands hρ (valueE_of_pure hpl) (valueE_of_pure hpr) (noHazard_of_pure hpr) hll hlr hl hr ht
        env sim wf
      rcases node_res vFlag ho hops with ⟨s', v, c', ev, x, sim', wf', _⟩ | ⟨s', rc, c', ev, hrc, x, sim', wf'⟩ | ev
      · have := hst1 s' v ev; subst this
        obtain ⟨a1, a2, a3⟩ := flag_write hρ env sim' wf' v
        exact .inl ⟨v, _, ev, x, a1, a2, a3⟩
      · have := hst2 s' rc ev; subst this
        exact .inr (.inl ⟨rc, c', ev, hrc, x, sim', wf'⟩)
      · exact .inr (.inr ev)
  · obtain ⟨ht1, _⟩ := TmpsOk.append ht
    rcases lowerE_res hρ e (valueE_of_pure hp) hlit 0 le env s c hle sim wf ht1 (by intro h; omega) with
      ⟨s', v, c', ev, x, sim', wf', rd, _⟩ | ⟨s', rc, c', ev, hrc, x, sim', wf'⟩ | ev
    · have := hst1 s' v ev; subst this
      have hstep : execInstr env c' ⟨1, vFlag, vFlag, le.reg⟩ = (writeReg env c' v vFlag, 0) := by
        simp only [execInstr, rd]
      obtain ⟨a1, a2, a3⟩ := flag_write hρ env sim' wf' v
      exact .inl ⟨v, _, ev, execInstrs_snoc x hstep (by omega), a1, a2, a3⟩
    · have := hst2 s' rc ev; subst this
      exact .inr (.inl ⟨rc, c', ev, hrc, execInstrs_append_fault _ x hrc, sim', wf'⟩)
    · exact .inr (.inr ev)

/-- **Stage 3a.** The condition block computes the condition into the event flag. -/
theorem lowerFlag_correct {ρ : Rho} {decls : List Sem.VarDecl} (hρ : RhoOk ρ decls) (e : Expr) (fi : List VInstr)
    (hp : pureE e = true) (hlit : litsOkE e = true) (hlow : lowerFlag ρ e = some fi) (ht : TmpsOk fi)
    (env : Env) (s : Sem.SrcState) (c : Conn) (sim : Sim ρ s c) (wf : RegsWf c) :
    fi ≠ [] ∧
    match Sem.evalE env s e with
    | .ok s' v => s' = s ∧ ∃ c', execInstrs env c fi = (c', 0) ∧ Sim ρ { s with ev := v } c' ∧ RegsWf c' ∧
        c'.regs.impl.getD 0 0 = v
    | .fault s' rc => s' = s ∧ rc < 0 ∧ ∃ c', execInstrs env c fi = (c', rc) ∧ Sim ρ s c' ∧ RegsWf c'
    | .outside => True
    | .notDenoted => False := by
  constructor
  · obtain ⟨le, hle, ⟨h7, hne, rfl⟩ | ⟨h1, rfl⟩⟩ := lowerFlag_inv hlow
    · intro h
      apply hne
      unfold setLastRet at h
      split at h
      · rename_i hr; simpa using hr
      · simp at h
    · simp
  · rcases lowerFlag_res hρ hp hlit hlow ht env s c sim wf with
      ⟨v, c', ev, x, sim', wf', h0⟩ | ⟨rc, c', ev, hrc, x, sim', wf'⟩ | ev
    · rw [ev]; exact ⟨rfl, c', x, sim', wf', h0⟩
    · rw [ev]; exact ⟨rfl, hrc, c', x, sim', wf'⟩
    · rw [ev]; trivial

/-! ### slicing and the expression loop -/

theorem slice_mid {p : Program} {a m b : List VInstr} {st n : Nat} (hp : p.instrs = a ++ m ++ b)
    (ha : a.length = st) (hm : m.length = n) : sliceInstrs p st n = m := by
  subst ha hm
  simp [sliceInstrs, hp, List.append_assoc]

theorem execExpr_flag_fault {env : Env} {p : Program} {c c1 : Conn} {e : Libccp.Expr} {fi : List VInstr} {rc : Int}
    (hfi : sliceInstrs p e.condStart e.numCond = fi) (h : execInstrs env c fi = (c1, rc)) (hrc : rc < 0) :
    execExpr env p c e = (c1, rc) := by
  simp [execExpr, hfi, h, hrc]

theorem execExpr_flag_false {env : Env} {p : Program} {c c1 : Conn} {e : Libccp.Expr} {fi : List VInstr}
    (hfi : sliceInstrs p e.condStart e.numCond = fi) (h : execInstrs env c fi = (c1, 0))
    (h0 : c1.regs.impl.getD 0 0 = 0) : execExpr env p c e = (c1, 0) := by
  rw [List.getD_eq_getElem?_getD] at h0
  simp [execExpr, hfi, h, h0]

theorem execExpr_flag_true {env : Env} {p : Program} {c c1 : Conn} {e : Libccp.Expr} {fi bi : List VInstr}
    (hfi : sliceInstrs p e.condStart e.numCond = fi) (hbi : sliceInstrs p e.eventStart e.numEvent = bi)
    (h : execInstrs env c fi = (c1, 0)) (h0 : c1.regs.impl.getD 0 0 ≠ 0) :
    execExpr env p c e = execInstrs env c1 bi := by
  rw [List.getD_eq_getElem?_getD] at h0
  simp [execExpr, hfi, hbi, h, h0]

theorem execExprs_fault {env : Env} {p : Program} {c c2 : Conn} {e : Libccp.Expr} (rest : List Libccp.Expr)
    {rc : Int} (h : execExpr env p c e = (c2, rc)) (hrc : rc < 0) :
    execExprs env p c (e :: rest) = (c2, rc) := by
  simp [execExprs, h, hrc]

theorem execExprs_break {env : Env} {p : Program} {c c2 : Conn} {e : Libccp.Expr} (rest : List Libccp.Expr)
    (h : execExpr env p c e = (c2, 0)) (h0 : c2.regs.impl.getD 0 0 ≠ 0) (h1 : c2.regs.impl.getD 1 0 = 0) :
    execExprs env p c (e :: rest) = (c2, 0) := by
  rw [List.getD_eq_getElem?_getD] at h0 h1
  simp [execExprs, h, h0, h1]

theorem execExprs_continue {env : Env} {p : Program} {c c2 : Conn} {e : Libccp.Expr} (rest : List Libccp.Expr)
    (h : execExpr env p c e = (c2, 0)) (h01 : c2.regs.impl.getD 0 0 = 0 ∨ c2.regs.impl.getD 1 0 ≠ 0) :
    execExprs env p c (e :: rest) = execExprs env p c2 rest := by
  rw [List.getD_eq_getElem?_getD, List.getD_eq_getElem?_getD] at h01
  rcases h01 with h0 | h1
  · simp [execExprs, h, h0]
  · simp [execExprs, h, h1]

theorem lowerEvents_cons_inv {ρ : Rho} {ev : Event} {rest : List Event} {idx : Nat} {lp : LP}
    (h : lowerEvents ρ (ev :: rest) idx = some lp) :
    ∃ fi bi tail, lowerFlag ρ ev.flag = some fi ∧ lowerBody ρ ev.body = some bi ∧
      lowerEvents ρ rest (idx + fi.length + bi.length) = some tail ∧
      lp = ⟨{ condStart := idx, numCond := fi.length, eventStart := idx + fi.length, numEvent := bi.length }
              :: tail.exprs, fi ++ bi ++ tail.instrs⟩ := by
  rw [lowerEvents] at h
  split at h
  · rename_i fi bi h1 h2
    split at h
    · rename_i tail h3; exact ⟨fi, bi, tail, h1, h2, h3, (Option.some.inj h).symm⟩
    · cases h
  · cases h

/-- outcome of the event loop -/
def EventsRes (ρ : Rho) (env : Env) (p : Program) (s : Sem.SrcState) (c : Conn) (evs : List Event)
    (exprs : List Libccp.Expr) : Prop :=
  (∃ s' c', Sem.evalEvents env s evs = .ok s' 0 ∧ execExprs env p c exprs = (c', 0) ∧ Sim ρ s' c' ∧ RegsWf c') ∨
  (∃ s' rc c', Sem.evalEvents env s evs = .fault s' rc ∧ rc < 0 ∧ execExprs env p c exprs = (c', rc) ∧
      Sim ρ s' c' ∧ RegsWf c') ∨
  Sem.evalEvents env s evs = .outside

theorem lowerEvents_res {ρ : Rho} {decls : List Sem.VarDecl} (hρ : RhoOk ρ decls) (env : Env) (p : Program)
    (post : List VInstr) :
    ∀ (evs : List Event), InOracle evs = true → LitsOk evs = true → WritesOk evs = true →
      ∀ (idx : Nat) (lp : LP) (pre : List VInstr), lowerEvents ρ evs idx = some lp →
      p.instrs = pre ++ lp.instrs ++ post → pre.length = idx → TmpsOk lp.instrs →
      ∀ (s : Sem.SrcState) (c : Conn), Sim ρ s c → RegsWf c → EventsRes ρ env p s c evs lp.exprs := by
  intro evs
  induction evs with
  | nil =>
    intro _ _ _ idx lp pre hlow _ _ _ s c sim wf
    rw [lowerEvents] at hlow; cases hlow
    exact .inl ⟨s, c, rfl, rfl, sim, wf⟩
  | cons ev rest ih =>
    intro hstrat hlits hwr idx lp pre hlow hp hpre ht s c sim wf
    obtain ⟨fi, bi, tail, hfi, hbi, htail, rfl⟩ := lowerEvents_cons_inv hlow
    simp only [InOracle, LitsOk, WritesOk, List.all_cons, Bool.and_eq_true] at hstrat hlits hwr
    simp only at hp ht ⊢
    obtain ⟨ht12, htt⟩ := TmpsOk.append ht
    obtain ⟨htf, htb⟩ := TmpsOk.append ht12
    have hsf : sliceInstrs p idx fi.length = fi :=
      slice_mid (a := pre) (b := bi ++ tail.instrs ++ post) (by rw [hp]; simp [List.append_assoc]) hpre rfl
    have hsb : sliceInstrs p (idx + fi.length) bi.length = bi :=
      slice_mid (a := pre ++ fi) (b := tail.instrs ++ post) (by rw [hp]; simp [List.append_assoc])
        (by simp [hpre]) rfl
    have ihc := fun s c (sim : Sim ρ s c) (wf : RegsWf c) =>
      ih (by simpa only [InOracle] using hstrat.2) (by simpa only [LitsOk] using hlits.2)
        (by simpa only [WritesOk] using hwr.2) (idx + fi.length + bi.length) tail (pre ++ fi ++ bi) htail
        (by rw [hp]; simp [List.append_assoc]) (by simp [hpre]; omega) htt s c sim wf
    rw [EventsRes, Sem.evalEvents]
    rcases lowerFlag_res hρ hstrat.1.1 hlits.1.1 hfi htf env s c sim wf with
      ⟨v, c1, ev1, x1, sim1, wf1, h0⟩ | ⟨rc, c1, ev1, hrc, x1, sim1, wf1⟩ | ev1
    · rw [ev1]
      simp only []
      by_cases hv : v = 0
      · -- the condition is false
        have hx := execExprs_continue tail.exprs (execExpr_flag_false (e := ⟨idx, fi.length, idx + fi.length, bi.length⟩)
          hsf x1 (h0.trans hv)) (.inl (h0.trans hv))
        rw [hx]
        have : (v != 0) = false := by simp [hv]
        rw [this]
        exact ihc _ c1 sim1 wf1
      · have hvt : (v != 0) = true := by simp [hv]
        rw [hvt]
        simp only [if_true]
        have hxe := execExpr_flag_true (e := ⟨idx, fi.length, idx + fi.length, bi.length⟩) hsf hsb x1 (by rw [h0]; exact hv)
        rcases lowerBody_res hρ env ev.body bi hstrat.1.2 hlits.1.2 hwr.1 hbi htb _ c1 sim1 wf1 with
          ⟨s2, c2, ev2, x2, sim2, wf2, hev2⟩ | ⟨s2, rc, c2, ev2, hrc, x2, sim2, wf2⟩ | ev2
        · rw [ev2]
          simp only []
          have hc2 := Sim.toC hρ sim2
          have h20 : c2.regs.impl.getD 0 0 ≠ 0 := by rw [hc2.ev, hev2]; exact hv
          by_cases hcont : s2.cont = 0
          · have : (s2.cont == 0) = true := by simp [hcont]
            rw [this]
            exact .inl ⟨s2, c2, rfl, execExprs_break _ (hxe.trans x2) h20 (hc2.cont.trans hcont), sim2, wf2⟩
          · have : (s2.cont == 0) = false := by simp [hcont]
            rw [this, execExprs_continue _ (hxe.trans x2) (.inr (by rw [hc2.cont]; exact hcont))]
            exact ihc s2 c2 sim2 wf2
        · rw [ev2]
          exact .inr (.inl ⟨s2, rc, c2, rfl, hrc, execExprs_fault _ (hxe.trans x2) hrc, sim2, wf2⟩)
        · rw [ev2]; exact .inr (.inr rfl)
    · rw [ev1]
      exact .inr (.inl ⟨s, rc, c1, rfl, hrc, execExprs_fault _ (execExpr_flag_fault hsf x1 hrc) hrc, sim1, wf1⟩)
    · rw [ev1]; exact .inr (.inr rfl)

/-- **Stage 3b.** The expression loop of the machine on the lowered events computes `evalEvents`.
The lowered instructions sit at offset `idx` of the program's instruction list.

Corrected statement: `WritesOk` contains, besides "no body statement assigns a primitive"
(`writesOkE`), "no body statement assigns `__eventFlag`" (`noFlagWriteE`); and `RegsWf c`. Without the
former the statement is false: `stage3_needs_noFlagWrite` below. -/
theorem lowerEvents_correct {ρ : Rho} {decls : List Sem.VarDecl} (hρ : RhoOk ρ decls) (evs : List Event)
    (hstrat : InOracle evs = true) (hlits : LitsOk evs = true) (hwr : WritesOk evs = true)
    (idx : Nat) (lp : LP) (hlow : lowerEvents ρ evs idx = some lp)
    (p : Program) (pre post : List VInstr) (hp : p.instrs = pre ++ lp.instrs ++ post) (hpre : pre.length = idx)
    (ht : TmpsOk lp.instrs) (env : Env) (s : Sem.SrcState) (c : Conn) (sim : Sim ρ s c) (wf : RegsWf c) :
    match Sem.evalEvents env s evs with
    | .ok s' _ => ∃ c', execExprs env p c lp.exprs = (c', 0) ∧ Sim ρ s' c' ∧ RegsWf c'
    | .fault s' rc => rc < 0 ∧ ∃ c', execExprs env p c lp.exprs = (c', rc) ∧ Sim ρ s' c' ∧ RegsWf c'
    | .outside => True
    | .notDenoted => False := by
  rcases lowerEvents_res hρ env p post evs hstrat hlits hwr idx lp pre hlow hp hpre ht s c sim wf with
    ⟨s', c', ev, x, sim', wf'⟩ | ⟨s', rc, c', ev, hrc, x, sim', wf'⟩ | ev
  · rw [ev]; exact ⟨c', x, sim', wf'⟩
  · rw [ev]; exact ⟨hrc, c', x, sim', wf'⟩
  · rw [ev]; trivial


/-! ## declared variables and the DEF preamble -/

/-- register class of a declared variable -/
def declCls (d : Sem.VarDecl) : Nat :=
  if d.isReport then (if d.vol then 5 else 6) else (if d.vol then 8 else 0)

theorem decl_regL {ρ : Rho} {decls : List Sem.VarDecl} (hρ : RhoOk ρ decls) {d : Sem.VarDecl} (hd : d ∈ decls) :
    ∃ k, ρ d.name = some ⟨declCls d, k⟩ ∧ k < 110 := by
  have hnb := hρ.declNames d hd
  cases hrep : d.isReport with
  | true =>
    have hm : d ∈ decls.filter (·.isReport) := List.mem_filter.mpr ⟨hd, hrep⟩
    obtain ⟨k, hk, hkd⟩ := List.mem_iff_getElem.mp hm
    have h := hρ.reports k hk
    rw [hkd] at h
    have hv := hρ.vars _ _ h hnb
    refine ⟨k, by simpa [declCls, hrep] using h, ?_⟩
    simp only at hv; omega
  | false =>
    have hm : d ∈ decls.filter (!·.isReport) := List.mem_filter.mpr ⟨hd, by simp [hrep]⟩
    obtain ⟨k, hk, hkd⟩ := List.mem_iff_getElem.mp hm
    have h := hρ.controls k hk
    rw [hkd] at h
    have hv := hρ.vars _ _ h hnb
    refine ⟨k, by simpa [declCls, hrep] using h, ?_⟩
    simp only at hv; omega

theorem mkDef_left {ρ : Rho} {d : Sem.VarDecl} {r : VReg} (h : ρ d.name = some r) : (mkDef ρ d).left = r := by
  simp [mkDef, h]

theorem defValue_mkDef {ρ : Rho} {decls : List Sem.VarDecl} (hρ : RhoOk ρ decls) {d : Sem.VarDecl} (hd : d ∈ decls) :
    defValue (mkDef ρ d) = d.init := by
  have h := (hρ.inits d hd).2
  show (if d.init.toNat = 0x3fffffff then U32MAX else UInt64.ofNat d.init.toNat) = d.init
  rw [if_neg h, UInt64.ofNat_toNat]

theorem defPreamble_append (defs rest : List VInstr) (hd : ∀ i ∈ defs, i.op = 2)
    (hr : ∀ i, rest.head? = some i → i.op ≠ 2) : defPreamble (defs ++ rest) = defs := by
  induction defs with
  | nil =>
    cases rest with
    | nil => rfl
    | cons i rest => simp [defPreamble, hr i rfl]
  | cons i defs ih =>
    simp only [List.cons_append, defPreamble, hd i (List.mem_cons_self ..), if_true]
    rw [ih (fun j hj => hd j (List.mem_cons_of_mem _ hj))]

theorem AluOp.ne2 {op : Nat} (h : AluOp op) : op ≠ 2 := by unfold AluOp at h; omega

theorem lowerFlag_shape {ρ : Rho} {decls : List Sem.VarDecl} (hρ : RhoOk ρ decls) {e : Expr} {fi : List VInstr}
    (h : lowerFlag ρ e = some fi) : fi ≠ [] ∧ ∀ i ∈ fi, i.op ≠ 2 := by
  obtain ⟨le, hle, ⟨h7, hne, rfl⟩ | ⟨h1, rfl⟩⟩ := lowerFlag_inv h
  · obtain ⟨_, _, hops⟩ := lowerE_shape hρ e 0 le hle
    rcases List.eq_nil_or_concat le.instrs with hnil | ⟨a, l, hal⟩
    · exact absurd hnil hne
    · rw [hal, List.concat_eq_append, setLastRet_snoc]
      refine ⟨by simp, fun i hi => ?_⟩
      rw [hal, List.concat_eq_append] at hops
      simp only [List.mem_append, List.mem_singleton] at hi
      rcases hi with hi | rfl
      · exact (hops i (List.mem_append_left _ hi)).op_ne2
      · exact (hops l (List.mem_append_right _ (List.mem_singleton.mpr rfl))).op_ne2
  · obtain ⟨_, _, hops⟩ := lowerE_shape hρ e 0 le hle
    refine ⟨by simp, fun i hi => ?_⟩
    simp only [List.mem_append, List.mem_singleton] at hi
    rcases hi with hi | rfl
    · exact (hops i hi).op_ne2
    · show (1 : Nat) ≠ 2; decide

/-- the lowered events of a non-empty program start with an instruction that is not a DEF -/
theorem lowerEvents_head {ρ : Rho} {decls : List Sem.VarDecl} (hρ : RhoOk ρ decls) {evs : List Event} {idx : Nat}
    {lp : LP} (h : lowerEvents ρ evs idx = some lp) (hne : evs ≠ []) :
    lp.instrs ≠ [] ∧ ∀ i, lp.instrs.head? = some i → i.op ≠ 2 := by
  cases evs with
  | nil => exact absurd rfl hne
  | cons ev rest =>
    obtain ⟨fi, bi, tail, hfi, _, _, rfl⟩ := lowerEvents_cons_inv h
    obtain ⟨hfne, hops⟩ := lowerFlag_shape hρ hfi
    cases fi with
    | nil => exact absurd rfl hfne
    | cons i fi' =>
      refine ⟨by simp, fun j hj => ?_⟩
      simp only [List.cons_append, List.head?_cons, Option.some.injEq] at hj
      subst hj
      exact hops _ (List.mem_cons_self ..)

theorem defs_op {ρ : Rho} {decls : List Sem.VarDecl} {defs : List VInstr} (hd : DefsFor ρ decls defs) :
    ∀ i ∈ defs, ∃ d ∈ decls, i = mkDef ρ d := by
  intro i hi
  have := (List.Perm.mem_iff hd).mp hi
  obtain ⟨d, hd', rfl⟩ := List.mem_map.mp this
  exact ⟨d, hd', rfl⟩

theorem numToReturn_lower {ρ : Rho} {decls : List Sem.VarDecl} (hρ : RhoOk ρ decls) {defs : List VInstr}
    (hd : DefsFor ρ decls defs) {evs : List Event} {lpe : LP}
    (h : lowerEvents ρ evs defs.length = some lpe) (hne : evs ≠ []) :
    defPreamble (defs ++ lpe.instrs) = defs ∧
    numToReturn (defs ++ lpe.instrs) = (decls.filter (·.isReport)).length := by
  obtain ⟨hnil, hhead⟩ := lowerEvents_head hρ h hne
  have hpre : defPreamble (defs ++ lpe.instrs) = defs :=
    defPreamble_append defs lpe.instrs (fun i hi => by obtain ⟨d, _, rfl⟩ := defs_op hd i hi; rfl) hhead
  refine ⟨hpre, ?_⟩
  have hlen : defs.length ≠ (defs ++ lpe.instrs).length := by
    have : lpe.instrs.length ≠ 0 := fun h0 => hnil (List.eq_nil_of_length_eq_zero h0)
    simp only [List.length_append]; omega
  unfold numToReturn
  rw [hpre, if_neg hlen, (hd.filter _).length_eq, List.filter_map, List.length_map]
  congr 1
  apply List.filter_congr
  intro d hdm
  obtain ⟨k, hk, _⟩ := decl_regL hρ hdm
  simp only [Function.comp, mkDef_left hk, declCls]
  cases d.isReport <;> cases d.vol <;> simp

/-! ## re-initialisation folds -/

/-- the shape of `resetState` / `initRegisterState`: write the DEF value of the selected DEFs -/
def defFold (env : Env) (P : VInstr → Prop) [DecidablePred P] (l : List VInstr) (c : Conn) : Conn :=
  l.foldl (fun c i => if P i then writeReg env c (defValue i) i.left else c) c

theorem defFold_nil (env : Env) (P : VInstr → Prop) [DecidablePred P] (c : Conn) : defFold env P [] c = c := rfl

theorem defFold_cons (env : Env) (P : VInstr → Prop) [DecidablePred P] (i : VInstr) (l : List VInstr) (c : Conn) :
    defFold env P (i :: l) c = defFold env P l (if P i then writeReg env c (defValue i) i.left else c) := rfl

theorem resetState_eq (env : Env) (p : Program) (c : Conn) :
    resetState env p c = defFold env (fun i => i.left.cls = 5 ∨ i.left.cls = 8) (defPreamble p.instrs) c := rfl

theorem initRegisterState_eq (env : Env) (p : Program) (c : Conn) :
    initRegisterState env p c = defFold env (fun i => i.left.cls = 0 ∨ i.left.cls = 6) (defPreamble p.instrs) c := rfl

theorem defFold_wf (env : Env) (P : VInstr → Prop) [DecidablePred P] (l : List VInstr) (c : Conn)
    (wf : RegsWf c) : RegsWf (defFold env P l c) := by
  induction l generalizing c with
  | nil => exact wf
  | cons i l ih =>
    rw [defFold_cons]
    apply ih
    split
    · exact writeReg_wf _ _ _ _ wf
    · exact wf

/-- a write to a report / control register touches only that file -/
theorem writeReg_rc (env : Env) (c : Conn) (v : Val) (r : VReg)
    (h : r.cls = 0 ∨ r.cls = 5 ∨ r.cls = 6 ∨ r.cls = 8) :
    (writeReg env c v r).regs.impl = c.regs.impl ∧ (writeReg env c v r).regs.loc = c.regs.loc ∧
    (writeReg env c v r).regs.tmp = c.regs.tmp ∧ (writeReg env c v r).t0 = c.t0 := by
  obtain ⟨a, i⟩ := r
  simp only at h
  rcases h with rfl | rfl | rfl | rfl <;> simp only [writeReg] <;> split <;> simp

theorem defFold_frame (env : Env) (P : VInstr → Prop) [DecidablePred P]
    (hP : ∀ i, P i → i.left.cls = 0 ∨ i.left.cls = 5 ∨ i.left.cls = 6 ∨ i.left.cls = 8)
    (l : List VInstr) (c : Conn) :
    (defFold env P l c).regs.impl = c.regs.impl ∧ (defFold env P l c).regs.loc = c.regs.loc ∧
    (defFold env P l c).regs.tmp = c.regs.tmp ∧ (defFold env P l c).t0 = c.t0 := by
  induction l generalizing c with
  | nil => exact ⟨rfl, rfl, rfl, rfl⟩
  | cons i l ih =>
    rw [defFold_cons]
    obtain ⟨h1, h2, h3, h4⟩ := ih (if P i then writeReg env c (defValue i) i.left else c)
    by_cases hi : P i
    · simp only [hi, if_true] at h1 h2 h3 h4 ⊢
      obtain ⟨g1, g2, g3, g4⟩ := writeReg_rc env c (defValue i) i.left (hP i hi)
      exact ⟨h1.trans g1, h2.trans g2, h3.trans g3, h4.trans g4⟩
    · simp only [hi, if_false] at h1 h2 h3 h4 ⊢
      exact ⟨h1, h2, h3, h4⟩

theorem defFold_other (env env' : Env) (P : VInstr → Prop) [DecidablePred P] (r : VReg)
    (l : List VInstr) (c : Conn) (h : ∀ i ∈ l, P i → ¬ sameCell i.left r) :
    readReg env' (defFold env P l c) r = readReg env' c r := by
  induction l generalizing c with
  | nil => rfl
  | cons i l ih =>
    rw [defFold_cons, ih _ (fun j hj => h j (List.mem_cons_of_mem _ hj))]
    by_cases hi : P i
    · simp only [hi, if_true]
      exact readReg_writeReg_ne _ _ _ _ _ _ (h i (List.mem_cons_self ..) hi)
    · simp only [hi, if_false]

theorem sameCell_symm {a b : VReg} (h : sameCell a b) : sameCell b a := ⟨h.1.symm, h.2.symm⟩

theorem defFold_self (env env' : Env) (P : VInstr → Prop) [DecidablePred P]
    (l : List VInstr) (c : Conn) (wf : RegsWf c) (hpw : l.Pairwise fun a b => ¬ sameCell a.left b.left)
    (i : VInstr) (hi : i ∈ l) (hPi : P i) (hcell : CellOk i.left) :
    readReg env' (defFold env P l c) i.left = defValue i := by
  induction l generalizing c with
  | nil => cases hi
  | cons j l ih =>
    rw [defFold_cons]
    rw [List.pairwise_cons] at hpw
    rcases List.mem_cons.mp hi with rfl | hil
    · rw [defFold_other _ _ _ _ _ _ (fun b hb _ hs => hpw.1 b hb (sameCell_symm hs))]
      simp only [hPi, if_true]
      exact readReg_writeReg_self _ _ _ _ _ wf hcell
    · apply ih _ _ hpw.2 hil
      split
      · exact writeReg_wf _ _ _ _ wf
      · exact wf

/-! ### the source side: `foldl … setVar` -/

theorem srcFold_other (l : List Sem.VarDecl) (P : Sem.VarDecl → Bool) (vs : List (Name × Val)) (x : Name)
    (h : ∀ d ∈ l, P d = true → d.name ≠ x) :
    Sem.lookupVar (l.foldl (fun vs d => if P d then Sem.setVar vs d.name d.init else vs) vs) x =
      Sem.lookupVar vs x := by
  induction l generalizing vs with
  | nil => rfl
  | cons d l ih =>
    rw [List.foldl_cons, ih _ (fun d' hd' => h d' (List.mem_cons_of_mem _ hd'))]
    by_cases hd : P d = true
    · simp only [hd, if_true]
      exact lookupVar_setVar_other _ _ _ _ (fun e => h d (List.mem_cons_self ..) hd e.symm)
    · simp only [hd]; rfl

theorem srcFold_self (l : List Sem.VarDecl) (P : Sem.VarDecl → Bool) (vs : List (Name × Val))
    (hnd : (l.map (·.name)).Nodup) (d : Sem.VarDecl) (hd : d ∈ l) (hP : P d = true) :
    Sem.lookupVar (l.foldl (fun vs d => if P d then Sem.setVar vs d.name d.init else vs) vs) d.name = d.init := by
  induction l generalizing vs with
  | nil => cases hd
  | cons e l ih =>
    rw [List.foldl_cons]
    rw [List.map_cons, List.nodup_cons] at hnd
    rcases List.mem_cons.mp hd with rfl | hdl
    · rw [srcFold_other l P _ _ (fun d' hd' _ e => hnd.1 (List.mem_map.mpr ⟨d', hd', e⟩))]
      simp only [hP, if_true]
      exact lookupVar_setVar_self _ _ _
    · exact ih _ hnd.2 hdl

/-! ### the folds over the DEF preamble of a lowered program -/

theorem defs_pairwise {ρ : Rho} {decls : List Sem.VarDecl} (hρ : RhoOk ρ decls) {defs : List VInstr}
    (hd : DefsFor ρ decls defs) : defs.Pairwise fun a b => ¬ sameCell a.left b.left := by
  rw [List.Perm.pairwise_iff (fun {a b} h hs => h (sameCell_symm hs)) hd, List.pairwise_map]
  have hnd : decls.Pairwise fun a b => a.name ≠ b.name := by
    have := hρ.declNodup
    rwa [List.Nodup, List.pairwise_map] at this
  refine hnd.imp_of_mem ?_
  intro a b ha hb hne hs
  obtain ⟨ka, hka, _⟩ := decl_regL hρ ha
  obtain ⟨kb, hkb, _⟩ := decl_regL hρ hb
  rw [mkDef_left hka, mkDef_left hkb] at hs
  exact hne (hρ.inj _ _ _ _ hka hkb hs)

theorem declCls_cellOk (d : Sem.VarDecl) (k : Nat) (hk : k < 110) : CellOk ⟨declCls d, k⟩ := by
  unfold CellOk declCls
  cases d.isReport <;> cases d.vol <;> simp [hk]

/-- a declared variable selected by the fold holds its initial value afterwards -/
theorem defFold_decl {ρ : Rho} {decls : List Sem.VarDecl} (hρ : RhoOk ρ decls) {defs : List VInstr}
    (hd : DefsFor ρ decls defs) (env env' : Env) (P : VInstr → Prop) [DecidablePred P] (c : Conn) (wf : RegsWf c)
    {d : Sem.VarDecl} (hdm : d ∈ decls) (hP : P (mkDef ρ d)) {r : VReg} (hr : ρ d.name = some r) :
    readReg env' (defFold env P defs c) r = d.init := by
  obtain ⟨k, hk, hk110⟩ := decl_regL hρ hdm
  have hmem : mkDef ρ d ∈ defs := (List.Perm.mem_iff hd).mpr (List.mem_map_of_mem hdm)
  have := defFold_self env env' P defs c wf (defs_pairwise hρ hd) (mkDef ρ d) hmem hP
    (by rw [mkDef_left hk]; exact declCls_cellOk d k hk110)
  rw [mkDef_left hr, defValue_mkDef hρ hdm] at this
  exact this

/-- a name none of whose declarations is selected keeps its register -/
theorem defFold_nondecl {ρ : Rho} {decls : List Sem.VarDecl} (hρ : RhoOk ρ decls) {defs : List VInstr}
    (hd : DefsFor ρ decls defs) (env env' : Env) (P : VInstr → Prop) [DecidablePred P] (c : Conn)
    {x : Name} {r : VReg} (hr : ρ x = some r) (hx : ∀ d ∈ decls, P (mkDef ρ d) → d.name ≠ x) :
    readReg env' (defFold env P defs c) r = readReg env' c r := by
  apply defFold_other
  intro i hi hPi hs
  obtain ⟨d, hdm, rfl⟩ := defs_op hd i hi
  obtain ⟨k, hk, _⟩ := decl_regL hρ hdm
  rw [mkDef_left hk] at hs
  exact hx d hdm hPi (hρ.inj _ _ _ _ hk hr hs)

theorem mkDef_vol {ρ : Rho} {decls : List Sem.VarDecl} (hρ : RhoOk ρ decls) {d : Sem.VarDecl} (hdm : d ∈ decls) :
    ((mkDef ρ d).left.cls = 5 ∨ (mkDef ρ d).left.cls = 8) ↔ d.vol = true := by
  obtain ⟨k, hk, _⟩ := decl_regL hρ hdm
  rw [mkDef_left hk]
  simp only [declCls]
  cases d.isReport <;> cases d.vol <;> simp

theorem mkDef_nonvol {ρ : Rho} {decls : List Sem.VarDecl} (hρ : RhoOk ρ decls) {d : Sem.VarDecl} (hdm : d ∈ decls) :
    ((mkDef ρ d).left.cls = 0 ∨ (mkDef ρ d).left.cls = 6) ↔ d.vol = false := by
  obtain ⟨k, hk, _⟩ := decl_regL hρ hdm
  rw [mkDef_left hk]
  simp only [declCls]
  cases d.isReport <;> cases d.vol <;> simp

/-- `reset_state` after a report matches re-initialising the volatile variables in the source -/
theorem reset_sim {ρ : Rho} {decls : List Sem.VarDecl} (hρ : RhoOk ρ decls) {defs : List VInstr}
    (hd : DefsFor ρ decls defs) (env : Env) {s : Sem.SrcState} {c : Conn} (sim : Sim ρ s c) (wf : RegsWf c) :
    Sim ρ { s with vars := decls.foldl (fun vs d => if d.vol then Sem.setVar vs d.name d.init else vs) s.vars }
      (defFold env (fun i => i.left.cls = 5 ∨ i.left.cls = 8) defs c) ∧
    RegsWf (defFold env (fun i => i.left.cls = 5 ∨ i.left.cls = 8) defs c) := by
  refine ⟨?_, defFold_wf _ _ _ _ wf⟩
  have hc := Sim.toC hρ sim
  obtain ⟨f1, f2, f3, f4⟩ := defFold_frame env (fun i => i.left.cls = 5 ∨ i.left.cls = 8)
    (fun i hi => by omega) defs c
  apply SimC.toSim hρ
  refine ⟨f4.trans hc.t0, by rw [f1]; exact hc.ev, by rw [f1]; exact hc.cont, by rw [f1]; exact hc.rep,
    by rw [f1]; exact hc.micros, by rw [f1]; exact hc.cwnd, by rw [f1]; exact hc.rate, ?_⟩
  intro env' x r hr hnb
  simp only
  by_cases hex : ∃ d ∈ decls, d.vol = true ∧ d.name = x
  · obtain ⟨d, hdm, hvol, rfl⟩ := hex
    rw [defFold_decl hρ hd env env' _ c wf hdm ((mkDef_vol hρ hdm).mpr hvol) hr]
    exact (srcFold_self decls (·.vol) s.vars hρ.declNodup d hdm hvol).symm
  · have hx : ∀ d ∈ decls, d.vol = true → d.name ≠ x := fun d hdm hv e => hex ⟨d, hdm, hv, e⟩
    rw [defFold_nondecl hρ hd env env' _ c hr (fun d hdm hP => hx d hdm ((mkDef_vol hρ hdm).mp hP)),
      srcFold_other decls (·.vol) s.vars x hx]
    exact hc.vars env' x r hr hnb

/-- the report sent: the report variables in slot order -/
theorem report_vals {ρ : Rho} {decls : List Sem.VarDecl} (hρ : RhoOk ρ decls) {s : Sem.SrcState} {c : Conn}
    (sim : Sim ρ s c) (wf : RegsWf c) :
    c.regs.report.take (decls.filter (·.isReport)).length =
      (decls.filter (·.isReport)).map fun d => Sem.lookupVar s.vars d.name := by
  have hc := Sim.toC hρ sim
  have hbound : ∀ k, k < (decls.filter (·.isReport)).length → k < 110 := by
    intro k hk
    have h := hρ.reports k hk
    have hm : (decls.filter (·.isReport))[k] ∈ decls := (List.mem_filter.mp (List.getElem_mem hk)).1
    have := hρ.vars _ _ h (hρ.declNames _ hm)
    simp only at this; omega
  have hlen : (decls.filter (·.isReport)).length ≤ c.regs.report.length := by
    have h110 := wf.1
    by_cases h0 : (decls.filter (·.isReport)).length = 0
    · omega
    · have := hbound ((decls.filter (·.isReport)).length - 1) (by omega)
      omega
  apply List.ext_getElem
  · simp only [List.length_take, List.length_map]; omega
  · intro k h1 h2
    simp only [List.length_map] at h2
    have h := hρ.reports k h2
    have hm : (decls.filter (·.isReport))[k] ∈ decls := (List.mem_filter.mp (List.getElem_mem h2)).1
    have hv := hc.vars env0 _ _ h (hρ.declNames _ hm)
    rw [List.getElem_take, List.getElem_map, ← hv]
    have hk : k < c.regs.report.length := by omega
    have : readReg env0 c ⟨if (decls.filter (·.isReport))[k].vol then 5 else 6, k⟩ = c.regs.report.getD k 0 := by
      cases (decls.filter (·.isReport))[k].vol <;> rfl
    rw [this, List.getD_eq_getElem?_getD, List.getElem?_eq_getElem hk]
    rfl

/-! ## stage 4: one invocation -/

/-- the machine state when the expression loop starts (`vmInvoke` + the head of `stateMachine`) -/
def vmPrologue (env : Env) (c : Conn) : Conn :=
  let c : Conn := { c with regs := { c.regs with impl := (c.regs.impl.set 4 (env.prims.sndCwnd.toUInt32.toUInt64)).set 5 env.prims.sndRate } }
  let c : Conn := { c with regs := { c.regs with impl := ((c.regs.impl.set 0 0).set 1 0).set 2 0 } }
  { c with regs := { c.regs with impl := c.regs.impl.set 3 (env.now - c.t0) } }

/-- the source state when the events start -/
def srcPrologue (env : Env) (s : Sem.SrcState) : Sem.SrcState :=
  { s with ev := 0, cont := 0, rep := 0, cwnd := env.prims.sndCwnd.toUInt32.toUInt64, rate := env.prims.sndRate,
           micros := env.now - s.t0 }

theorem prologue_impl (l : List Val) (a b m : Val) (h : 6 ≤ l.length) :
    ((((((l.set 4 a).set 5 b).set 0 0).set 1 0).set 2 0).set 3 m).getD 0 0 = 0 ∧
    ((((((l.set 4 a).set 5 b).set 0 0).set 1 0).set 2 0).set 3 m).getD 1 0 = 0 ∧
    ((((((l.set 4 a).set 5 b).set 0 0).set 1 0).set 2 0).set 3 m).getD 2 0 = 0 ∧
    ((((((l.set 4 a).set 5 b).set 0 0).set 1 0).set 2 0).set 3 m).getD 3 0 = m ∧
    ((((((l.set 4 a).set 5 b).set 0 0).set 1 0).set 2 0).set 3 m).getD 4 0 = a ∧
    ((((((l.set 4 a).set 5 b).set 0 0).set 1 0).set 2 0).set 3 m).getD 5 0 = b := by
  have h0 : 0 < l.length := by omega
  have h1 : 1 < l.length := by omega
  have h2 : 2 < l.length := by omega
  have h3 : 3 < l.length := by omega
  have h4 : 4 < l.length := by omega
  have h5 : 5 < l.length := by omega
  simp [List.getD_eq_getElem?_getD, h0, h1, h2, h3, h4, h5]

theorem prologue_sim {ρ : Rho} {decls : List Sem.VarDecl} (hρ : RhoOk ρ decls) (env : Env) {s : Sem.SrcState}
    {c : Conn} (sim : Sim ρ s c) (wf : RegsWf c) :
    Sim ρ (srcPrologue env s) (vmPrologue env c) ∧ RegsWf (vmPrologue env c) := by
  have hc := Sim.toC hρ sim
  obtain ⟨w1, w2, w3, w4, w5⟩ := wf
  obtain ⟨i0, i1, i2, i3, i4, i5⟩ := prologue_impl c.regs.impl (env.prims.sndCwnd.toUInt32.toUInt64)
    env.prims.sndRate (env.now - c.t0) w3
  constructor
  · apply SimC.toSim hρ
    refine ⟨hc.t0, i0, i1, i2, ?_, i4, i5, ?_⟩
    · exact i3.trans (by rw [hc.t0]; rfl)
    · intro env' x r hr hnb
      rw [readReg_varCell (hρ.vars x r hr hnb) env' env' (c := c) (c' := vmPrologue env c) rfl rfl rfl]
      exact hc.vars env' x r hr hnb
  · simp only [RegsWf, vmPrologue, List.length_set]
    exact ⟨w1, w2, w3, w4, w5⟩

/-- the machine program of a lowered program -/
def mkProg (u : Nat) (lp : LP) : Program :=
  { uid := u, exprs := lp.exprs, instrs := lp.instrs, numToReturn := numToReturn lp.instrs }

theorem invoke_eq (decls : List Sem.VarDecl) (evs : List Event) (env : Env) (s : Sem.SrcState) :
    Sem.invoke decls evs env s =
      match Sem.evalEvents env (srcPrologue env s) evs with
      | .fault s' rc => (s', .fault rc)
      | .notDenoted => (srcPrologue env s, .outside)
      | .outside => (srcPrologue env s, .outside)
      | .ok s' _ =>
        let cw := if s'.cwnd > 0 then some s'.cwnd else none
        let rt := if s'.rate != 0 then some s'.rate else none
        if s'.rep != 0 then
          let vals := (decls.filter (·.isReport)).map fun d => Sem.lookupVar s'.vars d.name
          let vars := decls.foldl (fun vs d => if d.vol then Sem.setVar vs d.name d.init else vs) s'.vars
          ({ s' with vars := vars }, .done cw rt (some vals))
        else (s', .done cw rt none) := rfl

theorem vmInvoke_eq (p : Program) (env : Env) (c : Conn) :
    vmInvoke p env c =
      let r := execExprs env p (vmPrologue env c) p.exprs
      if r.2 < 0 then (r.1, { rc := r.2, setCwnd := none, setRate := none, report := none })
      else
        let c' := r.1
        let cw := c'.regs.impl.getD 4 0
        let rt := c'.regs.impl.getD 5 0
        if c'.regs.impl.getD 2 0 != 0 then
          (resetState env p c', { rc := 0, setCwnd := if cw > 0 then some cw else none,
                                  setRate := if rt != 0 then some rt else none,
                                  report := some (p.uid, c'.regs.report.take p.numToReturn) })
        else (c', { rc := 0, setCwnd := if cw > 0 then some cw else none,
                    setRate := if rt != 0 then some rt else none, report := none }) := rfl

/-- **Stage 4.** One invocation of the lowered program on the machine shows what the source
semantics shows (unless the source leaves the fragment), and the simulation is re-established. -/
theorem invoke_correct {ρ : Rho} {decls : List Sem.VarDecl} (hρ : RhoOk ρ decls) {defs : List VInstr}
    (hd : DefsFor ρ decls defs) {evs : List Event} (hne : evs ≠ []) (hstrat : InOracle evs = true)
    (hlits : LitsOk evs = true) (hwr : WritesOk evs = true) {lp : LP} (hlow : lowerProg ρ defs evs = some lp)
    (ht : TmpsOk lp.instrs) (u : Nat) (env : Env) (s : Sem.SrcState) (c : Conn) (sim : Sim ρ s c) (wf : RegsWf c) :
    ofSem (Sem.invoke decls evs env s).2 = none ∨
    (ofSem (Sem.invoke decls evs env s).2 = some (ofVm (vmInvoke (mkProg u lp) env c).2) ∧
      Sim ρ (Sem.invoke decls evs env s).1 (vmInvoke (mkProg u lp) env c).1 ∧
      RegsWf (vmInvoke (mkProg u lp) env c).1) := by
  unfold lowerProg at hlow
  obtain ⟨lpe, hlpe, rfl⟩ := Option.map_eq_some_iff.mp hlow
  obtain ⟨hpre, hnum⟩ := numToReturn_lower hρ hd hlpe hne
  obtain ⟨sim0, wf0⟩ := prologue_sim hρ env sim wf
  have hte : TmpsOk lpe.instrs := (TmpsOk.append ht).2
  have hres := lowerEvents_res hρ env (mkProg u ⟨lpe.exprs, defs ++ lpe.instrs⟩) [] evs hstrat hlits hwr
    defs.length lpe defs hlpe (by simp [mkProg]) rfl hte _ _ sim0 wf0
  rw [invoke_eq, vmInvoke_eq]
  rcases hres with ⟨s', c', ev, x, sim', wf'⟩ | ⟨s', rc, c', ev, hrc, x, sim', wf'⟩ | ev
  · right
    have hc := Sim.toC hρ sim'
    have x' : execExprs env (mkProg u ⟨lpe.exprs, defs ++ lpe.instrs⟩) (vmPrologue env c)
        (mkProg u ⟨lpe.exprs, defs ++ lpe.instrs⟩).exprs = (c', 0) := x
    rw [ev, x']
    simp only [Int.lt_irrefl, if_false, hc.cwnd, hc.rate, hc.rep]
    by_cases hrep : (s'.rep != 0) = true
    · simp only [hrep, if_true]
      obtain ⟨simr, wfr⟩ := reset_sim hρ hd env sim' wf'
      refine ⟨?_, ?_, ?_⟩
      · simp only [ofSem, ofVm, Int.lt_irrefl, if_false, Option.map_some, mkProg, hnum, report_vals hρ sim' wf']
      · rw [resetState_eq]
        simp only [mkProg, hpre]
        exact simr
      · rw [resetState_eq]
        simp only [mkProg, hpre]
        exact wfr
    · simp only [hrep]
      exact ⟨by simp [ofSem, ofVm], sim', wf'⟩
  · right
    have x' : execExprs env (mkProg u ⟨lpe.exprs, defs ++ lpe.instrs⟩) (vmPrologue env c)
        (mkProg u ⟨lpe.exprs, defs ++ lpe.instrs⟩).exprs = (c', rc) := x
    rw [ev, x']
    simp only [hrc, if_true]
    exact ⟨by simp [ofSem, ofVm, hrc], sim', wf'⟩
  · left
    rw [ev]; rfl

/-! ## stage 5: runs -/

/-- **Stage 5.** Every run of the lowered program shows the observations of the source semantics,
as long as the source semantics stays inside the fragment. -/
theorem lower_run_correct {ρ : Rho} {decls : List Sem.VarDecl} (hρ : RhoOk ρ decls) {defs : List VInstr}
    (hd : DefsFor ρ decls defs) {evs : List Event} (hne : evs ≠ []) (hstrat : InOracle evs = true)
    (hlits : LitsOk evs = true) (hwr : WritesOk evs = true) {lp : LP} (hlow : lowerProg ρ defs evs = some lp)
    (ht : TmpsOk lp.instrs) (u : Nat) (inputs : List Env) (s : Sem.SrcState) (c : Conn) (sim : Sim ρ s c)
    (wf : RegsWf c) :
    match (Sem.run decls evs s inputs).mapM ofSem with
    | none => True
    | some exp => (vmRun (mkProg u lp) c inputs).map ofVm = exp := by
  induction inputs generalizing s c with
  | nil => simp [Sem.run, vmRun]
  | cons env rest ih =>
    simp only [Sem.run, vmRun, List.mapM_cons, List.map_cons]
    rcases invoke_correct hρ hd hne hstrat hlits hwr hlow ht u env s c sim wf with h | ⟨h, sim', wf'⟩
    · rw [h]; trivial
    · rw [h]
      have := ih _ _ sim' wf'
      cases hm : (Sem.run decls evs (Sem.invoke decls evs env s).1 rest).mapM ofSem with
      | none => trivial
      | some exp' =>
        rw [hm] at this
        simp [this]

/-! ## program switch -/

theorem lookupVar_init_self (decls : List Sem.VarDecl) (hnd : (decls.map (·.name)).Nodup) (d : Sem.VarDecl)
    (hd : d ∈ decls) : Sem.lookupVar (decls.map fun d => (d.name, d.init)) d.name = d.init := by
  induction decls with
  | nil => cases hd
  | cons e l ih =>
    rw [List.map_cons, List.nodup_cons] at hnd
    rw [List.map_cons, lookupVar_cons]
    rcases List.mem_cons.mp hd with rfl | hdl
    · simp
    · have : e.name ≠ d.name := fun h => hnd.1 (List.mem_map.mpr ⟨d, hdl, h.symm⟩)
      simp only [this, if_false]
      exact ih hnd.2 hdl

theorem lookupVar_init_other (decls : List Sem.VarDecl) (x : Name) (h : ∀ d ∈ decls, d.name ≠ x) :
    Sem.lookupVar (decls.map fun d => (d.name, d.init)) x = 0 := by
  induction decls with
  | nil => rfl
  | cons e l ih =>
    rw [List.map_cons, lookupVar_cons]
    simp only [h e (List.mem_cons_self ..), if_false]
    exact ih (fun d hd => h d (List.mem_cons_of_mem _ hd))

theorem getD_replicate_zero (n i : Nat) : (List.replicate n (0 : Val)).getD i 0 = 0 := by
  rw [List.getD_eq_getElem?_getD, List.getElem?_replicate]; split <;> rfl

/-- **Program switch.** After `reset_state` + `init_register_state` on zeroed registers, with the clock
origin set, the machine represents the initial source state. -/
theorem switch_sim {ρ : Rho} {decls : List Sem.VarDecl} (hρ : RhoOk ρ decls) {defs : List VInstr}
    (hd : DefsFor ρ decls defs) {evs : List Event} (hne : evs ≠ []) {lp : LP}
    (hlow : lowerProg ρ defs evs = some lp) (u : Nat) (env : Env) (c0 : Conn) (h0 : c0.regs = Regs.zero)
    (now : Val) :
    let c1 := initRegisterState env (mkProg u lp) (resetState env (mkProg u lp) c0)
    let c : Conn := { c1 with t0 := now, regs := { c1.regs with impl := c1.regs.impl.set 3 0 } }
    Sim ρ (Sem.initState decls now) c ∧ RegsWf c := by
  intro c1 c
  unfold lowerProg at hlow
  obtain ⟨lpe, hlpe, rfl⟩ := Option.map_eq_some_iff.mp hlow
  obtain ⟨hpre, _⟩ := numToReturn_lower hρ hd hlpe hne
  have hc1 : c1 = defFold env (fun i => i.left.cls = 0 ∨ i.left.cls = 6) defs
      (defFold env (fun i => i.left.cls = 5 ∨ i.left.cls = 8) defs c0) := by
    show initRegisterState env _ (resetState env _ c0) = _
    rw [initRegisterState_eq, resetState_eq]
    simp only [mkProg, hpre]
  have wf0 : RegsWf c0 := by simp [RegsWf, h0, Regs.zero]
  have wfr := defFold_wf env (fun i => i.left.cls = 5 ∨ i.left.cls = 8) defs c0 wf0
  have wf1 : RegsWf c1 := by rw [hc1]; exact defFold_wf _ _ _ _ wfr
  obtain ⟨a1, a2, _, _⟩ := defFold_frame env (fun i => i.left.cls = 5 ∨ i.left.cls = 8) (fun i hi => by omega) defs c0
  obtain ⟨b1, b2, _, _⟩ := defFold_frame env (fun i => i.left.cls = 0 ∨ i.left.cls = 6) (fun i hi => by omega) defs
    (defFold env (fun i => i.left.cls = 5 ∨ i.left.cls = 8) defs c0)
  have himpl : c1.regs.impl = List.replicate 6 0 := by rw [hc1, b1, a1, h0]; rfl
  constructor
  · apply SimC.toSim hρ
    refine ⟨rfl, ?_, ?_, ?_, ?_, ?_, ?_, ?_⟩
    · show (c1.regs.impl.set 3 0).getD 0 0 = 0; rw [himpl]; decide
    · show (c1.regs.impl.set 3 0).getD 1 0 = 0; rw [himpl]; decide
    · show (c1.regs.impl.set 3 0).getD 2 0 = 0; rw [himpl]; decide
    · show (c1.regs.impl.set 3 0).getD 3 0 = 0; rw [himpl]; decide
    · show (c1.regs.impl.set 3 0).getD 4 0 = 0; rw [himpl]; decide
    · show (c1.regs.impl.set 3 0).getD 5 0 = 0; rw [himpl]; decide
    · intro env' x r hr hnb
      rw [readReg_varCell (hρ.vars x r hr hnb) env' env' (c := c1) (c' := c) rfl rfl rfl]
      show readReg env' c1 r = Sem.lookupVar (decls.map fun d => (d.name, d.init)) x
      rw [hc1]
      by_cases hex : ∃ d ∈ decls, d.name = x
      · obtain ⟨d, hdm, rfl⟩ := hex
        rw [lookupVar_init_self decls hρ.declNodup d hdm]
        cases hvol : d.vol with
        | false =>
          exact defFold_decl hρ hd env env' _ _ wfr hdm ((mkDef_nonvol hρ hdm).mpr hvol) hr
        | true =>
          rw [defFold_nondecl hρ hd env env' _ _ hr]
          · exact defFold_decl hρ hd env env' _ _ wf0 hdm ((mkDef_vol hρ hdm).mpr hvol) hr
          · intro d' hdm' hP e
            obtain ⟨k', hk', _⟩ := decl_regL hρ hdm'
            have hl' : (mkDef ρ d').left = r := by rw [mkDef_left hk', ← Option.some.injEq, ← hk', e, hr]
            have hl : (mkDef ρ d).left = r := mkDef_left hr
            have hP' : (mkDef ρ d).left.cls = 0 ∨ (mkDef ρ d).left.cls = 6 := by rw [hl]; rw [hl'] at hP; exact hP
            have := (mkDef_nonvol hρ hdm).mp hP'
            rw [hvol] at this; cases this
      · have hx : ∀ d ∈ decls, d.name ≠ x := fun d hdm e => hex ⟨d, hdm, e⟩
        rw [lookupVar_init_other decls x hx,
          defFold_nondecl hρ hd env env' _ _ hr (fun d hdm _ => hx d hdm),
          defFold_nondecl hρ hd env env' _ _ hr (fun d hdm _ => hx d hdm)]
        have hcls := hρ.locals x r hr hnb hx
        obtain ⟨a, i⟩ := r
        simp only at hcls
        subst hcls
        show c0.regs.loc.getD i 0 = 0
        rw [h0]
        exact getD_replicate_zero 8 i
  · obtain ⟨w1, w2, w3, w4, w5⟩ := wf1
    exact ⟨w1, w2, by show 6 ≤ (c1.regs.impl.set 3 0).length; rw [List.length_set]; exact w3, w4, w5⟩

/-! ## counter-examples to the statements as first proposed (why the extra hypotheses) -/


/-- Why `RegsWf` is needed (counter-example to stage 1 as first stated): from any simulating state,
emptying the temporary file keeps `Sim` (which does not look at temporaries), but the lowered
`(+ 1 2)` then leaves its result register reading `0` although the source value is `3`. -/
theorem stage1_needs_RegsWf {ρ : Rho} {decls : List Sem.VarDecl} (hρ : RhoOk ρ decls) (env : Env)
    (s : Sem.SrcState) (c : Conn) (sim : Sim ρ s c) :
    let c0 : Conn := { c with regs := { c.regs with tmp := [] } }
    let e : Expr := .sexp .add (.atom (.num 1)) (.atom (.num 2))
    Sim ρ s c0 ∧ pureE e = true ∧ litsOkE e = true ∧
    ∃ le, lowerE ρ e 0 = some le ∧ TmpsOk le.instrs ∧ (le.reg.cls = 7 → le.reg.idx < 8) ∧
      Sem.evalE env s e = .ok s 3 ∧
      ∃ c', execInstrs env c0 le.instrs = (c', 0) ∧ readReg env c' le.reg = 0 := by
  intro c0 e
  refine ⟨⟨fun env' x r hx => ?_, sim.2⟩, rfl, rfl,
    ⟨[⟨0, vTmp 0, vImmNum 1, vImmNum 2⟩], vTmp 0, 1⟩, rfl, ?_, by intro _; decide, ?_, c0, ?_, rfl⟩
  · rw [← sim.1 env' x r hx]
    have h7 := rho_not_tmp hρ hx
    unfold readReg
    split <;> first | rfl | exact absurd (by assumption) h7
  · intro i hi
    rw [List.mem_singleton] at hi; subst hi
    decide
  · have h1 : Sem.evalE env s (.atom (.num 1)) = .ok s (Sem.immVal 1) := by rw [Sem.evalE]
    have h2 : Sem.evalE env s (.atom (.num 2)) = .ok s (Sem.immVal 2) := by rw [Sem.evalE]
    rw [evalE_arith_ok (by decide) h1 h2]
    rfl
  · rfl


def cexEvents : List Event :=
  [⟨.atom (.bool true), [.sexp .bind (.atom (.name "__eventFlag".toList)) (.atom (.num 0))]⟩,
   ⟨.atom (.bool true), [.sexp .bind (.atom (.name "Cwnd".toList)) (.atom (.num 1))]⟩]

def cexLP : LP :=
  ⟨[⟨0, 1, 1, 1⟩, ⟨2, 1, 3, 1⟩],
   [⟨1, vFlag, vFlag, vImmBool true⟩, ⟨1, ⟨2, 0⟩, ⟨2, 0⟩, vImmNum 0⟩,
    ⟨1, vFlag, vFlag, vImmBool true⟩, ⟨1, ⟨2, 4⟩, ⟨2, 4⟩, vImmNum 1⟩]⟩

def cexConn : Conn := { regs := Regs.zero, t0 := 0, programIndex := 1, staged := none, pending := Pending.none }
def cexSrcL : Sem.SrcState := Sem.initState [] 0

/-- Why `noFlagWriteE` is needed (counter-example to stage 3 as first stated): a body that clears
`__eventFlag` makes the source stop after the first event while the machine falls through to the
second one (and sets `Cwnd`). -/
theorem stage3_needs_noFlagWrite {ρ : Rho} (hρ : RhoOk ρ []) :
    Stratified cexEvents = true ∧ InOracle cexEvents = true ∧ LitsOk cexEvents = true ∧
    (cexEvents.all fun ev => ev.body.all writesOkE) = true ∧
    lowerEvents ρ cexEvents 0 = some cexLP ∧ TmpsOk cexLP.instrs ∧
    Sim ρ cexSrcL cexConn ∧ RegsWf cexConn ∧
    ∃ s', Sem.evalEvents env0 cexSrcL cexEvents = .ok s' 0 ∧
      ∃ c', execExprs env0 (mkProg 0 cexLP) cexConn cexLP.exprs = (c', 0) ∧ ¬ Sim ρ s' c' := by
  have hflag : ρ "__eventFlag".toList = some ⟨2, 0⟩ := hρ.impls 0 (by decide)
  have hcwnd : ρ "Cwnd".toList = some ⟨2, 4⟩ := hρ.impls 4 (by decide)
  refine ⟨by decide, by decide, by decide, by decide, ?_, ?_, ?_, by simp [RegsWf, cexConn, Regs.zero], ?_⟩
  · simp only [cexEvents, lowerEvents, lowerFlag, lowerBody, lowerStmt, lowerE, hflag, hcwnd]
    rfl
  · intro i hi
    simp only [cexLP, List.mem_cons, List.not_mem_nil, or_false] at hi
    rcases hi with rfl | rfl | rfl | rfl <;> decide
  · apply SimC.toSim hρ
    refine ⟨rfl, rfl, rfl, rfl, rfl, rfl, rfl, ?_⟩
    intro env x r hr hnb
    have hcls := hρ.locals x r hr hnb (fun d hd => by cases hd)
    obtain ⟨a, i⟩ := r
    simp only at hcls; subst hcls
    exact getD_replicate_zero 8 i
  · refine ⟨cexSrcL, by decide, (execExprs env0 (mkProg 0 cexLP) cexConn cexLP.exprs).1, ?_, ?_⟩
    · exact Prod.ext rfl (by decide)
    · intro h
      exact absurd (Sim.toC hρ h).cwnd (by decide)

end Portus.Lang.Frag
