import PortusModel.Lang.Compile
import PortusModel.Lemmas.Ctl
/-!
# Lemmas about integer literals (used by Props/C14)

* decimal numerals: `digitsVal` is the positional value, `atom`/`expr` read a maximal numeral exactly;
* the immediate encoding `Reg.immNum n`;
* where a literal ends up: `combine`, `defInstrs`, `Scope.updateType`;
* `serializeInstrs`/`Bin.serialize`: success means every register has an encoding;
* unfolding lemmas restricted to inputs with a known first character (symbolic evaluation of the
  parser on the C14 template programs).
-/
namespace Portus.Lang
open Portus Portus.Wire
set_option linter.unusedSimpArgs false

/-! ## Characters and numerals -/

theorem isAsciiDigit_iff (c : Char) : isAsciiDigit c = true ↔ 48 ≤ c.toNat ∧ c.toNat ≤ 57 := by
  simp only [isAsciiDigit, Bool.and_eq_true, decide_eq_true_eq, Char.le_def, UInt32.le_iff_toNat_le, Char.toNat]
  exact Iff.rfl

theorem digit_nameChar {c : Char} (h : isAsciiDigit c = true) : isNameChar c = true := by
  rw [isAsciiDigit_iff] at h
  simp only [isNameChar, isAlnumLowByte, Bool.or_eq_true, Bool.and_eq_true, decide_eq_true_eq]
  left; left; right
  omega

theorem digit_ne {c d : Char} (h : isAsciiDigit c = true) (hd : isAsciiDigit d = false) : c ≠ d := by
  intro e; subst e; simp [h] at hd

/-- `tag (d :: s)` fails on input starting with a different char -/
theorem tag_cons_ne {c d : Char} (s inp : List Char) (h : c ≠ d) : tag (d :: s) (c :: inp) = none := by
  simp [tag, List.isPrefixOf, h.symm]

theorem spanChars_append (p : Char → Bool) (ds rest : List Char) (h1 : ∀ c ∈ ds, p c = true)
    (h2 : ∀ c, rest.head? = some c → p c = false) : spanChars p (ds ++ rest) = (ds, rest) := by
  induction ds with
  | nil =>
    cases rest with
    | nil => rfl
    | cons c cs => simp [spanChars, h2 c rfl]
  | cons d ds ih =>
    have := ih (fun c hc => h1 c (by simp [hc]))
    simp [spanChars, h1 d (by simp), this]

theorem digit1_eq : digit1 = takeWhile1 isAsciiDigit := rfl

theorem takeWhile1_append (p : Char → Bool) (ds rest : List Char) (hne : ds ≠ [])
    (h1 : ∀ c ∈ ds, p c = true) (h2 : ∀ c, rest.head? = some c → p c = false) :
    takeWhile1 p (ds ++ rest) = some (ds, rest) := by
  simp only [takeWhile1, spanChars_append p ds rest h1 h2]
  cases ds with
  | nil => exact absurd rfl hne
  | cons d ds => simp

theorem num_numeral (ds rest : List Char) (hne : ds ≠ []) (hd : ∀ c ∈ ds, isAsciiDigit c = true)
    (hr : ∀ c, rest.head? = some c → isAsciiDigit c = false) :
    num (ds ++ rest) = if digitsVal ds < 2^64 then some (digitsVal ds, rest) else none := by
  simp only [num, digit1_eq, takeWhile1_append isAsciiDigit ds rest hne hd hr]

theorem name_numeral (ds rest : List Char) (hne : ds ≠ []) (hd : ∀ c ∈ ds, isAsciiDigit c = true)
    (hr : ∀ c, rest.head? = some c → isNameChar c = false) :
    name (ds ++ rest) = none := by
  have hall : ds.all isAsciiDigit = true := by simpa [List.all_eq_true] using hd
  simp only [name, takeWhile1_append isNameChar ds rest hne (fun c hc => digit_nameChar (hd c hc)) hr, hall, if_true]

theorem atom_numeral (ds rest : List Char) (hne : ds ≠ []) (hd : ∀ c ∈ ds, isAsciiDigit c = true)
    (hr : ∀ c, rest.head? = some c → isNameChar c = false) :
    atom (ds ++ rest) = if digitsVal ds < 2^64 then some (.atom (.num (digitsVal ds)), rest) else none := by
  have hr' : ∀ c, rest.head? = some c → isAsciiDigit c = false := by
    intro c hc
    cases h : isAsciiDigit c with
    | false => rfl
    | true => have := digit_nameChar h; rw [hr c hc] at this; cases this
  have hnum := num_numeral ds rest hne hd hr'
  have hname := name_numeral ds rest hne hd hr
  cases ds with
  | nil => exact absurd rfl hne
  | cons d ds' =>
    have hdd : isAsciiDigit d = true := hd d (by simp)
    have t1 : tag "true".toList (d :: ds' ++ rest) = none :=
      tag_cons_ne _ _ (digit_ne hdd (by decide))
    have t2 : tag "false".toList (d :: ds' ++ rest) = none :=
      tag_cons_ne _ _ (digit_ne hdd (by decide))
    have t3 : tag "+infinity".toList (d :: ds' ++ rest) = none :=
      tag_cons_ne _ _ (digit_ne hdd (by decide))
    by_cases hlt : digitsVal (d :: ds') < 2^64
    · simp only [atom, t1, t2, t3, hnum, if_pos hlt]
    · simp only [atom, t1, t2, t3, hnum, hname, if_neg hlt]

theorem digitsVal_snoc (ds : List Char) (d : Char) :
    digitsVal (ds ++ [d]) = 10 * digitsVal ds + (d.toNat - 48) := by
  simp [digitsVal, List.foldl_append]

theorem digitChar_val {k : Nat} (h : k < 10) : (Nat.digitChar k).toNat - 48 = k := by
  have : k = 0 ∨ k = 1 ∨ k = 2 ∨ k = 3 ∨ k = 4 ∨ k = 5 ∨ k = 6 ∨ k = 7 ∨ k = 8 ∨ k = 9 := by omega
  rcases this with h|h|h|h|h|h|h|h|h|h <;> subst h <;> rfl

theorem digitsVal_repr (n : Nat) : digitsVal (Nat.toDigits 10 n) = n := by
  induction n using Nat.strongRecOn with
  | _ n ih =>
    by_cases h : n < 10
    · rw [Nat.toDigits_of_lt_base h]
      have := digitChar_val h
      simpa [digitsVal] using this
    · rw [Nat.toDigits_of_base_le (by omega) (by omega), digitsVal_snoc, ih (n / 10) (by omega),
        digitChar_val (by omega)]
      omega

theorem toDigits_isAsciiDigit (n : Nat) : ∀ c ∈ Nat.toDigits 10 n, isAsciiDigit c = true := by
  intro c hc
  have := Nat.isDigit_of_mem_toDigits (by omega) (by omega) hc
  simp only [Char.isDigit, Bool.and_eq_true, decide_eq_true_eq] at this
  simp only [isAsciiDigit, Bool.and_eq_true, decide_eq_true_eq, Char.le_def]
  exact this

/-! ## The immediate encoding -/

theorem immNum_classIdx (n : Nat) :
    (Reg.immNum n).classIdx =
      if n < 2^31 then .ok (1, n) else if n = 2^64 - 1 then .ok (1, 2^32 - 1) else .err := by
  simp only [Reg.classIdx]
  by_cases h1 : n < 2^31
  · have : n % 2^32 = n := by omega
    simp only [h1, or_true, if_true, this]
  · by_cases h2 : n = 2^64 - 1
    · subst h2; simp only [true_or, if_true]; rfl
    · simp only [h1, h2, or_self, if_false]

theorem immNum_serialize (n : Nat) :
    (Reg.immNum n).serialize =
      if n < 2^31 then .ok (1 :: le32 n) else if n = 2^64 - 1 then .ok [1, 255, 255, 255, 255] else .err := by
  simp only [Reg.serialize, immNum_classIdx]
  split
  · rfl
  · split
    · rfl
    · rfl

theorem rd32_allOnes : rd32 [255, 255, 255, 255] = 2^32 - 1 := by decide

/-! ## `combine`: the instruction that consumes an operand -/

theorem combineBind_ok {instrs : List Instr} {l r : Reg} {sc : Scope} {c : CE} (hr : r ≠ .none)
    (h : combineBind instrs l r sc = .ok c) :
    c.instrs = instrs ++ [{ res := c.reg, op := .bind, left := c.reg, right := r }] := by
  unfold combineBind at h
  cases hq : bindTarget l r sc with
  | panic => rw [hq] at h; cases h
  | err => rw [hq] at h; cases h
  | ok q =>
    obtain ⟨l', sc'⟩ := q
    rw [hq] at h
    simp only [bindEmit, hr, if_false] at h
    split at h
    · simp only [Out.ok.injEq] at h; subst h; rfl
    · cases h

theorem combine_ok {o : Op} {instrs : List Instr} {l r : Reg} {sc : Scope} {c : CE}
    (hb : o ≠ .bind) (h : combine o instrs l r sc = .ok c) :
    ∃ i, c.instrs = instrs ++ [i] ∧ i.left = l ∧ i.right = r ∧ i.res = c.reg := by
  cases o
  case bind => exact absurd rfl hb
  case «def» => simp [combine, unreachableP] at h
  all_goals
    simp only [combine] at h
    repeat' split at h
    all_goals cases h
    all_goals exact ⟨_, rfl, rfl, rfl, rfl⟩

/-! ## `defInstrs`, `updateType` -/

/-- the `Def` instruction emitted for a register with a numeric initial value -/
def defNum (reg : Reg) (n : Nat) : Instr := { res := reg, op := .def, left := reg, right := .immNum n }
def defBool (reg : Reg) (b : Bool) : Instr := { res := reg, op := .def, left := reg, right := .immBool b }

theorem defInstrs_mem_of_num {l : List (Name × Reg)} {name : Name} {reg : Reg} {n : Nat}
    (hm : (name, reg) ∈ l) (hrc : isRC reg = true) (ht : reg.getType = .num (some n)) :
    defNum reg n ∈ defInstrs l := by
  induction l with
  | nil => cases hm
  | cons p rest ih =>
    obtain ⟨s, x⟩ := p
    rcases List.mem_cons.mp hm with e | hm'
    · cases e
      cases reg <;> simp only [isRC, Reg.getType] at hrc ht <;> first | cases hrc | skip
      all_goals (subst ht; simp [defInstrs, defNum])
    · have := ih hm'
      simp only [defInstrs]
      split <;> simp [this]

theorem defInstrs_shape {l : List (Name × Reg)} {ins : Instr} (h : ins ∈ defInstrs l) :
    ∃ name reg, (name, reg) ∈ l ∧ isRC reg = true ∧
      ((∃ n, reg.getType = .num (some n) ∧ ins = defNum reg n) ∨
       (∃ b, reg.getType = .bool (some b) ∧ ins = defBool reg b)) := by
  induction l with
  | nil => cases h
  | cons p rest ih =>
    obtain ⟨s, x⟩ := p
    simp only [defInstrs] at h
    have tl : ins ∈ defInstrs rest → ∃ name reg, (name, reg) ∈ (s, x) :: rest ∧ isRC reg = true ∧
      ((∃ n, reg.getType = .num (some n) ∧ ins = defNum reg n) ∨
       (∃ b, reg.getType = .bool (some b) ∧ ins = defBool reg b)) := fun h' => by
      obtain ⟨nm, rg, hm, hh⟩ := ih h'
      exact ⟨nm, rg, by simp [hm], hh⟩
    split at h
    · rcases List.mem_cons.mp h with e | h'
      · subst e
        exact ⟨s, _, by simp, rfl, .inl ⟨_, rfl, rfl⟩⟩
      · exact tl h'
    · rcases List.mem_cons.mp h with e | h'
      · subst e
        exact ⟨s, _, by simp, rfl, .inl ⟨_, rfl, rfl⟩⟩
      · exact tl h'
    · rcases List.mem_cons.mp h with e | h'
      · subst e
        exact ⟨s, _, by simp, rfl, .inr ⟨_, rfl, rfl⟩⟩
      · exact tl h'
    · rcases List.mem_cons.mp h with e | h'
      · subst e
        exact ⟨s, _, by simp, rfl, .inr ⟨_, rfl, rfl⟩⟩
      · exact tl h'
    · exact tl h

theorem regGet_regSet_lit {n : Name} {r x : Reg} {l : List (Name × Reg)} (h : regGet n l = some x) :
    regGet n (regSet n r l) = some r ∧ (n, r) ∈ regSet n r l := by
  induction l with
  | nil => cases h
  | cons p rest ih =>
    obtain ⟨s, y⟩ := p
    simp only [regGet] at h
    by_cases e : s = n
    · subst e; simp [regSet, regGet]
    · simp only [e, if_false] at h
      have := ih h
      simp [regSet, regGet, e, this]

theorem updateType_ok {sc sc' : Scope} {n : Name} {t : Ty} {r : Reg}
    (h : sc.updateType n t = .ok (r, sc')) :
    sc'.get n = some r ∧ (n, r) ∈ sc'.named ∧ r.getType = t ∧ ¬ r = .none ∧
    (∃ old, sc.get n = some old ∧ isRC r = isRC old) := by
  unfold Scope.updateType at h
  split at h
  · cases h
  all_goals first
    | (rename_i hg
       simp only [Out.ok.injEq, Prod.mk.injEq] at h
       obtain ⟨rfl, rfl⟩ := h
       obtain ⟨h1, h2⟩ := regGet_regSet_lit (r := _) hg
       exact ⟨h1, h2, rfl, by simp, _, hg, rfl⟩)
    | cases h

/-! ## Serialization -/

/-- the three registers of an instruction -/
def Instr.regs (i : Instr) : List Reg := [i.res, i.left, i.right]

theorem immNum_classIdx_ok {n c i : Nat} (h : (Reg.immNum n).classIdx = .ok (c, i)) :
    c = 1 ∧ ((n < 2^31 ∧ i = n) ∨ (n = 2^64 - 1 ∧ i = 2^32 - 1)) := by
  rw [immNum_classIdx] at h
  split at h
  · cases h; exact ⟨rfl, .inl ⟨‹_›, rfl⟩⟩
  · split at h
    · cases h; exact ⟨rfl, .inr ⟨‹_›, rfl⟩⟩
    · cases h

theorem immNum_classIdx_big {n : Nat} (h1 : 2^31 ≤ n) (h2 : n ≠ 2^64 - 1) :
    (Reg.immNum n).classIdx = .err := by
  rw [immNum_classIdx, if_neg (by omega), if_neg h2]

theorem immNum_serialize_big {n : Nat} (h1 : 2^31 ≤ n) (h2 : n ≠ 2^64 - 1) :
    (Reg.immNum n).serialize = .err := by
  simp [Reg.serialize, immNum_classIdx_big h1 h2]

theorem Reg.classIdx_ne_panic {r : Reg} (h : r ≠ .none) : r.classIdx ≠ .panic := by
  cases r <;> simp only [Reg.classIdx] <;> first | exact absurd rfl h | (split <;> simp) | simp

theorem Reg.serialize_ne_panic {r : Reg} (h : r ≠ .none) : r.serialize ≠ .panic := by
  have := Reg.classIdx_ne_panic h
  unfold Reg.serialize
  cases hc : r.classIdx with
  | ok p => simp
  | err => simp
  | panic => exact absurd hc this

theorem serializeOp_ne_panic {o : Op} (h1 : o ≠ .and) (h2 : o ≠ .or) : ∃ c, serializeOp o = .ok c := by
  cases o <;> first | exact absurd rfl h1 | exact absurd rfl h2 | exact ⟨_, rfl⟩

/-- an instruction whose encoding cannot panic: no `Reg::None` operand, no unlowered `And`/`Or` -/
def Instr.clean (i : Instr) : Prop :=
  i.op ≠ .and ∧ i.op ≠ .or ∧ i.res ≠ .none ∧ i.left ≠ .none ∧ i.right ≠ .none

theorem Instr.serialize_ne_panic {i : Instr} (h : i.clean) : i.serialize ≠ .panic := by
  obtain ⟨h1, h2, h3, h4, h5⟩ := h
  obtain ⟨c, hc⟩ := serializeOp_ne_panic h1 h2
  have a := Reg.serialize_ne_panic h3
  have b := Reg.serialize_ne_panic h4
  have d := Reg.serialize_ne_panic h5
  unfold Instr.serialize
  rw [hc]
  cases h1 : i.res.serialize <;> cases h2 : i.left.serialize <;> cases h3 : i.right.serialize <;>
    simp_all

theorem serializeInstrs_ne_panic {is : List Instr} (h : ∀ i ∈ is, i.clean) :
    serializeInstrs is ≠ .panic := by
  induction is with
  | nil => simp [serializeInstrs]
  | cons i rest ih =>
    have a := Instr.serialize_ne_panic (h i (by simp))
    have b := ih (fun j hj => h j (by simp [hj]))
    simp only [serializeInstrs]
    cases h1 : i.serialize <;> cases h2 : serializeInstrs rest <;> simp_all

theorem serializeInstrs_ok_mem {is : List Instr} {b : Bytes} (h : serializeInstrs is = .ok b) :
    ∀ i ∈ is, ∃ ib, i.serialize = .ok ib := by
  induction is generalizing b with
  | nil => intro i hi; cases hi
  | cons j rest ih =>
    simp only [serializeInstrs] at h
    obtain ⟨jb, hj, h⟩ := Out.bind_eq_ok.mp h
    obtain ⟨rb, hr, -⟩ := Out.bind_eq_ok.mp h
    intro i hi
    rcases List.mem_cons.mp hi with e | hi'
    · subst e; exact ⟨jb, hj⟩
    · exact ih hr i hi'

/-- a register that makes the instruction's encoding fail makes it fail (or panic) as a whole -/
theorem Instr.serialize_ok_regs {i : Instr} {b : Bytes} (h : i.serialize = .ok b) :
    ∀ r ∈ i.regs, ∃ c x, r.classIdx = .ok (c, x) := by
  obtain ⟨o, c1, i1, c2, i2, c3, i3, -, e1, e2, e3, -⟩ := Instr.serialize_ok h
  intro r hr
  simp only [Instr.regs, List.mem_cons, List.not_mem_nil, or_false] at hr
  rcases hr with rfl | rfl | rfl
  · exact ⟨_, _, e1⟩
  · exact ⟨_, _, e2⟩
  · exact ⟨_, _, e3⟩

theorem Bin.serialize_ok {bin : Bin} {bytes : Bytes} (h : bin.serialize = .ok bytes) :
    ∃ ib, serializeInstrs bin.instrs = .ok ib ∧ bytes = bin.events.flatMap EvRec.serialize ++ ib := by
  unfold Bin.serialize at h
  obtain ⟨ib, h1, h2⟩ := Out.bind_eq_ok.mp h
  simp only [Out.pure_eq, Out.ok.injEq] at h2
  exact ⟨ib, h1, h2.symm⟩

theorem instrsMatch_getElem {is : List Instr} {ms : List Libccp.InstrMsg} (h : instrsMatch is ms) :
    ms.length = is.length ∧
    ∀ (k : Nat) i m, is[k]? = some i → ms[k]? = some m → instrMatch i m := by
  induction is generalizing ms with
  | nil =>
    cases ms with
    | nil => simp
    | cons m ms => simp [instrsMatch] at h
  | cons j rest ih =>
    cases ms with
    | nil => simp [instrsMatch] at h
    | cons m ms =>
      simp only [instrsMatch] at h
      obtain ⟨h1, h2⟩ := h
      obtain ⟨l, g⟩ := ih h2
      refine ⟨by simp [l], ?_⟩
      intro k i m' hi hm
      cases k with
      | zero => simp at hi hm; subst hi; subst hm; exact h1
      | succ k => simp at hi hm; exact g k i m' hi hm

/-! ## Symbolic evaluation of the parser -/

theorem tag_nil (inp : List Char) : tag [] inp = some ((), inp) := by simp [tag]
theorem tag_cons_nil (a : Char) (s : List Char) : tag (a :: s) [] = none := by simp [tag]
theorem tag_cons_cons (a b : Char) (s inp : List Char) :
    tag (a :: s) (b :: inp) = if a = b then tag s inp else none := by
  by_cases h : a = b <;> simp [tag, h]

/-! Unfolding lemmas restricted to inputs with a known first character -/
section
variable (c : Char) (cs : List Char)

theorem takeWhile1_cons (p : Char → Bool) : takeWhile1 p (c :: cs) =
    if p c then some (c :: (spanChars p cs).1, (spanChars p cs).2) else none := by
  simp only [takeWhile1, spanChars]
  split <;> simp

theorem takeWhile1_nil (p : Char → Bool) : takeWhile1 p [] = none := rfl

theorem num_cons : num (c :: cs) =
    if isAsciiDigit c then
      (if digitsVal (c :: (spanChars isAsciiDigit cs).1) < 2^64
       then some (digitsVal (c :: (spanChars isAsciiDigit cs).1), (spanChars isAsciiDigit cs).2) else none)
    else none := by
  have : digit1 = takeWhile1 isAsciiDigit := rfl
  simp only [num, this, takeWhile1_cons]
  by_cases h : isAsciiDigit c = true
  · simp only [h, if_true]
  · simp only [h]; rfl

theorem name_cons : name (c :: cs) =
    if isNameChar c then
      (if (c :: (spanChars isNameChar cs).1).all isAsciiDigit then none
       else if "__".toList.isPrefixOf (c :: (spanChars isNameChar cs).1) then none
       else some (c :: (spanChars isNameChar cs).1, (spanChars isNameChar cs).2))
    else none := by
  simp only [name, takeWhile1_cons]
  by_cases h : isNameChar c = true
  · simp only [h, if_true]
  · simp only [h]; rfl

theorem atom_cons : atom (c :: cs) =
    (match tag "true".toList (c :: cs) with
    | some (_, r) => some (.atom (.bool true), r)
    | none =>
    match tag "false".toList (c :: cs) with
    | some (_, r) => some (.atom (.bool false), r)
    | none =>
    match tag "+infinity".toList (c :: cs) with
    | some (_, r) => some (.atom (.num (2^64 - 1)), r)
    | none =>
    match num (c :: cs) with
    | some (n, r) => some (.atom (.num n), r)
    | none =>
    match name (c :: cs) with
    | some (s, r) => some (.atom (.name s), r)
    | none => none) := rfl

theorem command_cons : command (c :: cs) = (do
  let (_, r) ← tag "(".toList (c :: cs)
  let (_, r) ← ms0 r
  let (c, r) ← altTags [("fallthrough".toList, Command.fallthrough), ("report".toList, Command.report)] r
  let (_, r) ← ms0 r
  let (_, r) ← tag ")".toList r
  pure (.cmd c, r)) := rfl

theorem comment_cons : comment (c :: cs) = (do
  let (_, r) ← tag "#".toList (c :: cs)
  let (_, r) ← takeUntilNl r
  pure (.none, r)) := rfl

theorem expr_cons (fuel : Nat) : expr (fuel + 1) (c :: cs) =
    (let inp := skipSpace (c :: cs)
    let res : Option (Expr × List Char) :=
      match comment inp with
      | some x => some x
      | none =>
      match (do
          let (_, r) ← tag "(".toList inp
          let (_, r) ← ms0 r
          let (o, r) ← op r
          let (_, r) ← ms0 r
          let (l, r) ← expr fuel r
          let (_, r) ← ms0 r
          let (rt, r) ← expr fuel r
          let e ← checkExpr o l rt
          let (_, r) ← ms0 r
          let (_, r) ← tag ")".toList r
          pure (e, r) : Option (Expr × List Char)) with
      | some x => some x
      | none =>
      match command inp with
      | some x => some x
      | none => atom inp
    match res with
    | some (e, r) => some (e, skipSpace r)
    | none => none) := rfl

theorem expr_nil (fuel : Nat) : expr (fuel + 1) [] = none := by
  simp [expr, skipSpace, comment, tag, command, atom, num, digit1, takeWhile1, spanChars, name]

theorem decl_cons : decl (c :: cs) = (do
  let (_, r) ← ms0 (c :: cs)
  let (_, r) ← tag "(".toList r
  let (_, r) ← ms0 r
  let (v, r) : Bool × List Char :=
    match (do let (_, q) ← ms0 r; let (_, q) ← tag "volatile".toList q; let (_, q) ← ms0 q; pure q : Option (List Char)) with
    | some q => (true, q)
    | none => (false, r)
  let (n, r) ← name r
  let (_, r) ← ms0 r
  let (a, r) ← atom r
  let (_, r) ← ms0 r
  let (_, r) ← tag ")".toList r
  let (_, r) ← ms0 r
  pure ({ vol := v, var := n, init := initTy a }, r)) := rfl

theorem reportStruct_cons : reportStruct (c :: cs) = (do
  let (_, r) ← ms0 (c :: cs)
  let (_, r) ← tag "(".toList r
  let (_, r) ← ms0 r
  let (_, r) ← tag "Report".toList r
  let (ds, r) ← many1 decl r
  let (_, r) ← ms0 r
  let (_, r) ← tag ")".toList r
  let (_, r) ← ms0 r
  pure (ds, r)) := rfl

theorem many0_cons {α : Type} (p : Parser α) : many0 p (c :: cs) = manyLoop p (cs.length + 2) (c :: cs) [] := rfl

theorem many1_cons {α : Type} (p : Parser α) : many1 p (c :: cs) =
    (match p (c :: cs) with
    | none => none
    | some (a, r) => manyLoop p (r.length + 1) r [a]) := rfl

theorem manyLoop_cons {α : Type} (p : Parser α) (fuel : Nat) (acc : List α) :
    manyLoop p (fuel + 1) (c :: cs) acc =
    (match p (c :: cs) with
    | none => some (acc.reverse, c :: cs)
    | some (a, r) => if r.length = cs.length + 1 then none else manyLoop p fuel r (a :: acc)) := rfl

theorem manyLoop_nil {α : Type} (p : Parser α) (fuel : Nat) (acc : List α) :
    manyLoop p (fuel + 1) [] acc =
    (match p [] with
    | none => some (acc.reverse, [])
    | some (a, r) => if r.length = 0 then none else manyLoop p fuel r (a :: acc)) := rfl

theorem event_cons (fuel : Nat) : event fuel (c :: cs) = (do
  let (_, r) ← ms0 (c :: cs)
  let (_, r) ← tag "(".toList r
  let (_, r) ← ms0 r
  let (_, r) ← tag "when".toList r
  let (c, r) ← expr fuel r
  let (b, r) ← exprs fuel r
  let (_, r) ← ms0 r
  let (_, r) ← tag ")".toList r
  let (_, r) ← ms0 r
  pure ({ flag := c, body := b }, r)) := rfl

theorem event_nil (fuel : Nat) : event fuel [] = none := rfl

end

theorem skipSpace_numeral (ds rest : List Char) (hne : ds ≠ []) (hd : ∀ c ∈ ds, isAsciiDigit c = true) :
    skipSpace (ds ++ rest) = ds ++ rest := by
  cases ds with
  | nil => exact absurd rfl hne
  | cons d ds' =>
    have hdd : isAsciiDigit d = true := hd d (by simp)
    have : isSpace d = false := by
      rw [isAsciiDigit_iff] at hdd
      simp only [isSpace, Bool.or_eq_false_iff, decide_eq_false_iff_not]
      refine ⟨⟨⟨?_, ?_⟩, ?_⟩, ?_⟩ <;> (intro e; subst e; revert hdd; decide)
    simp [skipSpace, this]

theorem expr_numeral (f : Nat) (ds rest : List Char) (c : Char) (hc : isNameChar c = false) (hne : ds ≠ [])
    (hd : ∀ c ∈ ds, isAsciiDigit c = true) :
    expr (f + 1) (ds ++ c :: rest) =
      if digitsVal ds < 2^64 then some (.atom (.num (digitsVal ds)), skipSpace (c :: rest)) else none := by
  have hat := atom_numeral ds (c :: rest) hne hd (by intro c' h; simp at h; subst h; exact hc)
  cases ds with
  | nil => exact absurd rfl hne
  | cons d ds' =>
    have hdd : isAsciiDigit d = true := hd d (by simp)
    have hsk := skipSpace_numeral (d :: ds') (c :: rest) hne hd
    have t1 : tag "#".toList (d :: ds' ++ c :: rest) = none :=
      tag_cons_ne _ _ (digit_ne hdd (by decide))
    have t2 : tag "(".toList (d :: ds' ++ c :: rest) = none :=
      tag_cons_ne _ _ (digit_ne hdd (by decide))
    by_cases hlt : digitsVal (d :: ds') < 2^64
    · rw [if_pos hlt] at hat
      simp only [expr, hsk, comment, command, t1, t2, hat, Option.bind_eq_bind, Option.bind_none, if_pos hlt]
    · rw [if_neg hlt] at hat
      simp only [expr, hsk, comment, command, t1, t2, hat, Option.bind_eq_bind, Option.bind_none, if_neg hlt]

theorem nameChar_rparen : isNameChar ')' = false := by simp [isNameChar, isAlnumLowByte]

/-! ## The three template programs of the C14 oracle: parsing -/

/-- `(def (Report (x 0))) (when true (:= Report.x <LIT>))` -/
def tmplOperand (ds : List Char) : List Char :=
  "(def (Report (x 0))) (when true (:= Report.x ".toList ++ ds ++ "))".toList



theorem comment_nil : comment [] = none := rfl

theorem parseSource_of {src : List Char} {ds : List Decl} {rest : List Char} {evs : List Event}
    (h1 : defs src = some (ds, rest)) (h2 : events (src.length + 1) rest = some (evs, [])) :
    parseSource src = some (ds, evs.map fun e => { e with body := e.body.map desugar }) := by
  simp [parseSource, h1, h2]

theorem parseSource_none_of_events {src : List Char} {ds : List Decl} {rest : List Char}
    (h1 : defs src = some (ds, rest)) (h2 : events (src.length + 1) rest = none) :
    parseSource src = none := by
  simp [parseSource, h1, h2]

theorem parseSource_none_of_defs {src : List Char} (h1 : defs src = none) : parseSource src = none := by
  simp [parseSource, h1]

theorem digitsVal_zero : digitsVal ['0'] = 0 := by decide

/-- symbolic evaluation of the parser on an input whose head characters are literals -/
macro "parse_eval" "[" ts:Lean.Parser.Tactic.simpLemma,* "]" : tactic => `(tactic|
  simp only [defs, ms0, skipSpace, isSpace, tag_nil, tag_cons_cons, tag_cons_nil, Char.reduceEq, Char.reduceBEq,
    decide_true, decide_false, Bool.or_false, Bool.or_true, Bool.or_self, Bool.false_eq_true,
    if_true, if_false, Option.bind_eq_bind, Option.bind_some, Option.bind_none, Option.pure_def,
    String.reduceToList, many0_cons, many1_cons, manyLoop_cons, manyLoop_nil, decl_cons, reportStruct_cons,
    name_cons, atom_cons, num_cons, spanChars, expr_cons, expr_nil, event_cons, event_nil, events, exprs,
    command_cons, comment_cons, comment_nil, takeUntilNl, checkExpr, op, opTable, altTags,
    isNameChar, isAlnumLowByte, isAsciiDigit, Char.reduceToNat, Nat.reduceMod, Nat.reduceLeDiff, Char.reduceLE,
    Bool.and_self, Bool.and_true, Bool.and_false, Bool.true_and, Bool.false_and, Bool.or_false, Bool.false_or,
    Bool.true_or, List.isEmpty_cons, List.isEmpty_nil, List.all_cons, List.all_nil, initTy,
    List.isPrefixOf, List.reverse_nil, List.reverse_cons, List.map_cons, List.map_nil,
    List.cons_append, List.nil_append, Bool.not_true, Bool.not_false,
    digitsVal_zero, Nat.reducePow, Nat.reduceLT, List.append_nil, $ts,*])

theorem atom_infinity (rest : List Char) :
    atom ("+infinity".toList ++ rest) = some (.atom (.num (2^64 - 1)), rest) := by
  simp only [String.reduceToList, List.cons_append, List.nil_append]
  simp only [atom_cons, tag_cons_cons, tag_nil, Char.reduceEq, if_true, if_false, String.reduceToList]

theorem defs_operand (ds : List Char) :
    defs (tmplOperand ds) =
      some ([{ vol := false, var := "Report.x".toList, init := .num (some 0) }],
            "(when true (:= Report.x ".toList ++ ds ++ "))".toList) := by
  unfold tmplOperand
  simp only [String.reduceToList, List.cons_append, List.nil_append, List.append_assoc]
  parse_eval []

theorem events_operand_ok (ds : List Char) (hne : ds ≠ []) (hd : ∀ c ∈ ds, isAsciiDigit c = true)
    (hlt : digitsVal ds < 2^64) (f : Nat) :
    events (f + 2) ("(when true (:= Report.x ".toList ++ ds ++ "))".toList) =
      some ([{ flag := .atom (.bool true),
               body := [.sexp .bind (.atom (.name "Report.x".toList)) (.atom (.num (digitsVal ds)))] }], []) := by
  have hsk := fun rest => skipSpace_numeral ds rest hne hd
  have hex : ∀ f rest, expr (f + 1) (ds ++ ')' :: rest) = some (.atom (.num (digitsVal ds)), skipSpace (')' :: rest)) := by
    intro f rest
    have := expr_numeral f ds rest ')' nameChar_rparen hne hd
    rw [if_pos hlt] at this
    exact this
  simp only [String.reduceToList, List.cons_append, List.nil_append, List.append_assoc]
  parse_eval [hsk, hex]

theorem events_operand_big (ds : List Char) (hne : ds ≠ []) (hd : ∀ c ∈ ds, isAsciiDigit c = true)
    (hlt : ¬ digitsVal ds < 2^64) (f : Nat) :
    events (f + 2) ("(when true (:= Report.x ".toList ++ ds ++ "))".toList) = none := by
  have hsk := fun rest => skipSpace_numeral ds rest hne hd
  have hex : ∀ f rest, expr (f + 1) (ds ++ ')' :: rest) = none := by
    intro f rest
    have := expr_numeral f ds rest ')' nameChar_rparen hne hd
    rw [if_neg hlt] at this
    exact this
  simp only [String.reduceToList, List.cons_append, List.nil_append, List.append_assoc]
  parse_eval [hsk, hex]

theorem tmplOperand_length (ds : List Char) : (tmplOperand ds).length + 1 = (ds.length + 46) + 2 := by
  unfold tmplOperand
  have h1 : "(def (Report (x 0))) (when true (:= Report.x ".toList.length = 45 := by decide +kernel
  have h2 : "))".toList.length = 2 := by decide +kernel
  simp only [List.length_append, h1, h2]
  omega

theorem parse_operand (ds : List Char) (hne : ds ≠ []) (hd : ∀ c ∈ ds, isAsciiDigit c = true) :
    parseSource (tmplOperand ds) =
      if digitsVal ds < 2^64 then
      some ([{ vol := false, var := "Report.x".toList, init := .num (some 0) }],
            [{ flag := .atom (.bool true),
               body := [.sexp .bind (.atom (.name "Report.x".toList)) (.atom (.num (digitsVal ds)))] }])
      else none := by
  by_cases hlt : digitsVal ds < 2^64
  · rw [if_pos hlt]
    have h2 := events_operand_ok ds hne hd hlt (ds.length + 46)
    rw [← tmplOperand_length] at h2
    rw [parseSource_of (defs_operand ds) h2]
    simp [desugar]
  · rw [if_neg hlt]
    have h2 := events_operand_big ds hne hd hlt (ds.length + 46)
    rw [← tmplOperand_length] at h2
    exact parseSource_none_of_events (defs_operand ds) h2

/-- `(def (Report (x <LIT>))) (when true (report))` -/
def tmplDefinition (ds : List Char) : List Char :=
  "(def (Report (x ".toList ++ ds ++ "))) (when true (report))".toList

/-- the override template (the literal is the compile-time override `c = <LIT>`) -/
def tmplOverride : List Char := "(def (Report (x 0)) (c 0)) (when true (report))".toList

theorem defs_definition_ok (ds : List Char) (hne : ds ≠ []) (hd : ∀ c ∈ ds, isAsciiDigit c = true)
    (hlt : digitsVal ds < 2^64) :
    defs (tmplDefinition ds) =
      some ([{ vol := false, var := "Report.x".toList, init := .num (some (digitsVal ds)) }],
            "(when true (report))".toList) := by
  have hsk := fun rest => skipSpace_numeral ds rest hne hd
  have hat : ∀ rest, atom (ds ++ ')' :: rest) = some (.atom (.num (digitsVal ds)), ')' :: rest) := by
    intro rest
    have := atom_numeral ds (')' :: rest) hne hd (by intro c' h; simp at h; subst h; exact nameChar_rparen)
    rw [if_pos hlt] at this
    exact this
  unfold tmplDefinition
  simp only [String.reduceToList, List.cons_append, List.nil_append, List.append_assoc]
  parse_eval [hsk, hat]

theorem defs_definition_big (ds : List Char) (hne : ds ≠ []) (hd : ∀ c ∈ ds, isAsciiDigit c = true)
    (hlt : ¬ digitsVal ds < 2^64) :
    defs (tmplDefinition ds) = none := by
  have hsk := fun rest => skipSpace_numeral ds rest hne hd
  have hat : ∀ rest, atom (ds ++ ')' :: rest) = none := by
    intro rest
    have := atom_numeral ds (')' :: rest) hne hd (by intro c' h; simp at h; subst h; exact nameChar_rparen)
    rw [if_neg hlt] at this
    exact this
  unfold tmplDefinition
  simp only [String.reduceToList, List.cons_append, List.nil_append, List.append_assoc]
  parse_eval [hsk, hat]

theorem events_report (f : Nat) :
    events (f + 2) "(when true (report))".toList =
      some ([{ flag := .atom (.bool true), body := [.cmd .report] }], []) := by
  simp only [String.reduceToList]
  parse_eval []

theorem parse_definition (ds : List Char) (hne : ds ≠ []) (hd : ∀ c ∈ ds, isAsciiDigit c = true) :
    parseSource (tmplDefinition ds) =
      if digitsVal ds < 2^64 then
      some ([{ vol := false, var := "Report.x".toList, init := .num (some (digitsVal ds)) }],
            [{ flag := .atom (.bool true),
               body := [.sexp .bind (.atom (.name "__shouldReport".toList)) (.atom (.bool true))] }])
      else none := by
  by_cases hlt : digitsVal ds < 2^64
  · rw [if_pos hlt]
    have h2 := events_report ((tmplDefinition ds).length - 1)
    have : (tmplDefinition ds).length - 1 + 2 = (tmplDefinition ds).length + 1 := by
      have : 1 ≤ (tmplDefinition ds).length := by
        unfold tmplDefinition; simp only [List.length_append]
        have : "))) (when true (report))".toList.length = 24 := by decide +kernel
        omega
      omega
    rw [this] at h2
    rw [parseSource_of (defs_definition_ok ds hne hd hlt) h2]
    simp [desugar]
  · rw [if_neg hlt]
    exact parseSource_none_of_defs (defs_definition_big ds hne hd hlt)

theorem parse_override :
    parseSource tmplOverride =
      some ([{ vol := false, var := "Report.x".toList, init := .num (some 0) },
             { vol := false, var := "c".toList, init := .num (some 0) }],
            [{ flag := .atom (.bool true),
               body := [.sexp .bind (.atom (.name "__shouldReport".toList)) (.atom (.bool true))] }]) := by
  decide +kernel

/-! ## The scope of the template programs and their compilation -/

/-- the register file of `Scope::new()`: 15 primitives and 6 implicit registers, sorted by name -/
def baseLo : List (Name × Reg) :=
  [ ("Ack.bytes_acked".toList, .primitive 0 (.num none)),
    ("Ack.bytes_misordered".toList, .primitive 1 (.num none)),
    ("Ack.ecn_bytes".toList, .primitive 2 (.num none)),
    ("Ack.ecn_packets".toList, .primitive 3 (.num none)),
    ("Ack.lost_pkts_sample".toList, .primitive 4 (.num none)),
    ("Ack.now".toList, .primitive 5 (.num none)),
    ("Ack.packets_acked".toList, .primitive 6 (.num none)),
    ("Ack.packets_misordered".toList, .primitive 7 (.num none)),
    ("Cwnd".toList, .implicit 4 (.num none)),
    ("Flow.bytes_in_flight".toList, .primitive 8 (.num none)),
    ("Flow.bytes_pending".toList, .primitive 9 (.num none)),
    ("Flow.packets_in_flight".toList, .primitive 10 (.num none)),
    ("Flow.rate_incoming".toList, .primitive 11 (.num none)),
    ("Flow.rate_outgoing".toList, .primitive 12 (.num none)),
    ("Flow.rtt_sample_us".toList, .primitive 13 (.num none)),
    ("Flow.was_timeout".toList, .primitive 14 (.bool none)),
    ("Micros".toList, .implicit 3 (.num none)),
    ("Rate".toList, .implicit 5 (.num none)) ]
def baseHi : List (Name × Reg) :=
  [ ("__eventFlag".toList, .implicit 0 (.bool none)),
    ("__shouldContinue".toList, .implicit 1 (.bool none)),
    ("__shouldReport".toList, .implicit 2 (.bool none)) ]

theorem Scope.new_named_lit (uid : Nat) : (Scope.new uid).named = baseLo ++ baseHi := by
  show insertIndexed Reg.implicit implicitNames 0 (insertIndexed Reg.primitive primitiveNames 0 []) = _
  decide +kernel

/-- inserting into a register file split at the insertion point -/
theorem regInsert_split (name : Name) (r : Reg) (lo hi : List (Name × Reg))
    (hlo : lo.all (fun p => strLt p.1 name) = true)
    (hhi : (hi.head?.all fun p => !strLt p.1 name) = true) :
    regInsert name r (lo ++ hi) = lo ++ (name, r) :: hi := by
  induction lo with
  | nil =>
    cases hi with
    | nil => rfl
    | cons p hi' =>
      obtain ⟨s, x⟩ := p
      simp only [List.head?_cons, Option.all_some, Bool.not_eq_true'] at hhi
      simp [regInsert, hhi]
  | cons p lo' ih =>
    obtain ⟨s, x⟩ := p
    simp only [List.all_cons, Bool.and_eq_true] at hlo
    simp [regInsert, hlo.1, ih hlo.2]

theorem regGet_append_of_all_ne (name : Name) (lo hi : List (Name × Reg))
    (hlo : lo.all (fun p => p.1 != name) = true) : regGet name (lo ++ hi) = regGet name hi := by
  induction lo with
  | nil => rfl
  | cons p lo' ih =>
    obtain ⟨s, x⟩ := p
    simp only [List.all_cons, Bool.and_eq_true, bne_iff_ne, ne_eq] at hlo
    simp [regGet, hlo.1, ih hlo.2]

theorem defInstrs_append (a b : List (Name × Reg)) : defInstrs (a ++ b) = defInstrs a ++ defInstrs b := by
  induction a with
  | nil => rfl
  | cons p a' ih =>
    obtain ⟨s, x⟩ := p
    simp only [List.cons_append, defInstrs]
    split <;> simp [ih]

theorem defInstrs_baseLo : defInstrs baseLo = [] := by decide +kernel
theorem defInstrs_baseHi : defInstrs baseHi = [] := by decide +kernel

/-- the scope after declaring `Report.x` with initial type `t` -/
def scopeX (t : Ty) : Scope :=
  { uid := 1, named := baseLo ++ ("Report.x".toList, .report 0 t false) :: baseHi,
    numControl := 0, numLocal := 0, numPerm := 1, tmp := [] }

theorem declare_x (t : Ty) :
    declareAll (Scope.new 1) [{ vol := false, var := "Report.x".toList, init := t }] = .ok (scopeX t) := by
  have h1 : "Report.".toList.isPrefixOf "Report.x".toList = true := by decide +kernel
  have hins := regInsert_split "Report.x".toList (.report 0 t false) baseLo baseHi (by decide +kernel) (by decide +kernel)
  have hnew : Scope.new 1 = { uid := 1, named := baseLo ++ baseHi, numControl := 0, numLocal := 0, numPerm := 0, tmp := [] } := by
    rw [← Scope.new_named_lit 1]; rfl
  rw [hnew]
  simp only [declareAll, List.filter, h1, Bool.not_true, List.length_cons, List.length_nil,
    List.foldlM_cons, List.foldlM_nil, Scope.newReport, hins, incU8P, scopeX]
  simp


theorem scopeX_get_x (t : Ty) : (scopeX t).get "Report.x".toList = some (.report 0 t false) := by
  simp only [Scope.get, scopeX]
  rw [regGet_append_of_all_ne _ _ _ (by decide +kernel)]
  simp [regGet]

theorem scopeX_get_flag (t : Ty) : (scopeX t).get "__eventFlag".toList = some (.implicit 0 (.bool none)) := by
  simp only [Scope.get, scopeX]
  rw [regGet_append_of_all_ne _ _ _ (by decide +kernel)]
  have h : ¬ "Report.x".toList = "__eventFlag".toList := by decide +kernel
  simp only [regGet, h, if_false]
  decide +kernel

theorem scopeX_defInstrs (n : Nat) :
    defInstrs (scopeX (.num (some n))).named = [defNum (.report 0 (.num (some n)) false) n] := by
  simp only [scopeX, defInstrs_append, defInstrs_baseLo, defInstrs, defInstrs_baseHi, defNum, List.nil_append]

def flagReg : Reg := .implicit 0 (.bool none)
def flagBind : Instr := { res := flagReg, op := .bind, left := flagReg, right := .immBool true }

theorem compileProg_operand (n : Nat) :
    compileProg [{ flag := .atom (.bool true),
                   body := [.sexp .bind (.atom (.name "Report.x".toList)) (.atom (.num n))] }]
        (scopeX (.num (some 0)))
      = .ok ({ events := [⟨1, 1, 2, 1⟩],
               instrs := [defNum (.report 0 (.num (some 0)) false) 0, flagBind,
                          { res := .report 0 (.num (some 0)) false, op := .bind,
                            left := .report 0 (.num (some 0)) false, right := .immNum n }] },
             scopeX (.num (some 0))) := by
  have hc : (scopeX (.num (some 0))).clearTmps = scopeX (.num (some 0)) := rfl
  simp only [compileProg, scopeX_defInstrs, compileEvents, compileFlag, compileBody, compileExpr, compileAtom,
    hc, scopeX_get_x, scopeX_get_flag, unwrapP, combine, combineBind, bindTarget, bindEmit, Reg.getType, isRC, isTIL,
    Out.bind_ok, Out.pure_eq, List.length_cons, List.length_nil, List.nil_append, List.append_nil,
    List.cons_append, reduceCtorEq, if_false, if_true, Bool.true_or, flagBind, flagReg]

def reportReg : Reg := .implicit 2 (.bool none)
def reportBind : Instr := { res := reportReg, op := .bind, left := reportReg, right := .immBool true }

theorem scopeX_get_report (t : Ty) : (scopeX t).get "__shouldReport".toList = some reportReg := by
  simp only [Scope.get, scopeX]
  rw [regGet_append_of_all_ne _ _ _ (by decide +kernel)]
  have h : ¬ "Report.x".toList = "__shouldReport".toList := by decide +kernel
  simp only [regGet, h, if_false]
  decide +kernel

theorem compileProg_definition (n : Nat) :
    compileProg [{ flag := .atom (.bool true),
                   body := [.sexp .bind (.atom (.name "__shouldReport".toList)) (.atom (.bool true))] }]
        (scopeX (.num (some n)))
      = .ok ({ events := [⟨1, 1, 2, 1⟩],
               instrs := [defNum (.report 0 (.num (some n)) false) n, flagBind, reportBind] },
             scopeX (.num (some n))) := by
  have hc : (scopeX (.num (some n))).clearTmps = scopeX (.num (some n)) := rfl
  simp only [compileProg, scopeX_defInstrs, compileEvents, compileFlag, compileBody, compileExpr, compileAtom,
    hc, scopeX_get_report, scopeX_get_flag, unwrapP, combine, combineBind, bindTarget, bindEmit, Reg.getType, isRC, isTIL,
    Out.bind_ok, Out.pure_eq, List.length_cons, List.length_nil, List.nil_append, List.append_nil,
    List.cons_append, reduceCtorEq, if_false, if_true, Bool.true_or, Bool.or_true, Bool.false_or, flagBind, flagReg,
    reportBind, reportReg]

/-- the scope after declaring `Report.x` and `c`, `c` having recorded type `t` -/
def scopeXC (t : Ty) : Scope :=
  { uid := 1,
    named := (baseLo ++ ("Report.x".toList, .report 0 (.num (some 0)) false) :: baseHi) ++
               [("c".toList, .control 0 t false)],
    numControl := 1, numLocal := 0, numPerm := 1, tmp := [] }

theorem declare_xc :
    declareAll (Scope.new 1) [{ vol := false, var := "Report.x".toList, init := .num (some 0) },
                              { vol := false, var := "c".toList, init := .num (some 0) }]
      = .ok (scopeXC (.num (some 0))) := by
  decide +kernel

theorem regSet_append_of_all_ne (name : Name) (r : Reg) (lo hi : List (Name × Reg))
    (hlo : lo.all (fun p => p.1 != name) = true) : regSet name r (lo ++ hi) = lo ++ regSet name r hi := by
  induction lo with
  | nil => rfl
  | cons p lo' ih =>
    obtain ⟨s, x⟩ := p
    simp only [List.all_cons, Bool.and_eq_true, bne_iff_ne, ne_eq] at hlo
    simp [regSet, hlo.1, ih hlo.2]

theorem applyUpdates_c (v : Nat) :
    applyUpdates (scopeXC (.num (some 0))) [("c".toList, v)] = scopeXC (.num (some v)) := by
  have hne : (baseLo ++ ("Report.x".toList, Reg.report 0 (.num (some 0)) false) :: baseHi).all
      (fun p => p.1 != "c".toList) = true := by decide +kernel
  simp only [applyUpdates, Scope.updateType, scopeXC, regGet_append_of_all_ne _ _ _ hne,
    regSet_append_of_all_ne _ _ _ _ hne, regGet, regSet, if_true]


theorem regGet_append_of_some {name : Name} {r : Reg} {lo : List (Name × Reg)} (hi : List (Name × Reg))
    (h : regGet name lo = some r) : regGet name (lo ++ hi) = some r := by
  induction lo with
  | nil => cases h
  | cons p lo' ih =>
    obtain ⟨s, x⟩ := p
    simp only [regGet, List.cons_append] at h ⊢
    split
    · simpa [*] using h
    · simp only [*, if_false] at h; exact ih h

theorem scopeXC_get_flag (t : Ty) : (scopeXC t).get "__eventFlag".toList = some flagReg := by
  simp only [Scope.get, scopeXC]
  exact regGet_append_of_some _ (by decide +kernel)

theorem scopeXC_get_report (t : Ty) : (scopeXC t).get "__shouldReport".toList = some reportReg := by
  simp only [Scope.get, scopeXC]
  exact regGet_append_of_some _ (by decide +kernel)

theorem scopeXC_defInstrs (v : Nat) :
    defInstrs (scopeXC (.num (some v))).named =
      [defNum (.report 0 (.num (some 0)) false) 0, defNum (.control 0 (.num (some v)) false) v] := by
  simp only [scopeXC, defInstrs_append, defInstrs_baseLo, defInstrs, defInstrs_baseHi, defNum, List.nil_append,
    List.cons_append, List.append_nil]

theorem compileProg_override (v : Nat) :
    compileProg [{ flag := .atom (.bool true),
                   body := [.sexp .bind (.atom (.name "__shouldReport".toList)) (.atom (.bool true))] }]
        (scopeXC (.num (some v)))
      = .ok ({ events := [⟨2, 1, 3, 1⟩],
               instrs := [defNum (.report 0 (.num (some 0)) false) 0,
                          defNum (.control 0 (.num (some v)) false) v, flagBind, reportBind] },
             scopeXC (.num (some v))) := by
  have hc : (scopeXC (.num (some v))).clearTmps = scopeXC (.num (some v)) := rfl
  simp only [compileProg, scopeXC_defInstrs, compileEvents, compileFlag, compileBody, compileExpr, compileAtom,
    hc, scopeXC_get_report, scopeXC_get_flag, unwrapP, combine, combineBind, bindTarget, bindEmit, Reg.getType, isRC, isTIL,
    Out.bind_ok, Out.pure_eq, List.length_cons, List.length_nil, List.nil_append, List.append_nil,
    List.cons_append, reduceCtorEq, if_false, if_true, Bool.true_or, Bool.or_true, Bool.false_or, flagBind, flagReg,
    reportBind, reportReg]

/-! ## Serialization of the template programs -/

theorem ser_report0 (t : Ty) : (Reg.report 0 t false).serialize = .ok [6, 0, 0, 0, 0] := by
  simp [Reg.serialize, Reg.classIdx]; decide
theorem ser_control0 (t : Ty) : (Reg.control 0 t false).serialize = .ok [0, 0, 0, 0, 0] := by
  simp [Reg.serialize, Reg.classIdx]; decide
theorem ser_flagReg : flagReg.serialize = .ok [2, 0, 0, 0, 0] := by decide
theorem ser_reportReg : reportReg.serialize = .ok [2, 2, 0, 0, 0] := by decide
theorem ser_true : (Reg.immBool true).serialize = .ok [1, 1, 0, 0, 0] := by decide
theorem ser_zero : (Reg.immNum 0).serialize = .ok [1, 0, 0, 0, 0] := by decide


theorem byte_one : byte 1 = 1 := rfl
theorem byte_two : byte 2 = 2 := rfl

def operandBin (n : Nat) : Bin :=
  { events := [⟨1, 1, 2, 1⟩],
    instrs := [defNum (.report 0 (.num (some 0)) false) 0, flagBind,
               { res := .report 0 (.num (some 0)) false, op := .bind,
                 left := .report 0 (.num (some 0)) false, right := .immNum n }] }

/-- the first 59 bytes of the operand template's image: the event record, `DEF Report.x 0`, the flag
instruction, and opcode/result/left of the body instruction -/
def operandPre : Bytes :=
  [1,0,0,0, 1,0,0,0, 2,0,0,0, 1,0,0,0,
   2, 6,0,0,0,0, 6,0,0,0,0, 1,0,0,0,0,
   1, 2,0,0,0,0, 2,0,0,0,0, 1,1,0,0,0,
   1, 6,0,0,0,0, 6,0,0,0,0]

theorem serialize_operandBin (n : Nat) (imm : Bytes) (h : (Reg.immNum n).serialize = .ok imm) :
    (operandBin n).serialize = .ok (operandPre ++ imm) := by
  have e : EvRec.serialize ⟨1, 1, 2, 1⟩ = [1,0,0,0, 1,0,0,0, 2,0,0,0, 1,0,0,0] := by decide
  simp only [operandBin, Bin.serialize, serializeInstrs, Instr.serialize, defNum, flagBind, serializeOp,
    ser_report0, ser_flagReg, ser_true, ser_zero, h, Out.bind_ok, Out.pure_eq, List.flatMap_cons, List.flatMap_nil, e]
  simp only [byte_one, byte_two, operandPre, List.cons_append, List.nil_append, List.append_nil, List.append_assoc]

theorem serialize_operandBin_err (n : Nat) (h : (Reg.immNum n).serialize = .err) :
    (operandBin n).serialize = .err := by
  simp only [operandBin, Bin.serialize, serializeInstrs, Instr.serialize, defNum, flagBind, serializeOp,
    ser_report0, ser_flagReg, ser_true, ser_zero, h, Out.bind_ok, Out.pure_eq, Out.bind_err]

def definitionBin (n : Nat) : Bin :=
  { events := [⟨1, 1, 2, 1⟩],
    instrs := [defNum (.report 0 (.num (some n)) false) n, flagBind, reportBind] }

/-- bytes 0–26 of the definition template's image: the event record and opcode/result/left of `DEF Report.x` -/
def definitionPre : Bytes :=
  [1,0,0,0, 1,0,0,0, 2,0,0,0, 1,0,0,0,
   2, 6,0,0,0,0, 6,0,0,0,0]

/-- the flag and report instructions -/
def tailInstrs : Bytes :=
  [1, 2,0,0,0,0, 2,0,0,0,0, 1,1,0,0,0,
   1, 2,2,0,0,0, 2,2,0,0,0, 1,1,0,0,0]

theorem serialize_definitionBin (n : Nat) (imm : Bytes) (h : (Reg.immNum n).serialize = .ok imm) :
    (definitionBin n).serialize = .ok (definitionPre ++ imm ++ tailInstrs) := by
  have e : EvRec.serialize ⟨1, 1, 2, 1⟩ = [1,0,0,0, 1,0,0,0, 2,0,0,0, 1,0,0,0] := by decide
  simp only [definitionBin, Bin.serialize, serializeInstrs, Instr.serialize, defNum, flagBind, reportBind, serializeOp,
    ser_report0, ser_flagReg, ser_reportReg, ser_true, h, Out.bind_ok, Out.pure_eq, List.flatMap_cons, List.flatMap_nil, e]
  simp only [byte_one, byte_two, definitionPre, tailInstrs, List.cons_append, List.nil_append, List.append_nil, List.append_assoc]

theorem serialize_definitionBin_err (n : Nat) (h : (Reg.immNum n).serialize = .err) :
    (definitionBin n).serialize = .err := by
  simp only [definitionBin, Bin.serialize, serializeInstrs, Instr.serialize, defNum, flagBind, reportBind, serializeOp,
    ser_report0, ser_flagReg, ser_reportReg, ser_true, h, Out.bind_ok, Out.pure_eq, Out.bind_err]

def overrideBin (v : Nat) : Bin :=
  { events := [⟨2, 1, 3, 1⟩],
    instrs := [defNum (.report 0 (.num (some 0)) false) 0,
               defNum (.control 0 (.num (some v)) false) v, flagBind, reportBind] }

/-- bytes 0–42 of the override template's image: the event record, `DEF Report.x 0`, and
opcode/result/left of `DEF c` -/
def overridePre : Bytes :=
  [2,0,0,0, 1,0,0,0, 3,0,0,0, 1,0,0,0,
   2, 6,0,0,0,0, 6,0,0,0,0, 1,0,0,0,0,
   2, 0,0,0,0,0, 0,0,0,0,0]

theorem serialize_overrideBin (v : Nat) (imm : Bytes) (h : (Reg.immNum v).serialize = .ok imm) :
    (overrideBin v).serialize = .ok (overridePre ++ imm ++ tailInstrs) := by
  have e : EvRec.serialize ⟨2, 1, 3, 1⟩ = [2,0,0,0, 1,0,0,0, 3,0,0,0, 1,0,0,0] := by decide
  simp only [overrideBin, Bin.serialize, serializeInstrs, Instr.serialize, defNum, flagBind, reportBind, serializeOp,
    ser_report0, ser_control0, ser_flagReg, ser_reportReg, ser_true, ser_zero, h, Out.bind_ok, Out.pure_eq,
    List.flatMap_cons, List.flatMap_nil, e]
  simp only [byte_one, byte_two, overridePre, tailInstrs, List.cons_append, List.nil_append, List.append_nil, List.append_assoc]

theorem serialize_overrideBin_err (v : Nat) (h : (Reg.immNum v).serialize = .err) :
    (overrideBin v).serialize = .err := by
  simp only [overrideBin, Bin.serialize, serializeInstrs, Instr.serialize, defNum, flagBind, reportBind, serializeOp,
    ser_report0, ser_control0, ser_flagReg, ser_reportReg, ser_true, ser_zero, h, Out.bind_ok, Out.pure_eq, Out.bind_err]

end Portus.Lang
