import PortusModel.Lemmas.CompileInv
/-! The parser never produces `Op::Def` (I4) — needed for C10. -/
namespace Portus.Lang
open Portus

theorem altTags_mem {α : Type} (tbl : List (List Char × α)) (inp : List Char) (a : α) (r : List Char)
    (h : altTags tbl inp = some (a, r)) : ∃ s, (s, a) ∈ tbl := by
  induction tbl with
  | nil => simp [altTags] at h
  | cons p rest ih =>
    obtain ⟨s, x⟩ := p
    simp only [altTags] at h
    split at h
    · simp at h; exact ⟨s, by simp [h.1]⟩
    · obtain ⟨s', hs'⟩ := ih h
      exact ⟨s', by simp [hs']⟩

theorem op_ne_def (inp : List Char) (o : Op) (r : List Char) (h : op inp = some (o, r)) : o ≠ .def := by
  obtain ⟨s, hs⟩ := altTags_mem opTable inp o r h
  have : ∀ p ∈ opTable, p.2 ≠ Op.def := by decide
  exact this (s, o) hs

theorem atom_NoDef (inp : List Char) (e : Expr) (r : List Char) (h : atom inp = some (e, r)) : NoDefE e := by
  unfold atom at h
  repeat' split at h
  all_goals (first | (simp at h; obtain ⟨rfl, _⟩ := h; simp [NoDefE]) | simp at h)

theorem command_NoDef (inp : List Char) (e : Expr) (r : List Char) (h : command inp = some (e, r)) : NoDefE e := by
  unfold command at h
  simp only [Option.bind_eq_bind, Option.bind_eq_some_iff] at h
  obtain ⟨_, _, _, _, _, _, _, _, _, _, h⟩ := h
  simp at h
  obtain ⟨rfl, _⟩ := h
  simp [NoDefE]

theorem comment_NoDef (inp : List Char) (e : Expr) (r : List Char) (h : comment inp = some (e, r)) : NoDefE e := by
  unfold comment at h
  simp only [Option.bind_eq_bind, Option.bind_eq_some_iff] at h
  obtain ⟨_, _, _, _, h⟩ := h
  simp at h
  obtain ⟨rfl, _⟩ := h
  simp [NoDefE]

theorem checkExpr_eq {o : Op} {l r e : Expr} (h : checkExpr o l r = some e) : e = .sexp o l r := by
  unfold checkExpr at h
  repeat' split at h
  all_goals (first | (simp at h; exact h.symm) | simp at h)

theorem expr_NoDef (fuel : Nat) (inp : List Char) (e : Expr) (r : List Char)
    (h : expr fuel inp = some (e, r)) : NoDefE e := by
  induction fuel generalizing inp e r with
  | zero => simp [expr] at h
  | succ k ih =>
    unfold expr at h
    simp only at h
    split at h
    · rename_i e' r' hres
      simp at h
      obtain ⟨rfl, _⟩ := h
      split at hres
      · rename_i x hc
        injection hres with hres
        subst hres
        exact comment_NoDef _ _ _ hc
      · split at hres
        · rename_i x hs
          injection hres with hres
          subst hres
          simp only [Option.bind_eq_bind, Option.bind_eq_some_iff, Option.pure_def] at hs
          obtain ⟨_, _, _, _, ⟨o, r2⟩, ho, _, _, ⟨l, r4⟩, hl, _, _, ⟨rt, r6⟩, hrt, e2, hce, _, _, _, _, hfin⟩ := hs
          simp at hfin
          obtain ⟨rfl, _⟩ := hfin
          rw [checkExpr_eq hce]
          exact ⟨op_ne_def _ _ _ ho, ih _ _ _ hl, ih _ _ _ hrt⟩
        · split at hres
          · rename_i x hc
            injection hres with hres
            subst hres
            exact command_NoDef _ _ _ hc
          · exact atom_NoDef _ _ _ hres
    · simp at h

theorem manyLoop_all {α : Type} (p : Parser α) (P : α → Prop)
    (hp : ∀ inp a r, p inp = some (a, r) → P a) (fuel : Nat) (inp : List Char) (acc : List α)
    (hacc : ∀ x ∈ acc, P x) (l : List α) (r : List Char) (h : manyLoop p fuel inp acc = some (l, r)) :
    ∀ x ∈ l, P x := by
  induction fuel generalizing inp acc with
  | zero =>
    simp [manyLoop] at h
    obtain ⟨rfl, _⟩ := h
    intro x hx; exact hacc x (by simpa using hx)
  | succ k ih =>
    simp only [manyLoop] at h
    split at h
    · simp at h
      obtain ⟨rfl, _⟩ := h
      intro x hx; exact hacc x (by simpa using hx)
    · rename_i a r' hpa
      split at h
      · simp at h
      · exact ih r' (a :: acc) (by
          intro x hx
          simp only [List.mem_cons] at hx
          rcases hx with rfl | hx
          · exact hp _ _ _ hpa
          · exact hacc x hx) h

theorem many1_all {α : Type} (p : Parser α) (P : α → Prop)
    (hp : ∀ inp a r, p inp = some (a, r) → P a) (inp : List Char) (l : List α) (r : List Char)
    (h : many1 p inp = some (l, r)) : ∀ x ∈ l, P x := by
  unfold many1 at h
  split at h
  · simp at h
  · rename_i a r' hpa
    exact manyLoop_all p P hp _ _ [a] (by
      intro x hx; simp at hx; subst hx; exact hp _ _ _ hpa) l r h

theorem event_NoDef (fuel : Nat) (inp : List Char) (ev : Event) (r : List Char)
    (h : event fuel inp = some (ev, r)) : NoDefEv ev := by
  unfold event at h
  simp only [Option.bind_eq_bind, Option.bind_eq_some_iff, Option.pure_def] at h
  obtain ⟨_, _, _, _, _, _, _, _, ⟨c, r1⟩, hc, ⟨b, r2⟩, hb, _, _, _, _, _, _, hfin⟩ := h
  simp at hfin
  obtain ⟨rfl, _⟩ := hfin
  exact ⟨expr_NoDef _ _ _ _ hc, many1_all (expr fuel) NoDefE (fun i a r h => expr_NoDef _ _ _ _ h) _ _ _ hb⟩

theorem events_NoDef (fuel : Nat) (inp : List Char) (evs : List Event) (r : List Char)
    (h : events fuel inp = some (evs, r)) : ∀ ev ∈ evs, NoDefEv ev := by
  unfold events at h
  refine many1_all _ NoDefEv ?_ _ _ _ h
  intro i a r' hp
  simp only [Option.bind_eq_bind, Option.bind_eq_some_iff, Option.pure_def] at hp
  obtain ⟨_, _, ⟨e, r1⟩, he, _, _, hfin⟩ := hp
  simp at hfin
  obtain ⟨rfl, _⟩ := hfin
  exact event_NoDef _ _ _ _ he

theorem desugar_NoDef (e : Expr) (h : NoDefE e) : NoDefE (desugar e) := by
  induction e with
  | atom p => simpa [desugar] using h
  | none => simpa [desugar] using h
  | cmd c => cases c <;> simp [desugar, NoDefE]
  | sexp o l r ihl ihr =>
    obtain ⟨ho, hl, hr⟩ := h
    simp only [desugar]
    exact ⟨ho, ihl hl, ihr hr⟩

/-- whatever the source text, the events the parser hands to the compiler contain no `Op::Def` -/
theorem parseSource_NoDef (src : List Char) (ds : List Decl) (evs : List Event)
    (h : parseSource src = some (ds, evs)) : ∀ ev ∈ evs, NoDefEv ev := by
  unfold parseSource at h
  simp only [Option.bind_eq_bind, Option.bind_eq_some_iff, Option.pure_def] at h
  obtain ⟨⟨ds', rest⟩, _, ⟨evs', rest'⟩, hev, hfin⟩ := h
  split at hfin
  · simp at hfin
  · simp at hfin
    obtain ⟨_, rfl⟩ := hfin
    intro ev hev'
    simp only [List.mem_map] at hev'
    obtain ⟨ev0, hm, rfl⟩ := hev'
    obtain ⟨h1, h2⟩ := events_NoDef _ _ _ _ hev ev0 hm
    refine ⟨h1, ?_⟩
    intro e he
    simp only [List.mem_map] at he
    obtain ⟨e0, hm0, rfl⟩ := he
    exact desugar_NoDef e0 (h2 e0 hm0)

end Portus.Lang
