import PortusModel.Lang.Render
import PortusModel.Lemmas.Literals
import PortusModel.Lemmas.ParseInv
/-!
# Every rendering parses back to its syntax tree (C20, second part)
-/
namespace Portus.Lang
set_option linter.unusedSimpArgs false
set_option linter.unusedVariables false

/-! ## Characters -/

theorem space_not_nameChar {c : Char} (h : isSpace c = true) : isNameChar c = false := by
  simp only [isSpace, Bool.or_eq_true, decide_eq_true_eq] at h
  rcases h with ((rfl | rfl) | rfl) | rfl <;> decide

theorem nameChar_not_space {c : Char} (h : isNameChar c = true) : isSpace c = false := by
  cases hs : isSpace c with
  | false => rfl
  | true => rw [space_not_nameChar hs] at h; cases h

theorem nameChar_ne {c d : Char} (h : isNameChar c = true) (hd : isNameChar d = false) : c ≠ d := by
  intro e; subst e; rw [h] at hd; cases hd

/-! ## Whitespace -/

theorem Ws.nil : Ws [] := rfl

theorem Ws.cons {c : Char} {w : List Char} (hc : isSpace c = true) (hw : Ws w) : Ws (c :: w) := by
  simp only [Ws, List.all_cons, hc, Bool.true_and]; exact hw

theorem Ws.head {c : Char} {w : List Char} (h : Ws (c :: w)) : isSpace c = true := by
  simp only [Ws, List.all_cons, Bool.and_eq_true] at h; exact h.1

theorem Ws.tail {c : Char} {w : List Char} (h : Ws (c :: w)) : Ws w := by
  simp only [Ws, List.all_cons, Bool.and_eq_true] at h; exact h.2

theorem skipSpace_ws {w : List Char} (hw : Ws w) (r : List Char) : skipSpace (w ++ r) = skipSpace r := by
  induction w with
  | nil => rfl
  | cons c w ih => simp only [List.cons_append, skipSpace, hw.head, if_true]; exact ih hw.tail

theorem skipSpace_cons_of_not_space {c : Char} (h : isSpace c = false) (cs : List Char) :
    skipSpace (c :: cs) = c :: cs := by
  simp [skipSpace, h]

theorem skipSpace_idem (l : List Char) : skipSpace (skipSpace l) = skipSpace l := by
  induction l with
  | nil => rfl
  | cons c cs ih =>
    by_cases h : isSpace c = true
    · simp only [skipSpace, h, if_true]; exact ih
    · simp only [skipSpace, h]; simp [skipSpace, h]

theorem skipSpace_ws_cons {w : List Char} (hw : Ws w) {c : Char} (h : isSpace c = false) (cs : List Char) :
    skipSpace (w ++ c :: cs) = c :: cs := by
  rw [skipSpace_ws hw, skipSpace_cons_of_not_space h]

theorem noNameHead_cons {c : Char} (h : isNameChar c = false) (cs : List Char) : NoNameHead (c :: cs) := by
  simp [NoNameHead, noNameHead, h]

theorem NoNameHead.head {l : List Char} (h : NoNameHead l) : ∀ c, l.head? = some c → isNameChar c = false := by
  intro c hc
  cases l with
  | nil => cases hc
  | cons d ds =>
    simp only [List.head?_cons, Option.some.injEq] at hc; subst hc
    simpa [NoNameHead, noNameHead] using h

theorem noNameHead_ws_append {w x : List Char} (hw : Ws w) (h : w ≠ [] ∨ NoNameHead x) : NoNameHead (w ++ x) := by
  cases w with
  | nil =>
    rcases h with h | h
    · exact absurd rfl h
    · exact h
  | cons c w => exact noNameHead_cons (space_not_nameChar hw.head) _

/-! ## P1: the operator table -/

/-- the two strings differ at a position where both are defined -/
def diverge : List Char → List Char → Bool
  | a :: s, b :: t => a != b || diverge s t
  | _, _ => false

theorem tag_self (s rest : List Char) : tag s (s ++ rest) = some ((), rest) := by
  induction s with
  | nil => exact tag_nil _
  | cons a s ih => rw [List.cons_append, tag_cons_cons, if_pos rfl]; exact ih

theorem tag_diverge {s t : List Char} (h : diverge s t = true) (rest : List Char) : tag s (t ++ rest) = none := by
  induction s generalizing t with
  | nil => cases t <;> simp [diverge] at h
  | cons a s ih =>
    cases t with
    | nil => simp [diverge] at h
    | cons b t =>
      rw [List.cons_append, tag_cons_cons]
      by_cases e : a = b
      · subst e
        rw [if_pos rfl]
        simp only [diverge, bne_self_eq_false, Bool.false_or] at h
        exact ih h
      · rw [if_neg e]

/-- an `alt` of `tag`s in which every alternative diverges from every later one returns, on the spelling
of an entry followed by anything, that entry -/
theorem altTags_of_mem {α : Type} (tbl : List (List Char × α))
    (hp : tbl.Pairwise (fun p q => diverge p.1 q.1 = true)) :
    ∀ p ∈ tbl, ∀ rest, altTags tbl (p.1 ++ rest) = some (p.2, rest) := by
  induction tbl with
  | nil => intro p hp; cases hp
  | cons q tbl ih =>
    obtain ⟨s, a⟩ := q
    rw [List.pairwise_cons] at hp
    intro p hm rest
    rcases List.mem_cons.mp hm with rfl | hm'
    · simp only [altTags, tag_self]
    · simp only [altTags, tag_diverge (hp.1 p hm')]
      exact ih hp.2 p hm' rest

theorem altTags_none {α : Type} (tbl : List (List Char × α)) (s : List Char)
    (h : ∀ q ∈ tbl, diverge q.1 s = true) (rest : List Char) : altTags tbl (s ++ rest) = none := by
  induction tbl with
  | nil => rfl
  | cons q tbl ih =>
    obtain ⟨t, a⟩ := q
    simp only [altTags, tag_diverge (h (t, a) (by simp))]
    exact ih (fun q hq => h q (by simp [hq]))

theorem opTable_pairwise : opTable.Pairwise (fun p q => diverge p.1 q.1 = true) := by
  decide

/-- P1 -/
theorem spelling_table : ∀ p ∈ opTable, ∀ rest, op (p.1 ++ rest) = some (p.2, rest) :=
  altTags_of_mem opTable opTable_pairwise

/-! ## Atoms -/

theorem isPrefixOf_nil_false {x : List Char} (h : ([] : List Char).isPrefixOf x = false) : False := by
  cases x <;> simp [List.isPrefixOf] at h

/-- a tag made of name characters that is not a prefix of the token `x` fails on `x` followed by a
token boundary -/
theorem tag_append_none {s : List Char} (hs : ∀ c ∈ s, isNameChar c = true) {x : List Char}
    (hx : s.isPrefixOf x = false) {rest : List Char} (hr : NoNameHead rest) : tag s (x ++ rest) = none := by
  induction s generalizing x with
  | nil => exact (isPrefixOf_nil_false hx).elim
  | cons a s ih =>
    have ha : isNameChar a = true := hs a (by simp)
    cases x with
    | nil =>
      cases rest with
      | nil => exact tag_cons_nil _ _
      | cons c cs =>
        have hc : isNameChar c = false := hr.head c rfl
        exact tag_cons_ne _ _ (nameChar_ne ha hc).symm
    | cons b x =>
      rw [List.cons_append, tag_cons_cons]
      by_cases e : a = b
      · subst e
        rw [if_pos rfl]
        simp only [List.isPrefixOf, beq_self_eq_true, Bool.true_and] at hx
        exact ih (fun c hc => hs c (by simp [hc])) hx
      · rw [if_neg e]

theorem DocName.spec {x : Name} (h : DocName x) :
    ∃ c cs, x = c :: cs ∧ (∀ d ∈ x, isNameChar d = true) ∧ isAsciiDigit c = false ∧
      "__".toList.isPrefixOf x = false ∧ "true".toList.isPrefixOf x = false ∧
      "false".toList.isPrefixOf x = false := by
  unfold DocName docName at h
  cases x with
  | nil => simp at h
  | cons c cs =>
    simp only [Bool.and_eq_true, Bool.not_eq_true', List.all_eq_true, decide_eq_true_eq] at h
    obtain ⟨⟨⟨⟨⟨_, h1⟩, h2⟩, h3⟩, h4⟩, h5⟩ := h
    exact ⟨c, cs, rfl, fun d hd => (h1 d hd).1, h2, h3, h4, h5⟩

theorem atom_name {x rest : List Char} (hx : DocName x) (hr : NoNameHead rest) :
    atom (x ++ rest) = some (.atom (.name x), rest) := by
  obtain ⟨c, cs, rfl, hch, hdig, huu, htrue, hfalse⟩ := hx.spec
  have hc : isNameChar c = true := hch c (by simp)
  have t1 : tag "true".toList ((c :: cs) ++ rest) = none := tag_append_none (by decide) htrue hr
  have t2 : tag "false".toList ((c :: cs) ++ rest) = none := tag_append_none (by decide) hfalse hr
  have t3 : tag "+infinity".toList (c :: (cs ++ rest)) = none :=
    tag_cons_ne _ _ (nameChar_ne hc (by decide))
  have hnum : num (c :: (cs ++ rest)) = none := by rw [num_cons, hdig]; rfl
  have hall : (c :: cs).all isAsciiDigit = false := by simp [hdig]
  have hname : name ((c :: cs) ++ rest) = some (c :: cs, rest) := by
    simp only [name, takeWhile1_append isNameChar (c :: cs) rest (by simp) hch hr.head, hall, huu]
    rfl
  rw [List.cons_append] at t1 t2 hname ⊢
  rw [atom_cons]
  simp only [t1, t2, t3, hnum, hname]

theorem atom_true (rest : List Char) : atom ("true".toList ++ rest) = some (.atom (.bool true), rest) := by
  simp only [String.reduceToList, List.cons_append, List.nil_append]
  simp only [atom_cons, tag_cons_cons, tag_nil, Char.reduceEq, if_true, if_false, String.reduceToList]

theorem atom_false (rest : List Char) : atom ("false".toList ++ rest) = some (.atom (.bool false), rest) := by
  simp only [String.reduceToList, List.cons_append, List.nil_append]
  simp only [atom_cons, tag_cons_cons, tag_nil, Char.reduceEq, if_true, if_false, String.reduceToList]

/-- every spelling of an atom, followed by a token boundary, is read back by `atom` -/
theorem ratom_parses {p : Prim} {t : List Char} (h : RAtom p t) {rest : List Char} (hr : NoNameHead rest) :
    atom (t ++ rest) = some (.atom p, rest) := by
  cases h with
  | tt => exact atom_true rest
  | ff => exact atom_false rest
  | name hx => exact atom_name hx hr
  | num hne hd hlt => rw [atom_numeral _ rest hne hd hr.head, if_pos hlt]
  | inf => exact atom_infinity rest

/-- the first character of an atom -/
theorem ratom_head {p : Prim} {t : List Char} (h : RAtom p t) :
    ∃ c cs, t = c :: cs ∧ (isNameChar c = true ∨ c = '+') := by
  cases h with
  | tt => exact ⟨'t', ['r', 'u', 'e'], by simp only [String.reduceToList], .inl (by decide)⟩
  | ff => exact ⟨'f', ['a', 'l', 's', 'e'], by simp only [String.reduceToList], .inl (by decide)⟩
  | name hx =>
    obtain ⟨c, cs, rfl, hch, _⟩ := hx.spec
    exact ⟨c, cs, rfl, .inl (hch c (by simp))⟩
  | num hne hd hlt =>
    cases t with
    | nil => exact absurd rfl hne
    | cons d ds => exact ⟨d, ds, rfl, .inl (digit_nameChar (hd d (by simp)))⟩
  | inf => exact ⟨'+', ['i', 'n', 'f', 'i', 'n', 'i', 't', 'y'], by simp only [String.reduceToList], .inr rfl⟩

/-! ## `expr`: one introduction rule per alternative -/

theorem expr_succ (fuel : Nat) (inp : List Char) : expr (fuel + 1) inp =
    (let inp := skipSpace inp
    let res : Option (Expr × List Char) :=
      match comment inp with
      | some x => some x
      | none =>
      match (do
          let (_, r) ← tag "(".toList inp
          let (_, r) ← ms0 r
          let (o, r) ← op r
          let (_, r) ← ms0 r
          let (l, r) ← expr fuel r
          let (_, r) ← ms0 r
          let (rt, r) ← expr fuel r
          let e ← checkExpr o l rt
          let (_, r) ← ms0 r
          let (_, r) ← tag ")".toList r
          pure (e, r) : Option (Expr × List Char)) with
      | some x => some x
      | none =>
      match command inp with
      | some x => some x
      | none => atom inp
    match res with
    | some (e, r) => some (e, skipSpace r)
    | none => none) := rfl

theorem expr_skipSpace (fuel : Nat) (inp : List Char) : expr fuel (skipSpace inp) = expr fuel inp := by
  cases fuel with
  | zero => rfl
  | succ f => rw [expr_succ, expr_succ, skipSpace_idem]

theorem expr_ws (fuel : Nat) {w : List Char} (hw : Ws w) (inp : List Char) : expr fuel (w ++ inp) = expr fuel inp := by
  rw [← expr_skipSpace, skipSpace_ws hw, expr_skipSpace]

theorem expr_sexp_intro {fuel : Nat} {inp r0 r1 r2 r3 r4 : List Char} {o : Op} {l rt e : Expr}
    (h0 : skipSpace inp = '(' :: r0)
    (hop : op (skipSpace r0) = some (o, r1))
    (hl : expr fuel (skipSpace r1) = some (l, r2))
    (hr : expr fuel (skipSpace r2) = some (rt, r3))
    (hc : checkExpr o l rt = some e)
    (h4 : skipSpace r3 = ')' :: r4) :
    expr (fuel + 1) inp = some (e, skipSpace r4) := by
  rw [expr_succ]
  simp only [h0, comment, String.reduceToList, tag_cons_cons, tag_nil, Char.reduceEq, if_true, if_false, ms0,
    Option.bind_eq_bind, Option.bind_some, Option.bind_none, Option.pure_def, hop, hl, hr, hc, h4]

theorem cmdTable_pairwise :
    [("fallthrough".toList, Command.fallthrough), ("report".toList, Command.report)].Pairwise
      (fun p q => diverge p.1 q.1 = true) := by decide

theorem expr_cmd_intro {fuel : Nat} {inp r0 r1 r2 : List Char} {c : Command}
    (h0 : skipSpace inp = '(' :: r0)
    (hop : op (skipSpace r0) = none)
    (hc : altTags [("fallthrough".toList, Command.fallthrough), ("report".toList, Command.report)] (skipSpace r0)
            = some (c, r1))
    (h2 : skipSpace r1 = ')' :: r2) :
    expr (fuel + 1) inp = some (.cmd c, skipSpace r2) := by
  rw [expr_succ]
  simp only [h0, comment, command, String.reduceToList, tag_cons_cons, tag_nil, Char.reduceEq, if_true, if_false, ms0,
    Option.bind_eq_bind, Option.bind_some, Option.bind_none, Option.pure_def, hop, h2]
  simp only [String.reduceToList] at hc
  simp only [hc, Option.bind_some, h2, tag_cons_cons, tag_nil, if_true]

theorem expr_atom_intro {fuel : Nat} {inp cs r : List Char} {c : Char} {e : Expr}
    (h0 : skipSpace inp = c :: cs) (hc1 : c ≠ '#') (hc2 : c ≠ '(')
    (ha : atom (c :: cs) = some (e, r)) :
    expr (fuel + 1) inp = some (e, skipSpace r) := by
  rw [expr_succ]
  simp only [h0, comment, command, String.reduceToList, tag_cons_ne _ _ hc1, tag_cons_ne _ _ hc2, ms0,
    Option.bind_eq_bind, Option.bind_some, Option.bind_none, Option.pure_def, ha]

theorem expr_comment_intro {fuel : Nat} {inp r0 r1 txt : List Char}
    (h0 : skipSpace inp = '#' :: r0) (h1 : takeUntilNl r0 = some (txt, r1)) :
    expr (fuel + 1) inp = some (.none, skipSpace r1) := by
  rw [expr_succ]
  simp only [h0, comment, String.reduceToList, tag_cons_cons, tag_nil, Char.reduceEq, if_true, if_false, ms0,
    Option.bind_eq_bind, Option.bind_some, Option.bind_none, Option.pure_def, h1]

theorem atom_rparen (r : List Char) : atom (')' :: r) = none := by
  simp only [atom_cons, num_cons, name_cons, String.reduceToList, tag_cons_cons, Char.reduceEq, if_false,
    isAsciiDigit, isNameChar, isAlnumLowByte, Char.reduceToNat, Nat.reduceMod, Nat.reduceLeDiff, Char.reduceLE,
    decide_true, decide_false, Bool.and_self, Bool.and_true, Bool.and_false, Bool.true_and, Bool.false_and,
    Bool.or_false, Bool.false_or, Bool.or_self, Bool.false_eq_true]

theorem atom_lparen (r : List Char) : atom ('(' :: r) = none := by
  simp only [atom_cons, num_cons, name_cons, String.reduceToList, tag_cons_cons, Char.reduceEq, if_false,
    isAsciiDigit, isNameChar, isAlnumLowByte, Char.reduceToNat, Nat.reduceMod, Nat.reduceLeDiff, Char.reduceLE,
    decide_true, decide_false, Bool.and_self, Bool.and_true, Bool.and_false, Bool.true_and, Bool.false_and,
    Bool.or_false, Bool.false_or, Bool.or_self, Bool.false_eq_true]

/-- `expr` fails in front of a closing parenthesis: this is what ends a body -/
theorem expr_rparen (fuel : Nat) {inp r : List Char} (h0 : skipSpace inp = ')' :: r) : expr fuel inp = none := by
  cases fuel with
  | zero => rfl
  | succ f =>
    rw [expr_succ]
    simp only [h0, comment, command, String.reduceToList, tag_cons_cons, tag_nil, Char.reduceEq, if_true, if_false,
      ms0, Option.bind_eq_bind, Option.bind_some, Option.bind_none, Option.pure_def, atom_rparen]

/-! ## P2: expressions -/

/-- the text starts with a non-whitespace character -/
def noSpaceHead : List Char → Bool
  | [] => false
  | c :: _ => !isSpace c

theorem skipSpace_of_noSpaceHead {t : List Char} (h : noSpaceHead t = true) (x : List Char) :
    skipSpace (t ++ x) = t ++ x := by
  cases t with
  | nil => cases h
  | cons c cs =>
    simp only [noSpaceHead, Bool.not_eq_true'] at h
    exact skipSpace_cons_of_not_space h _

theorem skipSpace_ws_noSpaceHead {w t : List Char} (hw : Ws w) (h : noSpaceHead t = true) (x : List Char) :
    skipSpace (w ++ (t ++ x)) = t ++ x := by
  rw [skipSpace_ws hw, skipSpace_of_noSpaceHead h]

theorem rop_noSpaceHead {o : Op} {t : List Char} (h : ROp o t) : noSpaceHead t = true := by
  have : ∀ p ∈ opTable, noSpaceHead p.1 = true := by decide
  exact this _ h

theorem rop_ne_def {o : Op} {t : List Char} (h : ROp o t) : o ≠ .def := by
  have : ∀ p ∈ opTable, p.2 ≠ Op.def := by decide
  exact this _ h

theorem cmdText_noSpaceHead (c : Command) : noSpaceHead (cmdText c) = true := by cases c <;> decide

theorem op_cmdText (c : Command) (rest : List Char) : op (cmdText c ++ rest) = none :=
  altTags_none opTable (cmdText c) (by cases c <;> decide) rest

theorem cmd_cmdText (c : Command) (rest : List Char) :
    altTags [("fallthrough".toList, Command.fallthrough), ("report".toList, Command.report)] (cmdText c ++ rest)
      = some (c, rest) := by
  cases c
  · exact altTags_of_mem _ cmdTable_pairwise ("fallthrough".toList, Command.fallthrough) (by simp) rest
  · exact altTags_of_mem _ cmdTable_pairwise ("report".toList, Command.report) (by simp) rest

theorem checkExpr_ok {o : Op} {l r : Expr} (h : o = .bind ∨ isIfE l = false) :
    checkExpr o l r = some (.sexp o l r) := by
  rcases h with rfl | h
  · rfl
  · unfold checkExpr
    split
    · rfl
    · split
      · simp [isIfE] at h
      · simp [isIfE] at h
      · rfl

/-- what is not an atom starts with `(` -/
theorem rexpr_nonatom_head {e : Expr} {t : List Char} (h : RExpr e t) (hn : isAtomE e = false) :
    ∃ cs, t = '(' :: cs := by
  cases h with
  | atom ha => simp [isAtomE] at hn
  | cmd c h1 h2 => exact ⟨_, rfl⟩
  | sexp => exact ⟨_, rfl⟩

theorem rparen_not_space : isSpace ')' = false := by decide
theorem lparen_not_space : isSpace '(' = false := by decide

theorem rexpr_noSpaceHead {e : Expr} {t : List Char} (h : RExpr e t) : noSpaceHead t = true := by
  cases h with
  | atom ha =>
    obtain ⟨c, cs, rfl, hc | rfl⟩ := ratom_head ha
    · simp [noSpaceHead, nameChar_not_space hc]
    · rfl
  | cmd c h1 h2 => simp [noSpaceHead, lparen_not_space]
  | sexp => simp [noSpaceHead, lparen_not_space]

/-- P2: a rendered expression, followed by anything (by a token boundary if it is an atom), is read back by
`expr` — which also eats the whitespace that follows -/
theorem rexpr_parses {e : Expr} {t : List Char} (h : RExpr e t) :
    ∀ (rest : List Char) (fuel : Nat), t.length < fuel → (isAtomE e = true → NoNameHead rest) →
      expr fuel (t ++ rest) = some (e, skipSpace rest) := by
  induction h with
  | atom ha =>
    intro rest fuel hf hb
    obtain ⟨c, cs, rfl, hc⟩ := ratom_head ha
    cases fuel with
    | zero => omega
    | succ f =>
      have hat := ratom_parses ha (hb rfl)
      have hp : isSpace c = false ∧ c ≠ '#' ∧ c ≠ '(' := by
        rcases hc with hc | rfl
        · exact ⟨nameChar_not_space hc, nameChar_ne hc (by decide), nameChar_ne hc (by decide)⟩
        · decide
      exact expr_atom_intro (skipSpace_cons_of_not_space hp.1 _) hp.2.1 hp.2.2 hat
  | cmd c h1 h2 =>
    intro rest fuel hf hb
    rename_i w1 w2
    cases fuel with
    | zero => omega
    | succ f =>
      simp only [List.cons_append, List.append_assoc, List.nil_append]
      refine expr_cmd_intro (r0 := w1 ++ (cmdText c ++ (w2 ++ ')' :: rest))) (r1 := w2 ++ ')' :: rest)
        (r2 := rest) (skipSpace_cons_of_not_space lparen_not_space _) ?_ ?_ ?_
      · rw [skipSpace_ws_noSpaceHead h1 (cmdText_noSpaceHead c)]; exact op_cmdText c _
      · rw [skipSpace_ws_noSpaceHead h1 (cmdText_noSpaceHead c)]; exact cmd_cmdText c _
      · exact skipSpace_ws_cons h2 rparen_not_space _
  | sexp ho h0 h1 hl h2 hsep hr h3 hck ihl ihr =>
    intro rest fuel hf hb
    rename_i o l r ot w0 w1 tl w2 tr w3
    cases fuel with
    | zero => omega
    | succ f =>
      simp only [List.length_cons, List.length_append] at hf
      simp only [List.cons_append, List.append_assoc, List.nil_append]
      have hbl : isAtomE l = true → NoNameHead (w2 ++ (tr ++ (w3 ++ ')' :: rest))) := by
        intro hla
        refine noNameHead_ws_append h2 ?_
        rcases hsep with h | h | h
        · exact .inl h
        · rw [hla] at h; cases h
        · obtain ⟨cs, rfl⟩ := rexpr_nonatom_head hr h
          exact .inr (noNameHead_cons (by decide) _)
      have hbr : isAtomE r = true → NoNameHead (w3 ++ ')' :: rest) := fun _ =>
        noNameHead_ws_append h3 (.inr (noNameHead_cons (by decide) _))
      refine expr_sexp_intro (r0 := w0 ++ (ot ++ (w1 ++ (tl ++ (w2 ++ (tr ++ (w3 ++ ')' :: rest)))))))
        (r1 := w1 ++ (tl ++ (w2 ++ (tr ++ (w3 ++ ')' :: rest)))))
        (r2 := skipSpace (w2 ++ (tr ++ (w3 ++ ')' :: rest))))
        (r3 := skipSpace (w3 ++ ')' :: rest)) (r4 := rest)
        (skipSpace_cons_of_not_space lparen_not_space _) ?_ ?_ ?_ (checkExpr_ok hck) ?_
      · rw [skipSpace_ws_noSpaceHead h0 (rop_noSpaceHead ho)]
        exact spelling_table (ot, o) ho _
      · rw [expr_skipSpace, expr_ws f h1]
        exact ihl _ f (by omega) hbl
      · rw [expr_skipSpace, expr_skipSpace, expr_ws f h2]
        exact ihr _ f (by omega) hbr
      · rw [skipSpace_idem]; exact skipSpace_ws_cons h3 rparen_not_space _

/-- P2 with leading whitespace -/
theorem rexpr_parses_ws {e : Expr} {t w : List Char} (h : RExpr e t) (hw : Ws w) (rest : List Char) (fuel : Nat)
    (hf : t.length < fuel) (hb : isAtomE e = true → NoNameHead rest) :
    expr fuel (w ++ (t ++ rest)) = some (e, skipSpace rest) := by
  rw [expr_ws fuel hw]; exact rexpr_parses h rest fuel hf hb

/-! ## `many0` / `many1` -/

/-- `p` succeeds on `inp` once per element of `as`, consuming input each time, and then fails on `out` -/
inductive Many {α : Type} (p : Parser α) : List Char → List α → List Char → Prop
  | stop {inp : List Char} (h : p inp = none) : Many p inp [] inp
  | step {inp r out : List Char} {a : α} {as : List α} (h : p inp = some (a, r)) (hlt : r.length < inp.length)
      (hs : Many p r as out) : Many p inp (a :: as) out

theorem manyLoop_of_many {α : Type} {p : Parser α} {inp out : List Char} {as : List α} (h : Many p inp as out) :
    ∀ (fuel : Nat) (acc : List α), inp.length < fuel → manyLoop p fuel inp acc = some (acc.reverse ++ as, out) := by
  induction h with
  | stop h =>
    intro fuel acc hf
    cases fuel with
    | zero => omega
    | succ f => simp [manyLoop, h]
  | step h hlt hs ih =>
    intro fuel acc hf
    cases fuel with
    | zero => omega
    | succ f =>
      simp only [manyLoop, h]
      rw [if_neg (by omega), ih f _ (by omega)]
      simp

theorem many0_of_many {α : Type} {p : Parser α} {inp out : List Char} {as : List α} (h : Many p inp as out) :
    many0 p inp = some (as, out) := by
  unfold many0
  rw [manyLoop_of_many h _ _ (by omega)]
  simp

theorem many1_of_many {α : Type} {p : Parser α} {inp out : List Char} {a : α} {as : List α}
    (h : Many p inp (a :: as) out) : many1 p inp = some (a :: as, out) := by
  cases h with
  | step h hlt hs =>
    unfold many1
    simp only [h]
    rw [manyLoop_of_many hs _ _ (by omega)]
    simp

theorem skipSpace_append_length_lt {t : List Char} (hne : t ≠ []) (x : List Char) :
    (skipSpace x).length < (t ++ x).length := by
  have := skipSpace_length_le x
  have : 0 < t.length := List.length_pos_iff.mpr hne
  simp only [List.length_append]
  omega

/-! ## P3a: event bodies -/

theorem takeUntilNl_line {text : List Char} (h : ∀ c ∈ text, c ≠ '\n') (rest : List Char) :
    takeUntilNl (text ++ '\n' :: rest) = some (text, '\n' :: rest) := by
  unfold takeUntilNl
  rw [spanChars_append _ text ('\n' :: rest) (fun c hc => by simpa using h c hc)
    (by intro c hc; simp at hc; subst hc; simp)]

theorem nl_space : isSpace '\n' = true := by decide
theorem hash_not_space : isSpace '#' = false := by decide

theorem ritem_parses {e : Expr} {t : List Char} (h : RItem e t) (rest : List Char) (fuel : Nat)
    (hf : t.length < fuel) : expr fuel (t ++ rest) = some (e, skipSpace rest) := by
  cases h with
  | stmt h hn => exact rexpr_parses h rest fuel hf (by rw [hn]; intro h; cases h)
  | comment htx =>
    rename_i text
    cases fuel with
    | zero => omega
    | succ f =>
      simp only [commentLine, List.cons_append, List.append_assoc, List.nil_append]
      have := expr_comment_intro (fuel := f) (skipSpace_cons_of_not_space hash_not_space _) (takeUntilNl_line htx rest)
      rw [this]
      simp [skipSpace, nl_space]

theorem ritem_noSpaceHead {e : Expr} {t : List Char} (h : RItem e t) : noSpaceHead t = true := by
  cases h with
  | stmt h hn => exact rexpr_noSpaceHead h
  | comment htx => rfl

theorem ritem_head {e : Expr} {t : List Char} (h : RItem e t) : ∃ cs, t = '(' :: cs ∨ t = '#' :: cs := by
  cases h with
  | stmt h hn => obtain ⟨cs, rfl⟩ := rexpr_nonatom_head h hn; exact ⟨cs, .inl rfl⟩
  | comment htx => exact ⟨_, .inr rfl⟩

theorem ritem_ne_nil {e : Expr} {t : List Char} (h : RItem e t) : t ≠ [] := by
  obtain ⟨cs, rfl | rfl⟩ := ritem_head h <;> simp

theorem rstmts_noSpaceHead {es : List Expr} {t : List Char} (h : RStmts es t) : noSpaceHead t = true := by
  cases h with
  | one h => exact ritem_noSpaceHead h
  | cons h hw hs =>
    obtain ⟨cs, rfl | rfl⟩ := ritem_head h <;> rfl

theorem rstmts_noNameHead {es : List Expr} {t : List Char} (h : RStmts es t) (x : List Char) : NoNameHead (t ++ x) := by
  cases h with
  | one h => obtain ⟨cs, rfl | rfl⟩ := ritem_head h <;> exact noNameHead_cons (by decide) _
  | cons h hw hs => obtain ⟨cs, rfl | rfl⟩ := ritem_head h <;> exact noNameHead_cons (by decide) _

/-- the items of a body, followed by (whitespace and) a closing parenthesis, are read one by one -/
theorem rstmts_many {es : List Expr} {t : List Char} (h : RStmts es t) :
    ∀ (tail rest : List Char) (fuel : Nat), t.length < fuel → skipSpace tail = ')' :: rest →
      Many (expr fuel) (t ++ tail) es (')' :: rest) := by
  induction h with
  | one h =>
    intro tail rest fuel hf ht
    refine .step (r := ')' :: rest) ?_ ?_ (.stop ?_)
    · rw [← ht]; exact ritem_parses h tail fuel hf
    · rw [← ht]; exact skipSpace_append_length_lt (ritem_ne_nil h) _
    · exact expr_rparen fuel (skipSpace_cons_of_not_space rparen_not_space _)
  | cons h hw hs ih =>
    intro tail rest fuel hf ht
    rename_i e es t w ts
    simp only [List.length_append] at hf
    simp only [List.append_assoc]
    have hsk : skipSpace (w ++ (ts ++ tail)) = ts ++ tail := skipSpace_ws_noSpaceHead hw (rstmts_noSpaceHead hs) _
    refine .step (r := ts ++ tail) ?_ ?_ (ih tail rest fuel (by omega) ht)
    · have := ritem_parses h (w ++ (ts ++ tail)) fuel (by omega)
      rw [hsk] at this; exact this
    · have := skipSpace_append_length_lt (ritem_ne_nil h) (w ++ (ts ++ tail))
      rw [hsk] at this; exact this

/-- P3a -/
theorem rstmts_parse {es : List Expr} {t : List Char} (h : RStmts es t) (tail rest : List Char) (fuel : Nat)
    (hf : t.length < fuel) (ht : skipSpace tail = ')' :: rest) :
    exprs fuel (t ++ tail) = some (es, ')' :: rest) := by
  have hm := rstmts_many h tail rest fuel hf ht
  cases h with
  | one h => exact many1_of_many hm
  | cons h hw hs => exact many1_of_many hm

/-! ## P3b: events -/

theorem event_intro {fuel : Nat} {inp r0 r1 r2 r3 r4 : List Char} {c : Expr} {b : List Expr}
    (h0 : skipSpace inp = '(' :: r0)
    (h1 : skipSpace r0 = 'w' :: 'h' :: 'e' :: 'n' :: r1)
    (hc : expr fuel r1 = some (c, r2))
    (hb : exprs fuel r2 = some (b, r3))
    (h4 : skipSpace r3 = ')' :: r4) :
    event fuel inp = some (⟨c, b⟩, skipSpace r4) := by
  unfold event
  simp only [ms0, Option.bind_eq_bind, Option.bind_some, Option.pure_def, String.reduceToList, h0, tag_cons_cons,
    tag_nil, if_true, h1, hc, hb, h4]

theorem event_skipSpace (fuel : Nat) (inp : List Char) : event fuel (skipSpace inp) = event fuel inp := by
  unfold event
  simp only [ms0, skipSpace_idem]

theorem event_ws (fuel : Nat) {w : List Char} (hw : Ws w) (inp : List Char) :
    event fuel (w ++ inp) = event fuel inp := by
  rw [← event_skipSpace, skipSpace_ws hw, event_skipSpace]

/-- P3b -/
theorem revent_parses {e : Event} {t : List Char} (h : REvent e t) (rest : List Char) (fuel : Nat)
    (hf : t.length < fuel) : event fuel (t ++ rest) = some (e, skipSpace rest) := by
  cases h with
  | mk h0 h1 h2 hc h3 hb h4 h5 =>
    rename_i c b w0 w1 w2 tc w3 tb w4 w5
    simp only [List.length_cons, List.length_append] at hf
    simp only [List.cons_append, List.append_assoc, List.nil_append, String.reduceToList]
    have hsk : skipSpace (w3 ++ (tb ++ (w4 ++ ')' :: (w5 ++ rest)))) = tb ++ (w4 ++ ')' :: (w5 ++ rest)) :=
      skipSpace_ws_noSpaceHead h3 (rstmts_noSpaceHead hb) _
    have hcond := rexpr_parses_ws hc h2 (w3 ++ (tb ++ (w4 ++ ')' :: (w5 ++ rest)))) fuel (by omega)
      (fun _ => noNameHead_ws_append h3 (.inr (rstmts_noNameHead hb _)))
    rw [hsk] at hcond
    have hbody := rstmts_parse hb (w4 ++ ')' :: (w5 ++ rest)) (w5 ++ rest) fuel (by omega)
      (skipSpace_ws_cons h4 rparen_not_space _)
    have := event_intro (r4 := w5 ++ rest) (skipSpace_ws_cons h0 lparen_not_space _)
      (skipSpace_ws_cons h1 (by decide) _) hcond hbody (skipSpace_cons_of_not_space rparen_not_space _)
    rw [skipSpace_ws h5] at this
    exact this

/-- the parser `events` iterates -/
def evItem (fuel : Nat) : Parser Event := fun inp => do
  let (_, r) ← ms0 inp
  let r := match comment r with
    | some (_, q) => q
    | none => r
  let (e, r) ← event fuel r
  let (_, r) ← ms0 r
  pure (e, r)

theorem events_eq (fuel : Nat) : events fuel = many1 (evItem fuel) := rfl

theorem evItem_skipSpace (fuel : Nat) (inp : List Char) : evItem fuel (skipSpace inp) = evItem fuel inp := by
  unfold evItem
  simp only [ms0, skipSpace_idem]

theorem evItem_plain {fuel : Nat} {inp r : List Char} {e : Event}
    (h0 : comment (skipSpace inp) = none) (he : event fuel inp = some (e, r)) :
    evItem fuel inp = some (e, skipSpace r) := by
  unfold evItem
  simp only [ms0, Option.bind_eq_bind, Option.bind_some, Option.pure_def, h0, event_skipSpace, he]

theorem evItem_commented {fuel : Nat} {inp r0 r1 txt r : List Char} {e : Event}
    (h0 : skipSpace inp = '#' :: r0) (h1 : takeUntilNl r0 = some (txt, r1))
    (he : event fuel r1 = some (e, r)) :
    evItem fuel inp = some (e, skipSpace r) := by
  unfold evItem
  simp only [ms0, Option.bind_eq_bind, Option.bind_some, Option.pure_def, h0, comment, String.reduceToList,
    tag_cons_cons, tag_nil, if_true, h1, he]

theorem revent_shape {e : Event} {t : List Char} (h : REvent e t) : ∃ w z, Ws w ∧ t = w ++ '(' :: z := by
  cases h with
  | mk h0 => exact ⟨_, _, h0, rfl⟩

theorem revitem_shape {e : Event} {t : List Char} (h : REvItem e t) :
    ∃ w c z, Ws w ∧ isSpace c = false ∧ t = w ++ c :: z := by
  cases h with
  | plain h => obtain ⟨w, z, hw, rfl⟩ := revent_shape h; exact ⟨w, '(', z, hw, lparen_not_space, rfl⟩
  | commented hw htx h => exact ⟨_, '#', _, hw, hash_not_space, rfl⟩

theorem revitem_parses {e : Event} {t : List Char} (h : REvItem e t) (rest : List Char) (fuel : Nat)
    (hf : t.length < fuel) : evItem fuel (t ++ rest) = some (e, skipSpace rest) := by
  cases h with
  | plain h =>
    have he := revent_parses h rest fuel hf
    have := evItem_plain (fuel := fuel) (inp := t ++ rest) (r := skipSpace rest) (e := e) ?_ he
    · rw [skipSpace_idem] at this; exact this
    · obtain ⟨w, z, hw, rfl⟩ := revent_shape h
      rw [List.append_assoc, List.cons_append, skipSpace_ws_cons hw lparen_not_space]
      simp only [comment, String.reduceToList, tag_cons_cons, Char.reduceEq, if_false, Option.bind_eq_bind,
        Option.bind_none]
  | commented hw htx h =>
    rename_i w text t
    simp only [List.length_append, commentLine, List.length_cons] at hf
    simp only [commentLine, List.cons_append, List.append_assoc, List.nil_append]
    have he : event fuel ('\n' :: (t ++ rest)) = some (e, skipSpace rest) := by
      have := event_ws fuel (w := ['\n']) (by decide) (t ++ rest)
      rw [List.cons_append, List.nil_append] at this
      rw [this]
      exact revent_parses h rest fuel (by omega)
    have := evItem_commented (skipSpace_ws_cons hw hash_not_space _) (takeUntilNl_line htx _) he
    rw [skipSpace_idem] at this; exact this

/-- `events` stops in front of anything that, after whitespace, is neither a `(` nor a `#` -/
def EventsEnd (rest : List Char) : Prop := ∀ c cs, skipSpace rest = c :: cs → c ≠ '(' ∧ c ≠ '#'

theorem EventsEnd.nil : EventsEnd [] := by intro c cs h; cases h

theorem evItem_end {rest : List Char} (h : EventsEnd rest) (fuel : Nat) : evItem fuel (skipSpace rest) = none := by
  have hid := skipSpace_idem rest
  unfold evItem
  simp only [ms0, Option.bind_eq_bind, Option.bind_some, hid]
  cases hs : skipSpace rest with
  | nil => rfl
  | cons c cs =>
    obtain ⟨h1, h2⟩ := h c cs hs
    rw [hs] at hid
    unfold event
    simp only [comment, String.reduceToList, tag_cons_ne _ _ h2, tag_cons_ne _ _ h1, Option.bind_eq_bind,
      Option.bind_none, ms0, hid, Option.bind_some]

theorem revents_many {evs : List Event} {t : List Char} (h : REvents evs t) :
    ∀ (rest : List Char) (fuel : Nat), t.length < fuel → EventsEnd rest →
      Many (evItem fuel) (skipSpace (t ++ rest)) evs (skipSpace rest) := by
  induction h with
  | one h =>
    intro rest fuel hf he
    refine .step (r := skipSpace rest) ?_ ?_ (.stop (evItem_end he fuel))
    · rw [evItem_skipSpace]; exact revitem_parses h rest fuel hf
    · obtain ⟨w, c, z, hw, hc, rfl⟩ := revitem_shape h
      rw [List.append_assoc, List.cons_append, skipSpace_ws_cons hw hc]
      have := skipSpace_length_le rest
      simp only [List.length_cons, List.length_append]; omega
  | cons h hs ih =>
    intro rest fuel hf he
    rename_i e es t ts
    simp only [List.length_append] at hf
    refine .step (r := skipSpace (ts ++ rest)) ?_ ?_ (ih rest fuel (by omega) he)
    · rw [evItem_skipSpace, List.append_assoc]; exact revitem_parses h _ fuel (by omega)
    · obtain ⟨w, c, z, hw, hc, rfl⟩ := revitem_shape h
      simp only [List.append_assoc, List.cons_append]
      rw [skipSpace_ws_cons hw hc]
      have := skipSpace_length_le (ts ++ rest)
      simp only [List.length_cons, List.length_append] at this ⊢; omega

theorem many1_evItem_skipSpace (fuel : Nat) (inp : List Char) :
    many1 (evItem fuel) (skipSpace inp) = many1 (evItem fuel) inp := by
  unfold many1
  rw [evItem_skipSpace]

theorem events_skipSpace (fuel : Nat) (inp : List Char) : events fuel (skipSpace inp) = events fuel inp :=
  many1_evItem_skipSpace fuel inp

/-- P3c -/
theorem revents_parse {evs : List Event} {t : List Char} (h : REvents evs t) (rest : List Char) (fuel : Nat)
    (hf : t.length < fuel) (he : EventsEnd rest) :
    events fuel (t ++ rest) = some (evs, skipSpace rest) := by
  have hm := revents_many h rest fuel hf he
  rw [← events_skipSpace, events_eq]
  cases h with
  | one h => exact many1_of_many hm
  | cons h hs => exact many1_of_many hm

/-! ## P3d: definitions -/

theorem name_docName {x rest : List Char} (hx : DocName x) (hr : NoNameHead rest) :
    name (x ++ rest) = some (x, rest) := by
  obtain ⟨c, cs, rfl, hch, hdig, huu, htrue, hfalse⟩ := hx.spec
  have hall : (c :: cs).all isAsciiDigit = false := by simp [hdig]
  simp only [name, takeWhile1_append isNameChar (c :: cs) rest (by simp) hch hr.head, hall, huu]
  rfl

theorem docName_noSpaceHead {x : List Char} (hx : DocName x) : noSpaceHead x = true := by
  obtain ⟨c, cs, rfl, hch, _⟩ := hx.spec
  simp [noSpaceHead, nameChar_not_space (hch c (by simp))]

theorem ratom_noSpaceHead {p : Prim} {t : List Char} (h : RAtom p t) : noSpaceHead t = true := by
  obtain ⟨c, cs, rfl, hc | rfl⟩ := ratom_head h
  · simp [noSpaceHead, nameChar_not_space hc]
  · rfl

theorem noNameHead_append {a : List Char} (h : NoNameHead a) (hne : a ≠ []) (y : List Char) : NoNameHead (a ++ y) := by
  cases a with
  | nil => exact absurd rfl hne
  | cons c cs => exact h

theorem decl_skipSpace (inp : List Char) : decl (skipSpace inp) = decl inp := by
  unfold decl
  simp only [ms0, skipSpace_idem]

theorem reportStruct_skipSpace (inp : List Char) : reportStruct (skipSpace inp) = reportStruct inp := by
  unfold reportStruct
  simp only [ms0, skipSpace_idem]

theorem decl_intro_plain {inp r0 r1 r2 r3 : List Char} {x : Name} {a : Expr}
    (h0 : skipSpace inp = '(' :: r0)
    (hv : tag "volatile".toList (skipSpace r0) = none)
    (hn : name (skipSpace r0) = some (x, r1))
    (ha : atom (skipSpace r1) = some (a, r2))
    (h3 : skipSpace r2 = ')' :: r3) :
    decl inp = some ({ vol := false, var := x, init := initTy a }, skipSpace r3) := by
  unfold decl
  simp only [ms0, Option.bind_eq_bind, Option.bind_some, Option.bind_none, Option.pure_def, h0, skipSpace_idem, hv, hn,
    ha, h3, tag_cons_cons, tag_nil, if_true, String.reduceToList]
  simp only [String.reduceToList] at hv
  simp only [hv, Option.bind_none, hn, Option.bind_some, ha, h3, tag_cons_cons, tag_nil, if_true]

theorem decl_intro_vol {inp r0 rv r1 r2 r3 : List Char} {x : Name} {a : Expr}
    (h0 : skipSpace inp = '(' :: r0)
    (hv : skipSpace r0 = 'v' :: 'o' :: 'l' :: 'a' :: 't' :: 'i' :: 'l' :: 'e' :: rv)
    (hn : name (skipSpace rv) = some (x, r1))
    (ha : atom (skipSpace r1) = some (a, r2))
    (h3 : skipSpace r2 = ')' :: r3) :
    decl inp = some ({ vol := true, var := x, init := initTy a }, skipSpace r3) := by
  unfold decl
  simp only [ms0, Option.bind_eq_bind, Option.bind_some, Option.bind_none, Option.pure_def, h0, skipSpace_idem, hv, hn,
    ha, h3, tag_cons_cons, tag_nil, if_true, String.reduceToList]

theorem decl_none_of {inp cs : List Char} {c : Char} (h : skipSpace inp = c :: cs) (hc : c ≠ '(') : decl inp = none := by
  unfold decl
  simp only [ms0, Option.bind_eq_bind, Option.bind_some, h, String.reduceToList, tag_cons_ne _ _ hc, Option.bind_none]

theorem volText_false (w : List Char) : volText false w = [] := rfl
theorem volText_true (w : List Char) :
    volText true w = 'v' :: 'o' :: 'l' :: 'a' :: 't' :: 'i' :: 'l' :: 'e' :: w := rfl

theorem volatile_nameChars : ∀ c ∈ "volatile".toList, isNameChar c = true := by decide

/-- P3d (one declaration) -/
theorem rdecl_parses {d : Decl} {t : List Char} (h : RDecl d t) (rest : List Char) :
    decl (t ++ rest) = some (d, skipSpace rest) := by
  cases h with
  | mk v h0 h1 h2 hx h3 hp ha hsep h4 h5 =>
    rename_i x p w0 w1 w2 w3 ta w4 w5
    obtain ⟨c, cs, hta, _⟩ := ratom_head ha
    have hsep' : NoNameHead (w3 ++ (ta ++ (w4 ++ ')' :: (w5 ++ rest)))) := by
      rw [← List.append_assoc]
      exact noNameHead_append hsep (by rw [hta]; simp) _
    have hn : name (x ++ (w3 ++ (ta ++ (w4 ++ ')' :: (w5 ++ rest))))) = some (x, _) := name_docName hx.1 hsep'
    have hat : atom (skipSpace (w3 ++ (ta ++ (w4 ++ ')' :: (w5 ++ rest))))) = some (.atom p, w4 ++ ')' :: (w5 ++ rest)) := by
      rw [skipSpace_ws_noSpaceHead h3 (ratom_noSpaceHead ha)]
      exact ratom_parses ha (noNameHead_ws_append h4 (.inr (noNameHead_cons (by decide) _)))
    cases v with
    | false =>
      simp only [volText_false, List.cons_append, List.append_assoc, List.nil_append]
      have hsk : skipSpace (w1 ++ (x ++ (w3 ++ (ta ++ (w4 ++ ')' :: (w5 ++ rest)))))) = _ :=
        skipSpace_ws_noSpaceHead h1 (docName_noSpaceHead hx.1) _
      have := decl_intro_plain (inp := w0 ++ '(' :: (w1 ++ (x ++ (w3 ++ (ta ++ (w4 ++ ')' :: (w5 ++ rest)))))))
        (r3 := w5 ++ rest) (skipSpace_ws_cons h0 lparen_not_space _)
        (by rw [hsk]; exact tag_append_none volatile_nameChars hx.2 hsep')
        (by rw [hsk]; exact hn) hat (skipSpace_ws_cons h4 rparen_not_space _)
      rw [skipSpace_ws h5] at this
      exact this
    | true =>
      simp only [volText_true, List.cons_append, List.append_assoc, List.nil_append]
      have := decl_intro_vol (inp := w0 ++ '(' :: (w1 ++ 'v' :: 'o' :: 'l' :: 'a' :: 't' :: 'i' :: 'l' :: 'e' ::
          (w2 ++ (x ++ (w3 ++ (ta ++ (w4 ++ ')' :: (w5 ++ rest))))))))
        (r3 := w5 ++ rest) (skipSpace_ws_cons h0 lparen_not_space _)
        (skipSpace_ws_cons h1 (by decide) _)
        (by rw [skipSpace_ws_noSpaceHead h2 (docName_noSpaceHead hx.1)]; exact hn) hat
        (skipSpace_ws_cons h4 rparen_not_space _)
      rw [skipSpace_ws h5] at this
      exact this

theorem rdecl_shape {d : Decl} {t : List Char} (h : RDecl d t) : ∃ w z, Ws w ∧ t = w ++ '(' :: z := by
  cases h with
  | mk v h0 => exact ⟨_, _, h0, rfl⟩

theorem rdecls_shape {ds : List Decl} {t : List Char} (h : RDecls ds t) (hne : ds ≠ []) :
    ∃ w z, Ws w ∧ t = w ++ '(' :: z := by
  cases h with
  | nil => exact absurd rfl hne
  | cons h hs =>
    rename_i d ds t ts
    obtain ⟨w, z, hw, rfl⟩ := rdecl_shape h
    exact ⟨w, z ++ ts, hw, by simp only [List.append_assoc, List.cons_append]⟩

theorem rdecls_many {ds : List Decl} {t : List Char} (h : RDecls ds t) :
    ∀ (tail : List Char), decl tail = none → Many decl (skipSpace (t ++ tail)) ds (skipSpace tail) := by
  induction h with
  | nil => intro tail ht; exact .stop (by rw [decl_skipSpace]; exact ht)
  | cons h hs ih =>
    intro tail ht
    rename_i d ds t ts
    refine .step (r := skipSpace (ts ++ tail)) ?_ ?_ (ih tail ht)
    · rw [decl_skipSpace, List.append_assoc]; exact rdecl_parses h _
    · obtain ⟨w, z, hw, rfl⟩ := rdecl_shape h
      simp only [List.append_assoc, List.cons_append]
      rw [skipSpace_ws_cons hw lparen_not_space]
      have := skipSpace_length_le (ts ++ tail)
      simp only [List.length_cons, List.length_append] at this ⊢; omega

theorem many_unskip {α : Type} {p : Parser α} (hp : ∀ x, p (skipSpace x) = p x) {inp out : List Char} {a : α}
    {as : List α} (h : Many p (skipSpace inp) (a :: as) out) : Many p inp (a :: as) out := by
  cases h with
  | step h hlt hs =>
    rw [hp] at h
    exact .step h (by have := skipSpace_length_le inp; omega) hs

/-- what `many0(decl)` leaves: it gives back its input untouched if it reads nothing -/
def afterDecls (ds : List Decl) (tail : List Char) : List Char :=
  match ds with
  | [] => tail
  | _ :: _ => skipSpace tail

theorem skipSpace_afterDecls (ds : List Decl) (tail : List Char) : skipSpace (afterDecls ds tail) = skipSpace tail := by
  cases ds with
  | nil => rfl
  | cons d ds => exact skipSpace_idem _

theorem afterDecls_cons (ds : List Decl) {c : Char} (hc : isSpace c = false) (cs : List Char) :
    afterDecls ds (c :: cs) = c :: cs := by
  cases ds with
  | nil => rfl
  | cons d ds => exact skipSpace_cons_of_not_space hc _

theorem rdecls_many0 {ds : List Decl} {t : List Char} (h : RDecls ds t) (tail : List Char) (ht : decl tail = none) :
    many0 decl (t ++ tail) = some (ds, afterDecls ds tail) := by
  have hm := rdecls_many h tail ht
  cases h with
  | nil => exact many0_of_many (.stop ht)
  | cons h hs => exact many0_of_many (many_unskip decl_skipSpace hm)

theorem rdecls_many0_skip {ds : List Decl} {t : List Char} (h : RDecls ds t) (tail : List Char) (ht : decl tail = none) :
    many0 decl (skipSpace (t ++ tail)) = some (ds, skipSpace tail) :=
  many0_of_many (rdecls_many h tail ht)

theorem rdecls_many1 {ds : List Decl} {t : List Char} (h : RDecls ds t) (hne : ds ≠ []) (tail : List Char)
    (ht : decl tail = none) : many1 decl (t ++ tail) = some (ds, skipSpace tail) := by
  have hm := rdecls_many h tail ht
  cases h with
  | nil => exact absurd rfl hne
  | cons h hs => exact many1_of_many (many_unskip decl_skipSpace hm)

theorem reportStruct_intro {inp r0 r1 r2 r3 : List Char} {ds : List Decl}
    (h0 : skipSpace inp = '(' :: r0)
    (h1 : skipSpace r0 = 'R' :: 'e' :: 'p' :: 'o' :: 'r' :: 't' :: r1)
    (h2 : many1 decl r1 = some (ds, r2))
    (h3 : skipSpace r2 = ')' :: r3) :
    reportStruct inp = some (ds, skipSpace r3) := by
  unfold reportStruct
  simp only [ms0, Option.bind_eq_bind, Option.bind_some, Option.pure_def, h0, h1, h2, h3, tag_cons_cons, tag_nil,
    if_true, String.reduceToList]

theorem reportStruct_none_of {inp cs : List Char} {c : Char} (h : skipSpace inp = c :: cs) (hc : c ≠ '(') :
    reportStruct inp = none := by
  unfold reportStruct
  simp only [ms0, Option.bind_eq_bind, Option.bind_some, h, String.reduceToList, tag_cons_ne _ _ hc, Option.bind_none]

/-- `many0(decl)` stops in front of the Report block: `decl` reads `(`, the name `Report`, and then fails
on the `(` of the first entry -/
theorem decl_report_none {inp r0 r1 r2 : List Char}
    (h0 : skipSpace inp = '(' :: r0)
    (h1 : skipSpace r0 = 'R' :: 'e' :: 'p' :: 'o' :: 'r' :: 't' :: r1)
    (hb : NoNameHead r1) (h2 : skipSpace r1 = '(' :: r2) :
    decl inp = none := by
  have hn : name ('R' :: 'e' :: 'p' :: 'o' :: 'r' :: 't' :: r1) = some (['R', 'e', 'p', 'o', 'r', 't'], r1) :=
    name_docName (x := ['R', 'e', 'p', 'o', 'r', 't']) (by decide) hb
  unfold decl
  simp only [ms0, Option.bind_eq_bind, Option.bind_some, Option.bind_none, Option.pure_def, h0, skipSpace_idem, h1, hn,
    h2, atom_lparen, tag_cons_cons, tag_nil, if_true, if_false, Char.reduceEq, String.reduceToList]

theorem defs_intro_plain {inp r0 r1 r3 : List Char} {d1 d2 : List Decl}
    (h0 : skipSpace inp = '(' :: 'd' :: 'e' :: 'f' :: r0)
    (h1 : many0 decl r0 = some (d1, r1))
    (h2 : reportStruct r1 = none)
    (h3 : many0 decl r1 = some (d2, ')' :: r3)) :
    defs inp = some (d1 ++ d2, skipSpace r3) := by
  unfold defs
  simp only [ms0, Option.bind_eq_bind, Option.bind_some, Option.pure_def, h0, h1, h2, h3, tag_cons_cons, tag_nil,
    if_true, String.reduceToList, List.map_nil, List.nil_append]

theorem defs_intro_report {inp r0 r1 r2 r3 : List Char} {d1 rs d2 : List Decl}
    (h0 : skipSpace inp = '(' :: 'd' :: 'e' :: 'f' :: r0)
    (h1 : many0 decl r0 = some (d1, r1))
    (h2 : reportStruct r1 = some (rs, r2))
    (h3 : many0 decl r2 = some (d2, ')' :: r3)) :
    defs inp = some (rs.map reportPrefix ++ d1 ++ d2, skipSpace r3) := by
  unfold defs
  simp only [ms0, Option.bind_eq_bind, Option.bind_some, Option.pure_def, h0, h1, h2, h3, tag_cons_cons, tag_nil,
    if_true, String.reduceToList]
  rfl

theorem decl_rparen (cs : List Char) : decl (')' :: cs) = none :=
  decl_none_of (skipSpace_cons_of_not_space rparen_not_space cs) (by decide)

/-- P3d -/
theorem rdefs_parse {ds : List Decl} {t : List Char} (h : RDefs ds t) (rest : List Char) :
    defs (t ++ rest) = some (ds, skipSpace rest) := by
  cases h with
  | plain h0 hd h1 =>
    rename_i w0 td w1
    simp only [List.cons_append, List.append_assoc, List.nil_append, String.reduceToList]
    have hm := rdecls_many0 hd (')' :: (w1 ++ rest)) (decl_rparen _)
    rw [afterDecls_cons ds rparen_not_space] at hm
    have := defs_intro_plain (d2 := []) (r3 := w1 ++ rest) (skipSpace_ws_cons h0 lparen_not_space _) hm
      (reportStruct_none_of (skipSpace_cons_of_not_space rparen_not_space _) (by decide))
      (many0_of_many (.stop (decl_rparen _)))
    rw [skipSpace_ws h1, List.append_nil] at this
    exact this
  | report h0 hd1 hr0 hr1 hrs hne hr2 hr3 hd2 h1 =>
    rename_i d1 rs d2 w0 t1 wr0 wr1 tr wr2 wr3 t2 w1
    simp only [List.cons_append, List.append_assoc, List.nil_append, String.reduceToList]
    obtain ⟨w, z, hw, htr⟩ := rdecls_shape hrs hne
    -- `many0(decl)` stops in front of the Report block
    have hstop : decl (wr0 ++ '(' :: (wr1 ++ 'R' :: 'e' :: 'p' :: 'o' :: 'r' :: 't' ::
        (tr ++ (wr2 ++ ')' :: (wr3 ++ (t2 ++ ')' :: (w1 ++ rest))))))) = none := by
      rw [htr]
      refine decl_report_none (r2 := z ++ (wr2 ++ ')' :: (wr3 ++ (t2 ++ ')' :: (w1 ++ rest)))))
        (skipSpace_ws_cons hr0 lparen_not_space _) (skipSpace_ws_cons hr1 (by decide) _) ?_ ?_
      · rw [List.append_assoc]
        exact noNameHead_ws_append hw (.inr (noNameHead_cons (by decide) _))
      · rw [List.append_assoc, List.cons_append]; exact skipSpace_ws_cons hw lparen_not_space _
    have hm1 := rdecls_many0 hd1 _ hstop
    -- the Report block
    have hrep := rdecls_many1 hrs hne (wr2 ++ ')' :: (wr3 ++ (t2 ++ ')' :: (w1 ++ rest))))
      (decl_none_of (skipSpace_ws_cons hr2 rparen_not_space _) (by decide))
    rw [skipSpace_ws_cons hr2 rparen_not_space] at hrep
    have hrs' := reportStruct_intro (r3 := wr3 ++ (t2 ++ ')' :: (w1 ++ rest)))
      (skipSpace_ws_cons hr0 lparen_not_space _) (skipSpace_ws_cons hr1 (by decide) _) hrep
      (skipSpace_cons_of_not_space rparen_not_space _)
    rw [← reportStruct_skipSpace, ← skipSpace_afterDecls d1, reportStruct_skipSpace, skipSpace_ws hr3] at hrs'
    -- the declarations after the block
    have hm2 := rdecls_many0_skip hd2 (')' :: (w1 ++ rest)) (decl_rparen _)
    rw [skipSpace_cons_of_not_space rparen_not_space] at hm2
    have := defs_intro_report (skipSpace_ws_cons h0 lparen_not_space _) hm1 hrs' hm2
    rw [skipSpace_ws h1, List.append_assoc (List.map reportPrefix rs)] at this
    exact this

/-! ## P4: whole programs -/

/-- what `parseSource` does to the parsed events -/
def desugarEvents (evs : List Event) : List Event :=
  evs.map fun e => { e with body := e.body.map desugar }

/-- P4 (main): every rendering of a program parses back to that program, whatever the layout -/
theorem parse_render {ds : List Decl} {evs : List Event} {t : List Char} (h : RProg ds evs t) :
    parseSource t = some (ds, evs.map fun e => { e with body := e.body.map desugar }) := by
  obtain ⟨t1, t2, hd, he, rfl⟩ := h
  have h1 := rdefs_parse hd t2
  have h2 := revents_parse he [] ((t1 ++ t2).length + 1) (by simp only [List.length_append]; omega) EventsEnd.nil
  rw [List.append_nil, ← events_skipSpace] at h2
  exact parseSource_of h1 h2

/-! ## P5: layout independence -/

/-- two layouts of one program (same comment positions) have the same parse, hence the same image -/
theorem layout_independent {ds : List Decl} {evs : List Event} {t1 t2 : List Char}
    (h1 : RProg ds evs t1) (h2 : RProg ds evs t2) : parseSource t1 = parseSource t2 := by
  rw [parse_render h1, parse_render h2]

/-- drop the `Expr.none` items (comments) of every body -/
def stripNone (evs : List Event) : List Event :=
  evs.map fun e => { e with body := e.body.filter (· ≠ .none) }

theorem desugar_eq_none (e : Expr) : desugar e = .none ↔ e = .none := by
  cases e with
  | atom p => simp [desugar]
  | cmd c => cases c <;> simp [desugar]
  | sexp o l r => simp [desugar]
  | none => simp [desugar]

theorem filter_none_desugar (b : List Expr) :
    (b.map desugar).filter (· ≠ .none) = (b.filter (· ≠ .none)).map desugar := by
  induction b with
  | nil => rfl
  | cons e b ih =>
    by_cases h : e = .none
    · subst h; simpa [desugar] using ih
    · have h' : ¬ desugar e = .none := fun hd => h ((desugar_eq_none e).mp hd)
      simpa [List.filter_cons, h, h'] using ih

theorem stripNone_desugar (evs : List Event) :
    stripNone (evs.map fun e => { e with body := e.body.map desugar }) =
      (stripNone evs).map fun e => { e with body := e.body.map desugar } := by
  simp only [stripNone, List.map_map]
  apply List.map_congr_left
  intro e _
  simp only [Function.comp, filter_none_desugar]

/-- comments only add `Expr.none` items (events level): two renderings of event lists that agree up to
`Expr.none` items in the bodies parse to event lists that agree up to `Expr.none` items -/
theorem comments_only_add_none_events {evs evs' : List Event} {t t' : List Char}
    (h : REvents evs t) (h' : REvents evs' t') (hs : stripNone evs = stripNone evs')
    (fuel fuel' : Nat) (hf : t.length < fuel) (hf' : t'.length < fuel') :
    ∃ p p', events fuel t = some (p, []) ∧ events fuel' t' = some (p', []) ∧ stripNone p = stripNone p' := by
  refine ⟨evs, evs', ?_, ?_, hs⟩
  · have := revents_parse h [] fuel hf EventsEnd.nil
    rwa [List.append_nil] at this
  · have := revents_parse h' [] fuel' hf' EventsEnd.nil
    rwa [List.append_nil] at this

/-- comments only add `Expr.none` items (program level): if two programs agree up to `Expr.none` items in
the bodies, so do the parse results of any of their layouts (and the compiler skips `Expr.none`) -/
theorem comments_only_add_none {ds : List Decl} {evs evs' : List Event} {t t' : List Char}
    (h : RProg ds evs t) (h' : RProg ds evs' t') (hs : stripNone evs = stripNone evs') :
    ∃ p p', parseSource t = some (ds, p) ∧ parseSource t' = some (ds, p') ∧ stripNone p = stripNone p' := by
  refine ⟨_, _, parse_render h, parse_render h', ?_⟩
  rw [stripNone_desugar, stripNone_desugar, hs]

/-! ## The documented style is covered

The relation asks for a separator only between two adjacent atoms (R3); the documented style — operator,
operands always separated by whitespace — is a special case. -/

theorem RExpr.sexp_ws1 {o : Op} {l r : Expr} {ot w0 w1 tl w2 tr w3 : List Char}
    (ho : ROp o ot) (h0 : Ws w0) (h1 : Ws1 w1) (hl : RExpr l tl) (h2 : Ws1 w2) (hr : RExpr r tr) (h3 : Ws w3)
    (hck : o = .bind ∨ isIfE l = false) :
    RExpr (.sexp o l r) ('(' :: (w0 ++ (ot ++ (w1 ++ (tl ++ (w2 ++ (tr ++ (w3 ++ [')'])))))))) :=
  .sexp ho h0 h1.1 hl h2.1 (.inl h2.2) hr h3 hck

/-- the operator of a rendered s-expression is never `Def` -/
theorem rexpr_sexp_ne_def {o : Op} {l r : Expr} {t : List Char} (h : RExpr (.sexp o l r) t) : o ≠ .def := by
  cases h with
  | sexp ho => exact rop_ne_def ho

/-! ## Non-vacuity: concrete layouts

`Demo.demo_rprog` builds, from the constructors, a rendering derivation for a program text with tabs, CR/LF,
comments, word and symbol spellings; `Demo.demo_parse` is then an instance of `parse_render`. The `#guard`s
run the executable parser on the same texts: they are compiler-evaluated tests, not theorems (kernel
`decide` on whole-program parsing is too slow). -/

namespace Demo

/-- string literal to characters -/
abbrev L (s : String) : List Char := s.toList

open Lean in
/-- `chars! "ab"` is the explicit list `['a', 'b']`: long texts written this way cost the kernel nothing
(evaluating `String.toList` on a long literal is slow) -/
macro "chars!" s:str : term => do
  let elems : Array (TSyntax `term) := (s.getString.toList.map fun c => (⟨Syntax.mkCharLit c⟩ : TSyntax `term)).toArray
  `([$elems,*])

theorem tt' : RExpr (.atom (.bool true)) (L "true") := .atom .tt
theorem nm (s : String) (h : DocName (L s) := by decide) : RExpr (.atom (.name (L s))) (L s) := .atom (.name h)
theorem nu (s : String) (hne : L s ≠ [] := by decide) (hd : ∀ c ∈ L s, isAsciiDigit c = true := by decide)
    (hlt : digitsVal (L s) < 2^64 := by decide) : RExpr (.atom (.num (digitsVal (L s)))) (L s) :=
  .atom (.num hne hd hlt)
theorem cm (c : Command) (w1 w2 : String) (h1 : Ws (L w1) := by decide) (h2 : Ws (L w2) := by decide) :
    RExpr (.cmd c) ('(' :: (L w1 ++ (cmdText c ++ (L w2 ++ [')'])))) := .cmd c h1 h2
theorem sx (o : Op) (w0 ot w1 : String) {l : Expr} {tl : List Char} (hl : RExpr l tl) (w2 : String)
    {r : Expr} {tr : List Char} (hr : RExpr r tr) (w3 : String)
    (ho : ROp o (L ot) := by decide) (h0 : Ws (L w0) := by decide) (h1 : Ws (L w1) := by decide)
    (h2 : Ws (L w2) := by decide)
    (hsep : L w2 ≠ [] ∨ isAtomE l = false ∨ isAtomE r = false := by decide) (h3 : Ws (L w3) := by decide)
    (hck : o = .bind ∨ isIfE l = false := by decide) :
    RExpr (.sexp o l r) ('(' :: (L w0 ++ (L ot ++ (L w1 ++ (tl ++ (L w2 ++ (tr ++ (L w3 ++ [')'])))))))) :=
  .sexp ho h0 h1 hl h2 hsep hr h3 hck


theorem ff' : RExpr (.atom (.bool false)) (L "false") := .atom .ff

/-- a comment item of a body -/
theorem co (s : String) (h : ∀ c ∈ L s, c ≠ '\n' := by decide) : RItem .none (commentLine (L s)) := .comment h
/-- a statement item of a body -/
theorem st {e : Expr} {t : List Char} (h : RExpr e t) (hn : isAtomE e = false := by decide) : RItem e t := .stmt h hn
theorem one {e : Expr} {t : List Char} (h : RItem e t) : RStmts [e] t := .one h
theorem more {e : Expr} {t : List Char} (h : RItem e t) (w : String) {es : List Expr} {ts : List Char}
    (hs : RStmts es ts) (hw : Ws (L w) := by decide) : RStmts (e :: es) (t ++ (L w ++ ts)) := .cons h hw hs

theorem ev (w0 w1 w2 : String) {c : Expr} {tc : List Char} (hc : RExpr c tc) (w3 : String) {b : List Expr}
    {tb : List Char} (hb : RStmts b tb) (w4 w5 : String)
    (h0 : Ws (L w0) := by decide) (h1 : Ws (L w1) := by decide) (h2 : Ws (L w2) := by decide)
    (h3 : Ws (L w3) := by decide) (h4 : Ws (L w4) := by decide) (h5 : Ws (L w5) := by decide) :
    REvent ⟨c, b⟩ (L w0 ++ ('(' :: (L w1 ++ ("when".toList ++ (L w2 ++ (tc ++ (L w3 ++ (tb ++ (L w4 ++ (')' :: L w5)))))))))) :=
  .mk h0 h1 h2 hc h3 hb h4 h5

theorem dc (v : Bool) (w0 w1 w2 x w3 : String) {p : Prim} {ta : List Char} (ha : RAtom p ta) (w4 w5 : String)
    (h0 : Ws (L w0) := by decide) (h1 : Ws (L w1) := by decide) (h2 : Ws (L w2) := by decide)
    (hx : DeclName (L x) := by decide) (h3 : Ws (L w3) := by decide) (hp : isNamePrim p = false := by decide)
    (hsep : NoNameHead (L w3 ++ ta) := by decide) (h4 : Ws (L w4) := by decide) (h5 : Ws (L w5) := by decide) :
    RDecl { vol := v, var := L x, init := initTy (.atom p) }
      (L w0 ++ ('(' :: (L w1 ++ (volText v (L w2) ++ (L x ++ (L w3 ++ (ta ++ (L w4 ++ (')' :: L w5))))))))) :=
  .mk v h0 h1 h2 hx h3 hp ha hsep h4 h5

theorem numA (s : String) (hne : L s ≠ [] := by decide) (hd : ∀ c ∈ L s, isAsciiDigit c = true := by decide)
    (hlt : digitsVal (L s) < 2^64 := by decide) : RAtom (.num (digitsVal (L s))) (L s) := .num hne hd hlt

/-- a program text with tabs, CR/LF, comments, word and symbol spellings, leading zeros, `+infinity`,
a Report block with a volatile entry, a legacy `Report.` declaration, and juxtaposed statements -/
def demoText : List Char := chars!
  "(def (Report\r\n\t(volatile acked 0)\n\t(rtt +infinity))\n (cwnd 010) (Report.legacy false))\n# on every ack\n(when true\n\t# count bytes\n\t(:= Report.acked (add Report.acked Ack.bytes_acked))# trailing\r\n\t(fallthrough))\n(when (|| (> Micros 3000) (== Flow.was_timeout true))(report)( bind Micros 0 )\n)\n"

def demoDecls : List Decl :=
  [ { vol := true, var := L "Report.acked", init := .num (some 0) },
    { vol := false, var := L "Report.rtt", init := .num (some (2^64 - 1)) },
    { vol := false, var := L "cwnd", init := .num (some 10) },
    { vol := false, var := L "Report.legacy", init := .bool (some false) } ]

def demoEvents : List Event :=
  [ { flag := .atom (.bool true),
      body := [ .none,
                .sexp .bind (.atom (.name (L "Report.acked")))
                  (.sexp .add (.atom (.name (L "Report.acked"))) (.atom (.name (L "Ack.bytes_acked")))),
                .none,
                .cmd .fallthrough ] },
    { flag := .sexp .or (.sexp .gt (.atom (.name (L "Micros"))) (.atom (.num 3000)))
                        (.sexp .equiv (.atom (.name (L "Flow.was_timeout"))) (.atom (.bool true))),
      body := [ .cmd .report, .sexp .bind (.atom (.name (L "Micros"))) (.atom (.num 0)) ] } ]

theorem demo_defs : RDefs demoDecls
    (chars! "(def (Report\r\n\t(volatile acked 0)\n\t(rtt +infinity))\n (cwnd 010) (Report.legacy false))\n") :=
  RDefs.report (w0 := L "") (t1 := []) (wr0 := L " ") (wr1 := L "") (wr2 := L "") (wr3 := L "\n") (w1 := L "\n")
    (d1 := [])
    (by decide) .nil (by decide) (by decide)
    (.cons (dc true "\r\n\t" "" " " "acked" " " (numA "0") "" "\n\t")
      (.cons (dc false "" "" "" "rtt" " " .inf "" "") .nil))
    (by simp) (by decide) (by decide)
    (.cons (dc false " " "" "" "cwnd" " " (numA "010") "" " ")
      (.cons (dc false "" "" "" "Report.legacy" " " .ff "" "") .nil))
    (by decide)

set_option maxRecDepth 8192 in
theorem demo_events : REvents demoEvents
    (chars! "# on every ack\n(when true\n\t# count bytes\n\t(:= Report.acked (add Report.acked Ack.bytes_acked))# trailing\r\n\t(fallthrough))\n(when (|| (> Micros 3000) (== Flow.was_timeout true))(report)( bind Micros 0 )\n)\n") :=
  .cons
    (.commented (w := L "") (text := L " on every ack") (by decide) (by decide)
      (ev "" "" " " tt' "\n\t"
        (more (co " count bytes") "\t"
          (more (st (sx .bind "" ":=" " " (nm "Report.acked") " "
                      (sx .add "" "add" " " (nm "Report.acked") " " (nm "Ack.bytes_acked") "") "")) ""
            (more (co " trailing\r") "\t"
              (one (st (cm .fallthrough "" ""))))))
        "" "\n"))
    (.one (.plain
      (ev "" "" " "
        (sx .or "" "||" " " (sx .gt "" ">" " " (nm "Micros") " " (nu "3000") "") " "
          (sx .equiv "" "==" " " (nm "Flow.was_timeout") " " tt' "") "")
        ""
        (more (st (cm .report "" "")) "" (one (st (sx .bind " " "bind" " " (nm "Micros") " " (nu "0") " "))))
        "\n" "\n")))

set_option maxRecDepth 8192 in
theorem demo_rprog : RProg demoDecls demoEvents demoText :=
  ⟨_, _, demo_defs, demo_events, by decide⟩

/-- the parse of the demo text, obtained from the theorem (not by evaluation) -/
theorem demo_parse : parseSource demoText = some (demoDecls, desugarEvents demoEvents) :=
  parse_render demo_rprog

-- the same fact, by running the parser — a compiler-evaluated test (`#guard`), not a theorem: kernel
-- `decide` on whole-program parsing is too slow
#guard parseSource demoText == some (demoDecls, desugarEvents demoEvents)


/-! A second layout of the same program: one line, the other spellings, no optional whitespace, other
numerals (`00`, `18446744073709551615`), empty comments at the same positions. -/

def demoText2 : List Char := chars!
  "(def(Report(volatile acked 00)(rtt 18446744073709551615))(cwnd 10)(Report.legacy false))#x\n(when true#\n(bind Report.acked(+ Report.acked Ack.bytes_acked))#\n(fallthrough))(when(or(gt Micros 3000)(eq Flow.was_timeout true))( report )(:= Micros 0))"

theorem demo_defs2 : RDefs demoDecls
    (chars! "(def(Report(volatile acked 00)(rtt 18446744073709551615))(cwnd 10)(Report.legacy false))") :=
  RDefs.report (w0 := L "") (t1 := []) (wr0 := L "") (wr1 := L "") (wr2 := L "") (wr3 := L "") (w1 := L "")
    (d1 := [])
    (by decide) .nil (by decide) (by decide)
    (.cons (dc true "" "" " " "acked" " " (numA "00") "" "")
      (.cons (dc false "" "" "" "rtt" " " (numA "18446744073709551615") "" "") .nil))
    (by simp) (by decide) (by decide)
    (.cons (dc false "" "" "" "cwnd" " " (numA "10") "" "")
      (.cons (dc false "" "" "" "Report.legacy" " " .ff "" "") .nil))
    (by decide)

set_option maxRecDepth 8192 in
theorem demo_events2 : REvents demoEvents
    (chars! "#x\n(when true#\n(bind Report.acked(+ Report.acked Ack.bytes_acked))#\n(fallthrough))(when(or(gt Micros 3000)(eq Flow.was_timeout true))( report )(:= Micros 0))") :=
  .cons
    (.commented (w := L "") (text := L "x") (by decide) (by decide)
      (ev "" "" " " tt' ""
        (more (co "") ""
          (more (st (sx .bind "" "bind" " " (nm "Report.acked") ""
                      (sx .add "" "+" " " (nm "Report.acked") " " (nm "Ack.bytes_acked") "") "")) ""
            (more (co "") ""
              (one (st (cm .fallthrough "" ""))))))
        "" ""))
    (.one (.plain
      (ev "" "" ""
        (sx .or "" "or" "" (sx .gt "" "gt" " " (nm "Micros") " " (nu "3000") "") ""
          (sx .equiv "" "eq" " " (nm "Flow.was_timeout") " " tt' "") "")
        ""
        (more (st (cm .report " " " ")) "" (one (st (sx .bind "" ":=" " " (nm "Micros") " " (nu "0") ""))))
        "" "")))

set_option maxRecDepth 8192 in
theorem demo_rprog2 : RProg demoDecls demoEvents demoText2 :=
  ⟨_, _, demo_defs2, demo_events2, by decide⟩

/-- P5 on the two layouts -/
theorem demo_same_parse : parseSource demoText = parseSource demoText2 :=
  layout_independent demo_rprog demo_rprog2

#guard parseSource demoText2 == some (demoDecls, desugarEvents demoEvents)

/-! The same program without any comment: the bodies lose their `Expr.none` items and nothing else. -/

def demoText3 : List Char := chars!
  "(def(Report(volatile acked 00)(rtt 18446744073709551615))(cwnd 10)(Report.legacy false))(when true(bind Report.acked(+ Report.acked Ack.bytes_acked))(fallthrough))(when(or(gt Micros 3000)(eq Flow.was_timeout true))( report )(:= Micros 0))"

def demoEvents3 : List Event := stripNone demoEvents

set_option maxRecDepth 8192 in
theorem demo_events3 : REvents demoEvents3
    (chars! "(when true(bind Report.acked(+ Report.acked Ack.bytes_acked))(fallthrough))(when(or(gt Micros 3000)(eq Flow.was_timeout true))( report )(:= Micros 0))") :=
  .cons
    (.plain
      (ev "" "" " " tt' ""
        (more (st (sx .bind "" "bind" " " (nm "Report.acked") ""
                    (sx .add "" "+" " " (nm "Report.acked") " " (nm "Ack.bytes_acked") "") "")) ""
          (one (st (cm .fallthrough "" ""))))
        "" ""))
    (.one (.plain
      (ev "" "" ""
        (sx .or "" "or" "" (sx .gt "" "gt" " " (nm "Micros") " " (nu "3000") "") ""
          (sx .equiv "" "eq" " " (nm "Flow.was_timeout") " " tt' "") "")
        ""
        (more (st (cm .report " " " ")) "" (one (st (sx .bind "" ":=" " " (nm "Micros") " " (nu "0") ""))))
        "" "")))

set_option maxRecDepth 8192 in
theorem demo_rprog3 : RProg demoDecls demoEvents3 demoText3 :=
  ⟨_, _, demo_defs2, demo_events3, by decide⟩

theorem demo_comments : ∃ p p', parseSource demoText = some (demoDecls, p) ∧
    parseSource demoText3 = some (demoDecls, p') ∧ stripNone p = stripNone p' :=
  comments_only_add_none demo_rprog demo_rprog3 (by decide)

#guard parseSource demoText3 == some (demoDecls, desugarEvents (stripNone demoEvents))


/-! ### The parser quirks behind the restrictions of the relation (compiler-evaluated tests, not theorems) -/

-- R6: the empty definition block is exactly `(def)`; no whitespace between `(` and `def`
#guard (parseSource (chars! "(def)(when true (report))")).isSome
#guard parseSource (chars! "(def )(when true (report))") == none
#guard parseSource (chars! "( def)(when true (report))") == none
#guard (parseSource (chars! "(def (x 0) )(when true (report))")).isSome
-- R5: a comment needs its newline, also as the last item of a body; no comment after the last event
#guard (parseSource (chars! "(def)(when true (report) # c\n)")).isSome
#guard parseSource (chars! "(def)(when true (report) # c)") == none
#guard parseSource (chars! "(def)(when true (report))# c\n") == none
-- exactly one comment line in front of an event
#guard (parseSource (chars! "(def)#a\n(when true (report))")).isSome
#guard parseSource (chars! "(def)#a\n#b\n(when true (report))") == none
-- R1: `truex` is split into `true` and `x`; `1x` into `1` and `x`
#guard parseSource (chars! "(def)(when truex (report))") ==
  parseSource (chars! "(def)(when true x (report))")
#guard parseSource (chars! "(def)(when (> 1x 0) (report))") == none
-- R2: `(volatilex 0)` declares a volatile `x`
#guard parseSource (chars! "(def (volatilex 0))(when true (report))") ==
  parseSource (chars! "(def (volatile x 0))(when true (report))")
-- R3: adjacent atoms run together
#guard parseSource (chars! "(def)(when true (:= x1 2))") != parseSource (chars! "(def)(when true (:= x 12))")
#guard parseSource (chars! "(def (x0))(when true (report))") == none
-- R4: bare atoms in a body run together without a separator
#guard parseSource (chars! "(def)(when true xy)") != parseSource (chars! "(def)(when true x y)")
-- comments are not allowed inside an s-expression
#guard parseSource (chars! "(def)(when true (+ 1 #c\n 2))") == none

end Demo
end Portus.Lang
