import PortusModel.Lang.Fragment
/-!
# `lower ≈ Sem`: the reference lowering computes the source semantics (C01, second half)

Part 1: register-file algebra, the simulation relation in coordinates, value expressions (stage 1:
pure expressions and hazard-free nested binds, `valueE`) and statements (stage 2, `stmtOk2`).
Part 2 (`LowerSem2.lean`): events, invocations, runs, program switch.

Stage 1 was first proved for pure expressions only (no assignment inside an expression). It now covers
`valueE`: evaluation may change the source state, the machine state follows (`Sim ρ s' c'`), and the result
register holds the value *after* the whole expression ran. The new ingredient is hazard freedom
(`operand_safe`): the code of a right operand never writes the result register of the left operand —
temporaries by the counter discipline, named variables by `noHazard` and `RhoOk.inj`.
Guarded binds nested as values (`(:= x (if c v))`, `(:= x (!if c v))`, `(:= x (ewma a v))` inside an expression)
are covered too: `guard_res` runs the in-place instruction after the two operands (`operands_res`), the result
register is the register of `x`; the inductions go through `Expr.ind2`, which also gives the hypothesis for the two
operands of the conditional / ewma node.

## Corrections to the statements as first proposed (see the final report)

* `Sim` says nothing about the *lengths* of the register files, and `writeReg` on a file that is too
  short is a no-op (`List.set` out of range). So every statement that executes an instruction needs
  the hypothesis `RegsWf c` (the files have at least libccp's sizes), which all executions preserve.
  Counter-example without it: `c.regs.tmp = []` (all other files as in `Regs.zero`), `s` all zero:
  `Sim ρ s c` holds, `(+ 1 2)` evaluates to `3`, the lowered code leaves `tmp[0]` unreadable (`0`).
* Stage 3 needs that no body statement assigns `__eventFlag` (`noFlagWriteE`): see `LowerSem2.lean`.
-/
namespace Portus.Lang.Frag
open Portus Portus.Lang Portus.Vm

/-! ## register files -/

/-- the register files have (at least) libccp's sizes; `writeReg` silently drops a write to a slot
that does not exist, so without this no simulation can hold -/
def RegsWf (c : Conn) : Prop :=
  110 ≤ c.regs.report.length ∧ 110 ≤ c.regs.control.length ∧ 6 ≤ c.regs.impl.length ∧
  8 ≤ c.regs.tmp.length ∧ 8 ≤ c.regs.loc.length

theorem getD_set_self (l : List Val) (i : Nat) (v : Val) (h : i < l.length) :
    (l.set i v).getD i 0 = v := by
  simp [List.getD_eq_getElem?_getD, h]

theorem getD_set_ne (l : List Val) (i j : Nat) (v : Val) (h : i ≠ j) :
    (l.set i v).getD j 0 = l.getD j 0 := by
  simp [List.getD_eq_getElem?_getD, h]

/-- a cell that exists in libccp's register files and can be written -/
def CellOk (r : VReg) : Prop :=
  (r.cls = 3 ∧ r.idx < 8) ∨ ((r.cls = 0 ∨ r.cls = 8) ∧ r.idx < 110) ∨
  ((r.cls = 5 ∨ r.cls = 6) ∧ r.idx < 110) ∨ (r.cls = 2 ∧ r.idx < 6) ∨ (r.cls = 7 ∧ r.idx < 8)

theorem readReg_writeReg_ne (env env0 : Env) (c : Conn) (v : Val) (r r' : VReg) (h : ¬ sameCell r r') :
    readReg env (writeReg env0 c v r) r' = readReg env c r' := by
  obtain ⟨a, i⟩ := r
  obtain ⟨b, j⟩ := r'
  simp only [sameCell, fileOf] at h
  unfold writeReg
  split <;> (try split) <;> (try split) <;> unfold readReg <;> split <;> simp_all <;>
    (apply getD_set_ne; omega)

theorem readReg_writeReg_self (env env0 : Env) (c : Conn) (v : Val) (r : VReg) (hwf : RegsWf c)
    (hr : CellOk r) : readReg env (writeReg env0 c v r) r = v := by
  obtain ⟨a, i⟩ := r
  obtain ⟨h1, h2, h3, h4, h5⟩ := hwf
  simp only [CellOk] at hr
  rcases hr with ⟨rfl, hi⟩ | ⟨rfl | rfl, hi⟩ | ⟨rfl | rfl, hi⟩ | ⟨rfl, hi⟩ | ⟨rfl, hi⟩
  · simp only [writeReg, hi, if_true, readReg]; exact getD_set_self _ _ _ (by omega)
  · simp only [writeReg, hi, if_true, readReg]; exact getD_set_self _ _ _ (by omega)
  · simp only [writeReg, hi, if_true, readReg]; exact getD_set_self _ _ _ (by omega)
  · simp only [writeReg, hi, if_true, readReg]; exact getD_set_self _ _ _ (by omega)
  · simp only [writeReg, hi, if_true, readReg]; exact getD_set_self _ _ _ (by omega)
  · simp only [writeReg]
    split
    · simp only [readReg]; exact getD_set_self _ _ _ (by omega)
    · have : i = 3 := by omega
      subst this
      simp only [if_true, readReg]; exact getD_set_self _ _ _ (by omega)
  · simp only [writeReg, hi, if_true, readReg]; exact getD_set_self _ _ _ (by omega)

theorem writeReg_wf (env : Env) (c : Conn) (v : Val) (r : VReg) (hwf : RegsWf c) :
    RegsWf (writeReg env c v r) := by
  unfold writeReg
  split <;> (try split) <;> (try split) <;> simp_all [RegsWf]

/-- a write to anything but `Micros` (impl 3) leaves the clock origin alone -/
theorem writeReg_t0 (env : Env) (c : Conn) (v : Val) (r : VReg) (h : ¬ (r.cls = 2 ∧ r.idx = 3)) :
    (writeReg env c v r).t0 = c.t0 := by
  unfold writeReg
  split <;> (try split) <;> (try split) <;> simp_all

theorem writeReg_t0_micros (env : Env) (c : Conn) (v : Val) :
    (writeReg env c v ⟨2, 3⟩).t0 = env.now - v := by
  simp [writeReg]

/-! ## frames: states that differ only in temporaries -/

/-- `c'` differs from `c` at most in the temporaries, and those below `k` are unchanged -/
structure TmpFrame (k : Nat) (c c' : Conn) : Prop where
  report : c'.regs.report = c.regs.report
  control : c'.regs.control = c.regs.control
  impl : c'.regs.impl = c.regs.impl
  loc : c'.regs.loc = c.regs.loc
  t0 : c'.t0 = c.t0
  programIndex : c'.programIndex = c.programIndex
  staged : c'.staged = c.staged
  pending : c'.pending = c.pending
  tmpLen : c'.regs.tmp.length = c.regs.tmp.length
  tmp : ∀ j, j < k → c'.regs.tmp.getD j 0 = c.regs.tmp.getD j 0

theorem TmpFrame.refl (k : Nat) (c : Conn) : TmpFrame k c c :=
  ⟨rfl, rfl, rfl, rfl, rfl, rfl, rfl, rfl, rfl, fun _ _ => rfl⟩

theorem TmpFrame.trans {k k' : Nat} {c c' c'' : Conn} (h1 : TmpFrame k c c') (h2 : TmpFrame k' c' c'')
    (hk : k ≤ k') : TmpFrame k c c'' :=
  ⟨h2.report.trans h1.report, h2.control.trans h1.control, h2.impl.trans h1.impl, h2.loc.trans h1.loc,
   h2.t0.trans h1.t0, h2.programIndex.trans h1.programIndex, h2.staged.trans h1.staged,
   h2.pending.trans h1.pending, h2.tmpLen.trans h1.tmpLen,
   fun j hj => (h2.tmp j (by omega)).trans (h1.tmp j hj)⟩

theorem TmpFrame.mono {k k' : Nat} {c c' : Conn} (h : TmpFrame k' c c') (hk : k ≤ k') : TmpFrame k c c' :=
  { h with tmp := fun j hj => h.tmp j (by omega) }

theorem TmpFrame.writeTmp (env : Env) (c : Conn) (v : Val) (k j : Nat) (hk : k ≤ j) :
    TmpFrame k c (writeReg env c v (vTmp j)) := by
  show TmpFrame k c (writeReg env c v ⟨7, j⟩)
  simp only [writeReg]
  by_cases hj : j < 8
  · simp only [hj, if_true]
    refine ⟨rfl, rfl, rfl, rfl, rfl, rfl, rfl, rfl, by simp, fun i hi => ?_⟩
    exact getD_set_ne _ _ _ _ (by omega)
  · simp only [hj, if_false]; exact TmpFrame.refl _ _

theorem TmpFrame.wf {k : Nat} {c c' : Conn} (h : TmpFrame k c c') (hwf : RegsWf c) : RegsWf c' := by
  obtain ⟨h1, h2, h3, h4, h5⟩ := hwf
  exact ⟨by rw [h.report]; exact h1, by rw [h.control]; exact h2, by rw [h.impl]; exact h3,
    by rw [h.tmpLen]; exact h4, by rw [h.loc]; exact h5⟩

theorem TmpFrame.readReg {k : Nat} {c c' : Conn} (h : TmpFrame k c c') (env : Env) (r : VReg)
    (hr : r.cls = 7 → r.idx < k) : readReg env c' r = readReg env c r := by
  unfold Vm.readReg
  split <;> first
    | rfl
    | rw [h.report]
    | rw [h.control]
    | rw [h.loc]
    | rw [h.impl]
    | exact h.tmp _ (hr (by assumption))

/-! ## names and their registers -/

theorem prim_table : ∀ i (h : i < 15),
    primNames[i].toList ≠ "Micros".toList ∧ primNames[i].toList ≠ "Cwnd".toList ∧
    primNames[i].toList ≠ "Rate".toList ∧ primNames[i].toList ≠ "__eventFlag".toList ∧
    primNames[i].toList ≠ "__shouldContinue".toList ∧ primNames[i].toList ≠ "__shouldReport".toList ∧
    Sem.primIndex primNames[i].toList = some i := by decide

theorem read_prim (env : Env) (s : Sem.SrcState) (i : Nat) (h : i < 15) :
    Sem.read env s primNames[i].toList = readPrim env i := by
  obtain ⟨h1, h2, h3, h4, h5, h6, h7⟩ := prim_table i h
  simp only [Sem.read, h1, h2, h3, h4, h5, h6, h7, if_false]

theorem builtin_cases {x : Name} (h : isBuiltinName x = true) :
    (∃ i, ∃ h : i < 15, x = primNames[i].toList) ∨ (∃ i, ∃ h : i < 6, x = implNames[i].toList) := by
  unfold isBuiltinName at h
  rw [Bool.or_eq_true, List.any_eq_true, List.any_eq_true] at h
  rcases h with ⟨y, hy, e⟩ | ⟨y, hy, e⟩
  · left
    obtain ⟨i, hi, rfl⟩ := List.mem_iff_getElem.mp hy
    exact ⟨i, hi, (of_decide_eq_true e).symm⟩
  · right
    obtain ⟨i, hi, rfl⟩ := List.mem_iff_getElem.mp hy
    exact ⟨i, hi, (of_decide_eq_true e).symm⟩

theorem nonbuiltin_facts {x : Name} (h : isBuiltinName x = false) :
    x ≠ "Micros".toList ∧ x ≠ "Cwnd".toList ∧ x ≠ "Rate".toList ∧ x ≠ "__eventFlag".toList ∧
    x ≠ "__shouldContinue".toList ∧ x ≠ "__shouldReport".toList ∧ Sem.primIndex x = none := by
  unfold isBuiltinName at h
  rw [Bool.or_eq_false_iff, List.any_eq_false, List.any_eq_false] at h
  obtain ⟨hp, hi⟩ := h
  refine ⟨?_, ?_, ?_, ?_, ?_, ?_, ?_⟩
  · intro e; exact hi "Micros" (by decide) (by simp [e])
  · intro e; exact hi "Cwnd" (by decide) (by simp [e])
  · intro e; exact hi "Rate" (by decide) (by simp [e])
  · intro e; exact hi "__eventFlag" (by decide) (by simp [e])
  · intro e; exact hi "__shouldContinue" (by decide) (by simp [e])
  · intro e; exact hi "__shouldReport" (by decide) (by simp [e])
  · unfold Sem.primIndex
    rw [List.findIdx?_eq_none_iff]
    intro y hy
    have := hp y hy
    simpa using this

theorem read_nonbuiltin (env : Env) (s : Sem.SrcState) {x : Name} (h : isBuiltinName x = false) :
    Sem.read env s x = Sem.lookupVar s.vars x := by
  obtain ⟨h1, h2, h3, h4, h5, h6, h7⟩ := nonbuiltin_facts h
  simp only [Sem.read, h1, h2, h3, h4, h5, h6, h7, if_false]

/-- a storage cell of a user variable: local, control or report -/
def VarCell (r : VReg) : Prop :=
  (r.cls = 3 ∧ r.idx < 8) ∨ ((r.cls = 0 ∨ r.cls = 8) ∧ r.idx < 110) ∨ ((r.cls = 5 ∨ r.cls = 6) ∧ r.idx < 110)

theorem VarCell.cellOk {r : VReg} (h : VarCell r) : CellOk r := by
  unfold VarCell at h; unfold CellOk; omega

/-- the three kinds of bound names -/
theorem rho_cases {ρ : Rho} {decls : List Sem.VarDecl} (hρ : RhoOk ρ decls) {x : Name} {r : VReg}
    (h : ρ x = some r) :
    (∃ i, ∃ hi : i < 15, x = primNames[i].toList ∧ r = ⟨4, i⟩) ∨
    (∃ i, ∃ hi : i < 6, x = implNames[i].toList ∧ r = ⟨2, i⟩) ∨
    (isBuiltinName x = false ∧ VarCell r) := by
  cases hb : isBuiltinName x with
  | false => exact .inr (.inr ⟨rfl, hρ.vars x r h hb⟩)
  | true =>
    rcases builtin_cases hb with ⟨i, hi, rfl⟩ | ⟨i, hi, rfl⟩
    · have := hρ.prims i hi
      rw [h] at this
      exact .inl ⟨i, hi, rfl, Option.some.inj this⟩
    · have := hρ.impls i hi
      rw [h] at this
      exact .inr (.inl ⟨i, hi, rfl, Option.some.inj this⟩)

theorem rho_not_tmp {ρ : Rho} {decls : List Sem.VarDecl} (hρ : RhoOk ρ decls) {x : Name} {r : VReg}
    (h : ρ x = some r) : r.cls ≠ 7 := by
  rcases rho_cases hρ h with ⟨i, hi, _, rfl⟩ | ⟨i, hi, _, rfl⟩ | ⟨_, hv⟩
  · simp
  · simp
  · unfold VarCell at hv; omega

/-- `Sim` does not look at temporaries -/
theorem Sim.frame {ρ : Rho} {decls : List Sem.VarDecl} (hρ : RhoOk ρ decls) {s : Sem.SrcState} {c c' : Conn}
    {k : Nat} (h : Sim ρ s c) (hf : TmpFrame k c c') : Sim ρ s c' := by
  refine ⟨fun env x r hx => ?_, hf.t0.trans h.2⟩
  rw [hf.readReg env r (fun h7 => absurd h7 (rho_not_tmp hρ hx))]
  exact h.1 env x r hx


/-! ## execution of instruction lists -/

theorem execInstrs_append (env : Env) (c : Conn) (a b : List VInstr) :
    execInstrs env c (a ++ b) =
      if (execInstrs env c a).2 < 0 then execInstrs env c a else execInstrs env (execInstrs env c a).1 b := by
  induction a generalizing c with
  | nil => simp [execInstrs]
  | cons i rest ih =>
    simp only [List.cons_append, execInstrs]
    by_cases h : (execInstr env c i).2 < 0
    · simp only [h, if_true]
    · simp only [h, if_false]; exact ih _

theorem execInstrs_append_ok {env : Env} {c c1 : Conn} {a : List VInstr} (b : List VInstr)
    (h : execInstrs env c a = (c1, 0)) : execInstrs env c (a ++ b) = execInstrs env c1 b := by
  rw [execInstrs_append, h]; simp

theorem execInstrs_append_fault {env : Env} {c c1 : Conn} {a : List VInstr} {rc : Int} (b : List VInstr)
    (h : execInstrs env c a = (c1, rc)) (hrc : rc < 0) : execInstrs env c (a ++ b) = (c1, rc) := by
  rw [execInstrs_append, h]; simp [hrc]

theorem execInstrs_single {env : Env} {c c2 : Conn} {i : VInstr} {rc : Int}
    (h : execInstr env c i = (c2, rc)) (hrc : rc ≤ 0) : execInstrs env c [i] = (c2, rc) := by
  simp only [execInstrs, h]
  by_cases h0 : rc < 0
  · simp [h0]
  · have : rc = 0 := by omega
    subst this; simp

theorem execInstrs_snoc {env : Env} {c c1 c2 : Conn} {a : List VInstr} {i : VInstr} {rc : Int}
    (h : execInstrs env c a = (c1, 0)) (hi : execInstr env c1 i = (c2, rc)) (hrc : rc ≤ 0) :
    execInstrs env c (a ++ [i]) = (c2, rc) := by
  rw [execInstrs_append_ok _ h]; exact execInstrs_single hi hrc

/-- the opcodes that go through the ALU -/
def AluOp (op : Nat) : Prop :=
  op = 0 ∨ op = 3 ∨ op = 4 ∨ op = 6 ∨ op = 8 ∨ op = 9 ∨ op = 10 ∨ op = 11 ∨ op = 12 ∨ op = 14

theorem pureOpcode_alu {o : Op} {code : Nat} (h : pureOpcode o = some code) : AluOp code := by
  cases o <;> simp [pureOpcode] at h <;> subst h <;> simp [AluOp]

theorem execInstr_alu (env : Env) (c : Conn) {op : Nat} (t l r : VReg) (hop : AluOp op) :
    execInstr env c ⟨op, t, l, r⟩ =
      match alu op (readReg env c l) (readReg env c r) with
      | (some v, _) => (writeReg env c v t, 0)
      | (none, rc) => (c, rc) := by
  unfold AluOp at hop
  rcases hop with rfl | rfl | rfl | rfl | rfl | rfl | rfl | rfl | rfl | rfl <;> rfl

theorem alu_none_neg {op : Nat} (hop : AluOp op) {a b : Val} {rc : Int} (h : alu op a b = (none, rc)) : rc < 0 := by
  unfold AluOp at hop
  rcases hop with rfl | rfl | rfl | rfl | rfl | rfl | rfl | rfl | rfl | rfl <;> simp only [alu] at h <;>
    (try split at h) <;> simp at h <;> omega


/-! ## the source evaluator on operator nodes -/


theorem pureOpcode_cases {o : Op} {code : Nat} (h : pureOpcode o = some code) :
    (o = .and ∧ code = 12) ∨ (o = .or ∧ code = 0) ∨
    (Sem.opCode o = code ∧ Sem.opCode o ≠ 99 ∧ o ≠ .and ∧ o ≠ .or) := by
  cases o <;> simp [pureOpcode] at h <;> subst h <;> simp [Sem.opCode]

/-- a non-value of the left operand is the result -/
theorem evalE_op_left {env : Env} {s : Sem.SrcState} {o : Op} {code : Nat} {l : Expr} (r : Expr) {x : Sem.Res}
    (ho : pureOpcode o = some code) (hl : Sem.evalE env s l = x) (hx : ∀ s' v, x ≠ .ok s' v) :
    Sem.evalE env s (.sexp o l r) = x := by
  cases o <;> simp [pureOpcode] at ho <;> simp only [Sem.evalE, Sem.opCode, hl] <;>
    cases x <;> first | rfl | exact absurd rfl (hx _ _) | simp

theorem evalE_op_right {env : Env} {s s1 : Sem.SrcState} {o : Op} {code : Nat} {l r : Expr} {a : Val} {x : Sem.Res}
    (ho : pureOpcode o = some code) (hl : Sem.evalE env s l = .ok s1 a) (hr : Sem.evalE env s1 r = x)
    (hx : ∀ s' v, x ≠ .ok s' v) :
    Sem.evalE env s (.sexp o l r) = x := by
  cases o <;> simp [pureOpcode] at ho <;> simp only [Sem.evalE, Sem.opCode, hl, hr] <;>
    cases x <;> first | rfl | exact absurd rfl (hx _ _) | simp

theorem evalE_arith_ok {env : Env} {s s1 s2 : Sem.SrcState} {o : Op} {l r : Expr} {a b : Val}
    (ho : Sem.opCode o ≠ 99) (hl : Sem.evalE env s l = .ok s1 a) (hr : Sem.evalE env s1 r = .ok s2 b) :
    Sem.evalE env s (.sexp o l r) =
      match alu (Sem.opCode o) a b with
      | (some v, _) => .ok s2 v
      | (none, rc) => .fault s2 rc := by
  cases o <;> simp [Sem.opCode] at ho <;> simp only [Sem.evalE, Sem.opCode, hl, hr] <;> rfl

theorem evalE_and_ok {env : Env} {s s1 s2 : Sem.SrcState} {l r : Expr} {a b : Val}
    (hl : Sem.evalE env s l = .ok s1 a) (hr : Sem.evalE env s1 r = .ok s2 b) :
    Sem.evalE env s (.sexp .and l r) =
      if (a == 0 || a == 1) && (b == 0 || b == 1) then .ok s2 (if a != 0 && b != 0 then 1 else 0) else .outside := by
  simp only [Sem.evalE, hl, hr]

theorem evalE_or_ok {env : Env} {s s1 s2 : Sem.SrcState} {l r : Expr} {a b : Val}
    (hl : Sem.evalE env s l = .ok s1 a) (hr : Sem.evalE env s1 r = .ok s2 b) :
    Sem.evalE env s (.sexp .or l r) =
      if (a == 0 || a == 1) && (b == 0 || b == 1) && !(a == 1 && b == 1)
      then .ok s2 (if a != 0 || b != 0 then 1 else 0) else .outside := by
  simp only [Sem.evalE, hl, hr]



/-! ## variables by name: get/set algebra -/

theorem lookupVar_cons (a : Name × Val) (vs : List (Name × Val)) (x : Name) :
    Sem.lookupVar (a :: vs) x = if a.1 = x then a.2 else Sem.lookupVar vs x := by
  simp only [Sem.lookupVar, List.find?_cons]
  by_cases h : a.1 = x <;> simp [h]

theorem lookupVar_nil (x : Name) : Sem.lookupVar [] x = 0 := rfl

theorem lookupVar_map_other (vs : List (Name × Val)) (x y : Name) (v : Val) (h : y ≠ x) :
    Sem.lookupVar (vs.map fun p => if p.1 = x then (x, v) else p) y = Sem.lookupVar vs y := by
  induction vs with
  | nil => rfl
  | cons a vs ih =>
    simp only [List.map_cons, lookupVar_cons, ih]
    by_cases ha : a.1 = x
    · have : ¬ x = y := fun e => h e.symm
      simp [ha, this]
    · simp [ha]

theorem lookupVar_map_self (vs : List (Name × Val)) (x : Name) (v : Val)
    (h : vs.any (fun p => decide (p.1 = x)) = true) :
    Sem.lookupVar (vs.map fun p => if p.1 = x then (x, v) else p) x = v := by
  induction vs with
  | nil => simp at h
  | cons a vs ih =>
    simp only [List.map_cons, lookupVar_cons]
    by_cases ha : a.1 = x
    · simp [ha]
    · simp only [ha, if_false]
      apply ih
      simpa [ha] using h

theorem lookupVar_append_self (vs : List (Name × Val)) (x : Name) (v : Val)
    (h : vs.any (fun p => decide (p.1 = x)) = false) :
    Sem.lookupVar (vs ++ [(x, v)]) x = v := by
  induction vs with
  | nil => simp [lookupVar_cons]
  | cons a vs ih =>
    simp only [List.any_cons, Bool.or_eq_false_iff, decide_eq_false_iff_not] at h
    simp only [List.cons_append, lookupVar_cons, h.1, if_false]
    exact ih h.2

theorem lookupVar_append_other (vs : List (Name × Val)) (x y : Name) (v : Val) (h : y ≠ x) :
    Sem.lookupVar (vs ++ [(x, v)]) y = Sem.lookupVar vs y := by
  induction vs with
  | nil =>
    have : ¬ x = y := fun e => h e.symm
    simp [lookupVar_cons, this, lookupVar_nil]
  | cons a vs ih => simp only [List.cons_append, lookupVar_cons, ih]

theorem lookupVar_setVar_self (vs : List (Name × Val)) (x : Name) (v : Val) :
    Sem.lookupVar (Sem.setVar vs x v) x = v := by
  unfold Sem.setVar
  split
  · exact lookupVar_map_self vs x v (by assumption)
  · exact lookupVar_append_self vs x v ((Bool.not_eq_true _).mp (by assumption))

theorem lookupVar_setVar_other (vs : List (Name × Val)) (x y : Name) (v : Val) (h : y ≠ x) :
    Sem.lookupVar (Sem.setVar vs x v) y = Sem.lookupVar vs y := by
  unfold Sem.setVar
  split
  · exact lookupVar_map_other vs x y v h
  · exact lookupVar_append_other vs x y v h

/-! ## `Sem.read` / `Sem.write` -/

theorem read_write_self {env env' : Env} {s s' : Sem.SrcState} {x : Name} {v : Val}
    (h : Sem.write env s x v = some s') : Sem.read env' s' x = v := by
  unfold Sem.write at h
  unfold Sem.read
  split at h
  · cases h; simp [*]
  split at h
  · cases h; simp [*]
  split at h
  · cases h; simp [*]
  split at h
  · cases h; simp [*]
  split at h
  · cases h; simp [*]
  split at h
  · cases h; simp [*]
  split at h
  · cases h
  · cases h
    rename_i hp
    have hp' : Sem.primIndex x = none := by simpa using hp
    simp only [*, if_false]
    exact lookupVar_setVar_self _ _ _

theorem read_write_other {env env' : Env} {s s' : Sem.SrcState} {x y : Name} {v : Val}
    (h : Sem.write env s x v = some s') (hy : y ≠ x) : Sem.read env' s' y = Sem.read env' s y := by
  unfold Sem.write at h
  split at h
  · rename_i hx; subst hx; cases h; simp only [Sem.read, hy, if_false]
  split at h
  · rename_i hx; subst hx; cases h; simp only [Sem.read, hy, if_false]
  split at h
  · rename_i hx; subst hx; cases h; simp only [Sem.read, hy, if_false]
  split at h
  · rename_i hx; subst hx; cases h; simp only [Sem.read, hy, if_false]
  split at h
  · rename_i hx; subst hx; cases h; simp only [Sem.read, hy, if_false]
  split at h
  · rename_i hx; subst hx; cases h; simp only [Sem.read, hy, if_false]
  split at h
  · cases h
  · cases h
    simp only [Sem.read, lookupVar_setVar_other _ _ _ _ hy]

theorem write_t0 {env : Env} {s s' : Sem.SrcState} {x : Name} {v : Val}
    (h : Sem.write env s x v = some s') (hx : x ≠ "Micros".toList) : s'.t0 = s.t0 := by
  unfold Sem.write at h
  simp only [hx, if_false] at h
  repeat (split at h; · cases h; rfl)
  split at h
  · cases h
  · cases h; rfl

theorem write_t0_micros {env : Env} {s s' : Sem.SrcState} {v : Val}
    (h : Sem.write env s "Micros".toList v = some s') : s'.t0 = env.now - v := by
  cases h; rfl

theorem write_ev {env : Env} {s s' : Sem.SrcState} {x : Name} {v : Val}
    (h : Sem.write env s x v = some s') (hx : x ≠ "__eventFlag".toList) : s'.ev = s.ev := by
  unfold Sem.write at h
  simp only [hx, if_false] at h
  repeat (split at h; · cases h; rfl)
  split at h
  · cases h
  · cases h; rfl

theorem write_isSome (env : Env) (s : Sem.SrcState) (x : Name) (v : Val) (h : Sem.primIndex x = none) :
    ∃ s', Sem.write env s x v = some s' := by
  unfold Sem.write
  simp only [h, Option.isSome_none, Bool.false_eq_true, if_false]
  repeat (split; · exact ⟨_, rfl⟩)
  exact ⟨_, rfl⟩

theorem write_not_prim {env : Env} {s s' : Sem.SrcState} {v : Val} {i : Nat} (hi : i < 15)
    (h : Sem.write env s primNames[i].toList v = some s') : False := by
  obtain ⟨h1, h2, h3, h4, h5, h6, h7⟩ := prim_table i hi
  simp only [Sem.write, h1, h2, h3, h4, h5, h6, h7, if_false, Option.isSome_some, if_true] at h
  cases h

/-- **`write_sim`**: an assignment in the source and the write of the name's register keep the
simulation. (`x` is not a primitive because `Sem.write` succeeded. `RegsWf c` is needed: a write to a
slot that does not exist is dropped.) -/
theorem write_sim {ρ : Rho} {decls : List Sem.VarDecl} (hρ : RhoOk ρ decls) {x : Name} {r : VReg} {env : Env}
    {s s' : Sem.SrcState} {c : Conn} {v : Val} (hx : ρ x = some r) (hw : Sem.write env s x v = some s')
    (sim : Sim ρ s c) (wf : RegsWf c) : Sim ρ s' (writeReg env c v r) := by
  have hcell : CellOk r := by
    rcases rho_cases hρ hx with ⟨i, hi, rfl, rfl⟩ | ⟨i, hi, _, rfl⟩ | ⟨_, hv⟩
    · exact (write_not_prim hi hw).elim
    · exact .inr (.inr (.inr (.inl ⟨rfl, hi⟩)))
    · exact hv.cellOk
  refine ⟨fun env' y ry hy => ?_, ?_⟩
  · by_cases hyx : y = x
    · subst hyx
      rw [hx] at hy; cases hy
      rw [readReg_writeReg_self _ _ _ _ _ wf hcell, read_write_self hw]
    · rw [readReg_writeReg_ne _ _ _ _ _ _ (fun hc => hyx (hρ.inj x y r ry hx hy hc).symm), read_write_other hw hyx]
      exact sim.1 env' y ry hy
  · by_cases hm : x = "Micros".toList
    · subst hm
      have : ρ "Micros".toList = some ⟨2, 3⟩ := hρ.impls 3 (by decide)
      rw [hx] at this
      cases this
      rw [writeReg_t0_micros, write_t0_micros hw]
    · rw [write_t0 hw hm, writeReg_t0, sim.2]
      rintro ⟨h2, h3⟩
      exact hm (hρ.inj x "Micros".toList r ⟨2, 3⟩ hx (hρ.impls 3 (by decide)) ⟨by rw [h2], h3⟩)


/-! ## stage 1: value expressions (pure expressions, plus hazard-free nested binds) -/

/-- an assignment step on both sides -/
theorem write_step {ρ : Rho} {decls : List Sem.VarDecl} (hρ : RhoOk ρ decls) {x : Name} {tx : VReg}
    (hx : ρ x = some tx) (hp : Sem.primIndex x = none) (env : Env) {s : Sem.SrcState} {c : Conn}
    (sim : Sim ρ s c) (wf : RegsWf c) (v : Val) :
    ∃ s3, Sem.write env s x v = some s3 ∧ Sim ρ s3 (writeReg env c v tx) ∧ RegsWf (writeReg env c v tx) ∧
      (x ≠ "__eventFlag".toList → s3.ev = s.ev) := by
  obtain ⟨s3, hw⟩ := write_isSome env s x v hp
  exact ⟨s3, hw, write_sim hρ hx hw sim wf, writeReg_wf _ _ _ _ wf, write_ev hw⟩

/-! ### frames: an instruction writes at most its result register -/

theorem execInstr_read_other (env env' : Env) (c : Conn) (i : VInstr) (reg : VReg) (h : ¬ sameCell i.ret reg) :
    readReg env' (execInstr env c i).1 reg = readReg env' c reg := by
  unfold execInstr
  dsimp only
  split <;> (try split) <;> first | rfl | exact readReg_writeReg_ne _ _ _ _ _ _ h

/-- running code leaves every register alone that is not the result register of one of its instructions -/
theorem execInstrs_read_other (env env' : Env) (reg : VReg) :
    ∀ (is : List VInstr) (c : Conn), (∀ i ∈ is, ¬ sameCell i.ret reg) →
      readReg env' (execInstrs env c is).1 reg = readReg env' c reg
  | [], c, _ => rfl
  | i :: is, c, h => by
    unfold execInstrs
    simp only
    split
    · exact execInstr_read_other env env' c i reg (h i List.mem_cons_self)
    · rw [execInstrs_read_other env env' reg is _ (fun j hj => h j (List.mem_cons_of_mem _ hj))]
      exact execInstr_read_other env env' c i reg (h i List.mem_cons_self)

theorem execInstr_tmpFrame (env : Env) (c : Conn) (i : VInstr) (k : Nat) (h : i.ret.cls = 7 ∧ k ≤ i.ret.idx) :
    TmpFrame k c (execInstr env c i).1 := by
  have e : i.ret = vTmp i.ret.idx := by
    unfold vTmp
    rw [← h.1]
  unfold execInstr
  dsimp only
  split <;> (try split) <;> first
    | exact TmpFrame.refl _ _
    | (rw [e]; exact TmpFrame.writeTmp env c _ k _ h.2)

/-- code that writes only temporaries at or above `k` changes nothing else (the frame of a *pure* expression) -/
theorem execInstrs_tmpFrame (env : Env) (k : Nat) :
    ∀ (is : List VInstr) (c : Conn), (∀ i ∈ is, i.ret.cls = 7 ∧ k ≤ i.ret.idx) →
      TmpFrame k c (execInstrs env c is).1
  | [], c, _ => TmpFrame.refl _ _
  | i :: is, c, h => by
    unfold execInstrs
    simp only
    split
    · exact execInstr_tmpFrame env c i k (h i List.mem_cons_self)
    · exact (execInstr_tmpFrame env c i k (h i List.mem_cons_self)).trans
        (execInstrs_tmpFrame env k is _ (fun j hj => h j (List.mem_cons_of_mem _ hj))) (Nat.le_refl _)

/-! ### the syntactic shape of lowered code -/

/-- what an instruction of lowered code writes: a temporary allocated by this call (the result of an ALU
instruction), or — the instruction is a `bind`, or the in-place `ewma` / `if` / `!if` of a guarded bind — the
register of a variable the expression assigns -/
def InstrShape (ρ : Rho) (W : List Name) (k k' : Nat) (i : VInstr) : Prop :=
  (i.ret.cls = 7 ∧ k ≤ i.ret.idx ∧ i.ret.idx < k' ∧ AluOp i.op) ∨
  ((i.op = 1 ∨ i.op = 5 ∨ i.op = 7 ∨ i.op = 13) ∧ ∃ x ∈ W, ρ x = some i.ret)

theorem InstrShape.mono {ρ : Rho} {W W' : List Name} {k k' j j' : Nat} {i : VInstr}
    (h : InstrShape ρ W k k' i) (hW : ∀ x ∈ W, x ∈ W') (hj : j ≤ k) (hj' : k' ≤ j') : InstrShape ρ W' j j' i := by
  rcases h with ⟨h1, h2, h3, h4⟩ | ⟨h1, x, hx, h2⟩
  · exact .inl ⟨h1, by omega, by omega, h4⟩
  · exact .inr ⟨h1, x, hW x hx, h2⟩

theorem InstrShape.op_ne2 {ρ : Rho} {W : List Name} {k k' : Nat} {i : VInstr} (h : InstrShape ρ W k k' i) :
    i.op ≠ 2 := by
  rcases h with ⟨_, _, _, h4⟩ | ⟨h1, _⟩
  · unfold AluOp at h4; omega
  · omega

/-- the syntactic shape of lowered code: the counter grows, the result register (if a temporary) is a
temporary allocated by this call, and every instruction is an ALU instruction into such a temporary or
the `bind` of a nested assignment to its variable's register -/
theorem lowerE_shape {ρ : Rho} {decls : List Sem.VarDecl} (hρ : RhoOk ρ decls) :
    ∀ (e : Expr) (k : Nat) (le : LE), lowerE ρ e k = some le →
      k ≤ le.k ∧ (le.reg.cls = 7 → k ≤ le.reg.idx ∧ le.reg.idx < le.k) ∧
      ∀ i ∈ le.instrs, InstrShape ρ (writesIn e) k le.k i := by
  intro e
  induction e using Expr.ind2 with
  | atom p =>
    intro k le h
    cases p with
    | bool b => simp only [lowerE, Option.some.injEq] at h; subst h; simp [vImmBool]
    | num n => simp only [lowerE, Option.some.injEq] at h; subst h; simp [vImmNum]
    | name x =>
      simp only [lowerE, Option.map_eq_some_iff] at h
      obtain ⟨r, hr, rfl⟩ := h
      have := rho_not_tmp hρ hr
      simp [this]
  | cmd c => intro k le h; simp [lowerE] at h
  | none => intro k le h; simp [lowerE] at h
  | sexp o l r ihl ihr ihsub =>
    intro k le h
    rcases lowerE_sexp_cases h with ⟨x, rx, cr, rfl, rfl, hx, hr, rfl⟩ |
      ⟨x, op, a, b, code, rx, ca, cb, rfl, rfl, rfl, hc, hx, ha, hb, rfl⟩ | ⟨code, cl, cr, ho, hl, hr, rfl⟩
    · obtain ⟨r1, _, r3⟩ := ihr k cr hr
      refine ⟨r1, fun h7 => absurd h7 (rho_not_tmp hρ hx), ?_⟩
      intro i hi
      simp only [List.mem_append, List.mem_singleton] at hi
      rcases hi with hi | rfl
      · exact (r3 i hi).mono (fun y hy => by rw [writesIn]; exact List.mem_cons_of_mem _ hy)
          (Nat.le_refl _) (Nat.le_refl _)
      · exact .inr ⟨.inl rfl, x, by rw [writesIn]; exact List.mem_cons_self, hx⟩
    · obtain ⟨iha, ihb⟩ := ihsub op a b rfl
      obtain ⟨l1, _, l3⟩ := iha k ca ha
      obtain ⟨r1, _, r3⟩ := ihb ca.k cb hb
      refine ⟨by simp only; omega, fun h7 => absurd h7 (rho_not_tmp hρ hx), ?_⟩
      intro i hi
      simp only [List.mem_append, List.mem_singleton] at hi
      rw [writesIn_guard hc]
      rcases hi with (hi | hi) | rfl
      · exact (l3 i hi).mono (fun y hy => List.mem_cons_of_mem _ (List.mem_append_left _ hy)) (Nat.le_refl _)
          (by simp only; omega)
      · exact (r3 i hi).mono (fun y hy => List.mem_cons_of_mem _ (List.mem_append_right _ hy)) l1 (Nat.le_refl _)
      · refine .inr ⟨?_, x, List.mem_cons_self, hx⟩
        rcases condCode_cases hc with ⟨_, rfl⟩ | ⟨_, rfl⟩ | ⟨_, rfl⟩ <;> simp
    · obtain ⟨l1, l2, l3⟩ := ihl k cl hl
      obtain ⟨r1, r2, r3⟩ := ihr cl.k cr hr
      refine ⟨by simp only; omega, fun _ => by simp only [vTmp]; omega, ?_⟩
      intro i hi
      simp only [List.mem_append, List.mem_singleton] at hi
      rw [writesIn_op ho]
      rcases hi with (hi | hi) | rfl
      · exact (l3 i hi).mono (fun y hy => List.mem_append_left _ hy) (Nat.le_refl _) (by simp only; omega)
      · exact (r3 i hi).mono (fun y hy => List.mem_append_right _ hy) l1 (by simp only; omega)
      · exact .inl ⟨rfl, by simp only [vTmp]; omega, by simp only [vTmp]; omega, pureOpcode_alu ho⟩

/-- on a pure expression every instruction is an ALU instruction into a temporary allocated by the call
(the statement of `lowerE_shape` before nested binds were admitted) -/
theorem lowerE_shape_pure {ρ : Rho} {decls : List Sem.VarDecl} (hρ : RhoOk ρ decls) {e : Expr}
    (hp : pureE e = true) {k : Nat} {le : LE} (h : lowerE ρ e k = some le) :
    ∀ i ∈ le.instrs, i.ret.cls = 7 ∧ k ≤ i.ret.idx ∧ i.ret.idx < le.k ∧ AluOp i.op := by
  intro i hi
  rcases (lowerE_shape hρ e k le h).2.2 i hi with h1 | ⟨_, x, hx, _⟩
  · exact h1
  · rw [writesIn_pure hp] at hx; cases hx

theorem rho_not_imm {ρ : Rho} {decls : List Sem.VarDecl} (hρ : RhoOk ρ decls) {x : Name} {r : VReg}
    (h : ρ x = some r) : r.cls ≠ 1 := by
  rcases rho_cases hρ h with ⟨i, hi, _, rfl⟩ | ⟨i, hi, _, rfl⟩ | ⟨_, hv⟩
  · simp
  · simp
  · unfold VarCell at hv; omega

/-- the result register of lowered code: an immediate, a temporary, or the register of the expression's
result variable -/
theorem lowerE_reg_cases {ρ : Rho} {e : Expr} {k : Nat} {le : LE} (h : lowerE ρ e k = some le) :
    le.reg.cls = 1 ∨ le.reg.cls = 7 ∨ ∃ x, resultName e = some x ∧ ρ x = some le.reg := by
  cases e with
  | atom p =>
    cases p with
    | bool b => simp only [lowerE, Option.some.injEq] at h; subst h; exact .inl rfl
    | num n => simp only [lowerE, Option.some.injEq] at h; subst h; exact .inl rfl
    | name x =>
      simp only [lowerE, Option.map_eq_some_iff] at h
      obtain ⟨r, hr, rfl⟩ := h
      exact .inr (.inr ⟨x, rfl, hr⟩)
  | cmd c => simp [lowerE] at h
  | none => simp [lowerE] at h
  | sexp o l r =>
    rcases lowerE_sexp_cases h with ⟨x, rx, cr, rfl, rfl, hx, hr, rfl⟩ |
      ⟨x, op, a, b, code, rx, ca, cb, rfl, rfl, rfl, hc, hx, ha, hb, rfl⟩ | ⟨code, cl, cr, ho, hl, hr, rfl⟩
    · exact .inr (.inr ⟨x, rfl, hx⟩)
    · exact .inr (.inr ⟨x, rfl, hx⟩)
    · exact .inr (.inl rfl)

theorem fileOf_eq_of {a b : Nat} (h : fileOf a = fileOf b) (hb : b = 1 ∨ b = 7) : a = b := by
  have h1 : fileOf b = b := by rcases hb with rfl | rfl <;> rfl
  rw [h1] at h
  unfold fileOf at h
  split at h
  · omega
  · split at h
    · omega
    · exact h

/-- **hazard freedom.** No instruction of the right operand writes the result register of the left operand:
a temporary of the left operand lies below the right operand's counter range, an immediate is never written,
and the register of a named variable is not written because the right operand does not assign that variable
(`noHazard`; distinct names live in distinct cells) -/
theorem operand_safe {ρ : Rho} {decls : List Sem.VarDecl} (hρ : RhoOk ρ decls) {l r : Expr} {k : Nat} {cl : LE}
    (hl : lowerE ρ l k = some cl) (hz : noHazard l r = true) {kr kr' : Nat} {i : VInstr}
    (hi : InstrShape ρ (writesIn r) kr kr' i) (hk : cl.reg.cls = 7 → cl.reg.idx < kr) :
    ¬ sameCell i.ret cl.reg := by
  rintro ⟨hf, hidx⟩
  rcases hi with ⟨h7, hlo, _, _⟩ | ⟨_, y, hy, hρy⟩
  · have h7' : cl.reg.cls = 7 := by
      rcases lowerE_reg_cases hl with h1 | h | ⟨x, _, hx⟩
      · rw [h1] at hf; exact absurd (fileOf_eq_of hf (.inl rfl)) (by omega)
      · exact h
      · have := rho_not_tmp hρ hx
        rw [h7] at hf
        exact absurd (fileOf_eq_of hf.symm (.inr rfl)) this
    have := hk h7'
    omega
  · rcases lowerE_reg_cases hl with h1 | h7 | ⟨x, hrn, hx⟩
    · rw [h1] at hf
      exact rho_not_imm hρ hρy (fileOf_eq_of hf (.inl rfl))
    · rw [h7] at hf
      exact rho_not_tmp hρ hρy (fileOf_eq_of hf (.inr rfl))
    · have hyx : y = x := hρ.inj y x _ _ hρy hx ⟨hf, hidx⟩
      subst hyx
      unfold noHazard at hz
      rw [hrn] at hz
      simp only [Bool.not_eq_true', List.contains_eq_mem, decide_eq_false_iff_not] at hz
      exact hz hy

/-- every variable a value expression assigns is an ordinary variable: not a primitive (the assignment is
denoted), not an implicit register — in particular not `__eventFlag` (`WritesOk` therefore constrains only the
targets of *statements*; the nested targets are constrained by `valueE`, i.e. by `InOracle`) -/
theorem valueE_writes {e : Expr} (h : valueE e = true) : ∀ y ∈ writesIn e, isBuiltinName y = false := by
  induction e using Expr.ind2 with
  | atom p => intro y hy; simp [writesIn] at hy
  | cmd c => simp [valueE] at h
  | none => simp [valueE] at h
  | sexp o l r ihl ihr ihsub =>
    rcases valueE_sexp_cases h with ⟨x, rfl, rfl, hnb, hvr⟩ |
      ⟨x, op, a, b, code, rfl, rfl, rfl, hc, hnb, hva, hvb, _⟩ | ⟨code, ho, hvl, hvr, _⟩
    · intro y hy
      rw [writesIn] at hy
      rcases List.mem_cons.mp hy with rfl | hy
      · exact hnb
      · exact ihr hvr y hy
    · obtain ⟨iha, ihb⟩ := ihsub op a b rfl
      intro y hy
      rw [writesIn_guard hc] at hy
      rcases List.mem_cons.mp hy with rfl | hy
      · exact hnb
      · rcases List.mem_append.mp hy with hy | hy
        · exact iha hva y hy
        · exact ihb hvb y hy
    · intro y hy
      rw [writesIn_op ho] at hy
      rcases List.mem_append.mp hy with hy | hy
      · exact ihl hvl y hy
      · exact ihr hvr y hy

theorem valueE_writes_ok {e : Expr} (h : valueE e = true) :
    ∀ y ∈ writesIn e, Sem.primIndex y = none ∧ y ≠ "__eventFlag".toList := by
  intro y hy
  obtain ⟨_, _, _, h4, _, _, h7⟩ := nonbuiltin_facts (valueE_writes h y hy)
  exact ⟨h7, h4⟩

/-! ### execution against evaluation -/

/-- the outcome of running lowered code `is` (result register `reg`) against the source evaluation of `e`, as a
disjunction. Evaluation may change the source state (nested assignments): the machine state reached
represents the source state reached — after a fault too (the state then holds the assignments made before it) —
and the result register holds the value *after* the whole expression has run. Nested assignments never touch
the event flag. -/
def ValRes (ρ : Rho) (env : Env) (s : Sem.SrcState) (c : Conn) (e : Expr) (is : List VInstr)
    (reg : VReg) : Prop :=
  (∃ s' v c', Sem.evalE env s e = .ok s' v ∧ execInstrs env c is = (c', 0) ∧ Sim ρ s' c' ∧ RegsWf c' ∧
      readReg env c' reg = v ∧ s'.ev = s.ev) ∨
  (∃ s' rc c', Sem.evalE env s e = .fault s' rc ∧ rc < 0 ∧ execInstrs env c is = (c', rc) ∧ Sim ρ s' c' ∧
      RegsWf c') ∨
  Sem.evalE env s e = .outside

/-- both operands of a two-operand construct, the second lowered from the counter where the first stopped -/
def OperandsRes (ρ : Rho) (env : Env) (s : Sem.SrcState) (c : Conn) (l r : Expr) (cl cr : LE) : Prop :=
  (∃ s1 s2 a b c', Sem.evalE env s l = .ok s1 a ∧ Sem.evalE env s1 r = .ok s2 b ∧
      execInstrs env c (cl.instrs ++ cr.instrs) = (c', 0) ∧ Sim ρ s2 c' ∧ RegsWf c' ∧
      readReg env c' cl.reg = a ∧ readReg env c' cr.reg = b ∧ s2.ev = s.ev) ∨
  (∃ sf rc c', (Sem.evalE env s l = .fault sf rc ∨
        ∃ s1 a, Sem.evalE env s l = .ok s1 a ∧ Sem.evalE env s1 r = .fault sf rc) ∧
      rc < 0 ∧ execInstrs env c (cl.instrs ++ cr.instrs) = (c', rc) ∧ Sim ρ sf c' ∧ RegsWf c') ∨
  (Sem.evalE env s l = .outside ∨ ∃ s1 a, Sem.evalE env s l = .ok s1 a ∧ Sem.evalE env s1 r = .outside)

/-- `hsafe`: the right operand's code does not write the left operand's result register (`operand_safe`) -/
theorem operands_res {ρ : Rho} {env : Env} {s : Sem.SrcState} {c : Conn} {l r : Expr} {cl cr : LE}
    (hsafe : ∀ i ∈ cr.instrs, ¬ sameCell i.ret cl.reg)
    (hl : ValRes ρ env s c l cl.instrs cl.reg)
    (hr : ∀ s1 c1, Sim ρ s1 c1 → RegsWf c1 → ValRes ρ env s1 c1 r cr.instrs cr.reg) :
    OperandsRes ρ env s c l r cl cr := by
  rcases hl with ⟨s1, a, c1, el, x1, sim1, wf1, rd1, ev1⟩ | ⟨sf, rc, c1, el, hrc, x1, sim1, wf1⟩ | el
  · rcases hr s1 c1 sim1 wf1 with ⟨s2, b, c2, er, x2, sim2, wf2, rd2, ev2⟩ | ⟨sf, rc, c2, er, hrc, x2, sim2, wf2⟩ | er
    · refine .inl ⟨s1, s2, a, b, c2, el, er, ?_, sim2, wf2, ?_, rd2, ev2.trans ev1⟩
      · rw [execInstrs_append_ok _ x1]; exact x2
      · have := execInstrs_read_other env env cl.reg cr.instrs c1 hsafe
        rw [x2] at this
        exact this.trans rd1
    · refine .inr (.inl ⟨sf, rc, c2, .inr ⟨s1, a, el, er⟩, hrc, ?_, sim2, wf2⟩)
      rw [execInstrs_append_ok _ x1]; exact x2
    · exact .inr (.inr (.inr ⟨s1, a, el, er⟩))
  · exact .inr (.inl ⟨sf, rc, c1, .inl el, hrc, execInstrs_append_fault _ x1 hrc, sim1, wf1⟩)
  · exact .inr (.inr (.inl el))

/-- an operator node whose last instruction writes an arbitrary register `t` -/
def NodeRes (ρ : Rho) (env : Env) (s : Sem.SrcState) (c : Conn) (e : Expr) (is : List VInstr)
    (t : VReg) : Prop :=
  (∃ s' v c', Sem.evalE env s e = .ok s' v ∧ execInstrs env c is = (writeReg env c' v t, 0) ∧ Sim ρ s' c' ∧
      RegsWf c' ∧ s'.ev = s.ev) ∨
  (∃ s' rc c', Sem.evalE env s e = .fault s' rc ∧ rc < 0 ∧ execInstrs env c is = (c', rc) ∧ Sim ρ s' c' ∧
      RegsWf c') ∨
  Sem.evalE env s e = .outside

theorem alu_and (a b : Val) (ha : a = 0 ∨ a = 1) (hb : b = 0 ∨ b = 1) :
    alu 12 a b = (some (if a != 0 && b != 0 then 1 else 0), 0) := by
  rcases ha with rfl | rfl <;> rcases hb with rfl | rfl <;> decide

theorem alu_or (a b : Val) (ha : a = 0 ∨ a = 1) (hb : b = 0 ∨ b = 1) (hab : ¬ (a = 1 ∧ b = 1)) :
    alu 0 a b = (some (if a != 0 || b != 0 then 1 else 0), 0) := by
  rcases ha with rfl | rfl <;> rcases hb with rfl | rfl <;> first | decide | exact absurd ⟨rfl, rfl⟩ hab

theorem node_res {ρ : Rho} {env : Env} {s : Sem.SrcState} {c : Conn} {o : Op} {code : Nat}
    {l r : Expr} {cl cr : LE} (t : VReg) (ho : pureOpcode o = some code)
    (h : OperandsRes ρ env s c l r cl cr) :
    NodeRes ρ env s c (.sexp o l r) (cl.instrs ++ cr.instrs ++ [⟨code, t, cl.reg, cr.reg⟩]) t := by
  rcases h with ⟨s1, s2, a, b, c', el, er, x, sim, wf, ra, rb, hev⟩ | ⟨sf, rc, c', hev, hrc, x, sim, wf⟩ | hev
  · have hstep := execInstr_alu env c' t cl.reg cr.reg (pureOpcode_alu ho)
    rw [ra, rb] at hstep
    rcases pureOpcode_cases ho with ⟨rfl, rfl⟩ | ⟨rfl, rfl⟩ | ⟨hc, h99, _, _⟩
    · rw [NodeRes, evalE_and_ok el er]
      by_cases hcond : ((a == 0 || a == 1) && (b == 0 || b == 1)) = true
      · rw [if_pos hcond]
        simp only [Bool.and_eq_true, Bool.or_eq_true, beq_iff_eq] at hcond
        rw [alu_and a b hcond.1 hcond.2] at hstep
        exact .inl ⟨s2, _, c', rfl, execInstrs_snoc x hstep (by omega), sim, wf, hev⟩
      · rw [if_neg hcond]; exact .inr (.inr rfl)
    · rw [NodeRes, evalE_or_ok el er]
      by_cases hcond : ((a == 0 || a == 1) && (b == 0 || b == 1) && !(a == 1 && b == 1)) = true
      · rw [if_pos hcond]
        simp only [Bool.and_eq_true, Bool.or_eq_true, beq_iff_eq, Bool.not_eq_true', Bool.and_eq_false_iff,
          beq_eq_false_iff_ne] at hcond
        rw [alu_or a b hcond.1.1 hcond.1.2 (by intro h; rcases hcond.2 with h' | h' <;> simp [h] at h')] at hstep
        exact .inl ⟨s2, _, c', rfl, execInstrs_snoc x hstep (by omega), sim, wf, hev⟩
      · rw [if_neg hcond]; exact .inr (.inr rfl)
    · rw [NodeRes, evalE_arith_ok h99 el er, hc]
      cases hal : alu code a b with
      | mk ov rc =>
        rw [hal] at hstep
        cases ov with
        | some v => exact .inl ⟨s2, v, c', rfl, execInstrs_snoc x hstep (by omega), sim, wf, hev⟩
        | none =>
          have hneg := alu_none_neg (pureOpcode_alu ho) hal
          exact .inr (.inl ⟨s2, rc, c', rfl, hneg, execInstrs_snoc x hstep (by omega), sim, wf⟩)
  · refine .inr (.inl ⟨sf, rc, c', ?_, hrc, execInstrs_append_fault _ x hrc, sim, wf⟩)
    rcases hev with el | ⟨s1, a, el, er⟩
    · exact evalE_op_left r ho el (by intro _ _ h; cases h)
    · exact evalE_op_right ho el er (by intro _ _ h; cases h)
  · refine .inr (.inr ?_)
    rcases hev with el | ⟨s1, a, el, er⟩
    · exact evalE_op_left r ho el (by intro _ _ h; cases h)
    · exact evalE_op_right ho el er (by intro _ _ h; cases h)


theorem TmpsOk.append {a b : List VInstr} (h : TmpsOk (a ++ b)) : TmpsOk a ∧ TmpsOk b :=
  ⟨fun i hi => h i (List.mem_append_left _ hi), fun i hi => h i (List.mem_append_right _ hi)⟩

theorem TmpsOk.nil : TmpsOk [] := fun _ h => by cases h

theorem readReg_immNum (env : Env) (c : Conn) (n : Nat) (h : litsOkE (.atom (.num n)) = true) :
    readReg env c (vImmNum n) = Sem.immVal n := by
  simp only [litsOkE, Bool.or_eq_true, decide_eq_true_eq] at h
  rcases h with h | rfl
  · have h1 : n % 2 ^ 32 = n := Nat.mod_eq_of_lt (by omega)
    have h2 : n ≠ 2 ^ 64 - 1 := by omega
    simp only [vImmNum, readReg, Sem.immVal, h1, h2, if_false]
  · show UInt64.ofNat ((2 ^ 64 - 1) % 2 ^ 32) = Sem.immVal (2 ^ 64 - 1)
    decide

theorem readReg_immBool (env : Env) (c : Conn) (b : Bool) :
    readReg env c (vImmBool b) = if b then 1 else 0 := by
  cases b <;> rfl

theorem pureE_sexpL {o : Op} {l r : Expr} (h : pureE (.sexp o l r) = true) : pureE l = true ∧ pureE r = true := by
  simp only [pureE, Bool.and_eq_true] at h
  exact ⟨h.1.2, h.2⟩

theorem pureE_sexp_op {o : Op} {l r : Expr} (h : pureE (.sexp o l r) = true) : ∃ code, pureOpcode o = some code := by
  simp only [pureE, Bool.and_eq_true] at h
  obtain ⟨⟨h1, -⟩, -⟩ := h
  cases o <;> first | exact ⟨_, rfl⟩ | cases h1

theorem litsOkE_sexp {o : Op} {l r : Expr} (h : litsOkE (.sexp o l r) = true) : litsOkE l = true ∧ litsOkE r = true := by
  simpa only [litsOkE, Bool.and_eq_true] using h

theorem evalE_bind_ok {env : Env} {s s1 : Sem.SrcState} {x : Name} {e : Expr} {v : Val}
    (hp : valueE e = true) (he : Sem.evalE env s e = .ok s1 v) :
    Sem.evalE env s (.sexp .bind (.atom (.name x)) e) =
      match Sem.write env s1 x v with
      | some s2 => .ok s2 v
      | none => .notDenoted := by
  obtain ⟨h1, h2, h3⟩ := valueE_not_cond hp
  rw [Sem.evalE.eq_7 env s x e h1 h2 h3, he]
  rfl

theorem evalE_bind_not_ok {env : Env} {s : Sem.SrcState} {x : Name} {e : Expr} {res : Sem.Res}
    (hp : valueE e = true) (he : Sem.evalE env s e = res) (hx : ∀ s' v, res ≠ .ok s' v) :
    Sem.evalE env s (.sexp .bind (.atom (.name x)) e) = res := by
  obtain ⟨h1, h2, h3⟩ := valueE_not_cond hp
  rw [Sem.evalE.eq_7 env s x e h1 h2 h3, he]
  cases res <;> first | rfl | exact absurd rfl (hx _ _)

theorem evalE_cond_left {env : Env} {s : Sem.SrcState} {x : Name} {op : Op} {a : Expr} (b : Expr) {res : Sem.Res}
    (hop : op = .if ∨ op = .notIf ∨ op = .ewma) (ha : Sem.evalE env s a = res) (hx : ∀ s' v, res ≠ .ok s' v) :
    Sem.evalE env s (.sexp .bind (.atom (.name x)) (.sexp op a b)) = res := by
  rcases hop with rfl | rfl | rfl <;>
    (rw [Sem.evalE, ha]; cases res <;> first | rfl | exact absurd rfl (hx _ _))

theorem evalE_cond_right {env : Env} {s s1 : Sem.SrcState} {x : Name} {op : Op} {a b : Expr} {av : Val} {res : Sem.Res}
    (hop : op = .if ∨ op = .notIf ∨ op = .ewma) (ha : Sem.evalE env s a = .ok s1 av)
    (hb : Sem.evalE env s1 b = res) (hx : ∀ s' v, res ≠ .ok s' v) :
    Sem.evalE env s (.sexp .bind (.atom (.name x)) (.sexp op a b)) = res := by
  rcases hop with rfl | rfl | rfl <;>
    (rw [Sem.evalE, ha]; simp only []; rw [hb]; cases res <;> first | rfl | exact absurd rfl (hx _ _))

theorem evalE_if_ok {env : Env} {s s1 s2 : Sem.SrcState} {x : Name} {a b : Expr} {av bv : Val}
    (ha : Sem.evalE env s a = .ok s1 av) (hb : Sem.evalE env s1 b = .ok s2 bv) :
    Sem.evalE env s (.sexp .bind (.atom (.name x)) (.sexp .if a b)) =
      if av != 0 then (match Sem.write env s2 x bv with | some s3 => .ok s3 (Sem.read env s3 x) | none => .notDenoted)
      else .ok s2 (Sem.read env s2 x) := by
  rw [Sem.evalE, ha]; simp only []; rw [hb]; rfl

theorem evalE_notIf_ok {env : Env} {s s1 s2 : Sem.SrcState} {x : Name} {a b : Expr} {av bv : Val}
    (ha : Sem.evalE env s a = .ok s1 av) (hb : Sem.evalE env s1 b = .ok s2 bv) :
    Sem.evalE env s (.sexp .bind (.atom (.name x)) (.sexp .notIf a b)) =
      if av == 0 then (match Sem.write env s2 x bv with | some s3 => .ok s3 (Sem.read env s3 x) | none => .notDenoted)
      else .ok s2 (Sem.read env s2 x) := by
  rw [Sem.evalE, ha]; simp only []; rw [hb]; rfl

theorem evalE_ewma_ok {env : Env} {s s1 s2 : Sem.SrcState} {x : Name} {a b : Expr} {av bv : Val}
    (ha : Sem.evalE env s a = .ok s1 av) (hb : Sem.evalE env s1 b = .ok s2 bv) :
    Sem.evalE env s (.sexp .bind (.atom (.name x)) (.sexp .ewma a b)) =
      match Sem.write env s2 x (ewma av (Sem.read env s2 x) bv) with
      | some s3 => .ok s3 (Sem.read env s3 x) | none => .notDenoted := by
  rw [Sem.evalE, ha]; simp only []; rw [hb]; rfl

/-- a guarded bind `(:= x (op a b))` whose operands have run: the in-place instruction on the register of `x`; the
value of the construct is the value of `x` afterwards (statement or nested) -/
theorem guard_res {ρ : Rho} {decls : List Sem.VarDecl} (hρ : RhoOk ρ decls) {op : Op} {code : Nat}
    (hc : condCode op = some code) {x : Name} {tx : VReg} (hx : ρ x = some tx) (hp : Sem.primIndex x = none)
    {env : Env} {s : Sem.SrcState} {c : Conn} {a b : Expr} {ca cb : LE}
    (h : OperandsRes ρ env s c a b ca cb) :
    (∃ s' c', Sem.evalE env s (.sexp .bind (.atom (.name x)) (.sexp op a b)) = .ok s' (Sem.read env s' x) ∧
      execInstrs env c (ca.instrs ++ cb.instrs ++ [⟨code, tx, ca.reg, cb.reg⟩]) = (c', 0) ∧ Sim ρ s' c' ∧
      RegsWf c' ∧ (x ≠ "__eventFlag".toList → s'.ev = s.ev)) ∨
    (∃ s' rc c', Sem.evalE env s (.sexp .bind (.atom (.name x)) (.sexp op a b)) = .fault s' rc ∧ rc < 0 ∧
      execInstrs env c (ca.instrs ++ cb.instrs ++ [⟨code, tx, ca.reg, cb.reg⟩]) = (c', rc) ∧ Sim ρ s' c' ∧
      RegsWf c') ∨
    Sem.evalE env s (.sexp .bind (.atom (.name x)) (.sexp op a b)) = .outside := by
  have hop : op = .if ∨ op = .notIf ∨ op = .ewma := by
    rcases condCode_cases hc with ⟨h, _⟩ | ⟨h, _⟩ | ⟨h, _⟩ <;> simp [h]
  rcases h with ⟨s1, s2, av, bv, c', ea, eb, x1, sim', wf', ra, rb, hev⟩ | ⟨sf, rc, c', hev, hrc, x1, sim', wf'⟩ | hev
  · rcases condCode_cases hc with ⟨rfl, rfl⟩ | ⟨rfl, rfl⟩ | ⟨rfl, rfl⟩
    · have hstep : execInstr env c' ⟨7, tx, ca.reg, cb.reg⟩ = (if av != 0 then writeReg env c' bv tx else c', 0) := by
        simp only [execInstr, ra, rb]
      rw [evalE_if_ok ea eb]
      by_cases hcv : (av != 0) = true
      · rw [if_pos hcv] at hstep ⊢
        obtain ⟨s3, hw3, sim3, wf3, hev3⟩ := write_step hρ hx hp env sim' wf' bv
        rw [hw3]
        exact .inl ⟨s3, _, rfl, execInstrs_snoc x1 hstep (by omega), sim3, wf3, fun h => (hev3 h).trans hev⟩
      · rw [if_neg hcv] at hstep ⊢
        exact .inl ⟨s2, _, rfl, execInstrs_snoc x1 hstep (by omega), sim', wf', fun _ => hev⟩
    · have hstep : execInstr env c' ⟨13, tx, ca.reg, cb.reg⟩ = (if av == 0 then writeReg env c' bv tx else c', 0) := by
        simp only [execInstr, ra, rb]
      rw [evalE_notIf_ok ea eb]
      by_cases hcv : (av == 0) = true
      · rw [if_pos hcv] at hstep ⊢
        obtain ⟨s3, hw3, sim3, wf3, hev3⟩ := write_step hρ hx hp env sim' wf' bv
        rw [hw3]
        exact .inl ⟨s3, _, rfl, execInstrs_snoc x1 hstep (by omega), sim3, wf3, fun h => (hev3 h).trans hev⟩
      · rw [if_neg hcv] at hstep ⊢
        exact .inl ⟨s2, _, rfl, execInstrs_snoc x1 hstep (by omega), sim', wf', fun _ => hev⟩
    · have hstep : execInstr env c' ⟨5, tx, ca.reg, cb.reg⟩ =
          (writeReg env c' (ewma av (Sem.read env s2 x) bv) tx, 0) := by
        simp only [execInstr, ra, rb, sim'.1 env x tx hx]
      rw [evalE_ewma_ok ea eb]
      obtain ⟨s3, hw3, sim3, wf3, hev3⟩ := write_step hρ hx hp env sim' wf' (ewma av (Sem.read env s2 x) bv)
      rw [hw3]
      exact .inl ⟨s3, _, rfl, execInstrs_snoc x1 hstep (by omega), sim3, wf3, fun h => (hev3 h).trans hev⟩
  · refine .inr (.inl ⟨sf, rc, c', ?_, hrc, execInstrs_append_fault _ x1 hrc, sim', wf'⟩)
    rcases hev with ea | ⟨s1, av, ea, eb⟩
    · exact evalE_cond_left b hop ea (by intro _ _ h; cases h)
    · exact evalE_cond_right hop ea eb (by intro _ _ h; cases h)
  · refine .inr (.inr ?_)
    rcases hev with ea | ⟨s1, av, ea, eb⟩
    · exact evalE_cond_left b hop ea (by intro _ _ h; cases h)
    · exact evalE_cond_right hop ea eb (by intro _ _ h; cases h)

/-- stage 1 in disjunctive form -/
theorem lowerE_res {ρ : Rho} {decls : List Sem.VarDecl} (hρ : RhoOk ρ decls) :
    ∀ (e : Expr), valueE e = true → litsOkE e = true → ∀ (k : Nat) (le : LE) (env : Env) (s : Sem.SrcState)
      (c : Conn), lowerE ρ e k = some le → Sim ρ s c → RegsWf c → TmpsOk le.instrs →
      (le.reg.cls = 7 → le.reg.idx < 8) → ValRes ρ env s c e le.instrs le.reg := by
  intro e
  induction e using Expr.ind2 with
  | cmd _ => intro hp; simp [valueE] at hp
  | none => intro hp; simp [valueE] at hp
  | atom p =>
    intro _ hlit k le env s c hle sim wf _ _
    cases p with
    | bool b =>
      simp only [lowerE, Option.some.injEq] at hle; subst hle
      exact .inl ⟨s, _, c, rfl, rfl, sim, wf, readReg_immBool env c b, rfl⟩
    | num n =>
      simp only [lowerE, Option.some.injEq] at hle; subst hle
      exact .inl ⟨s, _, c, rfl, rfl, sim, wf, readReg_immNum env c n hlit, rfl⟩
    | name x =>
      simp only [lowerE, Option.map_eq_some_iff] at hle
      obtain ⟨r, hr, rfl⟩ := hle
      exact .inl ⟨s, _, c, rfl, rfl, sim, wf, sim.1 env x r hr, rfl⟩
  | sexp o l r ihl ihr ihsub =>
    intro hp hlit k le env s c hle sim wf ht hreg
    obtain ⟨hll, hlr⟩ := litsOkE_sexp hlit
    rcases valueE_sexp_cases hp with ⟨x, rfl, rfl, hnb, hvr⟩ |
      ⟨x, op, a, b, gcode, rfl, rfl, rfl, hc, hnb, hva, hvb, hz⟩ | ⟨code, ho, hvl, hvr, hz⟩
    · -- a nested assignment `(:= x r)`: run `r`, bind its result to the register of `x`, which is the result
      obtain ⟨rx, cr, hx, hr, rfl⟩ := lowerE_bind_inv (valueE_not_cond hvr) hle
      obtain ⟨ht1, ht2⟩ := TmpsOk.append ht
      obtain ⟨_, _, hrt⟩ := ht2 _ (List.mem_singleton.mpr rfl)
      obtain ⟨n1, n2, n3, n4, n5, n6, hprim⟩ := nonbuiltin_facts hnb
      rcases ihr hvr hlr k cr env s c hr sim wf ht1 hrt with
        ⟨s1, v, c1, ev, x1, sim1, wf1, rd, hev⟩ | ⟨sf, rc, c1, ev, hrc, x1, sim1, wf1⟩ | ev
      · have hstep : execInstr env c1 ⟨1, rx, rx, cr.reg⟩ = (writeReg env c1 v rx, 0) := by
          simp only [execInstr, rd]
        obtain ⟨s3, hw3, sim3, wf3, hev3⟩ := write_step hρ hx hprim env sim1 wf1 v
        have hcell : CellOk rx := (hρ.vars x rx hx hnb).elim (fun h => .inl h)
          (fun h => h.elim (fun h => .inr (.inl h)) (fun h => .inr (.inr (.inl h))))
        rw [ValRes, evalE_bind_ok hvr ev, hw3]
        exact .inl ⟨s3, v, _, rfl, execInstrs_snoc x1 hstep (by omega), sim3, wf3,
          readReg_writeReg_self _ _ _ _ _ wf1 hcell, (hev3 n4).trans hev⟩
      · exact .inr (.inl ⟨sf, rc, c1, evalE_bind_not_ok hvr ev (by intro _ _ h; cases h), hrc,
          execInstrs_append_fault _ x1 hrc, sim1, wf1⟩)
      · exact .inr (.inr (evalE_bind_not_ok hvr ev (by intro _ _ h; cases h)))
    · -- a nested guarded assignment `(:= x (op a b))`: run `a`, `b`, then the in-place instruction on the register
      -- of `x`, which is the result
      obtain ⟨iha, ihb⟩ := ihsub op a b rfl
      obtain ⟨rx, ca, cb, hx, ha, hb, rfl⟩ := lowerE_guard_inv hc hle
      obtain ⟨hla, hlb⟩ := litsOkE_sexp hlr
      obtain ⟨sl1, sl2, _⟩ := lowerE_shape hρ a k ca ha
      obtain ⟨sr1, _, sr3⟩ := lowerE_shape hρ b ca.k cb hb
      obtain ⟨ht12, ht3⟩ := TmpsOk.append ht
      obtain ⟨ht1, ht2⟩ := TmpsOk.append ht12
      obtain ⟨_, hlt, hrt⟩ := ht3 _ (List.mem_singleton.mpr rfl)
      obtain ⟨n1, n2, n3, n4, n5, n6, hprim⟩ := nonbuiltin_facts hnb
      have hops := operands_res (env := env)
        (fun i hi => operand_safe hρ ha hz (sr3 i hi) (fun h => (sl2 h).2))
        (iha hva hla k ca env s c ha sim wf ht1 hlt)
        (fun s1 c1 sim1 wf1 => ihb hvb hlb ca.k cb env s1 c1 hb sim1 wf1 ht2 hrt)
      rcases guard_res hρ hc hx hprim hops with ⟨s', c', ev, x1, sim', wf', hev⟩ | h | h
      · exact .inl ⟨s', _, c', ev, x1, sim', wf', sim'.1 env x rx hx, hev n4⟩
      · exact .inr (.inl h)
      · exact .inr (.inr h)
    · -- an operator node
      obtain ⟨cl, cr, hl, hr, rfl⟩ := lowerE_sexp_inv ho hle
      obtain ⟨sl1, sl2, _⟩ := lowerE_shape hρ l k cl hl
      obtain ⟨sr1, _, sr3⟩ := lowerE_shape hρ r cl.k cr hr
      obtain ⟨ht12, ht3⟩ := TmpsOk.append ht
      obtain ⟨ht1, ht2⟩ := TmpsOk.append ht12
      obtain ⟨_, hlt, hrt⟩ := ht3 _ (List.mem_singleton.mpr rfl)
      have hk8 : cr.k < 8 := hreg rfl
      have hops := operands_res (env := env)
        (fun i hi => operand_safe hρ hl hz (sr3 i hi) (fun h => (sl2 h).2))
        (ihl hvl hll k cl env s c hl sim wf ht1 hlt)
        (fun s1 c1 sim1 wf1 => ihr hvr hlr cl.k cr env s1 c1 hr sim1 wf1 ht2 hrt)
      rcases node_res (vTmp cr.k) ho hops with ⟨s', v, c', ev, x, sim', wf', hev⟩ | h | h
      · have fr2 := TmpFrame.writeTmp env c' v cr.k cr.k (Nat.le_refl _)
        refine .inl ⟨s', v, _, ev, x, Sim.frame hρ sim' fr2, writeReg_wf _ _ _ _ wf', ?_, hev⟩
        exact readReg_writeReg_self _ _ _ _ _ wf' (.inr (.inr (.inr (.inr ⟨rfl, hk8⟩))))
      · exact .inr (.inl h)
      · exact .inr (.inr h)

/-- the outcome carries the state `s` (if it carries a state) -/
def KeepsState (s : Sem.SrcState) (res : Sem.Res) : Prop :=
  (∀ s' v, res = .ok s' v → s' = s) ∧ (∀ s' rc, res = .fault s' rc → s' = s)

theorem KeepsState.ok (s : Sem.SrcState) (v : Val) : KeepsState s (.ok s v) :=
  ⟨fun _ _ h => (by cases h; rfl), fun _ _ h => (by cases h)⟩

theorem KeepsState.fault (s : Sem.SrcState) (rc : Int) : KeepsState s (.fault s rc) :=
  ⟨fun _ _ h => (by cases h), fun _ _ h => (by cases h; rfl)⟩

theorem KeepsState.outside (s : Sem.SrcState) : KeepsState s .outside :=
  ⟨fun _ _ h => (by cases h), fun _ _ h => (by cases h)⟩

theorem KeepsState.notDenoted (s : Sem.SrcState) : KeepsState s .notDenoted :=
  ⟨fun _ _ h => (by cases h), fun _ _ h => (by cases h)⟩

/-- a pure expression does not change the source state, whatever the outcome -/
theorem evalE_pure_state {env : Env} :
    ∀ (e : Expr), pureE e = true → ∀ (s : Sem.SrcState), KeepsState s (Sem.evalE env s e) := by
  intro e
  induction e with
  | cmd _ => intro hp; simp [pureE] at hp
  | none => intro hp; simp [pureE] at hp
  | atom p =>
    intro _ s
    cases p <;> simp only [Sem.evalE] <;> exact KeepsState.ok _ _
  | sexp o l r ihl ihr =>
    intro hp s
    obtain ⟨hpl, hpr⟩ := pureE_sexpL hp
    obtain ⟨code, ho⟩ := pureE_sexp_op hp
    cases el : Sem.evalE env s l with
    | ok s1 a =>
      have e1 : s1 = s := (ihl hpl s).1 s1 a el
      subst e1
      cases er : Sem.evalE env s1 r with
      | ok s2 b =>
        have e2 : s2 = s1 := (ihr hpr s1).1 s2 b er
        subst e2
        rcases pureOpcode_cases ho with ⟨rfl, rfl⟩ | ⟨rfl, rfl⟩ | ⟨hc, h99, _, _⟩
        · rw [evalE_and_ok el er]
          split
          · exact KeepsState.ok _ _
          · exact KeepsState.outside _
        · rw [evalE_or_ok el er]
          split
          · exact KeepsState.ok _ _
          · exact KeepsState.outside _
        · rw [evalE_arith_ok h99 el er]
          split
          · exact KeepsState.ok _ _
          · exact KeepsState.fault _ _
      | fault sf rc =>
        rw [evalE_op_right ho el er (by intro _ _ h; cases h)]
        have := (ihr hpr s1).2 _ _ er
        subst this
        exact KeepsState.fault _ _
      | notDenoted =>
        rw [evalE_op_right ho el er (by intro _ _ h; cases h)]
        exact KeepsState.notDenoted _
      | outside =>
        rw [evalE_op_right ho el er (by intro _ _ h; cases h)]
        exact KeepsState.outside _
    | fault sf rc =>
      rw [evalE_op_left r ho el (by intro _ _ h; cases h)]
      have := (ihl hpl s).2 _ _ el
      subst this
      exact KeepsState.fault _ _
    | notDenoted =>
      rw [evalE_op_left r ho el (by intro _ _ h; cases h)]
      exact KeepsState.notDenoted _
    | outside =>
      rw [evalE_op_left r ho el (by intro _ _ h; cases h)]
      exact KeepsState.outside _

/-- **Stage 1.** A lowered value expression computes its source value into its result register; the machine
state reached represents the source state reached (nested assignments are performed on both sides), also when
the expression faults (same code, negative; the states then hold the assignments made before the fault).
The first conjunct is the syntactic part (counter grows, result temporary in `[k, le.k)`, every instruction an
ALU instruction into such a temporary or the `bind` of a variable the expression assigns). The last component of
the two executing cases is the frame: every register that is neither a temporary at or above the entry counter
nor the cell of an assigned variable reads as before.

Generalised from pure expressions (`pureE`) to `valueE`; for a pure expression `writesIn e = []`, the source
state is unchanged (`evalE_pure_state`) and the frame is `TmpFrame` (`lowerE_correct_pure`).

Corrected statement (earlier round): the hypothesis `RegsWf c` (and the conclusion `RegsWf c'`). Without it the
statement is false: `stage1_needs_RegsWf` in `LowerSem2.lean`. -/
theorem lowerE_correct {ρ : Rho} {decls : List Sem.VarDecl} (hρ : RhoOk ρ decls)
    (e : Expr) (hp : valueE e = true) (hlit : litsOkE e = true) (k : Nat) (le : LE)
    (hle : lowerE ρ e k = some le) (env : Env) (s : Sem.SrcState) (c : Conn)
    (hsim : Sim ρ s c) (hwf : RegsWf c) (ht : TmpsOk le.instrs) (hreg : le.reg.cls = 7 → le.reg.idx < 8) :
    (k ≤ le.k ∧ (le.reg.cls = 7 → k ≤ le.reg.idx ∧ le.reg.idx < le.k) ∧
      ∀ i ∈ le.instrs, InstrShape ρ (writesIn e) k le.k i) ∧
    match Sem.evalE env s e with
    | .ok s' v => s'.ev = s.ev ∧ ∃ c', execInstrs env c le.instrs = (c', 0) ∧ Sim ρ s' c' ∧ RegsWf c' ∧
        readReg env c' le.reg = v ∧
        ∀ env' reg, (reg.cls = 7 → reg.idx < k) → (∀ y ∈ writesIn e, ∀ ry, ρ y = some ry → ¬ sameCell ry reg) →
          readReg env' c' reg = readReg env' c reg
    | .fault s' rc => rc < 0 ∧ ∃ c', execInstrs env c le.instrs = (c', rc) ∧ Sim ρ s' c' ∧ RegsWf c' ∧
        ∀ env' reg, (reg.cls = 7 → reg.idx < k) → (∀ y ∈ writesIn e, ∀ ry, ρ y = some ry → ¬ sameCell ry reg) →
          readReg env' c' reg = readReg env' c reg
    | .outside => True
    | .notDenoted => False := by
  have hshape := lowerE_shape hρ e k le hle
  refine ⟨hshape, ?_⟩
  have frame : ∀ c' rc, execInstrs env c le.instrs = (c', rc) → ∀ env' reg, (reg.cls = 7 → reg.idx < k) →
      (∀ y ∈ writesIn e, ∀ ry, ρ y = some ry → ¬ sameCell ry reg) → readReg env' c' reg = readReg env' c reg := by
    intro c' rc hx env' reg h7 hW
    have := execInstrs_read_other env env' reg le.instrs c ?_
    · rw [hx] at this; exact this
    · intro i hi ⟨hf, hidx⟩
      rcases hshape.2.2 i hi with ⟨i7, ilo, _, _⟩ | ⟨_, y, hy, hρy⟩
      · have : reg.cls = 7 := by rw [i7] at hf; exact fileOf_eq_of hf.symm (.inr rfl)
        have := h7 this
        omega
      · exact hW y hy _ hρy ⟨hf, hidx⟩
  rcases lowerE_res hρ e hp hlit k le env s c hle hsim hwf ht hreg with
    ⟨s', v, c', ev, x, sim', wf', rd, hev⟩ | ⟨s', rc, c', ev, hrc, x, sim', wf'⟩ | ev
  · rw [ev]; exact ⟨hev, c', x, sim', wf', rd, frame c' 0 x⟩
  · rw [ev]; exact ⟨hrc, c', x, sim', wf', frame c' rc x⟩
  · rw [ev]; trivial

/-- **Stage 1 on pure expressions** — the statement as it was before nested binds were admitted: the source
state does not change, only temporaries at or above the entry counter are touched (`TmpFrame`), every instruction
is an ALU instruction into such a temporary. -/
theorem lowerE_correct_pure {ρ : Rho} {decls : List Sem.VarDecl} (hρ : RhoOk ρ decls)
    (e : Expr) (hp : pureE e = true) (hlit : litsOkE e = true) (k : Nat) (le : LE)
    (hle : lowerE ρ e k = some le) (env : Env) (s : Sem.SrcState) (c : Conn)
    (hsim : Sim ρ s c) (hwf : RegsWf c) (ht : TmpsOk le.instrs) (hreg : le.reg.cls = 7 → le.reg.idx < 8) :
    (k ≤ le.k ∧ (le.reg.cls = 7 → k ≤ le.reg.idx ∧ le.reg.idx < le.k) ∧
      ∀ i ∈ le.instrs, i.ret.cls = 7 ∧ k ≤ i.ret.idx ∧ i.ret.idx < le.k ∧ AluOp i.op) ∧
    match Sem.evalE env s e with
    | .ok s' v => s' = s ∧ ∃ c', execInstrs env c le.instrs = (c', 0) ∧ Sim ρ s c' ∧ RegsWf c' ∧
        readReg env c' le.reg = v ∧ TmpFrame k c c'
    | .fault s' rc => s' = s ∧ rc < 0 ∧ ∃ c', execInstrs env c le.instrs = (c', rc) ∧ Sim ρ s c' ∧
        RegsWf c' ∧ TmpFrame k c c'
    | .outside => True
    | .notDenoted => False := by
  have hshape := lowerE_shape hρ e k le hle
  have hpure := lowerE_shape_pure hρ hp hle
  refine ⟨⟨hshape.1, hshape.2.1, hpure⟩, ?_⟩
  have frame : ∀ c' rc, execInstrs env c le.instrs = (c', rc) → TmpFrame k c c' := by
    intro c' rc hx
    have := execInstrs_tmpFrame env k le.instrs c (fun i hi => ⟨(hpure i hi).1, (hpure i hi).2.1⟩)
    rw [hx] at this; exact this
  obtain ⟨st1, st2⟩ := evalE_pure_state (env := env) e hp s
  rcases lowerE_res hρ e (valueE_of_pure hp) hlit k le env s c hle hsim hwf ht hreg with
    ⟨s', v, c', ev, x, sim', wf', rd, hev⟩ | ⟨s', rc, c', ev, hrc, x, sim', wf'⟩ | ev
  · have := st1 s' v ev; subst this
    rw [ev]; exact ⟨rfl, c', x, sim', wf', rd, frame c' 0 x⟩
  · have := st2 s' rc ev; subst this
    rw [ev]; exact ⟨rfl, hrc, c', x, sim', wf', frame c' rc x⟩
  · rw [ev]; trivial


/-! ## stage 2: statements -/

/-- the assigned name is not a primitive (the compiler rejects binding to a primitive register) -/
def writesOkE : Expr → Bool
  | .sexp .bind (.atom (.name x)) _ => (Sem.primIndex x).isNone
  | _ => true

/-- the assigned name is not the event flag (user names never start with `__`; the desugared
commands assign `__shouldReport` / `__shouldContinue` only) -/
def noFlagWriteE : Expr → Bool
  | .sexp .bind (.atom (.name x)) _ => decide (x ≠ "__eventFlag".toList)
  | _ => true

theorem pure_not_cond {e : Expr} (hp : pureE e = true) :
    (∀ c v, e = .sexp .if c v → False) ∧ (∀ c v, e = .sexp .notIf c v → False) ∧
    (∀ a v, e = .sexp .ewma a v → False) := by
  refine ⟨?_, ?_, ?_⟩ <;> (intro c v h; subst h; simp [pureE] at hp)

theorem lowerStmt_bind_inv {ρ : Rho} {x : Name} {e : Expr} {is : List VInstr} (hp : valueE e = true)
    (h : lowerStmt ρ (.sexp .bind (.atom (.name x)) e) = some is) :
    ∃ tx ce, ρ x = some tx ∧ lowerE ρ e 0 = some ce ∧ is = ce.instrs ++ [⟨1, tx, tx, ce.reg⟩] := by
  obtain ⟨h1, h2, h3⟩ := valueE_not_cond hp
  rw [lowerStmt.eq_5 ρ x e h1 h2 h3] at h
  split at h
  · rename_i tx ce h1 h2; exact ⟨tx, ce, h1, h2, (Option.some.inj h).symm⟩
  · cases h

theorem lowerCond_inv {ρ : Rho} {code : Nat} {x : Name} {a b : Expr} {is : List VInstr}
    (h : lowerCond ρ code x a b = some is) :
    ∃ tx ca cb, ρ x = some tx ∧ lowerE ρ a 0 = some ca ∧ lowerE ρ b ca.k = some cb ∧
      is = ca.instrs ++ cb.instrs ++ [⟨code, tx, ca.reg, cb.reg⟩] := by
  unfold lowerCond at h
  split at h
  · rename_i tx ca h1 h2
    split at h
    · rename_i cb h3; exact ⟨tx, ca, cb, h1, h2, h3, (Option.some.inj h).symm⟩
    · cases h
  · cases h

/-- the forms of a statement -/
theorem stmtOk_cases {e : Expr} (h : stmtOk e = true) :
    e = .none ∨ ∃ x rhs, e = .sexp .bind (.atom (.name x)) rhs ∧
      ((∃ c v, rhs = .sexp .if c v ∧ pureE c = true ∧ pureE v = true) ∨
       (∃ c v, rhs = .sexp .notIf c v ∧ pureE c = true ∧ pureE v = true) ∨
       (∃ c v, rhs = .sexp .ewma c v ∧ pureE c = true ∧ pureE v = true) ∨
       pureE rhs = true) := by
  unfold stmtOk at h
  split at h
  · exact .inl rfl
  · rw [Bool.and_eq_true] at h; exact .inr ⟨_, _, rfl, .inl ⟨_, _, rfl, h⟩⟩
  · rw [Bool.and_eq_true] at h; exact .inr ⟨_, _, rfl, .inr (.inl ⟨_, _, rfl, h⟩)⟩
  · rw [Bool.and_eq_true] at h; exact .inr ⟨_, _, rfl, .inr (.inr (.inl ⟨_, _, rfl, h⟩))⟩
  · exact .inr ⟨_, _, rfl, .inr (.inr (.inr h))⟩
  · cases h

/-- the forms of a statement of the fragment: a comment; a bare operator expression that is a value expression; a
bind — the operands of a conditional / ewma are value expressions, the second of which does not assign the result
variable of the first -/
theorem stmtOk2_cases {e : Expr} (h : stmtOk2 e = true) :
    e = .none ∨ (∃ o l r code, e = .sexp o l r ∧ pureOpcode o = some code ∧ valueE (.sexp o l r) = true) ∨
    ∃ x rhs, e = .sexp .bind (.atom (.name x)) rhs ∧
      ((∃ c v, rhs = .sexp .if c v ∧ valueE c = true ∧ valueE v = true ∧ noHazard c v = true) ∨
       (∃ c v, rhs = .sexp .notIf c v ∧ valueE c = true ∧ valueE v = true ∧ noHazard c v = true) ∨
       (∃ c v, rhs = .sexp .ewma c v ∧ valueE c = true ∧ valueE v = true ∧ noHazard c v = true) ∨
       valueE rhs = true) := by
  rcases stmtOk2_forms h with rfl | hb | ⟨x, rhs, rfl⟩
  · exact .inl rfl
  · exact .inr (.inl hb)
  refine .inr (.inr ⟨x, rhs, rfl, ?_⟩)
  rcases notCond_or rhs with ⟨h1, h2, h3⟩ | ⟨op, a, b, code, rfl, hc⟩
  · rw [stmtOk2.eq_5 x rhs h1 h2 h3] at h
    exact .inr (.inr (.inr h))
  · rcases condCode_cases hc with ⟨rfl, rfl⟩ | ⟨rfl, rfl⟩ | ⟨rfl, rfl⟩ <;>
      simp only [stmtOk2, Bool.and_eq_true] at h
    · exact .inl ⟨_, _, rfl, h.1.1, h.1.2, h.2⟩
    · exact .inr (.inl ⟨_, _, rfl, h.1.1, h.1.2, h.2⟩)
    · exact .inr (.inr (.inl ⟨_, _, rfl, h.1.1, h.1.2, h.2⟩))

/-- outcome of one (non-comment) statement -/
def StmtRes (ρ : Rho) (env : Env) (s : Sem.SrcState) (c : Conn) (e : Expr) (is : List VInstr) : Prop :=
  (∃ s' v c', Sem.evalE env s e = .ok s' v ∧ execInstrs env c is = (c', 0) ∧ Sim ρ s' c' ∧ RegsWf c' ∧
      (noFlagWriteE e = true → s'.ev = s.ev)) ∨
  (∃ s' rc c', Sem.evalE env s e = .fault s' rc ∧ rc < 0 ∧ execInstrs env c is = (c', rc) ∧ Sim ρ s' c' ∧
      RegsWf c') ∨
  Sem.evalE env s e = .outside


theorem noFlagWriteE_bind {x : Name} {rhs : Expr} (h : noFlagWriteE (.sexp .bind (.atom (.name x)) rhs) = true) :
    x ≠ "__eventFlag".toList := of_decide_eq_true h

theorem writesOkE_bind {x : Name} {rhs : Expr} (h : writesOkE (.sexp .bind (.atom (.name x)) rhs) = true) :
    Sem.primIndex x = none := Option.isNone_iff_eq_none.mp h

theorem litsOkE_bind {x : Name} {rhs : Expr} (h : litsOkE (.sexp .bind (.atom (.name x)) rhs) = true) :
    litsOkE rhs = true := (litsOkE_sexp h).2

/-- the operands of a conditional / ewma statement (or of an operator node whose last instruction writes an
arbitrary register) -/
theorem cond_operands {ρ : Rho} {decls : List Sem.VarDecl} (hρ : RhoOk ρ decls) {code : Nat} {tx : VReg}
    {a b : Expr} {ca cb : LE} (hpa : valueE a = true) (hpb : valueE b = true) (hz : noHazard a b = true)
    (hla : litsOkE a = true)
    (hlb : litsOkE b = true) (ha : lowerE ρ a 0 = some ca) (hb : lowerE ρ b ca.k = some cb)
    (ht : TmpsOk (ca.instrs ++ cb.instrs ++ [⟨code, tx, ca.reg, cb.reg⟩]))
    (env : Env) {s : Sem.SrcState} {c : Conn} (sim : Sim ρ s c) (wf : RegsWf c) :
    OperandsRes ρ env s c a b ca cb := by
  obtain ⟨sl1, sl2, _⟩ := lowerE_shape hρ a 0 ca ha
  obtain ⟨_, _, sr3⟩ := lowerE_shape hρ b ca.k cb hb
  obtain ⟨ht12, ht3⟩ := TmpsOk.append ht
  obtain ⟨ht1, ht2⟩ := TmpsOk.append ht12
  obtain ⟨_, hlt, hrt⟩ := ht3 _ (List.mem_singleton.mpr rfl)
  exact operands_res (fun i hi => operand_safe hρ ha hz (sr3 i hi) (fun h => (sl2 h).2))
    (lowerE_res hρ a hpa hla 0 ca env s c ha sim wf ht1 hlt)
    (fun s1 c1 sim1 wf1 => lowerE_res hρ b hpb hlb ca.k cb env s1 c1 hb sim1 wf1 ht2 hrt)

theorem lowerStmt_res {ρ : Rho} {decls : List Sem.VarDecl} (hρ : RhoOk ρ decls) {e : Expr} {is : List VInstr}
    (hok : stmtOk2 e = true) (hne : e ≠ .none) (hlit : litsOkE e = true) (hw : writesOkE e = true)
    (hlow : lowerStmt ρ e = some is) (ht : TmpsOk is) (env : Env) (s : Sem.SrcState) (c : Conn)
    (sim : Sim ρ s c) (wf : RegsWf c) : StmtRes ρ env s c e is := by
  rcases stmtOk2_cases hok with rfl | ⟨o, l, r, code, rfl, ho, hv⟩ | ⟨x, rhs, rfl, hforms⟩
  · exact absurd rfl hne
  · -- a bare operator expression: its code, the value is dropped
    rw [lowerStmt_bare ho] at hlow
    obtain ⟨le, hle, rfl⟩ := Option.map_eq_some_iff.mp hlow
    have hreg : le.reg.cls = 7 → le.reg.idx < 8 := by
      obtain ⟨cl, cr, -, -, rfl⟩ := lowerE_sexp_inv ho hle
      exact (ht _ (List.mem_append_right _ (List.mem_singleton.mpr rfl))).1
    rcases lowerE_res hρ _ hv hlit 0 le env s c hle sim wf ht hreg with
      ⟨s1, v, c', ev, x1, sim', wf', -, hev⟩ | ⟨sf, rc, c', ev, hrc, x1, sim', wf'⟩ | ev
    · exact .inl ⟨s1, v, c', ev, x1, sim', wf', fun _ => hev⟩
    · exact .inr (.inl ⟨sf, rc, c', ev, hrc, x1, sim', wf'⟩)
    · exact .inr (.inr ev)
  have hp : Sem.primIndex x = none := writesOkE_bind hw
  have hlr := litsOkE_bind hlit
  rcases hforms with ⟨a, b, rfl, hpa, hpb, hz⟩ | ⟨a, b, rfl, hpa, hpb, hz⟩ | ⟨a, b, rfl, hpa, hpb, hz⟩ | hpure
  · -- if
    rw [lowerStmt] at hlow
    obtain ⟨tx, ca, cb, hx, ha, hb, rfl⟩ := lowerCond_inv hlow
    obtain ⟨hla, hlb⟩ := litsOkE_sexp hlr
    rcases cond_operands hρ hpa hpb hz hla hlb ha hb ht env sim wf with
      ⟨s1, s2, av, bv, c', ea, eb, x1, sim', wf', ra, rb, hev⟩ | ⟨sf, rc, c', hev, hrc, x1, sim', wf'⟩ | hev
    · have hstep : execInstr env c' ⟨7, tx, ca.reg, cb.reg⟩ = (if av != 0 then writeReg env c' bv tx else c', 0) := by
        simp only [execInstr, ra, rb]
      rw [StmtRes, evalE_if_ok ea eb]
      by_cases hcv : (av != 0) = true
      · rw [if_pos hcv] at hstep ⊢
        obtain ⟨s3, hw3, sim3, wf3, hev3⟩ := write_step hρ hx hp env sim' wf' bv
        rw [hw3]
        exact .inl ⟨s3, _, _, rfl, execInstrs_snoc x1 hstep (by omega), sim3, wf3,
          fun h => (hev3 (noFlagWriteE_bind h)).trans hev⟩
      · rw [if_neg hcv] at hstep ⊢
        exact .inl ⟨s2, _, _, rfl, execInstrs_snoc x1 hstep (by omega), sim', wf', fun _ => hev⟩
    · refine .inr (.inl ⟨sf, rc, c', ?_, hrc, execInstrs_append_fault _ x1 hrc, sim', wf'⟩)
      rcases hev with ea | ⟨s1, av, ea, eb⟩
      · exact evalE_cond_left b (.inl rfl) ea (by intro _ _ h; cases h)
      · exact evalE_cond_right (.inl rfl) ea eb (by intro _ _ h; cases h)
    · refine .inr (.inr ?_)
      rcases hev with ea | ⟨s1, av, ea, eb⟩
      · exact evalE_cond_left b (.inl rfl) ea (by intro _ _ h; cases h)
      · exact evalE_cond_right (.inl rfl) ea eb (by intro _ _ h; cases h)
  · -- !if
    rw [lowerStmt] at hlow
    obtain ⟨tx, ca, cb, hx, ha, hb, rfl⟩ := lowerCond_inv hlow
    obtain ⟨hla, hlb⟩ := litsOkE_sexp hlr
    rcases cond_operands hρ hpa hpb hz hla hlb ha hb ht env sim wf with
      ⟨s1, s2, av, bv, c', ea, eb, x1, sim', wf', ra, rb, hev⟩ | ⟨sf, rc, c', hev, hrc, x1, sim', wf'⟩ | hev
    · have hstep : execInstr env c' ⟨13, tx, ca.reg, cb.reg⟩ = (if av == 0 then writeReg env c' bv tx else c', 0) := by
        simp only [execInstr, ra, rb]
      rw [StmtRes, evalE_notIf_ok ea eb]
      by_cases hcv : (av == 0) = true
      · rw [if_pos hcv] at hstep ⊢
        obtain ⟨s3, hw3, sim3, wf3, hev3⟩ := write_step hρ hx hp env sim' wf' bv
        rw [hw3]
        exact .inl ⟨s3, _, _, rfl, execInstrs_snoc x1 hstep (by omega), sim3, wf3,
          fun h => (hev3 (noFlagWriteE_bind h)).trans hev⟩
      · rw [if_neg hcv] at hstep ⊢
        exact .inl ⟨s2, _, _, rfl, execInstrs_snoc x1 hstep (by omega), sim', wf', fun _ => hev⟩
    · refine .inr (.inl ⟨sf, rc, c', ?_, hrc, execInstrs_append_fault _ x1 hrc, sim', wf'⟩)
      rcases hev with ea | ⟨s1, av, ea, eb⟩
      · exact evalE_cond_left b (.inr (.inl rfl)) ea (by intro _ _ h; cases h)
      · exact evalE_cond_right (.inr (.inl rfl)) ea eb (by intro _ _ h; cases h)
    · refine .inr (.inr ?_)
      rcases hev with ea | ⟨s1, av, ea, eb⟩
      · exact evalE_cond_left b (.inr (.inl rfl)) ea (by intro _ _ h; cases h)
      · exact evalE_cond_right (.inr (.inl rfl)) ea eb (by intro _ _ h; cases h)
  · -- ewma
    rw [lowerStmt] at hlow
    obtain ⟨tx, ca, cb, hx, ha, hb, rfl⟩ := lowerCond_inv hlow
    obtain ⟨hla, hlb⟩ := litsOkE_sexp hlr
    rcases cond_operands hρ hpa hpb hz hla hlb ha hb ht env sim wf with
      ⟨s1, s2, av, bv, c', ea, eb, x1, sim', wf', ra, rb, hev⟩ | ⟨sf, rc, c', hev, hrc, x1, sim', wf'⟩ | hev
    · have hstep : execInstr env c' ⟨5, tx, ca.reg, cb.reg⟩ =
          (writeReg env c' (ewma av (Sem.read env s2 x) bv) tx, 0) := by
        simp only [execInstr, ra, rb, sim'.1 env x tx hx]
      rw [StmtRes, evalE_ewma_ok ea eb]
      obtain ⟨s3, hw3, sim3, wf3, hev3⟩ := write_step hρ hx hp env sim' wf' (ewma av (Sem.read env s2 x) bv)
      rw [hw3]
      exact .inl ⟨s3, _, _, rfl, execInstrs_snoc x1 hstep (by omega), sim3, wf3,
        fun h => (hev3 (noFlagWriteE_bind h)).trans hev⟩
    · refine .inr (.inl ⟨sf, rc, c', ?_, hrc, execInstrs_append_fault _ x1 hrc, sim', wf'⟩)
      rcases hev with ea | ⟨s1, av, ea, eb⟩
      · exact evalE_cond_left b (.inr (.inr rfl)) ea (by intro _ _ h; cases h)
      · exact evalE_cond_right (.inr (.inr rfl)) ea eb (by intro _ _ h; cases h)
    · refine .inr (.inr ?_)
      rcases hev with ea | ⟨s1, av, ea, eb⟩
      · exact evalE_cond_left b (.inr (.inr rfl)) ea (by intro _ _ h; cases h)
      · exact evalE_cond_right (.inr (.inr rfl)) ea eb (by intro _ _ h; cases h)
  · -- plain assignment of a value expression
    obtain ⟨tx, ce, hx, he, rfl⟩ := lowerStmt_bind_inv hpure hlow
    obtain ⟨ht1, ht2⟩ := TmpsOk.append ht
    obtain ⟨_, _, hrt⟩ := ht2 _ (List.mem_singleton.mpr rfl)
    rcases lowerE_res hρ rhs hpure hlr 0 ce env s c he sim wf ht1 hrt with
      ⟨s1, v, c', ev, x1, sim', wf', rd, hev⟩ | ⟨sf, rc, c', ev, hrc, x1, sim', wf'⟩ | ev
    · have hstep : execInstr env c' ⟨1, tx, tx, ce.reg⟩ = (writeReg env c' v tx, 0) := by
        simp only [execInstr, rd]
      obtain ⟨s3, hw3, sim3, wf3, hev3⟩ := write_step hρ hx hp env sim' wf' v
      rw [StmtRes, evalE_bind_ok hpure ev, hw3]
      exact .inl ⟨s3, _, _, rfl, execInstrs_snoc x1 hstep (by omega), sim3, wf3,
        fun h => (hev3 (noFlagWriteE_bind h)).trans hev⟩
    · exact .inr (.inl ⟨sf, rc, c', evalE_bind_not_ok hpure ev (by intro _ _ h; cases h), hrc,
        execInstrs_append_fault _ x1 hrc, sim', wf'⟩)
    · exact .inr (.inr (evalE_bind_not_ok hpure ev (by intro _ _ h; cases h)))

theorem evalStmts_single (env : Env) (s : Sem.SrcState) (e : Expr) (rest : List Expr) (hne : e ≠ .none) :
    Sem.evalStmts env s (e :: rest) =
      match Sem.evalE env s e with
      | .ok s' _ => Sem.evalStmts env s' rest
      | r => r := by
  rw [Sem.evalStmts] <;> first | rfl | (intro h; exact hne h)

/-- **Stage 2.** One statement: the lowered code performs the assignment (and the nested ones). (`evalStmts env s [e]`
is `evalE env s e` with the value dropped, and skips a comment.) A fault leaves both sides in the states reached
by the nested assignments made before it (for a statement of the former fragment `stmtOk` that is the state `s`
itself: `evalE_pure_state`). -/
theorem lowerStmt_correct {ρ : Rho} {decls : List Sem.VarDecl} (hρ : RhoOk ρ decls) (e : Expr) (is : List VInstr)
    (hok : stmtOk2 e = true) (hlit : litsOkE e = true) (hw : writesOkE e = true)
    (hlow : lowerStmt ρ e = some is) (ht : TmpsOk is) (env : Env) (s : Sem.SrcState) (c : Conn)
    (sim : Sim ρ s c) (wf : RegsWf c) :
    match Sem.evalStmts env s [e] with
    | .ok s' _ => ∃ c', execInstrs env c is = (c', 0) ∧ Sim ρ s' c' ∧ RegsWf c' ∧
        (noFlagWriteE e = true → s'.ev = s.ev)
    | .fault s' rc => rc < 0 ∧ ∃ c', execInstrs env c is = (c', rc) ∧ Sim ρ s' c' ∧ RegsWf c'
    | .outside => True
    | .notDenoted => False := by
  by_cases hne : e = .none
  · subst hne
    rw [lowerStmt] at hlow; cases hlow
    exact ⟨c, rfl, sim, wf, fun _ => rfl⟩
  · rw [evalStmts_single env s e [] hne]
    rcases lowerStmt_res hρ hok hne hlit hw hlow ht env s c sim wf with
      ⟨s', v, c', ev, x, sim', wf', hev⟩ | ⟨s', rc, c', ev, hrc, x, sim', wf'⟩ | ev
    · rw [ev]; exact ⟨c', x, sim', wf', hev⟩
    · rw [ev]; exact ⟨hrc, c', x, sim', wf'⟩
    · rw [ev]; trivial

end Portus.Lang.Frag
