import PortusModel.Lemmas.Rt
/-! One step of the dispatch loop against the flat-map specification (C02, C05, C09, C16). -/
namespace Portus.Rt
open Portus Portus.Lang Portus.Wire Portus.Ipc

/-- callbacks into user code, as opposed to transport events and log lines -/
def isCallback : Ev → Bool
  | .newFlow .. => true
  | .report .. => true
  | .closed .. => true
  | .dropped .. => true
  | _ => false

/-- keys are unique: the association lists are maps -/
structure WfSt {σ : Type} (st : St σ) : Prop where
  addrs : (st.flows.map (·.1)).Nodup
  sids : ∀ p ∈ st.flows, (p.2.map (·.1)).Nodup

theorem WfSt_init {σ : Type} : WfSt (St.init : St σ) := ⟨by simp [St.init], by simp [St.init]⟩

theorem userEv_not_callback {addr sid flow : Nat} {e : Ev} (h : UserEv addr sid flow e) : isCallback e = false := by
  rcases h with rfl | ⟨b, rfl, _⟩ | ⟨m, rfl⟩ <;> rfl

theorem filter_callback_user {addr sid flow : Nat} {evs : List Ev} (h : ∀ e ∈ evs, UserEv addr sid flow e) :
    evs.filter isCallback = [] := by
  rw [List.filter_eq_nil_iff]
  intro e he
  simp [userEv_not_callback (h e he)]

/-! ## installs -/

/-- an install send: to `addr`, one of the configured install messages, or a failed send -/
def InstallEv (cfg : Cfg) (addr : Addr) (e : Ev) : Prop :=
  e = .txFail addr ∨ ∃ p ∈ cfg.progs, e = .tx addr p.install

theorem sendInstalls_spec (to : Addr) (progs : List ProgInfo) (sf : Nat) (acc : List Ev) :
    ∃ evs, (sendInstalls to progs sf acc).2.2 = acc ++ evs ∧
      (∀ e ∈ evs, e = .txFail to ∨ ∃ p ∈ progs, e = .tx to p.install) ∧
      ((sendInstalls to progs sf acc).1 = true → evs = progs.map fun p => Ev.tx to p.install) := by
  induction progs generalizing sf acc with
  | nil => exact ⟨[], by simp [sendInstalls], by simp, by simp⟩
  | cons p rest ih =>
    simp only [sendInstalls, sendTo]
    by_cases hsf : sf > 0
    · simp only [hsf, if_true]
      exact ⟨[.txFail to], by simp, by simp, by simp⟩
    · simp only [hsf, if_false]
      obtain ⟨evs, h1, h2, h3⟩ := ih sf (acc ++ [.tx to p.install])
      refine ⟨.tx to p.install :: evs, by simp [h1], ?_, ?_⟩
      · intro e he
        simp only [List.mem_cons] at he
        rcases he with rfl | he
        · exact Or.inr ⟨p, by simp, rfl⟩
        · rcases h2 e he with h | ⟨q, hq, h⟩
          · exact Or.inl h
          · exact Or.inr ⟨q, by simp [hq], h⟩
      · intro hok
        simp [h3 hok]

theorem installEv_not_callback {to : Addr} {progs : List ProgInfo} {e : Ev}
    (h : e = .txFail to ∨ ∃ p ∈ progs, e = .tx to p.install) : isCallback e = false := by
  rcases h with rfl | ⟨p, _, rfl⟩ <;> rfl

/-! ## unique keys -/

theorem filter_eq_of_lookup {β : Type} (l : List (Nat × β)) (k : Nat) (h : (l.map (·.1)).Nodup) :
    l.filter (fun p => p.1 = k) = match l.lookup k with | some v => [(k, v)] | none => [] := by
  induction l with
  | nil => rfl
  | cons p rest ih =>
    obtain ⟨a, v⟩ := p
    simp only [List.map_cons, List.nodup_cons] at h
    obtain ⟨hn, hr⟩ := h
    by_cases ha : a = k
    · subst ha
      have hrest : rest.filter (fun p => p.1 = a) = [] := by
        rw [List.filter_eq_nil_iff]
        intro q hq
        simp only [decide_eq_true_eq]
        intro e
        exact hn (by rw [← e]; exact List.mem_map_of_mem hq)
      simp [List.lookup_cons, hrest]
    · have : (k == a) = false := by simpa using (fun e => ha e.symm)
      simp only [List.lookup_cons, this]
      rw [List.filter_cons_of_neg (by simpa using ha)]
      exact ih hr

theorem nodup_filter_keys {β : Type} (l : List (Nat × β)) (q : Nat × β → Bool) (h : (l.map (·.1)).Nodup) :
    ((l.filter q).map (·.1)).Nodup :=
  h.sublist (List.Sublist.map _ List.filter_sublist)

theorem keys_filter_ne {β : Type} (l : List (Nat × β)) (k : Nat) : k ∉ (l.filter fun p => p.1 ≠ k).map (·.1) := by
  intro h
  obtain ⟨p, hp, e⟩ := List.mem_map.mp h
  have := (List.mem_filter.mp hp).2
  simp at this
  exact this e

theorem WfSt_setAddr {σ : Type} {st : St σ} (h : WfSt st) (a : Addr) (fm : List (Nat × Flow σ))
    (hfm : (fm.map (·.1)).Nodup) (nf sf : Nat) :
    WfSt { flows := setAddr st.flows a fm, nextFlow := nf, sendFail := sf } := by
  constructor
  · simp only [setAddr, List.map_cons, List.nodup_cons]
    exact ⟨keys_filter_ne st.flows a, nodup_filter_keys st.flows _ h.addrs⟩
  · intro p hp
    simp only [setAddr, List.mem_cons] at hp
    rcases hp with rfl | hp
    · exact hfm
    · exact h.sids p (List.mem_filter.mp hp).1

theorem lookup_mem {β : Type} {l : List (Nat × β)} {k : Nat} {v : β} (h : l.lookup k = some v) : (k, v) ∈ l := by
  induction l with
  | nil => simp at h
  | cons p rest ih =>
    obtain ⟨a, w⟩ := p
    simp only [List.lookup_cons] at h
    split at h
    · rename_i hk
      injection h with h
      simp at hk
      simp [hk, h]
    · simp [ih h]

theorem WfSt.fm_nodup {σ : Type} {st : St σ} (h : WfSt st) {a : Addr} {fm : List (Nat × Flow σ)}
    (hl : st.flows.lookup a = some fm) : (fm.map (·.1)).Nodup :=
  h.sids (a, fm) (lookup_mem hl)

/-! ## the flat map after an update of one address -/

theorem cur_setAddr {σ : Type} (st : St σ) (a : Addr) (fm : List (Nat × Flow σ)) (nf sf : Nat) (b : Addr) (s : Nat) :
    cur { flows := setAddr st.flows a fm, nextFlow := nf, sendFail := sf } b s =
      if b = a then fm.lookup s else cur st b s := by
  unfold cur
  simp only [lookup_setAddr]
  by_cases hb : b = a <;> simp [hb]

end Portus.Rt

namespace Portus.Rt
open Portus Portus.Lang Portus.Wire Portus.Ipc

/-- the flow id a message speaks about -/
def msgSid : Msg → Nat
  | .cr c => c.sid
  | .ms m => m.sid
  | _ => 0

def StepRes.evs {σ : Type} : StepRes σ → List Ev
  | .cont _ e => e
  | .fail _ e => e

def StepRes.st {σ : Type} : StepRes σ → St σ
  | .cont s _ => s
  | .fail s _ => s

/-- classification of everything a step can emit -/
def StepEv (cfg : Cfg) (addr sid : Nat) (e : Ev) : Prop :=
  isCallback e = true ∨ (e = .txFail addr ∨ ∃ p ∈ cfg.progs, e = .tx addr p.install) ∨
  ∃ flow, UserEv addr sid flow e ∧ UidOk cfg e

/-- **Every step terminates normally** (never a panic, never a model error) for bounded user code, and
everything it emits is a callback, an install send to the sender's address, or the effect of user code
through the handle of a flow of that address with the message's flow id. -/
theorem step_ok {σ : Type} (cfg : Cfg) (pol : Policy σ) (hb : pol.Bounded) (st : St σ) (addr : Addr) (msg : Msg) :
    ∃ r, step cfg pol st addr msg = .ok r ∧ ∀ e ∈ r.evs, StepEv cfg addr (msgSid msg) e := by
  cases msg with
  | other r => exact ⟨.cont st [], rfl, by simp [StepRes.evs]⟩
  | rdy id =>
    refine ⟨stepRdy cfg st addr, rfl, ?_⟩
    obtain ⟨ievs, hi1, hi2, _⟩ := sendInstalls_spec addr cfg.progs st.sendFail (dropAll ((st.flows.lookup addr).getD []))
    have : ∀ e ∈ (sendInstalls addr cfg.progs st.sendFail (dropAll ((st.flows.lookup addr).getD []))).2.2,
        StepEv cfg addr 0 e := by
      rw [hi1]
      intro e he
      simp only [List.mem_append] at he
      rcases he with he | he
      · simp only [dropAll, List.mem_map] at he
        obtain ⟨n, _, rfl⟩ := he
        exact Or.inl rfl
      · exact Or.inr (Or.inl (hi2 e he))
    unfold stepRdy
    simp only
    split <;> exact this
  | ms m =>
    show ∃ r, stepMs cfg pol st addr m = .ok r ∧ _
    unfold stepMs
    cases hl : st.flows.lookup addr with
    | none => exact ⟨.cont st [], rfl, by simp [StepRes.evs]⟩
    | some fm =>
      simp only
      cases hf : fm.lookup m.sid with
      | none => exact ⟨.cont st [], rfl, by simp [StepRes.evs]⟩
      | some f =>
        simp only
        by_cases hn : m.numFields = 0
        · simp only [hn, if_true]
          obtain ⟨u, sf', evs, hr, h1, h2⟩ := runUser_spec cfg addr m.sid f.no (pol.onClose f.user)
            (hb.onClose _) st.sendFail [.closed f.no]
          rw [hr]
          refine ⟨_, rfl, ?_⟩
          intro e he
          simp only [StepRes.evs, List.mem_append, List.mem_singleton, List.mem_cons, List.not_mem_nil, or_false] at he
          rcases he with (rfl | he) | rfl
          · exact Or.inl rfl
          · exact Or.inr (Or.inr ⟨f.no, h1 e he, h2 e he⟩)
          · exact Or.inl rfl
        · simp only [hn, if_false]
          obtain ⟨u, sf', evs, hr, h1, h2⟩ := runUser_spec cfg addr m.sid f.no
            (pol.onReport f.user m.sid m.uid m.fields) (hb.onReport _ _ _ _) st.sendFail [.report f.no m.sid m.uid m.fields]
          rw [hr]
          refine ⟨_, rfl, ?_⟩
          intro e he
          simp only [StepRes.evs, List.mem_append, List.mem_singleton, List.mem_cons, List.not_mem_nil, or_false] at he
          rcases he with rfl | he
          · exact Or.inl rfl
          · exact Or.inr (Or.inr ⟨f.no, h1 e he, h2 e he⟩)
  | cr c =>
    show ∃ r, stepCr cfg pol st addr c = .ok r ∧ _
    unfold stepCr
    simp only
    obtain ⟨ievs, hi1, hi2, _⟩ := sendInstalls_spec addr cfg.progs st.sendFail []
    simp only [List.nil_append] at hi1
    have hpre : ∀ e ∈ (if (st.flows.lookup addr).isSome = true then ((true, st.sendFail, []) : Bool × Nat × List Ev)
        else sendInstalls addr cfg.progs st.sendFail []).2.2, StepEv cfg addr c.sid e := by
      split
      · simp
      · rw [hi1]; intro e he; exact Or.inr (Or.inl (hi2 e he))
    generalize (if (st.flows.lookup addr).isSome = true then ((true, st.sendFail, []) : Bool × Nat × List Ev)
        else sendInstalls addr cfg.progs st.sendFail []) = r at hpre
    by_cases hok : r.1 = true
    · simp only [hok, Bool.not_true, Bool.false_eq_true, if_false]
      obtain ⟨u, sf', uevs, hr, h1, h2⟩ := runUser_spec cfg addr c.sid st.nextFlow
        (pol.newFlow (cfg.pick (c.alg.getD [])) st.nextFlow ⟨c.sid, c.cwnd, c.mss, c.srcIp, c.srcPort, c.dstIp, c.dstPort⟩)
        (hb.newFlow _ _ _) r.2.1
        (r.2.2 ++ dropAll (((st.flows.lookup addr).getD []).filter fun p => p.1 = c.sid) ++
          [.newFlow st.nextFlow (cfg.pick (c.alg.getD [])) ⟨c.sid, c.cwnd, c.mss, c.srcIp, c.srcPort, c.dstIp, c.dstPort⟩ c.sid])
      rw [hr]
      refine ⟨_, rfl, ?_⟩
      intro e he
      simp only [StepRes.evs, List.mem_append, List.mem_singleton] at he
      rcases he with ((he | he) | rfl) | he
      · exact hpre e he
      · simp only [dropAll, List.mem_map] at he
        obtain ⟨n, _, rfl⟩ := he
        exact Or.inl rfl
      · exact Or.inl rfl
      · exact Or.inr (Or.inr ⟨st.nextFlow, h1 e he, h2 e he⟩)
    · have hok' : r.1 = false := by simpa using hok
      simp only [hok', Bool.not_false, if_true]
      exact ⟨_, rfl, hpre⟩

end Portus.Rt
