import PortusModel.Lemmas.ParseInv
import PortusModel.Lemmas.Ctl
/-!
# Invariants behind C03 (shape of the compiled image)

Second layer of compiler invariants, on top of `CompileInv` (`ScInv`, `Good`, `CleanI`):
* `ScInv2`: no named register is a temporary, every named primitive has index `< 15`, and the name
  `__eventFlag` is bound to `Reg.implicit 0 (bool none)`;
* `Shape`: the instruction list of a compiled expression is self-contained w.r.t. temporaries
  (`ReadsOk`), contains no `Def`, writes only writable classes (or the `None` placeholder);
* the flag block ends in a write of the event-flag register, the body is a concatenation of
  self-contained blocks, `compileEvents` tiles the instruction stream;
* declared names are never `__eventFlag` (parser inversion);
* the link between the IR predicates and libccp's records (`instrsMatch`).
-/
namespace Portus.C03
open Portus Portus.Lang

/-! ## predicates on registers and instructions -/

def isTmp : Reg → Bool
  | .tmp .. => true
  | _ => false

/-- classes an instruction may write: temporaries, implicit, local, report, control -/
def writable : Reg → Bool
  | .tmp .. => true
  | .implicit .. => true
  | .local .. => true
  | .report .. => true
  | .control .. => true
  | _ => false

/-- a primitive register has one of the 15 indices handed out by `Scope::new` -/
def primOk : Reg → Bool
  | .primitive i _ => i < 15
  | _ => true

/-- what a register stored in the scope's name table may be -/
def namedOk (r : Reg) : Bool := !isTmp r && primOk r

def writesTmp (i : Instr) (j : Nat) : Prop := ∃ t, i.res = .tmp j t
def readsTmp (i : Instr) (j : Nat) : Prop := (∃ t, i.left = .tmp j t) ∨ (∃ t, i.right = .tmp j t)

/-- every read of a temporary is preceded, in the same list, by a write of that temporary -/
def ReadsOk (is : List Instr) : Prop :=
  ∀ a i b, is = a ++ i :: b → ∀ j, readsTmp i j → ∃ w ∈ a, writesTmp w j

/-- per-instruction facts carried through the compiler (the `None` result placeholder is still
allowed here; `CleanI` of `CompileInv` removes it at the end) -/
def InstrOk (i : Instr) : Prop :=
  i.op ≠ .def ∧ (i.res = .none ∨ writable i.res = true) ∧ primOk i.left = true ∧ primOk i.right = true

/-- the event records tile `[start, stop)` contiguously and in order -/
def Tiles : Nat → List EvRec → Nat → Prop
  | start, [], stop => start = stop
  | start, e :: es, stop =>
    e.flagIdx = start ∧ e.bodyIdx = start + e.numFlag ∧ Tiles (e.bodyIdx + e.numBody) es stop

/-! ## `ReadsOk` algebra -/

theorem ReadsOk_nil : ReadsOk [] := by
  intro a i b h; simp at h

theorem ReadsOk_append {x y : List Instr} (hx : ReadsOk x) (hy : ReadsOk y) : ReadsOk (x ++ y) := by
  intro a i b h j hr
  rcases List.append_eq_append_iff.mp h with ⟨a', ha, hy'⟩ | ⟨c', hx', hc⟩
  · -- the instruction lies in `y`
    obtain ⟨w, hw, hwj⟩ := hy a' i b hy' j hr
    exact ⟨w, by rw [ha]; simp [hw], hwj⟩
  · cases c' with
    | nil =>
      simp only [List.nil_append] at hc
      obtain ⟨w, hw, hwj⟩ := hy [] i b (by simpa using hc.symm) j hr
      simp at hw
    | cons c cs =>
      simp only [List.cons_append, List.cons.injEq] at hc
      obtain ⟨rfl, _⟩ := hc
      exact hx a i cs hx' j hr

theorem ReadsOk_snoc {x : List Instr} {i : Instr} (hx : ReadsOk x)
    (hi : ∀ j, readsTmp i j → ∃ w ∈ x, writesTmp w j) : ReadsOk (x ++ [i]) := by
  intro a i' b h j hr
  rcases List.eq_nil_or_concat b with rfl | ⟨b', l, rfl⟩
  · have h' : x ++ [i] = a ++ [i'] := h
    obtain ⟨rfl, h2⟩ := List.append_inj' h' rfl
    simp only [List.cons.injEq, and_true] at h2
    subst h2
    exact hi j hr
  · rw [List.concat_eq_append, ← List.cons_append, ← List.append_assoc] at h
    obtain ⟨h1, _⟩ := List.append_inj' h rfl
    exact hx a i' b' h1 j hr

theorem ReadsOk_flatten {bs : List (List Instr)} (h : ∀ b ∈ bs, ReadsOk b) : ReadsOk bs.flatten := by
  induction bs with
  | nil => exact ReadsOk_nil
  | cons b rest ih =>
    simp only [List.flatten_cons]
    exact ReadsOk_append (h b (by simp)) (ih (fun x hx => h x (by simp [hx])))

theorem ReadsOk_setLastRes {is : List Instr} (h : ReadsOk is) (r : Reg) : ReadsOk (setLastRes is r) := by
  rcases List.eq_nil_or_concat is with rfl | ⟨pre, last, rfl⟩
  · simpa [setLastRes] using ReadsOk_nil
  · rw [List.concat_eq_append] at h ⊢
    rw [setLastRes_append]
    have hpre : ReadsOk pre := by
      intro a i b hs j hr
      exact h a i (b ++ [last]) (by rw [hs]; simp) j hr
    refine ReadsOk_snoc hpre ?_
    intro j hr
    exact h pre last [] rfl j hr

theorem mem_setLastRes {is : List Instr} {r : Reg} {i : Instr} (h : i ∈ setLastRes is r) :
    ∃ i0 ∈ is, i.op = i0.op ∧ i.left = i0.left ∧ i.right = i0.right ∧ (i.res = i0.res ∨ i.res = r) := by
  rcases List.eq_nil_or_concat is with rfl | ⟨pre, last, rfl⟩
  · simp [setLastRes] at h
  · rw [List.concat_eq_append] at h ⊢
    rw [setLastRes_append] at h
    simp only [List.mem_append, List.mem_singleton] at h
    rcases h with h | rfl
    · exact ⟨i, by simp [h], rfl, rfl, rfl, Or.inl rfl⟩
    · exact ⟨last, by simp, rfl, rfl, rfl, Or.inr rfl⟩

theorem setLastRes_last {is : List Instr} (hne : is ≠ []) (r : Reg) :
    ∃ pre last, setLastRes is r = pre ++ [last] ∧ last.res = r ∧ (setLastRes is r).length = is.length := by
  rcases List.eq_nil_or_concat is with rfl | ⟨pre, last, rfl⟩
  · exact absurd rfl hne
  · rw [List.concat_eq_append, setLastRes_append]
    exact ⟨pre, _, rfl, rfl, by simp⟩

/-! ## register-file algebra: lookups of an unrelated name -/

theorem regGet_regInsert_ne {m n : Name} (hmn : m ≠ n) (r : Reg) (l : List (Name × Reg)) :
    regGet m (regInsert n r l) = regGet m l := by
  induction l with
  | nil => simp [regInsert, regGet, Ne.symm hmn]
  | cons p rest ih =>
    obtain ⟨s, x⟩ := p
    simp only [regInsert]
    split
    · simp only [regGet, ih]
    · simp only [regGet, Ne.symm hmn, if_false]

theorem regGet_regSet_ne {m n : Name} (hmn : m ≠ n) (r : Reg) (l : List (Name × Reg)) :
    regGet m (regSet n r l) = regGet m l := by
  induction l with
  | nil => simp [regSet]
  | cons p rest ih =>
    obtain ⟨s, x⟩ := p
    simp only [regSet]
    split
    · rename_i hs
      have : s ≠ m := by rw [hs]; exact Ne.symm hmn
      simp only [regGet, this, if_false]
    · simp only [regGet, ih]

/-! ## the second scope invariant -/

def flagReg : Reg := .implicit 0 (.bool none)

structure ScInv2 (sc : Scope) : Prop where
  flag : sc.get flagName = some flagReg
  named : ∀ q ∈ sc.named, namedOk q.2 = true

theorem ScInv2.get_ok {sc : Scope} (h : ScInv2 sc) {n : Name} {r : Reg} (hg : sc.get n = some r) :
    namedOk r = true := h.named (n, r) (regGet_mem hg)

theorem ScInv2_new (uid : Nat) : ScInv2 (Scope.new uid) := by
  have e : (Scope.new uid).named = (Scope.new 0).named := rfl
  refine ⟨?_, ?_⟩
  · show regGet flagName (Scope.new uid).named = some flagReg
    rw [e]; decide
  · rw [e]; decide

theorem ScInv2_newTmp {sc : Scope} (h : ScInv2 sc) (t : Ty) : ScInv2 (sc.newTmp t).2 := ⟨h.flag, h.named⟩
theorem ScInv2_clearTmps {sc : Scope} (h : ScInv2 sc) : ScInv2 sc.clearTmps := ⟨h.flag, h.named⟩

theorem ScInv2_insert {sc : Scope} (h : ScInv2 sc) (n : Name) (r : Reg) (hn : n ≠ flagName)
    (hr : namedOk r = true) (a b c d : Nat) (t : List Reg) :
    ScInv2 { uid := a, named := regInsert n r sc.named, numControl := b, numLocal := c, numPerm := d, tmp := t } := by
  refine ⟨?_, ?_⟩
  · show regGet flagName (regInsert n r sc.named) = some flagReg
    rw [regGet_regInsert_ne (Ne.symm hn)]; exact h.flag
  · intro q hq
    rcases mem_regInsert hq with rfl | hq
    · exact hr
    · exact h.named q hq

theorem ScInv2_set {sc : Scope} (h : ScInv2 sc) (n : Name) (r : Reg) (hn : n ≠ flagName)
    (hr : namedOk r = true) : ScInv2 { sc with named := regSet n r sc.named } := by
  refine ⟨?_, ?_⟩
  · show regGet flagName (regSet n r sc.named) = some flagReg
    rw [regGet_regSet_ne (Ne.symm hn)]; exact h.flag
  · intro q hq
    rcases mem_regSet hq with rfl | hq
    · exact hr
    · exact h.named q hq

/-- report, control or local: what `update_type` returns -/
def isRCL : Reg → Bool
  | .report .. => true
  | .control .. => true
  | .local .. => true
  | _ => false

theorem updateType_inv2 {sc : Scope} (h : ScInv2 sc) (n : Name) (t : Ty) :
    ∀ r sc', sc.updateType n t = .ok (r, sc') → ScInv2 sc' ∧ isRCL r = true := by
  intro r sc' he
  unfold Scope.updateType at he
  have hn : ∀ x, regGet n sc.named = some x → x ≠ flagReg → n ≠ flagName := by
    intro x hx hne e
    rw [e] at hx
    have := h.flag
    unfold Scope.get at this
    rw [this] at hx
    injection hx with hx
    exact hne hx.symm
  split at he
  · cases he
  · rename_i i t0 v hg
    simp at he; obtain ⟨rfl, rfl⟩ := he
    exact ⟨ScInv2_set h n _ (hn _ hg (by simp [flagReg])) rfl, rfl⟩
  · rename_i i t0 hg
    simp at he; obtain ⟨rfl, rfl⟩ := he
    exact ⟨ScInv2_set h n _ (hn _ hg (by simp [flagReg])) rfl, rfl⟩
  · rename_i i t0 v hg
    simp at he; obtain ⟨rfl, rfl⟩ := he
    exact ⟨ScInv2_set h n _ (hn _ hg (by simp [flagReg])) rfl, rfl⟩
  · cases he

theorem applyUpdates_inv2 {sc : Scope} (h : ScInv2 sc) (upd : List (Name × Nat)) :
    ScInv2 (applyUpdates sc upd) := by
  induction upd generalizing sc with
  | nil => exact h
  | cons p rest ih =>
    obtain ⟨n, v⟩ := p
    simp only [applyUpdates]
    split
    · rename_i r sc' he
      exact ih (updateType_inv2 h n _ _ _ he).1
    · exact ih h

/-! ## declarations -/

theorem foldlM_newReport_inv2 (ds : List Decl) (sc : Scope) (h : ScInv2 sc)
    (hn : ∀ d ∈ ds, d.var ≠ flagName) :
    ∀ sc', ds.foldlM (fun sc d => sc.newReport d.vol d.var d.init) sc = .ok sc' → ScInv2 sc' := by
  induction ds generalizing sc with
  | nil => intro sc' he; simp at he; subst he; exact h
  | cons d rest ih =>
    intro sc' he
    simp only [List.foldlM_cons, Scope.newReport] at he
    cases hinc : incU8P sc.numPerm with
    | ok np =>
      rw [hinc] at he
      simp only [Out.bind_ok, Out.pure_eq] at he
      exact ih _ (ScInv2_insert h d.var _ (hn d (by simp)) rfl _ _ _ _ _)
        (fun x hx => hn x (by simp [hx])) sc' he
    | err => rw [hinc] at he; simp at he
    | panic => rw [hinc] at he; simp at he

theorem foldlM_newControl_inv2 (ds : List Decl) (sc : Scope) (h : ScInv2 sc)
    (hn : ∀ d ∈ ds, d.var ≠ flagName) :
    ∀ sc', ds.foldlM (fun sc d => sc.newControl d.vol d.var d.init) sc = .ok sc' → ScInv2 sc' := by
  induction ds generalizing sc with
  | nil => intro sc' he; simp at he; subst he; exact h
  | cons d rest ih =>
    intro sc' he
    simp only [List.foldlM_cons, Scope.newControl] at he
    cases hinc : incU8P sc.numControl with
    | ok np =>
      rw [hinc] at he
      simp only [Out.bind_ok, Out.pure_eq] at he
      exact ih _ (ScInv2_insert h d.var _ (hn d (by simp)) rfl _ _ _ _ _)
        (fun x hx => hn x (by simp [hx])) sc' he
    | err => rw [hinc] at he; simp at he
    | panic => rw [hinc] at he; simp at he

/-- `declareAll` on a fresh scope establishes `ScInv2`, provided no declared name is `__eventFlag` -/
theorem declareAll_inv2 (uid : Nat) (ds : List Decl) (hn : ∀ d ∈ ds, d.var ≠ flagName) :
    ∀ sc, declareAll (Scope.new uid) ds = .ok sc → ScInv2 sc := by
  intro sc he
  unfold declareAll at he
  simp only at he
  split at he
  · cases he
  · cases h1 : (ds.filter fun d => "Report.".toList.isPrefixOf d.var).foldlM
        (fun sc d => sc.newReport d.vol d.var d.init) (Scope.new uid) with
    | ok sc1 =>
      rw [h1] at he
      simp only [Out.bind_ok] at he
      have i1 := foldlM_newReport_inv2 _ _ (ScInv2_new uid)
        (fun d hd => hn d (List.mem_filter.mp hd).1) sc1 h1
      exact foldlM_newControl_inv2 _ _ i1 (fun d hd => hn d (List.mem_filter.mp hd).1) sc he
    | err => rw [h1] at he; simp at he
    | panic => rw [h1] at he; simp at he

/-! ## shape of a compiled expression -/

structure Shape (c : CE) : Prop where
  reads : ReadsOk c.instrs
  ok : ∀ i ∈ c.instrs, InstrOk i
  reg : ∀ j t, c.reg = .tmp j t → ∃ w ∈ c.instrs, writesTmp w j
  prim : primOk c.reg = true

theorem Shape_atom (r : Reg) (sc : Scope) (h1 : isTmp r = false) (h2 : primOk r = true) :
    Shape ⟨[], r, sc⟩ := by
  refine ⟨ReadsOk_nil, by simp, ?_, h2⟩
  intro j t e
  simp only at e
  rw [e] at h1; simp [isTmp] at h1

theorem compileAtom_shape (p : Prim) (sc : Scope) (hs : ScInv2 sc) :
    ∀ c, compileAtom p sc = .ok c → Shape c ∧ ScInv2 c.sc := by
  intro c hc
  unfold compileAtom at hc
  cases p with
  | bool b => injection hc with hc; subst hc; exact ⟨Shape_atom _ _ rfl rfl, hs⟩
  | num n => injection hc with hc; subst hc; exact ⟨Shape_atom _ _ rfl rfl, hs⟩
  | name n =>
    simp only at hc
    cases hg : sc.get n with
    | some r =>
      rw [hg] at hc
      injection hc with hc; subst hc
      have := hs.get_ok hg
      simp only [namedOk, Bool.and_eq_true, Bool.not_eq_true'] at this
      exact ⟨Shape_atom _ _ this.1 this.2, hs⟩
    | none =>
      rw [hg] at hc
      simp only at hc
      split at hc
      · cases hc
      · simp only [Scope.newLocal] at hc
        cases hinc : incU8P sc.numLocal with
        | ok nl =>
          rw [hinc] at hc
          simp only [Out.bind_ok, Out.pure_eq] at hc
          injection hc with hc; subst hc
          have hn : n ≠ flagName := by
            intro e; rw [e, hs.flag] at hg; cases hg
          exact ⟨Shape_atom _ _ rfl rfl, ScInv2_insert hs n _ hn rfl _ _ _ _ _⟩
        | err => rw [hinc] at hc; simp at hc
        | panic => rw [hinc] at hc; simp at hc

theorem reads_of {li ri : List Instr} {lreg rreg : Reg}
    (hl : ∀ j t, lreg = .tmp j t → ∃ w ∈ li, writesTmp w j)
    (hr : ∀ j t, rreg = .tmp j t → ∃ w ∈ ri, writesTmp w j)
    (x : Instr) (hxl : x.left = lreg) (hxr : x.right = rreg) :
    ∀ j, readsTmp x j → ∃ w ∈ li ++ ri, writesTmp w j := by
  intro j hj
  rcases hj with ⟨t, ht⟩ | ⟨t, ht⟩
  · obtain ⟨w, hw, hwj⟩ := hl j t (by rw [← hxl, ht])
    exact ⟨w, by simp [hw], hwj⟩
  · obtain ⟨w, hw, hwj⟩ := hr j t (by rw [← hxr, ht])
    exact ⟨w, by simp [hw], hwj⟩

theorem ok_append {a b : List Instr} (ha : ∀ i ∈ a, InstrOk i) (hb : ∀ i ∈ b, InstrOk i) :
    ∀ i ∈ a ++ b, InstrOk i := by
  intro i hi
  simp only [List.mem_append] at hi
  rcases hi with hi | hi
  · exact ha i hi
  · exact hb i hi

/-- appending one instruction that reads the operand registers and writes `res` -/
theorem Shape_snoc (l r : CE) (hl : Shape l) (hr : Shape r) (left : Reg)
    (hleft : ∀ j t, left = .tmp j t → ∃ w ∈ l.instrs, writesTmp w j) (hlp : primOk left = true)
    (res : Reg) (o : Op) (ho : o ≠ .def) (hres : res = .none ∨ writable res = true)
    (reg : Reg) (hreg : ∀ j t, reg = .tmp j t → res = .tmp j t) (hrp : primOk reg = true) (sc : Scope) :
    Shape ⟨l.instrs ++ r.instrs ++ [{ res := res, op := o, left := left, right := r.reg }], reg, sc⟩ := by
  refine ⟨?_, ?_, ?_, hrp⟩
  · exact ReadsOk_snoc (ReadsOk_append hl.reads hr.reads) (reads_of hleft hr.reg _ rfl rfl)
  · refine ok_append (ok_append hl.ok hr.ok) ?_
    intro i hi
    simp only [List.mem_singleton] at hi
    subst hi
    exact ⟨ho, hres, hlp, hr.prim⟩
  · intro j t e
    exact ⟨{ res := res, op := o, left := left, right := r.reg }, by simp, t, hreg j t e⟩

theorem isRCL_facts {r : Reg} (h : isRCL r = true) :
    isTmp r = false ∧ primOk r = true ∧ (isRC r = true ∨ isTIL r = true) := by
  cases r <;> simp [isRCL, isTmp, primOk, isRC, isTIL] at *

theorem bindTarget_shape (left right : Reg) (sc : Scope) (hs : ScInv2 sc) :
    ∀ left' sc', bindTarget left right sc = .ok (left', sc') →
      ScInv2 sc' ∧ (left' = left ∨ isRCL left' = true) := by
  intro left' sc' he
  unfold bindTarget at he
  split at he
  · split at he
    · simp at he
      obtain ⟨rfl, rfl⟩ := he
      exact ⟨hs, Or.inl rfl⟩
    · obtain ⟨h1, h2⟩ := updateType_inv2 hs _ _ _ _ he
      exact ⟨h1, Or.inr h2⟩
  · simp at he
    obtain ⟨rfl, rfl⟩ := he
    exact ⟨hs, Or.inl rfl⟩

theorem writable_of_RC_TIL {r : Reg} (h : (isRC r || isTIL r) = true) : writable r = true := by
  cases r <;> simp [isRC, isTIL, writable] at *

theorem isRC_facts {r : Reg} (h : isRC r = true) : isTmp r = false ∧ primOk r = true ∧ writable r = true := by
  cases r <;> simp [isRC, isTmp, primOk, writable] at *

theorem bindEmit_shape (l r : CE) (hl : Shape l) (hr : Shape r) (left : Reg) (sc : Scope)
    (hleft : ∀ j t, left = .tmp j t → ∃ w ∈ l.instrs, writesTmp w j) (hlp : primOk left = true) :
    ∀ c, bindEmit (l.instrs ++ r.instrs) left r.reg sc = .ok c → Shape c ∧ c.sc = sc := by
  intro c hc
  unfold bindEmit at hc
  split at hc
  · split at hc
    · rename_i hrc
      obtain ⟨f1, f2, f3⟩ := isRC_facts hrc
      split at hc
      · cases hc
      · split at hc
        · injection hc with hc; subst hc
          refine ⟨⟨ReadsOk_setLastRes (ReadsOk_append hl.reads hr.reads) _, ?_, ?_, f2⟩, rfl⟩
          · intro i hi
            obtain ⟨i0, hi0, e1, e2, e3, e4⟩ := mem_setLastRes hi
            obtain ⟨g1, g2, g3, g4⟩ := ok_append hl.ok hr.ok i0 hi0
            refine ⟨by rw [e1]; exact g1, ?_, by rw [e2]; exact g3, by rw [e3]; exact g4⟩
            rcases e4 with e4 | e4
            · rw [e4]; exact g2
            · rw [e4]; exact Or.inr f3
          · intro j t e
            simp only at e
            rw [e] at f1; simp [isTmp] at f1
        · cases hc
    · cases hc
  · split at hc
    · rename_i hm
      injection hc with hc; subst hc
      exact ⟨Shape_snoc l r hl hr left hleft hlp left .bind (by simp) (Or.inr (writable_of_RC_TIL hm))
        left (fun j t e => e) hlp sc, rfl⟩
    · cases hc

theorem combineBind_shape (l r : CE) (hl : Shape l) (hr : Shape r) (hs : ScInv2 r.sc) :
    ∀ c, combineBind (l.instrs ++ r.instrs) l.reg r.reg r.sc = .ok c → Shape c ∧ ScInv2 c.sc := by
  intro c hc
  unfold combineBind at hc
  split at hc
  · rename_i left' sc' hb
    obtain ⟨h1, h2⟩ := bindTarget_shape _ _ _ hs _ _ hb
    have hleft : ∀ j t, left' = .tmp j t → ∃ w ∈ l.instrs, writesTmp w j := by
      intro j t e
      rcases h2 with h2 | h2
      · rw [h2] at e; exact hl.reg j t e
      · have := (isRCL_facts h2).1; rw [e] at this; simp [isTmp] at this
    have hlp : primOk left' = true := by
      rcases h2 with h2 | h2
      · rw [h2]; exact hl.prim
      · exact (isRCL_facts h2).2.1
    obtain ⟨g1, g2⟩ := bindEmit_shape l r hl hr left' sc' hleft hlp c hc
    exact ⟨g1, by rw [g2]; exact h1⟩
  · cases hc
  · cases hc

theorem tmpArm_shape (l r : CE) (hl : Shape l) (hr : Shape r) (o : Op) (ho : o ≠ .def) (t : Ty)
    (hs : ScInv2 r.sc) :
    Shape ⟨l.instrs ++ r.instrs ++ [{ res := (r.sc.newTmp t).1, op := o, left := l.reg, right := r.reg }],
           (r.sc.newTmp t).1, (r.sc.newTmp t).2⟩ ∧ ScInv2 (r.sc.newTmp t).2 :=
  ⟨Shape_snoc l r hl hr l.reg hl.reg hl.prim _ o ho (Or.inr rfl) _ (fun _ _ e => e) rfl _, ScInv2_newTmp hs t⟩

theorem combine_shape (o : Op) (l r : CE) (hl : Shape l) (hr : Shape r) (hs : ScInv2 r.sc) :
    ∀ c, combine o (l.instrs ++ r.instrs) l.reg r.reg r.sc = .ok c → Shape c ∧ ScInv2 c.sc := by
  intro c hc
  have tmpc : ∀ (o' : Op) (t : Ty) (c1 c2 : Prop) [Decidable c1] [Decidable c2], o' ≠ .def →
      (if c1 then (Out.err : Out CE) else if c2 then .err else
        .ok ⟨l.instrs ++ r.instrs ++ [{ res := (r.sc.newTmp t).1, op := o', left := l.reg, right := r.reg }],
             (r.sc.newTmp t).1, (r.sc.newTmp t).2⟩) = .ok c → Shape c ∧ ScInv2 c.sc := by
    intro o' t c1 c2 _ _ ho' h
    split at h
    · cases h
    · split at h
      · cases h
      · injection h with h; subst h
        exact tmpArm_shape l r hl hr o' ho' t hs
  have cond : ∀ (o' : Op), o' ≠ .def →
      (if l.reg = .none ∨ r.reg = .none then (Out.err : Out CE)
       else .ok ⟨l.instrs ++ r.instrs ++ [{ res := .none, op := o', left := l.reg, right := r.reg }], .none, r.sc⟩) = .ok c →
        Shape c ∧ ScInv2 c.sc := by
    intro o' ho' h
    split at h
    · cases h
    · injection h with h; subst h
      exact ⟨Shape_snoc l r hl hr l.reg hl.reg hl.prim .none o' ho' (Or.inl rfl) .none
        (fun j t e => by cases e) rfl _, hs⟩
  cases o with
  | add => exact tmpc .add _ _ _ (by simp) hc
  | div => exact tmpc .div _ _ _ (by simp) hc
  | max => exact tmpc .max _ _ _ (by simp) hc
  | maxWrap => exact tmpc .maxWrap _ _ _ (by simp) hc
  | min => exact tmpc .min _ _ _ (by simp) hc
  | mul => exact tmpc .mul _ _ _ (by simp) hc
  | sub => exact tmpc .sub _ _ _ (by simp) hc
  | and => exact tmpc .mul _ _ _ (by simp) hc
  | or => exact tmpc .add _ _ _ (by simp) hc
  | equiv => exact tmpc .equiv _ _ _ (by simp) hc
  | gt => exact tmpc .gt _ _ _ (by simp) hc
  | lt => exact tmpc .lt _ _ _ (by simp) hc
  | bind => exact combineBind_shape l r hl hr hs c hc
  | ewma => exact cond .ewma (by simp) hc
  | «if» => exact cond .if (by simp) hc
  | notIf => exact cond .notIf (by simp) hc
  | «def» => simp [combine, unreachableP] at hc

/-- **shape of `compile_expr`'s output**, by structural induction over the expression -/
theorem compileExpr_shape (e : Expr) (sc : Scope) (hs : ScInv2 sc) :
    ∀ c, compileExpr e sc = .ok c → Shape c ∧ ScInv2 c.sc := by
  induction e generalizing sc with
  | atom p => simp only [compileExpr]; exact compileAtom_shape p sc hs
  | cmd c => simp [compileExpr]
  | none => simp [compileExpr]
  | sexp o le re ihl ihr =>
    intro c hc
    simp only [compileExpr] at hc
    cases hl : compileExpr le sc with
    | panic => rw [hl] at hc; simp at hc
    | err => rw [hl] at hc; simp at hc
    | ok l =>
      obtain ⟨gl, sl⟩ := ihl sc hs l hl
      rw [hl] at hc
      simp only [Out.bind_ok] at hc
      cases hr : compileExpr re l.sc with
      | panic => rw [hr] at hc; simp at hc
      | err => rw [hr] at hc; simp at hc
      | ok r =>
        obtain ⟨gr, sr⟩ := ihr l.sc sl r hr
        rw [hr] at hc
        simp only [Out.bind_ok] at hc
        exact combine_shape o l r gl gr sr c hc

/-! ## flag block, body, events -/

/-- number of body statements that are not comments -/
def stmtCount : List Expr → Nat
  | [] => 0
  | e :: rest => if e = .none then stmtCount rest else stmtCount rest + 1

/-- number of top-level expressions of a program: one flag and the statements of each event -/
def blockCount : List Event → Nat
  | [] => 0
  | ev :: rest => 1 + stmtCount ev.body + blockCount rest

theorem compileFlag_shape (flag : Expr) (sc : Scope) (hs : ScInv2 sc) :
    ∀ is sc', compileFlag flag sc = .ok (is, sc') →
      ReadsOk is ∧ (∀ i ∈ is, InstrOk i) ∧ (∃ pre last, is = pre ++ [last] ∧ last.res = flagReg) ∧
      ScInv2 sc' := by
  intro is sc' he
  unfold compileFlag at he
  cases hc : compileExpr flag sc.clearTmps with
  | panic => rw [hc] at he; simp at he
  | err => rw [hc] at he; simp at he
  | ok c =>
    obtain ⟨gc, sc2⟩ := compileExpr_shape flag _ (ScInv2_clearTmps hs) c hc
    rw [hc] at he
    simp only [Out.bind_ok] at he
    have hf : c.sc.get "__eventFlag".toList = some flagReg := sc2.flag
    rw [hf] at he
    simp only [unwrapP, Out.bind_ok] at he
    split at he
    · split at he
      · cases he
      · rename_i hne
        simp only [Out.pure_eq, Out.ok.injEq, Prod.mk.injEq] at he
        obtain ⟨rfl, rfl⟩ := he
        have hne' : c.instrs ≠ [] := by
          intro e; rw [e] at hne; simp at hne
        obtain ⟨pre, last, e1, e2, _⟩ := setLastRes_last hne' flagReg
        refine ⟨ReadsOk_setLastRes gc.reads _, ?_, ⟨pre, last, e1, e2⟩, sc2⟩
        intro i hi
        obtain ⟨i0, hi0, e1, e2, e3, e4⟩ := mem_setLastRes hi
        obtain ⟨g1, g2, g3, g4⟩ := gc.ok i0 hi0
        refine ⟨by rw [e1]; exact g1, ?_, by rw [e2]; exact g3, by rw [e3]; exact g4⟩
        rcases e4 with e4 | e4
        · rw [e4]; exact g2
        · rw [e4]; exact Or.inr rfl
    · rename_i b hreg
      simp only [Out.pure_eq, Out.ok.injEq, Prod.mk.injEq] at he
      obtain ⟨rfl, rfl⟩ := he
      refine ⟨?_, ?_, ⟨_, _, rfl, rfl⟩, sc2⟩
      · refine ReadsOk_snoc gc.reads ?_
        intro j hj
        rcases hj with ⟨t, ht⟩ | ⟨t, ht⟩
        · simp [flagReg] at ht
        · simp [hreg] at ht
      · refine ok_append gc.ok ?_
        intro i hi
        simp only [List.mem_singleton] at hi
        subst hi
        exact ⟨by simp, Or.inr rfl, rfl, by rw [hreg]; rfl⟩
    · cases he

theorem compileBody_shape (body : List Expr) (sc : Scope) (hs : ScInv2 sc) :
    ∀ is sc', compileBody body sc = .ok (is, sc') →
      (∃ blocks : List (List Instr), is = blocks.flatten ∧ (∀ b ∈ blocks, ReadsOk b) ∧
        blocks.length = stmtCount body) ∧
      (∀ i ∈ is, InstrOk i) ∧ ScInv2 sc' := by
  induction body generalizing sc with
  | nil =>
    intro is sc' he
    simp [compileBody] at he
    obtain ⟨rfl, rfl⟩ := he
    exact ⟨⟨[], rfl, by simp, rfl⟩, by simp, hs⟩
  | cons e rest ih =>
    intro is sc' he
    simp only [compileBody] at he
    split at he
    · rename_i hnone
      simp only [stmtCount, hnone, if_true]
      exact ih sc hs is sc' he
    · cases hc : compileExpr e sc.clearTmps with
      | panic => rw [hc] at he; simp at he
      | err => rw [hc] at he; simp at he
      | ok c =>
        obtain ⟨gc, sc2⟩ := compileExpr_shape e _ (ScInv2_clearTmps hs) c hc
        rw [hc] at he
        simp only [Out.bind_ok] at he
        split at he
        · cases he
        · cases ht : compileBody rest c.sc with
          | panic => rw [ht] at he; simp at he
          | err => rw [ht] at he; simp at he
          | ok p =>
            obtain ⟨is2, sc3⟩ := p
            rename_i hnone _
            obtain ⟨⟨blocks, hb1, hb2, hb3⟩, ci, si⟩ := ih c.sc sc2 is2 sc3 ht
            rw [ht] at he
            simp only [Out.bind_ok, Out.pure_eq, Out.ok.injEq, Prod.mk.injEq] at he
            obtain ⟨rfl, rfl⟩ := he
            refine ⟨⟨c.instrs :: blocks, by simp [hb1], ?_, by simp [stmtCount, hnone, hb3]⟩,
              ok_append gc.ok ci, si⟩
            intro b hb
            simp only [List.mem_cons] at hb
            rcases hb with rfl | hb
            · exact gc.reads
            · exact hb2 b hb

/-- what the image guarantees about one event record, relative to the whole instruction list `all` -/
def EvOk (all : List Instr) (e : EvRec) : Prop :=
  1 ≤ e.numFlag ∧ (∃ i t, all[e.bodyIdx - 1]? = some i ∧ i.res = .implicit 0 t) ∧
  ReadsOk ((all.drop e.flagIdx).take e.numFlag) ∧ ReadsOk ((all.drop e.bodyIdx).take e.numBody)

theorem compileEvents_shape (evs : List Event) (idx : Nat) (sc : Scope) (hs : ScInv2 sc) :
    ∀ cp, compileEvents evs idx sc = .ok cp →
      ScInv2 cp.sc ∧ (∀ i ∈ cp.instrs, InstrOk i) ∧ cp.events.length = evs.length ∧
      Tiles idx cp.events (idx + cp.instrs.length) ∧
      (∃ blocks : List (List Instr), cp.instrs = blocks.flatten ∧ (∀ b ∈ blocks, ReadsOk b) ∧
        blocks.length = blockCount evs) ∧
      (∀ pre : List Instr, pre.length = idx → ∀ e ∈ cp.events, EvOk (pre ++ cp.instrs) e) := by
  induction evs generalizing idx sc with
  | nil =>
    intro cp he
    simp [compileEvents] at he
    subst he
    exact ⟨hs, by simp, rfl, by simp [Tiles], ⟨[], rfl, by simp, rfl⟩, by simp⟩
  | cons ev rest ih =>
    intro cp he
    simp only [compileEvents] at he
    cases hf : compileFlag ev.flag sc with
    | panic => rw [hf] at he; simp at he
    | err => rw [hf] at he; simp at he
    | ok p =>
      obtain ⟨fi, sc1⟩ := p
      obtain ⟨fr, fo, ⟨fpre, flast, ffi, fres⟩, s1⟩ := compileFlag_shape ev.flag sc hs fi sc1 hf
      rw [hf] at he
      simp only [Out.bind_ok] at he
      cases hb : compileBody ev.body sc1 with
      | panic => rw [hb] at he; simp at he
      | err => rw [hb] at he; simp at he
      | ok q =>
        obtain ⟨bi, sc2⟩ := q
        obtain ⟨⟨bbl, bb1, bb2, bb3⟩, bo, s2⟩ := compileBody_shape ev.body sc1 s1 bi sc2 hb
        rw [hb] at he
        simp only [Out.bind_ok] at he
        cases ht : compileEvents rest (idx + fi.length + bi.length) sc2 with
        | panic => rw [ht] at he; simp at he
        | err => rw [ht] at he; simp at he
        | ok tail =>
          obtain ⟨st, to, tl, tt, ⟨tbl, tb1, tb2, tb3⟩, te⟩ := ih (idx + fi.length + bi.length) sc2 s2 tail ht
          rw [ht] at he
          simp only [Out.bind_ok, Out.pure_eq, Out.ok.injEq] at he
          subst he
          refine ⟨st, ok_append (ok_append fo bo) to, by simp [tl], ?_, ?_, ?_⟩
          · simp only [Tiles, List.length_append]
            refine ⟨trivial, trivial, ?_⟩
            have e : idx + fi.length + bi.length + tail.instrs.length
                = idx + (fi.length + bi.length + tail.instrs.length) := by omega
            rw [← e]; exact tt
          · refine ⟨fi :: (bbl ++ tbl), by simp [bb1, tb1], ?_, by simp [blockCount, bb3, tb3]; omega⟩
            intro b hb'
            simp only [List.mem_cons, List.mem_append] at hb'
            rcases hb' with rfl | hb' | hb'
            · exact fr
            · exact bb2 b hb'
            · exact tb2 b hb'
          · intro pre hpre e hein
            simp only [List.mem_cons] at hein
            rcases hein with rfl | hein
            · have hfl : 1 ≤ fi.length := by rw [ffi]; simp
              refine ⟨hfl, ⟨flast, .bool none, ?_, fres⟩, ?_, ?_⟩
              · simp only
                have e1 : pre ++ (fi ++ bi ++ tail.instrs) = (pre ++ fpre) ++ (flast :: (bi ++ tail.instrs)) := by
                  rw [ffi]; simp
                have e2 : idx + fi.length - 1 = (pre ++ fpre).length := by
                  rw [ffi]; simp [hpre]
                rw [e1, e2, List.getElem?_append_right (Nat.le_refl _)]
                simp
              · simp only
                rw [List.append_assoc, List.drop_left' hpre, List.take_left' rfl]
                exact fr
              · simp only
                have e1 : pre ++ (fi ++ bi ++ tail.instrs) = (pre ++ fi) ++ (bi ++ tail.instrs) := by simp
                rw [e1, List.drop_left' (by simp [hpre]), List.take_left' rfl, bb1]
                exact ReadsOk_flatten bb2
            · have := te (pre ++ fi ++ bi) (by simp [hpre]; omega) e hein
              have e1 : pre ++ fi ++ bi ++ tail.instrs = pre ++ (fi ++ bi ++ tail.instrs) := by simp
              rw [e1] at this
              exact this

/-! ## the DEF preamble and the whole program -/

/-- an initialisation: `reg <- Def reg imm` with `reg` a report or control register -/
def IsDefI (i : Instr) : Prop :=
  i.op = .def ∧ i.left = i.res ∧ isRC i.res = true ∧ ((∃ n, i.right = .immNum n) ∨ ∃ b, i.right = .immBool b)

theorem defInstrs_isDef (l : List (Name × Reg)) : ∀ i ∈ defInstrs l, IsDefI i := by
  induction l with
  | nil => simp [defInstrs]
  | cons p rest ih =>
    obtain ⟨n, reg⟩ := p
    simp only [defInstrs]
    split <;> (try exact ih)
    all_goals
      intro i hi
      simp only [List.mem_cons] at hi
      rcases hi with rfl | hi
      · exact ⟨rfl, rfl, rfl, by simp⟩
      · exact ih i hi

theorem compileProg_shape (evs : List Event) (sc : Scope) (hs : ScInv2 sc) :
    ∀ bin sc', compileProg evs sc = .ok (bin, sc') →
      ∃ rest, bin.instrs = defInstrs sc.named ++ rest ∧ (∀ i ∈ rest, InstrOk i) ∧
        bin.events.length = evs.length ∧
        Tiles (defInstrs sc.named).length bin.events bin.instrs.length ∧
        (∃ blocks : List (List Instr), rest = blocks.flatten ∧ (∀ b ∈ blocks, ReadsOk b) ∧
          blocks.length = blockCount evs) ∧
        (∀ e ∈ bin.events, EvOk bin.instrs e) ∧ ScInv2 sc' := by
  intro bin sc' he
  unfold compileProg at he
  dsimp only at he
  cases hc : compileEvents evs (defInstrs sc.named).length sc with
  | panic => rw [hc] at he; simp at he
  | err => rw [hc] at he; simp at he
  | ok cp =>
    obtain ⟨s, o, l, t, b, e⟩ := compileEvents_shape evs _ sc hs cp hc
    rw [hc] at he
    simp only [Out.bind_ok, Out.pure_eq, Out.ok.injEq, Prod.mk.injEq] at he
    obtain ⟨rfl, rfl⟩ := he
    exact ⟨cp.instrs, rfl, o, l, by simpa using t, b, e _ rfl, s⟩

/-! ## declared names are never `__eventFlag` (parser inversion) -/

theorem name_no_dunder (inp : List Char) (n : Name) (r : List Char) (h : name inp = some (n, r)) :
    "__".toList.isPrefixOf n = false := by
  unfold name at h
  split at h
  · cases h
  · split at h
    · cases h
    · split at h
      · cases h
      · rename_i hnd
        simp only [Option.some.injEq, Prod.mk.injEq] at h
        obtain ⟨rfl, _⟩ := h
        exact Bool.eq_false_iff.mpr hnd

theorem decl_no_dunder (inp : List Char) (d : Decl) (r : List Char) (h : decl inp = some (d, r)) :
    "__".toList.isPrefixOf d.var = false := by
  unfold decl at h
  simp only [Option.bind_eq_bind, Option.bind_eq_some_iff, Option.pure_def] at h
  obtain ⟨_, _, _, _, _, _, ⟨n, r1⟩, hn, _, _, _, _, _, _, _, _, _, _, hfin⟩ := h
  simp only [Option.some.injEq, Prod.mk.injEq] at hfin
  obtain ⟨rfl, _⟩ := hfin
  exact name_no_dunder _ _ _ hn

theorem many0_all {α : Type} (p : Parser α) (P : α → Prop)
    (hp : ∀ inp a r, p inp = some (a, r) → P a) (inp : List Char) (l : List α) (r : List Char)
    (h : many0 p inp = some (l, r)) : ∀ x ∈ l, P x :=
  manyLoop_all p P hp _ _ [] (by simp) l r h

theorem flagName_dunder : "__".toList.isPrefixOf flagName = true := by decide

theorem defs_names (inp : List Char) (ds : List Decl) (r : List Char) (h : defs inp = some (ds, r)) :
    ∀ d ∈ ds, d.var ≠ flagName := by
  unfold defs at h
  simp only [Option.bind_eq_bind, Option.bind_eq_some_iff, Option.pure_def] at h
  obtain ⟨_, _, _, _, _, _, ⟨d1, r1⟩, hd1, ⟨d2, r2⟩, hd2, _, _, _, _, hfin⟩ := h
  simp only [Option.some.injEq, Prod.mk.injEq] at hfin
  obtain ⟨rfl, _⟩ := hfin
  have nd : ∀ d : Decl, "__".toList.isPrefixOf d.var = false → d.var ≠ flagName := by
    intro d hd e
    rw [e, flagName_dunder] at hd
    cases hd
  have h1 := many0_all decl _ decl_no_dunder _ _ _ hd1
  have h2 := many0_all decl _ decl_no_dunder _ _ _ hd2
  intro d hd
  simp only [List.mem_append, List.mem_map] at hd
  rcases hd with (⟨d0, _, rfl⟩ | hd) | hd
  · simp only
    intro e
    have e1 : "Report.".toList = 'R' :: "eport.".toList := rfl
    have e2 : flagName = '_' :: "_eventFlag".toList := rfl
    rw [e1, e2, List.cons_append] at e
    injection e with e _
    exact absurd e (by decide)
  · exact nd d (h1 d hd)
  · exact nd d (h2 d hd)

theorem parseSource_decl_names (src : List Char) (ds : List Decl) (evs : List Event)
    (h : parseSource src = some (ds, evs)) : ∀ d ∈ ds, d.var ≠ flagName := by
  unfold parseSource at h
  simp only [Option.bind_eq_bind, Option.bind_eq_some_iff, Option.pure_def] at h
  obtain ⟨⟨ds', rest⟩, hds, ⟨evs', rest'⟩, _, hfin⟩ := h
  split at hfin
  · simp at hfin
  · simp at hfin
    obtain ⟨rfl, _⟩ := hfin
    exact defs_names _ _ _ hds

/-! ## record-level checks: the components of the byte-level oracle `C03.wfRecs`

These look only at what libccp reads from the image (`Libccp.InstrMsg`, `Libccp.Expr`). -/

open Portus.Wire

/-- class and index of one register field: class `≤ 8` and the index inside the register file of
that class (0/8 control: 16; 1 immediate: any; 2 implicit: 6; 3 local: 6; 4 primitive: 15;
5/6 report: 16; 7 temporary: 8) -/
def regOkB (c i : Nat) : Bool :=
  match c with
  | 0 => i < 16
  | 1 => true
  | 2 => i < 6
  | 3 => i < 6
  | 4 => i < 15
  | 5 => i < 16
  | 6 => i < 16
  | 7 => i < 8
  | 8 => i < 16
  | _ => false

/-- classes an instruction may write: control (0, 8), implicit 2, local 3, report (5, 6), temporary 7 -/
def resClassB (c : Nat) : Bool := c == 0 || c == 2 || c == 3 || c == 5 || c == 6 || c == 7 || c == 8

def instrOkB (m : Libccp.InstrMsg) : Bool :=
  decide (m.opcode < 15) && resClassB m.resT && regOkB m.resT m.resI && regOkB m.leftT m.leftI &&
  regOkB m.rightT m.rightI

/-- temporaries read (class 7 operands) must be in `seen`; a class-7 result is added to `seen` -/
def readsOkFrom (seen : List Nat) : List Libccp.InstrMsg → Bool
  | [] => true
  | m :: ms =>
    (m.leftT != 7 || seen.contains m.leftI) && (m.rightT != 7 || seen.contains m.rightI) &&
    readsOkFrom (if m.resT == 7 then m.resI :: seen else seen) ms

def tilesB : Nat → List Libccp.Expr → Nat → Bool
  | start, [], stop => start == stop
  | start, e :: es, stop =>
    e.condStart == start && e.eventStart == start + e.numCond && tilesB (e.eventStart + e.numEvent) es stop

/-- one expression record against the instruction records -/
def evOkB (ms : List Libccp.InstrMsg) (e : Libccp.Expr) : Bool :=
  decide (1 ≤ e.numCond) &&
  (match ms[e.eventStart - 1]? with
   | some m => m.resT == 2 && m.resI == 0
   | none => false) &&
  readsOkFrom [] ((ms.drop e.condStart).take e.numCond) &&
  readsOkFrom [] ((ms.drop e.eventStart).take e.numEvent)

/-- the record libccp reads for an instruction the encoder accepts -/
def instrMsg? (i : Instr) : Option Libccp.InstrMsg :=
  match serializeOp i.op, i.res.classIdx, i.left.classIdx, i.right.classIdx with
  | .ok o, .ok (c1, i1), .ok (c2, i2), .ok (c3, i3) => some ⟨o, c1, i1, c2, i2, c3, i3⟩
  | _, _, _, _ => none

/-! ### registers -/

theorem classIdx_regOk {r : Reg} {c i : Nat} (h : r.classIdx = .ok (c, i)) (hp : primOk r = true) :
    regOkB c i = true := by
  cases r with
  | control j t vol =>
    simp only [Reg.classIdx] at h
    split at h
    · cases h
    · simp only [Out.ok.injEq, Prod.mk.injEq] at h; obtain ⟨rfl, rfl⟩ := h
      cases vol <;> simp [regOkB] <;> omega
  | immNum n =>
    simp only [Reg.classIdx] at h
    split at h
    · simp only [Out.ok.injEq, Prod.mk.injEq] at h; obtain ⟨rfl, rfl⟩ := h; rfl
    · cases h
  | immBool b =>
    simp only [Reg.classIdx, Out.ok.injEq, Prod.mk.injEq] at h; obtain ⟨rfl, rfl⟩ := h; rfl
  | implicit j t =>
    simp only [Reg.classIdx] at h
    split at h
    · cases h
    · simp only [Out.ok.injEq, Prod.mk.injEq] at h; obtain ⟨rfl, rfl⟩ := h
      simp [regOkB]; omega
  | «local» j t =>
    simp only [Reg.classIdx] at h
    split at h
    · cases h
    · simp only [Out.ok.injEq, Prod.mk.injEq] at h; obtain ⟨rfl, rfl⟩ := h
      simp [regOkB]; omega
  | primitive j t =>
    simp only [Reg.classIdx] at h
    split at h
    · cases h
    · simp only [Out.ok.injEq, Prod.mk.injEq] at h; obtain ⟨rfl, rfl⟩ := h
      simpa [regOkB, primOk] using hp
  | report j t vol =>
    simp only [Reg.classIdx] at h
    split at h
    · cases h
    · simp only [Out.ok.injEq, Prod.mk.injEq] at h; obtain ⟨rfl, rfl⟩ := h
      cases vol <;> simp [regOkB] <;> omega
  | tmp j t =>
    simp only [Reg.classIdx] at h
    split at h
    · cases h
    · simp only [Out.ok.injEq, Prod.mk.injEq] at h; obtain ⟨rfl, rfl⟩ := h
      simp [regOkB]; omega
  | none => simp [Reg.classIdx, unreachableP] at h

theorem writable_primOk {r : Reg} (h : writable r = true) : primOk r = true := by
  cases r <;> simp [writable, primOk] at *

theorem classIdx_writable {r : Reg} {c i : Nat} (h : r.classIdx = .ok (c, i)) (hw : writable r = true) :
    resClassB c = true := by
  cases r with
  | control j t vol =>
    simp only [Reg.classIdx] at h
    split at h
    · cases h
    · simp only [Out.ok.injEq, Prod.mk.injEq] at h; obtain ⟨rfl, rfl⟩ := h
      cases vol <;> rfl
  | immNum n => simp [writable] at hw
  | immBool b => simp [writable] at hw
  | implicit j t =>
    simp only [Reg.classIdx] at h
    split at h
    · cases h
    · simp only [Out.ok.injEq, Prod.mk.injEq] at h; obtain ⟨rfl, rfl⟩ := h; rfl
  | «local» j t =>
    simp only [Reg.classIdx] at h
    split at h
    · cases h
    · simp only [Out.ok.injEq, Prod.mk.injEq] at h; obtain ⟨rfl, rfl⟩ := h; rfl
  | primitive j t => simp [writable] at hw
  | report j t vol =>
    simp only [Reg.classIdx] at h
    split at h
    · cases h
    · simp only [Out.ok.injEq, Prod.mk.injEq] at h; obtain ⟨rfl, rfl⟩ := h
      cases vol <;> rfl
  | tmp j t =>
    simp only [Reg.classIdx] at h
    split at h
    · cases h
    · simp only [Out.ok.injEq, Prod.mk.injEq] at h; obtain ⟨rfl, rfl⟩ := h; rfl
  | none => simp [writable] at hw

/-- class 7 is used for temporaries only -/
theorem classIdx_eq7 {r : Reg} {i : Nat} (h : r.classIdx = .ok (7, i)) : ∃ t, r = .tmp i t := by
  cases r with
  | control j t vol =>
    simp only [Reg.classIdx] at h
    split at h
    · cases h
    · simp only [Out.ok.injEq, Prod.mk.injEq] at h
      cases vol <;> simp at h
  | immNum n =>
    simp only [Reg.classIdx] at h
    split at h
    · simp at h
    · cases h
  | immBool b => simp [Reg.classIdx] at h
  | implicit j t =>
    simp only [Reg.classIdx] at h
    split at h
    · cases h
    · simp at h
  | «local» j t =>
    simp only [Reg.classIdx] at h
    split at h
    · cases h
    · simp at h
  | primitive j t =>
    simp only [Reg.classIdx] at h
    split at h
    · cases h
    · simp at h
  | report j t vol =>
    simp only [Reg.classIdx] at h
    split at h
    · cases h
    · simp only [Out.ok.injEq, Prod.mk.injEq] at h
      cases vol <;> simp at h
  | tmp j t =>
    simp only [Reg.classIdx] at h
    split at h
    · cases h
    · simp only [Out.ok.injEq, Prod.mk.injEq] at h
      exact ⟨t, by rw [h.2]⟩
  | none => simp [Reg.classIdx, unreachableP] at h

theorem classIdx_of_tmp {j : Nat} {t : Ty} {c i : Nat} (h : (Reg.tmp j t).classIdx = .ok (c, i)) :
    c = 7 ∧ i = j := by
  simp only [Reg.classIdx] at h
  split at h
  · cases h
  · simp only [Out.ok.injEq, Prod.mk.injEq] at h
    exact ⟨h.1.symm, h.2.symm⟩

theorem classIdx_implicit0 {t : Ty} {c i : Nat} (h : (Reg.implicit 0 t).classIdx = .ok (c, i)) :
    c = 2 ∧ i = 0 := by
  simp [Reg.classIdx] at h
  exact ⟨h.1.symm, h.2.symm⟩

theorem serializeOp_eq2 {o : Op} {c : Nat} (h : serializeOp o = .ok c) : c = 2 ↔ o = .def := by
  cases o <;> simp [serializeOp, unreachableP] at h <;> subst h <;> simp

/-! ### `instrsMatch` algebra -/

theorem instrMatch_msg {i : Instr} {m : Libccp.InstrMsg} (h : instrMatch i m) : instrMsg? i = some m := by
  obtain ⟨h0, h1, h2, h3⟩ := h
  simp [instrMsg?, h0, h1, h2, h3]

theorem instrsMatch_length {is : List Instr} {ms : List Libccp.InstrMsg} (h : instrsMatch is ms) :
    ms.length = is.length := by
  induction is generalizing ms with
  | nil => cases ms with
    | nil => rfl
    | cons m ms => simp [instrsMatch] at h
  | cons i is ih => cases ms with
    | nil => simp [instrsMatch] at h
    | cons m ms => simp only [instrsMatch] at h; simp [ih h.2]

theorem instrsMatch_filterMap {is : List Instr} {ms : List Libccp.InstrMsg} (h : instrsMatch is ms) :
    is.filterMap instrMsg? = ms := by
  induction is generalizing ms with
  | nil => cases ms with
    | nil => rfl
    | cons m ms => simp [instrsMatch] at h
  | cons i is ih => cases ms with
    | nil => simp [instrsMatch] at h
    | cons m ms =>
      simp only [instrsMatch] at h
      simp [instrMatch_msg h.1, ih h.2]

theorem instrsMatch_drop {is : List Instr} {ms : List Libccp.InstrMsg} (h : instrsMatch is ms) (k : Nat) :
    instrsMatch (is.drop k) (ms.drop k) := by
  induction k generalizing is ms with
  | zero => simpa using h
  | succ k ih => cases is with
    | nil => cases ms with
      | nil => simp [instrsMatch]
      | cons m ms => simp [instrsMatch] at h
    | cons i is => cases ms with
      | nil => simp [instrsMatch] at h
      | cons m ms => simp only [instrsMatch] at h; simpa using ih h.2

theorem instrsMatch_take {is : List Instr} {ms : List Libccp.InstrMsg} (h : instrsMatch is ms) (k : Nat) :
    instrsMatch (is.take k) (ms.take k) := by
  induction k generalizing is ms with
  | zero => simp [instrsMatch]
  | succ k ih => cases is with
    | nil => cases ms with
      | nil => simp [instrsMatch]
      | cons m ms => simp [instrsMatch] at h
    | cons i is => cases ms with
      | nil => simp [instrsMatch] at h
      | cons m ms =>
        simp only [instrsMatch] at h
        simp only [List.take_succ_cons, instrsMatch]
        exact ⟨h.1, ih h.2⟩

theorem instrsMatch_getElem? {is : List Instr} {ms : List Libccp.InstrMsg} (h : instrsMatch is ms)
    {k : Nat} {i : Instr} (hk : is[k]? = some i) : ∃ m, ms[k]? = some m ∧ instrMatch i m := by
  induction k generalizing is ms with
  | zero => cases is with
    | nil => simp at hk
    | cons i0 is => cases ms with
      | nil => simp [instrsMatch] at h
      | cons m ms =>
        simp only [instrsMatch] at h
        simp only [List.getElem?_cons_zero, Option.some.injEq] at hk
        subst hk
        exact ⟨m, by simp, h.1⟩
  | succ k ih => cases is with
    | nil => simp at hk
    | cons i0 is => cases ms with
      | nil => simp [instrsMatch] at h
      | cons m ms =>
        simp only [instrsMatch] at h
        simp only [List.getElem?_cons_succ] at hk ⊢
        exact ih h.2 hk

theorem instrsMatch_forall {is : List Instr} {ms : List Libccp.InstrMsg} (h : instrsMatch is ms)
    (P : Libccp.InstrMsg → Prop) (hp : ∀ i ∈ is, ∀ m, instrMatch i m → P m) : ∀ m ∈ ms, P m := by
  induction is generalizing ms with
  | nil => cases ms with
    | nil => simp
    | cons m ms => simp [instrsMatch] at h
  | cons i is ih => cases ms with
    | nil => simp [instrsMatch] at h
    | cons m ms =>
      simp only [instrsMatch] at h
      intro x hx
      simp only [List.mem_cons] at hx
      rcases hx with rfl | hx
      · exact hp i (by simp) _ h.1
      · exact ih h.2 (fun j hj => hp j (by simp [hj])) x hx

/-! ### clause by clause: IR fact ⟹ record check -/

/-- the DEF preamble on records -/
theorem defs_records {defs rest : List Instr} {ms : List Libccp.InstrMsg}
    (h : instrsMatch (defs ++ rest) ms) (hd : ∀ d ∈ defs, d.op = .def) (hr : ∀ i ∈ rest, i.op ≠ .def) :
    (defs.filterMap instrMsg?).length = defs.length ∧
    ms.take (defs.filterMap instrMsg?).length = defs.filterMap instrMsg? ∧
    (∀ m ∈ defs.filterMap instrMsg?, m.opcode = 2) ∧
    (∀ m ∈ ms.drop (defs.filterMap instrMsg?).length, m.opcode ≠ 2) := by
  have ht := instrsMatch_take h defs.length
  have hdr := instrsMatch_drop h defs.length
  rw [List.take_left' rfl] at ht
  rw [List.drop_left' rfl] at hdr
  have e1 : defs.filterMap instrMsg? = ms.take defs.length := instrsMatch_filterMap ht
  have e2 : (defs.filterMap instrMsg?).length = defs.length := by
    rw [e1]; exact instrsMatch_length ht
  refine ⟨e2, by rw [e2, e1], ?_, ?_⟩
  · rw [e1]
    refine instrsMatch_forall ht _ ?_
    intro i hi m hm
    exact (serializeOp_eq2 hm.1).mpr (hd i hi)
  · rw [e2]
    refine instrsMatch_forall hdr _ ?_
    intro i hi m hm e
    exact hr i hi ((serializeOp_eq2 hm.1).mp e)

theorem instrOkB_of {i : Instr} {m : Libccp.InstrMsg} (h : instrMatch i m) (hw : writable i.res = true)
    (hl : primOk i.left = true) (hr : primOk i.right = true) : instrOkB m = true := by
  obtain ⟨h0, h1, h2, h3⟩ := h
  have := serializeOp_bound h0
  simp only [instrOkB, Bool.and_eq_true, decide_eq_true_eq]
  exact ⟨⟨⟨⟨by omega, classIdx_writable h1 hw⟩, classIdx_regOk h1 (writable_primOk hw)⟩,
    classIdx_regOk h2 hl⟩, classIdx_regOk h3 hr⟩

theorem readsOkFrom_of (is : List Instr) (ms : List Libccp.InstrMsg) (hm : instrsMatch is ms)
    (pre : List Instr) (seen : List Nat) (hseen : ∀ w ∈ pre, ∀ j, writesTmp w j → j ∈ seen)
    (hr : ∀ a i b, is = a ++ i :: b → ∀ j, readsTmp i j → ∃ w ∈ pre ++ a, writesTmp w j) :
    readsOkFrom seen ms = true := by
  induction is generalizing ms pre seen with
  | nil => cases ms with
    | nil => rfl
    | cons m ms => simp [instrsMatch] at hm
  | cons i is ih => cases ms with
    | nil => simp [instrsMatch] at hm
    | cons m ms =>
      simp only [instrsMatch] at hm
      obtain ⟨⟨h0, h1, h2, h3⟩, hrest⟩ := hm
      have hhead := hr [] i is rfl
      simp only [List.append_nil] at hhead
      simp only [readsOkFrom, Bool.and_eq_true, Bool.or_eq_true, bne_iff_ne, ne_eq, List.contains_iff_mem]
      refine ⟨⟨?_, ?_⟩, ?_⟩
      · by_cases e : m.leftT = 7
        · right
          rw [e] at h2
          obtain ⟨t, ht⟩ := classIdx_eq7 h2
          obtain ⟨w, hw, hwj⟩ := hhead m.leftI (Or.inl ⟨t, ht⟩)
          exact hseen w hw _ hwj
        · left; exact e
      · by_cases e : m.rightT = 7
        · right
          rw [e] at h3
          obtain ⟨t, ht⟩ := classIdx_eq7 h3
          obtain ⟨w, hw, hwj⟩ := hhead m.rightI (Or.inr ⟨t, ht⟩)
          exact hseen w hw _ hwj
        · left; exact e
      · refine ih ms hrest (pre ++ [i]) _ ?_ ?_
        · intro w hw j hwj
          simp only [List.mem_append, List.mem_singleton] at hw
          rcases hw with hw | rfl
          · have := hseen w hw j hwj
            split <;> simp [this]
          · obtain ⟨t, ht⟩ := hwj
            rw [ht] at h1
            obtain ⟨c7, ij⟩ := classIdx_of_tmp h1
            simp [c7, ij]
        · intro a x b hs j hj
          obtain ⟨w, hw, hwj⟩ := hr (i :: a) x b (by rw [hs]; rfl) j hj
          exact ⟨w, by simpa using hw, hwj⟩

theorem readsOkB_of {is : List Instr} {ms : List Libccp.InstrMsg} (hm : instrsMatch is ms)
    (h : ReadsOk is) : readsOkFrom [] ms = true :=
  readsOkFrom_of is ms hm [] [] (by simp) (by simpa [ReadsOk] using h)

theorem tilesB_of {s t : Nat} {evs : List EvRec} (h : Tiles s evs t) :
    tilesB s (evs.map evToLibccp) t = true := by
  induction evs generalizing s with
  | nil => simpa [Tiles, tilesB] using h
  | cons e es ih =>
    obtain ⟨h1, h2, h3⟩ := h
    simp only [List.map_cons, tilesB, evToLibccp, Bool.and_eq_true, beq_iff_eq]
    exact ⟨⟨h1, h2⟩, ih h3⟩

theorem Tiles_le {s t : Nat} {evs : List EvRec} (h : Tiles s evs t) : s ≤ t := by
  induction evs generalizing s with
  | nil => simp only [Tiles] at h; omega
  | cons e es ih =>
    obtain ⟨h1, h2, h3⟩ := h
    have := ih h3
    omega

theorem Tiles_inRange {s t : Nat} {evs : List EvRec} (h : Tiles s evs t) (ht : t < 2^32) :
    ∀ e ∈ evs, evInRange e := by
  induction evs generalizing s with
  | nil => simp
  | cons e es ih =>
    obtain ⟨h1, h2, h3⟩ := h
    have := Tiles_le h3
    intro x hx
    simp only [List.mem_cons] at hx
    rcases hx with rfl | hx
    · simp only [evInRange]; omega
    · exact ih h3 x hx

theorem evOkB_of {is : List Instr} {ms : List Libccp.InstrMsg} (hm : instrsMatch is ms) {e : EvRec}
    (h : EvOk is e) : evOkB ms (evToLibccp e) = true := by
  obtain ⟨h1, ⟨i, t, hi, hres⟩, h3, h4⟩ := h
  obtain ⟨m, hmk, hmm⟩ := instrsMatch_getElem? hm hi
  have hc := hmm.2.1
  rw [hres] at hc
  obtain ⟨c2, i0⟩ := classIdx_implicit0 hc
  simp only [evOkB, evToLibccp, hmk, Bool.and_eq_true, beq_iff_eq]
  exact ⟨⟨⟨decide_eq_true h1, c2, i0⟩, readsOkB_of (instrsMatch_take (instrsMatch_drop hm _) _) h3⟩,
    readsOkB_of (instrsMatch_take (instrsMatch_drop hm _) _) h4⟩

/-! ### the image as two byte blocks -/

theorem serialize_split {bin : Bin} {img : Bytes} (h : bin.serialize = .ok img) :
    ∃ ib, serializeInstrs bin.instrs = .ok ib ∧ img = bin.events.flatMap EvRec.serialize ++ ib := by
  unfold Bin.serialize at h
  cases hi : serializeInstrs bin.instrs with
  | ok ib =>
    rw [hi] at h
    simp only [Out.bind_ok, Out.pure_eq, Out.ok.injEq] at h
    exact ⟨ib, rfl, h.symm⟩
  | err => rw [hi] at h; simp at h
  | panic => rw [hi] at h; simp at h

end Portus.C03
