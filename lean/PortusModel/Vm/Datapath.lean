import PortusModel.Vm.Machine
/-!
# libccp's datapath object: program table, connections, `ccp_read_msg`, `ccp_invoke`
(as driven by /verif/harness/cvm: 4 connections, 10 program slots, fallback timer disabled)
-/
namespace Portus.Vm
open Portus

structure Dp where
  /-- program table: `index` (0 = free) and the program -/
  programs : List (Nat × Program)
  conns : List (Option Conn)
deriving Repr, Inhabited

def emptyProgram : Program := { uid := 0, exprs := [], instrs := [], numToReturn := 0 }

def Dp.init : Dp := { programs := List.replicate 10 (0, emptyProgram), conns := List.replicate 4 none }

/-- `read_instruction` -/
def readInstruction (m : Libccp.InstrMsg) : Except Int VInstr :=
  if m.opcode ≥ 15 then .error (-33)
  else if m.resT = 1 ∨ m.resT = 4 then .error (-34)
  else if m.resT > 8 then .error (-35)
  else if m.leftT > 8 then .error (-36)
  else if m.rightT > 8 then .error (-37)
  else .ok { op := m.opcode, ret := ⟨m.resT, m.resI⟩, left := ⟨m.leftT, m.leftI⟩, right := ⟨m.rightT, m.rightI⟩ }

/-- instructions parsed until the first bad one (those stay in the slot) -/
def readInstructions : List Libccp.InstrMsg → List VInstr → List VInstr × Int
  | [], acc => (acc.reverse, 0)
  | m :: rest, acc =>
    match readInstruction m with
    | .ok i => readInstructions rest (i :: acc)
    | .error rc => (acc.reverse, rc)

def findFree : List (Nat × Program) → Nat → Option Nat
  | [], _ => none
  | (idx, _) :: rest, k => if idx = 0 then some k else findFree rest (k + 1)

/-- `datapath_program_install` (the slot is marked used before the table-full test) -/
def installProgram (dp : Dp) (uid : Nat) (exprs : List Libccp.Expr) (ims : List Libccp.InstrMsg) : Dp × Int :=
  match findFree dp.programs 0 with
  | none => (dp, -81)
  | some k =>
    let pid := k + 1
    if pid ≥ 10 then
      ({ dp with programs := dp.programs.set k (pid, (dp.programs.getD k (0, emptyProgram)).2) }, -81)
    else
      let r := readInstructions ims []
      -- on an instruction error the remaining slots keep whatever the table held (zeros after init)
      let prog : Program := { uid := uid, exprs := exprs, instrs := r.1, numToReturn := numToReturn r.1 }
      ({ dp with programs := dp.programs.set k (pid, prog) }, r.2)

def lookupUid (dp : Dp) (uid : Nat) : Option Nat :=
  (dp.programs.find? fun p => p.1 ≠ 0 ∧ p.2.uid = uid).map (·.1)

def lookupIndex (dp : Dp) (idx : Nat) : Option Program :=
  (dp.programs.find? fun p => p.1 = idx ∧ idx ≠ 0).map (·.2)

/-- `stage_update` / `stage_multiple_updates`: stops at the first refused update (earlier ones stay) -/
def stageUpdates : Pending → List Libccp.Upd → Pending × Int
  | p, [] => (p, 0)
  | p, u :: rest =>
    if u.cls = 0 ∨ u.cls = 8 then
      stageUpdates { p with control := p.control.set u.idx (some (UInt64.ofNat u.val)) } rest
    else if u.cls = 2 then
      if u.idx = 4 then stageUpdates { p with cwnd := some (UInt64.ofNat u.val) } rest
      else if u.idx = 5 then stageUpdates { p with rate := some (UInt64.ofNat u.val) } rest
      else stageUpdates p rest
    else (p, -53)

def getConn (dp : Dp) (sid : Nat) : Option Conn :=
  let s := sid % 65536
  if s = 0 then none else (dp.conns.getD (s - 1) none)

def setConn (dp : Dp) (sid : Nat) (c : Conn) : Dp :=
  { dp with conns := dp.conns.set ((sid % 65536) - 1) (some c) }

/-- `ccp_read_msg` on a buffer followed by zero padding (as the C driver provides) -/
def readMsg (dp : Dp) (buf : Bytes) : Dp × Int :=
  let padded := buf ++ zeros 64
  let typ := rd16 padded
  let len := rd16 (padded.drop 2)
  let sid := rd32 (padded.drop 4)
  if typ ≠ 2 ∧ typ ≠ 3 ∧ typ ≠ 4 then (dp, -32)
  else if len > buf.length then (dp, -22)
  else if len > 32678 then (dp, -23)
  else
    let p := (buf ++ zeros 16384).drop 8
    if typ = 2 then
      let uid := rd32 p
      let ne := rd32 (p.drop 4)
      let ni := rd32 (p.drop 8)
      let dp := if uid = 1 then { dp with programs := List.replicate 10 (0, emptyProgram) } else dp
      installProgram dp uid (Libccp.readExprs ne (p.drop 12)) (Libccp.readInstrs ni (p.drop (12 + 16 * ne)))
    else
      match getConn dp sid with
      | none => (dp, -71)
      | some c =>
        if typ = 3 then
          let n := Libccp.signedByteAsU32 (bAt p 0)
          if n > 222 then (dp, -52)
          else
            let r := stageUpdates c.pending (Libccp.readUpds n (p.drop 4))
            (setConn dp sid { c with pending := r.1 }, if r.2 < 0 then r.2 else 0)
        else
          let uid := rd32 p
          let n := rd32 (p.drop 4)
          if n > 222 then (dp, -62)
          else
            match lookupUid dp uid with
            | none => (dp, 8)
            | some idx =>
              let r := stageUpdates Pending.none (Libccp.readUpds n (p.drop 8))
              (setConn dp sid { c with staged := some idx, pending := r.1 }, if r.2 < 0 then r.2 else 0)

/-- `ccp_invoke` for a connection whose create message has been sent -/
def invoke (dp : Dp) (sid : Nat) (now : Val) (prims : Prims) : Option (Dp × Obs) :=
  match getConn dp sid with
  | none => none
  | some c =>
    let env : Env := { now := now, timeZero := 0, prims := prims }
    let c := { c with regs := { c.regs with impl := (c.regs.impl.set 4 (prims.sndCwnd.toUInt32.toUInt64)).set 5 prims.sndRate } }
    -- staged program switch
    let c := match c.staged with
      | some idx =>
        let c := { c with programIndex := idx, staged := none }
        match lookupIndex dp idx with
        | some p =>
          let c := initRegisterState env p (resetState env p c)
          { c with t0 := now, regs := { c.regs with impl := c.regs.impl.set 3 0 } }
        | none => { c with t0 := now, regs := { c.regs with impl := c.regs.impl.set 3 0 } }
      | none => c
    -- pending updates
    let ctl := (c.regs.control.zip c.pending.control).map fun p => match p.2 with | some v => v | none => p.1
    let c := { c with regs := { c.regs with control := ctl } }
    let o : Obs := { rc := 0, setCwnd := none, setRate := none, report := none }
    let (c, o) := match c.pending.cwnd with
      | some v => ({ c with regs := { c.regs with impl := c.regs.impl.set 4 v } },
                   { o with setCwnd := if v != 0 then some v else none })
      | none => (c, o)
    let (c, o) := match c.pending.rate with
      | some v => ({ c with regs := { c.regs with impl := c.regs.impl.set 5 v } },
                   { o with setRate := if v != 0 then some v else o.setRate })
      | none => (c, o)
    let c := { c with pending := Pending.none }
    match lookupIndex dp c.programIndex with
    | none => some (setConn dp sid c, { o with rc := -96 })
    | some p =>
      let r := stateMachine env p c o
      some (setConn dp sid r.1, r.2)

def newConn : Conn :=
  { regs := Regs.zero, t0 := 0, programIndex := 0, staged := none, pending := Pending.none }

/-- `ccp_connection_start`: lowest free slot; returns the sid -/
def connStart (dp : Dp) : Option (Dp × Nat) :=
  match dp.conns.findIdx? (·.isNone) with
  | none => none
  | some k => some ({ dp with conns := dp.conns.set k (some newConn) }, k + 1)

end Portus.Vm
