import PortusModel.Wire.LibccpRead
import PortusModel.Wire.Libccp
/-!
# libccp 1.2.0's datapath machine (`machine.c`, `ccp.c`)

Registers, the ALU with its fault rules, instruction/expression/program execution, DEF resets,
program install / change / update staging, and `ccp_invoke`. Values are `UInt64` (wrapping). The
clock is scripted: every operation sees `now`. Out-of-range register *writes* are ignored as in C;
out-of-range *reads* are undefined behaviour in C and return 0 here (C03 excludes such images).
-/
namespace Portus.Vm
open Portus

abbrev Val := UInt64

structure VReg where
  cls : Nat
  /-- index, or the (u32) value for an immediate -/
  idx : Nat
deriving Repr, DecidableEq, Inhabited

structure VInstr where
  op : Nat
  ret : VReg
  left : VReg
  right : VReg
deriving Repr, DecidableEq, Inhabited

structure Program where
  uid : Nat
  exprs : List Libccp.Expr
  instrs : List VInstr
  numToReturn : Nat
deriving Repr, DecidableEq, Inhabited

/-- `struct ccp_primitives` by libccp primitive-register index (index 5, `ACK_NOW`, is the clock) -/
structure Prims where
  vals : List Val
  sndCwnd : Val
  sndRate : Val
deriving Repr, DecidableEq, Inhabited

structure Regs where
  report : List Val
  control : List Val
  impl : List Val
  tmp : List Val
  loc : List Val
deriving Repr, DecidableEq, Inhabited

def Regs.zero : Regs :=
  { report := List.replicate 110 0, control := List.replicate 110 0, impl := List.replicate 6 0,
    tmp := List.replicate 8 0, loc := List.replicate 8 0 }

structure Pending where
  control : List (Option Val)
  cwnd : Option Val
  rate : Option Val
deriving Repr, DecidableEq, Inhabited

def Pending.none : Pending := { control := List.replicate 110 Option.none, cwnd := Option.none, rate := Option.none }

/-- `struct ccp_priv_state` -/
structure Conn where
  regs : Regs
  /-- `implicit_time_zero` -/
  t0 : Val
  /-- index (1-based slot) of the program in use; 0 = none -/
  programIndex : Nat
  staged : Option Nat
  pending : Pending
deriving Repr, DecidableEq, Inhabited

def U32MAX : Val := 0xFFFFFFFF

/-! ## ALU -/

def dif32 (left right : UInt32) : UInt32 :=
  if right > left then right - left else (0xFFFFFFFF - left) + right

def maxWrap (a b : Val) : Val :=
  let a32 := a.toUInt32
  let b32 := b.toUInt32
  if a == 0 then b
  else if b == 0 then a
  else if dif32 b32 a32 < dif32 a32 b32 then a32.toUInt64 else b32.toUInt64

def ewma (a old new : Val) : Val :=
  if old == 0 then new else (a * old + (10 - a) * new) / 10

/-- the two-operand operations; `none` = arithmetic fault (negative return code) -/
def alu (op : Nat) (a b : Val) : Option Val × Int :=
  match op with
  | 0 => let r := a + b; if r < a then (none, -91) else (some r, 0)          -- ADD
  | 3 => if b == 0 then (none, -92) else (some (a / b), 0)                   -- DIV
  | 4 => (some (if a == b then 1 else 0), 0)                                 -- EQUIV
  | 6 => (some (if a > b then 1 else 0), 0)                                  -- GT
  | 8 => (some (if a < b then 1 else 0), 0)                                  -- LT
  | 9 => (some (if a > b then a else b), 0)                                  -- MAX
  | 10 => (some (maxWrap a b), 0)                                            -- MAXWRAP
  | 11 => (some (if a < b then a else b), 0)                                 -- MIN
  | 12 => let r := a * b; if r < a ∧ b > 0 then (none, -93) else (some r, 0) -- MUL
  | 14 => let r := a - b; if r > a then (none, -94) else (some r, 0)         -- SUB
  | _ => (none, 0)

/-! ## registers -/

structure Env where
  now : Val
  /-- `datapath->time_zero` -/
  timeZero : Val
  prims : Prims

def readPrim (env : Env) (i : Nat) : Val :=
  if i = 5 then env.now - env.timeZero
  else if i = 13 then (let v := env.prims.vals.getD 13 0; if v == 0 then U32MAX else v)
  else if i < 15 then env.prims.vals.getD i 0
  else 0

def readReg (env : Env) (c : Conn) (r : VReg) : Val :=
  match r.cls with
  | 1 => UInt64.ofNat r.idx
  | 5 | 6 => c.regs.report.getD r.idx 0
  | 0 | 8 => c.regs.control.getD r.idx 0
  | 7 => c.regs.tmp.getD r.idx 0
  | 3 => c.regs.loc.getD r.idx 0
  | 4 => readPrim env r.idx
  | 2 => c.regs.impl.getD r.idx 0
  | _ => 0

def writeReg (env : Env) (c : Conn) (v : Val) (r : VReg) : Conn :=
  match r.cls with
  | 5 | 6 => if r.idx < 110 then { c with regs := { c.regs with report := c.regs.report.set r.idx v } } else c
  | 7 => if r.idx < 8 then { c with regs := { c.regs with tmp := c.regs.tmp.set r.idx v } } else c
  | 3 => if r.idx < 8 then { c with regs := { c.regs with loc := c.regs.loc.set r.idx v } } else c
  | 2 =>
    if r.idx = 0 ∨ r.idx = 4 ∨ r.idx = 5 ∨ r.idx = 2 ∨ r.idx = 1 then
      { c with regs := { c.regs with impl := c.regs.impl.set r.idx v } }
    else if r.idx = 3 then
      { c with t0 := env.now - v, regs := { c.regs with impl := c.regs.impl.set 3 v } }
    else c
  | 0 | 8 => if r.idx < 110 then { c with regs := { c.regs with control := c.regs.control.set r.idx v } } else c
  | _ => c

/-! ## execution -/

/-- `process_instruction`: the new state and the return code (negative = the invocation aborts; the
state then holds everything written before the fault) -/
def execInstr (env : Env) (c : Conn) (i : VInstr) : Conn × Int :=
  let a1 := readReg env c i.left
  let a2 := readReg env c i.right
  match i.op with
  | 5 => (writeReg env c (ewma a1 (readReg env c i.ret) a2) i.ret, 0)        -- EWMA
  | 7 => (if a1 != 0 then writeReg env c a2 i.ret else c, 0)                 -- IF
  | 13 => (if a1 == 0 then writeReg env c a2 i.ret else c, 0)                -- NOTIF
  | 1 => (writeReg env c a2 i.ret, 0)                                        -- BIND
  | 2 => (c, 0)                                                              -- DEF: nothing at run time
  | op =>
    match alu op a1 a2 with
    | (some v, _) => (writeReg env c v i.ret, 0)
    | (none, rc) => (c, rc)

def execInstrs (env : Env) : Conn → List VInstr → Conn × Int
  | c, [] => (c, 0)
  | c, i :: rest =>
    let r := execInstr env c i
    if r.2 < 0 then r else execInstrs env r.1 rest

def sliceInstrs (p : Program) (start n : Nat) : List VInstr := (p.instrs.drop start).take n

/-- `process_expression` -/
def execExpr (env : Env) (p : Program) (c : Conn) (e : Libccp.Expr) : Conn × Int :=
  let r := execInstrs env c (sliceInstrs p e.condStart e.numCond)
  if r.2 < 0 then r
  else if r.1.regs.impl.getD 0 0 != 0 then execInstrs env r.1 (sliceInstrs p e.eventStart e.numEvent) else r

/-- the expression loop of `state_machine`: stop after a true event unless fallthrough is set -/
def execExprs (env : Env) (p : Program) : Conn → List Libccp.Expr → Conn × Int
  | c, [] => (c, 0)
  | c, e :: rest =>
    let r := execExpr env p c e
    if r.2 < 0 then r
    else if r.1.regs.impl.getD 0 0 != 0 ∧ r.1.regs.impl.getD 1 0 == 0 then r else execExprs env p r.1 rest

def defValue (i : VInstr) : Val := if i.right.idx = 0x3fffffff then U32MAX else UInt64.ofNat i.right.idx

/-- the DEF preamble: the leading run of DEF instructions -/
def defPreamble : List VInstr → List VInstr
  | [] => []
  | i :: rest => if i.op = 2 then i :: defPreamble rest else []

/-- `reset_state`: re-initialise volatile report and volatile control registers -/
def resetState (env : Env) (p : Program) (c : Conn) : Conn :=
  (defPreamble p.instrs).foldl (fun c i =>
    if i.left.cls = 5 ∨ i.left.cls = 8 then writeReg env c (defValue i) i.left else c) c

/-- `num_to_return` as `reset_state` computes it: DEFs of report registers in the preamble -/
def numToReturn (instrs : List VInstr) : Nat :=
  if (defPreamble instrs).length = instrs.length then 0   -- the loop never meets a non-DEF: the field keeps its 0
  else ((defPreamble instrs).filter fun i => i.left.cls = 5 ∨ i.left.cls = 6).length

/-- `init_register_state`: non-volatile control and report registers -/
def initRegisterState (env : Env) (p : Program) (c : Conn) : Conn :=
  (defPreamble p.instrs).foldl (fun c i =>
    if i.left.cls = 0 ∨ i.left.cls = 6 then writeReg env c (defValue i) i.left else c) c

/-- what one invocation shows to the outside -/
structure Obs where
  rc : Int
  setCwnd : Option Val
  setRate : Option Val
  /-- the measurement sent: (program uid, fields) -/
  report : Option (Nat × List Val)
deriving Repr, DecidableEq, Inhabited

/-- `state_machine` -/
def stateMachine (env : Env) (p : Program) (c : Conn) (pre : Obs) : Conn × Obs :=
  let c := { c with regs := { c.regs with impl := ((c.regs.impl.set 0 0).set 1 0).set 2 0 } }
  let c := { c with regs := { c.regs with impl := c.regs.impl.set 3 (env.now - c.t0) } }
  let r := execExprs env p c p.exprs
  if r.2 < 0 then (r.1, { pre with rc := r.2 })
  else
    let c' := r.1
    let cw := c'.regs.impl.getD 4 0
    let rt := c'.regs.impl.getD 5 0
    let o := { pre with setCwnd := if cw > 0 then some cw else pre.setCwnd,
                        setRate := if rt != 0 then some rt else pre.setRate }
    if c'.regs.impl.getD 2 0 != 0 then
      (resetState env p c', { o with report := some (p.uid, c'.regs.report.take p.numToReturn) })
    else (c', o)

end Portus.Vm
