import PortusModel.Base.Bytes
/-!
# Observed runtime traces (the rendered `RUN` trace of harness and model), and trace predicates

These decidable predicates are the "oracle on the implementation's behaviour" for the runtime
properties: each is a consequence of the step theorems (C02/C05/C09/C16) that can be evaluated on a
rendered trace without knowing the inputs. They are necessary conditions (sound alarms), not the
whole property; the whole property is decided by the theorems plus trace equality with the model.
-/
namespace Portus.Rt

inductive Obs where
  | rx (a n : Nat)
  | install (a : Nat) (prog : String)
  | changeProg (a sid : Nat) (prog : String)
  | updateField (a sid : Nat)
  | txOther (a : Nat)
  | txFail (a : Nat)
  | newFlow (n : Nat) (alg : String) (sid h : Nat)
  | report (n sid : Nat) (prog : String)
  | closed (n : Nat)
  | dropped (n : Nat)
  | log (s : String)
  | res (r : String)
deriving Repr, DecidableEq, Inhabited

def parseObs (toks : List String) : Option Obs :=
  match toks with
  | ["RX", a, n] => do some (.rx (← a.toNat?) (← n.toNat?))
  | ["TX", a, "IN", p] => do some (.install (← a.toNat?) p)
  | ["TX", a, "CP", sid, p, _] => do some (.changeProg (← a.toNat?) (← sid.toNat?) p)
  | ["TX", a, "UF", sid, _] => do some (.updateField (← a.toNat?) (← sid.toNat?))
  | ["TX", a, "OT", _] => do some (.txOther (← a.toNat?))
  | ["TXFAIL", a] => do some (.txFail (← a.toNat?))
  | ["NF", n, alg, _, sid, _, _, _, _, _, _, h] => do
    let hv ← (if h.startsWith "h=" then (h.drop 2).toString.toNat? else none)
    some (.newFlow (← n.toNat?) alg (← sid.toNat?) hv)
  | ["RP", n, sid, p] => do some (.report (← n.toNat?) (← sid.toNat?) p)
  | ["CL", n] => do some (.closed (← n.toNat?))
  | ["DR", n] => do some (.dropped (← n.toNat?))
  | "RES" :: r :: _ => some (.res r)
  | "SP" :: _ => some (.log (" ".intercalate toks))
  | "UF" :: _ => some (.log (" ".intercalate toks))
  | "GF" :: _ => some (.log (" ".intercalate toks))
  | "GFP" :: _ => some (.log (" ".intercalate toks))
  | _ => none

/-- per-flow record while scanning a trace: creation address (the `RX` under which it was created),
flow id, alive?, closed? -/
structure FlowRec where
  no : Nat
  addr : Nat
  sid : Nat
  alive : Bool
  closed : Bool

structure Scan where
  curAddr : Option Nat := none
  flows : List FlowRec := []
  next : Nat := 1
  installed : List (Nat × String) := []
  ok : Bool := true

def Scan.find (s : Scan) (n : Nat) : Option FlowRec := s.flows.find? (·.no = n)
def Scan.upd (s : Scan) (f : FlowRec) : Scan := { s with flows := f :: s.flows.filter (·.no ≠ f.no) }
def Scan.bad (s : Scan) : Scan := { s with ok := false }

/-- C02 as a trace predicate: flows are numbered in creation order; a callback only ever concerns a
live flow that was created from the address whose datagram is being processed; `on_report` passes the
flow's own id; `close` happens at most once per flow and only on a live flow; a dropped flow gets no
further callbacks; no two live flows share (address, flow id). -/
def scanC02 (s : Scan) : Obs → Scan
  | .rx a _ => { s with curAddr := some a }
  | .newFlow n _ sid h =>
    match s.curAddr with
    | none => s.bad
    | some a =>
      if n ≠ s.next ∨ h ≠ sid ∨ s.flows.any (fun f => f.alive && f.addr == a && f.sid == sid) then s.bad
      else { (s.upd ⟨n, a, sid, true, false⟩) with next := n + 1 }
  | .report n sid _ =>
    match s.find n with
    | some f => if f.alive ∧ !f.closed ∧ f.sid = sid ∧ s.curAddr = some f.addr then s else s.bad
    | none => s.bad
  | .closed n =>
    match s.find n with
    | some f => if f.alive ∧ !f.closed ∧ s.curAddr = some f.addr then s.upd { f with closed := true } else s.bad
    | none => s.bad
  | .dropped n =>
    match s.find n with
    | some f => if f.alive then s.upd { f with alive := false } else s.bad
    | none => s.bad
  | _ => s

def checkC02 (t : List Obs) : Bool :=
  let s := t.foldl scanC02 {}
  -- a closed flow is dropped; every flow is dropped by the end of a run that returned
  s.ok && s.flows.all (fun f => !f.closed || !f.alive) &&
    (!(t.any fun o => match o with | .res _ => true | _ => false) || s.flows.all (fun f => !f.alive))

/-- C09 as a trace predicate: while the datagram of address `a` is being processed, every transmission
(install, command, failed send) goes to `a`; a command carries the flow id of a live flow created from
`a` (or of the flow being created). -/
def scanC09 (s : Scan) : Obs → Scan
  | .rx a _ => { s with curAddr := some a }
  | .newFlow n _ sid _ => (match s.curAddr with
      | some a => s.upd ⟨n, a, sid, true, false⟩
      | none => s.bad)
  | .dropped n => (match s.find n with
      | some f => s.upd { f with alive := false }
      | none => s)
  | .install a _ => if s.curAddr = some a then s else s.bad
  | .txFail a => if s.curAddr = some a then s else s.bad
  | .txOther _ => s.bad
  | .changeProg a sid _ =>
    if s.curAddr = some a ∧ s.flows.any (fun f => f.addr == a && f.sid == sid) then s else s.bad
  | .updateField a sid =>
    if s.curAddr = some a ∧ s.flows.any (fun f => f.addr == a && f.sid == sid) then s else s.bad
  | _ => s

def checkC09 (t : List Obs) : Bool := (t.foldl scanC09 {}).ok

/-- C05 as a trace predicate (`nprogs` = number of compiled programs): a change-program to `a` names a
program installed to `a` earlier in the trace; a flow created from an address that has never been sent
an install is preceded, within the same datagram, by installs to that address; installs to an address
come in complete batches of `nprogs` distinct programs. -/
def scanC05 (s : Scan) : Obs → Scan
  | .rx a _ => { s with curAddr := some a }
  | .install a p => { s with installed := (a, p) :: s.installed }
  | .changeProg a _ p => if s.installed.contains (a, p) then s else s.bad
  | .newFlow _ _ _ _ => (match s.curAddr with
      | some a => if s.installed.any (·.1 == a) then s else s.bad
      | none => s.bad)
  | _ => s

/-- installs between two non-install events form full batches (unless a failed send cut the last one) -/
def batchesOk (nprogs : Nat) : List Obs → List String → Bool
  | [], cur => cur.length % (max nprogs 1) == 0
  | .install _ p :: rest, cur => batchesOk nprogs rest (p :: cur)
  | .txFail _ :: _, _ => true
  | _ :: rest, cur => cur.length % (max nprogs 1) == 0 && batchesOk nprogs rest []

def checkC05 (nprogs : Nat) (t : List Obs) : Bool :=
  (t.foldl scanC05 {}).ok && batchesOk nprogs t [] &&
  (nprogs == 0 || !(t.any fun o => match o with | .install .. => true | _ => false) ||
    -- every complete batch holds each program once: number of distinct programs seen = nprogs
    ((t.filterMap fun o => match o with | .install _ p => some p | _ => none).eraseDups.length == nprogs))

/-- C16 as a trace predicate: the run ended with `Ok` or `Err`, never a panic -/
def checkC16 (t : List Obs) : Bool :=
  match t.getLast? with
  | some (.res r) => r == "OK" || r == "ERR"
  | _ => false

end Portus.Rt
