import PortusModel.Wire.Ctl
import PortusModel.Lang.Scope
/-!
# The flow's datapath handle and report access (`src/lib.rs`)
`Datapath::{set_program, update_field}`, `Report::get_field`.
-/
namespace Portus.Rt
open Portus Portus.Lang Portus.Wire

/-- the closure both `set_program` and `update_field` map over the requested fields -/
def resolveField (sc : Scope) (f : Name × Nat) : Out (Reg × Nat) :=
  if "__".toList.isPrefixOf f.1 then .err
  else match sc.get f.1 with
    | none => .err
    | some (.control i t v) => .ok (.control i t v, f.2)
    | some (.implicit i t) => if i = 4 ∨ i = 5 then .ok (.implicit i t, f.2) else .err
    | some _ => .err

/-- `.map(...).collect::<Result<Vec<_>>>()`: the first failing field decides -/
def resolveFields (sc : Scope) : List (Name × Nat) → Out (List (Reg × Nat))
  | [] => .ok []
  | f :: rest => do
    let r ← resolveField sc f
    let rs ← resolveFields sc rest
    pure (r :: rs)

/-- `set_program` up to (not including) the send: the scope to return and the bytes to transmit -/
def setProgram (scopeMap : List (String × Scope)) (sid : Nat) (pname : String)
    (fields : Option (List (Name × Nat))) : Out (Scope × Bytes) :=
  match scopeMap.lookup pname with
  | none => .err
  | some sc => do
    let fs ← resolveFields sc (fields.getD [])
    let b ← serializeChangeProg { sid := sid, uid := sc.uid, numFields := fs.length, fields := fs }
    pure (sc, b)

/-- `update_field` up to the send (`u8::try_from(fields.len())`, F6) -/
def updateField (sc : Scope) (sid : Nat) (fields : List (Name × Nat)) : Out Bytes := do
  let fs ← resolveFields sc fields
  if fs.length > 255 then .err
  else serializeUpdateField { sid := sid, numFields := fs.length, fields := fs }

inductive GetErr where
  | stale | notFound | invalidType | invalidReport
deriving Repr, DecidableEq, Inhabited

instance : DecidableEq (Except GetErr Nat) := fun a b =>
  match a, b with
  | .ok x, .ok y => if h : x = y then isTrue (by rw [h]) else isFalse (by intro e; injection e with e; exact h e)
  | .error x, .error y => if h : x = y then isTrue (by rw [h]) else isFalse (by intro e; injection e with e; exact h e)
  | .ok _, .error _ => isFalse (by intro e; cases e)
  | .error _, .ok _ => isFalse (by intro e; cases e)

/-- `Report::get_field` -/
def getField (reportUid : Nat) (fields : List Nat) (field : Name) (sc : Scope) : Except GetErr Nat :=
  if sc.uid ≠ reportUid then .error .stale
  else match sc.get field with
    | none => .error .notFound
    | some (.report idx _ _) =>
      match fields[idx]? with
      | none => .error .invalidReport
      | some v => .ok v
    | some _ => .error .invalidType

/-- `Report::get_field` with the Rust indexing kept as a panicking primitive behind its guard -/
def getFieldP (reportUid : Nat) (fields : List Nat) (field : Name) (sc : Scope) : Out (Except GetErr Nat) :=
  if sc.uid ≠ reportUid then .ok (.error .stale)
  else match sc.get field with
    | none => .ok (.error .notFound)
    | some (.report idx _ _) =>
      if idx ≥ fields.length then .ok (.error .invalidReport)
      else do
        let v ← idxP fields idx
        pure (.ok v)
    | some _ => .ok (.error .invalidType)

end Portus.Rt
