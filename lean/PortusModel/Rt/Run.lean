import PortusModel.Rt.Handle
import PortusModel.Ipc.Backend
/-!
# The dispatch loop (`src/run.rs` `run_inner`, `sealed::Pick`)

User code (`CongAlg::new_flow`, `Flow::{on_report, close}`) is a universally quantified *policy*:
an interactive program (`UProg`) that may issue handle commands, sees their results, may log, and
returns the flow's new private state. The compiled programs (`scope_map`, `install_msgs`) enter as
configuration data `Cfg.progs`, in the (arbitrary, HashMap-dependent) order in which they are sent.
-/
namespace Portus.Rt
open Portus Portus.Lang Portus.Wire Portus.Ipc

structure Info where
  sid : Nat
  cwnd : Nat
  mss : Nat
  srcIp : Nat
  srcPort : Nat
  dstIp : Nat
  dstPort : Nat
deriving Repr, DecidableEq, Inhabited

/-- what the outside world can see -/
inductive Ev where
  /-- `recv` delivered a datagram of `n` bytes from `src` -/
  | rx (src : Addr) (n : Nat)
  | tx (to : Addr) (bytes : Bytes)
  | txFail (to : Addr)
  | newFlow (flow : Nat) (alg : Nat) (info : Info) (handleSid : Nat)
  | report (flow : Nat) (sidArg : Nat) (uid : Nat) (fields : List Nat)
  | closed (flow : Nat)
  | dropped (flow : Nat)
  | log (flow : Nat) (msg : String)
deriving Repr, DecidableEq, Inhabited

/-- user code as an interactive program over the two handle commands -/
inductive UProg (σ : Type) where
  | done (s : σ)
  | log (msg : String) (k : UProg σ)
  | setProgram (pname : String) (fields : Option (List (Name × Nat))) (k : Option Scope → UProg σ)
  | updateField (sc : Scope) (fields : List (Name × Nat)) (k : Bool → UProg σ)

structure Policy (σ : Type) where
  /-- `CongAlg::new_flow` of algorithm number `alg` (0 = default) -/
  newFlow : (alg : Nat) → (flow : Nat) → Info → UProg σ
  /-- `Flow::on_report(sock_id, report)` -/
  onReport : σ → (sidArg : Nat) → (uid : Nat) → (fields : List Nat) → UProg σ
  /-- `Flow::close()` -/
  onClose : σ → UProg σ

structure AlgInfo where
  name : Bytes
  hasInstance : Bool
deriving Repr, DecidableEq, Inhabited

structure ProgInfo where
  pname : String
  scope : Scope
  install : Bytes
deriving Repr, DecidableEq, Inhabited

structure Cfg where
  /-- default algorithm first, then the additional ones in registration order -/
  algs : List AlgInfo
  progs : List ProgInfo

/-- `CollectDps::datapath_programs`: the union over all algorithms with an instance, collected into a
`HashMap` from the outermost (latest) registration inwards, so on a name collision the algorithm
registered earlier (the default first) wins. `algs` is in registration order, default first; inside one
algorithm's own map names are unique. The result is keyed by name (order irrelevant: it is a map). -/
def unionProgs {α : Type} : List (Bool × List (String × α)) → List (String × α)
  | [] => []
  | (inst, ps) :: rest =>
    let mine := if inst then ps else []
    mine ++ (unionProgs rest).filter fun q => !(mine.any fun p => p.1 == q.1)

def Cfg.scopeMap (c : Cfg) : List (String × Scope) := c.progs.map fun p => (p.pname, p.scope)

/-- `Pick::pick` over registrations numbered 1.. (0 = default): the most recently registered
algorithm that has an instance and whose name equals `name` exactly; otherwise the default -/
def pickFrom : List (Nat × AlgInfo) → Bytes → Nat
  | [], _ => 0
  | (i, a) :: rest, name => if a.hasInstance ∧ a.name = name then i else pickFrom rest name

/-- number the registrations `i, i+1, …` -/
def numberFrom (i : Nat) : List AlgInfo → List (Nat × AlgInfo)
  | [] => []
  | a :: rest => (i, a) :: numberFrom (i + 1) rest

def Cfg.pick (c : Cfg) (name : Bytes) : Nat :=
  pickFrom (numberFrom 1 c.algs.tail).reverse name

structure Flow (σ : Type) where
  no : Nat
  user : σ

structure St (σ : Type) where
  /-- `dp_to_flowmap` -/
  flows : List (Addr × List (Nat × Flow σ))
  nextFlow : Nat
  /-- number of upcoming `Ipc::send` calls that fail -/
  sendFail : Nat

def St.init {σ : Type} : St σ := { flows := [], nextFlow := 1, sendFail := 0 }

/-- `BackendSender::send_msg` through the scripted failure counter -/
def sendTo (to : Addr) (b : Bytes) (sf : Nat) : Bool × Nat × Ev :=
  if sf > 0 then (false, sf - 1, .txFail to) else (true, sf, .tx to b)

/-- interpret user code issued through the handle of flow `(addr, sid)` -/
def runUser {σ : Type} (cfg : Cfg) (addr : Addr) (sid : Nat) (flow : Nat) :
    UProg σ → Nat → List Ev → Out (σ × Nat × List Ev)
  | .done s, sf, acc => .ok (s, sf, acc)
  | .log m k, sf, acc => runUser cfg addr sid flow k sf (acc ++ [.log flow m])
  | .setProgram p f k, sf, acc =>
    match setProgram cfg.scopeMap sid p f with
    | .panic => .panic
    | .err => runUser cfg addr sid flow (k none) sf acc
    | .ok (sc, b) =>
      let (ok, sf', ev) := sendTo addr b sf
      runUser cfg addr sid flow (k (if ok then some sc else none)) sf' (acc ++ [ev])
  | .updateField sc f k, sf, acc =>
    match updateField sc sid f with
    | .panic => .panic
    | .err => runUser cfg addr sid flow (k false) sf acc
    | .ok b =>
      let (ok, sf', ev) := sendTo addr b sf
      runUser cfg addr sid flow (k ok) sf' (acc ++ [ev])

/-- send every install message to `to`; stops at the first failing send (`?`) -/
def sendInstalls (to : Addr) : List ProgInfo → Nat → List Ev → Bool × Nat × List Ev
  | [], sf, acc => (true, sf, acc)
  | p :: rest, sf, acc =>
    let (ok, sf', ev) := sendTo to p.install sf
    if ok then sendInstalls to rest sf' (acc ++ [ev]) else (false, sf', acc ++ [ev])

def dropAll {σ : Type} (fm : List (Nat × Flow σ)) : List Ev :=
  (fm.map fun p => p.2.no).mergeSort.map Ev.dropped

inductive StepRes (σ : Type) where
  /-- keep serving -/
  | cont (st : St σ) (evs : List Ev)
  /-- `run_inner` returns `Err` (a failed install send) -/
  | fail (st : St σ) (evs : List Ev)

/-- replace the flow map of `addr` -/
def setAddr {σ : Type} (flows : List (Addr × List (Nat × Flow σ))) (addr : Addr) (fm : List (Nat × Flow σ)) :
    List (Addr × List (Nat × Flow σ)) :=
  (addr, fm) :: flows.filter (fun p => p.1 ≠ addr)

/-- `Msg::Rdy`: forget (drop) the flows of that address, then install every program -/
def stepRdy {σ : Type} (cfg : Cfg) (st : St σ) (addr : Addr) : StepRes σ :=
  let old := (st.flows.lookup addr).getD []
  let r := sendInstalls addr cfg.progs st.sendFail (dropAll old)
  let st' := { st with flows := setAddr st.flows addr [], sendFail := r.2.1 }
  if r.1 then .cont st' r.2.2 else .fail st' r.2.2

/-- `Msg::Cr` -/
def stepCr {σ : Type} (cfg : Cfg) (pol : Policy σ) (st : St σ) (addr : Addr) (c : Create) : Out (StepRes σ) :=
  let known := (st.flows.lookup addr).isSome
  let fm := (st.flows.lookup addr).getD []
  let r := if known then (true, st.sendFail, []) else sendInstalls addr cfg.progs st.sendFail []
  if !r.1 then
    .ok (.fail { st with flows := setAddr st.flows addr fm, sendFail := r.2.1 } r.2.2)
  else
    let evs := r.2.2 ++ dropAll (fm.filter fun p => p.1 = c.sid)
    let fm := fm.filter fun p => p.1 ≠ c.sid
    let alg := cfg.pick (c.alg.getD [])
    let no := st.nextFlow
    let info : Info := ⟨c.sid, c.cwnd, c.mss, c.srcIp, c.srcPort, c.dstIp, c.dstPort⟩
    match runUser cfg addr c.sid no (pol.newFlow alg no info) r.2.1 (evs ++ [.newFlow no alg info c.sid]) with
    | .panic => .panic
    | .err => .err
    | .ok (u, sf, evs) =>
      .ok (.cont { flows := setAddr st.flows addr ((c.sid, { no := no, user := u }) :: fm), nextFlow := no + 1,
                   sendFail := sf } evs)

/-- `Msg::Ms` -/
def stepMs {σ : Type} (cfg : Cfg) (pol : Policy σ) (st : St σ) (addr : Addr) (m : Measure) : Out (StepRes σ) :=
  match st.flows.lookup addr with
  | none => .ok (.cont st [])
  | some fm =>
    match fm.lookup m.sid with
    | none => .ok (.cont st [])
    | some f =>
      if m.numFields = 0 then
        match runUser cfg addr m.sid f.no (pol.onClose f.user) st.sendFail [.closed f.no] with
        | .panic => .panic
        | .err => .err
        | .ok (_, sf, evs) =>
          let fm' := fm.filter fun p => p.1 ≠ m.sid
          .ok (.cont { st with flows := setAddr st.flows addr fm', sendFail := sf } (evs ++ [.dropped f.no]))
      else
        match runUser cfg addr m.sid f.no (pol.onReport f.user m.sid m.uid m.fields) st.sendFail
            [.report f.no m.sid m.uid m.fields] with
        | .panic => .panic
        | .err => .err
        | .ok (u, sf, evs) =>
          let fm' := (m.sid, { f with user := u }) :: fm.filter fun p => p.1 ≠ m.sid
          .ok (.cont { st with flows := setAddr st.flows addr fm', sendFail := sf } evs)

/-- one iteration of the `while let` body for a yielded `(msg, addr)` -/
def step {σ : Type} (cfg : Cfg) (pol : Policy σ) (st : St σ) (addr : Addr) (msg : Msg) : Out (StepRes σ) :=
  match msg with
  | .rdy _ => .ok (stepRdy cfg st addr)
  | .cr c => stepCr cfg pol st addr c
  | .ms m => stepMs cfg pol st addr m
  | .other _ => .ok (.cont st [])

/-- the last `SF k` among the script items `recv` passed over, if any -/
def lastSf : List Rx → Option Nat
  | [] => none
  | .sf k :: rest => (lastSf rest).orElse fun _ => some k
  | _ :: rest => lastSf rest

/-- one `rx` event per datagram `recv` delivered among the passed script items -/
def rxEvents : List Rx → List Ev
  | [] => []
  | .dgram a d :: rest => .rx a (d.take 1024).length :: rxEvents rest
  | _ :: rest => rxEvents rest

/-- the send-failure counter after `recv` has passed over these script items -/
def applySf {σ : Type} (st : St σ) (passed : List Rx) : St σ :=
  match lastSf passed with
  | some k => { st with sendFail := k }
  | none => st

/-- flows still alive when `run_inner` returns are dropped (before the backend, which then closes) -/
def shutdown {σ : Type} (st : St σ) : List Ev :=
  dropAll (st.flows.flatMap fun p => p.2)

inductive Res where
  | ok | err
deriving Repr, DecidableEq, Inhabited

/-- why `next()` returned `None`: the stop flag was seen false (⇒ `Ok`) or a message failed to
decode while the flag was still set (⇒ `Err("The IPC channel has closed.")`) -/
def endedByStop (b : Backend) (rx : List Rx) : Bool :=
  if b.readUntil < b.totRead then false else (getNextRead b rx).1.isNone

/-- one trip round the loop: `b.next()`, then the `match` -/
inductive LoopRes (σ : Type) where
  | more (b : Backend) (rx : List Rx) (st : St σ) (evs : List Ev)
  | finished (res : Res) (st : St σ) (evs : List Ev)

def loopStep {σ : Type} (cfg : Cfg) (pol : Policy σ) (b : Backend) (rx : List Rx) (st : St σ) : Out (LoopRes σ) :=
  match next b rx with
  | .panic => .panic
  | .err => .err
  | .ok (none, _, rx') =>
    .ok (.finished (if endedByStop b rx then .ok else .err) st (rxEvents (rx.take (rx.length - rx'.length))))
  | .ok (some (msg, addr), b', rx') =>
    match step cfg pol (applySf st (rx.take (rx.length - rx'.length))) addr msg with
    | .panic => .panic
    | .err => .err
    | .ok (.cont st' evs) => .ok (.more b' rx' st' (rxEvents (rx.take (rx.length - rx'.length)) ++ evs))
    | .ok (.fail st' evs) => .ok (.finished .err st' (rxEvents (rx.take (rx.length - rx'.length)) ++ evs))

/-- `run_inner` after the programs have been compiled: the trace and the result -/
def runLoop {σ : Type} (cfg : Cfg) (pol : Policy σ) : Nat → Backend → List Rx → St σ → List Ev → Out (List Ev × Res)
  | 0, _, _, st, acc => .ok (acc ++ shutdown st, .ok)
  | fuel + 1, b, rx, st, acc =>
    match loopStep cfg pol b rx st with
    | .panic => .panic
    | .err => .err
    | .ok (.finished r st' evs) => .ok (acc ++ evs ++ shutdown st', r)
    | .ok (.more b' rx' st' evs) => runLoop cfg pol fuel b' rx' st' (acc ++ evs)

def run {σ : Type} (cfg : Cfg) (pol : Policy σ) (buf0 : Bytes) (rx : List Rx) : Out (List Ev × Res) :=
  runLoop cfg pol (rxFuel rx + 1) (Backend.new buf0) rx St.init []

end Portus.Rt
