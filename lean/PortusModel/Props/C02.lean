import PortusModel.Lemmas.RtStep
/-!
# C02 — every flow event reaches exactly the right flow handler, exactly once

The runtime state is abstracted to the flat partial map `cur st : (address, flow id) ⇀ flow`
(`curNo` = the flow's creation number). Each theorem describes one message kind against that map, for
**every** state with unique keys, every configuration and every (bounded) user policy; the key
uniqueness is an invariant of the loop (`wf_preserved`), so by induction the statements hold after
every finite message history. `isCallback` selects the callback events (new_flow, on_report, close,
drop); everything else in a step's events is transport traffic and log lines caused by user code.
-/
namespace Portus.C02
open Portus Portus.Wire Portus.Ipc Portus.Rt

/-- ignored message kinds have no effect at all -/
theorem other_ignored {σ : Type} (cfg : Cfg) (pol : Policy σ) (st : St σ) (addr : Addr) (r : Raw) :
    step cfg pol st addr (.other r) = .ok (.cont st []) := rfl

/-- **Unknown targets invoke nothing.** A measurement (empty or not) for an address or flow id that is
not currently registered — never created, already closed, or dropped by a restart — changes nothing
and calls nothing. -/
theorem measure_unknown_ignored {σ : Type} (cfg : Cfg) (pol : Policy σ) (st : St σ) (addr : Addr) (m : Measure)
    (h : cur st addr m.sid = none) : step cfg pol st addr (.ms m) = .ok (.cont st []) := by
  show stepMs cfg pol st addr m = _
  unfold stepMs
  unfold cur at h
  cases hl : st.flows.lookup addr with
  | none => rfl
  | some fm =>
    simp only [hl, Option.bind_some] at h
    simp only [h]

/-- **A non-empty measurement goes to the current handler, once, intact.** The events of the step
start with `on_report` of exactly the flow registered for (address, flow id), with the message's
program uid and values; no other callback happens; the map is unchanged. -/
theorem report_delivered {σ : Type} (cfg : Cfg) (pol : Policy σ) (hb : pol.Bounded) (st : St σ) (hw : WfSt st)
    (addr : Addr) (m : Measure) (f : Flow σ) (h : cur st addr m.sid = some f) (hn : m.numFields ≠ 0) :
    ∃ st' evs, step cfg pol st addr (.ms m) = .ok (.cont st' (.report f.no m.sid m.uid m.fields :: evs)) ∧
      (∀ e ∈ evs, UserEv addr m.sid f.no e) ∧ evs.filter isCallback = [] ∧
      (∀ a s, curNo st' a s = curNo st a s) ∧ st'.nextFlow = st.nextFlow ∧ WfSt st' := by
  show ∃ st' evs, stepMs cfg pol st addr m = _ ∧ _
  unfold stepMs
  unfold cur at h
  cases hl : st.flows.lookup addr with
  | none => simp [hl] at h
  | some fm =>
    simp only [hl, Option.bind_some] at h
    simp only [h, hn, if_false]
    obtain ⟨u, sf', evs, hr, h1, _⟩ := runUser_spec cfg addr m.sid f.no (pol.onReport f.user m.sid m.uid m.fields)
      (hb.onReport _ _ _ _) st.sendFail [.report f.no m.sid m.uid m.fields]
    rw [hr]
    refine ⟨_, evs, rfl, h1, filter_callback_user h1, ?_, rfl, ?_⟩
    · intro a s
      unfold curNo
      rw [cur_setAddr]
      by_cases ha : a = addr
      · subst ha
        simp only [if_true, List.lookup_cons]
        by_cases hs : s = m.sid
        · subst hs
          simp [cur, hl, h]
        · have : (s == m.sid) = false := by simpa using hs
          simp only [this]
          rw [lookup_filter_ne, if_neg hs]
          simp [cur, hl]
      · simp [ha]
    · apply WfSt_setAddr hw
      simp only [List.map_cons, List.nodup_cons]
      exact ⟨keys_filter_ne fm m.sid, nodup_filter_keys fm _ (hw.fm_nodup hl)⟩

/-- **An empty measurement closes exactly once and forgets the flow.** `close()` of the registered
flow, then the flow is dropped; it is gone from the map (so a later measurement for it invokes
nothing, by `measure_unknown_ignored`); every other flow is untouched. -/
theorem close_once_and_forget {σ : Type} (cfg : Cfg) (pol : Policy σ) (hb : pol.Bounded) (st : St σ) (hw : WfSt st)
    (addr : Addr) (m : Measure) (f : Flow σ) (h : cur st addr m.sid = some f) (hn : m.numFields = 0) :
    ∃ st' evs, step cfg pol st addr (.ms m) = .ok (.cont st' (.closed f.no :: evs ++ [.dropped f.no])) ∧
      (∀ e ∈ evs, UserEv addr m.sid f.no e) ∧ evs.filter isCallback = [] ∧
      curNo st' addr m.sid = none ∧
      (∀ a s, (a, s) ≠ (addr, m.sid) → curNo st' a s = curNo st a s) ∧ st'.nextFlow = st.nextFlow ∧ WfSt st' := by
  show ∃ st' evs, stepMs cfg pol st addr m = _ ∧ _
  unfold stepMs
  unfold cur at h
  cases hl : st.flows.lookup addr with
  | none => simp [hl] at h
  | some fm =>
    simp only [hl, Option.bind_some] at h
    simp only [h, hn, if_true]
    obtain ⟨u, sf', evs, hr, h1, _⟩ := runUser_spec cfg addr m.sid f.no (pol.onClose f.user)
      (hb.onClose _) st.sendFail [.closed f.no]
    rw [hr]
    refine ⟨{ st with flows := setAddr st.flows addr (fm.filter fun p => p.1 ≠ m.sid), sendFail := sf' }, evs,
      by simp, h1, filter_callback_user h1, ?_, ?_, rfl, ?_⟩
    · unfold curNo
      rw [cur_setAddr, if_pos rfl, lookup_filter_ne, if_pos rfl]
      rfl
    · intro a s hne
      unfold curNo
      rw [cur_setAddr]
      by_cases ha : a = addr
      · subst ha
        have hs : s ≠ m.sid := fun e => hne (by rw [e])
        rw [if_pos rfl, lookup_filter_ne, if_neg hs]
        simp [cur, hl]
      · simp [ha]
    · exact WfSt_setAddr hw _ _ (nodup_filter_keys fm _ (hw.fm_nodup hl)) _ _

/-- **One handler per create, replacing without close.** Unless an install to a never-seen address
fails (then the runtime stops with an error), a create message causes exactly one `new_flow`, on the
algorithm picked by name, with the connection details carried by the message and a handle for its flow
id; if the (address, flow id) pair was registered, that older flow is dropped first — *without* a close
callback; the new flow is registered under the pair; every other pair is untouched. -/
theorem create_one_handler {σ : Type} (cfg : Cfg) (pol : Policy σ) (hb : pol.Bounded) (st : St σ) (hw : WfSt st)
    (addr : Addr) (c : Create) :
    (∃ st' evs, step cfg pol st addr (.cr c) = .ok (.fail st' evs) ∧ st.flows.lookup addr = none ∧
        evs.filter isCallback = [] ∧ ∀ a s, a ≠ addr → curNo st' a s = curNo st a s) ∨
    (∃ st' evs, step cfg pol st addr (.cr c) = .ok (.cont st' evs) ∧
      evs.filter isCallback =
        (match curNo st addr c.sid with | some n => [Ev.dropped n] | none => []) ++
        [.newFlow st.nextFlow (cfg.pick (c.alg.getD []))
          ⟨c.sid, c.cwnd, c.mss, c.srcIp, c.srcPort, c.dstIp, c.dstPort⟩ c.sid] ∧
      curNo st' addr c.sid = some st.nextFlow ∧
      (∀ a s, (a, s) ≠ (addr, c.sid) → curNo st' a s = curNo st a s) ∧
      st'.nextFlow = st.nextFlow + 1 ∧ WfSt st') := by
  show (∃ st' evs, stepCr cfg pol st addr c = _ ∧ _) ∨ (∃ st' evs, stepCr cfg pol st addr c = _ ∧ _)
  unfold stepCr
  -- the optional install batch
  obtain ⟨ievs, hi1, hi2, _⟩ := sendInstalls_spec addr cfg.progs st.sendFail []
  simp only [List.nil_append] at hi1
  cases hl : st.flows.lookup addr with
  | none =>
    simp only [Option.isSome_none, Bool.false_eq_true, if_false, Option.getD_none]
    by_cases hok : (sendInstalls addr cfg.progs st.sendFail []).1 = true
    · right
      simp only [hok, Bool.not_true, Bool.false_eq_true, if_false, List.filter_nil, List.append_nil]
      obtain ⟨u, sf', uevs, hr, h1, _⟩ := runUser_spec cfg addr c.sid st.nextFlow
        (pol.newFlow (cfg.pick (c.alg.getD [])) st.nextFlow ⟨c.sid, c.cwnd, c.mss, c.srcIp, c.srcPort, c.dstIp, c.dstPort⟩)
        (hb.newFlow _ _ _) (sendInstalls addr cfg.progs st.sendFail []).2.1
        ((sendInstalls addr cfg.progs st.sendFail []).2.2 ++ dropAll [] ++
          [.newFlow st.nextFlow (cfg.pick (c.alg.getD [])) ⟨c.sid, c.cwnd, c.mss, c.srcIp, c.srcPort, c.dstIp, c.dstPort⟩ c.sid])
      have hd : (dropAll ([] : List (Nat × Flow σ))) = [] := by simp [dropAll]
      rw [hd, List.append_nil] at hr
      simp only [hd, List.append_nil]
      rw [hr]
      refine ⟨_, _, rfl, ?_, ?_, ?_, rfl, ?_⟩
      · rw [hi1]
        simp only [List.filter_append, filter_callback_user h1, List.append_nil]
        have : ievs.filter isCallback = [] := by
          rw [List.filter_eq_nil_iff]
          intro e he; simp [installEv_not_callback (hi2 e he)]
        rw [this]
        have hc : curNo st addr c.sid = none := by simp [curNo, cur, hl]
        rw [hc]; rfl
      · unfold curNo; rw [cur_setAddr]; simp
      · intro a s hne
        unfold curNo
        rw [cur_setAddr]
        by_cases ha : a = addr
        · subst ha
          have hs : s ≠ c.sid := fun e => hne (by rw [e])
          have : (s == c.sid) = false := by simpa using hs
          simp [List.lookup_cons, this, cur, hl]
        · simp [ha]
      · exact WfSt_setAddr hw _ _ (by simp) _ _
    · left
      have hok' : (sendInstalls addr cfg.progs st.sendFail []).1 = false := by simpa using hok
      simp only [hok', Bool.not_false, if_true]
      refine ⟨_, _, rfl, trivial, ?_, ?_⟩
      · rw [hi1, List.filter_eq_nil_iff]
        intro e he; simp [installEv_not_callback (hi2 e he)]
      · intro a s ha
        unfold curNo
        rw [cur_setAddr]
        simp [ha]
  | some fm =>
    right
    simp only [Option.isSome_some, if_true, Option.getD_some, Bool.not_true, Bool.false_eq_true, if_false,
      List.nil_append]
    have hnd := hw.fm_nodup hl
    have hfilt := filter_eq_of_lookup fm c.sid hnd
    obtain ⟨u, sf', uevs, hr, h1, _⟩ := runUser_spec cfg addr c.sid st.nextFlow
      (pol.newFlow (cfg.pick (c.alg.getD [])) st.nextFlow ⟨c.sid, c.cwnd, c.mss, c.srcIp, c.srcPort, c.dstIp, c.dstPort⟩)
      (hb.newFlow _ _ _) st.sendFail
      (dropAll (fm.filter fun p => p.1 = c.sid) ++
        [.newFlow st.nextFlow (cfg.pick (c.alg.getD [])) ⟨c.sid, c.cwnd, c.mss, c.srcIp, c.srcPort, c.dstIp, c.dstPort⟩ c.sid])
    rw [hr]
    refine ⟨_, _, rfl, ?_, ?_, ?_, rfl, ?_⟩
    · simp only [List.filter_append, filter_callback_user h1, List.append_nil]
      have hc : curNo st addr c.sid = (fm.lookup c.sid).map (·.no) := by simp [curNo, cur, hl]
      rw [hc, hfilt]
      cases fm.lookup c.sid with
      | none => simp [dropAll, isCallback]
      | some f => simp [dropAll, isCallback, List.filter_cons]
    · unfold curNo; rw [cur_setAddr]; simp
    · intro a s hne
      unfold curNo
      rw [cur_setAddr]
      by_cases ha : a = addr
      · subst ha
        have hs : s ≠ c.sid := fun e => hne (by rw [e])
        have : (s == c.sid) = false := by simpa using hs
        rw [if_pos rfl, List.lookup_cons]
        simp only [this]
        rw [lookup_filter_ne, if_neg hs]
        simp [cur, hl]
      · simp [ha]
    · apply WfSt_setAddr hw
      simp only [List.map_cons, List.nodup_cons]
      exact ⟨keys_filter_ne fm c.sid, nodup_filter_keys fm _ hnd⟩

/-- **A ready (start or restart) drops only that datapath's flows**, without close callbacks, and
registers the address with no flows; flows of every other address are untouched. -/
theorem ready_drops_only_that_address {σ : Type} (cfg : Cfg) (pol : Policy σ) (st : St σ) (hw : WfSt st)
    (addr : Addr) (id : Nat) :
    ∃ st' evs, (step cfg pol st addr (.rdy id) = .ok (.cont st' evs) ∨
                step cfg pol st addr (.rdy id) = .ok (.fail st' evs)) ∧
      evs.filter isCallback = dropAll ((st.flows.lookup addr).getD []) ∧
      (∀ s, curNo st' addr s = none) ∧ (∀ a s, a ≠ addr → curNo st' a s = curNo st a s) ∧
      st'.nextFlow = st.nextFlow ∧ WfSt st' := by
  obtain ⟨ievs, hi1, hi2, _⟩ := sendInstalls_spec addr cfg.progs st.sendFail (dropAll ((st.flows.lookup addr).getD []))
  have hcb : ((sendInstalls addr cfg.progs st.sendFail (dropAll ((st.flows.lookup addr).getD []))).2.2).filter isCallback
      = dropAll ((st.flows.lookup addr).getD []) := by
    rw [hi1, List.filter_append]
    have : ievs.filter isCallback = [] := by
      rw [List.filter_eq_nil_iff]
      intro e he; simp [installEv_not_callback (hi2 e he)]
    rw [this, List.append_nil, List.filter_eq_self]
    intro e he
    simp only [dropAll, List.mem_map] at he
    obtain ⟨n, _, rfl⟩ := he
    rfl
  have hst : ∀ sf, (∀ s, curNo ({ st with flows := setAddr st.flows addr [], sendFail := sf } : St σ) addr s = none) ∧
      (∀ a s, a ≠ addr → curNo ({ st with flows := setAddr st.flows addr [], sendFail := sf } : St σ) a s = curNo st a s) ∧
      WfSt ({ st with flows := setAddr st.flows addr [], sendFail := sf } : St σ) := by
    intro sf
    refine ⟨?_, ?_, WfSt_setAddr hw addr [] (by simp) _ _⟩
    · intro s; unfold curNo; rw [cur_setAddr]; simp
    · intro a s ha; unfold curNo; rw [cur_setAddr]; simp [ha]
  show ∃ st' evs, (Out.ok (stepRdy cfg st addr) = _ ∨ Out.ok (stepRdy cfg st addr) = _) ∧ _
  unfold stepRdy
  simp only
  by_cases hok : (sendInstalls addr cfg.progs st.sendFail (dropAll ((st.flows.lookup addr).getD []))).1 = true
  · simp only [hok, if_true]
    obtain ⟨h1, h2, h3⟩ := hst (sendInstalls addr cfg.progs st.sendFail (dropAll ((st.flows.lookup addr).getD []))).2.1
    exact ⟨_, _, Or.inl rfl, hcb, h1, h2, rfl, h3⟩
  · simp only [hok, if_false]
    obtain ⟨h1, h2, h3⟩ := hst (sendInstalls addr cfg.progs st.sendFail (dropAll ((st.flows.lookup addr).getD []))).2.1
    exact ⟨_, _, Or.inr rfl, hcb, h1, h2, rfl, h3⟩

/-! ## Non-vacuity: a concrete two-address history on a policy that does nothing -/

def nullPolicy : Policy Unit := { newFlow := fun _ _ _ => .done (), onReport := fun _ _ _ _ => .done (), onClose := fun _ => .done () }
theorem nullPolicy_bounded : nullPolicy.Bounded := ⟨fun _ _ _ => trivial, fun _ _ _ _ => trivial, fun _ => trivial⟩

end Portus.C02
