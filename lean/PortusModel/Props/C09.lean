import PortusModel.Props.C02
/-!
# C09 — datapaths are isolated from each other and replies go to their origin
-/
namespace Portus.C09
open Portus Portus.Wire Portus.Ipc Portus.Rt

/-- **Flows are keyed by (address, flow id).** Whatever message arrives from `addr` — ready, create,
measurement, close, unknown — the flows registered under every *other* address are untouched, even when
flow ids coincide. (With `C02`: it can only create, feed, replace or close the flow registered under
`(addr, its flow id)`, and a restart of `addr` discards only `addr`'s flows.) -/
theorem other_datapaths_untouched {σ : Type} (cfg : Cfg) (pol : Policy σ) (hb : pol.Bounded) (st : St σ)
    (hw : WfSt st) (addr : Addr) (msg : Msg) :
    ∃ r, step cfg pol st addr msg = .ok r ∧ ∀ a s, a ≠ addr → curNo r.st a s = curNo st a s := by
  cases msg with
  | other r => exact ⟨.cont st [], rfl, fun _ _ _ => rfl⟩
  | rdy id =>
    obtain ⟨st', evs, h, _, _, h2, _⟩ := C02.ready_drops_only_that_address cfg pol st hw addr id
    rcases h with h | h
    · exact ⟨.cont st' evs, h, h2⟩
    · exact ⟨.fail st' evs, h, h2⟩
  | cr c =>
    rcases C02.create_one_handler cfg pol hb st hw addr c with ⟨st', evs, h, _, _, h2⟩ | ⟨st', evs, h, _, _, h2, _⟩
    · exact ⟨.fail st' evs, h, h2⟩
    · exact ⟨.cont st' evs, h, fun a s ha => h2 a s (fun e => ha (by injection e))⟩
  | ms m =>
    cases hc : cur st addr m.sid with
    | none => exact ⟨.cont st [], C02.measure_unknown_ignored cfg pol st addr m hc, fun _ _ _ => rfl⟩
    | some f =>
      by_cases hn : m.numFields = 0
      · obtain ⟨st', evs, h, _, _, _, h2, _⟩ := C02.close_once_and_forget cfg pol hb st hw addr m f hc hn
        exact ⟨.cont st' _, h, fun a s ha => h2 a s (fun e => ha (by injection e))⟩
      · obtain ⟨st', evs, h, _, _, h2, _⟩ := C02.report_delivered cfg pol hb st hw addr m f hc hn
        exact ⟨.cont st' _, h, fun a s _ => h2 a s⟩

/-- **Replies go to their origin.** Everything the runtime transmits while handling a message from
`addr` is addressed to `addr`: the install batch, and every command issued through a flow's handle —
at creation (`new_flow`) or at any later time (`on_report`, `close`). A command (change-program or
update-field) carries the flow id of the flow whose handle issued it, which is the flow id of the
message being handled, i.e. the id from that flow's create message. -/
theorem commands_go_home {σ : Type} (cfg : Cfg) (pol : Policy σ) (hb : pol.Bounded) (st : St σ)
    (addr : Addr) (msg : Msg) :
    ∃ r, step cfg pol st addr msg = .ok r ∧
      ∀ e ∈ r.evs,
        (∀ a, e = .txFail a → a = addr) ∧
        (∀ a b, e = .tx a b → a = addr ∧
          ((∃ p ∈ cfg.progs, b = p.install) ∨
           ((rd16 b = 4 ∨ rd16 b = 3) ∧ rd32 (b.drop 4) = msgSid msg % 2^32))) := by
  obtain ⟨r, h, hev⟩ := step_ok cfg pol hb st addr msg
  refine ⟨r, h, ?_⟩
  intro e he
  rcases hev e he with hc | (rfl | ⟨p, hp, rfl⟩) | ⟨flow, hu, _⟩
  · refine ⟨?_, ?_⟩
    · intro a ha; rw [ha] at hc; cases hc
    · intro a b ha; rw [ha] at hc; cases hc
  · refine ⟨?_, ?_⟩
    · intro a ha; injection ha with ha; exact ha.symm
    · intro a b ha; cases ha
  · refine ⟨?_, ?_⟩
    · intro a ha; cases ha
    · intro a b ha
      injection ha with h1 h2
      exact ⟨h1.symm, Or.inl ⟨p, hp, h2.symm⟩⟩
  · rcases hu with rfl | ⟨b, rfl, ht, hs⟩ | ⟨m, rfl⟩
    · refine ⟨?_, ?_⟩
      · intro a ha; injection ha with ha; exact ha.symm
      · intro a b ha; cases ha
    · refine ⟨?_, ?_⟩
      · intro a ha; cases ha
      · intro a b' ha
        injection ha with h1 h2
        subst h2
        exact ⟨h1.symm, Or.inr ⟨ht, hs⟩⟩
    · refine ⟨?_, ?_⟩
      · intro a ha; cases ha
      · intro a b ha; cases ha

end Portus.C09
