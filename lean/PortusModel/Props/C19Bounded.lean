import PortusModel.Props.C19
/-!
# C19 — a NONBLOCKING sender and a bounded receive queue

The kernel queue of a Unix datagram socket is bounded (`net.unix.max_dgram_qlen`). A blocking sender waits for room — the
unbounded model of `Conc/Transport.lean` describes what the receiver sees. A nonblocking sender (`Socket<Nonblocking>`) finds the
queue full and gets `WouldBlock`: `Ipc::send` answers `Err`, and the datagram is NOT queued. This file states what that means for
every schedule and every bound: **what is received, followed by what is queued, is exactly the sequence of datagrams whose send
answered Ok** — a send that could not queue its datagram has to say so, and a datagram whose send said so never arrives.
The correspondence check `XPT late` observes exactly this relation on the real sockets (64 sends at a receiver that drains later).
-/
namespace Portus.C19
open Portus Portus.Conc.Xpt

structure StB where
  queue : List Dgram := []
  trace : List Ev := []
  /-- the datagrams whose `send` answered `Ok` -/
  acked : List Dgram := []
  /-- the datagrams whose `send` answered `Err` (queue full) -/
  refused : List Dgram := []
deriving Repr, DecidableEq, Inhabited

/-- one operation against a receive queue that holds at most `cap` datagrams -/
def stepB (cap : Nat) (s : StB) : Op → StB
  | .send d =>
    if s.queue.length < cap then { s with queue := s.queue ++ [d], acked := s.acked ++ [d] }
    else { s with refused := s.refused ++ [d] }
  | .recv =>
    match s.queue with
    | [] => { s with trace := s.trace ++ [.empty] }
    | d :: q => { s with queue := q, trace := s.trace ++ [.got d] }

def runB (cap : Nat) (s : StB) (ops : List Op) : StB := ops.foldl (stepB cap) s

def drainB (s : StB) : StB := { s with queue := [], trace := s.trace ++ s.queue.map Ev.got }

theorem stepB_inv (cap : Nat) (s : StB) (o : Op) (h : delivered s.trace ++ s.queue = s.acked) :
    delivered (stepB cap s o).trace ++ (stepB cap s o).queue = (stepB cap s o).acked := by
  cases o with
  | send d =>
    by_cases hlt : s.queue.length < cap
    · simp [stepB, hlt, ← h, List.append_assoc]
    · simpa [stepB, hlt] using h
  | recv =>
    cases hq : s.queue with
    | nil => simpa [stepB, hq, delivered_append, delivered] using (by simpa [hq] using h)
    | cons d q => simp [stepB, hq, delivered_append, delivered, ← h, List.append_assoc]

/-- **received ++ queued = acked**, for every schedule and every queue bound -/
theorem bounded_fifo (cap : Nat) (ops : List Op) (s : StB) (h : delivered s.trace ++ s.queue = s.acked) :
    delivered (runB cap s ops).trace ++ (runB cap s ops).queue = (runB cap s ops).acked := by
  induction ops generalizing s with
  | nil => simpa [runB] using h
  | cons o r ih =>
    simp only [runB, List.foldl_cons]
    exact ih _ (stepB_inv cap s o h)

/-- once drained, the receiver has exactly the acknowledged datagrams, in order, each once -/
theorem drained_eq_acked (cap : Nat) (ops : List Op) :
    delivered (drainB (runB cap {} ops)).trace = (runB cap {} ops).acked := by
  have h := bounded_fifo cap ops {} (by simp [delivered])
  simp only [drainB, delivered_append]
  have : delivered ((runB cap {} ops).queue.map Ev.got) = (runB cap {} ops).queue := by
    induction (runB cap {} ops).queue with
    | nil => rfl
    | cons d q ih => simp [delivered, ih]
  rw [this, h]

theorem stepB_counts (cap : Nat) (s : StB) (o : Op) :
    (stepB cap s o).acked.length + (stepB cap s o).refused.length = s.acked.length + s.refused.length + (sentOf [o]).length := by
  cases o with
  | send d => by_cases hlt : s.queue.length < cap <;> simp [stepB, hlt, sentOf] <;> omega
  | recv => cases hq : s.queue <;> simp [stepB, hq, sentOf]

/-- every send is answered: acknowledged or refused, never both, never neither -/
theorem every_send_answered (cap : Nat) (ops : List Op) (s : StB) :
    (runB cap s ops).acked.length + (runB cap s ops).refused.length = s.acked.length + s.refused.length + (sentOf ops).length := by
  induction ops generalizing s with
  | nil => simp [runB, sentOf]
  | cons o r ih =>
    simp only [runB, List.foldl_cons]
    have := ih (stepB cap s o)
    simp only [runB] at this
    rw [this, stepB_counts]
    cases o <;> simp [sentOf] <;> omega

/-- the queue never holds more than its bound -/
theorem queue_bounded (cap : Nat) (ops : List Op) (s : StB) (h : s.queue.length ≤ cap) : (runB cap s ops).queue.length ≤ cap := by
  induction ops generalizing s with
  | nil => simpa [runB] using h
  | cons o r ih =>
    simp only [runB, List.foldl_cons]
    apply ih
    cases o with
    | send d => by_cases hlt : s.queue.length < cap <;> simp [stepB, hlt] <;> omega
    | recv =>
      cases hq : s.queue with
      | nil => simp [stepB, hq]
      | cons d q => rw [hq] at h; simp at h; simp [stepB, hq]; omega

/-- with room for everything the bounded transport IS the unbounded one (nothing refused) -/
theorem no_refusal_with_room (cap : Nat) (ops : List Op) (s : StB) (h : s.queue.length + (sentOf ops).length ≤ cap)
    (hr : s.refused = []) : (runB cap s ops).refused = [] := by
  induction ops generalizing s with
  | nil => simpa [runB] using hr
  | cons o r ih =>
    simp only [runB, List.foldl_cons]
    cases o with
    | send d =>
      simp only [sentOf, List.length_cons] at h
      have hlt : s.queue.length < cap := by omega
      apply ih
      · simp only [stepB, if_pos hlt, List.length_append, List.length_cons, List.length_nil]; omega
      · simp only [stepB, if_pos hlt]; exact hr
    | recv =>
      simp only [sentOf] at h
      apply ih
      · cases hq : s.queue with
        | nil => simp [stepB, hq]; rw [hq] at h; simpa using h
        | cons d q => simp [stepB, hq]; rw [hq] at h; simp at h; omega
      · cases hq : s.queue <;> simp [stepB, hq, hr]

-- a concrete, non-trivial run: bound 2, three sends (the third refused), a receive, a fourth send (accepted)
example :
    let d (k : Nat) : Dgram := ⟨0, k, [k]⟩
    let s := runB 2 {} [.send (d 0), .send (d 1), .send (d 2), .recv, .send (d 3)]
    s.acked = [d 0, d 1, d 3] ∧ s.refused = [d 2] ∧ delivered (drainB s).trace = [d 0, d 1, d 3] := by decide

end Portus.C19
