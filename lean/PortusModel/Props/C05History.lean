import PortusModel.Props.C05
/-!
# C05 over whole histories — a datapath is always sent a program before being told to use it

`Props/C05` proves what one step does. This file closes the gap to the property itself: for every
configuration, bounded policy, send-failure script and input history, every change-program command the
runtime transmits to an address names the uid of a program whose install message it transmitted to that
address earlier, with no ready from that address in between.

* `runHistSf` / `runHist`: the dispatch loop over an input history — `step` per input, on with the new
  state after `.cont`, stop after `.fail`, exactly as `loopStep`/`runLoop` do (the backend's decoding is
  abstracted into the list of `(address, message)` pairs it yields; `runHistSf` also lets the send-failure
  budget be reset before any message, as `applySf` does for the `Rx.sf` script items).
* `installedOk`: an executable scan of the observed history (the acceptor).
* `install_before_use` (`_sf`): the scan accepts every run from the initial state.
* `InstallBeforeUse` and `installedOk_sound`: the property stated on the flattened history with no scan
  state, and the proof that the scan implies it; `install_before_use_trace` (`_sf`, `_typed`) is the
  property in that form.

The proof carries the invariant `Inv`: *every registered address has the complete batch in its list*.
It is preserved by every step that keeps the runtime serving (`step_scan`), using `step_ok` for the
classification of a step's events and three facts about their order and about the state that the
per-step theorems of `Props/C05` do not expose (`step_frame`, `rdy_shape`, `cr_unreg_shape`).
-/
namespace Portus.C05
open Portus Portus.Lang Portus.Wire Portus.Ipc Portus.Rt

/-! ## The run over an input history -/

/-- The dispatch loop over an input history. One input is the script items `recv` passed over before it
delivered the datagram (only their last `Rx.sf k`, which resets the send-failure budget, matters:
`applySf`), the source address and the decoded message. The output records, per handled input, what the
runtime emitted. As in `loopStep`: after `.cont` the loop goes on with the new state; after `.fail` (a
failed install send, `run_inner` returns `Err`) nothing more is handled; a panic or model error of the
step (excluded for bounded user code, `runHistSf_cons`) would end the run without a record. -/
def runHistSf {σ : Type} (cfg : Cfg) (pol : Policy σ) :
    St σ → List (List Rx × Addr × Msg) → List (Addr × Msg × List Ev)
  | _, [] => []
  | st, (passed, addr, msg) :: rest =>
    match step cfg pol (applySf st passed) addr msg with
    | .ok (.cont st' evs) => (addr, msg, evs) :: runHistSf cfg pol st' rest
    | .ok (.fail _ evs) => [(addr, msg, evs)]
    | _ => []

/-- the run with a send-failure budget fixed at the start (no `Rx.sf` between messages) -/
def runHist {σ : Type} (cfg : Cfg) (pol : Policy σ) (st : St σ) (hist : List (Addr × Msg)) :
    List (Addr × Msg × List Ev) :=
  runHistSf cfg pol st (hist.map fun x => ([], x.1, x.2))

/-! ## The trace predicate -/

/-- scan state: the pairs `(a, b)` such that install message `b` has been transmitted to `a` since the
last ready received from `a` -/
abbrev Sent := List (Addr × Bytes)

/-- `b` is one of the configured install messages -/
def isInstall (cfg : Cfg) (b : Bytes) : Bool := cfg.progs.any fun p => p.install == b

/-- the change-program `b` to `a` is justified: it names the uid (as the 32-bit field at offset 8) of a
configured program whose install message is in `a`'s list -/
def usable (cfg : Cfg) (s : Sent) (a : Addr) (b : Bytes) : Bool :=
  cfg.progs.any fun p => decide ((a, p.install) ∈ s) && (rd32 (b.drop 8) == p.scope.uid % 2^32)

/-- one event: an install transmission is recorded; any other transmission of type 4 (change-program;
`install_before_use_partial` draws the same line) must be justified; nothing else matters. `none` is a
violation. -/
def scanEv (cfg : Cfg) (s : Sent) : Ev → Option Sent
  | .tx a b =>
    if isInstall cfg b then some ((a, b) :: s)
    else if rd16 b = 4 then (if usable cfg s a b then some s else none)
    else some s
  | _ => some s

/-- the events of one step, in order -/
def scanEvs (cfg : Cfg) : Sent → List Ev → Option Sent
  | s, [] => some s
  | s, e :: es => (scanEv cfg s e).bind fun s' => scanEvs cfg s' es

/-- reception of a message: a ready from `a` empties `a`'s list (before that step's events are scanned) -/
def onMsg (s : Sent) (a : Addr) : Msg → Sent
  | .rdy _ => s.filter fun q => q.1 != a
  | _ => s

/-- the steps, in order -/
def scanSteps (cfg : Cfg) : Sent → List (Addr × Msg × List Ev) → Option Sent
  | s, [] => some s
  | s, (a, m, evs) :: rest => (scanEvs cfg (onMsg s a m) evs).bind fun s' => scanSteps cfg s' rest

/-- the acceptor: starting with nothing installed anywhere, no violation -/
def installedOk (cfg : Cfg) (tr : List (Addr × Msg × List Ev)) : Bool := (scanSteps cfg [] tr).isSome

/-! ## Facts about the scan -/

theorem isInstall_of_mem {cfg : Cfg} {p : ProgInfo} (hp : p ∈ cfg.progs) : isInstall cfg p.install = true := by
  simp only [isInstall, List.any_eq_true]
  exact ⟨p, hp, by simp⟩

theorem scanEv_mono {cfg : Cfg} {s s' : Sent} {e : Ev} (h : scanEv cfg s e = some s') : ∀ q ∈ s, q ∈ s' := by
  intro q hq
  cases e with
  | tx a b =>
    simp only [scanEv] at h
    split at h
    · injection h with h; subst h; exact List.mem_cons_of_mem _ hq
    · split at h
      · split at h
        · injection h with h; subst h; exact hq
        · cases h
      · injection h with h; subst h; exact hq
  | _ => simp only [scanEv] at h; injection h with h; subst h; exact hq

theorem scanEvs_mono {cfg : Cfg} {evs : List Ev} {s s' : Sent} (h : scanEvs cfg s evs = some s') :
    ∀ q ∈ s, q ∈ s' := by
  induction evs generalizing s with
  | nil => simp only [scanEvs] at h; injection h with h; subst h; exact fun _ h => h
  | cons e es ih =>
    simp only [scanEvs] at h
    cases h1 : scanEv cfg s e with
    | none => simp [h1] at h
    | some s1 =>
      simp only [h1, Option.bind_some] at h
      intro q hq
      exact ih h q (scanEv_mono h1 q hq)

/-- a successful scan has recorded every install transmission it passed -/
theorem scanEvs_records {cfg : Cfg} {evs : List Ev} {s s' : Sent} (h : scanEvs cfg s evs = some s')
    {a : Addr} {p : ProgInfo} (hp : p ∈ cfg.progs) (hmem : Ev.tx a p.install ∈ evs) : (a, p.install) ∈ s' := by
  induction evs generalizing s with
  | nil => cases hmem
  | cons e es ih =>
    simp only [scanEvs] at h
    cases h1 : scanEv cfg s e with
    | none => simp [h1] at h
    | some s1 =>
      simp only [h1, Option.bind_some] at h
      simp only [List.mem_cons] at hmem
      rcases hmem with rfl | hmem
      · simp only [scanEv, isInstall_of_mem hp, if_true] at h1
        injection h1 with h1; subst h1
        exact scanEvs_mono h _ (List.mem_cons_self ..)
      · exact ih h hmem

theorem scanEvs_append (cfg : Cfg) (s : Sent) (xs ys : List Ev) :
    scanEvs cfg s (xs ++ ys) = (scanEvs cfg s xs).bind fun s' => scanEvs cfg s' ys := by
  induction xs generalizing s with
  | nil => rfl
  | cons e es ih =>
    simp only [List.cons_append, scanEvs]
    cases scanEv cfg s e with
    | none => rfl
    | some s1 => simp only [Option.bind_some, ih]

/-! ## Which events the scan accepts -/

/-- `a`'s list holds the complete batch -/
def Full (cfg : Cfg) (s : Sent) (a : Addr) : Prop := ∀ p ∈ cfg.progs, (a, p.install) ∈ s

/-- callbacks, failed sends and install transmissions are accepted in every scan state -/
theorem scanEv_pre {cfg : Cfg} {addr : Addr} {e : Ev} (s : Sent)
    (h : isCallback e = true ∨ (e = .txFail addr ∨ ∃ p ∈ cfg.progs, e = .tx addr p.install)) :
    ∃ s', scanEv cfg s e = some s' := by
  rcases h with h | rfl | ⟨p, hp, rfl⟩
  · cases e <;> first | exact ⟨_, rfl⟩ | cases h
  · exact ⟨_, rfl⟩
  · refine ⟨(addr, p.install) :: s, ?_⟩
    simp only [scanEv, isInstall_of_mem hp, if_true]

/-- everything a step can emit is accepted once the sender's list holds the complete batch -/
theorem scanEv_step {cfg : Cfg} {addr sid : Nat} {e : Ev} (s : Sent) (hfull : Full cfg s addr)
    (h : StepEv cfg addr sid e) : ∃ s', scanEv cfg s e = some s' := by
  rcases h with h | h | ⟨flow, hu, huid⟩
  · exact scanEv_pre (addr := addr) s (Or.inl h)
  · exact scanEv_pre s (Or.inr h)
  · rcases hu with rfl | ⟨b, rfl, _, _⟩ | ⟨m, rfl⟩
    · exact ⟨_, rfl⟩
    · simp only [scanEv]
      split
      · exact ⟨_, rfl⟩
      · split
        · rename_i h4
          obtain ⟨p, hp, hu⟩ := huid addr b rfl h4
          have : usable cfg s addr b = true := by
            simp only [usable, List.any_eq_true]
            exact ⟨p, hp, by simp [hfull p hp, hu]⟩
          simp only [this, if_true]
          exact ⟨_, rfl⟩
        · exact ⟨_, rfl⟩
    · exact ⟨_, rfl⟩

theorem scanEvs_pre {cfg : Cfg} {addr : Addr} {evs : List Ev} (s : Sent)
    (h : ∀ e ∈ evs, isCallback e = true ∨ (e = .txFail addr ∨ ∃ p ∈ cfg.progs, e = .tx addr p.install)) :
    ∃ s', scanEvs cfg s evs = some s' := by
  induction evs generalizing s with
  | nil => exact ⟨s, rfl⟩
  | cons e es ih =>
    obtain ⟨s1, h1⟩ := scanEv_pre s (h e (List.mem_cons_self ..))
    obtain ⟨s2, h2⟩ := ih s1 (fun x hx => h x (List.mem_cons_of_mem _ hx))
    exact ⟨s2, by simp only [scanEvs, h1, Option.bind_some, h2]⟩

theorem scanEvs_step {cfg : Cfg} {addr sid : Nat} {evs : List Ev} (s : Sent) (hfull : Full cfg s addr)
    (h : ∀ e ∈ evs, StepEv cfg addr sid e) : ∃ s', scanEvs cfg s evs = some s' := by
  induction evs generalizing s with
  | nil => exact ⟨s, rfl⟩
  | cons e es ih =>
    obtain ⟨s1, h1⟩ := scanEv_step s hfull (h e (List.mem_cons_self ..))
    obtain ⟨s2, h2⟩ := ih s1 (fun p hp => scanEv_mono h1 _ (hfull p hp))
      (fun x hx => h x (List.mem_cons_of_mem _ hx))
    exact ⟨s2, by simp only [scanEvs, h1, Option.bind_some, h2]⟩

/-! ## The shape of one step (what the per-step theorems of `Props/C05` leave open) -/

/-- a step only touches the registration of the sender's address -/
theorem step_frame {σ : Type} (cfg : Cfg) (pol : Policy σ) (hb : pol.Bounded) (st : St σ)
    (addr : Addr) (msg : Msg) :
    ∃ r, step cfg pol st addr msg = .ok r ∧ ∀ a, a ≠ addr → r.st.flows.lookup a = st.flows.lookup a := by
  obtain ⟨r, h, _⟩ := step_ok cfg pol hb st addr msg
  refine ⟨r, h, ?_⟩
  intro a ha
  cases msg with
  | other x => injection h with h; subst h; rfl
  | rdy id =>
    injection h with h; subst h
    unfold stepRdy
    simp only
    split <;> simp only [StepRes.st, lookup_setAddr, if_neg ha]
  | ms m =>
    have hstep : stepMs cfg pol st addr m = .ok r := h
    unfold stepMs at hstep
    cases hl : st.flows.lookup addr with
    | none => simp [hl] at hstep; subst hstep; rfl
    | some fm =>
      simp only [hl] at hstep
      cases hf : fm.lookup m.sid with
      | none => simp [hf] at hstep; subst hstep; rfl
      | some f =>
        simp only [hf] at hstep
        split at hstep
        · split at hstep <;> (try cases hstep)
          simp only [StepRes.st, lookup_setAddr, if_neg ha]
        · split at hstep <;> (try cases hstep)
          simp only [StepRes.st, lookup_setAddr, if_neg ha]
  | cr c =>
    have hstep : stepCr cfg pol st addr c = .ok r := h
    unfold stepCr at hstep
    simp only at hstep
    generalize (if (st.flows.lookup addr).isSome = true then ((true, st.sendFail, []) : Bool × Nat × List Ev)
        else sendInstalls addr cfg.progs st.sendFail []) = q at hstep
    by_cases hok : q.1 = true
    · simp only [hok, Bool.not_true, Bool.false_eq_true, if_false] at hstep
      split at hstep <;> (try cases hstep)
      simp only [StepRes.st, lookup_setAddr, if_neg ha]
    · have hok' : q.1 = false := by simpa using hok
      simp only [hok', Bool.not_false, if_true] at hstep
      injection hstep with hstep
      subst hstep
      simp only [StepRes.st, lookup_setAddr, if_neg ha]

/-- a ready: drops, then install sends only (the whole batch when the step does not fail) -/
theorem rdy_shape {σ : Type} (cfg : Cfg) (pol : Policy σ) (st : St σ) (addr : Addr) (id : Nat) :
    ∃ r ievs, step cfg pol st addr (.rdy id) = .ok r ∧
      r.evs = dropAll ((st.flows.lookup addr).getD []) ++ ievs ∧
      (∀ e ∈ ievs, e = .txFail addr ∨ ∃ p ∈ cfg.progs, e = .tx addr p.install) ∧
      (∀ st' evs, r = .cont st' evs → ievs = batch cfg addr) := by
  obtain ⟨ievs, hi1, hi2, hi3⟩ := sendInstalls_spec addr cfg.progs st.sendFail (dropAll ((st.flows.lookup addr).getD []))
  refine ⟨stepRdy cfg st addr, ievs, rfl, ?_, hi2, ?_⟩
  · unfold stepRdy
    simp only
    split <;> exact hi1
  · intro st' evs h
    unfold stepRdy at h
    simp only at h
    split at h
    · rename_i hok; exact hi3 hok
    · cases h

/-- a create from an unregistered address: the whole batch first, then callbacks and user commands;
or a failed step with install sends only -/
theorem cr_unreg_shape {σ : Type} (cfg : Cfg) (pol : Policy σ) (hb : pol.Bounded)
    (st : St σ) (addr : Addr) (c : Create) (hun : st.flows.lookup addr = none) :
    (∃ st' rest, step cfg pol st addr (.cr c) = .ok (.cont st' (batch cfg addr ++ rest)) ∧
        ∀ e ∈ rest, StepEv cfg addr c.sid e) ∨
    (∃ st' evs, step cfg pol st addr (.cr c) = .ok (.fail st' evs) ∧
        ∀ e ∈ evs, e = .txFail addr ∨ ∃ p ∈ cfg.progs, e = .tx addr p.install) := by
  show (∃ st' rest, stepCr cfg pol st addr c = _ ∧ _) ∨ (∃ st' evs, stepCr cfg pol st addr c = _ ∧ _)
  unfold stepCr
  obtain ⟨ievs, hi1, hi2, hi3⟩ := sendInstalls_spec addr cfg.progs st.sendFail []
  simp only [List.nil_append] at hi1
  simp only [hun, Option.isSome_none, Bool.false_eq_true, if_false, Option.getD_none]
  by_cases hok : (sendInstalls addr cfg.progs st.sendFail []).1 = true
  · left
    simp only [hok, Bool.not_true, Bool.false_eq_true, if_false, List.filter_nil]
    have hd : (dropAll ([] : List (Nat × Flow σ))) = [] := by simp [dropAll]
    simp only [hd, List.append_nil]
    obtain ⟨u, sf', uevs, hr, h1, h2⟩ := runUser_spec cfg addr c.sid st.nextFlow
      (pol.newFlow (cfg.pick (c.alg.getD [])) st.nextFlow ⟨c.sid, c.cwnd, c.mss, c.srcIp, c.srcPort, c.dstIp, c.dstPort⟩)
      (hb.newFlow _ _ _) (sendInstalls addr cfg.progs st.sendFail []).2.1
      ((sendInstalls addr cfg.progs st.sendFail []).2.2 ++
        [.newFlow st.nextFlow (cfg.pick (c.alg.getD [])) ⟨c.sid, c.cwnd, c.mss, c.srcIp, c.srcPort, c.dstIp, c.dstPort⟩ c.sid])
    rw [hr]
    refine ⟨_, Ev.newFlow st.nextFlow (cfg.pick (c.alg.getD [])) ⟨c.sid, c.cwnd, c.mss, c.srcIp, c.srcPort, c.dstIp, c.dstPort⟩ c.sid :: uevs,
      by rw [hi1, hi3 hok, List.append_assoc]; rfl, ?_⟩
    intro e he
    simp only [List.mem_cons] at he
    rcases he with rfl | he
    · exact Or.inl rfl
    · exact Or.inr (Or.inr ⟨st.nextFlow, h1 e he, h2 e he⟩)
  · right
    have hok' : (sendInstalls addr cfg.progs st.sendFail []).1 = false := by simpa using hok
    simp only [hok', Bool.not_false, if_true]
    exact ⟨_, _, rfl, by rw [hi1]; exact hi2⟩

/-! ## The invariant and its preservation -/

/-- every registered address has the complete batch in its list -/
def Inv {σ : Type} (cfg : Cfg) (st : St σ) (s : Sent) : Prop := ∀ a, registered st a → Full cfg s a

theorem Inv_applySf {σ : Type} {cfg : Cfg} {st : St σ} {s : Sent} (passed : List Rx) (h : Inv cfg st s) :
    Inv cfg (applySf st passed) s := by
  unfold applySf
  split
  · exact h
  · exact h

/-- **One step, against the scan.** From a state and a scan state related by the invariant, the events
of the step are accepted by the scan (after the reset a ready causes), and if the runtime keeps serving
the invariant holds again. -/
theorem step_scan {σ : Type} (cfg : Cfg) (pol : Policy σ) (hb : pol.Bounded) (st : St σ)
    (addr : Addr) (msg : Msg) (s : Sent) (hinv : Inv cfg st s) :
    ∃ r, step cfg pol st addr msg = .ok r ∧
      ∃ s', scanEvs cfg (onMsg s addr msg) r.evs = some s' ∧ (∀ st' evs, r = .cont st' evs → Inv cfg st' s') := by
  obtain ⟨r, hr, hframe⟩ := step_frame cfg pol hb st addr msg
  refine ⟨r, hr, ?_⟩
  -- the other addresses: untouched by the step, and their lists survive `onMsg`
  have hother : ∀ s' : Sent, (∀ q ∈ onMsg s addr msg, q ∈ s') → ∀ a, a ≠ addr → registered r.st a → Full cfg s' a := by
    intro s' hsub a ha hreg p hp
    have hra : registered st a := by
      unfold registered at hreg ⊢
      rw [← hframe a ha]
      exact hreg
    have hm := hinv a hra p hp
    apply hsub
    cases msg with
    | rdy id =>
      simp only [onMsg, List.mem_filter]
      exact ⟨hm, by simpa using ha⟩
    | cr c => exact hm
    | ms m => exact hm
    | other x => exact hm
  by_cases hreg : registered st addr ∧ ∀ id, msg ≠ .rdy id
  · -- the sender is registered and this is no ready: its list is complete, everything is accepted
    obtain ⟨r2, hr2, hev⟩ := step_ok cfg pol hb st addr msg
    have hrr : r2 = r := by
      rw [hr] at hr2
      injection hr2 with h
      exact h.symm
    subst hrr
    have hon : onMsg s addr msg = s := by
      cases msg with
      | rdy id => exact absurd rfl (hreg.2 id)
      | cr c => rfl
      | ms m => rfl
      | other x => rfl
    rw [hon] at hother ⊢
    obtain ⟨s', hs'⟩ := scanEvs_step s (hinv addr hreg.1) hev
    refine ⟨s', hs', ?_⟩
    intro st' evs he a ha
    by_cases haa : a = addr
    · subst haa
      intro p hp
      exact scanEvs_mono hs' _ (hinv a hreg.1 p hp)
    · refine hother s' (scanEvs_mono hs') a haa ?_
      rw [he]
      exact ha
  · cases msg with
    | other x =>
      have : r = .cont st [] := by
        have h : Out.ok (StepRes.cont st []) = Out.ok r := hr
        injection h with h
        exact h.symm
      subst this
      refine ⟨s, rfl, ?_⟩
      intro st' evs he
      injection he with h1 _
      subst h1
      exact hinv
    | ms m =>
      have hl : st.flows.lookup addr = none := by
        cases hl : st.flows.lookup addr with
        | none => rfl
        | some fm =>
          exfalso
          apply hreg
          refine ⟨?_, fun id h => by cases h⟩
          unfold registered
          rw [hl]
          rfl
      have : r = .cont st [] := by
        have h : stepMs cfg pol st addr m = .ok r := hr
        unfold stepMs at h
        rw [hl] at h
        injection h with h
        exact h.symm
      subst this
      refine ⟨s, rfl, ?_⟩
      intro st' evs he
      injection he with h1 _
      subst h1
      exact hinv
    | rdy id =>
      obtain ⟨r2, ievs, hr2, hevs, hi, hb2⟩ := rdy_shape cfg pol st addr id
      have hrr : r2 = r := by
        rw [hr] at hr2
        injection hr2 with h
        exact h.symm
      subst hrr
      have hacc : ∀ e ∈ r2.evs, isCallback e = true ∨ (e = .txFail addr ∨ ∃ p ∈ cfg.progs, e = .tx addr p.install) := by
        rw [hevs]
        intro e he
        simp only [List.mem_append] at he
        rcases he with he | he
        · simp only [dropAll, List.mem_map] at he
          obtain ⟨n, _, rfl⟩ := he
          exact Or.inl rfl
        · exact Or.inr (hi e he)
      obtain ⟨s', hs'⟩ := scanEvs_pre (onMsg s addr (.rdy id)) hacc
      refine ⟨s', hs', ?_⟩
      intro st' evs he a ha
      by_cases haa : a = addr
      · subst haa
        intro p hp
        refine scanEvs_records hs' hp ?_
        rw [hevs, hb2 st' evs he]
        simp only [List.mem_append, batch, List.mem_map]
        exact Or.inr ⟨p, hp, rfl⟩
      · refine hother s' (scanEvs_mono hs') a haa ?_
        rw [he]
        exact ha
    | cr c =>
      have hl : st.flows.lookup addr = none := by
        cases hl : st.flows.lookup addr with
        | none => rfl
        | some fm =>
          exfalso
          apply hreg
          refine ⟨?_, fun id h => by cases h⟩
          unfold registered
          rw [hl]
          rfl
      rcases cr_unreg_shape cfg pol hb st addr c hl with ⟨st2, rest, hr2, hrest⟩ | ⟨st2, evs2, hr2, hi⟩
      · have hrr : r = .cont st2 (batch cfg addr ++ rest) := by
          rw [hr] at hr2
          injection hr2 with h
        subst hrr
        have hon : onMsg s addr (.cr c) = s := rfl
        rw [hon] at hother ⊢
        -- the batch first
        obtain ⟨s1, hs1⟩ := scanEvs_pre (cfg := cfg) (addr := addr) (evs := batch cfg addr) s (by
          intro e he
          simp only [batch, List.mem_map] at he
          obtain ⟨p, hp, rfl⟩ := he
          exact Or.inr (Or.inr ⟨p, hp, rfl⟩))
        have hfull1 : Full cfg s1 addr := by
          intro p hp
          refine scanEvs_records hs1 hp ?_
          simp only [batch, List.mem_map]
          exact ⟨p, hp, rfl⟩
        -- then the handler
        obtain ⟨s', hs'⟩ := scanEvs_step s1 hfull1 hrest
        refine ⟨s', by simp only [StepRes.evs, scanEvs_append, hs1, Option.bind_some, hs'], ?_⟩
        intro st' evs he a ha
        by_cases haa : a = addr
        · subst haa
          intro p hp
          exact scanEvs_mono hs' _ (hfull1 p hp)
        · refine hother s' (fun q hq => scanEvs_mono hs' _ (scanEvs_mono hs1 _ hq)) a haa ?_
          rw [he]
          exact ha
      · have hrr : r = .fail st2 evs2 := by
          rw [hr] at hr2
          injection hr2 with h
        subst hrr
        obtain ⟨s', hs'⟩ := scanEvs_pre (onMsg s addr (.cr c)) (fun e he => Or.inr (hi e he))
        refine ⟨s', hs', ?_⟩
        intro st' evs he
        cases he

/-! ## Histories -/

/-- the scan accepts every run that starts from related states -/
theorem scan_runHistSf {σ : Type} (cfg : Cfg) (pol : Policy σ) (hb : pol.Bounded)
    (hist : List (List Rx × Addr × Msg)) (st : St σ) (s : Sent) (hinv : Inv cfg st s) :
    ∃ s', scanSteps cfg s (runHistSf cfg pol st hist) = some s' := by
  induction hist generalizing st s with
  | nil => exact ⟨s, rfl⟩
  | cons x rest ih =>
    obtain ⟨passed, addr, msg⟩ := x
    obtain ⟨r, hr, s1, hs1, hinv1⟩ := step_scan cfg pol hb (applySf st passed) addr msg s (Inv_applySf passed hinv)
    simp only [runHistSf, hr]
    cases r with
    | cont st' evs =>
      simp only [scanSteps]
      simp only [StepRes.evs] at hs1
      simp only [hs1, Option.bind_some]
      exact ih st' s1 (hinv1 st' evs rfl)
    | fail st' evs =>
      simp only [scanSteps]
      simp only [StepRes.evs] at hs1
      simp only [hs1, Option.bind_some]
      exact ⟨_, rfl⟩

theorem Inv_init {σ : Type} (cfg : Cfg) (sf : Nat) : Inv cfg ({ (St.init : St σ) with sendFail := sf }) [] := by
  intro a ha
  simp [registered, St.init] at ha

/-- **Install before use, for every history** (with the send-failure budget reset at will between
messages, as `loopStep`/`applySf` allow). -/
theorem install_before_use_sf {σ : Type} (cfg : Cfg) (pol : Policy σ) (hb : pol.Bounded) (sf : Nat)
    (hist : List (List Rx × Addr × Msg)) :
    installedOk cfg (runHistSf cfg pol { (St.init : St σ) with sendFail := sf } hist) = true := by
  obtain ⟨s', h⟩ := scan_runHistSf cfg pol hb hist _ [] (Inv_init cfg sf)
  simp only [installedOk, h, Option.isSome_some]

/-- **Install before use, for every history.** -/
theorem install_before_use {σ : Type} (cfg : Cfg) (pol : Policy σ) (hb : pol.Bounded) (sf : Nat)
    (hist : List (Addr × Msg)) :
    installedOk cfg (runHist cfg pol { (St.init : St σ) with sendFail := sf } hist) = true :=
  install_before_use_sf cfg pol hb sf _

/-! ## What the scan means: the statement without any scan state

The observed history is flattened into one sequence of items, receptions and emitted events in the
order in which they happen. -/

inductive Item where
  /-- the loop took `msg`, sent by `src`, from the backend -/
  | recv (src : Addr) (msg : Msg)
  /-- the runtime emitted `e` -/
  | ev (e : Ev)
deriving Repr, DecidableEq

def flat : List (Addr × Msg × List Ev) → List Item
  | [] => []
  | (a, m, evs) :: rest => .recv a m :: (evs.map .ev ++ flat rest)

/-- `b` was transmitted to `a` in `pre`, and `a` has not announced itself (ready) since -/
def SentSince (pre : List Item) (a : Addr) (b : Bytes) : Prop :=
  ∃ pre1 pre2, pre = pre1 ++ .ev (.tx a b) :: pre2 ∧ ∀ id, Item.recv a (.rdy id) ∉ pre2

/-- **The property C05 on a flattened history**: every change-program transmission (type 4, not one of
the install messages) to `a` names the uid of a configured program whose install message was transmitted
to `a` earlier, with no ready from `a` in between. -/
def InstallBeforeUse (cfg : Cfg) (items : List Item) : Prop :=
  ∀ pre a b post, items = pre ++ .ev (.tx a b) :: post → rd16 b = 4 → (∀ p ∈ cfg.progs, b ≠ p.install) →
    ∃ p ∈ cfg.progs, rd32 (b.drop 8) = p.scope.uid % 2^32 ∧ SentSince pre a p.install

def scanItem (cfg : Cfg) (s : Sent) : Item → Option Sent
  | .recv a m => some (onMsg s a m)
  | .ev e => scanEv cfg s e

def scanItems (cfg : Cfg) : Sent → List Item → Option Sent
  | s, [] => some s
  | s, x :: xs => (scanItem cfg s x).bind fun s' => scanItems cfg s' xs

theorem scanItems_append (cfg : Cfg) (s : Sent) (xs ys : List Item) :
    scanItems cfg s (xs ++ ys) = (scanItems cfg s xs).bind fun s' => scanItems cfg s' ys := by
  induction xs generalizing s with
  | nil => rfl
  | cons e es ih =>
    simp only [List.cons_append, scanItems]
    cases scanItem cfg s e with
    | none => rfl
    | some s1 => simp only [Option.bind_some, ih]

theorem scanItems_map_ev (cfg : Cfg) (s : Sent) (evs : List Ev) :
    scanItems cfg s (evs.map .ev) = scanEvs cfg s evs := by
  induction evs generalizing s with
  | nil => rfl
  | cons e es ih =>
    simp only [List.map_cons, scanItems, scanEvs, scanItem]
    cases scanEv cfg s e with
    | none => rfl
    | some s1 => simp only [Option.bind_some, ih]

theorem scanSteps_eq_flat (cfg : Cfg) (s : Sent) (tr : List (Addr × Msg × List Ev)) :
    scanSteps cfg s tr = scanItems cfg s (flat tr) := by
  induction tr generalizing s with
  | nil => rfl
  | cons x rest ih =>
    obtain ⟨a, m, evs⟩ := x
    simp only [scanSteps, flat, scanItems, scanItem, Option.bind_some, scanItems_append, scanItems_map_ev]
    cases scanEvs cfg (onMsg s a m) evs with
    | none => rfl
    | some s1 => simp only [Option.bind_some, ih]

/-- the scan only ever adds the pair of the transmission it is looking at -/
theorem scanEv_new {cfg : Cfg} {s s' : Sent} {e : Ev} (h : scanEv cfg s e = some s') {a : Addr} {b : Bytes}
    (hm : (a, b) ∈ s') : (a, b) ∈ s ∨ e = .tx a b := by
  cases e with
  | tx a' b' =>
    simp only [scanEv] at h
    split at h
    · injection h with h; subst h
      simp only [List.mem_cons] at hm
      rcases hm with hm | hm
      · injection hm with h1 h2; subst h1; subst h2; exact Or.inr rfl
      · exact Or.inl hm
    · split at h
      · split at h
        · injection h with h; subst h; exact Or.inl hm
        · cases h
      · injection h with h; subst h; exact Or.inl hm
  | _ => simp only [scanEv] at h; injection h with h; subst h; exact Or.inl hm

/-- what membership in the scan state means -/
theorem scanItems_state {cfg : Cfg} {pre : List Item} {s0 s : Sent} (h : scanItems cfg s0 pre = some s)
    {a : Addr} {b : Bytes} (hm : (a, b) ∈ s) :
    ((a, b) ∈ s0 ∧ ∀ id, Item.recv a (.rdy id) ∉ pre) ∨ SentSince pre a b := by
  induction pre generalizing s0 with
  | nil =>
    simp only [scanItems] at h
    injection h with h; subst h
    exact Or.inl ⟨hm, fun _ h => by cases h⟩
  | cons x xs ih =>
    simp only [scanItems] at h
    cases h1 : scanItem cfg s0 x with
    | none => simp [h1] at h
    | some s1 =>
      simp only [h1, Option.bind_some] at h
      rcases ih h with ⟨hm1, hno⟩ | ⟨pre1, pre2, he, hno⟩
      · cases x with
        | recv a' m =>
          simp only [scanItem] at h1
          injection h1 with h1; subst h1
          cases m with
          | rdy id' =>
            simp only [onMsg, List.mem_filter] at hm1
            obtain ⟨hm0, hne⟩ := hm1
            have hne' : a ≠ a' := by simpa using hne
            refine Or.inl ⟨hm0, ?_⟩
            intro id hmem
            simp only [List.mem_cons] at hmem
            rcases hmem with hmem | hmem
            · injection hmem with e1 _
              exact hne' e1
            · exact hno id hmem
          | cr c =>
            refine Or.inl ⟨hm1, ?_⟩
            intro id hmem
            simp only [List.mem_cons] at hmem
            rcases hmem with hmem | hmem
            · injection hmem with _ e2; cases e2
            · exact hno id hmem
          | ms c =>
            refine Or.inl ⟨hm1, ?_⟩
            intro id hmem
            simp only [List.mem_cons] at hmem
            rcases hmem with hmem | hmem
            · injection hmem with _ e2; cases e2
            · exact hno id hmem
          | other c =>
            refine Or.inl ⟨hm1, ?_⟩
            intro id hmem
            simp only [List.mem_cons] at hmem
            rcases hmem with hmem | hmem
            · injection hmem with _ e2; cases e2
            · exact hno id hmem
        | ev e =>
          simp only [scanItem] at h1
          rcases scanEv_new h1 hm1 with hm0 | rfl
          · refine Or.inl ⟨hm0, ?_⟩
            intro id hmem
            simp only [List.mem_cons] at hmem
            rcases hmem with hmem | hmem
            · cases hmem
            · exact hno id hmem
          · exact Or.inr ⟨[], xs, rfl, hno⟩
      · exact Or.inr ⟨x :: pre1, pre2, by rw [he]; rfl, hno⟩

theorem isInstall_false {cfg : Cfg} {b : Bytes} (h : ∀ p ∈ cfg.progs, b ≠ p.install) : isInstall cfg b = false := by
  cases hi : isInstall cfg b with
  | false => rfl
  | true =>
    simp only [isInstall, List.any_eq_true] at hi
    obtain ⟨p, hp, he⟩ := hi
    exact absurd (by simpa using he : p.install = b).symm (h p hp)

/-- **The scan is sound for the property**: what it accepts satisfies `InstallBeforeUse`. -/
theorem scanItems_sound {cfg : Cfg} {items : List Item} (h : (scanItems cfg [] items).isSome = true) :
    InstallBeforeUse cfg items := by
  intro pre a b post he h4 hni
  subst he
  rw [scanItems_append] at h
  cases h1 : scanItems cfg [] pre with
  | none => simp [h1] at h
  | some s1 =>
    simp only [h1, Option.bind_some, scanItems, scanItem, scanEv, isInstall_false hni, Bool.false_eq_true,
      if_false, h4, if_true] at h
    cases hu : usable cfg s1 a b with
    | false => simp [hu] at h
    | true =>
      simp only [usable, List.any_eq_true, Bool.and_eq_true, decide_eq_true_eq, beq_iff_eq] at hu
      obtain ⟨p, hp, hmem, huid⟩ := hu
      refine ⟨p, hp, huid, ?_⟩
      rcases scanItems_state h1 hmem with ⟨h0, _⟩ | hs
      · cases h0
      · exact hs

theorem installedOk_sound {cfg : Cfg} {tr : List (Addr × Msg × List Ev)} (h : installedOk cfg tr = true) :
    InstallBeforeUse cfg (flat tr) := by
  apply scanItems_sound
  rw [← scanSteps_eq_flat]
  exact h

/-- **C05, for every history, stated on the flattened trace.** For every configuration, bounded policy,
send-failure budget and input history: every change-program command the runtime transmits to an address
names the uid of a program whose install message it transmitted to that address earlier, and that
address has not sent a ready in between. -/
theorem install_before_use_trace {σ : Type} (cfg : Cfg) (pol : Policy σ) (hb : pol.Bounded) (sf : Nat)
    (hist : List (Addr × Msg)) :
    InstallBeforeUse cfg (flat (runHist cfg pol { (St.init : St σ) with sendFail := sf } hist)) :=
  installedOk_sound (install_before_use cfg pol hb sf hist)

theorem install_before_use_trace_sf {σ : Type} (cfg : Cfg) (pol : Policy σ) (hb : pol.Bounded) (sf : Nat)
    (hist : List (List Rx × Addr × Msg)) :
    InstallBeforeUse cfg (flat (runHistSf cfg pol { (St.init : St σ) with sendFail := sf } hist)) :=
  installedOk_sound (install_before_use_sf cfg pol hb sf hist)

/-- when no install message carries the change-program type (the real ones have type 2), the side
condition "not one of the install messages" disappears -/
theorem install_before_use_trace_typed {σ : Type} (cfg : Cfg) (hcfg : ∀ p ∈ cfg.progs, rd16 p.install ≠ 4)
    (pol : Policy σ) (hb : pol.Bounded) (sf : Nat) (hist : List (List Rx × Addr × Msg))
    (pre : List Item) (a : Addr) (b : Bytes) (post : List Item)
    (he : flat (runHistSf cfg pol { (St.init : St σ) with sendFail := sf } hist) = pre ++ .ev (.tx a b) :: post)
    (h4 : rd16 b = 4) :
    ∃ p ∈ cfg.progs, rd32 (b.drop 8) = p.scope.uid % 2^32 ∧ SentSince pre a p.install :=
  install_before_use_trace_sf cfg pol hb sf hist pre a b post he h4
    (fun p hp e => hcfg p hp (by rw [← e]; exact h4))

/-- **The run is not cut short**: for bounded user code every input is handled (`step` never panics or
errs), its events are recorded, and the run goes on with the rest unless that step was a failed install
send, after which the runtime has stopped (`loopStep`: `.fail ↦ .finished .err`). -/
theorem runHistSf_cons {σ : Type} (cfg : Cfg) (pol : Policy σ) (hb : pol.Bounded) (st : St σ)
    (passed : List Rx) (addr : Addr) (msg : Msg) (rest : List (List Rx × Addr × Msg)) :
    ∃ r, step cfg pol (applySf st passed) addr msg = .ok r ∧
      runHistSf cfg pol st ((passed, addr, msg) :: rest) =
        (addr, msg, r.evs) :: (match r with
          | .cont st' _ => runHistSf cfg pol st' rest
          | .fail _ _ => []) := by
  obtain ⟨r, hr, _⟩ := step_ok cfg pol hb (applySf st passed) addr msg
  refine ⟨r, hr, ?_⟩
  simp only [runHistSf, hr]
  cases r <;> rfl

/-! ## Non-vacuity -/

/-- one program, uid 7 -/
def exCfg : Cfg :=
  { algs := [⟨[], true⟩],
    progs := [{ pname := "p", scope := { uid := 7, named := [], numControl := 0, numLocal := 0, numPerm := 0, tmp := [] },
                install := [2, 0, 9, 0, 0, 0, 0, 0, 7] }] }

/-- switches to program `p` on every report -/
def exPol : Policy Unit :=
  { newFlow := fun _ _ _ => .done (),
    onReport := fun _ _ _ _ => .setProgram "p" none fun _ => .done (),
    onClose := fun _ => .done () }

theorem exPol_bounded : exPol.Bounded :=
  ⟨fun _ _ _ => trivial, fun _ _ _ _ => ⟨by decide, fun _ => trivial⟩, fun _ => trivial⟩

def exHist : List (Addr × Msg) :=
  [(5, .rdy 1), (5, .cr ⟨3, 10, 1460, 0, 0, 0, 0, none⟩), (5, .ms ⟨3, 7, 1, [42]⟩)]

theorem exRun : runHist exCfg exPol St.init exHist =
    [(5, .rdy 1, [.tx 5 [2, 0, 9, 0, 0, 0, 0, 0, 7]]),
     (5, .cr ⟨3, 10, 1460, 0, 0, 0, 0, none⟩, [.newFlow 1 0 ⟨3, 10, 1460, 0, 0, 0, 0⟩ 3]),
     (5, .ms ⟨3, 7, 1, [42]⟩, [.report 1 3 7 [42], .tx 5 [4, 0, 16, 0, 3, 0, 0, 0, 7, 0, 0, 0, 0, 0, 0, 0]])] := by
  decide +kernel

/-- the theorem's instance, re-checked by evaluation: the scan meets the change-program of step 3 and
finds the install of step 1 -/
example : installedOk exCfg (runHist exCfg exPol St.init exHist) = true := by decide +kernel

/-- the same through the theorem -/
example : installedOk exCfg (runHist exCfg exPol St.init exHist) = true :=
  install_before_use exCfg exPol exPol_bounded 0 exHist

/-- first contact by create (no ready at all): batch, then the handler -/
example : runHist exCfg exPol St.init [(5, .cr ⟨3, 10, 1460, 0, 0, 0, 0, none⟩), (5, .ms ⟨3, 7, 1, [42]⟩)] =
    [(5, .cr ⟨3, 10, 1460, 0, 0, 0, 0, none⟩,
        [.tx 5 [2, 0, 9, 0, 0, 0, 0, 0, 7], .newFlow 1 0 ⟨3, 10, 1460, 0, 0, 0, 0⟩ 3]),
     (5, .ms ⟨3, 7, 1, [42]⟩, [.report 1 3 7 [42], .tx 5 [4, 0, 16, 0, 3, 0, 0, 0, 7, 0, 0, 0, 0, 0, 0, 0]])] := by
  decide +kernel

/-- a failed install send ends the run: the create that follows is never handled -/
example : runHist exCfg exPol { (St.init : St Unit) with sendFail := 1 } exHist = [(5, .rdy 1, [.txFail 5])] := by
  decide +kernel

/-- the budget set between messages (`Rx.sf`): the change-program send fails, nothing is transmitted -/
example : runHistSf exCfg exPol St.init
      [([], 5, .rdy 1), ([], 5, .cr ⟨3, 10, 1460, 0, 0, 0, 0, none⟩), ([.sf 1], 5, .ms ⟨3, 7, 1, [42]⟩)] =
    [(5, .rdy 1, [.tx 5 [2, 0, 9, 0, 0, 0, 0, 0, 7]]),
     (5, .cr ⟨3, 10, 1460, 0, 0, 0, 0, none⟩, [.newFlow 1 0 ⟨3, 10, 1460, 0, 0, 0, 0⟩ 3]),
     (5, .ms ⟨3, 7, 1, [42]⟩, [.report 1 3 7 [42], .txFail 5])] := by
  decide +kernel

/-! hand-written traces the predicate rejects -/

/-- a change-program before any install -/
example : installedOk exCfg
    [(5, .rdy 1, []),
     (5, .ms ⟨3, 7, 1, [42]⟩, [.tx 5 [4, 0, 16, 0, 3, 0, 0, 0, 7, 0, 0, 0, 0, 0, 0, 0]])] = false := by
  decide +kernel

/-- the install went to another address -/
example : installedOk exCfg
    [(6, .rdy 1, [.tx 6 [2, 0, 9, 0, 0, 0, 0, 0, 7]]),
     (5, .ms ⟨3, 7, 1, [42]⟩, [.tx 5 [4, 0, 16, 0, 3, 0, 0, 0, 7, 0, 0, 0, 0, 0, 0, 0]])] = false := by
  decide +kernel

/-- the datapath announced itself again after the install and was not sent the program again -/
example : installedOk exCfg
    [(5, .rdy 1, [.tx 5 [2, 0, 9, 0, 0, 0, 0, 0, 7]]),
     (5, .rdy 2, []),
     (5, .ms ⟨3, 7, 1, [42]⟩, [.tx 5 [4, 0, 16, 0, 3, 0, 0, 0, 7, 0, 0, 0, 0, 0, 0, 0]])] = false := by
  decide +kernel

/-- the install comes after the command, inside the same step -/
example : installedOk exCfg
    [(5, .cr ⟨3, 10, 1460, 0, 0, 0, 0, none⟩,
      [.tx 5 [4, 0, 16, 0, 3, 0, 0, 0, 7, 0, 0, 0, 0, 0, 0, 0], .tx 5 [2, 0, 9, 0, 0, 0, 0, 0, 7]])] = false := by
  decide +kernel

/-- the command names a uid that is not the installed program's -/
example : installedOk exCfg
    [(5, .rdy 1, [.tx 5 [2, 0, 9, 0, 0, 0, 0, 0, 7]]),
     (5, .ms ⟨3, 7, 1, [42]⟩, [.tx 5 [4, 0, 16, 0, 3, 0, 0, 0, 8, 0, 0, 0, 0, 0, 0, 0]])] = false := by
  decide +kernel

/-- and the corresponding accepted hand-written trace -/
example : installedOk exCfg
    [(5, .rdy 1, [.tx 5 [2, 0, 9, 0, 0, 0, 0, 0, 7]]),
     (6, .rdy 1, [.tx 6 [2, 0, 9, 0, 0, 0, 0, 0, 7]]),
     (5, .ms ⟨3, 7, 1, [42]⟩, [.tx 5 [4, 0, 16, 0, 3, 0, 0, 0, 7, 0, 0, 0, 0, 0, 0, 0]])] = true := by
  decide +kernel

/-! ## Why the run has to end at a failed step

The state a failed first-contact create leaves behind has the address registered (`entry(addr)` is
taken before the install sends) although no program reached it: the invariant `Inv` does not survive a
`.fail`. The theorem therefore depends on the runtime stopping there, which it does (`run_inner`
returns the error; `loopStep`: `.fail ↦ .finished .err`). -/
example : ∃ st' : St Unit,
    step exCfg exPol { (St.init : St Unit) with sendFail := 1 } 5 (.cr ⟨3, 10, 1460, 0, 0, 0, 0, none⟩) =
      .ok (.fail st' [.txFail 5]) ∧ registered st' 5 :=
  ⟨_, rfl, rfl⟩

end Portus.C05
