import PortusModel.Lemmas.ImageInv
/-!
# C03 — shape of the compiled image

"Whenever compilation and serialization succeed, the image is 16 bytes per event followed by 16
bytes per instruction; the instructions begin with one initialisation per declared report/control
variable that has a literal initial value, and the event table tiles the remaining instructions
contiguously in source order, each event having a non-empty condition block whose last instruction
writes the event-flag register. Every instruction has a defined opcode, a result register of a
writable class, register indices inside the datapath's register files (8 temporaries, 6 locals,
16 report, 16 control, 6 implicit, 15 primitives), and reads a temporary only if an earlier
instruction of the same expression wrote it."

Quantifier: all source texts (decoded characters), all uids, all override lists, for which
`compile` / `compile_and_serialize` returns `Ok`.

Phase 1 (`bin_wf`, `compile_wf`) is the statement on the IR (`Bin`); Phase 2 (`decode_of_serialize`,
`check_model`) is the same statement on the raw image, read back with libccp's record readers.

The constituent predicates (`writable`, `primOk`, `readsTmp`, `writesTmp`, `ReadsOk`, `Tiles`,
`IsDefI`, `EvOk`) are defined in `Lemmas/ImageInv.lean` because the invariant lemmas need them:
* `writable r`   : `r` is a temporary, implicit, local, report or control register;
* `primOk r`     : if `r` is a primitive register its index is `< 15`;
* `ReadsOk is`   : `∀ a i b, is = a ++ i :: b → ∀ j, readsTmp i j → ∃ w ∈ a, writesTmp w j`;
* `Tiles s es t` : `[] ↦ s = t`; `e :: es ↦ e.flagIdx = s ∧ e.bodyIdx = s + e.numFlag ∧
                   Tiles (e.bodyIdx + e.numBody) es t`;
* `IsDefI i`     : `i.op = def ∧ i.left = i.res ∧ isRC i.res ∧ i.right` is an immediate;
* `blockCount evs`: number of top-level expressions (per event: the flag and the non-comment
                   body statements).
-/
namespace Portus.C03
open Portus Portus.Lang Portus.Wire

/-! ## Phase 1: the IR -/

/-- well-formedness of a compiled program relative to its expected DEF preamble `defs` -/
structure WfBin (defs : List Instr) (bin : Bin) : Prop where
  /-- (a) every element of the preamble is an initialisation `reg <- Def reg imm`, `reg` report/control -/
  defs_shape : ∀ d ∈ defs, IsDefI d
  /-- (a) the instruction list is the preamble followed by DEF-free instructions, and
      (e) that remainder is a concatenation of blocks (one per flag expression, one per body
      statement), each self-contained w.r.t. temporaries -/
  split : ∃ rest, bin.instrs = defs ++ rest ∧ (∀ i ∈ rest, i.op ≠ .def) ∧
    ∃ blocks : List (List Instr), rest = blocks.flatten ∧ ∀ b ∈ blocks, ReadsOk b
  /-- (b) the event table tiles `[#defs, #instrs)` contiguously, in order -/
  tiles : Tiles defs.length bin.events bin.instrs.length
  /-- (c) non-empty flag block whose last instruction writes the event-flag register `implicit 0` -/
  event : ∀ e ∈ bin.events, 1 ≤ e.numFlag ∧
    ∃ i t, bin.instrs[e.bodyIdx - 1]? = some i ∧ i.res = .implicit 0 t
  /-- (d) result of a writable class, no `Reg::None` operand, no `And`/`Or` opcode; primitive
      operands have one of the 15 indices of `Scope::new` -/
  instr : ∀ i ∈ bin.instrs, writable i.res = true ∧ i.left ≠ .none ∧ i.right ≠ .none ∧
    i.op ≠ .and ∧ i.op ≠ .or ∧ primOk i.left = true ∧ primOk i.right = true
  /-- (e'), the block-granular form of (e) that is visible in the image: the flag block and the
      body block of every event are self-contained w.r.t. temporaries -/
  evblocks : ∀ e ∈ bin.events,
    ReadsOk ((bin.instrs.drop e.flagIdx).take e.numFlag) ∧
    ReadsOk ((bin.instrs.drop e.bodyIdx).take e.numBody)

/-- **C03 on the IR.** Whatever the source text, uid and overrides: if parsing, declaration and
`compile_prog` succeed, the program is well-formed w.r.t. the DEF preamble computed from the scope
after declarations and overrides, and it has exactly one event record per source event. -/
theorem bin_wf (uid : Nat) (src : List Char) (upd : List (Name × Nat)) (ds : List Decl)
    (evs : List Event) (sc0 : Scope) (bin : Bin) (sc : Scope)
    (hp : parseSource src = some (ds, evs))
    (hd : declareAll (Scope.new uid) ds = .ok sc0)
    (hc : compileProg evs (applyUpdates sc0 upd) = .ok (bin, sc)) :
    WfBin (defInstrs (applyUpdates sc0 upd).named) bin ∧ bin.events.length = evs.length := by
  have i2 := applyUpdates_inv2 (declareAll_inv2 uid ds (parseSource_decl_names src ds evs hp) sc0 hd) upd
  have i1 := applyUpdates_inv ((declareAll_spec uid ds).2 sc0 hd) upd
  obtain ⟨hclean, _⟩ := (compileProg_spec evs (parseSource_NoDef src ds evs hp) _ i1).2 bin sc hc
  obtain ⟨rest, hsplit, hok, hlen, htiles, ⟨blocks, hb1, hb2, _⟩, hev, _⟩ :=
    compileProg_shape evs _ i2 bin sc hc
  have hdefs := defInstrs_isDef (applyUpdates sc0 upd).named
  refine ⟨⟨hdefs, ⟨rest, hsplit, fun i hi => (hok i hi).1, blocks, hb1, hb2⟩, htiles, ?_, ?_, ?_⟩, hlen⟩
  · intro e he
    exact ⟨(hev e he).1, (hev e he).2.1⟩
  · intro i hi
    obtain ⟨c1, c2, c3, c4, c5⟩ := hclean i hi
    rw [hsplit, List.mem_append] at hi
    rcases hi with hi | hi
    · obtain ⟨_, d2, d3, d4⟩ := hdefs i hi
      have f := isRC_facts d3
      refine ⟨f.2.2, c2, c3, c4, c5, by rw [d2]; exact f.2.1, ?_⟩
      rcases d4 with ⟨n, d4⟩ | ⟨b, d4⟩ <;> rw [d4] <;> rfl
    · obtain ⟨_, o2, o3, o4⟩ := hok i hi
      refine ⟨?_, c2, c3, c4, c5, o3, o4⟩
      rcases o2 with o2 | o2
      · exact absurd o2 c1
      · exact o2
  · intro e he
    exact ⟨(hev e he).2.2.1, (hev e he).2.2.2⟩

/-- clause (e) with the blocks counted: the instructions after the preamble are the concatenation
of exactly one self-contained block per top-level expression of the source (`blockCount evs`: one
flag expression per event plus its non-comment body statements). -/
theorem bin_blocks (uid : Nat) (src : List Char) (upd : List (Name × Nat)) (ds : List Decl)
    (evs : List Event) (sc0 : Scope) (bin : Bin) (sc : Scope)
    (hp : parseSource src = some (ds, evs))
    (hd : declareAll (Scope.new uid) ds = .ok sc0)
    (hc : compileProg evs (applyUpdates sc0 upd) = .ok (bin, sc)) :
    ∃ blocks : List (List Instr),
      bin.instrs = defInstrs (applyUpdates sc0 upd).named ++ blocks.flatten ∧
      (∀ b ∈ blocks, ReadsOk b) ∧ blocks.length = blockCount evs := by
  have i2 := applyUpdates_inv2 (declareAll_inv2 uid ds (parseSource_decl_names src ds evs hp) sc0 hd) upd
  obtain ⟨rest, hsplit, _, _, _, ⟨blocks, hb1, hb2, hb3⟩, _, _⟩ := compileProg_shape evs _ i2 bin sc hc
  exact ⟨blocks, by rw [hsplit, hb1], hb2, hb3⟩

/-- the same, phrased on `lang::compile` -/
theorem compile_wf (uid : Nat) (src : List Char) (upd : List (Name × Nat)) (bin : Bin) (sc : Scope)
    (h : compile uid src upd = .ok (bin, sc)) :
    ∃ ds evs sc0, parseSource src = some (ds, evs) ∧ declareAll (Scope.new uid) ds = .ok sc0 ∧
      WfBin (defInstrs (applyUpdates sc0 upd).named) bin ∧ bin.events.length = evs.length := by
  unfold compile newWithScope at h
  cases hp : parseSource src with
  | none => rw [hp] at h; simp at h
  | some p =>
    obtain ⟨ds, evs⟩ := p
    rw [hp] at h
    simp only at h
    cases hd : declareAll (Scope.new uid) ds with
    | panic => rw [hd] at h; simp at h
    | err => rw [hd] at h; simp at h
    | ok sc0 =>
      rw [hd] at h
      simp only [Out.bind_ok, Out.pure_eq] at h
      exact ⟨ds, evs, sc0, rfl, hd, bin_wf uid src upd ds evs sc0 bin sc hp hd h⟩

/-! ## Phase 2: the raw image, as libccp reads it

The component checks (`regOkB`, `resClassB`, `instrOkB`, `readsOkFrom`, `tilesB`, `evOkB`) and the
record image of an instruction (`instrMsg?`) are defined in `Lemmas/ImageInv.lean`, section
"record-level checks". -/

structure Recs where
  exprs : List Libccp.Expr
  instrs : List Libccp.InstrMsg
deriving Repr, DecidableEq

/-- split an image into `numEvents` 16-byte expression records followed by 16-byte instruction
records, using libccp's readers; `none` unless the length is `16 * numEvents + 16 * I` -/
def decodeImage (numEvents : Nat) (img : Bytes) : Option Recs :=
  if 16 * numEvents ≤ img.length ∧ (img.length - 16 * numEvents) % 16 = 0 then
    some ⟨Libccp.readExprs numEvents img,
          Libccp.readInstrs ((img.length - 16 * numEvents) / 16) (img.drop (16 * numEvents))⟩
  else none

/-- the records libccp will read for the DEF preamble `defs` -/
def expectedDefs (defs : List Instr) : List Libccp.InstrMsg := defs.filterMap instrMsg?

/-- the property on records. With `n = #expectedDefs` and `I = #instruction records`:
1. the first `n` instruction records are exactly `expectedDefs`, all with opcode 2 (DEF), and no
   later record has opcode 2;
2. the expression records tile `[n, I)` contiguously and in order (`tilesB`);
3. every expression record has `numCond ≥ 1`, the record at `eventStart - 1` has result
   (class 2, index 0) — the event flag —, and inside its condition block and inside its body block
   every class-7 (temporary) operand is preceded by a class-7 result of the same index (`evOkB`).
   This is at *block* granularity: statement boundaries inside a body are not in the image, so it is
   weaker than clause (e) of `WfBin` (per statement) and is implied by clause (e');
4. every instruction record has opcode `< 15`, a result class in {0,2,3,5,6,7,8}, and all three
   (class, index) fields inside the register files: class ≤ 8; control (0, 8) < 16; implicit (2) < 6;
   local (3) < 6; primitive (4) < 15; report (5, 6) < 16; temporary (7) < 8; immediate (1) any.
   (The encoder itself would let primitive index 15 through — its test is `i > 15` —; `< 15` holds
   because primitives only come from `Scope::new`, indices 0..14: `ScInv2`/`primOk`.) -/
def wfRecs (expectedDefs : List Libccp.InstrMsg) (r : Recs) : Bool :=
  decide (r.instrs.take expectedDefs.length = expectedDefs) &&
  expectedDefs.all (fun m => m.opcode == 2) &&
  (r.instrs.drop expectedDefs.length).all (fun m => m.opcode != 2) &&
  tilesB expectedDefs.length r.exprs r.instrs.length &&
  r.exprs.all (evOkB r.instrs) &&
  r.instrs.all instrOkB

/-- `C03.check expectedDefs numEvents observed`: an error is admissible, a panic is not (C10), an
image must decode into `numEvents` expression records plus instruction records satisfying `wfRecs` -/
def check (expectedDefs : List Libccp.InstrMsg) (numEvents : Nat) (obs : Out Bytes) : Bool :=
  match obs with
  | .err => true
  | .panic => false
  | .ok img =>
    match decodeImage numEvents img with
    | some r => wfRecs expectedDefs r
    | none => false

/-- **Image layout.** A serialized program is 16 bytes per event followed by 16 bytes per
instruction; libccp's readers recover the event records exactly and instruction records that match
the IR instruction by instruction (`instrsMatch`: opcode and the three (class, index) pairs).
The range hypothesis is needed because the event fields are written as `u32`. -/
theorem decode_of_serialize (bin : Bin) (img : Bytes) (h : bin.serialize = .ok img)
    (hr : ∀ e ∈ bin.events, evInRange e) :
    img.length = 16 * bin.events.length + 16 * bin.instrs.length ∧
    ∃ ms, decodeImage bin.events.length img = some ⟨bin.events.map evToLibccp, ms⟩ ∧
      instrsMatch bin.instrs ms := by
  obtain ⟨ib, hib, rfl⟩ := serialize_split h
  obtain ⟨hl, hm⟩ := readInstrs_serialize bin.instrs ib [] hib
  have he := events_bytes_length bin.events
  have hlen : (bin.events.flatMap EvRec.serialize ++ ib).length
      = 16 * bin.events.length + 16 * bin.instrs.length := by
    rw [List.length_append, he, hl]
  refine ⟨hlen, Libccp.readInstrs bin.instrs.length ib, ?_, by simpa using hm⟩
  unfold decodeImage
  rw [hlen]
  have c : 16 * bin.events.length ≤ 16 * bin.events.length + 16 * bin.instrs.length ∧
      (16 * bin.events.length + 16 * bin.instrs.length - 16 * bin.events.length) % 16 = 0 := by omega
  rw [if_pos c]
  have e1 : (16 * bin.events.length + 16 * bin.instrs.length - 16 * bin.events.length) / 16
      = bin.instrs.length := by omega
  rw [e1, readExprs_serialize bin.events ib hr, List.drop_left' he]

/-- **IR well-formedness is visible on the records.** -/
theorem wfRecs_of_wf {defs : List Instr} {bin : Bin} {ms : List Libccp.InstrMsg}
    (hw : WfBin defs bin) (hm : instrsMatch bin.instrs ms) :
    wfRecs (expectedDefs defs) ⟨bin.events.map evToLibccp, ms⟩ = true := by
  obtain ⟨rest, hsplit, hnodef, _⟩ := hw.split
  have hm' := hm
  rw [hsplit] at hm'
  obtain ⟨e1, e2, e3, e4⟩ := defs_records hm' (fun d hd => (hw.defs_shape d hd).1) hnodef
  have hlen := instrsMatch_length hm
  simp only [wfRecs, expectedDefs, Bool.and_eq_true, List.all_eq_true, beq_iff_eq, bne_iff_ne, ne_eq]
  refine ⟨⟨⟨⟨⟨decide_eq_true e2, e3⟩, e4⟩, ?_⟩, ?_⟩, ?_⟩
  · rw [e1, hlen]; exact tilesB_of hw.tiles
  · intro x hx
    simp only [List.mem_map] at hx
    obtain ⟨e, he, rfl⟩ := hx
    exact evOkB_of hm ⟨(hw.event e he).1, (hw.event e he).2, (hw.evblocks e he).1, (hw.evblocks e he).2⟩
  · refine instrsMatch_forall hm _ ?_
    intro i hi m hmm
    obtain ⟨w, _, _, _, _, pl, pr⟩ := hw.instr i hi
    exact instrOkB_of hmm w pl pr

/-- **C03 on the image.** Under the hypotheses of `bin_wf`, if the encoder accepts the program
then the image passes the byte-level oracle, with the DEF records expected from the scope after
declarations and overrides. Side condition: fewer than `2^32` instructions (a 64 GiB image;
the event-table fields are `u32`, beyond that they wrap and the table no longer tiles). -/
theorem check_model (uid : Nat) (src : List Char) (upd : List (Name × Nat)) (ds : List Decl)
    (evs : List Event) (sc0 : Scope) (bin : Bin) (sc : Scope) (img : Bytes)
    (hp : parseSource src = some (ds, evs))
    (hd : declareAll (Scope.new uid) ds = .ok sc0)
    (hc : compileProg evs (applyUpdates sc0 upd) = .ok (bin, sc))
    (hs : bin.serialize = .ok img) (hlen : bin.instrs.length < 2^32) :
    img.length = 16 * evs.length + 16 * bin.instrs.length ∧
    check (expectedDefs (defInstrs (applyUpdates sc0 upd).named)) evs.length (.ok img) = true := by
  obtain ⟨hw, hn⟩ := bin_wf uid src upd ds evs sc0 bin sc hp hd hc
  obtain ⟨hl, ms, hdec, hm⟩ := decode_of_serialize bin img hs (Tiles_inRange hw.tiles hlen)
  rw [hn] at hl hdec
  refine ⟨hl, ?_⟩
  simp only [check, hdec]
  exact wfRecs_of_wf hw hm

/-- the same for every outcome of `compile_and_serialize` (errors are admissible, panics do not
occur by C10, images satisfy the oracle) -/
theorem check_model_cas (uid : Nat) (src : List Char) (upd : List (Name × Nat)) (img : Bytes) (sc : Scope)
    (h : compileAndSerialize uid src upd = .ok (img, sc)) :
    ∃ ds evs sc0 bin, parseSource src = some (ds, evs) ∧ declareAll (Scope.new uid) ds = .ok sc0 ∧
      compile uid src upd = .ok (bin, sc) ∧ bin.serialize = .ok img ∧
      (bin.instrs.length < 2^32 →
        img.length = 16 * evs.length + 16 * bin.instrs.length ∧
        check (expectedDefs (defInstrs (applyUpdates sc0 upd).named)) evs.length (.ok img) = true) := by
  unfold compileAndSerialize at h
  cases hc : compile uid src upd with
  | panic => rw [hc] at h; simp at h
  | err => rw [hc] at h; simp at h
  | ok p =>
    obtain ⟨bin, sc'⟩ := p
    rw [hc] at h
    simp only [Out.bind_ok] at h
    cases hs : bin.serialize with
    | panic => rw [hs] at h; simp at h
    | err => rw [hs] at h; simp at h
    | ok b =>
      rw [hs] at h
      simp only [Out.bind_ok, Out.pure_eq, Out.ok.injEq, Prod.mk.injEq] at h
      obtain ⟨rfl, rfl⟩ := h
      have hc' := hc
      unfold compile newWithScope at hc'
      cases hp : parseSource src with
      | none => rw [hp] at hc'; simp at hc'
      | some q =>
        obtain ⟨ds, evs⟩ := q
        rw [hp] at hc'
        simp only at hc'
        cases hd : declareAll (Scope.new uid) ds with
        | panic => rw [hd] at hc'; simp at hc'
        | err => rw [hd] at hc'; simp at hc'
        | ok sc0 =>
          rw [hd] at hc'
          simp only [Out.bind_ok, Out.pure_eq] at hc'
          exact ⟨ds, evs, sc0, bin, rfl, hd, rfl, hs,
            fun hlen => check_model uid src upd ds evs sc0 bin sc' b hp hd hc' hs hlen⟩

/-! ## Non-vacuity and sensitivity

`#guard`s are evaluated by the compiler at build time: they are tests, not theorems (kernel `decide`
on whole-program compilation is too slow because of string-literal parsing). The `example`s on small
hand-written records are kernel-checked. -/

/-- test helper: run the pipeline of `check_model` on a source text and apply the oracle, with the
image optionally tampered with -/
def checkSrc (src : String) (upd : List (Name × Nat)) (tamper : Bytes → Bytes := id) : Bool :=
  match parseSource src.toList with
  | none => false
  | some (ds, evs) =>
    match declareAll (Scope.new 1) ds with
    | .ok sc0 =>
      match compileProg evs (applyUpdates sc0 upd) with
      | .ok (bin, _) =>
        match bin.serialize with
        | .ok img => check (expectedDefs (defInstrs (applyUpdates sc0 upd).named)) evs.length (.ok (tamper img))
        | _ => false
      | _ => false
    | _ => false

def prog1 : String := "(def (Report (x 0))) (when true (:= Report.x (+ Report.x 1)) (report))"
def prog2 : String := "(def (Report (volatile acked 0) (rtt 0)) (cwndCap 100) (flag false))
(when true (:= Report.acked (+ Report.acked Ack.bytes_acked)) (:= Report.rtt Flow.rtt_sample_us) (fallthrough))
(when (> Micros 1000) (:= Cwnd (min cwndCap (* 2 (+ Cwnd 1)))) (:= Micros 0) (report))"

-- the hypotheses of `check_model_cas` are satisfiable, and the oracle accepts the image, with the
-- DEF record written out by hand: `Report.x <- Def Report.x 0` = opcode 2, (6,0), (6,0), (1,0)
#guard (compileAndSerialize 1 prog1.toList []).isOk
#guard match compileAndSerialize 1 prog1.toList [] with
  | .ok (img, _) => img.length == 16 * 1 + 16 * 5 && check [⟨2, 6, 0, 6, 0, 1, 0⟩] 1 (.ok img)
  | _ => false
-- two events, volatile report, control variables, nested temporaries, an override
#guard checkSrc prog1 []
#guard checkSrc prog2 []
#guard checkSrc prog2 [("cwndCap".toList, 7)]
-- the corner case `(:= (+ 1 2) 3)` (a temporary is written twice) is accepted and satisfies the oracle
#guard checkSrc "(def (Report (x 0))) (when true (:= (+ 1 2) 3) (report))" []
-- the oracle is sensitive: a wrong expected preamble, a wrong event count, a truncated image and
-- single-byte corruptions (opcode of the DEF, class of a temporary operand, event table) are rejected
#guard match compileAndSerialize 1 prog1.toList [] with
  | .ok (img, _) => !check [] 1 (.ok img) && !check [⟨2, 6, 0, 6, 0, 1, 1⟩] 1 (.ok img) &&
                    !check [⟨2, 6, 0, 6, 0, 1, 0⟩] 2 (.ok img)
  | _ => false
#guard !checkSrc prog1 [] (fun b => b.dropLast)
#guard !checkSrc prog1 [] (fun b => b.take 80)
#guard !checkSrc prog1 [] (fun b => b.set 16 1)        -- DEF opcode
#guard !checkSrc prog1 [] (fun b => b.set (16 + 3*16 + 12) 1)   -- index of the temporary read by instr 3
#guard !checkSrc prog1 [] (fun b => b.set 4 2)         -- numCond
#guard !checkSrc prog1 [] (fun b => b.set (16 + 16 + 2) 1)      -- flag block writes implicit 1
#guard check [] 0 .err && !check [] 0 .panic

/-- `flag <- Bind flag true` as the only instruction of one event: accepted -/
example : wfRecs [] ⟨[⟨0, 1, 1, 0⟩], [⟨1, 2, 0, 2, 0, 1, 1⟩]⟩ = true := by decide
/-- a temporary read without an earlier write in the block: rejected -/
example : wfRecs [] ⟨[⟨0, 1, 1, 0⟩], [⟨1, 2, 0, 7, 0, 1, 1⟩]⟩ = false := by decide
/-- write then read of the same temporary: accepted; of another temporary: rejected -/
example : wfRecs [] ⟨[⟨0, 2, 2, 0⟩], [⟨8, 7, 0, 2, 3, 1, 5⟩, ⟨1, 2, 0, 2, 0, 7, 0⟩]⟩ = true := by decide
example : wfRecs [] ⟨[⟨0, 2, 2, 0⟩], [⟨8, 7, 0, 2, 3, 1, 5⟩, ⟨1, 2, 0, 2, 0, 7, 1⟩]⟩ = false := by decide
/-- primitive index 15 (accepted by the encoder, outside the 15 primitives): rejected -/
example : wfRecs [] ⟨[⟨0, 1, 1, 0⟩], [⟨1, 2, 0, 2, 0, 4, 15⟩]⟩ = false := by decide
/-- an event table that leaves a gap: rejected -/
example : wfRecs [] ⟨[⟨1, 1, 2, 0⟩], [⟨1, 2, 0, 2, 0, 1, 1⟩, ⟨1, 2, 0, 2, 0, 1, 1⟩]⟩ = false := by decide
/-- a result of a non-writable class (primitive): rejected -/
example : wfRecs [] ⟨[⟨0, 2, 2, 0⟩], [⟨1, 4, 0, 2, 0, 1, 1⟩, ⟨1, 2, 0, 2, 0, 1, 1⟩]⟩ = false := by decide

end Portus.C03
