import PortusModel.Lemmas.Literals
/-!
# C14 — integer literals reach the datapath exactly

Every integer literal or initial value of an accepted program is encoded so that the datapath reads
back exactly that value, with `+infinity` (the largest 64-bit value) encoded as the all-ones 32-bit
immediate; every literal below 2^31 is accepted, and a literal the 32-bit immediate field cannot hold
makes compilation or serialization fail. No literal is silently truncated, wrapped or reinterpreted,
and initial-value overrides supplied at compile time obey the same rule.

* T1 (`numeral_parses_exactly` …): a maximal decimal numeral is read as its positional value, or
  rejected when it does not fit `u64`;
* T2 (`imm_encoding`): the immediate encoding of `Reg.immNum n`;
* T3 (`literal_reaches_operand_*`): where a literal ends up (operand, `Def` instruction, override);
* T4 (`no_silent_truncation`, `literal_read_back`, `literal_too_big_rejected`): what libccp reads;
* T5 (`check`, `check_model_*`): the oracle of the test driver and its agreement with the model on
  the three template programs, for every digit string.
-/
namespace Portus.C14
open Portus Portus.Lang Portus.Wire

/-! ## Oracle -/

/-- where the literal sits in the fixed template program -/
inductive Pos | operand | definition | override
deriving Repr, DecidableEq, Inhabited

/-- expected 32-bit immediate for a literal value, or none if it must be rejected -/
def expectedImm (v : Nat) : Option Nat :=
  if v < 2^31 then some v else if v = 2^64 - 1 then some (2^32 - 1) else none

/-- the template source for `pos` with the numeral `ds` spliced in (the override template has no
numeral in the source: the literal is the compile-time override `c = <LIT>`) -/
def template (pos : Pos) (ds : List Char) : List Char :=
  match pos with
  | .operand => tmplOperand ds
  | .definition => tmplDefinition ds
  | .override => tmplOverride

/-- byte offset of the class byte of the literal's operand in the image: one 16-byte event record,
16 bytes per instruction, the right operand starts at byte 11 of an instruction -/
def litOffset : Pos → Nat
  | .operand => 16 + 16 * 2 + 11
  | .definition => 16 + 16 * 0 + 11
  | .override => 16 + 16 * 1 + 11

/-- `check pos v obs`: `obs` is the result of `compile_and_serialize` on the template for `pos`
(`.ok image`, `.err`, `.panic`); `v` is the value of the numeral, `none` if it does not fit `u64`.
A literal without an encoding must be refused with an error; otherwise the class byte of the literal's
operand must be 1 (immediate) and the little-endian word after it the expected immediate. -/
def check (pos : Pos) (v : Option Nat) (obs : Out Bytes) : Bool :=
  match v.bind expectedImm with
  | none => obs == .err
  | some w =>
    match obs with
    | .ok img =>
      decide (litOffset pos + 5 ≤ img.length) && bAt img (litOffset pos) == 1 &&
        rd32 (img.drop (litOffset pos + 1)) == w
    | _ => false

/-- the value of a digit string as the oracle's `v` argument: `none` if it does not fit `u64` -/
def numeralValue (ds : List Char) : Option Nat :=
  if digitsVal ds < 2^64 then some (digitsVal ds) else none

/-- the image part of the result of `compile_and_serialize` -/
def imageOf (o : Out (Bytes × Scope)) : Out Bytes :=
  match o with
  | .ok p => .ok p.1
  | .err => .err
  | .panic => .panic

/-! ## T1 — numerals -/

/-- `digitsVal` is the positional decimal value -/
theorem digitsVal_snoc (ds : List Char) (d : Char) :
    digitsVal (ds ++ [d]) = 10 * digitsVal ds + (d.toNat - 48) :=
  Lang.digitsVal_snoc ds d

/-- … and inverts the standard decimal rendering of a number -/
theorem digitsVal_repr (n : Nat) : digitsVal (Nat.toDigits 10 n) = n :=
  Lang.digitsVal_repr n

/-- a maximal decimal numeral is read as exactly its value; one that does not fit `u64` is refused
(it is not re-read as a name, nor wrapped) -/
theorem numeral_parses_exactly (ds rest : List Char) (hne : ds ≠ [])
    (hd : ∀ c ∈ ds, isAsciiDigit c = true)
    (hr : ∀ c, rest.head? = some c → isNameChar c = false) :
    atom (ds ++ rest) =
      if digitsVal ds < 2^64 then some (.atom (.num (digitsVal ds)), rest) else none :=
  atom_numeral ds rest hne hd hr

example : atom "4294967296)".toList = some (.atom (.num 4294967296), [')']) := by decide
example : atom "007 ".toList = some (.atom (.num 7), [' ']) := by decide
example : atom "18446744073709551616)".toList = none := by decide

/-- the value of an accepted numeral fits `u64` -/
theorem numeral_value_lt (ds rest rest' : List Char) (n : Nat) (hne : ds ≠ [])
    (hd : ∀ c ∈ ds, isAsciiDigit c = true)
    (hr : ∀ c, rest.head? = some c → isNameChar c = false)
    (h : atom (ds ++ rest) = some (.atom (.num n), rest')) : n = digitsVal ds ∧ n < 2^64 ∧ rest' = rest := by
  rw [numeral_parses_exactly ds rest hne hd hr] at h
  split at h
  · simp only [Option.some.injEq, Prod.mk.injEq, Expr.atom.injEq, Prim.num.injEq] at h
    obtain ⟨rfl, rfl⟩ := h
    exact ⟨rfl, ‹_›, rfl⟩
  · cases h

/-- every 64-bit value is written by its decimal rendering -/
theorem numeral_of_value (n : Nat) (hn : n < 2^64) (rest : List Char)
    (hr : ∀ c, rest.head? = some c → isNameChar c = false) :
    atom (Nat.toDigits 10 n ++ rest) = some (.atom (.num n), rest) := by
  rw [numeral_parses_exactly _ rest Nat.toDigits_ne_nil (toDigits_isAsciiDigit n) hr, Lang.digitsVal_repr,
    if_pos hn]

example : atom (Nat.toDigits 10 2147483647 ++ [')']) = some (.atom (.num 2147483647), [')']) :=
  numeral_of_value _ (by decide) _ (by decide)

/-- the same in operand position: `expr` reads the numeral (and the white space after it) -/
theorem numeral_operand_parses_exactly (fuel : Nat) (ds rest : List Char) (c : Char)
    (hc : isNameChar c = false) (hne : ds ≠ []) (hd : ∀ c ∈ ds, isAsciiDigit c = true) :
    expr (fuel + 1) (ds ++ c :: rest) =
      if digitsVal ds < 2^64 then some (.atom (.num (digitsVal ds)), skipSpace (c :: rest)) else none :=
  expr_numeral fuel ds rest c hc hne hd

/-- `+infinity` is the largest 64-bit value -/
theorem infinity_parses (rest : List Char) :
    atom ("+infinity".toList ++ rest) = some (.atom (.num (2^64 - 1)), rest) :=
  atom_infinity rest

example : atom "+infinity)".toList = some (.atom (.num 18446744073709551615), [')']) := by decide

/-! ## T2 — the immediate encoding -/

/-- the 32-bit immediate libccp reads is the literal itself below 2^31 and all-ones for `+infinity`;
nothing in `[2^31, 2^64-1)` has an encoding -/
theorem imm_encoding (n : Nat) :
    ((Reg.immNum n).classIdx =
      if n < 2^31 then .ok (1, n) else if n = 2^64 - 1 then .ok (1, 2^32 - 1) else .err) ∧
    ((Reg.immNum n).serialize =
      if n < 2^31 then .ok (1 :: le32 n) else if n = 2^64 - 1 then .ok [1, 255, 255, 255, 255] else .err) ∧
    (n < 2^31 → rd32 (le32 n) = n) ∧
    rd32 [255, 255, 255, 255] = 2^32 - 1 :=
  ⟨immNum_classIdx n, immNum_serialize n, fun h => rd32_le32 n (by omega), rd32_allOnes⟩

/-- in terms of the oracle's `expectedImm` -/
theorem imm_encoding_expected (n : Nat) :
    (Reg.immNum n).serialize =
      match expectedImm n with
      | some w => .ok (1 :: le32 w)
      | none => .err := by
  rw [immNum_serialize, expectedImm]
  split
  · rfl
  · split
    · rfl
    · rfl

theorem expectedImm_lt {v w : Nat} (h : expectedImm v = some w) : w < 2^32 := by
  unfold expectedImm at h
  split at h
  · cases h; omega
  · split at h
    · cases h; decide
    · cases h

example : (Reg.immNum 2147483647).serialize = .ok [1, 255, 255, 255, 127] := by decide
example : (Reg.immNum 2147483648).serialize = .err := by decide
example : (Reg.immNum 4294967295).serialize = .err := by decide
example : (Reg.immNum 18446744073709551615).serialize = .ok [1, 255, 255, 255, 255] := by decide

/-! ## T3 — where a literal ends up -/

/-- (a) a literal compiles to the immediate register carrying it, no instruction, scope unchanged -/
theorem literal_reaches_operand_atom (n : Nat) (sc : Scope) :
    compileExpr (.atom (.num n)) sc = .ok ⟨[], .immNum n, sc⟩ := rfl

/-- (b) every operator other than `bind` (and `def`, which cannot occur) appends exactly one
instruction, whose operands are the two compiled operands -/
theorem literal_reaches_operand_combine {o : Op} {instrs : List Instr} {l r : Reg} {sc : Scope} {c : CE}
    (hb : o ≠ .bind) (h : combine o instrs l r sc = .ok c) :
    ∃ i, c.instrs = instrs ++ [i] ∧ c.instrs.getLast? = some i ∧ i.left = l ∧ i.right = r := by
  obtain ⟨i, h1, h2, h3, -⟩ := combine_ok hb h
  exact ⟨i, h1, by simp [h1], h2, h3⟩

/-- (b') `bind` with a value on the right appends exactly one instruction, whose right operand is
that value -/
theorem literal_reaches_operand_bind {instrs : List Instr} {l r : Reg} {sc : Scope} {c : CE}
    (hr : r ≠ .none) (h : combine .bind instrs l r sc = .ok c) :
    ∃ i, c.instrs = instrs ++ [i] ∧ c.instrs.getLast? = some i ∧ i.op = .bind ∧ i.right = r := by
  have := combineBind_ok hr h
  exact ⟨_, this, by simp [this], rfl, rfl⟩

example (sc : Scope) :
    combine .add [] (.tmp 0 (.num none)) (.immNum 7) sc =
      .ok ⟨[{ res := (sc.newTmp (.num none)).1, op := .add, left := .tmp 0 (.num none), right := .immNum 7 }],
           (sc.newTmp (.num none)).1, (sc.newTmp (.num none)).2⟩ := rfl

/-- (c) a report or control register with a numeric initial value gets a `Def` carrying it -/
theorem literal_reaches_operand_def_report {l : List (Name × Reg)} {name : Name} {i n : Nat} {v : Bool}
    (h : (name, .report i (.num (some n)) v) ∈ l) :
    { res := .report i (.num (some n)) v, op := .def, left := .report i (.num (some n)) v,
      right := .immNum n } ∈ defInstrs l :=
  defInstrs_mem_of_num h rfl rfl

theorem literal_reaches_operand_def_control {l : List (Name × Reg)} {name : Name} {i n : Nat} {v : Bool}
    (h : (name, .control i (.num (some n)) v) ∈ l) :
    { res := .control i (.num (some n)) v, op := .def, left := .control i (.num (some n)) v,
      right := .immNum n } ∈ defInstrs l :=
  defInstrs_mem_of_num h rfl rfl

/-- (c') and `defInstrs` emits nothing else: every instruction is the `Def` of a report/control entry
of the register file, with that entry's recorded initial value -/
theorem literal_reaches_operand_def_shape {l : List (Name × Reg)} {ins : Instr} (h : ins ∈ defInstrs l) :
    ∃ name reg, (name, reg) ∈ l ∧ isRC reg = true ∧ ins.res = reg ∧ ins.left = reg ∧ ins.op = .def ∧
      ((∃ n, reg.getType = .num (some n) ∧ ins.right = .immNum n) ∨
       (∃ b, reg.getType = .bool (some b) ∧ ins.right = .immBool b)) := by
  obtain ⟨name, reg, hm, hrc, hh⟩ := defInstrs_shape h
  refine ⟨name, reg, hm, hrc, ?_⟩
  rcases hh with ⟨n, ht, rfl⟩ | ⟨b, ht, rfl⟩
  · exact ⟨rfl, rfl, rfl, .inl ⟨n, ht, rfl⟩⟩
  · exact ⟨rfl, rfl, rfl, .inr ⟨b, ht, rfl⟩⟩

/-- (d) a compile-time override records exactly the supplied value as the register's initial value … -/
theorem literal_reaches_operand_override {sc sc' : Scope} {n : Name} {v : Nat} {r : Reg}
    (h : sc.updateType n (.num (some v)) = .ok (r, sc')) :
    sc'.get n = some r ∧ r.getType = .num (some v) := by
  obtain ⟨h1, -, h3, -⟩ := updateType_ok h
  exact ⟨h1, h3⟩

/-- … so the `Def` emitted for an overridden report/control register carries that value -/
theorem literal_reaches_operand_override_def {sc sc' : Scope} {n : Name} {v : Nat} {r : Reg}
    (h : sc.updateType n (.num (some v)) = .ok (r, sc')) (hrc : isRC r = true) :
    { res := r, op := .def, left := r, right := .immNum v } ∈ defInstrs sc'.named := by
  obtain ⟨-, h2, h3, -⟩ := updateType_ok h
  exact defInstrs_mem_of_num h2 hrc h3

example : (scopeXC (.num (some 0))).updateType "c".toList (.num (some 5)) =
    .ok (.control 0 (.num (some 5)) false, scopeXC (.num (some 5))) := by decide +kernel

/-! ## T4 — what libccp reads -/

/-- a serialized program contains no literal other than those below 2^31 and `+infinity` -/
theorem no_silent_truncation {bin : Bin} {bytes : Bytes} (h : bin.serialize = .ok bytes) :
    ∀ i ∈ bin.instrs, ∀ n, Reg.immNum n ∈ i.regs → n < 2^31 ∨ n = 2^64 - 1 := by
  obtain ⟨ib, hs, -⟩ := Bin.serialize_ok h
  intro i hi n hn
  obtain ⟨b, hb⟩ := serializeInstrs_ok_mem hs i hi
  obtain ⟨c, x, hc⟩ := Instr.serialize_ok_regs hb _ hn
  rcases (immNum_classIdx_ok hc).2 with ⟨h1, -⟩ | ⟨h2, -⟩
  · exact .inl h1
  · exact .inr h2

/-- the instruction records libccp reads from the image (followed by anything) -/
def readBack (bin : Bin) (bytes rest : Bytes) : List Libccp.InstrMsg :=
  Libccp.readInstrs bin.instrs.length (bytes.drop (16 * bin.events.length) ++ rest)

/-- and for each literal operand libccp reads class 1 and exactly the expected immediate: the
literal itself below 2^31, all-ones for `+infinity` -/
theorem literal_read_back {bin : Bin} {bytes : Bytes} (h : bin.serialize = .ok bytes) (rest : Bytes) :
    (readBack bin bytes rest).length = bin.instrs.length ∧
    ∀ (k : Nat) (i : Instr) (m : Libccp.InstrMsg), bin.instrs[k]? = some i → (readBack bin bytes rest)[k]? = some m →
      ∀ n, (i.res = .immNum n → m.resT = 1 ∧ expectedImm n = some m.resI) ∧
           (i.left = .immNum n → m.leftT = 1 ∧ expectedImm n = some m.leftI) ∧
           (i.right = .immNum n → m.rightT = 1 ∧ expectedImm n = some m.rightI) := by
  obtain ⟨ib, hs, rfl⟩ := Bin.serialize_ok h
  have hd : (bin.events.flatMap EvRec.serialize ++ ib).drop (16 * bin.events.length) = ib := by
    rw [← events_bytes_length, List.drop_left]
  obtain ⟨-, hm⟩ := readInstrs_serialize bin.instrs ib rest hs
  unfold readBack
  rw [hd]
  obtain ⟨hl, hg⟩ := instrsMatch_getElem hm
  refine ⟨hl, ?_⟩
  intro k i m hi hmk n
  obtain ⟨-, e1, e2, e3⟩ := hg k i m hi hmk
  have key : ∀ {c x : Nat}, (Reg.immNum n).classIdx = .ok (c, x) → c = 1 ∧ expectedImm n = some x := by
    intro c x hc
    obtain ⟨h1, h2⟩ := immNum_classIdx_ok hc
    refine ⟨h1, ?_⟩
    unfold expectedImm
    rcases h2 with ⟨a, rfl⟩ | ⟨rfl, rfl⟩
    · rw [if_pos a]
    · rfl
  refine ⟨fun e => ?_, fun e => ?_, fun e => ?_⟩
  · rw [e] at e1; exact key e1
  · rw [e] at e2; exact key e2
  · rw [e] at e3; exact key e3

/-- conversely: a literal the immediate field cannot hold makes serialization fail -/
theorem literal_too_big_rejected {bin : Bin} {i : Instr} {n : Nat} (hi : i ∈ bin.instrs)
    (hn : Reg.immNum n ∈ i.regs) (h1 : 2^31 ≤ n) (h2 : n ≠ 2^64 - 1) :
    ∀ bytes, bin.serialize ≠ .ok bytes := by
  intro bytes h
  rcases no_silent_truncation h i hi n hn with a | a
  · omega
  · exact h2 a

/-- … with an error (not a panic) when no instruction has an unbound placeholder operand or an
unlowered `And`/`Or` — which is the case for every program the compiler emits in the templates -/
theorem literal_too_big_rejected_err {bin : Bin} {i : Instr} {n : Nat} (hi : i ∈ bin.instrs)
    (hn : Reg.immNum n ∈ i.regs) (h1 : 2^31 ≤ n) (h2 : n ≠ 2^64 - 1)
    (hclean : ∀ j ∈ bin.instrs, j.clean) :
    bin.serialize = .err := by
  have hne := literal_too_big_rejected hi hn h1 h2
  have hp := serializeInstrs_ne_panic hclean
  unfold Bin.serialize at hne ⊢
  cases hs : serializeInstrs bin.instrs with
  | ok ib => exact absurd (by simp [hs]) (hne (bin.events.flatMap EvRec.serialize ++ ib))
  | err => rfl
  | panic => exact absurd hs hp

example : (Bin.mk [] [{ res := .tmp 0 (.num none), op := .add, left := .immNum 5, right := .immNum 4294967296 }]).serialize
    = .err := by decide
example : (Bin.mk [] [{ res := .tmp 0 (.num none), op := .add, left := .immNum 5, right := .immNum 6 }]).serialize
    = .ok [0, 7, 0, 0, 0, 0, 1, 5, 0, 0, 0, 1, 6, 0, 0, 0] := by decide

/-! ## T5 — the oracle agrees with the model on the templates -/

/-- the image the model produces for a template and an encodable literal with immediate `w` -/
def templateImage (pos : Pos) (w : Nat) : Bytes :=
  match pos with
  | .operand => operandPre ++ (1 :: le32 w)
  | .definition => definitionPre ++ (1 :: le32 w) ++ tailInstrs
  | .override => overridePre ++ (1 :: le32 w) ++ tailInstrs

/-- the oracle accepts an image that has the immediate operand `w` at the literal's position -/
theorem check_of_image (pos : Pos) (v : Option Nat) (w : Nat) (pre post : Bytes)
    (hv : v.bind expectedImm = some w) (hlen : pre.length = litOffset pos) :
    check pos v (.ok (pre ++ (1 :: le32 w) ++ post)) = true := by
  have hw : w < 2^32 := by
    cases v with
    | none => cases hv
    | some n => exact expectedImm_lt hv
  have h1 : bAt (pre ++ (1 :: le32 w) ++ post) (litOffset pos) = 1 := by
    rw [← hlen]
    simp [bAt, List.getD_eq_getElem?_getD]
  have h2 : (pre ++ (1 :: le32 w) ++ post).drop (litOffset pos + 1) = le32 w ++ post := by
    rw [← hlen, List.append_assoc, List.drop_append]
    simp
  have h3 : rd32 (le32 w ++ post) = w := by
    rw [rd32_le32_append]; omega
  simp only [check, hv, h1, h2, h3, beq_self_eq_true, Bool.and_true, decide_eq_true_eq]
  simp only [List.length_append, List.length_cons, le32_length, hlen]
  omega

/-- the model's image for the operand template: for every digit string, the literal is the right
operand of the body instruction, or the program is refused -/
theorem model_image_operand (ds : List Char) (hne : ds ≠ []) (hd : ∀ c ∈ ds, isAsciiDigit c = true) :
    imageOf (compileAndSerialize 1 (template .operand ds) []) =
      match (if digitsVal ds < 2^64 then some (digitsVal ds) else none).bind expectedImm with
      | some w => .ok (templateImage .operand w)
      | none => .err := by
  simp only [compileAndSerialize, compile, newWithScope, template, parse_operand ds hne hd, Out.pure_eq]
  by_cases hlt : digitsVal ds < 2^64
  · simp only [if_pos hlt, declare_x, applyUpdates, Out.bind_ok, compileProg_operand, Option.bind_some]
    have hs := imm_encoding_expected (digitsVal ds)
    cases he : expectedImm (digitsVal ds) with
    | some w =>
      rw [he] at hs
      have := serialize_operandBin (digitsVal ds) _ hs
      simp only [operandBin] at this
      simp only [this, Out.bind_ok, imageOf, templateImage]
    | none =>
      rw [he] at hs
      have := serialize_operandBin_err (digitsVal ds) hs
      simp only [operandBin] at this
      simp only [this, Out.bind_err, imageOf]
  · simp only [if_neg hlt, Out.bind_err, imageOf, Option.bind_none]

theorem model_image_definition (ds : List Char) (hne : ds ≠ []) (hd : ∀ c ∈ ds, isAsciiDigit c = true) :
    imageOf (compileAndSerialize 1 (template .definition ds) []) =
      match (if digitsVal ds < 2^64 then some (digitsVal ds) else none).bind expectedImm with
      | some w => .ok (templateImage .definition w)
      | none => .err := by
  simp only [compileAndSerialize, compile, newWithScope, template, parse_definition ds hne hd, Out.pure_eq]
  by_cases hlt : digitsVal ds < 2^64
  · simp only [if_pos hlt, declare_x, applyUpdates, Out.bind_ok, compileProg_definition, Option.bind_some]
    have hs := imm_encoding_expected (digitsVal ds)
    cases he : expectedImm (digitsVal ds) with
    | some w =>
      rw [he] at hs
      have := serialize_definitionBin (digitsVal ds) _ hs
      simp only [definitionBin] at this
      simp only [this, Out.bind_ok, imageOf, templateImage]
    | none =>
      rw [he] at hs
      have := serialize_definitionBin_err (digitsVal ds) hs
      simp only [definitionBin] at this
      simp only [this, Out.bind_err, imageOf]
  · simp only [if_neg hlt, Out.bind_err, imageOf, Option.bind_none]

/-- the override template: the source is fixed, the literal is the compile-time override `c = v` -/
theorem model_image_override (v : Nat) :
    imageOf (compileAndSerialize 1 (template .override []) [("c".toList, v)]) =
      match expectedImm v with
      | some w => .ok (templateImage .override w)
      | none => .err := by
  simp only [compileAndSerialize, compile, newWithScope, template, parse_override, declare_xc, Out.bind_ok,
    Out.pure_eq, applyUpdates_c, compileProg_override]
  have hs := imm_encoding_expected v
  cases he : expectedImm v with
  | some w =>
    rw [he] at hs
    have := serialize_overrideBin v _ hs
    simp only [overrideBin] at this
    simp only [this, Out.bind_ok, imageOf, templateImage]
  | none =>
    rw [he] at hs
    have := serialize_overrideBin_err v hs
    simp only [overrideBin] at this
    simp only [this, Out.bind_err, imageOf]

/-- the oracle accepts what the model produces on the operand template, for every digit string -/
theorem check_model_operand (ds : List Char) (hne : ds ≠ []) (hd : ∀ c ∈ ds, isAsciiDigit c = true) :
    check .operand (if digitsVal ds < 2^64 then some (digitsVal ds) else none)
      (imageOf (compileAndSerialize 1 (template .operand ds) [])) = true := by
  rw [model_image_operand ds hne hd]
  cases he : (if digitsVal ds < 2^64 then some (digitsVal ds) else none).bind expectedImm with
  | none => simp [check, he]
  | some w =>
    have := check_of_image .operand _ w operandPre [] he (by decide)
    simpa [templateImage] using this

theorem check_model_definition (ds : List Char) (hne : ds ≠ []) (hd : ∀ c ∈ ds, isAsciiDigit c = true) :
    check .definition (if digitsVal ds < 2^64 then some (digitsVal ds) else none)
      (imageOf (compileAndSerialize 1 (template .definition ds) [])) = true := by
  rw [model_image_definition ds hne hd]
  cases he : (if digitsVal ds < 2^64 then some (digitsVal ds) else none).bind expectedImm with
  | none => simp [check, he]
  | some w => exact check_of_image .definition _ w definitionPre tailInstrs he (by decide)

theorem check_model_override (v : Nat) :
    check .override (some v) (imageOf (compileAndSerialize 1 (template .override []) [("c".toList, v)])) = true := by
  rw [model_image_override v]
  cases he : expectedImm v with
  | none => simp [check, he]
  | some w => exact check_of_image .override (some v) w overridePre tailInstrs he (by decide)

/-- every literal below 2^31 is accepted, in operand and in definition position, and the image carries
exactly that value -/
theorem literal_below_2_31_accepted (ds : List Char) (hne : ds ≠ []) (hd : ∀ c ∈ ds, isAsciiDigit c = true)
    (h : digitsVal ds < 2^31) :
    imageOf (compileAndSerialize 1 (template .operand ds) []) = .ok (templateImage .operand (digitsVal ds)) ∧
    imageOf (compileAndSerialize 1 (template .definition ds) []) = .ok (templateImage .definition (digitsVal ds)) := by
  have hlt : digitsVal ds < 2^64 := by omega
  have he : expectedImm (digitsVal ds) = some (digitsVal ds) := by simp [expectedImm, h]
  rw [model_image_operand ds hne hd, model_image_definition ds hne hd]
  simp only [if_pos hlt, Option.bind_some, he, and_self]

/-- a literal the immediate field cannot hold is refused with an error, in operand and in definition
position (whether or not it fits `u64`) -/
theorem literal_unencodable_refused (ds : List Char) (hne : ds ≠ []) (hd : ∀ c ∈ ds, isAsciiDigit c = true)
    (h1 : 2^31 ≤ digitsVal ds) (h2 : digitsVal ds ≠ 2^64 - 1) :
    imageOf (compileAndSerialize 1 (template .operand ds) []) = .err ∧
    imageOf (compileAndSerialize 1 (template .definition ds) []) = .err := by
  have he : (if digitsVal ds < 2^64 then some (digitsVal ds) else none).bind expectedImm = none := by
    split
    · have : ¬ digitsVal ds < 2^31 := by omega
      simp [expectedImm, this, h2]
    · rfl
  rw [model_image_operand ds hne hd, model_image_definition ds hne hd]
  simp only [he, and_self]

/-- the decimal numeral for the largest 64-bit value is `+infinity`: all-ones immediate -/
example : imageOf (compileAndSerialize 1 (template .operand "18446744073709551615".toList) []) =
    .ok (templateImage .operand 4294967295) := by decide +kernel

/-- the oracle is not vacuous: it refuses a wrapped, a truncated and a silently accepted literal -/
example : check .operand (some 4294967296) (.ok (templateImage .operand 0)) = false := by decide
example : check .operand (some 5) (.ok (templateImage .operand 6)) = false := by decide
example : check .definition (some 2147483648) (.ok (templateImage .definition 2147483648)) = false := by decide
example : check .override (some 4294967295) (.ok (templateImage .override 4294967295)) = false := by decide
example : check .operand none (.ok (templateImage .operand 0)) = false := by decide
example : check .operand (some 5) (.ok (templateImage .operand 5)) = true := by decide
example : check .definition (some 18446744073709551615) (.ok (templateImage .definition 4294967295)) = true := by
  decide

end Portus.C14
