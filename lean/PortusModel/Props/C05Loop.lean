import PortusModel.Props.C05History
/-!
# C05 — from message histories to the receive loop

`install_before_use` (Props/C05History) is about `step` folded over a sequence of decoded messages. This file ties
that sequence to the loop model `runLoop` (receive path `Backend.next` + dispatch): the messages the backend yields
in a run, with the script items `recv` passed over before each, form a history (`yielded`) whose `runHistSf` run
transmits exactly what the loop transmits, in the same order (`loop_tx_eq_hist_tx`). Hence every transmission of the
loop is a transmission of a history for which `InstallBeforeUse` holds.
-/
namespace Portus.C05
open Portus Portus.Wire Portus.Ipc Portus.Rt

/-- the transmissions (successful or failed) of a trace, in order -/
def txOnly (evs : List Ev) : List Ev :=
  evs.filter fun e => match e with | .tx _ _ => true | .txFail _ => true | _ => false

theorem txOnly_append (a b : List Ev) : txOnly (a ++ b) = txOnly a ++ txOnly b := by
  simp [txOnly]

theorem txOnly_rxEvents (l : List Rx) : txOnly (rxEvents l) = [] := by
  induction l with
  | nil => rfl
  | cons x r ih => cases x <;> simp_all [rxEvents, txOnly]

@[simp] theorem txOnly_nil : txOnly [] = [] := rfl

theorem txOnly_dropAll {σ : Type} (fm : List (Nat × Flow σ)) : txOnly (dropAll fm) = [] := by
  unfold txOnly dropAll
  rw [List.filter_eq_nil_iff]
  intro e he
  obtain ⟨n, _, rfl⟩ := List.mem_map.mp he
  simp

theorem txOnly_shutdown {σ : Type} (st : St σ) : txOnly (shutdown st) = [] := txOnly_dropAll _

/-- the messages `b.next()` yields during a run of the loop, each with the script items `recv` passed over before it -/
def yielded {σ : Type} (cfg : Cfg) (pol : Policy σ) : Nat → Backend → List Rx → St σ → List (List Rx × Addr × Msg)
  | 0, _, _, _ => []
  | fuel + 1, b, rx, st =>
    match next b rx with
    | .ok (some (msg, addr), b', rx') =>
      match step cfg pol (applySf st (rx.take (rx.length - rx'.length))) addr msg with
      | .ok (.cont st' _) => (rx.take (rx.length - rx'.length), addr, msg) :: yielded cfg pol fuel b' rx' st'
      | .ok (.fail _ _) => [(rx.take (rx.length - rx'.length), addr, msg)]
      | _ => []
    | _ => []

/-- **the loop transmits exactly what the history of yielded messages transmits** -/
theorem loop_tx_eq_hist_tx {σ : Type} (cfg : Cfg) (pol : Policy σ) (fuel : Nat) (b : Backend) (rx : List Rx)
    (st : St σ) (acc : List Ev) (tr : List Ev) (r : Res)
    (h : runLoop cfg pol fuel b rx st acc = .ok (tr, r)) :
    txOnly tr = txOnly acc ++
      txOnly ((runHistSf cfg pol st (yielded cfg pol fuel b rx st)).flatMap fun x => x.2.2) := by
  induction fuel generalizing b rx st acc with
  | zero =>
    simp only [runLoop, Out.ok.injEq, Prod.mk.injEq] at h
    obtain ⟨rfl, _⟩ := h
    simp only [yielded, runHistSf, List.flatMap_nil, txOnly_append, txOnly_shutdown, txOnly_nil, List.append_nil]
  | succ fuel ih =>
    unfold runLoop at h
    unfold loopStep at h
    unfold yielded
    cases hn : next b rx with
    | panic => rw [hn] at h; cases h
    | err => rw [hn] at h; cases h
    | ok q =>
      obtain ⟨o, b', rx'⟩ := q
      rw [hn] at h
      cases o with
      | none =>
        simp only [Out.ok.injEq, Prod.mk.injEq] at h
        obtain ⟨rfl, _⟩ := h
        simp only [runHistSf, List.flatMap_nil, txOnly_append, txOnly_shutdown, txOnly_rxEvents, txOnly_nil,
          List.append_nil]
      | some ma =>
        obtain ⟨msg, addr⟩ := ma
        simp only at h ⊢
        cases hs : step cfg pol (applySf st (rx.take (rx.length - rx'.length))) addr msg with
        | panic => rw [hs] at h; cases h
        | err => rw [hs] at h; cases h
        | ok sr =>
          rw [hs] at h
          cases sr with
          | cont st' evs =>
            simp only at h ⊢
            have := ih b' rx' st' _ h
            rw [this]
            simp only [runHistSf, hs, List.flatMap_cons, txOnly_append, txOnly_rxEvents, List.nil_append,
              List.append_assoc]
          | fail st' evs =>
            simp only [Out.ok.injEq, Prod.mk.injEq] at h ⊢
            obtain ⟨rfl, _⟩ := h
            simp only [runHistSf, hs, List.flatMap_cons, List.flatMap_nil, txOnly_append, txOnly_rxEvents,
              txOnly_shutdown, txOnly_nil, List.append_nil, List.nil_append, List.append_assoc]

/-- … and that history satisfies install-before-use (C05History), whatever the datagrams, the framing, the receive
failures, the stop requests and the send-failure schedule were -/
theorem loop_history_install_before_use {σ : Type} (cfg : Cfg) (pol : Policy σ) (hb : pol.Bounded) (fuel : Nat)
    (b : Backend) (rx : List Rx) (sf : Nat) :
    installedOk cfg (runHistSf cfg pol { (St.init : St σ) with sendFail := sf }
      (yielded cfg pol fuel b rx { (St.init : St σ) with sendFail := sf })) = true :=
  install_before_use_sf cfg pol hb sf _

end Portus.C05
