import PortusModel.Lemmas.UidIndep
import PortusModel.Lemmas.CompileInv
/-!
# C20 — the documented language is accepted, and layout does not change meaning

T1 (this file): comments among statements do not change the image; compilation is deterministic (the
uid is only carried along); both spellings of every operator parse to the same operator.
T2 (`Lemmas/ParseRender.lean`, when present): every layout of a documented program parses to the same
syntax tree. `documented_accepted` (a typing judgement implying acceptance) is not proved: the claim is
partial, see DESIGN.md.
-/
namespace Portus.C20
open Portus Portus.Lang

/-! ## comments -/

/-- **Comments among the statements of an event do not lower to anything**: the compiled body depends
only on the non-comment statements. -/
theorem comments_do_not_lower (body : List Expr) (sc : Scope) :
    compileBody (body.filter (· ≠ .none)) sc = compileBody body sc := by
  induction body generalizing sc with
  | nil => rfl
  | cons e rest ih =>
    by_cases he : e = .none
    · subst he
      simp only [ne_eq, not_true_eq_false, decide_false, Bool.false_eq_true, not_false_eq_true,
        List.filter_cons_of_neg, compileBody, if_true]
      exact ih sc
    · rw [List.filter_cons_of_pos (by simpa using he)]
      simp only [compileBody, he, if_false]
      cases compileExpr e sc.clearTmps with
      | err => rfl
      | panic => rfl
      | ok c =>
        simp only [Out.bind_ok]
        split
        · rfl
        · rw [ih]

def stripComments (evs : List Event) : List Event := evs.map fun e => { e with body := e.body.filter (· ≠ .none) }

theorem compileEvents_strip (evs : List Event) (idx : Nat) (sc : Scope) :
    compileEvents (stripComments evs) idx sc = compileEvents evs idx sc := by
  induction evs generalizing idx sc with
  | nil => rfl
  | cons ev rest ih =>
    simp only [stripComments, List.map_cons, compileEvents]
    cases compileFlag ev.flag sc with
    | err => rfl
    | panic => rfl
    | ok p =>
      obtain ⟨fi, sc1⟩ := p
      simp only [Out.bind_ok]
      rw [comments_do_not_lower]
      cases compileBody ev.body sc1 with
      | err => rfl
      | panic => rfl
      | ok q =>
        obtain ⟨bi, sc2⟩ := q
        simp only [Out.bind_ok]
        have := ih (idx + fi.length + bi.length) sc2
        simp only [stripComments] at this
        rw [this]

/-- two event lists that differ only in comments compile to the same binary and scope -/
theorem comments_irrelevant (evs evs' : List Event) (h : stripComments evs = stripComments evs') (sc : Scope) :
    compileProg evs sc = compileProg evs' sc := by
  unfold compileProg
  simp only
  rw [← compileEvents_strip evs, ← compileEvents_strip evs', h]

/-! ## determinism -/

/-- **Compiling the same source twice** (under any two uids) gives the same instructions and event
table and the same name-to-register mapping; the scopes differ in the uid only. -/
theorem compile_deterministic (u v : Nat) (src : List Char) (upd : List (Name × Nat)) :
    (∀ bin sc, compile u src upd = .ok (bin, sc) → compile v src upd = .ok (bin, sc.withUid v)) ∧
    (compile u src upd = .err → compile v src upd = .err) ∧
    (∀ bin sc n, compile u src upd = .ok (bin, sc) → (sc.withUid v).get n = sc.get n) := by
  have h := compile_uid_indep u v src upd
  refine ⟨?_, ?_, ?_⟩
  · intro bin sc hc; rw [h, hc]; rfl
  · intro hc; rw [h, hc]; rfl
  · intro bin sc n _; rfl

/-- the serialized image is the same too -/
theorem image_deterministic (u v : Nat) (src : List Char) (upd : List (Name × Nat)) (img : Bytes) (sc : Scope)
    (h : compileAndSerialize u src upd = .ok (img, sc)) :
    compileAndSerialize v src upd = .ok (img, sc.withUid v) := by
  unfold compileAndSerialize at h ⊢
  cases hc : compile u src upd with
  | err => simp [hc] at h
  | panic => simp [hc] at h
  | ok p =>
    obtain ⟨bin, sc0⟩ := p
    rw [(compile_deterministic u v src upd).1 bin sc0 hc]
    simp only [hc, Out.bind_ok] at h ⊢
    cases hs : bin.serialize with
    | err => simp [hs] at h
    | panic => simp [hs] at h
    | ok b =>
      simp only [hs, Out.bind_ok, Out.pure_eq, Out.ok.injEq, Prod.mk.injEq] at h ⊢
      exact ⟨h.1, by rw [h.2]⟩

/-! ## spellings -/

/-- do `t` and `s` differ at a position both have? (then neither is a prefix of an extension of the other) -/
def firstDiff : List Char → List Char → Bool
  | a :: t, b :: s => if a ≠ b then true else firstDiff t s
  | _, _ => false

theorem firstDiff_not_prefix (t s : List Char) (h : firstDiff t s = true) (rest : List Char) :
    t.isPrefixOf (s ++ rest) = false := by
  induction t generalizing s with
  | nil => simp [firstDiff] at h
  | cons a t ih =>
    cases s with
    | nil => simp [firstDiff] at h
    | cons b s =>
      simp only [firstDiff] at h
      simp only [List.cons_append, List.isPrefixOf]
      by_cases hab : a = b
      · subst hab
        simp only [ne_eq, not_true_eq_false, if_false] at h
        simp [ih s h]
      · simp [hab]

def allPrefixFree {α : Type} : List (List Char × α) → Bool
  | [] => true
  | x :: rest => rest.all (fun y => firstDiff x.1 y.1) && allPrefixFree rest

theorem tag_self (s rest : List Char) : tag s (s ++ rest) = some ((), rest) := by
  unfold tag
  have : s.isPrefixOf (s ++ rest) = true := by
    induction s with
    | nil => rfl
    | cons a s ih => simp [List.isPrefixOf, ih]
  simp [this]

theorem altTags_spec {α : Type} (tbl : List (List Char × α)) (h : allPrefixFree tbl = true) :
    ∀ p ∈ tbl, ∀ rest, altTags tbl (p.1 ++ rest) = some (p.2, rest) := by
  induction tbl with
  | nil => intro p hp; cases hp
  | cons x tl ih =>
    simp only [allPrefixFree, Bool.and_eq_true, List.all_eq_true] at h
    obtain ⟨hx, htl⟩ := h
    intro p hp rest
    obtain ⟨s, a⟩ := x
    simp only [List.mem_cons] at hp
    simp only [altTags]
    rcases hp with rfl | hp
    · simp [tag_self]
    · have hnp : tag s (p.1 ++ rest) = none := by
        unfold tag
        rw [firstDiff_not_prefix s p.1 (hx p hp) rest]
        rfl
      rw [hnp]
      exact ih htl p hp rest

/-- **Both spellings of each of the sixteen operators** (symbolic and word) are read as the same
operator, whatever follows: the closed table of `ast::op`, with no alternative shadowing a later one. -/
theorem spelling_table : ∀ p ∈ opTable, ∀ rest, op (p.1 ++ rest) = some (p.2, rest) :=
  altTags_spec opTable (by decide)

/-- the sixteen operators, each with two spellings except `if`, `!if`, `ewma`, `max`, `min`, `wrapped_max` -/
theorem spellings_cover : (opTable.map (·.2)).eraseDups.length = 16 := by decide

end Portus.C20
