import PortusModel.Props.C01
import PortusModel.Lemmas.CompileLower2
import PortusModel.Lemmas.LowerSem2
/-!
# C01 — the simulation theorem: compile ⊑ lower ≈ Sem

`compiled_run_correct` composes the two halves of the proof:

* `compile_refines_lower`, `rhoOk_of_compile`, `defsFor_of_compile` (Lemmas/CompileLower*.lean): on a program of
  the fragment that the compiler and the encoder accept, the emitted instructions are the reference lowering under
  the final scope, and that scope/DEF preamble are as the simulation needs;
* `switch_sim`, `lower_run_correct` (Lemmas/LowerSem*.lean): after libccp's program switch the machine state
  represents the initial source state, and every invocation of the lowered program on the libccp machine shows the
  observation the source semantics denotes, as long as that semantics stays inside the fragment.

`check_accepts_compiled` restates it with the oracle that the correspondence check evaluates on the real datapath:
`C01.check` accepts the machine's run of the compiled program, for **every** input sequence.

What is proved is `_partial` with respect to the property as written (see DESIGN §5 C01): the hypotheses restrict the
program to the fragment (`InOracle` — pure conditions; statements binding value expressions, i.e. pure expressions
possibly containing hazard-free nested plain binds to ordinary variables, or `if`/`!if`/`ewma` over two such operands;
this is exactly the fragment the oracle `C01.check` decides, a superset of the former `Stratified` —, `LitsOk`,
`WritesOk`, literal initial values, at most six
locals, at least one event — the former hypothesis `DefBeforeUse` is gone since the repair F11: a name may be read
before, or without, being assigned; it then reads 0 on both sides) and the run to `&&`/`||` on truth values; the machine is the *decoded* program
(`progOf`: the model of what libccp holds after reading the install message — the byte-level decoding of the image
is validated by correspondence against the real libccp, not proved), entered through `vmInvoke` (an invocation with
nothing staged or pending).
-/
namespace Portus.C01
open Portus Portus.Lang Portus.Vm Portus.Lang.Frag

/-- the libccp program a compiled binary denotes once installed under uid `u` -/
def progOf (u : Nat) (bin : Bin) : Program :=
  mkProg u ⟨bin.events.map evToExpr, bin.instrs.map toVInstr⟩

/-- the connection state after libccp's program switch (`ccp_invoke` with a staged program): volatile reset,
register initialisation, `Micros` origin -/
def afterSwitch (env : Env) (p : Program) (c0 : Conn) (now : Val) : Conn :=
  let c1 := initRegisterState env p (resetState env p c0)
  { c1 with t0 := now, regs := { c1.regs with impl := c1.regs.impl.set 3 0 } }

theorem toVReg_cls7 {r : Reg} (hs : SerR r) (h : (toVReg r).cls = 7) : (toVReg r).idx < 8 := by
  obtain ⟨c, x, hc⟩ := hs
  have e : toVReg r = ⟨c, x⟩ := by simp only [toVReg, hc]
  rw [e] at h ⊢
  simp only at h ⊢
  subst h
  cases r <;> simp only [Reg.classIdx] at hc
  all_goals (repeat' (split at hc))
  all_goals (first | (cases hc; omega) | cases hc | (simp only [Out.ok.injEq, Prod.mk.injEq] at hc; omega))

theorem tmpsOk_of_serialize {bin : Bin} {img : Bytes} (h : bin.serialize = .ok img) :
    TmpsOk (bin.instrs.map toVInstr) := by
  intro i hi
  obtain ⟨j, hj, rfl⟩ := List.mem_map.mp hi
  obtain ⟨h1, h2, h3⟩ := serI_of_serialize h j hj
  exact ⟨toVReg_cls7 h1, toVReg_cls7 h2, toVReg_cls7 h3⟩

/-- **C01 (partial): the compiled program computes the source semantics, for every input sequence.** -/
theorem compiled_run_correct (uid u : Nat) (src : List Char) (upd : List (Name × Nat)) (ds : List Decl)
    (evs : List Event) (bin : Bin) (scF : Scope) (img : Bytes) (decls : List Sem.VarDecl)
    (hp : parseSource src = some (ds, evs))
    (hnd : (ds.map (·.var)).Nodup)
    (hfresh : ∀ d ∈ ds, (Scope.new uid).get d.var = none)
    (hc : compile uid src upd = .ok (bin, scF))
    (hser : bin.serialize = .ok img)
    (hv : varDecls ds upd = some decls)
    (hloc : scF.numLocal ≤ 6)
    (hne : evs ≠ [])
    (hst : InOracle evs = true)
    (hlits : LitsOk evs = true) (hwr : WritesOk evs = true)
    (env0 : Env) (c0 : Conn) (h0 : c0.regs = Regs.zero) (now : Val) (inputs : List Env) :
    match (Sem.run decls evs (Sem.initState decls now) inputs).mapM ofSem with
    | none => True
    | some exp => (vmRun (progOf u bin) (afterSwitch env0 (progOf u bin) c0 now) inputs).map ofVm = exp := by
  obtain ⟨ds', evs', sc0, hp', hd0, hcp⟩ := C13.compile_ok hc
  rw [hp] at hp'
  simp only [Option.some.injEq, Prod.mk.injEq] at hp'
  obtain ⟨rfl, rfl⟩ := hp'
  have hρ := rhoOk_of_compile uid src upd ds evs bin scF img decls hp hnd hfresh hc hser hv hloc
  have hd := defsFor_of_compile uid src upd ds evs sc0 bin scF img decls hp hnd hfresh hd0 hc hser hv
  have hlow := compile_refines_lower uid src upd ds evs sc0 bin scF img hp hd0 hcp hst hser
  have ht : TmpsOk (bin.instrs.map toVInstr) := tmpsOk_of_serialize hser
  obtain ⟨sim, wf⟩ := switch_sim hρ hd hne hlow u env0 c0 h0 now
  exact lower_run_correct hρ hd hne hst hlits hwr hlow ht u inputs _ _ sim wf

/-- the same, through the oracle of the correspondence check: `C01.check` accepts what the libccp machine shows
when it runs the compiled program from a fresh connection, whatever the inputs. No fragment hypothesis on the
expressions is needed any more: `check` itself tests `InOracle` (and is vacuously true outside it), which is the
fragment of `compiled_run_correct`. -/
theorem check_accepts_compiled (uid u : Nat) (src : List Char) (upd : List (Name × Nat)) (ds : List Decl)
    (evs : List Event) (bin : Bin) (scF : Scope) (img : Bytes)
    (hp : parseSource src = some (ds, evs))
    (hc : compile uid src upd = .ok (bin, scF))
    (hser : bin.serialize = .ok img)
    (hloc : scF.numLocal ≤ 6)
    (hne : evs ≠ [])
    (hlits : LitsOk evs = true) (hwr : WritesOk evs = true)
    (hfresh : ∀ d ∈ ds, (Scope.new uid).get d.var = none ↔ (Scope.new 0).get d.var = none)
    (env0 : Env) (rest : List Env) (c0 : Conn) (h0 : c0.regs = Regs.zero) :
    check src upd (env0 :: rest)
      ((vmRun (progOf u bin) (afterSwitch env0 (progOf u bin) c0 env0.now) (env0 :: rest)).map ofVm) = true := by
  unfold check
  rw [hp]
  simp only
  split
  · rfl
  · rename_i hst
    simp only [Bool.not_eq_true', Bool.not_eq_false] at hst
    split
    · rfl
    · rename_i hnames
      split
      · rfl
      · rename_i decls hv
        simp only [Bool.not_eq_true', Bool.not_eq_false, Bool.and_eq_true, decide_eq_true_eq, List.all_eq_true,
          Option.isNone_iff_eq_none] at hnames
        have hfr : ∀ d ∈ ds, (Scope.new uid).get d.var = none := fun d hd => (hfresh d hd).mpr (hnames.2 d hd)
        have := compiled_run_correct uid u src upd ds evs bin scF img decls hp hnames.1 hfr hc hser hv hloc hne
          hst hlits hwr env0 c0 h0 env0.now (env0 :: rest)
        split
        · rfl
        · rename_i exp he
          rw [he] at this
          simp only at this
          rw [this]
          exact beq_self_eq_true _

end Portus.C01

namespace Portus.C01
open Portus Portus.Lang Portus.Vm Portus.Lang.Frag

/-- all hypotheses of `check_accepts_compiled` about the program, as one decidable check (used for the
non-vacuity example below and by the driver to report how many generated programs the theorem covers) -/
def inTheorem (uid : Nat) (src : List Char) (upd : List (Name × Nat)) : Bool :=
  match parseSource src with
  | none => false
  | some (ds, evs) =>
    match compile uid src upd with
    | .ok (bin, scF) =>
      bin.serialize.isOk && decide (scF.numLocal ≤ 6) && !evs.isEmpty && InOracle evs &&
        LitsOk evs && WritesOk evs && decide ((ds.map (·.var)).Nodup) &&
        ds.all (fun d => ((Scope.new uid).get d.var).isNone) && (varDecls ds upd).isSome
    | _ => false

/-- non-vacuity: the example program of C13 (report and control variables, an update, arithmetic, a conditional
report) meets every hypothesis of the theorem -/
theorem exSrc_inTheorem : inTheorem 3 C13.exSrc [("bar".toList, 9)] = true := by decide +kernel

/-- non-vacuity outside the former hypothesis `DefBeforeUse`: `cexSrc2` — `(:= x y)` with `y` never assigned, then
`(:= x 3) (:= Report.acked x) (report)` — meets every hypothesis of the theorem, and is not `DefBeforeUse` -/
theorem cexSrc2_inTheorem : inTheorem 1 cexSrc2 [] = true := by decide +kernel

/-- non-vacuity on nested binds: `nestedSrc` — `Report.saved` is assigned *inside* the expression bound to
`Report.out` — meets every hypothesis of the theorem, and is not `Stratified` -/
theorem nestedSrc_inTheorem : inTheorem 1 nestedSrc [] = true := by decide +kernel

theorem nestedSrc_not_stratified :
    (match parseSource nestedSrc with
     | some (_, evs) => Stratified evs
     | none => true) = false := by decide +kernel

theorem cexSrc2_not_defBeforeUse :
    (match parseSource cexSrc2 with
     | some (ds, evs) => DefBeforeUse ds evs
     | none => true) = false := by decide +kernel

/-! ## concrete runs: a nested bind inside the theorem, and why `noHazard` is part of the fragment -/

/-- an input and a fresh connection for the concrete examples below -/
def exEnv : Env := ⟨100, 0, ⟨List.replicate 15 7, 10, 20⟩⟩
def exConn : Conn := { regs := Regs.zero, t0 := 0, programIndex := 1, staged := none, pending := Pending.none }

/-- the instance of `compiled_run_correct` on `nestedSrc`, by evaluation (kernel-checked): with every primitive
at 7 the source semantics and the libccp machine running the compiled code both report
`out = 7*2 + (7 + 1) = 22`, `saved = 7` -/
theorem nestedSrc_run :
    (match parseSource nestedSrc, compile 1 nestedSrc [] with
     | some (ds, evs), .ok (bin, _) =>
       match varDecls ds [] with
       | some decls =>
         decide ((Sem.run decls evs (Sem.initState decls 100) [exEnv]).mapM ofSem =
           some [.done (some 10) (some 20) (some [22, 7])]) &&
         decide ((vmRun (progOf 1 bin) (afterSwitch exEnv (progOf 1 bin) exConn 100) [exEnv]).map ofVm =
           [.done (some 10) (some 20) (some [22, 7])])
       | none => false
     | _, _ => false) = true := by decide +kernel

/-- a **guarded bind nested as a value**: `(:= Report.x (if (> Ack.bytes_acked 0) 7))` is an operand of `+`; the
operator before it reads the old `Report.x`, the one after it the new one -/
def guardedNestedSrc : List Char :=
  ("(def (Report (r 0) (x 1))) (when true " ++
   "(:= Report.r (+ (* Report.x 2) (+ (:= Report.x (if (> Ack.bytes_acked 0) 7)) (* Report.x 2)))) (report))").toList

/-- non-vacuity on nested guarded binds: `guardedNestedSrc` is in the fragment `InOracle` (kernel-checked) … -/
theorem guardedNestedSrc_inOracle :
    (match parseSource guardedNestedSrc with
     | some (_, evs) => InOracle evs
     | none => false) = true := by decide +kernel

/-- … it is not `Stratified`, and it meets every hypothesis of the theorem -/
theorem guardedNestedSrc_not_stratified :
    (match parseSource guardedNestedSrc with
     | some (_, evs) => Stratified evs
     | none => true) = false := by decide +kernel

theorem guardedNestedSrc_inTheorem : inTheorem 1 guardedNestedSrc [] = true := by decide +kernel

/-- the instance of `compiled_run_correct` on `guardedNestedSrc`, by evaluation (kernel-checked), two invocations
with every primitive at 7: the source semantics and the libccp machine running the compiled code both report
`r = 1*2 + (7 + 7*2) = 23`, `x = 7`, then `r = 7*2 + (7 + 7*2) = 35`, `x = 7` -/
theorem guardedNestedSrc_run :
    (match parseSource guardedNestedSrc, compile 1 guardedNestedSrc [] with
     | some (ds, evs), .ok (bin, _) =>
       match varDecls ds [] with
       | some decls =>
         decide ((Sem.run decls evs (Sem.initState decls 100) [exEnv, exEnv]).mapM ofSem =
           some [.done (some 10) (some 20) (some [23, 7]), .done (some 10) (some 20) (some [35, 7])]) &&
         decide ((vmRun (progOf 1 bin) (afterSwitch exEnv (progOf 1 bin) exConn 100) [exEnv, exEnv]).map ofVm =
           [.done (some 10) (some 20) (some [23, 7]), .done (some 10) (some 20) (some [35, 7])])
       | none => false
     | _, _ => false) = true := by decide +kernel

/-- **bare expression statements**: an operator expression used as a statement of a `when` body. The compiler
emits its code and leaves the result temporary unused; the source semantics evaluates it for its nested binds
(`(+ (:= Report.x 5) 2)` assigns `Report.x`) and its faults, and drops the value -/
def bareStmtSrc : List Char :=
  ("(def (Report (r 0) (x 1))) (when true (|| Flow.was_timeout false) (+ (:= Report.x 5) 2) (> Report.x 3) " ++
   "(:= Report.r Report.x) (report))").toList

/-- every primitive at 7, `Flow.was_timeout` a truth value (0) -/
def bareEnv : Env := ⟨100, 0, ⟨List.replicate 14 7 ++ [0], 10, 20⟩⟩

/-- non-vacuity on bare statements: `bareStmtSrc` is in the fragment `InOracle` (kernel-checked) … -/
theorem bareStmtSrc_inOracle :
    (match parseSource bareStmtSrc with
     | some (_, evs) => InOracle evs
     | none => false) = true := by decide +kernel

/-- … it is not `Stratified`, and it meets every hypothesis of the theorem -/
theorem bareStmtSrc_not_stratified :
    (match parseSource bareStmtSrc with
     | some (_, evs) => Stratified evs
     | none => true) = false := by decide +kernel

theorem bareStmtSrc_inTheorem : inTheorem 1 bareStmtSrc [] = true := by decide +kernel

/-- the instance of `compiled_run_correct` on `bareStmtSrc`, by evaluation (kernel-checked), two invocations: the
source semantics and the libccp machine running the compiled code (9 instructions: 2 DEF, the flag, one per bare
statement plus the nested bind, the final bind) both report `r = 5`, `x = 5` -/
theorem bareStmtSrc_run :
    (match parseSource bareStmtSrc, compile 1 bareStmtSrc [] with
     | some (ds, evs), .ok (bin, _) =>
       match varDecls ds [] with
       | some decls =>
         decide (bin.instrs.length = 9) &&
         decide ((Sem.run decls evs (Sem.initState decls 100) [bareEnv, bareEnv]).mapM ofSem =
           some [.done (some 10) (some 20) (some [5, 5]), .done (some 10) (some 20) (some [5, 5])]) &&
         decide ((vmRun (progOf 1 bin) (afterSwitch exEnv (progOf 1 bin) exConn 100) [bareEnv, bareEnv]).map ofVm =
           [.done (some 10) (some 20) (some [5, 5]), .done (some 10) (some 20) (some [5, 5])])
       | none => false
     | _, _ => false) = true := by decide +kernel

/-- a bare statement that faults: `(/ (:= Report.x 5) Ack.bytes_acked)` divides by zero when nothing was acked -/
def bareFaultSrc : List Char :=
  ("(def (Report (r 0) (x 1))) (when true (:= Report.r 9) (/ (:= Report.x 5) Ack.bytes_acked) " ++
   "(:= Report.r (+ Report.r Report.x)) (report))").toList

/-- `Ack.bytes_acked` = 0, every other primitive at 7 -/
def bareZeroEnv : Env := ⟨100, 0, ⟨0 :: List.replicate 14 7, 10, 20⟩⟩

theorem bareFaultSrc_inTheorem : inTheorem 1 bareFaultSrc [] = true := by decide +kernel

/-- the fault of a bare statement aborts the invocation on both sides (kernel-checked): with `Ack.bytes_acked = 0`
source semantics and compiled code both fault with libccp's division-by-zero code −92; with 7 both report
`r = 9 + 5 = 14`, `x = 5` -/
theorem bareFaultSrc_run :
    (match parseSource bareFaultSrc, compile 1 bareFaultSrc [] with
     | some (ds, evs), .ok (bin, _) =>
       match varDecls ds [] with
       | some decls =>
         decide ((Sem.run decls evs (Sem.initState decls 100) [bareZeroEnv, exEnv]).mapM ofSem =
           some [.fault (-92), .done (some 10) (some 20) (some [14, 5])]) &&
         decide ((vmRun (progOf 1 bin) (afterSwitch exEnv (progOf 1 bin) exConn 100) [bareZeroEnv, exEnv]).map ofVm =
           [.fault (-92), .done (some 10) (some 20) (some [14, 5])])
       | none => false
     | _, _ => false) = true := by decide +kernel

/-- `(:= x (+ (:= x 1) (:= x 2)))`: the left operand's result register is the register of `x`, which the right
operand assigns before the `+` instruction reads it -/
def hazardSrc : List Char :=
  "(def (Report (out 0))) (when true (:= x (+ (:= x 1) (:= x 2))) (:= Report.out x) (report))".toList

/-- **why `noHazard` is a hypothesis** (it is the only part of `InOracle` this program violates): the compiler and
the encoder accept `hazardSrc`; the source semantics (eager, left to right: `1 + 2`) reports 3, the libccp
machine running the compiled code reports 4 (`bind x x 1; bind x x 2; add t0 x x`). The documentation is silent
on such programs; the theorem and the oracle exclude them. -/
theorem hazard_discrepancy :
    (match parseSource hazardSrc, compile 1 hazardSrc [] with
     | some (ds, evs), .ok (bin, _) =>
       match varDecls ds [] with
       | some decls =>
         !InOracle evs && bin.serialize.isOk &&
         decide ((Sem.run decls evs (Sem.initState decls 100) [exEnv]).mapM ofSem =
           some [.done (some 10) (some 20) (some [3])]) &&
         decide ((vmRun (progOf 1 bin) (afterSwitch exEnv (progOf 1 bin) exConn 100) [exEnv]).map ofVm =
           [.done (some 10) (some 20) (some [4])])
       | none => false
     | _, _ => false) = true := by decide +kernel

end Portus.C01
