import PortusModel.Props.C06Acts
import PortusModel.Props.C11
/-!
# From `update_field(name, value)` to the datapath register — C11, C06 and the libccp model composed

The control direction of `Props/Vertical`: a flow that calls `update_field` on a control variable BY NAME makes the datapath run
its next invocation with that variable's register holding the requested value.

* `Datapath::update_field` resolves the name through the scope to the control register and builds ONE update-fields message with
  the requested value (`C11.update_field_spec`);
* libccp reads that message exactly, stages the pair, and applies it before the program runs at the next `ccp_invoke`
  (`C06.update_takes_effect`).
-/
namespace Portus.Vertical
open Portus Portus.Lang Portus.Wire Portus.Vm Portus.Rt

/-- **update by name reaches the register.** `name` is bound in the scope to control register `k ≤ 15` (any type, volatile or
not), is not reserved, `v` is a 32-bit value as the API takes it, the flow `sid` exists in the datapath with no program switch
staged and its program installed: the call succeeds, libccp accepts the bytes (return code 0), and the next invocation starts from
a state in which control register `k` — read through either class — holds `v`. -/
theorem update_by_name_reaches_register (sc : Scope) (sid : Nat) (name : Name) (v : Nat) (k : Nat) (t : Ty) (vol : Bool)
    (dp : Dp) (c : Conn) (p : Program) (now : Val) (prims : Prims)
    (hget : sc.get name = some (.control k t vol)) (hres : "__".toList.isPrefixOf name = false)
    (hk : k ≤ 15) (hv : v < 2^32) (hsid : sid < 2^32)
    (hc : getConn dp sid = some c) (hst : c.staged = none) (hp : lookupIndex dp c.programIndex = some p)
    (hk1 : k < c.regs.control.length) (hk2 : k < c.pending.control.length) :
    ∃ bytes dp', updateField sc sid [(name, v)] = .ok bytes ∧
      readMsg dp bytes = (dp', 0) ∧
      (∃ r, invoke dp' sid now prims = some r) ∧
      readReg ⟨now, 0, prims⟩ (C06.afterUpdate c [(.control k t vol, v)] prims) ⟨0, k⟩ = UInt64.ofNat v ∧
      readReg ⟨now, 0, prims⟩ (C06.afterUpdate c [(.control k t vol, v)] prims) ⟨8, k⟩ = UInt64.ofNat v := by
  have hk' : ¬ k > 15 := by omega
  have hser : ∃ bytes, serializeUpdateField ⟨sid, 1, [(.control k t vol, v)]⟩ = .ok bytes := by
    simp [serializeUpdateField, serializeWith, serializeUpdates, Reg.serialize, Reg.classIdx, hk']
  obtain ⟨bytes, hb⟩ := hser
  have hupd : updateField sc sid [(name, v)] = .ok bytes := by
    rw [← hb]
    have hr : resolveField sc (name, v) = .ok (.control k t vol, v) := by
      simp only [resolveField, hres, hget]; rfl
    simp only [updateField, resolveFields, hr]; rfl
  have hlast : C06.lastOf (C06.namesCtl k) [(Reg.control k t vol, v)] = some v := by
    simp only [C06.lastOf, C06.namesCtl, beq_self_eq_true, if_true]
  obtain ⟨dp', e1, e2, e3, e4⟩ := C06.update_takes_effect dp sid c ⟨sid, 1, [(.control k t vol, v)]⟩ bytes p k v now prims
    ⟨rfl, hsid, by intro q hq; simp only [List.mem_singleton] at hq; subst hq; show v < 2^64; omega⟩ rfl hc hb (by simp)
    (by intro f hf; simp only [List.mem_singleton] at hf; subst hf; rfl) hst hp hk1 hk2 hlast
  exact ⟨bytes, dp', hupd, e1, ⟨_, e2⟩, e3, e4⟩

end Portus.Vertical
