import PortusModel.Rt.Handle
import PortusModel.Props.C13
/-!
# C12 — report fields are looked up by name correctly or refused with the right error
`getFieldP` is the model of `Report::get_field` with the slice indexing kept as a panicking primitive.
-/
namespace Portus.C12
open Portus Portus.Lang Portus.Rt

/-- **No panic, and the decision table.** For every report (uid, values), name and scope: a scope
from another compilation ⇒ stale; otherwise an unbound name ⇒ not-found; a name bound to anything but
a report register ⇒ invalid-type; a report register whose slot is beyond the report ⇒
invalid-report; otherwise the value in exactly that slot. -/
theorem get_field_spec (uid : Nat) (fields : List Nat) (f : Name) (sc : Scope) :
    getFieldP uid fields f sc = .ok (
      if sc.uid ≠ uid then .error .stale
      else match sc.get f with
        | none => .error .notFound
        | some (.report idx _ _) => if h : idx < fields.length then .ok fields[idx] else .error .invalidReport
        | some _ => .error .invalidType) := by
  unfold getFieldP
  by_cases hu : sc.uid ≠ uid
  · simp [hu]
  · simp only [hu, if_false]
    cases hg : sc.get f with
    | none => rfl
    | some r =>
      cases r with
      | report idx t v =>
        simp only
        by_cases hlt : idx < fields.length
        · have : ¬ idx ≥ fields.length := by omega
          simp [idxP, hlt, this]
        · have : idx ≥ fields.length := by omega
          simp [hlt, this]
      | _ => rfl

theorem get_field_no_panic (uid : Nat) (fields : List Nat) (f : Name) (sc : Scope) :
    getFieldP uid fields f sc ≠ .panic := by
  rw [get_field_spec]; simp

/-- the executable `getField` used by the runtime model's flows agrees with it -/
theorem getField_eq (uid : Nat) (fields : List Nat) (f : Name) (sc : Scope) :
    getFieldP uid fields f sc = .ok (getField uid fields f sc) := by
  rw [get_field_spec]
  unfold getField
  congr 1
  by_cases hu : sc.uid ≠ uid
  · simp [hu]
  · simp only [hu, if_false]
    cases hg : sc.get f with
    | none => rfl
    | some r =>
      cases r with
      | report idx t v =>
        simp only
        by_cases hlt : idx < fields.length
        · simp [hlt]
        · simp [hlt]
      | _ => rfl

/-- **Stale first.** A scope from a different compilation (different uid) yields the stale-program
error whatever the name and the report contain — also for a recompilation of identical source. -/
theorem stale_scope (uid : Nat) (fields : List Nat) (f : Name) (sc : Scope) (h : sc.uid ≠ uid) :
    getFieldP uid fields f sc = .ok (.error .stale) := by
  rw [get_field_spec]; simp [h]

/-- **Only the variable's own slot.** A successful lookup returns the value at the index of the report
register the name is bound to — never a value from another slot. -/
theorem value_is_own_slot (uid : Nat) (fields : List Nat) (f : Name) (sc : Scope) (v : Nat)
    (h : getFieldP uid fields f sc = .ok (.ok v)) :
    sc.uid = uid ∧ ∃ idx t vol, sc.get f = some (.report idx t vol) ∧ fields[idx]? = some v := by
  rw [get_field_spec] at h
  injection h with h
  by_cases hu : sc.uid ≠ uid
  · simp [hu] at h
  · simp only [hu, if_false] at h
    refine ⟨by simpa using hu, ?_⟩
    cases hg : sc.get f with
    | none => rw [hg] at h; cases h
    | some r =>
      rw [hg] at h
      cases r with
      | report idx t vol =>
        simp only at h
        by_cases hlt : idx < fields.length
        · simp only [hlt, dite_true] at h
          injection h with h
          exact ⟨idx, t, vol, rfl, by simp [hlt, h]⟩
        · simp [hlt] at h
      | _ => cases h

/-- With C13 (`compile_scope_slots`): for the scope of an accepted program with distinct declared names,
the `k`-th declared report variable reads slot `k` of a report of the same program. -/
theorem declared_report_variable_reads_its_slot (uid : Nat) (src : List Char) (upd : List (Name × Nat))
    (ds : List Decl) (evs : List Event) (bin : Bin) (sc : Scope)
    (hp : parseSource src = some (ds, evs)) (hnd : (ds.map (·.var)).Nodup)
    (hfresh : ∀ d ∈ ds, (Scope.new uid).get d.var = none) (h : compile uid src upd = .ok (bin, sc))
    (fields : List Nat) (k : Nat) (hk : k < (reportsOf ds).length) (hf : k < fields.length) :
    getFieldP uid fields (reportsOf ds)[k].var sc = .ok (.ok fields[k]) := by
  obtain ⟨ha, _, ⟨_, _, hu, _⟩, _⟩ := C13.compile_scope_slots uid src upd ds evs bin sc hp hnd hfresh h
  rw [get_field_spec, ha k hk]
  simp [hu, hf]

/-- `C12.check`: the observed result of a lookup is the one the decision table prescribes. -/
def check (uid : Nat) (fields : List Nat) (f : Name) (sc : Scope) (obs : Out (Except GetErr Nat)) : Bool :=
  obs == .ok (getField uid fields f sc)

theorem check_model (uid : Nat) (fields : List Nat) (f : Name) (sc : Scope) :
    check uid fields f sc (getFieldP uid fields f sc) = true := by
  simp [check, getField_eq]

/-! ## Non-vacuity -/
example : getFieldP 7 [10, 20] "x".toList
    ⟨7, [("x".toList, .report 1 (.num none) true)], 0, 0, 1, []⟩ = .ok (.ok 20) := by decide
example : getFieldP 7 [10] "x".toList
    ⟨7, [("x".toList, .report 1 (.num none) true)], 0, 0, 1, []⟩ = .ok (.error .invalidReport) := by decide
example : getFieldP 8 [10, 20] "x".toList
    ⟨7, [("x".toList, .report 1 (.num none) true)], 0, 0, 1, []⟩ = .ok (.error .stale) := by decide

end Portus.C12
