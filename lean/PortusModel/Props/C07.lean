import PortusModel.Lemmas.WireEnc
import PortusModel.Wire.Libccp
/-!
# C07 — datapath→CCP messages survive an encode/decode round trip

For every create/measure/ready message with in-range fields: encoding succeeds, the bytes are exactly
what libccp's own writer produces for the same values, decoding them (with anything after them)
yields the message and consumes exactly its length, and a concatenation decodes to the sequence.
-/
namespace Portus.C07
open Portus Portus.Wire

/-- in-range create: 32-bit fields; name absent, or 1–63 bytes of valid UTF-8 without NUL -/
def wfCreate (m : Create) : Bool :=
  decide (m.sid < 2^32) && decide (m.cwnd < 2^32) && decide (m.mss < 2^32) && decide (m.srcIp < 2^32) &&
  decide (m.srcPort < 2^32) && decide (m.dstIp < 2^32) && decide (m.dstPort < 2^32) &&
  (match m.alg with
   | none => true
   | some c => decide (1 ≤ c.length) && decide (c.length ≤ 63) && c.all (· != 0) && validUtf8 c)

/-- in-range measurement: 0–255 values, count matches, 64-bit values -/
def wfMeasure (m : Measure) : Bool :=
  decide (m.sid < 2^32) && decide (m.uid < 2^32) && decide (m.numFields = m.fields.length) &&
  decide (m.fields.length ≤ 255) && m.fields.all (fun f => decide (f < 2^64))

def wfMsg : Msg → Bool
  | .cr c => wfCreate c
  | .ms m => wfMeasure m
  | .rdy id => decide (id < 2^32)
  | .other _ => false

def encodeMsg : Msg → Out Bytes
  | .cr c => serializeCreate c
  | .ms m => serializeMeasure m
  | .rdy id => serializeReady id
  | .other _ => .err

/-- the 64-byte `congAlg` array a datapath holds for this name (zero padded) -/
def nameBlock (alg : Option Bytes) : Bytes :=
  match alg with
  | none => zeros 64
  | some c => c ++ zeros (64 - c.length)

/-- the bytes libccp's writer emits for the same message -/
def libccpBytes : Msg → Bytes
  | .cr c => Libccp.writeCreate c.sid c.cwnd c.mss c.srcIp c.srcPort c.dstIp c.dstPort (nameBlock c.alg)
  | .ms m => Libccp.writeMeasure m.sid m.uid m.fields
  | .rdy id => Libccp.writeReady id
  | .other _ => []

/-- iterate `from_buf` over a buffer, as the receive path does over one datagram -/
def decodeAll : Nat → Bytes → Out (List (Msg × Nat))
  | 0, _ => .ok []
  | fuel + 1, buf =>
    if buf.isEmpty then .ok []
    else do
      let (m, n) ← fromBuf buf
      let r ← decodeAll fuel (buf.drop n)
      pure ((m, n) :: r)

def encodeAll : List Msg → Out Bytes
  | [] => .ok []
  | m :: ms => do
    let b ← encodeMsg m
    let r ← encodeAll ms
    pure (b ++ r)

/-! ## Oracle -/

/-- `C07.check ms enc dec`: for in-range messages `ms`, the observed encoding `enc` of their
concatenation is libccp's layout, and the observed iterated decoding `dec` of those bytes returns
the messages with their exact lengths. -/
def check (ms : List Msg) (enc : Out Bytes) (dec : Out (List (Msg × Nat))) : Bool :=
  !(ms.all wfMsg) ||
  (enc == .ok (ms.flatMap libccpBytes) &&
   dec == .ok (ms.map fun m => (m, (libccpBytes m).length)))

/-! ## Theorems -/

/-- the name part of `wfCreate` -/
def wfAlg (alg : Option Bytes) : Bool :=
  match alg with
  | none => true
  | some c => decide (1 ≤ c.length) && decide (c.length ≤ 63) && c.all (· != 0) && validUtf8 c

private theorem wfAlg_some {c : Bytes} (h : wfAlg (some c) = true) :
    1 ≤ c.length ∧ c.length ≤ 63 ∧ (∀ x ∈ c, x ≠ 0) ∧ validUtf8 c = true := by
  simp only [wfAlg, Bool.and_eq_true, decide_eq_true_eq] at h
  obtain ⟨⟨⟨n1, n2⟩, n3⟩, n4⟩ := h
  refine ⟨n1, n2, ?_, n4⟩
  intro x hx
  have := List.all_eq_true.mp n3 x hx
  simpa using this

private theorem nameBlock_length (alg : Option Bytes) (h : wfAlg alg = true) :
    (nameBlock alg).length = 64 := by
  cases alg with
  | none => simp [nameBlock]
  | some c =>
    obtain ⟨n1, n2, _, _⟩ := wfAlg_some h
    simp [nameBlock]; omega

private theorem nameBlock_nulPos (alg : Option Bytes) (h : wfAlg alg = true) :
    nulPos (nameBlock alg) = some (match alg with | none => 0 | some c => c.length) := by
  cases alg with
  | none =>
    show nulPos (zeros (63 + 1)) = some 0
    rw [zeros_succ]; simp [nulPos]
  | some c =>
    obtain ⟨n1, n2, n3, _⟩ := wfAlg_some h
    have : 64 - c.length = (63 - c.length) + 1 := by omega
    simp only [nameBlock]
    rw [this, zeros_succ]
    exact nulPos_append_zero c _ n3

private theorem nameBlock_algSpec (alg : Option Bytes) (h : wfAlg alg = true) :
    algSpec (nameBlock alg) = alg := by
  unfold algSpec
  rw [nameBlock_nulPos alg h]
  cases alg with
  | none => rfl
  | some c =>
    obtain ⟨n1, n2, n3, _⟩ := wfAlg_some h
    obtain ⟨k, hk⟩ : ∃ k, c.length = k + 1 := ⟨c.length - 1, by omega⟩
    show (match some c.length with | none => none | some 0 => none | some e => some (List.take e (nameBlock (some c)))) = some c
    rw [hk]
    show some (List.take (k+1) (c ++ zeros (64 - c.length))) = some c
    rw [List.take_left' hk]

private theorem createNameBlock_eq (alg : Option Bytes) (h : wfAlg alg = true) :
    createNameBlock alg = .ok (nameBlock alg) := by
  cases alg with
  | none => rfl
  | some c =>
    obtain ⟨n1, n2, _, _⟩ := wfAlg_some h
    have : ¬ c.length > 63 := by omega
    simp [createNameBlock, nameBlock, this]

private theorem wfCreate_iff (m : Create) (h : wfCreate m = true) :
    m.sid < 2^32 ∧ m.cwnd < 2^32 ∧ m.mss < 2^32 ∧ m.srcIp < 2^32 ∧ m.srcPort < 2^32 ∧
    m.dstIp < 2^32 ∧ m.dstPort < 2^32 ∧ wfAlg m.alg = true := by
  unfold wfCreate at h
  simp only [Bool.and_eq_true, decide_eq_true_eq] at h
  obtain ⟨⟨⟨⟨⟨⟨⟨h1, h2⟩, h3⟩, h4⟩, h5⟩, h6⟩, h7⟩, ha⟩ := h
  exact ⟨h1, h2, h3, h4, h5, h6, h7, ha⟩

/-- Encoding an in-range create gives exactly libccp's bytes. -/
theorem encode_create_is_libccp (m : Create) (h : wfCreate m = true) :
    serializeCreate m = .ok (libccpBytes (.cr m)) := by
  obtain ⟨_, _, _, _, _, _, _, ha⟩ := wfCreate_iff m h
  unfold serializeCreate serializeWith
  rw [createNameBlock_eq m.alg ha]
  simp [libccpBytes, Libccp.writeCreate, Libccp.writeHeader, serializeHeader, CREATE]

theorem encode_measure_is_libccp (m : Measure) (h : wfMeasure m = true) :
    serializeMeasure m = .ok (libccpBytes (.ms m)) := by
  unfold wfMeasure at h
  simp only [Bool.and_eq_true, decide_eq_true_eq] at h
  obtain ⟨⟨⟨⟨h1, h2⟩, h3⟩, h4⟩, h5⟩ := h
  unfold serializeMeasure serializeWith libccpBytes Libccp.writeMeasure Libccp.writeHeader
    serializeHeader MEASURE
  have : ¬ (8 + 8 + m.numFields * 8 > 65535) := by omega
  simp [h3]
  omega

theorem encode_ready_is_libccp (id : Nat) : serializeReady id = .ok (libccpBytes (.rdy id)) := by
  simp [serializeReady, serializeWith, libccpBytes, Libccp.writeReady, Libccp.writeHeader,
    serializeHeader, READY]

/-- Encoding succeeds for every in-range message and yields libccp's layout. -/
theorem encode_is_libccp (m : Msg) (h : wfMsg m = true) : encodeMsg m = .ok (libccpBytes m) := by
  cases m with
  | cr c => exact encode_create_is_libccp c h
  | ms m => exact encode_measure_is_libccp m h
  | rdy id => exact encode_ready_is_libccp id
  | other r => simp [wfMsg] at h

/-- What libccp writes for a create decodes to the values it was given (name = `algSpec` of the
in-memory name array), whatever follows in the buffer. -/
theorem libccp_create_decodes (sid cwnd mss sip sport dip dport : Nat) (block rest : Bytes)
    (hr : sid < 2^32 ∧ cwnd < 2^32 ∧ mss < 2^32 ∧ sip < 2^32 ∧ sport < 2^32 ∧ dip < 2^32 ∧ dport < 2^32)
    (hb : block.length = 64)
    (hu : ∀ e, nulPos block = some (e+1) → validUtf8 (block.take (e+1)) = true) :
    fromBuf (Libccp.writeCreate sid cwnd mss sip sport dip dport block ++ rest) =
      .ok (.cr { sid := sid, cwnd := cwnd, mss := mss, srcIp := sip, srcPort := sport,
                 dstIp := dip, dstPort := dport, alg := algSpec block }, 96) := by
  obtain ⟨h1, h2, h3, h4, h5, h6, h7⟩ := hr
  let body := le32 cwnd ++ le32 mss ++ le32 sip ++ le32 sport ++ le32 dip ++ le32 dport ++ block
  have hbody : body.length + 8 = 96 := by simp [body, hb]
  have e : Libccp.writeCreate sid cwnd mss sip sport dip dport block ++ rest
      = serializeHeader 0 96 sid ++ body ++ rest := by
    simp [Libccp.writeCreate, Libccp.writeHeader, serializeHeader, body, List.append_assoc]
  rw [e, fromBuf_eq, deserialize_header_body 0 96 sid body rest (by omega) h1 (by omega) hbody]
  simp only [fromRaw, CREATE, if_true]
  rw [createFromRaw_eq _ rfl]
  have hlen : body.length = 88 := by omega
  simp only [hlen, Nat.lt_irrefl, if_false]
  have r0 : rd32 body = cwnd := by
    simp only [body, List.append_assoc]; rw [rd32_le32_append]; omega
  have r4 : rd32 (body.drop 4) = mss := by
    have : body.drop 4 = le32 mss ++ (le32 sip ++ le32 sport ++ le32 dip ++ le32 dport ++ block) := by
      simp [body, le32]
    rw [this, rd32_le32_append]; omega
  have r8 : rd32 (body.drop 8) = sip := by
    have : body.drop 8 = le32 sip ++ (le32 sport ++ le32 dip ++ le32 dport ++ block) := by
      simp [body, le32]
    rw [this, rd32_le32_append]; omega
  have r12 : rd32 (body.drop 12) = sport := by
    have : body.drop 12 = le32 sport ++ (le32 dip ++ le32 dport ++ block) := by
      simp [body, le32]
    rw [this, rd32_le32_append]; omega
  have r16 : rd32 (body.drop 16) = dip := by
    have : body.drop 16 = le32 dip ++ (le32 dport ++ block) := by
      simp [body, le32]
    rw [this, rd32_le32_append]; omega
  have r20 : rd32 (body.drop 20) = dport := by
    have : body.drop 20 = le32 dport ++ block := by
      simp [body, le32]
    rw [this, rd32_le32_append]; omega
  have r24 : body.drop 24 = block := by simp [body, le32]
  simp only [r0, r4, r8, r12, r16, r20, r24]
  unfold algSpec
  cases hn : nulPos block with
  | none => simp
  | some e =>
    cases e with
    | zero => simp
    | succ e => simp [hu e hn]

/-- Special case: the datapath's name array holds `name`, a NUL, then anything. -/
theorem algSpec_of_name (name junk : Bytes) (h1 : 1 ≤ name.length) (h0 : ∀ x ∈ name, x ≠ 0) :
    algSpec (name ++ 0 :: junk) = some name := by
  unfold algSpec
  rw [nulPos_append_zero name junk h0]
  obtain ⟨k, hk⟩ : ∃ k, name.length = k + 1 := ⟨name.length - 1, by omega⟩
  rw [hk]
  show some (List.take (k+1) (name ++ 0 :: junk)) = some name
  rw [List.take_left' hk]

theorem libccp_measure_decodes (sid uid : Nat) (fields : List Nat) (rest : Bytes)
    (h1 : sid < 2^32) (h2 : uid < 2^32) (h3 : fields.length ≤ 255) (h4 : ∀ f ∈ fields, f < 2^64) :
    fromBuf (Libccp.writeMeasure sid uid fields ++ rest) =
      .ok (.ms { sid := sid, uid := uid, numFields := fields.length, fields := fields },
           16 + 8 * fields.length) := by
  let body := le32 uid ++ le32 fields.length ++ fields.flatMap le64
  have hbody : body.length + 8 = 8 + 8 + fields.length * 8 := by
    simp only [body, List.length_append, le32_length, flatMap_le64_length]; omega
  have e : Libccp.writeMeasure sid uid fields ++ rest
      = serializeHeader 1 (8 + 8 + fields.length * 8) sid ++ body ++ rest := by
    simp [Libccp.writeMeasure, Libccp.writeHeader, serializeHeader, body, List.append_assoc]
  rw [e, fromBuf_eq, deserialize_header_body 1 _ sid body rest (by omega) h1 (by omega) hbody]
  simp only [fromRaw, CREATE, MEASURE, Nat.succ_ne_zero, if_false, if_true]
  rw [measureFromRaw_eq _ rfl]
  have hlen : body.length = 8 + 8 * fields.length := by omega
  have r0 : rd32 body = uid := by
    simp only [body, List.append_assoc]; rw [rd32_le32_append]; omega
  have r4 : rd32 (body.drop 4) = fields.length := by
    have : body.drop 4 = le32 fields.length ++ fields.flatMap le64 := by simp [body, le32]
    rw [this, rd32_le32_append]; omega
  have r8 : body.drop 8 = fields.flatMap le64 := by simp [body, le32]
  simp only [hlen, r0, r4, r8]
  rw [if_neg (by omega), if_neg (by omega), if_pos (by omega)]
  have := fieldsSpec_flatMap fields h4 [] (by simp)
  simp only [List.append_nil] at this
  simp [this]
  omega

theorem libccp_ready_decodes (id : Nat) (rest : Bytes) (h : id < 2^32) :
    fromBuf (Libccp.writeReady id ++ rest) = .ok (.rdy id, 12) := by
  have e : Libccp.writeReady id ++ rest = serializeHeader 5 12 0 ++ le32 id ++ rest := by
    simp [Libccp.writeReady, Libccp.writeHeader, serializeHeader, List.append_assoc]
  rw [e, fromBuf_eq, deserialize_header_body 5 12 0 (le32 id) rest (by omega) (by omega) (by omega) (by simp)]
  have hr : readyFromRaw ⟨5, 12, 0, le32 id⟩ = .ok id := by
    rw [readyFromRaw_eq _ rfl]; simp [rd32_le32 id h]
  simp [fromRaw, CREATE, MEASURE, READY, hr]

/-- **Round trip.** Decoding the encoding of an in-range message, with arbitrary bytes after it,
returns an equal message and consumes exactly the encoded length. -/
theorem decode_encode (m : Msg) (h : wfMsg m = true) (rest : Bytes) :
    ∃ b, encodeMsg m = .ok b ∧ b = libccpBytes m ∧ 0 < b.length ∧
      fromBuf (b ++ rest) = .ok (m, b.length) := by
  refine ⟨libccpBytes m, encode_is_libccp m h, rfl, ?_⟩
  cases m with
  | cr c =>
    obtain ⟨h1, h2, h3, h4, h5, h6, h7, ha⟩ := wfCreate_iff c h
    have hbl := nameBlock_length c.alg ha
    have hlen : (libccpBytes (.cr c)).length = 96 := by
      simp [libccpBytes, Libccp.writeCreate, Libccp.writeHeader, hbl]
    have hu : ∀ e, nulPos (nameBlock c.alg) = some (e+1) →
        validUtf8 ((nameBlock c.alg).take (e+1)) = true := by
      intro e he
      have hs := nameBlock_algSpec c.alg ha
      unfold algSpec at hs
      rw [he] at hs
      simp only at hs
      rw [← hs] at ha
      exact (wfAlg_some ha).2.2.2
    constructor
    · omega
    · rw [hlen]
      have := libccp_create_decodes c.sid c.cwnd c.mss c.srcIp c.srcPort c.dstIp c.dstPort
        (nameBlock c.alg) rest ⟨h1, h2, h3, h4, h5, h6, h7⟩ hbl hu
      rw [nameBlock_algSpec c.alg ha] at this
      exact this
  | ms m =>
    unfold wfMsg wfMeasure at h
    simp only [Bool.and_eq_true, decide_eq_true_eq] at h
    obtain ⟨⟨⟨⟨h1, h2⟩, h3⟩, h4⟩, h5⟩ := h
    have h5' : ∀ f ∈ m.fields, f < 2^64 := by
      intro f hf; have := List.all_eq_true.mp h5 f hf; simpa using this
    have hlen : (libccpBytes (.ms m)).length = 16 + 8 * m.fields.length := by
      simp only [libccpBytes, Libccp.writeMeasure, Libccp.writeHeader, List.length_append,
        le16_length, le32_length, flatMap_le64_length]
    constructor
    · omega
    · rw [hlen]
      have := libccp_measure_decodes m.sid m.uid m.fields rest h1 h2 h4 h5'
      have hm : m = { sid := m.sid, uid := m.uid, numFields := m.fields.length, fields := m.fields } := by
        cases m; simp_all
      rw [← hm] at this
      exact this
  | rdy id =>
    simp only [wfMsg, decide_eq_true_eq] at h
    have hlen : (libccpBytes (.rdy id)).length = 12 := by
      simp [libccpBytes, Libccp.writeReady, Libccp.writeHeader]
    exact ⟨by omega, by rw [hlen]; exact libccp_ready_decodes id rest h⟩
  | other r => simp [wfMsg] at h

/-- **Concatenation.** Encoding any list of in-range messages and decoding the concatenation
iteratively returns the same sequence, each with its exact length, for every list length. -/
theorem decode_concat (ms : List Msg) (h : ms.all wfMsg = true) :
    encodeAll ms = .ok (ms.flatMap libccpBytes) ∧
    ∀ fuel, ms.length < fuel →
      decodeAll fuel (ms.flatMap libccpBytes) = .ok (ms.map fun m => (m, (libccpBytes m).length)) := by
  induction ms with
  | nil =>
    refine ⟨rfl, ?_⟩
    intro fuel hf
    cases fuel with
    | zero => simp at hf
    | succ k => simp [decodeAll]
  | cons m ms ih =>
    simp only [List.all_cons, Bool.and_eq_true] at h
    obtain ⟨hm, hms⟩ := h
    obtain ⟨ih1, ih2⟩ := ih hms
    obtain ⟨b, hb1, hb2, hb3, hb4⟩ := decode_encode m hm (ms.flatMap libccpBytes)
    subst hb2
    constructor
    · simp [encodeAll, hb1, ih1]
    · intro fuel hf
      cases fuel with
      | zero => simp at hf
      | succ k =>
        have hne : (libccpBytes m ++ ms.flatMap libccpBytes).isEmpty = false := by
          cases hx : libccpBytes m with
          | nil => rw [hx] at hb3; simp at hb3
          | cons a t => rfl
        simp only [List.flatMap_cons, decodeAll, hne]
        rw [hb4]
        simp only [Out.bind_ok, List.drop_left', Bool.false_eq_true, if_false]
        rw [ih2 k (by simpa using hf)]
        simp

/-- The oracle accepts the model's behaviour on every list of messages. -/
theorem check_model (ms : List Msg) :
    check ms (encodeAll ms) (match encodeAll ms with
      | .ok b => decodeAll (b.length + 1) b | .err => .err | .panic => .panic) = true := by
  unfold check
  by_cases h : ms.all wfMsg = true
  · obtain ⟨h1, h2⟩ := decode_concat ms h
    rw [h1]
    have hf : ms.length < (ms.flatMap libccpBytes).length + 1 := by
      clear h1 h2
      induction ms with
      | nil => simp
      | cons m ms ih =>
        simp only [List.all_cons, Bool.and_eq_true] at h
        obtain ⟨b, _, hb2, hb3, _⟩ := decode_encode m h.1 []
        subst hb2
        have := ih h.2
        simp only [List.flatMap_cons, List.length_append, List.length_cons]; omega
    simp only [h, Bool.not_true, Bool.false_or]
    rw [h2 _ hf]
    simp
  · simp [h]

/-! ## Non-vacuity -/
example : wfMsg (.cr ⟨1, 2, 3, 4, 5, 6, 7, some [0x72, 0x65, 0x6e, 0x6f]⟩) = true := by decide
example : wfMsg (.ms ⟨9, 8, 2, [5, 2^64 - 1]⟩) = true := by decide
example : (encodeMsg (.ms ⟨9, 8, 2, [5, 2^64 - 1]⟩)).isOk = true := by decide

end Portus.C07
