import PortusModel.Generated.Tables
import PortusModel.Lang.Scope
import PortusModel.Lang.Serialize
import PortusModel.Wire.Ctl
import PortusModel.Wire.LibccpRead
import PortusModel.Vm.Machine
import PortusModel.Rt.Handle
/-!
# The closed tables, tied to the SOURCES on every run (DESIGN 11.7)

`Generated/Tables.lean` is rewritten by `tools/extract_tables.py` from `/repo/src` and from libccp 1.2.0's headers each time a
check that depends on it runs. The theorems below are therefore re-checked against what the code says now:

* **source = model** — the operator spellings, the opcode numbering, the register class codes and index limits, the built-in
  names with their types and indices, the message type codes and the `get_hdr` length formulas that the hand-written model uses
  (and every theorem about `opTable`, `serializeOp`, `Reg.classIdx`, `Scope.new`, `serialize*` therefore speaks about) are the
  ones in the Rust source;
* **portus = libccp** — the numbering portus emits is the numbering libccp's headers define (the "opcode and register-class
  numbering shared with libccp" of C01, the "fixed indices libccp defines" of C13, the register files of C03, the struct
  layouts' constants of C04/C06/C07), and the constants of the libccp *model* (`Vm/*`, `Wire/LibccpRead`) are libccp's.

Every statement is about closed finite data and is decided by the kernel (`decide`); nothing here is sampled.
-/
namespace Portus.Tables
open Portus Portus.Lang Portus.Wire Portus.Generated.Tables

/-! ## source = model -/

/-- `ast::op`: same spellings, same operators, same order of alternatives as the model's `opTable` -/
theorem src_opTable_eq : srcOpTable.map (·.map fun p => (p.1.toList, p.2)) = some Lang.opTable := by
  decide +kernel

/-- all seventeen operators -/
def allOps : List Op :=
  [.add, .and, .bind, .def, .div, .equiv, .ewma, .gt, .if, .lt, .max, .maxWrap, .min, .mul, .notIf, .or, .sub]

theorem allOps_complete (o : Op) : o ∈ allOps := by cases o <;> decide

def opcodeOut : Option Nat → Out Nat
  | some c => .ok c
  | none => .panic

/-- `serialize_op`: the source's match has one arm per operator and the model's `serializeOp` is that match -/
theorem src_opcodes_eq :
    srcOpcodes.map (·.map (·.1)) = some allOps ∧
    ∀ l, srcOpcodes = some l → ∀ p ∈ l, serializeOp p.1 = opcodeOut p.2 := by
  constructor
  · decide +kernel
  · intro l hl
    have : l = (srcOpcodes.getD []) := by rw [hl]; rfl
    subst this
    decide +kernel

/-- the model's register encoder written over a `RegEnc` table -/
def classIdxOf (e : RegEnc) : Reg → Out (Nat × Nat)
  | .control i _ vol => if i > e.ctlMax then .err else .ok (if vol then e.ctlVol else e.ctlNonvol, i)
  | .immBool b => .ok (e.immBool, if b then 1 else 0)
  | .immNum n => if n = 2^64 - 1 ∨ n < 2^e.immNumLog then .ok (e.immNum, n % 2^32) else .err
  | .implicit i _ => if i > e.implMax then .err else .ok (e.impl, i)
  | .local i _ => if i > e.locMax then .err else .ok (e.loc, i)
  | .primitive i _ => if i > e.primMax then .err else .ok (e.prim, i)
  | .report i _ vol => if i > e.repMax then .err else .ok (if vol then e.repVol else e.repNonvol, i)
  | .tmp i _ => if i > e.tmpMax then .err else .ok (e.tmp, i)
  | .none => if e.noneUnreachable then unreachableP else .err

/-- `impl IntoIterator for Reg`: the model's `Reg.classIdx` is the encoder over the table read from the source -/
theorem src_regEnc_eq (r : Reg) : r.classIdx = classIdxOf srcRegEnc r := by
  cases r <;> rfl

theorem src_reg_layout : srcRegEnc.layout5 = true := by decide

/-- `Scope::new`: the built-in names, their types and (list position = index) are the model's -/
theorem src_builtins_eq :
    srcPrimitives = some primitiveNames ∧ srcImplicits = some implicitNames ∧ srcBuiltinsIndexedFrom0 = true := by
  decide +kernel

/-- message type codes and the header length -/
theorem src_msgTypes_eq :
    srcMsgTypes = [("CHANGEPROG", CHANGEPROG), ("CREATE", CREATE), ("INSTALL", INSTALL), ("MEASURE", MEASURE),
                   ("READY", READY), ("UPDATE_FIELD", UPDATE_FIELD)] ∧ srcHdrLength = 8 := by
  decide +kernel

/-- the `get_hdr` length formulas the model's encoders use are the source's -/
theorem src_lengths_eq :
    (∀ m, serializeCreate m = serializeWith CREATE (srcCreateLen srcHdrLength) m.sid (do
        let nb ← createNameBlock m.alg
        pure (le32 m.cwnd ++ le32 m.mss ++ le32 m.srcIp ++ le32 m.srcPort ++ le32 m.dstIp ++ le32 m.dstPort ++ nb))) ∧
    (∀ m, serializeMeasure m = serializeWith MEASURE (srcMeasureLen srcHdrLength m.numFields) m.sid
        (pure (le32 m.uid ++ le32 m.numFields ++ m.fields.flatMap le64))) ∧
    (∀ id, serializeReady id = serializeWith READY (srcReadyLen srcHdrLength) 0 (pure (le32 id))) ∧
    (∀ m, serializeInstall m = u32LenP (srcInstallLen srcHdrLength m.numEvents m.numInstrs)
        (serializeWith INSTALL (srcInstallLen srcHdrLength m.numEvents m.numInstrs) m.sid (do
          let b ← m.bin.serialize
          pure (le32 m.uid ++ le32 m.numEvents ++ le32 m.numInstrs ++ b)))) ∧
    (∀ m, serializeChangeProg m = u32LenP (srcChangeprogLen srcHdrLength m.numFields)
        (serializeWith CHANGEPROG (srcChangeprogLen srcHdrLength m.numFields) m.sid (do
          let b ← serializeUpdates m.fields
          pure (le32 m.uid ++ le32 m.numFields ++ b)))) ∧
    (∀ m, serializeUpdateField m = serializeWith UPDATE_FIELD (srcUpdateFieldLen srcHdrLength m.numFields) m.sid (do
          let b ← serializeUpdates m.fields
          pure (le32 m.numFields ++ b))) :=
  ⟨fun _ => rfl, fun _ => rfl, fun _ => rfl, fun _ => rfl, fun _ => rfl, fun _ => rfl⟩

/-! ## the decision logic of the flow's handle and of `Report::get_field` (`src/lib.rs`) -/

open Portus.Rt in
/-- the model's resolution closure written over an `UpdFilter` -/
def resolveFieldOf (u : UpdFilter) (sc : Scope) (f : Name × Nat) : Out (Reg × Nat) :=
  if u.reservedPrefix.toList.isPrefixOf f.1 then .err
  else match sc.get f.1 with
    | none => .err
    | some (.control i t v) => .ok (.control i t v, f.2)
    | some (.implicit i t) => if u.implicitOk.contains i then .ok (.implicit i t, f.2) else .err
    | some _ => .err

/-- what the source's closure says, as read on this run -/
theorem src_updFilter_eq :
    srcUpdFilter = { recognised := true, sameInBoth := true, reservedPrefix := "__", implicitOk := [4, 5] } := by
  decide +kernel

/-- `Datapath::set_program` / `update_field`: the model's `resolveField` is the closure over the filter read from the source
(reserved prefix, control registers and the implicit registers 4 = Cwnd, 5 = Rate only, value passed on unchanged) -/
theorem src_resolveField_eq (sc : Scope) (f : Name × Nat) : Rt.resolveField sc f = resolveFieldOf srcUpdFilter sc f := by
  rw [src_updFilter_eq]
  unfold Rt.resolveField resolveFieldOf
  by_cases hp : "__".toList.isPrefixOf f.1 = true
  · simp only [hp, if_true]
  · simp only [hp]
    cases hg : sc.get f.1 with
    | none => rfl
    | some r =>
      cases r with
      | implicit i t =>
        by_cases h4 : i = 4
        · subst h4; rfl
        · by_cases h5 : i = 5
          · subst h5; rfl
          · simp [h4, h5]
      | _ => rfl

/-- Rust error type of each refusal of `Report::get_field` ↦ the model's error kind -/
def gfErr : String → Option Rt.GetErr
  | "StaleProgramError" => some .stale
  | "FieldNotFoundError" => some .notFound
  | "InvalidRegTypeError" => some .invalidType
  | "InvalidReportError" => some .invalidReport
  | _ => none

/-- `Report::get_field` written over the table read from the source (`none` = an error type the model does not know) -/
def getFieldOf (g : GfTable) (reportUid : Nat) (fields : List Nat) (field : Name) (sc : Scope) : Option (Except Rt.GetErr Nat) :=
  if !g.recognised then none
  else if sc.uid ≠ reportUid then (gfErr g.staleErr).map .error
  else match sc.get field with
    | none => (gfErr g.notFoundErr).map .error
    | some (.report idx _ _) =>
      if (if g.boundIsGe then idx ≥ fields.length else idx > fields.length) then (gfErr g.shortErr).map .error
      else some (.ok (fields.getD idx 0))
    | some _ => (gfErr g.wrongClassErr).map .error

theorem src_getFieldTable_eq :
    srcGetField = { recognised := true, staleErr := "StaleProgramError", boundIsGe := true, shortErr := "InvalidReportError",
                    wrongClassErr := "InvalidRegTypeError", notFoundErr := "FieldNotFoundError" } := by
  decide +kernel

/-- `Report::get_field`: the model's `getField` is the decision sequence read from the source - uid comparison first, then the
lookup, the register class, the bound - with the source's error type at each refusal -/
theorem src_getField_eq (uid : Nat) (fields : List Nat) (f : Name) (sc : Scope) :
    getFieldOf srcGetField uid fields f sc = some (Rt.getField uid fields f sc) := by
  rw [src_getFieldTable_eq]
  unfold getFieldOf Rt.getField
  simp only [Bool.not_true, Bool.false_eq_true, if_false, if_true]
  by_cases hu : sc.uid ≠ uid
  · simp [hu, gfErr]
  · simp only [hu, if_false]
    cases hg : sc.get f with
    | none => simp [gfErr]
    | some r =>
      cases r with
      | report idx ty vol =>
        by_cases hi : idx ≥ fields.length
        · have h1 : fields[idx]? = none := by simp; omega
          simp [hi, h1, gfErr]
        · have hlt : idx < fields.length := by omega
          have h1 : fields[idx]? = some fields[idx] := by simp [hlt]
          simp [hi, h1, List.getD]
      | _ => simp [gfErr]

/-! ## portus = libccp -/

def lookupC (k : String) (l : List (String × Nat)) : Option Nat := (l.find? (·.1 == k)).map (·.2)

/-- `a ≤` the looked-up constant (false when the constant is missing) -/
def leC (a : Nat) : Option Nat → Bool
  | some b => a ≤ b
  | none => false

/-- libccp's macro name of each operator portus can emit -/
def opCName : Op → Option String
  | .add => some "ADD" | .bind => some "BIND" | .def => some "DEF" | .div => some "DIV" | .equiv => some "EQUIV"
  | .ewma => some "EWMA" | .gt => some "GT" | .if => some "IF" | .lt => some "LT" | .max => some "MAX"
  | .maxWrap => some "MAXWRAP" | .min => some "MIN" | .mul => some "MUL" | .notIf => some "NOTIF" | .sub => some "SUB"
  | .and => none | .or => none

/-- one row of `serialize_op` against libccp's macros: an operator libccp has an instruction for carries exactly that
macro's value, below `MAX_OP`; an operator without one (`&&`, `||`) has no opcode -/
def opRowOk (p : Op × Option Nat) : Bool :=
  match opCName p.1 with
  | some nm => p.2.isSome && (lookupC nm ccpOpcodes == p.2) && leC (p.2.getD 0 + 1) (lookupC "MAX_OP" ccpOpcodes)
  | none => p.2.isNone

/-- every opcode `serialize_op` can produce is the value of libccp's macro for that operator, the operators without an opcode
(`&&`, `||`) are exactly the ones libccp has no instruction for, and all opcodes are below `MAX_OP` -/
theorem opcodes_shared_with_libccp : ∀ l, srcOpcodes = some l → ∀ p ∈ l, opRowOk p = true := by
  intro l hl
  have : l = (srcOpcodes.getD []) := by rw [hl]; rfl
  subst this
  decide +kernel

/-- register class bytes are libccp's -/
theorem regclasses_shared_with_libccp :
    lookupC "NONVOLATILE_CONTROL_REG" ccpRegClasses = some srcRegEnc.ctlNonvol ∧
    lookupC "VOLATILE_CONTROL_REG" ccpRegClasses = some srcRegEnc.ctlVol ∧
    lookupC "IMMEDIATE_REG" ccpRegClasses = some srcRegEnc.immBool ∧
    lookupC "IMMEDIATE_REG" ccpRegClasses = some srcRegEnc.immNum ∧
    lookupC "IMPLICIT_REG" ccpRegClasses = some srcRegEnc.impl ∧
    lookupC "LOCAL_REG" ccpRegClasses = some srcRegEnc.loc ∧
    lookupC "PRIMITIVE_REG" ccpRegClasses = some srcRegEnc.prim ∧
    lookupC "VOLATILE_REPORT_REG" ccpRegClasses = some srcRegEnc.repVol ∧
    lookupC "NONVOLATILE_REPORT_REG" ccpRegClasses = some srcRegEnc.repNonvol ∧
    lookupC "TMP_REG" ccpRegClasses = some srcRegEnc.tmp := by
  decide +kernel

/-- every index the encoder accepts lies inside libccp's register file of that class (and the primitive indices inside
the 15 primitives libccp defines) -/
theorem indices_fit_libccp :
    leC (srcRegEnc.tmpMax + 1) (lookupC "MAX_TMP_REG" ccpLimits) = true ∧
    leC (srcRegEnc.locMax + 1) (lookupC "MAX_LOCAL_REG" ccpLimits) = true ∧
    leC (srcRegEnc.repMax + 1) (lookupC "MAX_REPORT_REG" ccpLimits) = true ∧
    leC (srcRegEnc.ctlMax + 1) (lookupC "MAX_CONTROL_REG" ccpLimits) = true ∧
    leC (srcRegEnc.implMax + 1) (lookupC "MAX_IMPLICIT_REG" ccpLimits) = true ∧
    srcRegEnc.implMax + 1 = ccpImplicit.length := by
  decide +kernel

/-- `Ack.bytes_acked` ↦ `ACK_BYTES_ACKED` -/
def cName (s : String) : String := String.ofList (s.toList.map fun c => if c = '.' then '_' else c.toUpper)

def indexed {α : Type} : List α → Nat → List (Nat × α)
  | [], _ => []
  | a :: r, i => (i, a) :: indexed r (i + 1)

/-- the k-th measurement primitive of `Scope::new` is the primitive libccp numbers k, and they are all of libccp's -/
theorem primitives_shared_with_libccp :
    ∀ l, srcPrimitives = some l →
      (∀ p ∈ indexed l 0, lookupC (cName p.2.1) ccpPrims = some p.1) ∧ l.length = ccpPrims.length := by
  intro l hl
  have : l = (srcPrimitives.getD []) := by rw [hl]; rfl
  subst this
  decide +kernel

/-- libccp's macro name of each implicit register -/
def implCName : List (String × String) :=
  [("__eventFlag", "EXPR_FLAG_REG"), ("__shouldContinue", "SHOULD_FALLTHROUGH_REG"), ("__shouldReport", "SHOULD_REPORT_REG"),
   ("Micros", "US_ELAPSED_REG"), ("Cwnd", "CWND_REG"), ("Rate", "RATE_REG")]

theorem implicits_shared_with_libccp :
    ∀ l, srcImplicits = some l →
      (∀ p ∈ indexed l 0, ((implCName.find? (·.1 == p.2.1)).bind fun q => lookupC q.2 ccpImplicit) = some p.1) ∧
      l.length = ccpImplicit.length := by
  intro l hl
  have : l = (srcImplicits.getD []) := by rw [hl]; rfl
  subst this
  decide +kernel

/-- message type codes and fixed sizes -/
theorem msgtypes_shared_with_libccp :
    lookupC "CREATE" srcMsgTypes = lookupC "CREATE" ccpMsgTypes ∧
    lookupC "MEASURE" srcMsgTypes = lookupC "MEASURE" ccpMsgTypes ∧
    lookupC "INSTALL" srcMsgTypes = lookupC "INSTALL_EXPR" ccpMsgTypes ∧
    lookupC "UPDATE_FIELD" srcMsgTypes = lookupC "UPDATE_FIELDS" ccpMsgTypes ∧
    lookupC "CHANGEPROG" srcMsgTypes = lookupC "CHANGE_PROG" ccpMsgTypes ∧
    lookupC "READY" srcMsgTypes = lookupC "READY" ccpMsgTypes ∧
    (lookupC "CREATE" ccpMsgTypes).isSome ∧ (lookupC "READY" ccpMsgTypes).isSome ∧
    some (srcCreateLen srcHdrLength) = lookupC "CREATE_MSG_SIZE" ccpLimits ∧
    some (srcReadyLen srcHdrLength) = lookupC "READY_MSG_SIZE" ccpLimits ∧
    lookupC "MAX_CONG_ALG_SIZE" ccpLimits = some 64 := by
  decide +kernel

/-! ## libccp's headers = the libccp model -/

theorem libccp_model_constants :
    lookupC "BIGGEST_MSG_SIZE" ccpLimits = some Libccp.BIGGEST_MSG_SIZE ∧
    lookupC "MAX_MUTABLE_REG" ccpLimits = some Libccp.MAX_MUTABLE_REG ∧
    lookupC "MAX_REPORT_REG" ccpLimits = some Vm.Regs.zero.report.length ∧
    lookupC "MAX_CONTROL_REG" ccpLimits = some Vm.Regs.zero.control.length ∧
    lookupC "MAX_IMPLICIT_REG" ccpLimits = some Vm.Regs.zero.impl.length ∧
    lookupC "MAX_TMP_REG" ccpLimits = some Vm.Regs.zero.tmp.length ∧
    lookupC "MAX_LOCAL_REG" ccpLimits = some Vm.Regs.zero.loc.length := by
  decide +kernel

end Portus.Tables
