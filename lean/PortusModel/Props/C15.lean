import PortusModel.Rt.Run
/-!
# C15 — the algorithm named in a create message handles the flow; default otherwise
`Cfg.pick` models `Pick::pick` over the registration list (default first, then the additional
algorithms in registration order); `unionProgs` models `CollectDps::datapath_programs`.
-/
namespace Portus.C15
open Portus Portus.Rt

/-- registration `i ≥ 1` matches `name`: it has an instance and its name is exactly `name` -/
def Matches (algs : List AlgInfo) (name : Bytes) (i : Nat) : Prop :=
  1 ≤ i ∧ ∃ a, algs[i]? = some a ∧ a.hasInstance = true ∧ a.name = name

private theorem pickFrom_spec (l : List (Nat × AlgInfo)) (name : Bytes) :
    (pickFrom l name = 0 ∧ (∀ p ∈ l, p.1 ≠ 0 → ¬(p.2.hasInstance = true ∧ p.2.name = name))) ∨
    (∃ pre p post, l = pre ++ p :: post ∧ pickFrom l name = p.1 ∧ p.2.hasInstance = true ∧ p.2.name = name ∧
      ∀ q ∈ pre, ¬(q.2.hasInstance = true ∧ q.2.name = name)) := by
  induction l with
  | nil => left; simp [pickFrom]
  | cons x rest ih =>
    obtain ⟨i, a⟩ := x
    simp only [pickFrom]
    by_cases h : a.hasInstance = true ∧ a.name = name
    · right
      exact ⟨[], (i, a), rest, rfl, by simp [h], h.1, h.2, by simp⟩
    · simp only [h, if_false]
      rcases ih with ⟨h0, hn⟩ | ⟨pre, p, post, e, hp, h1, h2, hpre⟩
      · left
        refine ⟨h0, ?_⟩
        intro q hq hq0
        simp only [List.mem_cons] at hq
        rcases hq with rfl | hq
        · exact h
        · exact hn q hq hq0
      · right
        refine ⟨(i, a) :: pre, p, post, by rw [e]; rfl, hp, h1, h2, ?_⟩
        intro q hq
        simp only [List.mem_cons] at hq
        rcases hq with rfl | hq
        · exact h
        · exact hpre q hq

private theorem mem_numberFrom {i : Nat} {l : List AlgInfo} {p : Nat × AlgInfo} :
    p ∈ numberFrom i l ↔ i ≤ p.1 ∧ l[p.1 - i]? = some p.2 := by
  induction l generalizing i with
  | nil => simp [numberFrom]
  | cons a rest ih =>
    simp only [numberFrom, List.mem_cons]
    constructor
    · rintro (rfl | h)
      · simp
      · obtain ⟨h1, h2⟩ := ih.mp h
        refine ⟨by omega, ?_⟩
        have : p.1 - i = (p.1 - (i + 1)) + 1 := by omega
        rw [this]; simpa using h2
    · intro ⟨h1, h2⟩
      by_cases e : p.1 = i
      · left
        rw [e] at h2; simp at h2
        exact Prod.ext e h2.symm
      · right
        apply ih.mpr
        refine ⟨by omega, ?_⟩
        have : p.1 - i = (p.1 - (i + 1)) + 1 := by omega
        rw [this] at h2; simpa using h2

private theorem numberFrom_pairwise (i : Nat) (l : List AlgInfo) :
    (numberFrom i l).Pairwise (fun x y => x.1 < y.1) := by
  induction l generalizing i with
  | nil => simp [numberFrom]
  | cons a rest ih =>
    simp only [numberFrom, List.pairwise_cons]
    refine ⟨?_, ih (i + 1)⟩
    intro q hq
    have := (mem_numberFrom.mp hq).1
    show i < q.1
    omega

/-- the additional registrations, most recent first, with their numbers -/
def candidates (algs : List AlgInfo) : List (Nat × AlgInfo) := (numberFrom 1 algs.tail).reverse

private theorem mem_candidates {algs : List AlgInfo} {p : Nat × AlgInfo} :
    p ∈ candidates algs ↔ 1 ≤ p.1 ∧ algs[p.1]? = some p.2 := by
  unfold candidates
  rw [List.mem_reverse, mem_numberFrom]
  cases algs with
  | nil => simp
  | cons a rest =>
    simp only [List.tail_cons]
    constructor
    · intro ⟨h1, h2⟩
      refine ⟨h1, ?_⟩
      have : p.1 = (p.1 - 1) + 1 := by omega
      rw [this]; simpa using h2
    · intro ⟨h1, h2⟩
      refine ⟨h1, ?_⟩
      have : p.1 = (p.1 - 1) + 1 := by omega
      rw [this] at h2; simpa using h2

/-- **The named algorithm handles the flow.** If some registered algorithm with an instance has exactly
the requested name, the pick is such a registration and no later (more recent) registration matches —
"the most recently registered instance if a name was registered twice". -/
theorem pick_spec (cfg : Cfg) (name : Bytes) :
    (cfg.pick name = 0 ∧ ∀ i, ¬ Matches cfg.algs name i) ∨
    (Matches cfg.algs name (cfg.pick name) ∧ ∀ j, cfg.pick name < j → ¬ Matches cfg.algs name j) := by
  have hpick : cfg.pick name = pickFrom (candidates cfg.algs) name := rfl
  rw [hpick]
  rcases pickFrom_spec (candidates cfg.algs) name with ⟨h0, hn⟩ | ⟨pre, p, post, e, hp, h1, h2, hpre⟩
  · left
    refine ⟨h0, ?_⟩
    intro i ⟨hi, a, ha, hinst, hname⟩
    have hm : (i, a) ∈ candidates cfg.algs := mem_candidates.mpr ⟨hi, ha⟩
    exact hn (i, a) hm (by show i ≠ 0; omega) ⟨hinst, hname⟩
  · right
    have hmem : p ∈ candidates cfg.algs := by rw [e]; simp
    obtain ⟨hp1, hp2⟩ := mem_candidates.mp hmem
    rw [hp]
    refine ⟨⟨hp1, p.2, hp2, h1, h2⟩, ?_⟩
    intro j hj ⟨hj1, a, ha, hinst, hname⟩
    have hm : (j, a) ∈ candidates cfg.algs := mem_candidates.mpr ⟨hj1, ha⟩
    rw [e] at hm
    simp only [List.mem_append, List.mem_cons] at hm
    rcases hm with hm | hm | hm
    · exact hpre (j, a) hm ⟨hinst, hname⟩
    · rw [← hm] at hj; simp at hj
    · -- entries after `p` in most-recent-first order have smaller numbers
      have hpw : (candidates cfg.algs).Pairwise (fun x y => y.1 < x.1) := by
        unfold candidates
        rw [List.pairwise_reverse]
        exact numberFrom_pairwise 1 _
      rw [e] at hpw
      have h3 := (List.pairwise_append.mp hpw).2.1
      have h4 := (List.pairwise_cons.mp h3).1 (j, a) hm
      simp only at h4
      omega

/-- empty, unknown or instance-less names fall to the default -/
theorem pick_default (cfg : Cfg) (name : Bytes) (h : ∀ i, ¬ Matches cfg.algs name i) : cfg.pick name = 0 := by
  rcases pick_spec cfg name with ⟨h0, _⟩ | ⟨hm, _⟩
  · exact h0
  · exact absurd hm (h _)

/-- **Every registered instance's programs are collected** (whichever algorithms flows later select):
each program name of each algorithm with an instance is a key of the union, and the source kept for it
is the one of the earliest registration that defines that name. -/
theorem programs_are_union {α : Type} (algs : List (Bool × List (String × α))) :
    ∀ a ∈ algs, a.1 = true → ∀ p ∈ a.2, ∃ q ∈ unionProgs algs, q.1 = p.1 := by
  induction algs with
  | nil => simp
  | cons x rest ih =>
    obtain ⟨inst, ps⟩ := x
    intro a ha hinst p hp
    simp only [List.mem_cons] at ha
    simp only [unionProgs]
    rcases ha with rfl | ha
    · simp only at hinst hp
      exact ⟨p, by simp [hinst, hp], rfl⟩
    · obtain ⟨q, hq, hqe⟩ := ih a ha hinst p hp
      by_cases hc : ((if inst then ps else []).any fun p' => p'.1 == q.1) = true
      · obtain ⟨p', hp', hpe⟩ := List.any_eq_true.mp hc
        exact ⟨p', by simp [hp'], by rw [← hqe]; simpa using hpe⟩
      · exact ⟨q, by simp [hq, hc], hqe⟩

/-! ## Non-vacuity -/
example : (Cfg.pick ⟨[⟨[1], true⟩, ⟨[2], true⟩, ⟨[3], false⟩, ⟨[2], true⟩], []⟩ [2]) = 3 := by decide
example : (Cfg.pick ⟨[⟨[1], true⟩, ⟨[2], true⟩, ⟨[3], false⟩, ⟨[2], true⟩], []⟩ [3]) = 0 := by decide
example : (Cfg.pick ⟨[⟨[1], true⟩, ⟨[2], true⟩], []⟩ []) = 0 := by decide

end Portus.C15
