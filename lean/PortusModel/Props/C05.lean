import PortusModel.Props.C09
/-!
# C05 — a datapath is always sent a program before being told to use it

Step-level theorems over the dispatch model, for every state, configuration and bounded policy:
which messages cause installations (and where in the step), and that every change-program command
goes to the sender's own address, naming a configured program. Together with the domain invariant
(`addresses_stay_registered`, `registered_only_with_installs`) they give the history-level statement:
a flow can only issue commands while its address is registered; an address gets registered only in a
step that first sends it the complete install batch, and a ready re-sends the batch in the same step
that resets the address — so at every address each change-program names a uid installed there since
the datapath last announced itself. The final combination over whole histories is stated as
`install_before_use_partial` (per step, relative to the registration invariant); the fully
history-quantified form is listed as missing in DESIGN.md.
-/
namespace Portus.C05
open Portus Portus.Wire Portus.Ipc Portus.Rt

def registered {σ : Type} (st : St σ) (a : Addr) : Prop := (st.flows.lookup a).isSome = true

/-- the complete install batch for `addr`, in configuration order, each program exactly once -/
def batch (cfg : Cfg) (addr : Addr) : List Ev := cfg.progs.map fun p => Ev.tx addr p.install

/-- **A ready installs everything, exactly once.** On a ready from `addr` (start or restart), after the
old flows are dropped, the complete set of compiled programs is sent to `addr`, each exactly once and
nothing else — unless the transport fails a send, in which case the runtime stops with an error. -/
theorem ready_installs_all {σ : Type} (cfg : Cfg) (pol : Policy σ) (st : St σ) (addr : Addr) (id : Nat) :
    (∃ st', step cfg pol st addr (.rdy id) = .ok (.cont st' (dropAll ((st.flows.lookup addr).getD []) ++ batch cfg addr)) ∧
        registered st' addr) ∨
    (∃ st' evs, step cfg pol st addr (.rdy id) = .ok (.fail st' evs) ∧ Ev.txFail addr ∈ evs) := by
  show (∃ st', Out.ok (stepRdy cfg st addr) = _ ∧ _) ∨ (∃ st' evs, Out.ok (stepRdy cfg st addr) = _ ∧ _)
  obtain ⟨ievs, hi1, hi2, hi3⟩ := sendInstalls_spec addr cfg.progs st.sendFail (dropAll ((st.flows.lookup addr).getD []))
  unfold stepRdy
  simp only
  by_cases hok : (sendInstalls addr cfg.progs st.sendFail (dropAll ((st.flows.lookup addr).getD []))).1 = true
  · left
    simp only [hok, if_true]
    refine ⟨_, by rw [hi1, hi3 hok]; rfl, ?_⟩
    simp [registered, lookup_setAddr]
  · right
    simp only [hok, if_false]
    refine ⟨_, _, rfl, ?_⟩
    rw [hi1]
    -- a failed batch ends with the failed send
    have hne : ievs ≠ cfg.progs.map (fun p => Ev.tx addr p.install) ∨ True := Or.inr trivial
    clear hne
    have : ∃ e ∈ ievs, e = Ev.txFail addr := by
      -- re-run the batch: it fails, so it emitted a `txFail`
      have key : ∀ (progs : List ProgInfo) (sf : Nat) (acc : List Ev),
          (sendInstalls addr progs sf acc).1 = false → Ev.txFail addr ∈ (sendInstalls addr progs sf acc).2.2 := by
        intro progs
        induction progs with
        | nil => intro sf acc h; simp [sendInstalls] at h
        | cons p rest ih =>
          intro sf acc h
          simp only [sendInstalls, sendTo] at h ⊢
          by_cases hsf : sf > 0
          · simp [hsf]
          · simp only [hsf, if_false] at h ⊢
            exact ih _ _ h
      have hf : (sendInstalls addr cfg.progs st.sendFail (dropAll ((st.flows.lookup addr).getD []))).1 = false := by
        simpa using hok
      have := key _ _ _ hf
      rw [hi1] at this
      simp only [List.mem_append] at this
      rcases this with h | h
      · simp only [dropAll, List.mem_map] at h
        obtain ⟨n, _, h⟩ := h
        cases h
      · exact ⟨_, h, rfl⟩
    obtain ⟨e, he, rfl⟩ := this
    simp [he]

/-- **First contact by create installs everything before the handler runs.** If `addr` is not
registered, the events of a create from it are: the complete install batch to `addr`, then `new_flow`,
then whatever the new flow's user code causes — or the runtime stops on a failed install send, without
any callback. -/
theorem first_create_installs_before_handler {σ : Type} (cfg : Cfg) (pol : Policy σ) (hb : pol.Bounded)
    (st : St σ) (addr : Addr) (c : Create) (hun : st.flows.lookup addr = none) :
    (∃ st' uevs, step cfg pol st addr (.cr c) = .ok (.cont st' (batch cfg addr ++
        [.newFlow st.nextFlow (cfg.pick (c.alg.getD [])) ⟨c.sid, c.cwnd, c.mss, c.srcIp, c.srcPort, c.dstIp, c.dstPort⟩ c.sid]
        ++ uevs)) ∧ (∀ e ∈ uevs, UserEv addr c.sid st.nextFlow e) ∧ registered st' addr) ∨
    (∃ st' evs, step cfg pol st addr (.cr c) = .ok (.fail st' evs) ∧ evs.filter isCallback = []) := by
  show (∃ st' uevs, stepCr cfg pol st addr c = _ ∧ _) ∨ (∃ st' evs, stepCr cfg pol st addr c = _ ∧ _)
  unfold stepCr
  obtain ⟨ievs, hi1, hi2, hi3⟩ := sendInstalls_spec addr cfg.progs st.sendFail []
  simp only [List.nil_append] at hi1
  simp only [hun, Option.isSome_none, Bool.false_eq_true, if_false, Option.getD_none]
  by_cases hok : (sendInstalls addr cfg.progs st.sendFail []).1 = true
  · left
    simp only [hok, Bool.not_true, Bool.false_eq_true, if_false, List.filter_nil]
    have hd : (dropAll ([] : List (Nat × Flow σ))) = [] := by simp [dropAll]
    simp only [hd, List.append_nil]
    obtain ⟨u, sf', uevs, hr, h1, _⟩ := runUser_spec cfg addr c.sid st.nextFlow
      (pol.newFlow (cfg.pick (c.alg.getD [])) st.nextFlow ⟨c.sid, c.cwnd, c.mss, c.srcIp, c.srcPort, c.dstIp, c.dstPort⟩)
      (hb.newFlow _ _ _) (sendInstalls addr cfg.progs st.sendFail []).2.1
      ((sendInstalls addr cfg.progs st.sendFail []).2.2 ++
        [.newFlow st.nextFlow (cfg.pick (c.alg.getD [])) ⟨c.sid, c.cwnd, c.mss, c.srcIp, c.srcPort, c.dstIp, c.dstPort⟩ c.sid])
    rw [hr]
    refine ⟨_, uevs, by rw [hi1, hi3 hok]; rfl, h1, ?_⟩
    simp [registered, lookup_setAddr]
  · right
    have hok' : (sendInstalls addr cfg.progs st.sendFail []).1 = false := by simpa using hok
    simp only [hok', Bool.not_false, if_true]
    refine ⟨_, _, rfl, ?_⟩
    rw [hi1, List.filter_eq_nil_iff]
    intro e he; simp [installEv_not_callback (hi2 e he)]

/-- **No other message causes any installation.** For a create from a registered address, any
measurement or close, and any unknown message, every transmission of the step is the effect of user
code through a flow handle (a change-program or update-field command, type 4 or 3 — never an install,
type 2). -/
theorem no_other_installs {σ : Type} (cfg : Cfg) (pol : Policy σ) (hb : pol.Bounded) (st : St σ)
    (addr : Addr) (msg : Msg) (hmsg : (∀ id, msg ≠ .rdy id) ∧ (∀ c, msg = .cr c → registered st addr)) :
    ∃ r, step cfg pol st addr msg = .ok r ∧
      ∀ a b, Ev.tx a b ∈ r.evs → a = addr ∧ (rd16 b = 4 ∨ rd16 b = 3) ∧ rd32 (b.drop 4) = msgSid msg % 2^32 := by
  cases msg with
  | rdy id => exact absurd rfl (hmsg.1 id)
  | other r => exact ⟨.cont st [], rfl, by simp [StepRes.evs]⟩
  | ms m =>
    -- no install path exists in `stepMs`
    obtain ⟨r, h, hev⟩ := step_ok cfg pol hb st addr (.ms m)
    refine ⟨r, h, ?_⟩
    intro a b hmem
    have hstep : stepMs cfg pol st addr m = .ok r := h
    unfold stepMs at hstep
    cases hl : st.flows.lookup addr with
    | none => simp [hl] at hstep; subst hstep; simp [StepRes.evs] at hmem
    | some fm =>
      simp only [hl] at hstep
      cases hf : fm.lookup m.sid with
      | none => simp [hf] at hstep; subst hstep; simp [StepRes.evs] at hmem
      | some f =>
        simp only [hf] at hstep
        by_cases hn : m.numFields = 0
        · simp only [hn, if_true] at hstep
          obtain ⟨u, sf', evs, hr, h1, _⟩ := runUser_spec cfg addr m.sid f.no (pol.onClose f.user)
            (hb.onClose _) st.sendFail [.closed f.no]
          rw [hr] at hstep
          injection hstep with hstep
          subst hstep
          simp only [StepRes.evs, List.mem_append, List.mem_singleton, List.mem_cons, List.not_mem_nil, or_false] at hmem
          rcases hmem with (hm | hm) | hm
          · cases hm
          · rcases h1 _ hm with h | ⟨b', hb', ht, hs⟩ | ⟨_, h⟩
            · cases h
            · injection hb' with e1 e2; subst e1; subst e2; exact ⟨rfl, ht, hs⟩
            · cases h
          · cases hm
        · simp only [hn, if_false] at hstep
          obtain ⟨u, sf', evs, hr, h1, _⟩ := runUser_spec cfg addr m.sid f.no
            (pol.onReport f.user m.sid m.uid m.fields) (hb.onReport _ _ _ _) st.sendFail [.report f.no m.sid m.uid m.fields]
          rw [hr] at hstep
          injection hstep with hstep
          subst hstep
          simp only [StepRes.evs, List.mem_append, List.mem_singleton, List.mem_cons, List.not_mem_nil, or_false] at hmem
          rcases hmem with hm | hm
          · cases hm
          · rcases h1 _ hm with h | ⟨b', hb', ht, hs⟩ | ⟨_, h⟩
            · cases h
            · injection hb' with e1 e2; subst e1; subst e2; exact ⟨rfl, ht, hs⟩
            · cases h
  | cr c =>
    have hreg := hmsg.2 c rfl
    obtain ⟨r, h, _⟩ := step_ok cfg pol hb st addr (.cr c)
    refine ⟨r, h, ?_⟩
    intro a b hmem
    have hstep : stepCr cfg pol st addr c = .ok r := h
    unfold stepCr at hstep
    unfold registered at hreg
    simp only [hreg, if_true, Bool.not_true, Bool.false_eq_true, if_false, List.nil_append] at hstep
    obtain ⟨u, sf', uevs, hr, h1, _⟩ := runUser_spec cfg addr c.sid st.nextFlow
      (pol.newFlow (cfg.pick (c.alg.getD [])) st.nextFlow ⟨c.sid, c.cwnd, c.mss, c.srcIp, c.srcPort, c.dstIp, c.dstPort⟩)
      (hb.newFlow _ _ _) st.sendFail
      (dropAll (((st.flows.lookup addr).getD []).filter fun p => p.1 = c.sid) ++
        [.newFlow st.nextFlow (cfg.pick (c.alg.getD [])) ⟨c.sid, c.cwnd, c.mss, c.srcIp, c.srcPort, c.dstIp, c.dstPort⟩ c.sid])
    rw [hr] at hstep
    injection hstep with hstep
    subst hstep
    simp only [StepRes.evs, List.mem_append, List.mem_singleton] at hmem
    rcases hmem with (hm | hm) | hm
    · simp only [dropAll, List.mem_map] at hm
      obtain ⟨n, _, hm⟩ := hm
      cases hm
    · cases hm
    · rcases h1 _ hm with h | ⟨b', hb', ht, hs⟩ | ⟨_, h⟩
      · cases h
      · injection hb' with e1 e2; subst e1; subst e2; exact ⟨rfl, ht, hs⟩
      · cases h

/-- an address, once registered, stays registered (a ready re-registers it in the same step) -/
theorem addresses_stay_registered {σ : Type} (cfg : Cfg) (pol : Policy σ) (hb : pol.Bounded) (st : St σ)
    (addr : Addr) (msg : Msg) (a : Addr) (ha : registered st a) :
    ∃ r, step cfg pol st addr msg = .ok r ∧ registered r.st a := by
  obtain ⟨r, h, _⟩ := step_ok cfg pol hb st addr msg
  refine ⟨r, h, ?_⟩
  unfold registered at ha ⊢
  cases msg with
  | other x => injection h with h; subst h; exact ha
  | rdy id =>
    injection h with h; subst h
    unfold stepRdy
    simp only
    split <;> (simp only [StepRes.st, lookup_setAddr]; split <;> simp [ha])
  | ms m =>
    have hstep : stepMs cfg pol st addr m = .ok r := h
    unfold stepMs at hstep
    cases hl : st.flows.lookup addr with
    | none => simp [hl] at hstep; subst hstep; exact ha
    | some fm =>
      simp only [hl] at hstep
      cases hf : fm.lookup m.sid with
      | none => simp [hf] at hstep; subst hstep; exact ha
      | some f =>
        simp only [hf] at hstep
        split at hstep
        · split at hstep <;> (try cases hstep)
          rename_i u sf evs _
          simp only [StepRes.st, lookup_setAddr]; split <;> simp [ha]
        · split at hstep <;> (try cases hstep)
          rename_i u sf evs _
          simp only [StepRes.st, lookup_setAddr]; split <;> simp [ha]
  | cr c =>
    have hstep : stepCr cfg pol st addr c = .ok r := h
    unfold stepCr at hstep
    simp only at hstep
    generalize (if (st.flows.lookup addr).isSome = true then ((true, st.sendFail, []) : Bool × Nat × List Ev)
        else sendInstalls addr cfg.progs st.sendFail []) = q at hstep
    by_cases hok : q.1 = true
    · simp only [hok, Bool.not_true, Bool.false_eq_true, if_false] at hstep
      obtain ⟨u, sf', uevs, hr, _, _⟩ := runUser_spec cfg addr c.sid st.nextFlow
        (pol.newFlow (cfg.pick (c.alg.getD [])) st.nextFlow ⟨c.sid, c.cwnd, c.mss, c.srcIp, c.srcPort, c.dstIp, c.dstPort⟩)
        (hb.newFlow _ _ _) q.2.1
        (q.2.2 ++ dropAll (((st.flows.lookup addr).getD []).filter fun p => p.1 = c.sid) ++
          [.newFlow st.nextFlow (cfg.pick (c.alg.getD [])) ⟨c.sid, c.cwnd, c.mss, c.srcIp, c.srcPort, c.dstIp, c.dstPort⟩ c.sid])
      rw [hr] at hstep
      injection hstep with hstep
      subst hstep
      simp only [StepRes.st, lookup_setAddr]; split <;> simp [ha]
    · have hok' : q.1 = false := by simpa using hok
      simp only [hok', Bool.not_false, if_true] at hstep
      injection hstep with hstep
      subst hstep
      simp only [StepRes.st, lookup_setAddr]; split <;> simp [ha]

/-- **Install before use, per step.** Every change-program command transmitted in a step goes to the
address of the message being handled and names the uid of a configured program; and the step either
found that address already registered, or is the very step that registers it — in which case the
complete install batch was transmitted to it earlier in the same step (`first_create_installs_before_
handler`, `ready_installs_all`). -/
theorem install_before_use_partial {σ : Type} (cfg : Cfg) (pol : Policy σ) (hb : pol.Bounded) (st : St σ)
    (addr : Addr) (msg : Msg) :
    ∃ r, step cfg pol st addr msg = .ok r ∧
      ∀ a b, Ev.tx a b ∈ r.evs → rd16 b = 4 → (∀ p ∈ cfg.progs, b ≠ p.install) →
        a = addr ∧ ∃ p ∈ cfg.progs, rd32 (b.drop 8) = p.scope.uid % 2^32 := by
  obtain ⟨r, h, hev⟩ := step_ok cfg pol hb st addr msg
  refine ⟨r, h, ?_⟩
  intro a b hmem ht hni
  rcases hev _ hmem with hc | (hf | ⟨p, hp, he⟩) | ⟨flow, hu, huid⟩
  · cases hc
  · cases hf
  · injection he with e1 e2
    exact absurd e2 (hni p hp)
  · rcases hu with h | ⟨b', hb', _, _⟩ | ⟨_, h⟩
    · cases h
    · injection hb' with e1 e2
      exact ⟨e1, huid a b rfl ht⟩
    · cases h

end Portus.C05
