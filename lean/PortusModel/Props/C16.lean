import PortusModel.Props.C02
import PortusModel.Props.C08
import PortusModel.Props.C04
/-!
# C16 — no message history or transport failure can crash the runtime

`runLoop` composes the receive path (`Ipc.next`: arbitrary datagram bytes, failed receives, stop
requests), the decoder and the dispatch step, with transport send failures injected at arbitrary points
(`Rx.sf k`: the next `k` sends fail). User callbacks are arbitrary bounded policies.
-/
namespace Portus.C16
open Portus Portus.Wire Portus.Ipc Portus.Rt

/-- one trip round the loop never panics and keeps the receive-path invariant -/
theorem loopStep_ok {σ : Type} (cfg : Cfg) (pol : Policy σ) (hb : pol.Bounded) (b : Backend) (hinv : Inv b)
    (rx : List Rx) (st : St σ) :
    ∃ r, loopStep cfg pol b rx st = .ok r ∧
      ∀ b' rx' st' evs, r = .more b' rx' st' evs → Inv b' ∧ Ipc.measure b' rx' < Ipc.measure b rx := by
  unfold loopStep
  have hnp := C08.next_no_panic b hinv rx
  cases hn : next b rx with
  | panic => exact absurd hn hnp
  | err =>
    -- `next` has no error outcome of its own
    exfalso
    unfold next at hn
    split at hn
    · unfold parseAt at hn
      have hl := hinv.len; have hru := hinv.ru; have htr := hinv.tr
      rw [sliceP_ok _ _ _ ⟨by omega, by omega⟩] at hn
      simp only [Out.bind_ok] at hn
      split at hn <;> cases hn
    · split at hn
      · cases hn
      · rename_i r b1 rx1 hg
        have hgs := getNextRead_spec b rx hinv.len
        rw [hg] at hgs
        simp only at hgs
        obtain ⟨h1, h2, h3, _, _⟩ := hgs
        unfold parseAt at hn
        rw [sliceP_ok _ _ _ ⟨by simp, by simp; omega⟩] at hn
        simp only [Out.bind_ok] at hn
        split at hn <;> cases hn
  | ok y =>
    obtain ⟨o, b', rx'⟩ := y
    cases o with
    | none => exact ⟨_, rfl, fun _ _ _ _ h => by cases h⟩
    | some p =>
      obtain ⟨msg, addr⟩ := p
      simp only
      obtain ⟨hinv', hadv⟩ := C08.reception_advances b b' hinv rx rx' (msg, addr) hn
      obtain ⟨r, hr, _⟩ := step_ok cfg pol hb (applySf st (rx.take (rx.length - rx'.length))) addr msg
      rw [hr]
      cases r with
      | cont st' evs =>
        refine ⟨_, rfl, ?_⟩
        intro b2 rx2 st2 evs2 he
        injection he with e1 e2 e3 e4
        subst e1; subst e2
        refine ⟨hinv', ?_⟩
        unfold Ipc.measure
        rcases hadv with ⟨rfl, h1, h2⟩ | h
        · have := hinv'.ru; omega
        · have := hinv'.ru; have := hinv.ru
          -- a new read: the cursor restarted, the script shrank by more than the datagram length
          unfold next at hn
          split at hn
          · rename_i hlt
            unfold parseAt at hn
            have hl := hinv.len; have htr := hinv.tr
            rw [sliceP_ok _ _ _ ⟨by omega, by omega⟩] at hn
            simp only [Out.bind_ok] at hn
            split at hn
            · cases hn
            · cases hn
            · injection hn with hn
              injection hn with _ hn
              injection hn with hb' hrx'
              subst hrx'
              omega
          · rename_i hge
            split at hn
            · cases hn
            · rename_i r b1 rx1 hg
              have hgs := getNextRead_spec b rx hinv.len
              rw [hg] at hgs
              simp only at hgs
              obtain ⟨g1, g2, g3, g4, _⟩ := hgs
              unfold parseAt at hn
              rw [sliceP_ok _ _ _ ⟨by simp, by simp; omega⟩] at hn
              simp only [Out.bind_ok] at hn
              split at hn
              · cases hn
              · cases hn
              · injection hn with hn
                injection hn with _ hn
                injection hn with hb' hrx'
                subst hb'; subst hrx'
                show r - (0 + _) + rxFuel rx1 < _
                omega
      | fail st' evs => exact ⟨_, rfl, fun _ _ _ _ h => by cases h⟩

/-- **The runtime never panics.** For every script of datagrams of arbitrary bytes from any senders,
failed receives, stop requests and injected send failures, from every receive-path state satisfying the
cursor invariant, every configuration and every bounded user policy, the composed loop returns a trace
and `Ok` or `Err` — never a panic (and never gets stuck: the fuel `Ipc.measure b rx + 1` always suffices). -/
theorem run_no_panic {σ : Type} (cfg : Cfg) (pol : Policy σ) (hb : pol.Bounded) (fuel : Nat) (b : Backend)
    (hinv : Inv b) (rx : List Rx) (st : St σ) (acc : List Ev) :
    ∃ t r, runLoop cfg pol fuel b rx st acc = .ok (t, r) := by
  induction fuel generalizing b rx st acc with
  | zero => exact ⟨_, _, rfl⟩
  | succ k ih =>
    simp only [runLoop]
    obtain ⟨r, hr, hmore⟩ := loopStep_ok cfg pol hb b hinv rx st
    rw [hr]
    cases r with
    | finished res st' evs => exact ⟨_, _, rfl⟩
    | more b' rx' st' evs =>
      obtain ⟨hinv', _⟩ := hmore b' rx' st' evs rfl
      exact ih b' hinv' rx' st' (acc ++ evs)

/-- the top-level form: `run` on a fresh backend over any 1024-byte buffer -/
theorem run_bytes_no_panic {σ : Type} (cfg : Cfg) (pol : Policy σ) (hb : pol.Bounded) (buf0 : Bytes)
    (h : buf0.length = 1024) (rx : List Rx) : ∃ t r, run cfg pol buf0 rx = .ok (t, r) :=
  run_no_panic cfg pol hb _ (Backend.new buf0) ⟨h, by simp [Backend.new], by simp [Backend.new]⟩ rx _ _

/-- **Ignored messages have no effect.** A message of unknown type — which by C04 includes every
undecodable header and the CCP→datapath types install/update/change-program — and a measurement for an
unknown datapath or flow leave the state exactly as it was and emit nothing, so every later well-formed
message is dispatched exactly as if the ignored one had never arrived. -/
theorem ignored_is_identity {σ : Type} (cfg : Cfg) (pol : Policy σ) (st : St σ) (addr : Addr) :
    (∀ r, step cfg pol st addr (.other r) = .ok (.cont st [])) ∧
    (∀ m, cur st addr m.sid = none → step cfg pol st addr (.ms m) = .ok (.cont st [])) :=
  ⟨fun r => C02.other_ignored cfg pol st addr r, fun m h => C02.measure_unknown_ignored cfg pol st addr m h⟩

/-- what C04 adds: bytes whose type code is not create/measure/ready never decode to a typed message -/
theorem untyped_bytes_are_other (buf : Bytes) (m : Msg) (n : Nat) (h : fromBuf buf = .ok (m, n))
    (ht : C04.typeCode buf ≠ 0 ∧ C04.typeCode buf ≠ 1 ∧ C04.typeCode buf ≠ 5) : ∃ r, m = .other r := by
  cases m with
  | cr c => exact absurd (C04.create_only_when_create buf c n h).1 ht.1
  | ms m => exact absurd (C04.measure_only_when_measure buf m n h).1 ht.2.1
  | rdy id => exact absurd (C04.ready_only_when_ready buf id n h).1 ht.2.2
  | other r => exact ⟨r, rfl⟩

end Portus.C16
