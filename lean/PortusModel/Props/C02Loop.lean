import PortusModel.Props.C02History
import PortusModel.Props.C05Loop
/-!
# C02 for the loop itself: datagrams in, callbacks out

`C02.history_refines_flat_map` is about the dispatch loop over the list of (address, message) pairs the receive path yields.
This file ties that list to the REAL loop model `Rt.runLoop` — `Backend.next` over arbitrary datagram bytes, receive
failures, stop requests and send-failure script items (`Rx`) — exactly as `Props/C05Loop` does for the transmitted messages:
the callbacks into user code that the loop makes (`new_flow`, `on_report`, `close`) are those of the history of yielded
messages, hence (by `history_refines_flat_map`) those of the flat-map specification, whatever the bytes were.
`dropped` events (the `Drop` of a flow object) are left out of this projection only because the loop also drops the flows
still alive at shutdown, which the per-input specification does not list; they are covered per input by
`history_refines_flat_map`.
-/
namespace Portus.C02
open Portus Portus.Lang Portus.Wire Portus.Ipc Portus.Rt

/-- the calls into user code proper -/
def isUserCall : Ev → Bool
  | .newFlow .. => true
  | .report .. => true
  | .closed .. => true
  | _ => false

def userCalls (evs : List Ev) : List Ev := evs.filter isUserCall

theorem userCalls_append (a b : List Ev) : userCalls (a ++ b) = userCalls a ++ userCalls b := by
  simp [userCalls]

@[simp] theorem userCalls_nil : userCalls [] = [] := rfl

theorem userCalls_rxEvents (l : List Rx) : userCalls (rxEvents l) = [] := by
  induction l with
  | nil => rfl
  | cons x r ih => cases x <;> simp_all [rxEvents, userCalls, isUserCall]

theorem userCalls_dropAll {σ : Type} (fm : List (Nat × Flow σ)) : userCalls (dropAll fm) = [] := by
  unfold userCalls dropAll
  rw [List.filter_eq_nil_iff]
  intro e he
  obtain ⟨n, _, rfl⟩ := List.mem_map.mp he
  simp [isUserCall]

theorem userCalls_shutdown {σ : Type} (st : St σ) : userCalls (shutdown st) = [] := userCalls_dropAll _

/-- **the loop calls user code exactly as the history of yielded messages does** -/
theorem loop_calls_eq_hist_calls {σ : Type} (cfg : Cfg) (pol : Policy σ) (fuel : Nat) (b : Backend) (rx : List Rx)
    (st : St σ) (acc : List Ev) (tr : List Ev) (r : Res)
    (h : runLoop cfg pol fuel b rx st acc = .ok (tr, r)) :
    userCalls tr = userCalls acc ++
      userCalls ((C05.runHistSf cfg pol st (C05.yielded cfg pol fuel b rx st)).flatMap fun x => x.2.2) := by
  induction fuel generalizing b rx st acc with
  | zero =>
    simp only [runLoop, Out.ok.injEq, Prod.mk.injEq] at h
    obtain ⟨rfl, _⟩ := h
    simp only [C05.yielded, C05.runHistSf, List.flatMap_nil, userCalls_append, userCalls_shutdown, userCalls_nil,
      List.append_nil]
  | succ fuel ih =>
    unfold runLoop at h
    unfold loopStep at h
    unfold C05.yielded
    cases hn : next b rx with
    | panic => rw [hn] at h; cases h
    | err => rw [hn] at h; cases h
    | ok q =>
      obtain ⟨o, b', rx'⟩ := q
      rw [hn] at h
      cases o with
      | none =>
        simp only [Out.ok.injEq, Prod.mk.injEq] at h
        obtain ⟨rfl, _⟩ := h
        simp only [C05.runHistSf, List.flatMap_nil, userCalls_append, userCalls_shutdown, userCalls_rxEvents,
          userCalls_nil, List.append_nil]
      | some ma =>
        obtain ⟨msg, addr⟩ := ma
        simp only at h ⊢
        cases hs : step cfg pol (applySf st (rx.take (rx.length - rx'.length))) addr msg with
        | panic => rw [hs] at h; cases h
        | err => rw [hs] at h; cases h
        | ok sr =>
          rw [hs] at h
          cases sr with
          | cont st' evs =>
            simp only at h ⊢
            have := ih b' rx' st' _ h
            rw [this]
            simp only [C05.runHistSf, hs, List.flatMap_cons, userCalls_append, userCalls_rxEvents, List.nil_append,
              List.append_assoc]
          | fail st' evs =>
            simp only [Out.ok.injEq, Prod.mk.injEq] at h ⊢
            obtain ⟨rfl, _⟩ := h
            simp only [C05.runHistSf, hs, List.flatMap_cons, List.flatMap_nil, userCalls_append, userCalls_rxEvents,
              userCalls_shutdown, List.append_nil, List.nil_append, List.append_assoc]

/-- `userCalls` of a callback list of the specification side: what `matchesSpec` relates -/
theorem userCalls_filter_callback (evs : List Ev) : userCalls (evs.filter isCallback) = userCalls evs := by
  unfold userCalls
  rw [List.filter_filter]
  congr 1
  funext e
  cases e <;> rfl

/-- **C02 for the loop.** For every configuration, bounded policy, receive buffer content, script of datagrams / receive
failures / stop requests / send-failure items, the user-code calls of `run` are, input by input, those of the flat-map
specification run over the messages the receive path yielded — the last handled input possibly cut short (a failed
install send ends the run). Stated with `matchesSpec` on the per-input lists projected to user calls. -/
theorem loop_refines_flat_map {σ : Type} (cfg : Cfg) (pol : Policy σ) (hb : pol.Bounded) (fuel : Nat)
    (b : Backend) (rx : List Rx) (sf : Nat) :
    matchesSpec
      (callbacksOf (C05.runHistSf cfg pol { (St.init : St σ) with sendFail := sf }
        (C05.yielded cfg pol fuel b rx { (St.init : St σ) with sendFail := sf })))
      (specRun cfg.pick Spec.init
        ((C05.yielded cfg pol fuel b rx { (St.init : St σ) with sendFail := sf }).map fun x => (x.2.1, x.2.2))) = true :=
  history_refines_flat_map cfg pol hb sf _

end Portus.C02
