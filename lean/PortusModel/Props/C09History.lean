import PortusModel.Props.C02History
/-!
# C09 and C16 over whole histories, read off the flat-map specification

`C02.history_refines_flat_map` says the runtime's callbacks over ANY history are those of `C02.specRun`. The sentences of
C09 (datapaths are isolated) and of C16 (ignored messages have no effect on how later messages are dispatched) are therefore
statements about the specification alone, for every history.
-/
namespace Portus.C09
open Portus Portus.Lang Portus.Wire Portus.Ipc Portus.Rt Portus.C02

/-- a message from datapath `a` leaves every (b, sid) with `b ≠ a` exactly as it was: it never creates, replaces or closes a
flow that belongs to another datapath, even when flow ids coincide -/
theorem spec_other_addresses_untouched (pick : Bytes → Nat) (s : Spec) (a : Addr) (m : Msg) (b : Addr) (hb : b ≠ a) (sid : Nat) :
    ((specStep pick s a m).1).get b sid = s.get b sid := by
  cases m with
  | other r => rfl
  | rdy id =>
    simp only [specStep, Spec.get]
    rw [lookup_filter_addr, if_neg hb]
  | cr c =>
    have hk : (b, sid) ≠ (a, c.sid) := fun e => hb (Prod.mk.inj e).1
    have hk' : ((b, sid) == (a, c.sid)) = false := by simpa using hk
    simp only [specStep, Spec.get, List.lookup_cons, hk']
    rw [lookup_filter_pair, if_neg hk]
  | ms m =>
    simp only [specStep]
    cases hg : s.get a m.sid with
    | none => rfl
    | some n =>
      by_cases hn : m.numFields = 0
      · have hk : (b, sid) ≠ (a, m.sid) := fun e => hb (Prod.mk.inj e).1
        simp only [hn, if_true, Spec.get]
        rw [lookup_filter_pair, if_neg hk]
      · simp only [hn, if_false]

/-- the flow numbers a callback list speaks about -/
def flowOf : Ev → Option Nat
  | .newFlow n .. => some n
  | .report n .. => some n
  | .closed n => some n
  | .dropped n => some n
  | _ => none

theorem lookup_of_mem_nodup {κ β : Type} [BEq κ] [LawfulBEq κ] (l : List (κ × β)) (h : (l.map (·.1)).Nodup)
    (k : κ) (v : β) (hm : (k, v) ∈ l) : l.lookup k = some v := by
  induction l with
  | nil => cases hm
  | cons p rest ih =>
    obtain ⟨k', v'⟩ := p
    simp only [List.map_cons, List.nodup_cons] at h
    obtain ⟨hn, hr⟩ := h
    rw [List.lookup_cons]
    rcases List.mem_cons.mp hm with e | hm'
    · have h1 : k = k' := (Prod.mk.inj e).1
      have h2 : v = v' := (Prod.mk.inj e).2
      subst h1; subst h2
      simp
    · have hne : k ≠ k' := by
        intro e
        subst e
        exact hn (List.mem_map.mpr ⟨(k, v), hm', rfl⟩)
      have h1 : (k == k') = false := by simpa using hne
      simp only [h1]
      exact ih hr hm'

/-- every callback caused by a message from `a` goes to a flow that is registered under `a` (or is the flow just created
for `a`): a message from one datapath never feeds or closes a flow of another -/
theorem spec_callbacks_own_flows (pick : Bytes → Nat) (s : Spec) (hnd : (s.cur.map (·.1)).Nodup) (a : Addr) (m : Msg) :
    ∀ e ∈ (specStep pick s a m).2, ∀ n, flowOf e = some n → n = s.next ∨ ∃ sid, s.get a sid = some n := by
  intro e he n hf
  cases m with
  | other r => simp only [specStep] at he; cases he
  | rdy id =>
    simp only [specStep, List.mem_map] at he
    obtain ⟨k, hk, rfl⟩ := he
    simp only [flowOf, Option.some.injEq] at hf
    subst hf
    rw [List.mem_mergeSort] at hk
    obtain ⟨p, hp, rfl⟩ := List.mem_map.mp hk
    obtain ⟨hp1, hp2⟩ := List.mem_filter.mp hp
    simp only [decide_eq_true_eq] at hp2
    right
    refine ⟨p.1.2, ?_⟩
    obtain ⟨⟨a', sid⟩, n⟩ := p
    simp only at hp2
    subst hp2
    exact lookup_of_mem_nodup s.cur hnd (a', sid) n hp1
  | cr c =>
    simp only [specStep, List.mem_append, List.mem_singleton] at he
    rcases he with he | he
    · cases hg : s.get a c.sid with
      | none => rw [hg] at he; cases he
      | some k =>
        rw [hg] at he
        simp only [List.mem_singleton] at he
        subst he
        simp only [flowOf, Option.some.injEq] at hf
        subst hf
        exact Or.inr ⟨c.sid, hg⟩
    · subst he
      simp only [flowOf, Option.some.injEq] at hf
      exact Or.inl hf.symm
  | ms m =>
    simp only [specStep] at he
    cases hg : s.get a m.sid with
    | none => rw [hg] at he; cases he
    | some k =>
      rw [hg] at he
      right
      refine ⟨m.sid, ?_⟩
      rw [hg]
      by_cases hn : m.numFields = 0
      · simp only [hn, if_true, List.mem_cons, List.not_mem_nil, or_false] at he
        rcases he with he | he <;> subst he <;> simp only [flowOf, Option.some.injEq] at hf <;> rw [hf]
      · simp only [hn, if_false, List.mem_singleton] at he
        subst he
        simp only [flowOf, Option.some.injEq] at hf
        rw [hf]

/-- a restart (ready) of one datapath discards exactly that datapath's flows -/
theorem spec_ready_discards_only_own (pick : Bytes → Nat) (s : Spec) (a : Addr) (id : Nat) :
    (∀ sid, ((specStep pick s a (.rdy id)).1).get a sid = none) ∧
    (∀ b, b ≠ a → ∀ sid, ((specStep pick s a (.rdy id)).1).get b sid = s.get b sid) := by
  refine ⟨?_, fun b hb sid => spec_other_addresses_untouched pick s a (.rdy id) b hb sid⟩
  intro sid
  simp only [specStep, Spec.get]
  rw [lookup_filter_addr, if_pos rfl]

/-- C16, second sentence, over histories: a message the runtime ignores (unknown type, CCP-to-datapath type, undecodable
header — all `Msg.other`) anywhere in a history leaves the callbacks of everything after it exactly as they would have been
without it -/
theorem spec_ignored_is_identity (pick : Bytes → Nat) (s : Spec) (pre suf : List (Addr × Msg)) (a : Addr) (r : Raw) :
    specRun pick s (pre ++ (a, .other r) :: suf) =
      (specRun pick s (pre ++ suf)).take pre.length ++ [] :: (specRun pick s (pre ++ suf)).drop pre.length := by
  induction pre generalizing s with
  | nil =>
    simp only [List.nil_append, List.length_nil, List.take_zero, List.drop_zero, specRun, specStep]
  | cons x rest ih =>
    obtain ⟨b, m⟩ := x
    simp only [List.cons_append, specRun, List.length_cons, List.take_succ_cons, List.drop_succ_cons]
    rw [ih]

/-- … and so does a measurement (or close) for a flow that is not registered (unknown datapath, unknown or already closed flow) -/
theorem spec_unknown_measure_is_identity (pick : Bytes → Nat) (s : Spec) (a : Addr) (m : Measure)
    (h : s.get a m.sid = none) (suf : List (Addr × Msg)) :
    specRun pick s ((a, .ms m) :: suf) = [] :: specRun pick s suf := by
  have hs : specStep pick s a (.ms m) = (s, []) := by
    simp only [specStep, h]
  simp only [specRun, hs]

end Portus.C09
