import PortusModel.Props.C01Decode
import PortusModel.Props.C07
import PortusModel.Props.C12
/-!
# From the program text to the value a flow reads by name — C01, C07, C12 and C13 composed

The user-level guarantee the four properties give TOGETHER, for every program of C01's fragment, every input sequence and every
report variable: the value `Report::get_field(name)` returns inside `on_report` is the value the SOURCE SEMANTICS gives the
variable `name` at the end of that invocation.

* the compiled program, installed from its bytes, makes the datapath model report exactly the values the source semantics
  denotes, in declaration order (`C01.run_correct_from_bytes`);
* libccp writes those values into a measurement message, and portus' decoder returns them intact with the program's uid
  (`C07.libccp_measure_decodes`);
* `get_field` with the scope of that compilation reads the `k`-th declared report variable from slot `k`
  (`C12.declared_report_variable_reads_its_slot`, which rests on C13).
-/
namespace Portus.Vertical
open Portus Portus.Lang Portus.Wire Portus.Vm Portus.Rt Portus.Lang.Frag Portus.C01

/-- the report part of an observation, as both sides present it -/
def reportOf : IObs → Option (List Nat)
  | .done _ _ r => r
  | .fault _ => none

/-- every value a machine observation reports is a `UInt64` read as a natural number -/
theorem reportOf_ofVm_lt (o : Vm.Obs) (vals : List Nat) (h : reportOf (ofVm o) = some vals) :
    ∀ v ∈ vals, v < 2^64 := by
  unfold ofVm at h
  split at h
  · simp [reportOf] at h
  · simp only [reportOf] at h
    cases hr : o.report with
    | none => rw [hr] at h; simp at h
    | some p =>
      rw [hr] at h
      simp only [Option.map_some, Option.some.injEq] at h
      subst h
      intro v hv
      obtain ⟨u, _, rfl⟩ := List.mem_map.mp hv
      exact UInt64.toNat_lt u

theorem report_of_run_lt (l : List Vm.Obs) (i : Nat) (vals : List Nat)
    (h : ((l.map ofVm)[i]?).bind reportOf = some vals) : ∀ v ∈ vals, v < 2^64 := by
  rw [List.getElem?_map] at h
  cases ho : l[i]? with
  | none => rw [ho] at h; simp at h
  | some o =>
    rw [ho] at h
    simp only [Option.map_some, Option.bind_some] at h
    exact reportOf_ofVm_lt o vals h

/-- **What the datapath reports is what the source denotes, and it survives the wire**: for the `i`-th invocation of any input
sequence, if the source semantics (inside the fragment) reports the values `vals`, then the datapath model fed the install and
change-program BYTES reports exactly `vals` under the program's uid, the measurement message libccp writes for them decodes — in
front of any other bytes — to a measurement carrying that uid and exactly `vals`. -/
theorem reported_values_reach_the_decoder (uid : Nat) (src : List Char) (upd : List (Name × Nat)) (ds : List Decl)
    (evs : List Event) (bin : Bin) (scF : Scope) (img : Bytes) (decls : List Sem.VarDecl) (msg : Bytes)
    (hp : parseSource src = some (ds, evs))
    (hnd : (ds.map (·.var)).Nodup)
    (hfresh : ∀ d ∈ ds, (Scope.new uid).get d.var = none)
    (hc : compile uid src upd = .ok (bin, scF))
    (hser : bin.serialize = .ok img)
    (hv : varDecls ds upd = some decls)
    (hloc : scF.numLocal ≤ 6)
    (hne : evs ≠ [])
    (hst : InOracle evs = true)
    (hlits : LitsOk evs = true) (hwr : WritesOk evs = true)
    (hmsg : serializeInstall (installOf uid bin) = .ok msg)
    (huid : uid < 2^32) (hne256 : bin.events.length ≤ 256) (hni256 : bin.instrs.length ≤ 256) :
    ∃ dp1 dp2 dp3, readMsg Dp.init msg = (dp1, 0) ∧ connStart dp1 = some (dp2, 1) ∧
      readMsg dp2 (cpBytes 1 uid) = (dp3, 0) ∧
      ∀ (now : Val) (prims : Prims) (rest : List (Val × Prims)) (exp : List IObs) (i : Nat) (vals : List Nat),
        (Sem.run decls evs (Sem.initState decls now) (((now, prims) :: rest).map envOf)).mapM ofSem = some exp →
        (exp[i]?).bind reportOf = some vals →
        (((dpRun 1 dp3 ((now, prims) :: rest)).map ofVm)[i]?).bind reportOf = some vals ∧
        (vals.length ≤ 255 → ∀ (sid : Nat) (more : Bytes), sid < 2^32 →
          fromBuf (Libccp.writeMeasure sid uid vals ++ more) =
            .ok (.ms { sid := sid, uid := uid, numFields := vals.length, fields := vals }, 16 + 8 * vals.length)) := by
  obtain ⟨dp1, dp2, dp3, h1, h2, h3, h4⟩ := run_correct_from_bytes uid src upd ds evs bin scF img decls msg hp hnd hfresh hc
    hser hv hloc hne hst hlits hwr hmsg huid hne256 hni256
  refine ⟨dp1, dp2, dp3, h1, h2, h3, ?_⟩
  intro now prims rest exp i vals hexp hvals
  have h5 := h4 now prims rest
  rw [hexp] at h5
  simp only at h5
  have hrun : (((dpRun 1 dp3 ((now, prims) :: rest)).map ofVm)[i]?).bind reportOf = some vals := by
    rw [h5]; exact hvals
  refine ⟨hrun, ?_⟩
  intro hlen sid more hsid
  exact C07.libccp_measure_decodes sid uid vals more hsid huid hlen (report_of_run_lt _ i vals hrun)

/-- **… and the flow reads it back by name**: with the scope of that compilation, `get_field` of the `k`-th declared report
variable on a report carrying the program's uid and the values `vals` returns `vals[k]` — never another slot, never a panic. -/
theorem flow_reads_value_by_name (uid : Nat) (src : List Char) (upd : List (Name × Nat)) (ds : List Decl)
    (evs : List Event) (bin : Bin) (scF : Scope)
    (hp : parseSource src = some (ds, evs)) (hnd : (ds.map (·.var)).Nodup)
    (hfresh : ∀ d ∈ ds, (Scope.new uid).get d.var = none) (hc : compile uid src upd = .ok (bin, scF))
    (vals : List Nat) (k : Nat) (hk : k < (reportsOf ds).length) (hf : k < vals.length) :
    getFieldP uid vals (reportsOf ds)[k].var scF = .ok (.ok vals[k]) ∧
    getField uid vals (reportsOf ds)[k].var scF = .ok vals[k] := by
  have h := C12.declared_report_variable_reads_its_slot uid src upd ds evs bin scF hp hnd hfresh hc vals k hk hf
  refine ⟨h, ?_⟩
  have h2 := C12.getField_eq uid vals (reportsOf ds)[k].var scF
  rw [h] at h2
  injection h2 with h2
  exact h2.symm

end Portus.Vertical
