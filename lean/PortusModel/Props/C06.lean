import PortusModel.Lemmas.Ctl
/-!
# C06 — control-plane messages are byte-exact for libccp and honest about length

`Libccp.readMsg` is the independent reader (libccp's packed structs, `ccp_read_msg`); the encoders
are `serializeChangeProg / serializeUpdateField / serializeInstall`. "Built by the library" means
the count fields were set from the record lists, as `set_program`, `update_field` and `run_inner` do.
-/
namespace Portus.C06
open Portus Portus.Wire Portus.Lang

/-! ## Decidable forms of the matching relations (for the oracle) -/

def updsMatchB : List (Reg × Nat) → List Libccp.Upd → Bool
  | [], [] => true
  | (r, v) :: ps, u :: us => r.classIdx == .ok (u.cls, u.idx) && u.val == v && updsMatchB ps us
  | _, _ => false

def instrsMatchB : List Instr → List Libccp.InstrMsg → Bool
  | [], [] => true
  | i :: is, m :: ms =>
    serializeOp i.op == .ok m.opcode && i.res.classIdx == .ok (m.resT, m.resI) &&
    i.left.classIdx == .ok (m.leftT, m.leftI) && i.right.classIdx == .ok (m.rightT, m.rightI) &&
    instrsMatchB is ms
  | _, _ => false

theorem updsMatchB_iff (ps : List (Reg × Nat)) (us : List Libccp.Upd) :
    updsMatchB ps us = true ↔ updsMatch ps us := by
  induction ps generalizing us with
  | nil => cases us <;> simp [updsMatchB, updsMatch]
  | cons p ps ih =>
    obtain ⟨r, v⟩ := p
    cases us with
    | nil => simp [updsMatchB, updsMatch]
    | cons u us => simp [updsMatchB, updsMatch, ih, and_assoc]

theorem instrsMatchB_iff (is : List Instr) (ms : List Libccp.InstrMsg) :
    instrsMatchB is ms = true ↔ instrsMatch is ms := by
  induction is generalizing ms with
  | nil => cases ms <;> simp [instrsMatchB, instrsMatch]
  | cons i is ih =>
    cases ms with
    | nil => simp [instrsMatchB, instrsMatch]
    | cons m ms => simp [instrsMatchB, instrsMatch, instrMatch, ih, and_assoc]

/-! ## Change-program -/

/-- What `set_program` builds: count = number of updates; 32-bit ids; 64-bit values. -/
def builtCP (m : ChangeProg) : Prop :=
  m.numFields = m.fields.length ∧ m.sid < 2^32 ∧ m.uid < 2^32 ∧ ∀ p ∈ m.fields, p.2 < 2^64

/-- **libccp reads a change-program message exactly.** For every such message that serializes, with
at most libccp's 222 updates, libccp's reader returns the flow id, the program uid and one
(class, index, value) record per update, in order, equal to what the message was built from; and
the header length is the true length. -/
theorem changeprog_read_by_libccp (m : ChangeProg) (b : Bytes) (hb : builtCP m)
    (h : serializeChangeProg m = .ok b) (hl : m.fields.length ≤ 222) :
    b.length = 16 + 13 * m.fields.length ∧ rd16 (b.drop 2) = b.length ∧
    rd32 (b.drop 12) = m.fields.length ∧
    ∃ us, Libccp.readMsg b = some (.changeProg m.sid m.uid us) ∧ updsMatch m.fields us := by
  obtain ⟨hn, hs, hu, hv⟩ := hb
  unfold serializeChangeProg u32LenP serializeWith at h
  split at h
  · cases h
  split at h
  · cases h
  · rename_i hlen
    cases hup : serializeUpdates m.fields with
    | err => simp [hup] at h
    | panic => simp [hup] at h
    | ok ub =>
      simp [hup] at h
      obtain ⟨ul, um⟩ := readUpds_serializeUpdates m.fields ub [] hv hup
      have hblen : b.length = 16 + 13 * m.fields.length := by
        rw [← h]; simp [ul]; omega
      have e : b = le16 4 ++ (le16 (8 + 4 + 4 + m.numFields * 13) ++ (le32 m.sid ++ (le32 m.uid ++
          (le32 m.numFields ++ ub)))) := by
        rw [← h]; simp [serializeHeader, CHANGEPROG, List.append_assoc]
      have t0 : rd16 b = 4 := by rw [e, rd16_le16_append]
      have d2 : b.drop 2 = le16 (8 + 4 + 4 + m.numFields * 13) ++ (le32 m.sid ++ (le32 m.uid ++
          (le32 m.numFields ++ ub))) := by rw [e]; simp [le16]
      have d4 : b.drop 4 = le32 m.sid ++ (le32 m.uid ++ (le32 m.numFields ++ ub)) := by
        rw [e]; simp [le16]
      have d8 : b.drop 8 = le32 m.uid ++ (le32 m.numFields ++ ub) := by rw [e]; simp [le16, le32]
      have d12 : b.drop 12 = le32 m.numFields ++ ub := by rw [e]; simp [le16, le32]
      have d16 : b.drop 16 = ub := by rw [e]; simp [le16, le32]
      have t2 : rd16 (b.drop 2) = b.length := by
        rw [d2, rd16_le16_append, hblen, hn]; omega
      have t12 : rd32 (b.drop 12) = m.fields.length := by
        rw [d12, rd32_le32_append, hn]; omega
      refine ⟨hblen, t2, t12, Libccp.readUpds m.fields.length ub, ?_, by simpa using um⟩
      unfold Libccp.readMsg
      rw [if_neg (by omega)]
      simp only [t0, t2]
      rw [if_neg (by omega), if_neg (by omega), if_neg (by simp [Libccp.BIGGEST_MSG_SIZE]; omega)]
      simp only [show (4:Nat) ≠ 2 by decide, show (4:Nat) ≠ 3 by decide, if_false]
      have q8 : (b.drop 8).drop 4 = b.drop 12 := by rw [List.drop_drop]
      have q16 : (b.drop 8).drop 8 = b.drop 16 := by rw [List.drop_drop]
      rw [q8, q16, t12, d16, d4, d8]
      rw [if_neg (by simp [Libccp.MAX_MUTABLE_REG]; omega)]
      simp only [rd32_le32_append]
      congr 3 <;> omega

/-! ## Update-fields -/

def builtUF (m : UpdateField) : Prop :=
  m.numFields = m.fields.length ∧ m.sid < 2^32 ∧ ∀ p ∈ m.fields, p.2 < 2^64

/-- **libccp reads an update-fields message exactly**, for up to 127 updates (libccp reads the
count as one signed byte, so it refuses more; see `updatefield_libccp_limit`). -/
theorem updatefield_read_by_libccp (m : UpdateField) (b : Bytes) (hb : builtUF m)
    (h : serializeUpdateField m = .ok b) (hl : m.fields.length ≤ 127) :
    b.length = 12 + 13 * m.fields.length ∧ rd16 (b.drop 2) = b.length ∧
    rd32 (b.drop 8) = m.fields.length ∧
    ∃ us, Libccp.readMsg b = some (.updateFields m.sid us) ∧ updsMatch m.fields us := by
  obtain ⟨hn, hs, hv⟩ := hb
  unfold serializeUpdateField serializeWith at h
  split at h
  · cases h
  · rename_i hlen
    cases hup : serializeUpdates m.fields with
    | err => simp [hup] at h
    | panic => simp [hup] at h
    | ok ub =>
      simp [hup] at h
      obtain ⟨ul, um⟩ := readUpds_serializeUpdates m.fields ub [] hv hup
      have hblen : b.length = 12 + 13 * m.fields.length := by
        rw [← h]; simp [ul]; omega
      have e : b = le16 3 ++ (le16 (8 + 4 + m.numFields * 13) ++ (le32 m.sid ++
          (le32 m.numFields ++ ub))) := by
        rw [← h]; simp [serializeHeader, UPDATE_FIELD, List.append_assoc]
      have t0 : rd16 b = 3 := by rw [e, rd16_le16_append]
      have d2 : b.drop 2 = le16 (8 + 4 + m.numFields * 13) ++ (le32 m.sid ++
          (le32 m.numFields ++ ub)) := by rw [e]; simp [le16]
      have d4 : b.drop 4 = le32 m.sid ++ (le32 m.numFields ++ ub) := by rw [e]; simp [le16]
      have d8 : b.drop 8 = le32 m.numFields ++ ub := by rw [e]; simp [le16, le32]
      have d12 : b.drop 12 = ub := by rw [e]; simp [le16, le32]
      have t2 : rd16 (b.drop 2) = b.length := by
        rw [d2, rd16_le16_append, hblen, hn]; omega
      have t8 : rd32 (b.drop 8) = m.fields.length := by
        rw [d8, rd32_le32_append, hn]; omega
      have tb : bAt (b.drop 8) 0 = m.fields.length := by
        rw [d8]; simp [le32, byte_toNat, hn]; omega
      refine ⟨hblen, t2, t8, Libccp.readUpds m.fields.length ub, ?_, by simpa using um⟩
      unfold Libccp.readMsg
      rw [if_neg (by omega)]
      simp only [t0, t2]
      rw [if_neg (by omega), if_neg (by omega), if_neg (by simp [Libccp.BIGGEST_MSG_SIZE]; omega)]
      simp only [show (3:Nat) ≠ 2 by decide, if_false, if_true]
      have q12 : (b.drop 8).drop 4 = b.drop 12 := by rw [List.drop_drop]
      rw [q12, tb, d12, d4]
      have hsb : Libccp.signedByteAsU32 m.fields.length = m.fields.length := by
        simp [Libccp.signedByteAsU32]; omega
      rw [hsb, if_neg (by simp [Libccp.MAX_MUTABLE_REG]; omega)]
      simp only [rd32_le32_append]
      congr 3; omega

/-! ## Install -/

def builtIN (m : Install) : Prop :=
  m.numEvents = m.bin.events.length ∧ m.numInstrs = m.bin.instrs.length ∧ m.sid < 2^32 ∧ m.uid < 2^32 ∧
  ∀ e ∈ m.bin.events, evInRange e

/-- **libccp reads an install message exactly**: program uid, one expression record per event and
one instruction record per instruction, in order, each field equal to what it was built from
(messages within libccp's 32,678-byte limit). -/
theorem install_read_by_libccp (m : Install) (b : Bytes) (hb : builtIN m)
    (h : serializeInstall m = .ok b) (hl : b.length ≤ 32678) :
    b.length = 20 + 16 * (m.bin.events.length + m.bin.instrs.length) ∧ rd16 (b.drop 2) = b.length ∧
    rd32 (b.drop 12) = m.bin.events.length ∧ rd32 (b.drop 16) = m.bin.instrs.length ∧
    ∃ ms, Libccp.readMsg b = some (.install m.sid m.uid (m.bin.events.map evToLibccp) ms) ∧
      instrsMatch m.bin.instrs ms := by
  obtain ⟨hne, hni, hs, hu, hev⟩ := hb
  unfold serializeInstall u32LenP serializeWith at h
  split at h
  · cases h
  split at h
  · cases h
  · rename_i hlen
    cases hbin : m.bin.serialize with
    | err => simp [hbin] at h
    | panic => simp [hbin] at h
    | ok bb =>
      simp [hbin] at h
      unfold Bin.serialize at hbin
      cases his : serializeInstrs m.bin.instrs with
      | err => simp [his] at hbin
      | panic => simp [his] at hbin
      | ok ib =>
        simp [his] at hbin
        obtain ⟨il, im⟩ := readInstrs_serialize m.bin.instrs ib [] his
        have el := events_bytes_length m.bin.events
        have hbb : bb.length = 16 * (m.bin.events.length + m.bin.instrs.length) := by
          rw [← hbin]; simp only [List.length_append, el, il]; omega
        have hblen : b.length = 20 + 16 * (m.bin.events.length + m.bin.instrs.length) := by
          rw [← h]; simp [hbb]; omega
        have e : b = le16 2 ++ (le16 (8 + 12 + (m.numEvents * 16 + m.numInstrs * 16)) ++ (le32 m.sid ++
            (le32 m.uid ++ (le32 m.numEvents ++ (le32 m.numInstrs ++ bb))))) := by
          rw [← h]; simp [serializeHeader, INSTALL, List.append_assoc]
        have t0 : rd16 b = 2 := by rw [e, rd16_le16_append]
        have d2 : b.drop 2 = le16 (8 + 12 + (m.numEvents * 16 + m.numInstrs * 16)) ++ (le32 m.sid ++
            (le32 m.uid ++ (le32 m.numEvents ++ (le32 m.numInstrs ++ bb)))) := by rw [e]; simp [le16]
        have d4 : b.drop 4 = le32 m.sid ++ (le32 m.uid ++ (le32 m.numEvents ++ (le32 m.numInstrs ++ bb))) := by
          rw [e]; simp [le16]
        have d8 : b.drop 8 = le32 m.uid ++ (le32 m.numEvents ++ (le32 m.numInstrs ++ bb)) := by
          rw [e]; simp [le16, le32]
        have d12 : b.drop 12 = le32 m.numEvents ++ (le32 m.numInstrs ++ bb) := by
          rw [e]; simp [le16, le32]
        have d16 : b.drop 16 = le32 m.numInstrs ++ bb := by rw [e]; simp [le16, le32]
        have d20 : b.drop 20 = bb := by rw [e]; simp [le16, le32]
        have t2 : rd16 (b.drop 2) = b.length := by
          rw [d2, rd16_le16_append, hblen, hne, hni]; omega
        have t12 : rd32 (b.drop 12) = m.bin.events.length := by
          rw [d12, rd32_le32_append, hne]; omega
        have t16 : rd32 (b.drop 16) = m.bin.instrs.length := by
          rw [d16, rd32_le32_append, hni]; omega
        refine ⟨hblen, t2, t12, t16, Libccp.readInstrs m.bin.instrs.length ib, ?_, by simpa using im⟩
        unfold Libccp.readMsg
        rw [if_neg (by omega)]
        simp only [t0, t2]
        rw [if_neg (by omega), if_neg (by omega), if_neg (by simp [Libccp.BIGGEST_MSG_SIZE]; omega)]
        simp only [if_true]
        have q12 : (b.drop 8).drop 4 = b.drop 12 := by rw [List.drop_drop]
        have q16 : (b.drop 8).drop 8 = b.drop 16 := by rw [List.drop_drop]
        have q20 : (b.drop 8).drop 12 = b.drop 20 := by rw [List.drop_drop]
        have qi : (b.drop 8).drop (12 + 16 * m.bin.events.length) = ib := by
          rw [List.drop_drop, show 8 + (12 + 16 * m.bin.events.length) = 20 + 16 * m.bin.events.length by omega,
            ← List.drop_drop, d20, ← hbin, List.drop_left' (by rw [el])]
        rw [q12, q16, q20, t12, t16, qi, d20, d4, d8]
        have qe : Libccp.readExprs m.bin.events.length bb = m.bin.events.map evToLibccp := by
          rw [← hbin]; exact readExprs_serialize m.bin.events ib hev
        rw [qe]
        simp only [rd32_le32_append]
        congr 3 <;> omega

/-! ## Honest or refused: lengths and counts the header cannot represent -/

/-- Whenever an encoder succeeds on a message the library built, the 16-bit header length is the
true byte length (so it is at most 65535). -/
theorem header_len_honest_cp (m : ChangeProg) (b : Bytes) (hb : builtCP m)
    (h : serializeChangeProg m = .ok b) : rd16 (b.drop 2) = b.length ∧ b.length ≤ 65535 := by
  obtain ⟨hn, hs, hu, hv⟩ := hb
  have h' := h
  unfold serializeChangeProg u32LenP serializeWith at h
  split at h
  · cases h
  split at h
  · cases h
  · rename_i hlen
    cases hup : serializeUpdates m.fields with
    | err => simp [hup] at h
    | panic => simp [hup] at h
    | ok ub =>
      simp [hup] at h
      obtain ⟨ul, _⟩ := readUpds_serializeUpdates m.fields ub [] hv hup
      have hblen : b.length = 16 + 13 * m.fields.length := by rw [← h]; simp [ul]; omega
      have d2 : b.drop 2 = le16 (8 + 4 + 4 + m.numFields * 13) ++ (le32 m.sid ++ (le32 m.uid ++
          (le32 m.numFields ++ ub))) := by
        rw [← h]; simp [serializeHeader, CHANGEPROG, le16, List.append_assoc]
      rw [d2, rd16_le16_append, hblen, hn]
      omega

/-- A message whose true length exceeds the 16-bit length field is refused, never truncated. -/
theorem unrepresentable_fails_cp (m : ChangeProg) (h : 16 + 13 * m.numFields > 65535)
    (h32 : 16 + 13 * m.numFields < 2^32) :
    serializeChangeProg m = .err := by
  unfold serializeChangeProg u32LenP serializeWith
  rw [if_neg (by omega), if_pos (by omega)]

theorem unrepresentable_fails_uf (m : UpdateField) (h : 12 + 13 * m.numFields > 65535) :
    serializeUpdateField m = .err := by
  unfold serializeUpdateField serializeWith
  rw [if_pos (by omega)]

theorem unrepresentable_fails_in (m : Install) (h : 20 + 16 * (m.numEvents + m.numInstrs) > 65535)
    (h32 : 20 + 16 * (m.numEvents + m.numInstrs) < 2^32) :
    serializeInstall m = .err := by
  unfold serializeInstall u32LenP serializeWith
  rw [if_neg (by omega), if_pos (by omega)]

theorem header_len_honest_in (m : Install) (b : Bytes) (hb : builtIN m)
    (h : serializeInstall m = .ok b) : rd16 (b.drop 2) = b.length ∧ b.length ≤ 65535 := by
  obtain ⟨hne, hni, hs, hu, hev⟩ := hb
  unfold serializeInstall u32LenP serializeWith at h
  split at h
  · cases h
  split at h
  · cases h
  · rename_i hlen
    cases hbin : m.bin.serialize with
    | err => simp [hbin] at h
    | panic => simp [hbin] at h
    | ok bb =>
      simp [hbin] at h
      unfold Bin.serialize at hbin
      cases his : serializeInstrs m.bin.instrs with
      | err => simp [his] at hbin
      | panic => simp [his] at hbin
      | ok ib =>
        simp [his] at hbin
        obtain ⟨il, _⟩ := readInstrs_serialize m.bin.instrs ib [] his
        have el := events_bytes_length m.bin.events
        have hbb : bb.length = 16 * (m.bin.events.length + m.bin.instrs.length) := by
          rw [← hbin]; simp only [List.length_append, el, il]; omega
        have hblen : b.length = 20 + 16 * (m.bin.events.length + m.bin.instrs.length) := by
          rw [← h]; simp [hbb]; omega
        have d2 : b.drop 2 = le16 (8 + 12 + (m.numEvents * 16 + m.numInstrs * 16)) ++ (le32 m.sid ++
            (le32 m.uid ++ (le32 m.numEvents ++ (le32 m.numInstrs ++ bb)))) := by
          rw [← h]; simp [serializeHeader, INSTALL, le16, List.append_assoc]
        rw [d2, rd16_le16_append, hblen, hne, hni]
        omega

/-! ## Oracle -/

inductive Spec where
  | cp (m : ChangeProg) | uf (m : UpdateField) | ins (m : Install)

def Spec.lenFits : Spec → Bool
  | .cp m => decide (16 + 13 * m.numFields ≤ 65535)
  | .uf m => decide (12 + 13 * m.numFields ≤ 65535)
  | .ins m => decide (20 + 16 * (m.numEvents + m.numInstrs) ≤ 65535)

def Spec.built : Spec → Bool
  | .cp m => decide (m.numFields = m.fields.length) && decide (16 + 13 * m.numFields < 2^32)
  | .uf m => decide (m.numFields = m.fields.length)
  | .ins m => decide (m.numEvents = m.bin.events.length) && decide (m.numInstrs = m.bin.instrs.length) &&
      decide (20 + 16 * (m.numEvents + m.numInstrs) < 2^32)

/-- `C06.check spec observed`: for a message built by the library, the observed encoding result is
either a refusal, or bytes whose header length is their true length and which libccp's reader (when
within libccp's own limits) parses to exactly the records the message was built from; if the
length does not fit the header the result must be a refusal. A panic is never admissible. -/
def check (s : Spec) (obs : Out Bytes) : Bool :=
  !s.built ||
  match obs with
  | .panic => false
  | .err => true
  | .ok b =>
    s.lenFits && rd16 (b.drop 2) == b.length &&
    match s with
    | .cp m =>
      rd32 (b.drop 12) == m.fields.length &&
      (decide (m.fields.length > 222) ||
        match Libccp.readMsg b with
        | some (.changeProg sid uid us) => sid == m.sid && uid == m.uid && updsMatchB m.fields us
        | _ => false)
    | .uf m =>
      rd32 (b.drop 8) == m.fields.length &&
      (decide (m.fields.length > 127) ||
        match Libccp.readMsg b with
        | some (.updateFields sid us) => sid == m.sid && updsMatchB m.fields us
        | _ => false)
    | .ins m =>
      rd32 (b.drop 12) == m.bin.events.length && rd32 (b.drop 16) == m.bin.instrs.length &&
      (decide (b.length > 32678) ||
        match Libccp.readMsg b with
        | some (.install sid uid es ms) =>
          sid == m.sid && uid == m.uid && es == m.bin.events.map evToLibccp && instrsMatchB m.bin.instrs ms
        | _ => false)

/-! ## Non-vacuity -/
example : serializeChangeProg ⟨7, 3, 2, [(.control 0 .none false, 5), (.implicit 4 .none, 10)]⟩ =
    .ok [4,0,42,0, 7,0,0,0, 3,0,0,0, 2,0,0,0, 0,0,0,0,0, 5,0,0,0,0,0,0,0, 2,4,0,0,0, 10,0,0,0,0,0,0,0] := by
  decide
example : Libccp.readMsg [4,0,42,0, 7,0,0,0, 3,0,0,0, 2,0,0,0, 0,0,0,0,0, 5,0,0,0,0,0,0,0, 2,4,0,0,0, 10,0,0,0,0,0,0,0]
    = some (.changeProg 7 3 [⟨0, 0, 5⟩, ⟨2, 4, 10⟩]) := by decide

end Portus.C06
