import PortusModel.Conc.Transport
/-!
# C19 — the bundled transports deliver datagrams intact, once, and in order (partial)

Theorems over the transport model (`Conc/Transport.lean`), for **every schedule** of senders and receiver and every
payload: what has been received, followed by what is still queued, is exactly what was sent, in sending order
(`fifo_invariant`); hence per sender the received datagrams are a prefix of that sender's sends, each once, bytes and
boundaries intact, attributed to the right sender (`per_sender_prefix`, `drained_all_once`); a receive with nothing
pending is an error and changes nothing (`empty_recv_is_error`); a datagram that fits the buffer is returned whole
(`fits_recv_whole`); sending through a dead handle is an error, never a panic (`dead_handle_is_err`).

`check` is the acceptor the correspondence check evaluates on observations of the real `ipc::chan` / `ipc::unix`
under real threads; `model_accepted` shows every run of the model passes it (the oracle does not demand more than
the model delivers).

PARTIAL: that crossbeam's channel and the kernel's Unix-datagram queue *are* such a FIFO under real thread
interleavings is observed (bursts from 1–4 concurrent sender threads, blocking and non-blocking), not proved.
-/
namespace Portus.C19
open Portus Portus.Conc.Xpt

/-! ## the FIFO invariant -/

theorem delivered_append (a b : List Ev) : delivered (a ++ b) = delivered a ++ delivered b := by
  induction a with
  | nil => rfl
  | cons e r ih => cases e <;> simp [delivered, ih]

theorem sentOf_append (a b : List Op) : sentOf (a ++ b) = sentOf a ++ sentOf b := by
  induction a with
  | nil => rfl
  | cons e r ih => cases e <;> simp [sentOf, ih]

theorem step_inv (s : St) (o : Op) :
    delivered (step s o).trace ++ (step s o).queue = (delivered s.trace ++ s.queue) ++ sentOf [o] := by
  cases o with
  | send d => simp [step, sentOf]
  | recv =>
    cases hq : s.queue with
    | nil => simp [step, hq, sentOf, delivered_append, delivered]
    | cons d q => simp [step, hq, sentOf, delivered_append, delivered]

/-- **FIFO, exactly once, intact**: after any operation sequence, the datagrams received so far followed by the
datagrams still queued are exactly the datagrams sent, in sending order — nothing lost, duplicated, reordered, split,
merged or altered (a `Dgram` carries its bytes and its sender). -/
theorem fifo_invariant (ops : List Op) (s : St) :
    delivered (run s ops).trace ++ (run s ops).queue = (delivered s.trace ++ s.queue) ++ sentOf ops := by
  induction ops generalizing s with
  | nil => simp [run, sentOf]
  | cons o r ih =>
    have h := ih (step s o)
    simp only [run, List.foldl_cons] at h ⊢
    rw [h, step_inv]
    cases o <;> simp [sentOf, List.append_assoc]

theorem fifo_from_start (ops : List Op) :
    delivered (run {} ops).trace ++ (run {} ops).queue = sentOf ops := by
  have := fifo_invariant ops {}
  simpa [delivered] using this

/-- per sender: what was received from `snd` is a prefix of what `snd` sent (order per sender, no duplicates, no
foreign datagram attributed to `snd`) -/
theorem per_sender_prefix (ops : List Op) (snd : Nat) :
    (delivered (run {} ops).trace).filter (·.sender = snd) <+: (sentOf ops).filter (·.sender = snd) := by
  rw [← fifo_from_start ops, List.filter_append]
  exact List.prefix_append _ _

/-- once the receiver has drained the queue, it has received exactly the sent datagrams, in order -/
theorem drained_all_once (ops : List Op) :
    delivered (drain (run {} ops)).trace = sentOf ops := by
  have h := fifo_from_start ops
  simp only [drain, delivered_append]
  have : delivered ((run {} ops).queue.map Ev.got) = (run {} ops).queue := by
    induction (run {} ops).queue with
    | nil => rfl
    | cons d q ih => simp [delivered, ih]
  rw [this, h]

/-- a receive with nothing pending reports an error and changes nothing else -/
theorem empty_recv_is_error (s : St) (h : s.queue = []) :
    step s .recv = { s with trace := s.trace ++ [.empty] } := by
  simp [step, h]

/-- a receive with something pending returns the oldest datagram, whole -/
theorem recv_returns_head (s : St) (d : Dgram) (q : List Dgram) (h : s.queue = d :: q) :
    step s .recv = { queue := q, trace := s.trace ++ [.got d] } := by
  simp [step, h]

/-- a datagram that fits the receive buffer is returned with its exact length and bytes, on both transports -/
theorem fits_recv_whole (cap : Nat) (chan : Bool) (d : Dgram) (h : d.bytes.length ≤ cap) :
    recvInto cap chan d = .ok (d.bytes.length, d.bytes) := by
  simp [recvInto, h]

/-- no datagram, whatever its size, makes a receive panic (C16: oversized payloads); an oversized one is refused
(`chan`) or truncated to the buffer (`unix`) -/
theorem recv_never_panics (cap : Nat) (chan : Bool) (d : Dgram) : recvInto cap chan d ≠ .panic := by
  unfold recvInto; split
  · simp
  · split <;> simp

/-- sending through a handle whose runtime has shut down is an error, never a panic; a live handle gives whatever
the socket's send gives -/
theorem dead_handle_is_err (r : Out Unit) : sendMsg false r = .err ∧ sendMsg true r = r := by
  simp [sendMsg]

/-! ## schedules: the k-th send of sender `s` carries sequence number k -/

theorem sentOf_opsOf_filter (pay : Nat → Nat → Bytes) (sched : Sched) (done : Nat → Nat) (snd : Nat) :
    (sentOf (opsOf pay done sched)).filter (·.sender = snd) =
      (List.range (countOf snd sched)).map fun k => ⟨snd, done snd + k, pay snd (done snd + k)⟩ := by
  induction sched generalizing done with
  | nil => simp [opsOf, sentOf, countOf]
  | cons x r ih =>
    cases x with
    | none => simpa [opsOf, sentOf, countOf] using ih done
    | some t =>
      simp only [opsOf, sentOf, countOf]
      by_cases h : t = snd
      · subst h
        simp only [List.filter_cons, decide_true, if_true, if_pos rfl]
        rw [ih]
        simp only [if_pos rfl]
        rw [Nat.add_comm 1, List.range_succ_eq_map]
        simp only [List.map_cons, List.map_map, Nat.add_zero]
        congr 1
        apply List.map_congr_left
        intro k _
        simp only [Function.comp, if_true]
        have : done t + 1 + k = done t + (k + 1) := by omega
        simp only [Nat.succ_eq_add_one, this]
      · simp only [List.filter_cons, h, decide_false, if_false, Bool.false_eq_true]
        rw [ih]
        simp only [if_neg (Ne.symm h), Nat.zero_add]

/-! ## the acceptor evaluated on observations of the real transports -/

/-- one received datagram as the harness reports it: the sender and sequence number read from the payload (or the
position, for single-sender runs of tiny datagrams), the length, whether every byte equals what that sender put in
that datagram, whether the address returned by `recv` is that sender's bound address (always true on `chan`) -/
structure Rx where
  sender : Nat
  seq : Nat
  len : Nat
  bytesOk : Bool
  addrOk : Bool
deriving Repr, DecidableEq, Inhabited

/-- accept iff every received datagram is intact and rightly attributed, and for every sender the received sequence
numbers are exactly 0, 1, …, n−1 in that order with the lengths that were sent (`lens s` = lengths sender `s` sent) -/
def check (lens : List (List Nat)) (rx : List Rx) : Bool :=
  rx.all (fun r => r.bytesOk && r.addrOk && decide (r.sender < lens.length)) &&
  (List.range lens.length).all fun s =>
    ((rx.filter (·.sender = s)).map fun r => (r.seq, r.len)) ==
      (List.range (lens.getD s []).length).map fun k => (k, (lens.getD s []).getD k 0)

/-- the observation of a model run -/
def obsOf (ds : List Dgram) : List Rx := ds.map fun d => ⟨d.sender, d.seq, d.bytes.length, true, true⟩

theorem filter_obsOf (ds : List Dgram) (s : Nat) :
    (obsOf ds).filter (·.sender = s) = obsOf (ds.filter (·.sender = s)) := by
  induction ds with
  | nil => rfl
  | cons d r ih =>
    simp only [obsOf, List.map_cons, List.filter_cons] at ih ⊢
    by_cases h : d.sender = s <;> simp [h, ih]

/-- **the acceptor accepts every run of the model**: for any schedule of `n` senders (sender `s` sending `cnt s`
datagrams with arbitrary payloads) and any placement of receives, once the receiver has drained the queue the
observation passes `check`. -/
theorem model_accepted (n : Nat) (pay : Nat → Nat → Bytes) (sched : Sched)
    (hs : ∀ x ∈ sched, ∀ s, x = some s → s < n) :
    check ((List.range n).map fun s => (List.range (countOf s sched)).map fun k => (pay s k).length)
      (obsOf (delivered (drain (run {} (opsOf pay (fun _ => 0) sched))).trace)) = true := by
  rw [drained_all_once]
  unfold check
  simp only [Bool.and_eq_true, List.all_eq_true, List.length_map, List.length_range, decide_eq_true_eq, List.mem_range]
  constructor
  · intro r hr
    simp only [obsOf, List.mem_map] at hr
    obtain ⟨d, hd, rfl⟩ := hr
    refine ⟨⟨rfl, rfl⟩, ?_⟩
    -- every sent datagram's sender is scheduled
    have : ∀ (done : Nat → Nat) (sc : Sched), (∀ x ∈ sc, ∀ s, x = some s → s < n) →
        ∀ d ∈ sentOf (opsOf pay done sc), d.sender < n := by
      intro done sc
      induction sc generalizing done with
      | nil => intro _ d hd; simp [opsOf, sentOf] at hd
      | cons x r ih =>
        intro hsc d hd
        cases x with
        | none => exact ih done (fun y hy => hsc y (List.mem_cons_of_mem _ hy)) d (by simpa [opsOf, sentOf] using hd)
        | some t =>
          simp only [opsOf, sentOf, List.mem_cons] at hd
          rcases hd with rfl | hd
          · exact hsc (some t) (List.mem_cons_self) t rfl
          · exact ih _ (fun y hy => hsc y (List.mem_cons_of_mem _ hy)) d hd
    exact this _ sched hs d hd
  · intro s hsn
    rw [filter_obsOf, sentOf_opsOf_filter]
    simp only [obsOf, List.map_map, Nat.zero_add]
    have hget : ((List.range n).map fun s => (List.range (countOf s sched)).map fun k => (pay s k).length).getD s [] =
        (List.range (countOf s sched)).map fun k => (pay s k).length := by
      simp [List.getD, hsn]
    rw [hget]
    simp only [List.length_map, List.length_range, beq_iff_eq]
    apply List.map_congr_left
    intro k hk
    simp only [List.mem_range] at hk
    simp [Function.comp, List.getD, hk]

/-- the acceptor rejects a loss, a duplicate, a reordering within a sender, a damaged or misattributed datagram
(non-vacuity of `check`: concrete observations) -/
example : check [[3, 4]] [⟨0, 0, 3, true, true⟩, ⟨0, 1, 4, true, true⟩] = true := by decide
example : check [[3, 4]] [⟨0, 0, 3, true, true⟩] = false := by decide                                   -- loss
example : check [[3, 4]] [⟨0, 0, 3, true, true⟩, ⟨0, 0, 3, true, true⟩, ⟨0, 1, 4, true, true⟩] = false := by decide -- duplicate
example : check [[3, 4]] [⟨0, 1, 4, true, true⟩, ⟨0, 0, 3, true, true⟩] = false := by decide             -- reordered
example : check [[3, 4]] [⟨0, 0, 3, true, true⟩, ⟨0, 1, 3, true, true⟩] = false := by decide             -- boundary moved
example : check [[3, 4]] [⟨0, 0, 3, false, true⟩, ⟨0, 1, 4, true, true⟩] = false := by decide            -- bytes damaged
example : check [[3], [4]] [⟨1, 0, 4, true, true⟩, ⟨0, 0, 3, true, false⟩] = false := by decide          -- wrong address
example : check [[3], [4]] [⟨1, 0, 4, true, true⟩, ⟨0, 0, 3, true, true⟩] = true := by decide            -- senders interleave freely

end Portus.C19
