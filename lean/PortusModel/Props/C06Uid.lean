import PortusModel.Vm.Datapath
import PortusModel.Props.C17
/-!
# C06 — "libccp accepts it and behaves accordingly": the program uid that libccp treats as a marker

libccp 1.2.0 (`ccp_read_msg`) empties its whole program table whenever an INSTALL message carries program uid 1 — its way of
noticing that a new CCP process has started. So the uids portus puts into install messages must be such that
* the FIRST program a process compiles gets uid 1 (a restarted CCP makes the datapath forget the previous CCP's programs), and
* no LATER program gets uid 1 (or the datapath forgets programs that flows are about to select).
Both are facts about `get_next_uid!` (translated from /repo into `Generated/UidOp.lean` on every run) and about libccp's table
(modelled in `Vm/Datapath.lean`, tied to the real libccp by the C driver).
-/
namespace Portus.C06
open Portus Portus.Vm Portus.Conc Portus.C17

/-- the uid returned by the `n`-th allocation of a process (`n = 0` first), allocations taken one after the other -/
def nthUid (n : Nat) : Nat := (Generated.counterInit + rmwK * n + Generated.retDelta) % M

/-- the first program compiled in a process carries libccp's "new CCP" marker -/
theorem first_uid_is_marker : nthUid 0 = 1 := by decide

/-- no later program does (until the 32-bit counter wraps) -/
theorem later_uid_not_marker (n : Nat) (hn : 1 ≤ n) (hM : Generated.counterInit + rmwK * n + Generated.retDelta < M) :
    nthUid n ≠ 1 := by
  unfold nthUid
  rw [Nat.mod_eq_of_lt hM]
  have h0 : Generated.counterInit + rmwK * 0 + Generated.retDelta = 1 := by decide
  have hk := generated_is_single_rmw.2
  have : rmwK * n ≥ 1 := Nat.mul_pos hk hn
  simp only [Nat.mul_zero, Nat.add_zero] at h0
  omega

/-! ## libccp's table -/

private theorem findFree_spec : ∀ (ps : List (Nat × Program)) (o k : Nat), findFree ps o = some k →
    ∃ j, k = o + j ∧ ∃ h : j < ps.length, (ps[j]).1 = 0
  | [], _, _, h => by simp [findFree] at h
  | (idx, p) :: rest, o, k, h => by
    unfold findFree at h
    split at h
    · rename_i h0
      injection h with h
      exact ⟨0, by omega, by simp, by simpa using h0⟩
    · obtain ⟨j, hj, hl, hz⟩ := findFree_spec rest (o + 1) k h
      exact ⟨j + 1, by omega, by simpa using hl, by simpa using hz⟩

private theorem find?_set_irrelevant {α} (p : α → Bool) : ∀ (l : List α) (k : Nat) (x : α) (hk : k < l.length),
    p l[k] = false → p x = false → (l.set k x).find? p = l.find? p
  | a :: rest, 0, x, _, h1, h2 => by
    simp only [List.getElem_cons_zero] at h1
    simp [List.set, List.find?, h1, h2]
  | a :: rest, k + 1, x, hk, h1, h2 => by
    simp only [List.getElem_cons_succ] at h1
    simp only [List.set, List.find?]
    rw [find?_set_irrelevant p rest k x (by simpa using hk) h1 h2]

/-- installing a program under another uid (into a table that is not full) leaves every installed program where it was -/
theorem installProgram_keeps (dp : Dp) (uid u : Nat) (ex : List Libccp.Expr) (ims : List Libccp.InstrMsg)
    (hfull : (installProgram dp uid ex ims).2 ≠ -81) (hne : uid ≠ u) :
    lookupUid (installProgram dp uid ex ims).1 u = lookupUid dp u := by
  unfold installProgram at hfull ⊢
  split at hfull
  · exact absurd rfl hfull
  · rename_i k hk
    obtain ⟨j, hj, hl, hz⟩ := findFree_spec _ _ _ hk
    have hjk : j = k := by omega
    subst hjk
    simp only at hfull ⊢
    split at hfull
    · exact absurd rfl hfull
    · rename_i hp
      rw [if_neg hp]
      simp only [lookupUid]
      rw [find?_set_irrelevant _ dp.programs j _ hl (by simp [hz]) (by simp [hne])]

/-- what `ccp_read_msg` does with an INSTALL: uid 1 first empties the table -/
def installMsg (dp : Dp) (uid : Nat) (ex : List Libccp.Expr) (ims : List Libccp.InstrMsg) : Dp × Int :=
  installProgram (if uid = 1 then { dp with programs := List.replicate 10 (0, emptyProgram) } else dp) uid ex ims

/-- an INSTALL whose uid is not the marker keeps every earlier program selectable -/
theorem install_nonmarker_keeps (dp : Dp) (uid u : Nat) (ex : List Libccp.Expr) (ims : List Libccp.InstrMsg)
    (h1 : uid ≠ 1) (hfull : (installMsg dp uid ex ims).2 ≠ -81) (hne : uid ≠ u) :
    lookupUid (installMsg dp uid ex ims).1 u = lookupUid dp u := by
  unfold installMsg at hfull ⊢
  rw [if_neg h1] at hfull ⊢
  exact installProgram_keeps dp uid u ex ims hfull hne

/-- an INSTALL carrying the marker makes libccp forget every other program: a change-program naming one then fails -/
theorem install_marker_forgets (dp : Dp) (u : Nat) (ex : List Libccp.Expr) (ims : List Libccp.InstrMsg) (hne : u ≠ 1) :
    lookupUid (installMsg dp 1 ex ims).1 u = none := by
  unfold installMsg
  rw [if_pos rfl]
  simp only [installProgram, List.replicate, findFree, if_true]
  simp [lookupUid, List.find?, Ne.symm hne, emptyProgram]

/-- hence the history a fresh CCP produces — uids `nthUid 0, nthUid 1, …` installed in allocation order — keeps all of them:
installing the `n`-th (`n ≥ 1`) never empties the table -/
theorem fresh_history_keeps (dp : Dp) (n u : Nat) (ex : List Libccp.Expr) (ims : List Libccp.InstrMsg) (hn : 1 ≤ n)
    (hM : Generated.counterInit + rmwK * n + Generated.retDelta < M)
    (hfull : (installMsg dp (nthUid n) ex ims).2 ≠ -81) (hne : nthUid n ≠ u) :
    lookupUid (installMsg dp (nthUid n) ex ims).1 u = lookupUid dp u :=
  install_nonmarker_keeps dp _ u ex ims (later_uid_not_marker n hn hM) hfull hne

end Portus.C06
