import PortusModel.Props.C20
import PortusModel.Lemmas.ParseRender
/-!
# C20 — layout independence, end to end

`Lang/Render.lean` defines the *renderings* of a program tree: every text obtained from declarations `ds` and events
`evs` by choosing, at each gap, any run of space/tab/CR/LF (empty where two tokens cannot merge), any spelling of each
operator, any numeral for each number, and comment lines before events and among statements. `Lemmas/ParseRender.lean`
proves that the parser model maps every rendering back to the tree (`parse_render`). Here that is composed with the
compiler: all renderings of one tree give the same image and the same register mapping, and renderings that differ only
in comments do too.
-/
namespace Portus.C20
open Portus Portus.Lang

theorem compile_of_parse_eq {t1 t2 : List Char} (h : parseSource t1 = parseSource t2) (uid : Nat)
    (upd : List (Name × Nat)) : compileAndSerialize uid t1 upd = compileAndSerialize uid t2 upd := by
  unfold compileAndSerialize compile newWithScope
  rw [h]

/-- **whitespace, spelling and numeral layout never changes the compiled program**: any two renderings of the same
declarations and events compile to the same image and the same scope, under every uid and update list. -/
theorem layout_same_image {ds : List Decl} {evs : List Event} {t1 t2 : List Char}
    (h1 : RProg ds evs t1) (h2 : RProg ds evs t2) (uid : Nat) (upd : List (Name × Nat)) :
    compileAndSerialize uid t1 upd = compileAndSerialize uid t2 upd :=
  compile_of_parse_eq (layout_independent h1 h2) uid upd

/-- a rendering is accepted by the parser, and what the compiler sees is the desugared tree -/
theorem rendering_parses {ds : List Decl} {evs : List Event} {t : List Char} (h : RProg ds evs t) :
    parseSource t = some (ds, evs.map fun e => { e with body := e.body.map desugar }) :=
  parse_render h

theorem stripComments_eq_stripNone (evs : List Event) : stripComments evs = stripNone evs := rfl

/-- **comments never change the compiled program**: two renderings whose events differ only in comment items compile
to the same binary and scope. -/
theorem comments_same_program {ds : List Decl} {evs evs' : List Event} {t t' : List Char}
    (h1 : RProg ds evs t) (h2 : RProg ds evs' t') (hs : stripNone evs = stripNone evs')
    (uid : Nat) (upd : List (Name × Nat)) :
    compile uid t upd = compile uid t' upd := by
  obtain ⟨p, p', hp, hp', hpp⟩ := comments_only_add_none h1 h2 hs
  unfold compile newWithScope
  rw [hp, hp']
  simp only
  cases declareAll (Scope.new uid) ds with
  | ok sc =>
    show compileProg p (applyUpdates sc upd) = compileProg p' (applyUpdates sc upd)
    exact comments_irrelevant p p' (by rw [stripComments_eq_stripNone, stripComments_eq_stripNone, hpp]) _
  | err => rfl
  | panic => rfl

end Portus.C20
