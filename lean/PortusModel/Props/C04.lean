import PortusModel.Lemmas.WireDec
/-!
# C04 — decoding is total, stays inside the buffer, and always makes progress

All theorems quantify over **every** byte list `buf`; `fromBuf` is the model of `Msg::from_buf`
(`PortusModel/Wire/Dp.lean`), whose slices, indexings and casts are panic-faithful primitives.
`window buf lo hi` is Rust's `buf[lo..hi]`.
-/
namespace Portus.C04
open Portus Portus.Wire

/-- Rust `buf[lo..hi]` -/
def window (buf : Bytes) (lo hi : Nat) : Bytes := (buf.drop lo).take (hi - lo)

/-- the declared length: the little-endian `u16` at offset 2 -/
def declaredLen (buf : Bytes) : Nat := rd16 (buf.drop 2)
/-- the type code: the little-endian `u16` at offset 0 -/
def typeCode (buf : Bytes) : Nat := rd16 buf

/-! ## The property as a decidable oracle over (input, observed behaviour) -/

def typedOk (buf : Bytes) (m : Msg) (n : Nat) : Bool :=
  match m with
  | .cr c =>
    typeCode buf == 0 && n == declaredLen buf && decide (96 ≤ n) &&
    c.sid == rd32 (buf.drop 4) && c.cwnd == rd32 (buf.drop 8) && c.mss == rd32 (buf.drop 12) &&
    c.srcIp == rd32 (buf.drop 16) && c.srcPort == rd32 (buf.drop 20) &&
    c.dstIp == rd32 (buf.drop 24) && c.dstPort == rd32 (buf.drop 28) &&
    c.alg == algSpec (window buf 32 n)
  | .ms m =>
    typeCode buf == 1 && n == declaredLen buf && decide (16 ≤ n) &&
    m.sid == rd32 (buf.drop 4) && m.uid == rd32 (buf.drop 8) && m.numFields == rd32 (buf.drop 12) &&
    decide (m.numFields ≤ 255) && (n - 16) % 8 == 0 && m.fields == fieldsSpec (window buf 16 n)
  | .rdy id =>
    typeCode buf == 5 && n == declaredLen buf && decide (12 ≤ n) && id == rd32 (buf.drop 8)
  | .other r =>
    (r == ⟨255, 0, 0, buf⟩ && n == buf.length) ||
    (r.typ == typeCode buf && r.typ != 0 && r.typ != 1 && r.typ != 5 && n == declaredLen buf &&
      r.len == n && decide (8 ≤ n) && r.sid == rd32 (buf.drop 4) && r.bytes == window buf 8 n)

/-- `C04.check buf observed`: the observed result of decoding `buf` is admissible. -/
def check (buf : Bytes) (res : Out (Msg × Nat)) : Bool :=
  match res with
  | .panic => false
  | .err => true
  | .ok (m, n) =>
    decide (n ≤ buf.length) && ((n == 0) == buf.isEmpty) && typedOk buf m n

/-! ## Theorems -/

/-- Decoding never panics, whatever the bytes. -/
theorem from_buf_no_panic (buf : Bytes) : fromBuf buf ≠ .panic := fromBuf_no_panic buf

private theorem ok_cases {buf : Bytes} {m : Msg} {n : Nat} (h : fromBuf buf = .ok (m, n)) :
    (deserialize buf = .err ∧ m = .other ⟨255, 0, 0, buf⟩ ∧ n = buf.length) ∨
    (∃ r, deserialize buf = .ok r ∧ n = r.len ∧ fromRaw r = .ok m) := by
  rw [fromBuf_eq] at h
  split at h
  · cases h
  · left; simp at h; simp_all
  · right; rename_i r hr
    refine ⟨r, hr, ?_⟩
    cases hm : fromRaw r <;> simp [hm] at h
    simp [h.1, h.2]

/-- The consumed length stays inside the buffer and is zero only for the empty buffer. -/
theorem from_buf_progress (buf : Bytes) (m : Msg) (n : Nat) (h : fromBuf buf = .ok (m, n)) :
    n ≤ buf.length ∧ (n = 0 ↔ buf = []) := by
  rcases ok_cases h with ⟨_, _, rfl⟩ | ⟨r, hr, rfl, _⟩
  · simp
  · have := deserialize_ok hr
    refine ⟨by omega, ?_, ?_⟩
    · intro h0; omega
    · intro hb; subst hb; simp at this

private theorem win_bytes {buf : Bytes} {r : Raw} (hr : deserialize buf = .ok r) :
    r.bytes = window buf 8 r.len := (deserialize_ok hr).2.2.2.2.2.2.2

private theorem rd32_win (buf : Bytes) (n k : Nat) (h : 8 + k + 4 ≤ n) :
    rd32 ((window buf 8 n).drop k) = rd32 (buf.drop (8 + k)) := by
  unfold window
  rw [List.drop_take, rd32_take _ _ (by omega), List.drop_drop]

private theorem win_drop (buf : Bytes) (n k : Nat) :
    (window buf 8 n).drop k = window buf (8 + k) n := by
  unfold window
  rw [List.drop_take, List.drop_drop]
  congr 1; omega

/-- A create is produced only for type code 0 with a declared length covering the fixed fields and
the whole name block; its fields are the little-endian words at offsets 4,8,…,28 and its name is
read from the bytes `[32, n)`. -/
theorem create_only_when_create (buf : Bytes) (c : Create) (n : Nat)
    (h : fromBuf buf = .ok (.cr c, n)) :
    typeCode buf = 0 ∧ n = declaredLen buf ∧ 96 ≤ n ∧ n ≤ buf.length ∧
    c.sid = rd32 (buf.drop 4) ∧ c.cwnd = rd32 (buf.drop 8) ∧ c.mss = rd32 (buf.drop 12) ∧
    c.srcIp = rd32 (buf.drop 16) ∧ c.srcPort = rd32 (buf.drop 20) ∧
    c.dstIp = rd32 (buf.drop 24) ∧ c.dstPort = rd32 (buf.drop 28) ∧
    c.alg = algSpec (window buf 32 n) := by
  rcases ok_cases h with ⟨_, hm, _⟩ | ⟨r, hr, rfl, hm⟩
  · cases hm
  · obtain ⟨_, ht, _, hl, _, hle, hs, _⟩ := deserialize_ok hr
    have hbl := deserialize_bytes_length hr
    have hw := win_bytes hr
    unfold fromRaw at hm
    split at hm
    · rename_i htyp
      rw [createFromRaw_eq r htyp] at hm
      have h88 : ¬ r.bytes.length < 88 := by
        intro hc; rw [if_pos hc] at hm; cases hm
      rw [if_neg h88] at hm
      have hn : 96 ≤ r.len := by omega
      have e0 : rd32 r.bytes = rd32 (buf.drop 8) := by
        have := rd32_win buf r.len 0 (by omega); rw [← hw] at this; simpa using this
      have ek : ∀ k, 8 + k + 4 ≤ r.len → rd32 (r.bytes.drop k) = rd32 (buf.drop (8 + k)) := by
        intro k hk; rw [hw]; exact rd32_win buf r.len k hk
      have ea : r.bytes.drop 24 = window buf 32 r.len := by rw [hw, win_drop]
      refine ⟨by rw [typeCode, ← ht]; exact htyp, hl, hn, hle, ?_⟩
      rw [ea] at hm
      simp only [algSpec]
      split at hm
      · rename_i e he
        split at hm
        · simp at hm; subst hm
          simp [hs, e0, ek 4 (by omega), ek 8 (by omega), ek 12 (by omega), ek 16 (by omega),
            ek 20 (by omega), he]
        · simp at hm
      · rename_i hne
        simp at hm; subst hm
        refine ⟨hs, e0, ek 4 (by omega), ek 8 (by omega), ek 12 (by omega), ek 16 (by omega),
            ek 20 (by omega), ?_⟩
        cases hnp : nulPos (window buf 32 r.len) with
        | none => rfl
        | some e => cases e with
          | zero => rfl
          | succ e => exact absurd hnp (hne e)
    · split at hm
      · cases hx : measureFromRaw r <;> simp [hx] at hm
      · split at hm
        · cases hx : readyFromRaw r <;> simp [hx] at hm
        · simp at hm

/-- A measurement is produced only for type code 1 with a declared length covering uid and count;
the values are the whole 8-byte words of `[16, n)` (a ragged tail is never silently dropped) and
the count is the 32-bit word at offset 12, which must fit `u8`. -/
theorem measure_only_when_measure (buf : Bytes) (m : Measure) (n : Nat)
    (h : fromBuf buf = .ok (.ms m, n)) :
    typeCode buf = 1 ∧ n = declaredLen buf ∧ 16 ≤ n ∧ n ≤ buf.length ∧
    m.sid = rd32 (buf.drop 4) ∧ m.uid = rd32 (buf.drop 8) ∧ m.numFields = rd32 (buf.drop 12) ∧
    m.numFields ≤ 255 ∧ (n - 16) % 8 = 0 ∧ m.fields = fieldsSpec (window buf 16 n) := by
  rcases ok_cases h with ⟨_, hm, _⟩ | ⟨r, hr, rfl, hm⟩
  · cases hm
  · obtain ⟨_, ht, _, hl, _, hle, hs, _⟩ := deserialize_ok hr
    have hbl := deserialize_bytes_length hr
    have hw := win_bytes hr
    unfold fromRaw at hm
    split at hm
    · cases hx : createFromRaw r <;> simp [hx] at hm
    · split at hm
      · rename_i htyp
        rw [measureFromRaw_eq r htyp] at hm
        split at hm
        · cases hm
        · split at hm
          · cases hm
          · split at hm
            · rename_i h8 h255 hmod
              simp at hm; subst hm
              have e0 : rd32 r.bytes = rd32 (buf.drop 8) := by
                have := rd32_win buf r.len 0 (by omega); rw [← hw] at this; simpa using this
              have e4 : rd32 (r.bytes.drop 4) = rd32 (buf.drop 12) := by
                rw [hw]; exact rd32_win buf r.len 4 (by omega)
              have ea : r.bytes.drop 8 = window buf 16 r.len := by rw [hw, win_drop]
              refine ⟨by rw [typeCode, ← ht]; exact htyp, hl, by omega, hle, hs, e0, e4, ?_, ?_, ?_⟩
              · simp only; omega
              · omega
              · simp only; rw [ea]
            · simp at hm
      · split at hm
        · cases hx : readyFromRaw r <;> simp [hx] at hm
        · simp at hm

/-- A ready is produced only for type code 5 with a declared length covering its id. -/
theorem ready_only_when_ready (buf : Bytes) (id n : Nat) (h : fromBuf buf = .ok (.rdy id, n)) :
    typeCode buf = 5 ∧ n = declaredLen buf ∧ 12 ≤ n ∧ n ≤ buf.length ∧ id = rd32 (buf.drop 8) := by
  rcases ok_cases h with ⟨_, hm, _⟩ | ⟨r, hr, rfl, hm⟩
  · cases hm
  · obtain ⟨_, ht, _, hl, _, hle, hs, _⟩ := deserialize_ok hr
    have hbl := deserialize_bytes_length hr
    have hw := win_bytes hr
    unfold fromRaw at hm
    split at hm
    · cases hx : createFromRaw r <;> simp [hx] at hm
    · split at hm
      · cases hx : measureFromRaw r <;> simp [hx] at hm
      · split at hm
        · rename_i htyp
          rw [readyFromRaw_eq r htyp] at hm
          split at hm
          · simp at hm
          · simp at hm; subst hm
            have e0 : rd32 r.bytes = rd32 (buf.drop 8) := by
              have := rd32_win buf r.len 0 (by omega); rw [← hw] at this; simpa using this
            exact ⟨by rw [typeCode, ← ht]; exact htyp, hl, by omega, hle, e0⟩
        · simp at hm

/-- Every other successful decode is an unknown message: either the undecodable-header wrapper
around the whole buffer, or a message whose type is none of create/measure/ready, carrying the
payload bytes `[8, n)`. -/
theorem otherwise_unknown (buf : Bytes) (r : Raw) (n : Nat) (h : fromBuf buf = .ok (.other r, n)) :
    (r = ⟨255, 0, 0, buf⟩ ∧ n = buf.length) ∨
    (r.typ = typeCode buf ∧ r.typ ≠ 0 ∧ r.typ ≠ 1 ∧ r.typ ≠ 5 ∧ n = declaredLen buf ∧ r.len = n ∧
      8 ≤ n ∧ n ≤ buf.length ∧ r.sid = rd32 (buf.drop 4) ∧ r.bytes = window buf 8 n) := by
  rcases ok_cases h with ⟨_, hm, hn⟩ | ⟨r', hr, rfl, hm⟩
  · left; injection hm with hm; exact ⟨hm, hn⟩
  · right
    obtain ⟨_, ht, _, hl, h8, hle, hs, _⟩ := deserialize_ok hr
    have hw := win_bytes hr
    unfold fromRaw at hm
    split at hm
    · cases hx : createFromRaw r' <;> simp [hx] at hm
    · split at hm
      · cases hx : measureFromRaw r' <;> simp [hx] at hm
      · split at hm
        · cases hx : readyFromRaw r' <;> simp [hx] at hm
        · rename_i h0 h1 h5
          simp at hm; subst hm
          exact ⟨ht, h0, h1, h5, hl, rfl, h8, hle, hs, hw⟩

/-- The oracle accepts the model's behaviour on every input: the five theorems above, packaged in
the decidable form that `./check` evaluates on the implementation's observed behaviour. -/
theorem check_fromBuf (buf : Bytes) : check buf (fromBuf buf) = true := by
  unfold check
  cases h : fromBuf buf with
  | panic => exact absurd h (from_buf_no_panic buf)
  | err => rfl
  | ok p =>
    obtain ⟨m, n⟩ := p
    have hp := from_buf_progress buf m n h
    have hp2 : ((n == 0) == buf.isEmpty) = true := by
      by_cases hn : n = 0
      · have := hp.2.mp hn; subst this; simp [hn]
      · have : buf ≠ [] := fun hb => hn (hp.2.mpr hb)
        cases buf with
        | nil => exact absurd rfl this
        | cons x xs => simp [hn]
    simp only [hp.1, hp2, decide_true, Bool.true_and]
    cases m with
    | cr c =>
      have := create_only_when_create buf c n h
      simp [typedOk, this]
      omega
    | ms m =>
      have := measure_only_when_measure buf m n h
      simp only [typedOk]
      obtain ⟨a1, a2, a3, a4, a5, a6, a7, a8, a9, a10⟩ := this
      simp [a1, ← a2, a3, ← a5, ← a6, ← a7, a8, a9, ← a10]
    | rdy id =>
      have := ready_only_when_ready buf id n h
      simp [typedOk, this]
      omega
    | other r =>
      rcases otherwise_unknown buf r n h with ⟨h1, h2⟩ | ⟨a1, a2, a3, a4, a5, a6, a7, a8, a9, a10⟩
      · simp [typedOk, h1, h2]
      · simp [typedOk, ← a1, ← a5, a6, a7, ← a9, ← a10]
        right; exact ⟨⟨a2, a3⟩, a4⟩

/-! ## Non-vacuity: concrete inputs reaching each conclusion -/

/-- ready, id 7 -/
example : fromBuf [5,0,12,0, 0,0,0,0, 7,0,0,0] = .ok (.rdy 7, 12) := by decide
/-- measurement with one value, followed by trailing bytes that are not consumed -/
example : fromBuf [1,0,24,0, 9,0,0,0, 3,0,0,0, 1,0,0,0, 42,0,0,0,0,0,0,0, 0xff, 0xff] =
    .ok (.ms ⟨9, 3, 1, [42]⟩, 24) := by decide
/-- a typed message too short for its fixed fields is an error, not a panic -/
example : fromBuf [0,0,8,0, 1,0,0,0] = .err := by decide
/-- a 16-bit type code that aliases `create` modulo 256 is surfaced as unknown -/
example : fromBuf [0,1,8,0, 1,0,0,0] = .ok (.other ⟨255, 0, 0, [0,1,8,0, 1,0,0,0]⟩, 8) := by decide

end Portus.C04
