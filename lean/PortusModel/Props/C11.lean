import PortusModel.Rt.Run
import PortusModel.Props.C06
/-!
# C11 — only controllable registers can be updated: all-or-nothing, values as asked
`setProgram`/`updateField` model `Datapath::{set_program, update_field}` up to the send;
`runUser` is how the runtime executes a flow's handle commands (the send itself).
-/
namespace Portus.C11
open Portus Portus.Lang Portus.Wire Portus.Rt

/-- a field the handle accepts: not reserved, bound to a control register or to `Cwnd`/`Rate` -/
def updatable (sc : Scope) (n : Name) : Bool :=
  !("__".toList.isPrefixOf n) &&
  match sc.get n with
  | some (.control ..) => true
  | some (.implicit i _) => i == 4 || i == 5
  | _ => false

/-- the register a field name denotes (meaningful when `updatable`) -/
def regOf (sc : Scope) (n : Name) : Reg := (sc.get n).getD .none

theorem resolveField_ok_iff (sc : Scope) (f : Name × Nat) :
    (updatable sc f.1 = true → resolveField sc f = .ok (regOf sc f.1, f.2)) ∧
    (updatable sc f.1 = false → resolveField sc f = .err) := by
  unfold resolveField updatable regOf
  generalize "__".toList.isPrefixOf f.1 = q
  cases q with
  | true => simp
  | false =>
    simp only [Bool.false_eq_true, if_false, Bool.not_false, Bool.true_and]
    cases hg : sc.get f.1 with
    | none => simp
    | some r =>
      cases r <;> simp
      rename_i i t
      by_cases h : i = 4 ∨ i = 5
      · simp [h]; omega
      · simp [h]

/-- **All or nothing.** The field list resolves iff every field is updatable; then the registers and
values come out in the order given; otherwise the result is an error (never a panic). -/
theorem resolveFields_spec (sc : Scope) (fs : List (Name × Nat)) :
    (fs.all (fun f => updatable sc f.1) = true →
      resolveFields sc fs = .ok (fs.map fun f => (regOf sc f.1, f.2))) ∧
    (fs.all (fun f => updatable sc f.1) = false → resolveFields sc fs = .err) := by
  induction fs with
  | nil => simp [resolveFields]
  | cons f rest ih =>
    obtain ⟨h1, h2⟩ := resolveField_ok_iff sc f
    simp only [List.all_cons, resolveFields]
    cases hu : updatable sc f.1 with
    | false => simp [h2 hu]
    | true =>
      rw [h1 hu]
      simp only [Bool.true_and, Out.bind_ok]
      constructor
      · intro ha; rw [ih.1 ha]; simp
      · intro ha; rw [ih.2 ha]; simp

/-- **`set_program`.** It succeeds only if the program name is known and every named field is a
declared control variable or `Cwnd`/`Rate`; then the bytes to transmit are the change-program message
carrying the flow id, the selected program's uid and the (register, value) pairs in the order given,
and the returned scope is that program's. In every other case the result is an error: nothing is
produced to transmit. -/
theorem set_program_spec (scopeMap : List (String × Scope)) (sid : Nat) (p : String)
    (fields : Option (List (Name × Nat))) :
    setProgram scopeMap sid p fields =
      match scopeMap.lookup p with
      | none => .err
      | some sc =>
        if (fields.getD []).all (fun f => updatable sc f.1) then
          match serializeChangeProg { sid := sid, uid := sc.uid, numFields := (fields.getD []).length,
                                      fields := (fields.getD []).map fun f => (regOf sc f.1, f.2) } with
          | .ok b => .ok (sc, b)
          | .err => .err
          | .panic => .panic
        else .err := by
  unfold setProgram
  cases scopeMap.lookup p with
  | none => rfl
  | some sc =>
    simp only
    obtain ⟨h1, h2⟩ := resolveFields_spec sc (fields.getD [])
    cases ha : (fields.getD []).all (fun f => updatable sc f.1) with
    | false => rw [h2 ha]; simp
    | true =>
      rw [h1 ha]
      simp only [Out.bind_ok, List.length_map, if_true]
      cases serializeChangeProg _ <;> rfl

/-- registers produced by the handle always encode: the change-program message of a successful
resolution never panics and fails only when its length does not fit the header -/
theorem updatable_reg_encodes (sc : Scope) (n : Name) (h : updatable sc n = true) :
    ∃ c i, (regOf sc n).classIdx = .ok (c, i) ∨ (∃ j t v, regOf sc n = .control j t v ∧ j > 15) := by
  unfold updatable at h
  unfold regOf
  simp only [Bool.and_eq_true] at h
  obtain ⟨_, h⟩ := h
  cases hg : sc.get n with
  | none => simp [hg] at h
  | some r =>
    rw [hg] at h
    cases r <;> simp at h
    · rename_i j t v
      by_cases hj : j > 15
      · exact ⟨0, 0, Or.inr ⟨j, t, v, rfl, hj⟩⟩
      · exact ⟨if v then 8 else 0, j, Or.inl (by simp [Reg.classIdx, hj])⟩
    · rename_i i t
      have : ¬ i > 5 := by omega
      exact ⟨2, i, Or.inl (by simp [Reg.classIdx, this])⟩

/-- **`update_field`**: the same rule against the given scope; more than 255 fields is an error. -/
theorem update_field_spec (sc : Scope) (sid : Nat) (fields : List (Name × Nat)) :
    updateField sc sid fields =
      if fields.all (fun f => updatable sc f.1) then
        if fields.length > 255 then .err
        else serializeUpdateField { sid := sid, numFields := fields.length,
                                    fields := fields.map fun f => (regOf sc f.1, f.2) }
      else .err := by
  unfold updateField
  obtain ⟨h1, h2⟩ := resolveFields_spec sc fields
  cases ha : fields.all (fun f => updatable sc f.1) with
  | false => rw [h2 ha]; simp
  | true => rw [h1 ha]; simp

/-- **Nothing is transmitted on error, exactly one message on success** — in the runtime's execution
of a `set_program` command: the events it adds are none (refused), or exactly one send to the flow's
own address (which the transport may fail, `txFail`); the continuation learns which. -/
theorem set_program_effect {σ : Type} (cfg : Cfg) (addr sid flow : Nat) (p : String)
    (f : Option (List (Name × Nat))) (k : Option Scope → UProg σ) (sf : Nat) (acc : List Ev) :
    runUser cfg addr sid flow (.setProgram p f k) sf acc =
      match setProgram cfg.scopeMap sid p f with
      | .panic => .panic
      | .err => runUser cfg addr sid flow (k none) sf acc
      | .ok (sc, b) =>
        if sf > 0 then runUser cfg addr sid flow (k none) (sf - 1) (acc ++ [.txFail addr])
        else runUser cfg addr sid flow (k (some sc)) sf (acc ++ [.tx addr b]) := by
  simp only [runUser]
  cases setProgram cfg.scopeMap sid p f with
  | panic => rfl
  | err => rfl
  | ok q =>
    obtain ⟨sc, b⟩ := q
    simp only [sendTo]
    split <;> simp_all

theorem update_field_effect {σ : Type} (cfg : Cfg) (addr sid flow : Nat) (sc : Scope)
    (f : List (Name × Nat)) (k : Bool → UProg σ) (sf : Nat) (acc : List Ev) :
    runUser cfg addr sid flow (.updateField sc f k) sf acc =
      match updateField sc sid f with
      | .panic => .panic
      | .err => runUser cfg addr sid flow (k false) sf acc
      | .ok b =>
        if sf > 0 then runUser cfg addr sid flow (k false) (sf - 1) (acc ++ [.txFail addr])
        else runUser cfg addr sid flow (k true) sf (acc ++ [.tx addr b]) := by
  simp only [runUser]
  cases updateField sc sid f with
  | panic => rfl
  | err => rfl
  | ok b =>
    simp only [sendTo]
    split <;> simp_all

/-- `C11.check`: the observed outcome of a handle call (bytes handed to the transport, or refusal) is
the one the rule prescribes. -/
def checkSetProgram (scopeMap : List (String × Scope)) (sid : Nat) (p : String)
    (fields : Option (List (Name × Nat))) (obs : Out (Scope × Bytes)) : Bool :=
  obs == setProgram scopeMap sid p fields

/-! ## Non-vacuity -/
example : updatable ⟨3, [("Cwnd".toList, .implicit 4 (.num none)), ("c".toList, .control 0 (.num (some 1)) false),
    ("Report.x".toList, .report 0 (.num none) true)], 1, 0, 1, []⟩ "c".toList = true := by decide
example : updatable ⟨3, [("Cwnd".toList, .implicit 4 (.num none)), ("c".toList, .control 0 (.num (some 1)) false),
    ("Report.x".toList, .report 0 (.num none) true)], 1, 0, 1, []⟩ "Report.x".toList = false := by decide

end Portus.C11
