import PortusModel.Props.C02Loop
import PortusModel.Props.C08
import PortusModel.Props.C16
/-!
# C02 end to end: datagram BYTES in, user-code calls out

The design's T2 item "lifted to datagram level through C08 + C04 + C07": for every script of datagrams that are each a
concatenation of well-formed (libccp-encoded) messages, the runtime — receive path `Backend.next` over the bytes, decoder
`fromBuf`, dispatch `step`, all modelled code — calls user code (`new_flow`, `on_report`, `close`) exactly as the flat-map
specification says for the carried messages, each attributed to the sender of the datagram that carried it.

It composes `C08.wellformed_datagrams_yield_messages` (framing: the receive path yields exactly the carried messages),
`C02.loop_calls_eq_hist_calls` (the loop calls user code as the history of yielded messages does) and
`C02.history_refines_flat_map` (that history refines the flat map).
-/
namespace Portus.C02
open Portus Portus.Lang Portus.Wire Portus.Ipc Portus.Rt

/-- the carried messages in the order and with the sender the specification sees them -/
def scriptHist (s : List (Addr × List Msg)) : List (Addr × Msg) := (C08.scriptMsgs s).map fun p => (p.2, p.1)

/-- the user-code calls the flat-map specification prescribes for a history -/
def specCalls (pick : Bytes → Nat) (hist : List (Addr × Msg)) : List Ev :=
  userCalls ((specRun pick Spec.init hist).flatMap id)


/-! ## The receive path, one `next` at a time, against `pendingSpec` -/

/-- a yielding `next` yields the head of what is pending, and what is pending afterwards is the tail -/
theorem next_some_pending (b b' : Backend) (hinv : Inv b) (rx rx' : List Rx) (p : Msg × Addr)
    (h : next b rx = .ok (some p, b', rx')) :
    Inv b' ∧ pendingSpec b rx = p :: pendingSpec b' rx' := by
  obtain ⟨hinv', _⟩ := C08.reception_advances b b' hinv rx rx' p h
  refine ⟨hinv', ?_⟩
  have h1 := run_eq_pending (Ipc.measure b rx + Ipc.measure b' rx' + 1) b rx hinv (by omega)
  have h2 := run_eq_pending (Ipc.measure b rx + Ipc.measure b' rx') b' rx' hinv' (by omega)
  rw [Ipc.run, h] at h1
  simp only [Out.bind_ok, h2, Out.pure_eq, Out.ok.injEq] at h1
  exact h1.symm

/-- when `next` returns `None` nothing is pending -/
theorem next_none_pending (b b' : Backend) (hinv : Inv b) (rx rx' : List Rx)
    (h : next b rx = .ok (none, b', rx')) : pendingSpec b rx = [] := by
  have h1 := run_eq_pending (Ipc.measure b rx + 1) b rx hinv (by omega)
  rw [Ipc.run, h] at h1
  simp only [Out.bind_ok, Out.pure_eq, Out.ok.injEq] at h1
  exact h1.symm

theorem pendingSpec_new (buf0 : Bytes) (rx : List Rx) : pendingSpec (Backend.new buf0) rx = Ipc.specRun rx := by
  simp [pendingSpec, window, Backend.new, decodeSeq]

/-- the inputs the specification sees for what is pending -/
def swapAll (l : List (Msg × Addr)) : List (Addr × Msg) := l.map fun p => (p.2, p.1)

theorem userCalls_of_callbacks {evs spec : List Ev} (h : evs.filter isCallback = spec) :
    userCalls evs = userCalls spec := by
  rw [← h, userCalls_filter_callback]

theorem userCalls_prefix_of_callbacks {evs spec : List Ev} (h : (evs.filter isCallback).isPrefixOf spec = true) :
    userCalls evs <+: userCalls spec := by
  rw [List.isPrefixOf_iff_prefix] at h
  rw [← userCalls_filter_callback]
  exact h.filter _

/-- **the loop's user-code calls are a prefix of the specification's over what is pending** -/
theorem loop_calls_prefix {σ : Type} (cfg : Cfg) (pol : Policy σ) (hb : pol.Bounded) (fuel : Nat)
    (b : Backend) (hinv : Inv b) (rx : List Rx) (st : St σ) (hw : WfSt st) (sp : Spec) (habs : Abs st sp)
    (acc tr : List Ev) (r : Res) (h : runLoop cfg pol fuel b rx st acc = .ok (tr, r)) :
    ∃ t, userCalls tr = userCalls acc ++ t ∧
      t <+: userCalls ((specRun cfg.pick sp (swapAll (pendingSpec b rx))).flatMap id) := by
  induction fuel generalizing b rx st sp acc with
  | zero =>
    simp only [runLoop, Out.ok.injEq, Prod.mk.injEq] at h
    obtain ⟨rfl, _⟩ := h
    exact ⟨[], by simp [userCalls_append, userCalls_shutdown], List.nil_prefix⟩
  | succ fuel ih =>
    unfold runLoop at h
    unfold loopStep at h
    cases hn : next b rx with
    | panic => rw [hn] at h; cases h
    | err => rw [hn] at h; cases h
    | ok q =>
      obtain ⟨o, b', rx'⟩ := q
      rw [hn] at h
      cases o with
      | none =>
        simp only [Out.ok.injEq, Prod.mk.injEq] at h
        obtain ⟨rfl, _⟩ := h
        exact ⟨[], by simp [userCalls_append, userCalls_shutdown, userCalls_rxEvents], List.nil_prefix⟩
      | some ma =>
        obtain ⟨msg, addr⟩ := ma
        obtain ⟨hinv', hp⟩ := next_some_pending b b' hinv rx rx' (msg, addr) hn
        simp only at h
        rw [hp]
        simp only [swapAll, List.map_cons, specRun, List.flatMap_cons, id, userCalls_append]
        rcases step_refines cfg pol hb (applySf st (rx.take (rx.length - rx'.length)))
            (WfSt_applySf _ hw) sp (Abs_applySf _ habs) addr msg with
          ⟨st', evs, hs, hcb, habs', hw'⟩ | ⟨st', evs, hs, hpre⟩
        · rw [hs] at h
          simp only at h
          obtain ⟨t, ht1, ht2⟩ := ih b' hinv' rx' st' hw' _ habs' _ h
          refine ⟨userCalls evs ++ t, ?_, ?_⟩
          · rw [ht1]
            simp only [userCalls_append, userCalls_rxEvents, List.nil_append, List.append_assoc]
          · rw [userCalls_of_callbacks hcb]
            exact (List.prefix_append_right_inj _).mpr ht2
        · rw [hs] at h
          simp only [Out.ok.injEq, Prod.mk.injEq] at h
          obtain ⟨rfl, _⟩ := h
          refine ⟨userCalls evs, ?_, ?_⟩
          · simp only [userCalls_append, userCalls_rxEvents, userCalls_shutdown, List.nil_append, List.append_nil,
              List.append_assoc]
          · exact (userCalls_prefix_of_callbacks hpre).trans (List.prefix_append _ _)

theorem abs_init0 {σ : Type} : Abs (St.init : St σ) Spec.init := Abs_init (σ := σ) 0

theorem scriptHist_eq (buf0 : Bytes) (s : List (Addr × List Msg)) (h : C08.wfScript s = true) :
    swapAll (pendingSpec (Backend.new buf0) (C08.scriptRx s)) = scriptHist s := by
  rw [pendingSpec_new, C08.wellformed_datagrams_yield_messages s h]
  rfl


/-! ## No scripted send failures: no step fails -/

theorem lastSf_take_scriptRx (s : List (Addr × List Msg)) (n : Nat) : lastSf ((C08.scriptRx s).take n) = none := by
  induction s generalizing n with
  | nil => simp [C08.scriptRx, lastSf]
  | cons p r ih =>
    cases n with
    | zero => simp [lastSf]
    | succ k =>
      have := ih k
      simp only [C08.scriptRx] at this
      simp only [C08.scriptRx, List.map_cons, List.take_succ_cons, lastSf, this]

theorem sendInstalls_zero (to : Addr) (progs : List ProgInfo) (acc : List Ev) :
    ∃ evs, sendInstalls to progs 0 acc = (true, 0, evs) := by
  induction progs generalizing acc with
  | nil => exact ⟨acc, rfl⟩
  | cons p rest ih =>
    obtain ⟨evs, h⟩ := ih (acc ++ [.tx to p.install])
    exact ⟨evs, by simp [sendInstalls, sendTo, h]⟩

theorem runUser_zero {σ : Type} (cfg : Cfg) (addr sid flow : Nat) (p : UProg σ) (hb : p.Bounded) (acc : List Ev) :
    ∃ u evs, runUser cfg addr sid flow p 0 acc = .ok (u, 0, evs) := by
  induction p generalizing acc with
  | done s => exact ⟨s, acc, rfl⟩
  | log m k ih =>
    obtain ⟨u, evs, h⟩ := ih hb (acc ++ [.log flow m])
    exact ⟨u, evs, by simp [runUser, h]⟩
  | setProgram pn f k ih =>
    obtain ⟨hlen, hk⟩ := hb
    simp only [runUser]
    have hnp := setProgram_no_panic cfg.scopeMap sid pn f hlen
    cases hs : setProgram cfg.scopeMap sid pn f with
    | panic => exact absurd hs hnp
    | err => exact ih none (hk none) acc
    | ok q =>
      obtain ⟨sc, b⟩ := q
      obtain ⟨u, evs, h⟩ := ih (some sc) (hk (some sc)) (acc ++ [.tx addr b])
      exact ⟨u, evs, by simp [sendTo, h]⟩
  | updateField sc f k ih =>
    simp only [runUser]
    have hnp := updateField_no_panic sc sid f
    cases hs : updateField sc sid f with
    | panic => exact absurd hs hnp
    | err => exact ih false (hb false) acc
    | ok b =>
      obtain ⟨u, evs, h⟩ := ih true (hb true) (acc ++ [.tx addr b])
      exact ⟨u, evs, by simp [sendTo, h]⟩

/-- with an empty send-failure budget a step never fails and leaves the budget empty -/
theorem step_nofail {σ : Type} (cfg : Cfg) (pol : Policy σ) (hb : pol.Bounded) (st : St σ) (hsf : st.sendFail = 0)
    (addr : Addr) (msg : Msg) :
    ∃ st' evs, step cfg pol st addr msg = .ok (.cont st' evs) ∧ st'.sendFail = 0 := by
  cases msg with
  | other r => exact ⟨st, [], rfl, hsf⟩
  | rdy id =>
    obtain ⟨evs, h⟩ := sendInstalls_zero addr cfg.progs (dropAll ((st.flows.lookup addr).getD []))
    show ∃ st' evs', Out.ok (stepRdy cfg st addr) = .ok (.cont st' evs') ∧ _
    unfold stepRdy
    simp only [hsf, h, if_true]
    exact ⟨_, _, rfl, rfl⟩
  | ms m =>
    show ∃ st' evs, stepMs cfg pol st addr m = .ok (.cont st' evs) ∧ _
    unfold stepMs
    cases hl : st.flows.lookup addr with
    | none => exact ⟨st, [], rfl, hsf⟩
    | some fm =>
      simp only
      cases hf : fm.lookup m.sid with
      | none => exact ⟨st, [], rfl, hsf⟩
      | some f =>
        simp only [hsf]
        by_cases hn : m.numFields = 0
        · simp only [hn, if_true]
          obtain ⟨u, evs, hr⟩ := runUser_zero cfg addr m.sid f.no (pol.onClose f.user) (hb.onClose _) [.closed f.no]
          rw [hr]
          exact ⟨_, _, rfl, rfl⟩
        · simp only [hn, if_false]
          obtain ⟨u, evs, hr⟩ := runUser_zero cfg addr m.sid f.no (pol.onReport f.user m.sid m.uid m.fields)
            (hb.onReport _ _ _ _) [.report f.no m.sid m.uid m.fields]
          rw [hr]
          exact ⟨_, _, rfl, rfl⟩
  | cr c =>
    show ∃ st' evs, stepCr cfg pol st addr c = .ok (.cont st' evs) ∧ _
    unfold stepCr
    simp only [hsf]
    obtain ⟨ievs, hi⟩ := sendInstalls_zero addr cfg.progs []
    have hr : ∃ ev0, (if (st.flows.lookup addr).isSome = true then ((true, 0, []) : Bool × Nat × List Ev)
        else sendInstalls addr cfg.progs 0 []) = (true, 0, ev0) := by
      split
      · exact ⟨_, rfl⟩
      · exact ⟨_, hi⟩
    obtain ⟨ev0, hr⟩ := hr
    rw [hr]
    simp only [Bool.not_true, Bool.false_eq_true, if_false]
    obtain ⟨u, evs, hu⟩ := runUser_zero cfg addr c.sid st.nextFlow
      (pol.newFlow (cfg.pick (c.alg.getD [])) st.nextFlow ⟨c.sid, c.cwnd, c.mss, c.srcIp, c.srcPort, c.dstIp, c.dstPort⟩)
      (hb.newFlow _ _ _)
      (ev0 ++ dropAll (((st.flows.lookup addr).getD []).filter fun p => p.1 = c.sid) ++
        [.newFlow st.nextFlow (cfg.pick (c.alg.getD [])) ⟨c.sid, c.cwnd, c.mss, c.srcIp, c.srcPort, c.dstIp, c.dstPort⟩ c.sid])
    rw [hu]
    exact ⟨_, _, rfl, rfl⟩


/-! ## The receive path over a well-formed script never meets an undecodable message -/

/-- the cursor invariant, the unread part of the current datagram is a concatenation of well-formed messages, and the rest
of the script is a well-formed script -/
structure WInv (b : Backend) (rx : List Rx) : Prop where
  inv : Inv b
  win : ∃ ms : List Msg, ms.all C07.wfMsg = true ∧ window b = ms.flatMap C07.libccpBytes
  rx_eq : ∃ s', C08.wfScript s' = true ∧ rx = C08.scriptRx s'

theorem parseAt_wf (b : Backend) (rx : List Rx) (hinv : Inv b) (ms : List Msg) (hms : ms.all C07.wfMsg = true)
    (hwin : window b = ms.flatMap C07.libccpBytes) (hlt : b.readUntil < b.totRead) :
    ∃ m n, parseAt b rx = .ok (some (m, b.lastAddr), { b with readUntil := b.readUntil + n }, rx) ∧
      Inv { b with readUntil := b.readUntil + n } ∧
      ∃ ms' : List Msg, ms'.all C07.wfMsg = true ∧
        window { b with readUntil := b.readUntil + n } = ms'.flatMap C07.libccpBytes := by
  have hl := hinv.len; have htr := hinv.tr
  have hwl := window_length b hinv
  cases ms with
  | nil =>
    rw [hwin] at hwl
    simp at hwl
    omega
  | cons m ms' =>
    simp only [List.all_cons, Bool.and_eq_true] at hms
    obtain ⟨bb, _, hbb, hpos, hfb⟩ := C07.decode_encode m hms.1 (ms'.flatMap C07.libccpBytes)
    subst hbb
    have hsl : sliceP b.buf b.readUntil b.totRead = .ok (window b) := sliceP_ok _ _ _ ⟨by omega, by omega⟩
    have hwin' : window b = C07.libccpBytes m ++ ms'.flatMap C07.libccpBytes := by
      rw [hwin]; rfl
    have hn : (C07.libccpBytes m).length ≤ b.totRead - b.readUntil := by
      rw [← hwl, hwin', List.length_append]; omega
    refine ⟨m, (C07.libccpBytes m).length, ?_, ⟨hl, by show b.readUntil + _ ≤ b.totRead; omega, htr⟩, ms', hms.2, ?_⟩
    · unfold parseAt
      rw [hsl, hwin']
      simp only [Out.bind_ok, hfb]
    · have hw' : window { b with readUntil := b.readUntil + (C07.libccpBytes m).length }
          = (window b).drop (C07.libccpBytes m).length := by
        show (b.buf.drop (b.readUntil + _)).take (b.totRead - (b.readUntil + _)) = _
        unfold window
        rw [List.drop_take, List.drop_drop]
        congr 1; omega
      rw [hw', hwin', List.drop_left']
      rfl

theorem next_wf (b : Backend) (rx : List Rx) (hW : WInv b rx) :
    (∃ b' rx', next b rx = .ok (none, b', rx') ∧ endedByStop b rx = true) ∨
    (∃ p b' rx', next b rx = .ok (some p, b', rx') ∧ WInv b' rx' ∧
      lastSf (rx.take (rx.length - rx'.length)) = none) := by
  obtain ⟨hinv, ⟨ms, hms, hwin⟩, ⟨s', hs', hrx⟩⟩ := hW
  by_cases hlt : b.readUntil < b.totRead
  · right
    obtain ⟨m, n, hp, hinv', hwin'⟩ := parseAt_wf b rx hinv ms hms hwin hlt
    refine ⟨(m, b.lastAddr), { b with readUntil := b.readUntil + n }, rx, ?_, ⟨hinv', hwin', s', hs', hrx⟩, ?_⟩
    · unfold next
      rw [if_pos hlt]
      exact hp
    · simp [lastSf]
  · subst hrx
    cases s' with
    | nil =>
      left
      refine ⟨b, [], ?_, ?_⟩
      · simp [next, hlt, C08.scriptRx, getNextRead]
      · simp [endedByStop, hlt, C08.scriptRx, getNextRead]
    | cons q r =>
      right
      obtain ⟨a, ms2⟩ := q
      simp only [C08.wfScript, Bool.and_eq_true, Bool.not_eq_true', decide_eq_true_eq] at hs'
      obtain ⟨⟨⟨h1, h2⟩, h3⟩, h4⟩ := hs'
      have hpos : 0 < (ms2.flatMap C07.libccpBytes).length := by
        cases ms2 with
        | nil => simp at h2
        | cons m t =>
          simp only [List.all_cons, Bool.and_eq_true] at h1
          obtain ⟨bb, _, hb2, hb3, _⟩ := C07.decode_encode m h1.1 []
          subst hb2
          simp only [List.flatMap_cons, List.length_append]; omega
      have hl := hinv.len
      generalize hd : ms2.flatMap C07.libccpBytes = d at hpos h3
      have htake : d.take 1024 = d := List.take_of_length_le h3
      let b2 : Backend := { buf := d ++ b.buf.drop d.length, totRead := d.length, readUntil := 0, lastAddr := a }
      have hnext : next b (C08.scriptRx ((a, ms2) :: r)) = parseAt b2 (C08.scriptRx r) := by
        unfold next
        rw [if_neg hlt]
        simp only [C08.scriptRx, List.map_cons, hd, getNextRead, recvInto, hl, htake]
        rw [if_neg (by omega)]
      have hinv2 : Inv b2 := ⟨by show (d ++ b.buf.drop d.length).length = 1024; simp [hl]; omega,
        Nat.zero_le _, h3⟩
      have hwin2 : window b2 = ms2.flatMap C07.libccpBytes := by
        show ((d ++ b.buf.drop d.length).drop 0).take (d.length - 0) = _
        simp [hd]
      obtain ⟨m, n, hp, hinv', hwin'⟩ := parseAt_wf b2 (C08.scriptRx r) hinv2 ms2 h1 hwin2 hpos
      refine ⟨(m, b2.lastAddr), { b2 with readUntil := b2.readUntil + n }, C08.scriptRx r, hnext.trans hp,
        ⟨hinv', hwin', r, h4, rfl⟩, ?_⟩
      exact lastSf_take_scriptRx _ _


/-- **over a well-formed script with no send failures the loop handles everything pending and returns `Ok`** -/
theorem loop_calls_exact {σ : Type} (cfg : Cfg) (pol : Policy σ) (hb : pol.Bounded) (fuel : Nat)
    (b : Backend) (rx : List Rx) (hW : WInv b rx) (hm : Ipc.measure b rx < fuel) (st : St σ) (hsf : st.sendFail = 0)
    (hw : WfSt st) (sp : Spec) (habs : Abs st sp) (acc : List Ev) :
    ∃ tr, runLoop cfg pol fuel b rx st acc = .ok (tr, .ok) ∧
      userCalls tr = userCalls acc ++
        userCalls ((specRun cfg.pick sp (swapAll (pendingSpec b rx))).flatMap id) := by
  induction fuel generalizing b rx st sp acc with
  | zero => omega
  | succ fuel ih =>
    have hinv := hW.inv
    rcases next_wf b rx hW with ⟨b', rx', hn, hstop⟩ | ⟨⟨msg, addr⟩, b', rx', hn, hW', hlast⟩
    · have hp := next_none_pending b b' hinv rx rx' hn
      refine ⟨acc ++ rxEvents (rx.take (rx.length - rx'.length)) ++ shutdown st, ?_, ?_⟩
      · unfold runLoop loopStep
        rw [hn]
        simp only [hstop, if_true]
      · rw [hp]
        simp [swapAll, specRun, userCalls_append, userCalls_shutdown, userCalls_rxEvents]
    · obtain ⟨_, hp⟩ := next_some_pending b b' hinv rx rx' (msg, addr) hn
      have hap : applySf st (rx.take (rx.length - rx'.length)) = st := by
        unfold applySf
        rw [hlast]
      obtain ⟨st', evs, hs, hsf'⟩ := step_nofail cfg pol hb st hsf addr msg
      have href : evs.filter isCallback = (specStep cfg.pick sp addr msg).2 ∧
          Abs st' (specStep cfg.pick sp addr msg).1 ∧ WfSt st' := by
        rcases step_refines cfg pol hb st hw sp habs addr msg with
          ⟨st2, evs2, hs2, hcb, habs', hw'⟩ | ⟨st2, evs2, hs2, _⟩
        · rw [hs] at hs2
          injection hs2 with hs2
          injection hs2 with e1 e2
          subst e1; subst e2
          exact ⟨hcb, habs', hw'⟩
        · rw [hs] at hs2
          injection hs2 with hs2
          cases hs2
      obtain ⟨hcb, habs', hw'⟩ := href
      have hls : loopStep cfg pol b rx st =
          .ok (.more b' rx' st' (rxEvents (rx.take (rx.length - rx'.length)) ++ evs)) := by
        unfold loopStep
        rw [hn]
        simp only [hap, hs]
      obtain ⟨r, hr, hmore⟩ := C16.loopStep_ok cfg pol hb b hinv rx st
      rw [hls] at hr
      injection hr with hr
      obtain ⟨_, hdec⟩ := hmore b' rx' st' _ hr.symm
      obtain ⟨tr, htr, hcalls⟩ := ih b' rx' hW' (by omega) st' hsf' hw' _ habs'
        (acc ++ (rxEvents (rx.take (rx.length - rx'.length)) ++ evs))
      refine ⟨tr, ?_, ?_⟩
      · rw [runLoop, hls]
        exact htr
      · rw [hcalls, hp]
        simp only [swapAll, List.map_cons, specRun, List.flatMap_cons, id, userCalls_append, userCalls_rxEvents,
          List.nil_append, List.append_assoc, userCalls_of_callbacks hcb]

/-- **bytes in, calls out (prefix form).** Whatever the policy sends and whether or not sends fail, the user-code calls of the
run over a well-formed script are a prefix of the specification's (a failed install send may end the run early). -/
theorem wellformed_script_calls_prefix {σ : Type} (cfg : Cfg) (pol : Policy σ) (hb : pol.Bounded)
    (buf0 : Bytes) (hlen : buf0.length = 1024) (s : List (Addr × List Msg)) (h : C08.wfScript s = true) :
    ∃ tr r, Rt.run cfg pol buf0 (C08.scriptRx s) = .ok (tr, r) ∧
      userCalls tr <+: specCalls cfg.pick (scriptHist s) := by
  obtain ⟨tr, r, hrun⟩ := C16.run_bytes_no_panic cfg pol hb buf0 hlen (C08.scriptRx s)
  refine ⟨tr, r, hrun, ?_⟩
  have hinv : Inv (Backend.new buf0) := ⟨hlen, by simp [Backend.new], by simp [Backend.new]⟩
  obtain ⟨t, ht1, ht2⟩ := loop_calls_prefix cfg pol hb _ (Backend.new buf0) hinv (C08.scriptRx s) St.init WfSt_init
    Spec.init abs_init0 [] tr r hrun
  rw [scriptHist_eq buf0 s h] at ht2
  rw [ht1]
  simpa [specCalls] using ht2

/-- **bytes in, calls out (exact form).** With no scripted send failures (`scriptRx` contains none and the budget starts at 0)
no send ever fails, the run handles every message, returns `Ok` when the script ends, and its user-code calls are EXACTLY the
specification's. -/
theorem wellformed_script_calls_eq_spec {σ : Type} (cfg : Cfg) (pol : Policy σ) (hb : pol.Bounded)
    (buf0 : Bytes) (hlen : buf0.length = 1024) (s : List (Addr × List Msg)) (h : C08.wfScript s = true) :
    ∃ tr, Rt.run cfg pol buf0 (C08.scriptRx s) = .ok (tr, .ok) ∧
      userCalls tr = specCalls cfg.pick (scriptHist s) := by
  have hinv : Inv (Backend.new buf0) := ⟨hlen, by simp [Backend.new], by simp [Backend.new]⟩
  have hW : WInv (Backend.new buf0) (C08.scriptRx s) :=
    ⟨hinv, ⟨[], rfl, by simp [window, Backend.new]⟩, ⟨s, h, rfl⟩⟩
  obtain ⟨tr, hrun, hcalls⟩ := loop_calls_exact cfg pol hb (rxFuel (C08.scriptRx s) + 1) (Backend.new buf0)
    (C08.scriptRx s) hW (by simp [Ipc.measure, Backend.new]) St.init rfl WfSt_init Spec.init abs_init0 []
  refine ⟨tr, hrun, ?_⟩
  rw [hcalls, scriptHist_eq buf0 s h]
  simp [specCalls]

end Portus.C02
