import PortusModel.Props.C01Sim
import PortusModel.Props.C03
import PortusModel.Vm.Datapath
/-!
# C01 — from bytes: libccp decodes the install message of a compiled binary to `progOf`

`C01Sim.compiled_run_correct` is about the *decoded* program `progOf u bin`. libccp does not get `progOf`: it gets
the install message portus builds from `bin.serialize` (`serializeInstall`, sid 0, counts taken from the record
lists — `Driver/Rt.lean` `buildProgs`) and takes it apart in `ccp_read_msg` / `datapath_program_install` /
`read_instruction` (`Vm/Datapath.lean`). This file closes that gap:

* `install_decodes` (+ `_at`, `_msg`, `compiled_install_decodes`): `readMsg` on the install message returns 0 and
  afterwards `lookupUid uid = some idx`, `lookupIndex idx = some (progOf uid bin)`;
* `invoke_first`, `invoke_steady`, `run_decoded`: `ccp_invoke` after the change-program message is `vmInvoke` from
  `afterSwitch`, and a loop of `ccp_invoke` is `vmRun`;
* `run_correct_from_bytes`: `compiled_run_correct` restated on the datapath object fed with the real messages.

Hypotheses that are new w.r.t. `C01Sim`, and why each is needed:
* `uid < 2^32` — the uid travels as a `u32`;
* at most 256 events and at most 256 instructions (`MAX_EXPRESSIONS`, `MAX_INSTRUCTIONS`): the sizes of the arrays
  of `struct DatapathProgram`. The *model* (`installProgram`) stores lists of any length and the proofs use the two
  bounds only to derive libccp's message-size limit (`20 + 16·512 ≤ 32678 = BIGGEST_MSG_SIZE`; `readMsg` refuses
  larger messages with -23, and `readMsg_installBytes` is stated with that weaker, model-level bound). They are
  hypotheses of every headline theorem because the model is faithful to the C code only below them: in libccp
  1.2.0 `read_install_expr_msg_hdr` compares the two counts with the limits *before* the `memcpy` that fills them
  in (they are still the zeros of the preceding `memset`), so the test never fires and
  `datapath_program_install` writes `num_expressions`/`num_instructions` records into the 256-entry arrays
  unchecked — an install message of 257..2041 records, which passes every check of `ccp_read_msg`, overruns them
  (undefined behaviour; not modelled);
* for a hand-built `Bin` only: `evInRange` (event-table fields are written as `u32`; `wrapBin` below shows a
  binary whose fields wrap, which libccp then holds differently from `progOf`) and a *writable result class* for
  every instruction — `read_instruction` refuses result classes 1 (immediate) and 4 (primitive) with -34 although
  portus' encoder serializes them (`badBin` below). For *compiled* binaries both follow from C03 (`compile_wf`),
  so `compiled_install_decodes` / `run_correct_from_bytes` do not carry them;
* at an arbitrary datapath state (`install_decodes_at`): a free slot `k < 9` (libccp does not use the last of its
  `max_programs = 10` slots: `pid ≥ max_programs → LIBCCP_PROG_TABLE_FULL`, with `pid` already incremented), the
  uid not installed yet and no slot carrying index `k + 1`.
-/
namespace Portus.C01
open Portus Portus.Lang Portus.Vm Portus.Wire Portus.Lang.Frag

/-- the install message `run_inner` builds for a compiled program (`Driver/Rt.lean` `buildProgs`): flow id 0,
the program's uid, the two counts taken from the record lists -/
def installOf (uid : Nat) (bin : Bin) : Install :=
  { sid := 0, uid := uid, numEvents := bin.events.length, numInstrs := bin.instrs.length, bin := bin }

/-- the bytes of that message, given the serialized image -/
def installBytes (uid : Nat) (bin : Bin) (img : Bytes) : Bytes :=
  serializeHeader INSTALL (8 + 12 + (bin.events.length * 16 + bin.instrs.length * 16)) 0 ++
    (le32 uid ++ le32 bin.events.length ++ le32 bin.instrs.length ++ img)

theorem serializeInstall_installOf {uid : Nat} {bin : Bin} {img : Bytes} (hser : bin.serialize = .ok img)
    (hfit : 20 + 16 * (bin.events.length + bin.instrs.length) ≤ 65535) :
    serializeInstall (installOf uid bin) = .ok (installBytes uid bin img) := by
  unfold serializeInstall u32LenP serializeWith installOf
  simp only
  rw [if_neg (by omega), if_neg (by omega), hser]
  rfl

theorem serializeInstall_installOf_inv {uid : Nat} {bin : Bin} {msg : Bytes}
    (h : serializeInstall (installOf uid bin) = .ok msg) :
    ∃ img, bin.serialize = .ok img ∧ 20 + 16 * (bin.events.length + bin.instrs.length) ≤ 65535 ∧
      msg = installBytes uid bin img := by
  unfold serializeInstall u32LenP serializeWith installOf at h
  simp only at h
  split at h
  · cases h
  split at h
  · cases h
  · rename_i h1 h2
    cases hser : bin.serialize with
    | err => rw [hser] at h; cases h
    | panic => rw [hser] at h; cases h
    | ok img =>
      rw [hser] at h
      simp only [Out.bind_ok, Out.pure_eq, Out.ok.injEq] at h
      exact ⟨img, rfl, by omega, h.symm⟩

/-! ## instruction records → libccp instructions -/

theorem readInstruction_match {i : Instr} {m : Libccp.InstrMsg} (h : instrMatch i m)
    (hw : C03.writable i.res = true) : readInstruction m = .ok (toVInstr i) := by
  obtain ⟨h0, h1, h2, h3⟩ := h
  have ho := serializeOp_bound h0
  have hc := C03.classIdx_writable h1 hw
  obtain ⟨b1, _⟩ := classIdx_bounds h1
  obtain ⟨b2, _⟩ := classIdx_bounds h2
  obtain ⟨b3, _⟩ := classIdx_bounds h3
  have hne : ¬ (m.resT = 1 ∨ m.resT = 4) := by
    intro h
    rcases h with h | h <;> rw [h] at hc <;> cases hc
  unfold readInstruction
  rw [if_neg (by omega), if_neg hne, if_neg (by omega), if_neg (by omega), if_neg (by omega)]
  simp only [toVInstr, opNat, toVReg, h0, h1, h2, h3]

theorem readInstructions_match : ∀ (is : List Instr) (ms : List Libccp.InstrMsg) (acc : List VInstr),
    instrsMatch is ms → (∀ i ∈ is, C03.writable i.res = true) →
    readInstructions ms acc = (acc.reverse ++ is.map toVInstr, 0)
  | [], [], acc, _, _ => by simp only [readInstructions, List.map_nil, List.append_nil]
  | [], _ :: _, _, h, _ => by simp only [instrsMatch] at h
  | _ :: _, [], _, h, _ => by simp only [instrsMatch] at h
  | i :: is, m :: ms, acc, h, hw => by
    simp only [instrsMatch] at h
    have h1 := readInstruction_match h.1 (hw i (List.mem_cons_self ..))
    have ih := readInstructions_match is ms (toVInstr i :: acc) h.2 (fun j hj => hw j (List.mem_cons_of_mem _ hj))
    simp only [readInstructions, h1, ih, List.reverse_cons, List.map_cons, List.append_assoc, List.singleton_append]

/-! ## the program table -/

theorem findFree_ge : ∀ (l : List (Nat × Program)) (s k : Nat), findFree l s = some k → s ≤ k
  | [], _, _, h => by simp only [findFree] at h; cases h
  | (idx, _) :: rest, s, k, h => by
    simp only [findFree] at h
    split at h
    · cases h; exact Nat.le_refl _
    · have := findFree_ge rest (s + 1) k h; omega

/-- writing `new` into the free slot makes it the first hit of any search that found nothing before and
accepts `new` -/
theorem find_set_free (P : Nat × Program → Bool) (new : Nat × Program) (hn : P new = true) :
    ∀ (l : List (Nat × Program)) (s k : Nat), findFree l s = some k → l.find? P = none →
      (l.set (k - s) new).find? P = some new
  | [], _, _, h, _ => by simp only [findFree] at h; cases h
  | (idx, p) :: rest, s, k, h, hf => by
    simp only [findFree] at h
    rw [List.find?_cons] at hf
    split at hf
    · cases hf
    · rename_i hhead
      split at h
      · cases h
        rw [Nat.sub_self, List.set_cons_zero, List.find?_cons, hn]
      · have hge := findFree_ge rest (s + 1) k h
        have ih := find_set_free P new hn rest (s + 1) k h hf
        rw [show k - s = (k - (s + 1)) + 1 by omega, List.set_cons_succ, List.find?_cons, hhead]
        exact ih

/-- `datapath_program_install` of records that match a serializable instruction list with writable results -/
theorem installProgram_match (dp : Dp) (uid k : Nat) (exprs : List Libccp.Expr) (is : List Instr)
    (ms : List Libccp.InstrMsg) (hfree : findFree dp.programs 0 = some k) (hk : k < 9)
    (hm : instrsMatch is ms) (hw : ∀ i ∈ is, C03.writable i.res = true) :
    installProgram dp uid exprs ms =
      ({ dp with programs := dp.programs.set k (k + 1, mkProg uid ⟨exprs, is.map toVInstr⟩) }, 0) := by
  unfold installProgram
  rw [hfree]
  simp only
  rw [if_neg (by omega), readInstructions_match is ms [] hm hw]
  rfl

theorem lookup_after_install (dp : Dp) (uid k : Nat) (prog : Program) (hu : prog.uid = uid)
    (hfree : findFree dp.programs 0 = some k)
    (hnu : lookupUid dp uid = none) (hni : lookupIndex dp (k + 1) = none) :
    lookupUid { dp with programs := dp.programs.set k (k + 1, prog) } uid = some (k + 1) ∧
    lookupIndex { dp with programs := dp.programs.set k (k + 1, prog) } (k + 1) = some prog := by
  unfold lookupUid lookupIndex at *
  simp only [Option.map_eq_none_iff] at hnu hni
  have h1 := find_set_free _ (k + 1, prog) (by simp [hu]) dp.programs 0 k hfree hnu
  have h2 := find_set_free _ (k + 1, prog) (by simp) dp.programs 0 k hfree hni
  rw [Nat.sub_zero] at h1 h2
  simp only [h1, h2, Option.map_some, and_self]

/-! ## `ccp_read_msg` on the install message -/

/-- the table `ccp_read_msg` installs into: an install with uid 1 clears all slots first -/
def preInstall (dp : Dp) (uid : Nat) : Dp :=
  if uid = 1 then { dp with programs := List.replicate 10 (0, emptyProgram) } else dp

theorem evToLibccp_eq : evToLibccp = evToExpr := rfl

theorem installBytes_append (uid : Nat) (bin : Bin) (eb ib z : Bytes) :
    installBytes uid bin (eb ++ ib) ++ z =
      le16 2 ++ (le16 (8 + 12 + (bin.events.length * 16 + bin.instrs.length * 16)) ++ (le32 0 ++ (le32 uid ++
        (le32 bin.events.length ++ (le32 bin.instrs.length ++ (eb ++ (ib ++ z))))))) := by
  simp only [installBytes, serializeHeader, INSTALL, List.append_assoc]

/-- **the byte-level step**: `ccp_read_msg` takes the install message of a serializable binary apart into the
program uid, the event records and instruction records matching the IR, and calls `datapath_program_install` -/
theorem readMsg_installBytes (dp : Dp) (uid : Nat) (bin : Bin) (img : Bytes) (hser : bin.serialize = .ok img)
    (huid : uid < 2^32) (hlen : 20 + 16 * (bin.events.length + bin.instrs.length) ≤ 32678)
    (hev : ∀ e ∈ bin.events, evInRange e) :
    ∃ ms, instrsMatch bin.instrs ms ∧
      readMsg dp (installBytes uid bin img) =
        installProgram (preInstall dp uid) uid (bin.events.map evToExpr) ms := by
  obtain ⟨ib, hib, rfl⟩ := C03.serialize_split hser
  obtain ⟨il, im⟩ := readInstrs_serialize bin.instrs ib (zeros 16384) hib
  have el := events_bytes_length bin.events
  refine ⟨_, im, ?_⟩
  generalize heb : bin.events.flatMap EvRec.serialize = eb at el ⊢
  have hmlen : (installBytes uid bin (eb ++ ib)).length = 20 + 16 * (bin.events.length + bin.instrs.length) := by
    have := congrArg List.length (installBytes_append uid bin eb ib [])
    simp only [List.length_append, le16_length, le32_length, List.length_nil, el, il] at this
    omega
  have t0 : rd16 (installBytes uid bin (eb ++ ib) ++ zeros 64) = 2 := by
    rw [installBytes_append, rd16_le16_append]
  have t2 : rd16 ((installBytes uid bin (eb ++ ib) ++ zeros 64).drop 2) =
      20 + 16 * (bin.events.length + bin.instrs.length) := by
    rw [installBytes_append, List.drop_left' (le16_length 2), rd16_le16_append]
    omega
  have p8 : (installBytes uid bin (eb ++ ib) ++ zeros 16384).drop 8 =
      le32 uid ++ (le32 bin.events.length ++ (le32 bin.instrs.length ++ (eb ++ (ib ++ zeros 16384)))) := by
    rw [installBytes_append, ← List.append_assoc (le16 2), ← List.append_assoc (le16 2 ++ _)]
    exact List.drop_left' rfl
  unfold readMsg
  simp only [t0, t2, p8, hmlen]
  rw [if_neg (by omega), if_neg (by omega), if_neg (by omega), if_pos True.intro]
  have q4 : (le32 uid ++ (le32 bin.events.length ++ (le32 bin.instrs.length ++ (eb ++ (ib ++ zeros 16384))))).drop 4
      = le32 bin.events.length ++ (le32 bin.instrs.length ++ (eb ++ (ib ++ zeros 16384))) :=
    List.drop_left' rfl
  have q8 : (le32 uid ++ (le32 bin.events.length ++ (le32 bin.instrs.length ++ (eb ++ (ib ++ zeros 16384))))).drop 8
      = le32 bin.instrs.length ++ (eb ++ (ib ++ zeros 16384)) := by
    rw [← List.append_assoc]; exact List.drop_left' rfl
  have q12 : (le32 uid ++ (le32 bin.events.length ++ (le32 bin.instrs.length ++ (eb ++ (ib ++ zeros 16384))))).drop 12
      = eb ++ (ib ++ zeros 16384) := by
    rw [← List.append_assoc, ← List.append_assoc]; exact List.drop_left' rfl
  have qi : (le32 uid ++ (le32 bin.events.length ++ (le32 bin.instrs.length ++ (eb ++ (ib ++ zeros 16384))))).drop
      (12 + 16 * bin.events.length) = ib ++ zeros 16384 := by
    rw [← List.drop_drop, q12, List.drop_left' el]
  have u1 : uid % 4294967296 = uid := by omega
  have u2 : bin.events.length % 4294967296 = bin.events.length := by omega
  have u3 : bin.instrs.length % 4294967296 = bin.instrs.length := by omega
  simp only [q4, q8, rd32_le32_append, u1, u2, u3, q12, qi]
  rw [← heb, readExprs_serialize bin.events _ hev, evToLibccp_eq]
  rfl

/-! ## the decode theorem -/

/-- **decoding at an arbitrary datapath state.** If the (cleared, for uid 1) table has its first free slot at
`k < 9` (libccp never uses the tenth slot), `uid` is not installed yet and no slot carries index `k + 1`, then
reading the install message returns 0, leaves the connections alone, and afterwards `uid` resolves to index
`k + 1` and that index to `progOf uid bin`. -/
theorem install_decodes_at (dp : Dp) (k uid : Nat) (bin : Bin) (img : Bytes) (hser : bin.serialize = .ok img)
    (huid : uid < 2^32) (hne256 : bin.events.length ≤ 256) (hni256 : bin.instrs.length ≤ 256)
    (hev : ∀ e ∈ bin.events, evInRange e)
    (hres : ∀ i ∈ bin.instrs, C03.writable i.res = true)
    (hfree : findFree (preInstall dp uid).programs 0 = some k) (hk : k < 9)
    (hnu : lookupUid (preInstall dp uid) uid = none) (hni : lookupIndex (preInstall dp uid) (k + 1) = none) :
    ∃ dp', readMsg dp (installBytes uid bin img) = (dp', 0) ∧ dp'.conns = dp.conns ∧
      lookupUid dp' uid = some (k + 1) ∧ lookupIndex dp' (k + 1) = some (progOf uid bin) := by
  obtain ⟨ms, hm, hr⟩ := readMsg_installBytes dp uid bin img hser huid (by omega) hev
  rw [hr, installProgram_match (preInstall dp uid) uid k _ bin.instrs ms hfree hk hm hres]
  obtain ⟨l1, l2⟩ := lookup_after_install (preInstall dp uid) uid k (progOf uid bin) rfl hfree hnu hni
  refine ⟨_, rfl, ?_, l1, l2⟩
  unfold preInstall
  split <;> rfl

/-- **C01, decoding (the suggested statement).** On a freshly initialised datapath, libccp's `ccp_read_msg`
applied to the install message of a serializable binary returns 0 and installs exactly `progOf uid bin`
(in slot 1). -/
theorem install_decodes (uid : Nat) (bin : Bin) (img : Bytes) (hser : bin.serialize = .ok img)
    (huid : uid < 2^32) (hne256 : bin.events.length ≤ 256) (hni256 : bin.instrs.length ≤ 256)
    (hev : ∀ e ∈ bin.events, evInRange e)
    (hres : ∀ i ∈ bin.instrs, C03.writable i.res = true) :
    ∃ dp', readMsg Dp.init (installBytes uid bin img) = (dp', 0) ∧ dp'.conns = Dp.init.conns ∧
      lookupUid dp' uid = some 1 ∧ lookupIndex dp' 1 = some (progOf uid bin) := by
  have hpre : preInstall Dp.init uid = Dp.init := by unfold preInstall; split <;> rfl
  exact install_decodes_at Dp.init 0 uid bin img hser huid hne256 hni256 hev hres (by rw [hpre]; rfl) (by omega)
    (by rw [hpre]; rfl) (by rw [hpre]; rfl)

/-- the same for the message as the library builds it (`serializeInstall` of `installOf`) -/
theorem install_decodes_msg (uid : Nat) (bin : Bin) (msg : Bytes)
    (hmsg : serializeInstall (installOf uid bin) = .ok msg)
    (huid : uid < 2^32) (hne256 : bin.events.length ≤ 256) (hni256 : bin.instrs.length ≤ 256)
    (hev : ∀ e ∈ bin.events, evInRange e)
    (hres : ∀ i ∈ bin.instrs, C03.writable i.res = true) :
    ∃ dp', readMsg Dp.init msg = (dp', 0) ∧ dp'.conns = Dp.init.conns ∧
      lookupUid dp' uid = some 1 ∧ lookupIndex dp' 1 = some (progOf uid bin) := by
  obtain ⟨img, hser, _, rfl⟩ := serializeInstall_installOf_inv hmsg
  exact install_decodes uid bin img hser huid hne256 hni256 hev hres

/-- **for compiled programs** the two side conditions on the binary (`evInRange`, writable results) are
consequences of C03 (`compile_wf`): only the uid range and libccp's two array sizes remain. -/
theorem compiled_install_decodes (cuid uid : Nat) (src : List Char) (upd : List (Name × Nat)) (bin : Bin)
    (scF : Scope) (msg : Bytes)
    (hc : compile cuid src upd = .ok (bin, scF))
    (hmsg : serializeInstall (installOf uid bin) = .ok msg)
    (huid : uid < 2^32) (hne256 : bin.events.length ≤ 256) (hni256 : bin.instrs.length ≤ 256) :
    ∃ dp', readMsg Dp.init msg = (dp', 0) ∧ dp'.conns = Dp.init.conns ∧
      lookupUid dp' uid = some 1 ∧ lookupIndex dp' 1 = some (progOf uid bin) := by
  obtain ⟨ds, evs, sc0, _, _, hw, _⟩ := C03.compile_wf cuid src upd bin scF hc
  exact install_decodes_msg uid bin msg hmsg huid hne256 hni256 (C03.Tiles_inRange hw.tiles (by omega))
    (fun i hi => (hw.instr i hi).1)

/-! ## the hypotheses are needed; non-vacuity -/

/-- a hand-built binary the encoder accepts but libccp refuses: the result register is an immediate -/
def badBin : Bin := ⟨[], [⟨.immNum 0, .bind, .immNum 0, .immNum 0⟩]⟩

example : badBin.serialize = .ok [1, 1,0,0,0,0, 1,0,0,0,0, 1,0,0,0,0] := by decide
example : (readMsg Dp.init (installBytes 3 badBin [1, 1,0,0,0,0, 1,0,0,0,0, 1,0,0,0,0])).2 = -34 := by decide

/-- event-table fields beyond `u32` wrap on the wire: libccp then holds a different program -/
def wrapBin : Bin := ⟨[⟨2^32, 0, 0, 0⟩], []⟩

example : wrapBin.serialize = .ok (List.replicate 16 0) := by decide
example : (readMsg Dp.init (installBytes 3 wrapBin (List.replicate 16 0))).2 = 0 ∧
    (lookupIndex (readMsg Dp.init (installBytes 3 wrapBin (List.replicate 16 0))).1 1 == some (progOf 3 wrapBin))
      = false := by decide

/-- the whole conclusion of `compiled_install_decodes` as one decidable check -/
def decodeCheck (cuid uid : Nat) (src : List Char) (upd : List (Name × Nat)) : Bool :=
  match compile cuid src upd with
  | .ok (bin, _) =>
    match serializeInstall (installOf uid bin) with
    | .ok msg =>
      decide (uid < 2^32) && decide (bin.events.length ≤ 256) && decide (bin.instrs.length ≤ 256) &&
        (let r := readMsg Dp.init msg
         r.2 == 0 && lookupUid r.1 uid == some 1 && lookupIndex r.1 1 == some (progOf uid bin))
    | _ => false
  | _ => false

theorem exSrc_decodes : decodeCheck 3 3 C13.exSrc [("bar".toList, 9)] = true := by decide +kernel

/-! ## composition with `C01Sim`: the first invocation after install + change-program -/

def withImpl (c : Conn) (X : List Val) : Conn := { c with regs := { c.regs with impl := X } }

/-- the program switch of `ccp_invoke` -/
def switched (dp : Dp) (env : Env) (now : Val) (c : Conn) : Conn :=
  match c.staged with
  | some idx =>
    let c := { c with programIndex := idx, staged := none }
    match lookupIndex dp idx with
    | some p =>
      let c := initRegisterState env p (resetState env p c)
      { c with t0 := now, regs := { c.regs with impl := c.regs.impl.set 3 0 } }
    | none => { c with t0 := now, regs := { c.regs with impl := c.regs.impl.set 3 0 } }
  | none => c

/-- the rest of `ccp_invoke`: pending updates, then the state machine -/
def afterSwitchPart (dp : Dp) (sid : Nat) (env : Env) (c : Conn) : Option (Dp × Vm.Obs) :=
  let ctl := (c.regs.control.zip c.pending.control).map fun p => match p.2 with | some v => v | none => p.1
  let c := { c with regs := { c.regs with control := ctl } }
  let o : Vm.Obs := { rc := 0, setCwnd := none, setRate := none, report := none }
  let (c, o) := match c.pending.cwnd with
    | some v => ({ c with regs := { c.regs with impl := c.regs.impl.set 4 v } },
                 { o with setCwnd := if v != 0 then some v else none })
    | none => (c, o)
  let (c, o) := match c.pending.rate with
    | some v => ({ c with regs := { c.regs with impl := c.regs.impl.set 5 v } },
                 { o with setRate := if v != 0 then some v else o.setRate })
    | none => (c, o)
  let c := { c with pending := Pending.none }
  match lookupIndex dp c.programIndex with
  | none => some (setConn dp sid c, { o with rc := -96 })
  | some p =>
    let r := stateMachine env p c o
    some (setConn dp sid r.1, r.2)

theorem invoke_split (dp : Dp) (sid : Nat) (now : Val) (prims : Prims) (c : Conn)
    (hc : getConn dp sid = some c) :
    invoke dp sid now prims =
      afterSwitchPart dp sid ⟨now, 0, prims⟩ (switched dp ⟨now, 0, prims⟩ now
        (withImpl c ((c.regs.impl.set 4 (prims.sndCwnd.toUInt32.toUInt64)).set 5 prims.sndRate))) := by
  unfold invoke
  rw [hc]
  rfl

/-- what the DEF folds (`reset_state`, `init_register_state`) leave alone -/
structure Frame (c c' : Conn) : Prop where
  pi : c'.programIndex = c.programIndex
  pend : c'.pending = c.pending
  st : c'.staged = c.staged
  t0 : c'.t0 = c.t0
  ctl : c'.regs.control.length = c.regs.control.length
  impl : c'.regs.impl = c.regs.impl

theorem Frame.refl (c : Conn) : Frame c c := ⟨rfl, rfl, rfl, rfl, rfl, rfl⟩

theorem Frame.trans {a b c : Conn} (h1 : Frame a b) (h2 : Frame b c) : Frame a c :=
  ⟨h2.pi.trans h1.pi, h2.pend.trans h1.pend, h2.st.trans h1.st, h2.t0.trans h1.t0, h2.ctl.trans h1.ctl,
    h2.impl.trans h1.impl⟩

theorem writeReg_withImpl (env : Env) (c : Conn) (v : Val) (r : VReg) (X : List Val)
    (h : r.cls = 5 ∨ r.cls = 8 ∨ r.cls = 0 ∨ r.cls = 6) :
    writeReg env (withImpl c X) v r = withImpl (writeReg env c v r) X := by
  obtain ⟨cls, idx⟩ := r
  simp only at h
  rcases h with rfl | rfl | rfl | rfl <;> simp only [writeReg, withImpl] <;> split <;> rfl

theorem writeReg_frame (env : Env) (c : Conn) (v : Val) (r : VReg)
    (h : r.cls = 5 ∨ r.cls = 8 ∨ r.cls = 0 ∨ r.cls = 6) : Frame c (writeReg env c v r) := by
  obtain ⟨cls, idx⟩ := r
  simp only at h
  rcases h with rfl | rfl | rfl | rfl <;> simp only [writeReg] <;> split <;>
    first | exact Frame.refl _ | exact ⟨rfl, rfl, rfl, rfl, rfl, rfl⟩ | exact ⟨rfl, rfl, rfl, rfl, List.length_set, rfl⟩

theorem defFold_withImpl (env : Env) (cond : VInstr → Prop) [DecidablePred cond]
    (hcond : ∀ i, cond i → i.left.cls = 5 ∨ i.left.cls = 8 ∨ i.left.cls = 0 ∨ i.left.cls = 6)
    (X : List Val) : ∀ (l : List VInstr) (c : Conn),
    l.foldl (fun c i => if cond i then writeReg env c (defValue i) i.left else c) (withImpl c X) =
      withImpl (l.foldl (fun c i => if cond i then writeReg env c (defValue i) i.left else c) c) X
  | [], _ => rfl
  | i :: l, c => by
    simp only [List.foldl_cons]
    by_cases hi : cond i
    · rw [if_pos hi, if_pos hi, writeReg_withImpl env c _ _ X (hcond i hi)]
      exact defFold_withImpl env cond hcond X l _
    · rw [if_neg hi, if_neg hi]
      exact defFold_withImpl env cond hcond X l _

theorem defFold_frame (env : Env) (cond : VInstr → Prop) [DecidablePred cond]
    (hcond : ∀ i, cond i → i.left.cls = 5 ∨ i.left.cls = 8 ∨ i.left.cls = 0 ∨ i.left.cls = 6) :
    ∀ (l : List VInstr) (c : Conn),
    Frame c (l.foldl (fun c i => if cond i then writeReg env c (defValue i) i.left else c) c)
  | [], c => Frame.refl c
  | i :: l, c => by
    simp only [List.foldl_cons]
    by_cases hi : cond i
    · rw [if_pos hi]
      exact (writeReg_frame env c _ _ (hcond i hi)).trans (defFold_frame env cond hcond l _)
    · rw [if_neg hi]
      exact defFold_frame env cond hcond l _

theorem resetState_withImpl (env : Env) (p : Program) (c : Conn) (X : List Val) :
    resetState env p (withImpl c X) = withImpl (resetState env p c) X :=
  defFold_withImpl env _ (fun _ h => by omega) X _ c

theorem initRegisterState_withImpl (env : Env) (p : Program) (c : Conn) (X : List Val) :
    initRegisterState env p (withImpl c X) = withImpl (initRegisterState env p c) X :=
  defFold_withImpl env _ (fun _ h => by omega) X _ c

theorem resetState_frame (env : Env) (p : Program) (c : Conn) : Frame c (resetState env p c) :=
  defFold_frame env _ (fun _ h => by omega) _ c

theorem initRegisterState_frame (env : Env) (p : Program) (c : Conn) : Frame c (initRegisterState env p c) :=
  defFold_frame env _ (fun _ h => by omega) _ c

theorem zip_none_map : ∀ (l : List Val) (n : Nat), l.length ≤ n →
    ((l.zip (List.replicate n (Option.none : Option Val))).map
      fun p => match p.2 with | some v => v | none => p.1) = l
  | [], _, _ => rfl
  | _ :: _, 0, h => by simp only [List.length_cons] at h; omega
  | a :: l, n + 1, h => by
    simp only [List.length_cons] at h
    rw [List.replicate_succ, List.zip_cons_cons, List.map_cons, zip_none_map l n (by omega)]

theorem afterSwitchPart_clean (dp : Dp) (sid : Nat) (env : Env) (c : Conn) (p : Program)
    (hpend : c.pending = Pending.none) (hctl : c.regs.control.length ≤ 110)
    (hp : lookupIndex dp c.programIndex = some p) :
    afterSwitchPart dp sid env c =
      some (setConn dp sid (stateMachine env p c { rc := 0, setCwnd := none, setRate := none, report := none }).1,
        (stateMachine env p c { rc := 0, setCwnd := none, setRate := none, report := none }).2) := by
  obtain ⟨regs, t0, pi, st, pend⟩ := c
  simp only at hpend hctl hp
  subst hpend
  unfold afterSwitchPart
  simp only [Pending.none, zip_none_map regs.control 110 hctl, hp]

theorem impl_order (a b : Val) :
    ((Regs.zero.impl.set 4 a).set 5 b).set 3 0 = ((Regs.zero.impl.set 3 0).set 4 a).set 5 b := rfl

/-- **`ccp_invoke` with a staged program on a connection with zeroed registers is `vmInvoke` after the switch** —
the form `compiled_run_correct` speaks about. -/
theorem invoke_first (dp : Dp) (sid idx : Nat) (p : Program) (c0 : Conn) (now : Val) (prims : Prims)
    (hc : getConn dp sid = some c0) (h0 : c0.regs = Regs.zero) (hst : c0.staged = some idx)
    (hpend : c0.pending = Pending.none) (hp : lookupIndex dp idx = some p) :
    invoke dp sid now prims =
      some (setConn dp sid
        (vmInvoke p ⟨now, 0, prims⟩ (afterSwitch ⟨now, 0, prims⟩ p { c0 with programIndex := idx, staged := none } now)).1,
        (vmInvoke p ⟨now, 0, prims⟩ (afterSwitch ⟨now, 0, prims⟩ p { c0 with programIndex := idx, staged := none } now)).2) := by
  rw [invoke_split dp sid now prims c0 hc]
  generalize henv : (⟨now, 0, prims⟩ : Env) = env
  generalize hX : (c0.regs.impl.set 4 (prims.sndCwnd.toUInt32.toUInt64)).set 5 prims.sndRate = X
  generalize hc0' : ({ c0 with programIndex := idx, staged := none } : Conn) = c0'
  generalize hcF : initRegisterState env p (resetState env p c0') = cF
  have hfr : Frame c0' cF := by
    rw [← hcF]; exact (resetState_frame env p c0').trans (initRegisterState_frame env p _)
  have hsw : switched dp env now (withImpl c0 X) =
      { cF with t0 := now, regs := { cF.regs with impl := X.set 3 0 } } := by
    unfold switched
    have e1 : (withImpl c0 X).staged = some idx := hst
    rw [e1]
    simp only [hp]
    have e2 : ({ withImpl c0 X with programIndex := idx, staged := none } : Conn) = withImpl c0' X := by
      rw [← hc0']; rfl
    rw [e2, resetState_withImpl, initRegisterState_withImpl, hcF]
    rfl
  have himpl : cF.regs.impl = Regs.zero.impl := by rw [hfr.impl, ← hc0']; show c0.regs.impl = _; rw [h0]
  have hvm : vmInvoke p env (afterSwitch env p c0' now) =
      stateMachine env p { cF with t0 := now, regs := { cF.regs with impl := X.set 3 0 } }
        { rc := 0, setCwnd := none, setRate := none, report := none } := by
    unfold vmInvoke afterSwitch
    simp only [hcF, himpl]
    rw [← henv, ← hX, h0, impl_order]
  rw [hsw, hvm]
  refine afterSwitchPart_clean dp sid env _ p ?_ ?_ ?_
  · show cF.pending = _
    rw [hfr.pend, ← hc0']; exact hpend
  · show cF.regs.control.length ≤ 110
    rw [hfr.ctl, ← hc0']; show c0.regs.control.length ≤ 110; rw [h0]; exact Nat.le_of_eq (List.length_replicate ..)
  · show lookupIndex dp cF.programIndex = _
    rw [hfr.pi, ← hc0']; exact hp

/-- the change-program message `set_program` sends without field overrides -/
def cpBytes (sid uid : Nat) : Bytes := le16 4 ++ (le16 16 ++ (le32 sid ++ (le32 uid ++ le32 0)))

theorem serializeChangeProg_nofields (sid uid : Nat) :
    serializeChangeProg ⟨sid, uid, 0, []⟩ = .ok (cpBytes sid uid) := by
  unfold serializeChangeProg u32LenP serializeWith
  simp only
  rw [if_neg (by omega), if_neg (by omega)]
  simp only [serializeUpdates, Out.bind_ok, Out.pure_eq, serializeHeader, CHANGEPROG, cpBytes, List.append_assoc,
    List.append_nil]

/-- `ccp_read_msg` on that message stages the program index `uid` resolves to -/
theorem readMsg_cpBytes (dp : Dp) (sid uid idx : Nat) (c : Conn) (hsid : sid < 2^32) (huid : uid < 2^32)
    (hc : getConn dp sid = some c) (hl : lookupUid dp uid = some idx) :
    readMsg dp (cpBytes sid uid) = (setConn dp sid { c with staged := some idx, pending := Pending.none }, 0) := by
  have hz : ∀ z : Bytes, cpBytes sid uid ++ z = le16 4 ++ (le16 16 ++ (le32 sid ++ (le32 uid ++ (le32 0 ++ z)))) := by
    intro z; simp only [cpBytes, List.append_assoc]
  have t0 : rd16 (cpBytes sid uid ++ zeros 64) = 4 := by rw [hz, rd16_le16_append]
  have t2 : rd16 ((cpBytes sid uid ++ zeros 64).drop 2) = 16 := by
    rw [hz, List.drop_left' (le16_length 4), rd16_le16_append]
  have t4 : rd32 ((cpBytes sid uid ++ zeros 64).drop 4) = sid := by
    have d : ∀ r : Bytes, List.drop 4 (le16 4 ++ le16 16 ++ r) = r := fun r => List.drop_left' rfl
    rw [hz, ← List.append_assoc (le16 4), d, rd32_le32_append]
    omega
  have p8 : (cpBytes sid uid ++ zeros 16384).drop 8 = le32 uid ++ (le32 0 ++ zeros 16384) := by
    rw [hz, ← List.append_assoc (le16 4), ← List.append_assoc (le16 4 ++ _)]
    exact List.drop_left' rfl
  have hlen : (cpBytes sid uid).length = 16 := rfl
  unfold readMsg
  simp only [t0, t2, t4, p8, hlen, hc]
  rw [if_neg (by omega), if_neg (by omega), if_neg (by omega), if_neg (by omega), if_neg (by omega)]
  have q4 : (le32 uid ++ (le32 0 ++ zeros 16384)).drop 4 = le32 0 ++ zeros 16384 := List.drop_left' rfl
  have u1 : uid % 4294967296 = uid := by omega
  simp only [q4, rd32_le32_append, u1, hl]
  rw [if_neg (by omega)]
  rfl

theorem getConn_setConn (dp : Dp) (sid : Nat) (c c' : Conn) (h : getConn dp sid = some c) :
    getConn (setConn dp sid c') sid = some c' := by
  unfold getConn setConn at *
  simp only at h ⊢
  split at h
  · cases h
  · rename_i hs
    rw [if_neg hs]
    have hlt : sid % 65536 - 1 < dp.conns.length := by
      rcases Nat.lt_or_ge (sid % 65536 - 1) dp.conns.length with h' | h'
      · exact h'
      · rw [List.getD_eq_getElem?_getD, List.getElem?_eq_none h'] at h; cases h
    rw [List.getD_eq_getElem?_getD, List.getElem?_set_self hlt]
    rfl

/-- **install, start a flow, change-program, invoke: the first invocation is `vmInvoke (progOf uid bin)`
after the switch.** -/
theorem first_invocation_decoded (uid : Nat) (bin : Bin) (msg : Bytes)
    (hmsg : serializeInstall (installOf uid bin) = .ok msg)
    (huid : uid < 2^32) (hne256 : bin.events.length ≤ 256) (hni256 : bin.instrs.length ≤ 256)
    (hev : ∀ e ∈ bin.events, evInRange e)
    (hres : ∀ i ∈ bin.instrs, C03.writable i.res = true) :
    ∃ dp1 dp2 dp3, readMsg Dp.init msg = (dp1, 0) ∧ connStart dp1 = some (dp2, 1) ∧
      readMsg dp2 (cpBytes 1 uid) = (dp3, 0) ∧
      ∀ (now : Val) (prims : Prims),
        invoke dp3 1 now prims =
          some (setConn dp3 1
            (vmInvoke (progOf uid bin) ⟨now, 0, prims⟩
              (afterSwitch ⟨now, 0, prims⟩ (progOf uid bin) { newConn with programIndex := 1 } now)).1,
            (vmInvoke (progOf uid bin) ⟨now, 0, prims⟩
              (afterSwitch ⟨now, 0, prims⟩ (progOf uid bin) { newConn with programIndex := 1 } now)).2) := by
  obtain ⟨dp1, h1, hconns, hlu, hli⟩ := install_decodes_msg uid bin msg hmsg huid hne256 hni256 hev hres
  obtain ⟨progs, conns⟩ := dp1
  simp only at hconns
  subst hconns
  have hcs : connStart ⟨progs, Dp.init.conns⟩ = some (⟨progs, Dp.init.conns.set 0 (some newConn)⟩, 1) := rfl
  have hg2 : getConn ⟨progs, Dp.init.conns.set 0 (some newConn)⟩ 1 = some newConn := rfl
  have hcp := readMsg_cpBytes ⟨progs, Dp.init.conns.set 0 (some newConn)⟩ 1 uid 1 newConn (by omega) huid hg2 hlu
  refine ⟨_, _, _, h1, hcs, hcp, ?_⟩
  intro now prims
  exact invoke_first _ 1 1 (progOf uid bin) { newConn with staged := some 1, pending := Pending.none } now prims
    (getConn_setConn _ 1 _ _ hg2) rfl rfl rfl hli

/-- **C01 end to end for the first invocation, from bytes.** Under the hypotheses of `compiled_run_correct`
(with the compile-time uid as the wire uid) plus the uid range and libccp's two array sizes: feed libccp the
install message, start a flow, feed it the change-program message, invoke once — what the datapath shows is what
the source semantics denotes for that input. -/
theorem first_invocation_correct (uid : Nat) (src : List Char) (upd : List (Name × Nat)) (ds : List Decl)
    (evs : List Event) (bin : Bin) (scF : Scope) (img : Bytes) (decls : List Sem.VarDecl) (msg : Bytes)
    (hp : parseSource src = some (ds, evs))
    (hnd : (ds.map (·.var)).Nodup)
    (hfresh : ∀ d ∈ ds, (Scope.new uid).get d.var = none)
    (hc : compile uid src upd = .ok (bin, scF))
    (hser : bin.serialize = .ok img)
    (hv : varDecls ds upd = some decls)
    (hloc : scF.numLocal ≤ 6)
    (hne : evs ≠ [])
    (hst : InOracle evs = true)
    (hlits : LitsOk evs = true) (hwr : WritesOk evs = true)
    (hmsg : serializeInstall (installOf uid bin) = .ok msg)
    (huid : uid < 2^32) (hne256 : bin.events.length ≤ 256) (hni256 : bin.instrs.length ≤ 256)
    (now : Val) (prims : Prims) :
    ∃ dp1 dp2 dp3 dp4 o, readMsg Dp.init msg = (dp1, 0) ∧ connStart dp1 = some (dp2, 1) ∧
      readMsg dp2 (cpBytes 1 uid) = (dp3, 0) ∧ invoke dp3 1 now prims = some (dp4, o) ∧
      match (Sem.run decls evs (Sem.initState decls now) [⟨now, 0, prims⟩]).mapM ofSem with
      | none => True
      | some exp => [ofVm o] = exp := by
  obtain ⟨_, _, _, _, _, hw, _⟩ := C03.compile_wf uid src upd bin scF hc
  have hil : bin.instrs.length < 2^32 := by omega
  obtain ⟨dp1, dp2, dp3, h1, h2, h3, h4⟩ := first_invocation_decoded uid bin msg hmsg huid hne256 hni256
    (C03.Tiles_inRange hw.tiles hil) (fun i hi => (hw.instr i hi).1)
  refine ⟨dp1, dp2, dp3, _, _, h1, h2, h3, h4 now prims, ?_⟩
  have := compiled_run_correct uid uid src upd ds evs bin scF img decls hp hnd hfresh hc hser hv hloc hne hst
    hlits hwr ⟨now, 0, prims⟩ { newConn with programIndex := 1 } rfl now [⟨now, 0, prims⟩]
  exact this

/-! ## every invocation: `ccp_invoke` in a loop is `vmRun` -/

/-- what program execution leaves alone -/
structure Keep (c c' : Conn) : Prop where
  pi : c'.programIndex = c.programIndex
  pend : c'.pending = c.pending
  st : c'.staged = c.staged
  ctl : c'.regs.control.length = c.regs.control.length

theorem Keep.refl (c : Conn) : Keep c c := ⟨rfl, rfl, rfl, rfl⟩

theorem Keep.trans {a b c : Conn} (h1 : Keep a b) (h2 : Keep b c) : Keep a c :=
  ⟨h2.pi.trans h1.pi, h2.pend.trans h1.pend, h2.st.trans h1.st, h2.ctl.trans h1.ctl⟩

theorem Frame.keep {c c' : Conn} (h : Frame c c') : Keep c c' := ⟨h.pi, h.pend, h.st, h.ctl⟩

theorem writeReg_keep (env : Env) (c : Conn) (v : Val) (r : VReg) : Keep c (writeReg env c v r) := by
  unfold writeReg
  split <;> (try split) <;> (try split) <;>
    first | exact ⟨rfl, rfl, rfl, rfl⟩ | exact ⟨rfl, rfl, rfl, List.length_set⟩

theorem execInstr_keep (env : Env) (c : Conn) (i : VInstr) : Keep c (execInstr env c i).1 := by
  unfold execInstr
  simp only
  split <;> (try split) <;> first | exact writeReg_keep .. | exact Keep.refl _

theorem execInstrs_keep (env : Env) : ∀ (l : List VInstr) (c : Conn), Keep c (execInstrs env c l).1
  | [], c => Keep.refl c
  | i :: l, c => by
    unfold execInstrs
    simp only
    split
    · exact execInstr_keep env c i
    · exact (execInstr_keep env c i).trans (execInstrs_keep env l _)

theorem execExpr_keep (env : Env) (p : Program) (c : Conn) (e : Libccp.Expr) : Keep c (execExpr env p c e).1 := by
  unfold execExpr
  simp only
  split
  · exact execInstrs_keep env _ c
  · split
    · exact (execInstrs_keep env _ c).trans (execInstrs_keep env _ _)
    · exact execInstrs_keep env _ c

theorem execExprs_keep (env : Env) (p : Program) : ∀ (l : List Libccp.Expr) (c : Conn), Keep c (execExprs env p c l).1
  | [], c => Keep.refl c
  | e :: l, c => by
    unfold execExprs
    simp only
    split
    · exact execExpr_keep env p c e
    · split
      · exact execExpr_keep env p c e
      · exact (execExpr_keep env p c e).trans (execExprs_keep env p l _)

theorem stateMachine_keep (env : Env) (p : Program) (c : Conn) (o : Vm.Obs) : Keep c (stateMachine env p c o).1 := by
  unfold stateMachine
  simp only
  have k0 : Keep c { c with regs := { c.regs with impl :=
      (((c.regs.impl.set 0 0).set 1 0).set 2 0).set 3 (env.now - c.t0) } } := ⟨rfl, rfl, rfl, rfl⟩
  split
  · exact k0.trans (execExprs_keep env p _ _)
  · split
    · exact (k0.trans (execExprs_keep env p _ _)).trans (resetState_frame env p _).keep
    · exact k0.trans (execExprs_keep env p _ _)

theorem vmInvoke_keep (p : Program) (env : Env) (c : Conn) : Keep c (vmInvoke p env c).1 := by
  unfold vmInvoke
  have k := stateMachine_keep env p
    { c with regs := { c.regs with impl :=
        (c.regs.impl.set 4 (env.prims.sndCwnd.toUInt32.toUInt64)).set 5 env.prims.sndRate } }
    { rc := 0, setCwnd := none, setRate := none, report := none }
  exact ⟨k.pi, k.pend, k.st, k.ctl⟩

theorem afterSwitch_keep (env : Env) (p : Program) (c : Conn) (now : Val) : Keep c (afterSwitch env p c now) := by
  have f := (resetState_frame env p c).trans (initRegisterState_frame env p _)
  exact ⟨f.pi, f.pend, f.st, f.ctl⟩

/-- `ccp_invoke` with nothing staged and nothing pending is `vmInvoke` -/
theorem invoke_steady (dp : Dp) (sid : Nat) (p : Program) (c : Conn) (now : Val) (prims : Prims)
    (hc : getConn dp sid = some c) (hst : c.staged = none) (hpend : c.pending = Pending.none)
    (hctl : c.regs.control.length ≤ 110) (hp : lookupIndex dp c.programIndex = some p) :
    invoke dp sid now prims =
      some (setConn dp sid (vmInvoke p ⟨now, 0, prims⟩ c).1, (vmInvoke p ⟨now, 0, prims⟩ c).2) := by
  rw [invoke_split dp sid now prims c hc]
  have hsw : ∀ (env : Env) (X : List Val), switched dp env now (withImpl c X) = withImpl c X := by
    intro env X
    unfold switched
    have e1 : (withImpl c X).staged = none := hst
    rw [e1]
  rw [hsw]
  exact afterSwitchPart_clean dp sid _ _ p hpend hctl hp

/-- the datapath driven by a sequence of `ccp_invoke` calls on flow `sid` -/
def dpRun (sid : Nat) : Dp → List (Val × Prims) → List Vm.Obs
  | _, [] => []
  | dp, (now, prims) :: rest =>
    match invoke dp sid now prims with
    | none => []
    | some (dp', o) => o :: dpRun sid dp' rest

def envOf (i : Val × Prims) : Env := ⟨i.1, 0, i.2⟩

theorem dpRun_steady (sid : Nat) (p : Program) : ∀ (inputs : List (Val × Prims)) (dp : Dp) (c : Conn),
    getConn dp sid = some c → c.staged = none → c.pending = Pending.none → c.regs.control.length ≤ 110 →
    lookupIndex dp c.programIndex = some p →
    dpRun sid dp inputs = vmRun p c (inputs.map envOf)
  | [], _, _, _, _, _, _, _ => rfl
  | (now, prims) :: rest, dp, c, hc, hst, hpend, hctl, hp => by
    have k := vmInvoke_keep p ⟨now, 0, prims⟩ c
    have ih := dpRun_steady sid p rest (setConn dp sid (vmInvoke p ⟨now, 0, prims⟩ c).1) _
      (getConn_setConn dp sid c _ hc) (k.st.trans hst) (k.pend.trans hpend) (by rw [k.ctl]; exact hctl)
      (by rw [k.pi]; exact hp)
    unfold dpRun
    rw [invoke_steady dp sid p c now prims hc hst hpend hctl hp]
    simp only [List.map_cons, vmRun, envOf]
    rw [ih]

/-- **install, start a flow, change-program, then any number of invocations: the datapath is
`vmRun (progOf uid bin)` from the switched state.** -/
theorem run_decoded (uid : Nat) (bin : Bin) (msg : Bytes)
    (hmsg : serializeInstall (installOf uid bin) = .ok msg)
    (huid : uid < 2^32) (hne256 : bin.events.length ≤ 256) (hni256 : bin.instrs.length ≤ 256)
    (hev : ∀ e ∈ bin.events, evInRange e)
    (hres : ∀ i ∈ bin.instrs, C03.writable i.res = true) :
    ∃ dp1 dp2 dp3, readMsg Dp.init msg = (dp1, 0) ∧ connStart dp1 = some (dp2, 1) ∧
      readMsg dp2 (cpBytes 1 uid) = (dp3, 0) ∧
      ∀ (now : Val) (prims : Prims) (rest : List (Val × Prims)),
        dpRun 1 dp3 ((now, prims) :: rest) =
          vmRun (progOf uid bin)
            (afterSwitch ⟨now, 0, prims⟩ (progOf uid bin) { newConn with programIndex := 1 } now)
            (((now, prims) :: rest).map envOf) := by
  obtain ⟨dp1, h1, hconns, hlu, hli⟩ := install_decodes_msg uid bin msg hmsg huid hne256 hni256 hev hres
  obtain ⟨progs, conns⟩ := dp1
  simp only at hconns
  subst hconns
  have hcs : connStart ⟨progs, Dp.init.conns⟩ = some (⟨progs, Dp.init.conns.set 0 (some newConn)⟩, 1) := rfl
  have hg2 : getConn ⟨progs, Dp.init.conns.set 0 (some newConn)⟩ 1 = some newConn := rfl
  have hcp := readMsg_cpBytes ⟨progs, Dp.init.conns.set 0 (some newConn)⟩ 1 uid 1 newConn (by omega) huid hg2 hlu
  refine ⟨_, _, _, h1, hcs, hcp, ?_⟩
  intro now prims rest
  generalize hp : progOf uid bin = p at hli ⊢
  generalize hdp3 : setConn ⟨progs, Dp.init.conns.set 0 (some newConn)⟩ 1
    { newConn with staged := some 1, pending := Pending.none } = dp3
  have hg3 : getConn dp3 1 = some { newConn with staged := some 1, pending := Pending.none } := by
    rw [← hdp3]; exact getConn_setConn _ 1 _ _ hg2
  have hli3 : lookupIndex dp3 1 = some p := by rw [← hdp3]; exact hli
  have hfirst := invoke_first dp3 1 1 p { newConn with staged := some 1, pending := Pending.none } now prims
    hg3 rfl rfl rfl hli3
  have e0 : ({ ({ newConn with staged := some 1, pending := Pending.none } : Conn) with
      programIndex := 1, staged := none } : Conn) = { newConn with programIndex := 1 } := rfl
  rw [e0] at hfirst
  generalize hcA : afterSwitch ⟨now, 0, prims⟩ p { newConn with programIndex := 1 } now = cA at hfirst ⊢
  have kA : Keep { newConn with programIndex := 1 } cA := by rw [← hcA]; exact afterSwitch_keep ..
  have kB := vmInvoke_keep p ⟨now, 0, prims⟩ cA
  have ih := dpRun_steady 1 p rest (setConn dp3 1 (vmInvoke p ⟨now, 0, prims⟩ cA).1) _
    (getConn_setConn dp3 1 _ _ hg3) (kB.st.trans kA.st) (kB.pend.trans kA.pend)
    (by rw [kB.ctl, kA.ctl]; exact Nat.le_of_eq (List.length_replicate ..))
    (by rw [kB.pi, kA.pi]; exact hli3)
  unfold dpRun
  rw [hfirst]
  simp only [List.map_cons, vmRun, envOf]
  rw [ih]

/-- **C01 from bytes, every invocation.** Under the hypotheses of `compiled_run_correct` (the compile-time uid is
the wire uid) plus the uid range and libccp's two array sizes: feed libccp the install message, start a flow,
feed it the change-program message, then invoke it on any sequence of (clock, primitives) inputs — the
observations are those the source semantics denotes, as long as that semantics stays inside the fragment. -/
theorem run_correct_from_bytes (uid : Nat) (src : List Char) (upd : List (Name × Nat)) (ds : List Decl)
    (evs : List Event) (bin : Bin) (scF : Scope) (img : Bytes) (decls : List Sem.VarDecl) (msg : Bytes)
    (hp : parseSource src = some (ds, evs))
    (hnd : (ds.map (·.var)).Nodup)
    (hfresh : ∀ d ∈ ds, (Scope.new uid).get d.var = none)
    (hc : compile uid src upd = .ok (bin, scF))
    (hser : bin.serialize = .ok img)
    (hv : varDecls ds upd = some decls)
    (hloc : scF.numLocal ≤ 6)
    (hne : evs ≠ [])
    (hst : InOracle evs = true)
    (hlits : LitsOk evs = true) (hwr : WritesOk evs = true)
    (hmsg : serializeInstall (installOf uid bin) = .ok msg)
    (huid : uid < 2^32) (hne256 : bin.events.length ≤ 256) (hni256 : bin.instrs.length ≤ 256) :
    ∃ dp1 dp2 dp3, readMsg Dp.init msg = (dp1, 0) ∧ connStart dp1 = some (dp2, 1) ∧
      readMsg dp2 (cpBytes 1 uid) = (dp3, 0) ∧
      ∀ (now : Val) (prims : Prims) (rest : List (Val × Prims)),
        match (Sem.run decls evs (Sem.initState decls now) (((now, prims) :: rest).map envOf)).mapM ofSem with
        | none => True
        | some exp => (dpRun 1 dp3 ((now, prims) :: rest)).map ofVm = exp := by
  obtain ⟨_, _, _, _, _, hw, _⟩ := C03.compile_wf uid src upd bin scF hc
  have hil : bin.instrs.length < 2^32 := by omega
  obtain ⟨dp1, dp2, dp3, h1, h2, h3, h4⟩ := run_decoded uid bin msg hmsg huid hne256 hni256
    (C03.Tiles_inRange hw.tiles hil) (fun i hi => (hw.instr i hi).1)
  refine ⟨dp1, dp2, dp3, h1, h2, h3, ?_⟩
  intro now prims rest
  rw [h4 now prims rest]
  exact compiled_run_correct uid uid src upd ds evs bin scF img decls hp hnd hfresh hc hser hv hloc hne hst
    hlits hwr ⟨now, 0, prims⟩ { newConn with programIndex := 1 } rfl now (((now, prims) :: rest).map envOf)

/-! ## non-vacuity of the end-to-end statement

`exSrc_inTheorem` (C01Sim) shows the hypotheses of `compiled_run_correct` for `C13.exSrc` compiled with uid 3 and
`exSrc_decodes` above the remaining ones (message built, uid range, size limit) together with the conclusion of
the decode theorem, both kernel-checked. The `#guard` below is a *test* (compiler-evaluated, not a theorem): the
model datapath fed with the two messages and invoked twice reports `foo = 1 + 9`, `acked = 0` under uid 3. -/

#guard
  (match compile 3 C13.exSrc [("bar".toList, 9)] with
   | .ok (bin, _) =>
     match serializeInstall (installOf 3 bin) with
     | .ok msg =>
       match connStart (readMsg Dp.init msg).1 with
       | some (dp2, 1) =>
         (dpRun 1 (readMsg dp2 (cpBytes 1 3)).1
           [(100, ⟨List.replicate 15 7, 10, 20⟩), (200, ⟨List.replicate 15 7, 10, 20⟩)]).map (·.report)
           == [some (3, [10, 0]), some (3, [10, 0])]
       | _ => false
     | _ => false
   | _ => false)

end Portus.C01
