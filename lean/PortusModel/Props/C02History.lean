import PortusModel.Props.C02
import PortusModel.Props.C05History
/-!
# C02 over whole histories — the dispatch loop refines a flat partial map

`Props/C02` proves what ONE step of the dispatch loop does. This file closes the gap to the property itself,
which quantifies over every history: the callbacks the runtime makes into user code over a whole history of
(address, message) inputs are exactly those of the simplest possible specification — a flat partial map
`(datapath address, flow id) ⇀ flow number` plus a creation counter — for every configuration, every bounded
policy (whatever the user code sends through its handles) and every send-failure script.

* `Spec`, `specStep`, `specRun`: the specification. It knows nothing of the two-level map, of install
  messages, handles, send failures or user state.
* `Abs`: the abstraction relation between the runtime's state and the specification's.
* `step_refines`: one concrete step that keeps serving makes exactly the specification's callbacks and
  commutes with `Abs`; a step that ends the run (`.fail`: a failed install send) makes a prefix of them.
* `history_refines_flat_map`: by induction over the history, the per-input callback lists of the run
  (`C05.runHistSf`, the same loop C05's history theorem is about) match the specification's
  (`matchesSpec`): equal for every input but possibly the last handled one, where the run ended.
* corollaries in the words of the property: `report_reaches_current_handler_only`,
  `closed_flow_hears_nothing`.
-/
namespace Portus.C02
open Portus Portus.Lang Portus.Wire Portus.Ipc Portus.Rt

/-- the specification's state: the flat partial map as an association list (first match wins) and the
number the next created flow gets -/
structure Spec where
  cur : List ((Addr × Nat) × Nat)
  next : Nat
deriving Repr, DecidableEq, Inhabited

def Spec.init : Spec := { cur := [], next := 1 }

def Spec.get (s : Spec) (a : Addr) (sid : Nat) : Option Nat := s.cur.lookup (a, sid)

/-- what one input does to the flat map, and the callbacks it causes -/
def specStep (pick : Bytes → Nat) (s : Spec) (a : Addr) : Msg → Spec × List Ev
  | .rdy _ =>
    ({ s with cur := s.cur.filter fun p => p.1.1 ≠ a },
     (((s.cur.filter fun p => p.1.1 = a).map (·.2)).mergeSort).map Ev.dropped)
  | .cr c =>
    ({ cur := ((a, c.sid), s.next) :: s.cur.filter (fun p => p.1 ≠ (a, c.sid)), next := s.next + 1 },
     (match s.get a c.sid with | some n => [Ev.dropped n] | none => []) ++
       [.newFlow s.next (pick (c.alg.getD [])) ⟨c.sid, c.cwnd, c.mss, c.srcIp, c.srcPort, c.dstIp, c.dstPort⟩ c.sid])
  | .ms m =>
    match s.get a m.sid with
    | none => (s, [])
    | some n =>
      if m.numFields = 0 then ({ s with cur := s.cur.filter fun p => p.1 ≠ (a, m.sid) }, [.closed n, .dropped n])
      else (s, [.report n m.sid m.uid m.fields])
  | .other _ => (s, [])

/-- the specification over a history: the callbacks per input -/
def specRun (pick : Bytes → Nat) : Spec → List (Addr × Msg) → List (List Ev)
  | _, [] => []
  | s, (a, m) :: rest => (specStep pick s a m).2 :: specRun pick (specStep pick s a m).1 rest

/-- the abstraction relation -/
structure Abs {σ : Type} (st : St σ) (s : Spec) : Prop where
  get : ∀ a sid, curNo st a sid = s.get a sid
  next : st.nextFlow = s.next
  /-- the flat map's keys are unique -/
  nodup : (s.cur.map (·.1)).Nodup
  /-- the flows registered at an address are exactly the flat map's entries for it (needed for ready: the
  dropped flows are listed in increasing flow number on both sides). This field follows from the other three
  and the uniqueness of the runtime's keys (`perAddr_of_get`; `Abs.of_get` builds an `Abs` without it): two
  association lists with unique keys and the same lookup function are permutations of each other. -/
  perAddr : ∀ a, (((st.flows.lookup a).getD []).map fun p => p.2.no).mergeSort
              = ((s.cur.filter fun p => p.1.1 = a).map (·.2)).mergeSort


/-! ## Association-list facts used below -/

theorem mergeSort_eq_of_perm {l1 l2 : List Nat} (h : l1.Perm l2) : l1.mergeSort = l2.mergeSort := by
  apply List.Perm.eq_of_pairwise (le := fun a b => decide (a ≤ b))
  · intro a b _ _ h1 h2
    simp only [decide_eq_true_eq] at h1 h2
    omega
  · apply List.pairwise_mergeSort
    · intro a b c h1 h2; simp only [decide_eq_true_eq] at *; omega
    · intro a b; simp only [Bool.or_eq_true, decide_eq_true_eq]; omega
  · apply List.pairwise_mergeSort
    · intro a b c h1 h2; simp only [decide_eq_true_eq] at *; omega
    · intro a b; simp only [Bool.or_eq_true, decide_eq_true_eq]; omega
  · exact (List.mergeSort_perm _ _).trans (h.trans (List.mergeSort_perm _ _).symm)

theorem lookup_filter_key {κ β : Type} [BEq κ] [LawfulBEq κ] (l : List (κ × β)) (q : κ → Bool) (k : κ) :
    (l.filter fun p => q p.1).lookup k = if q k = true then l.lookup k else none := by
  induction l with
  | nil => simp
  | cons p rest ih =>
    obtain ⟨k', v⟩ := p
    by_cases hq : q k' = true
    · rw [List.filter_cons_of_pos (by exact hq)]
      simp only [List.lookup_cons]
      by_cases hk : (k == k') = true
      · have := eq_of_beq hk
        subst this
        simp [hq]
      · have hk' : (k == k') = false := by simpa using hk
        simp only [hk']
        exact ih
    · rw [List.filter_cons_of_neg (by exact hq), ih]
      simp only [List.lookup_cons]
      by_cases hk : (k == k') = true
      · have := eq_of_beq hk
        subst this
        simp [hq]
      · have hk' : (k == k') = false := by simpa using hk
        simp only [hk']

theorem lookup_none_of_not_key {β : Type} (l : List (Nat × β)) (k : Nat) (h : k ∉ l.map (·.1)) : l.lookup k = none := by
  rw [List.lookup_eq_none_iff]
  intro p hp
  have : p.1 ≠ k := fun e => h (by rw [← e]; exact List.mem_map_of_mem hp)
  simpa using fun e => this e.symm

theorem count_of_nodup_keys (l : List (Nat × Nat)) (h : (l.map (·.1)).Nodup) (k v : Nat) :
    l.count (k, v) = if l.lookup k = some v then 1 else 0 := by
  induction l with
  | nil => simp
  | cons p rest ih =>
    obtain ⟨k', v'⟩ := p
    simp only [List.map_cons, List.nodup_cons] at h
    obtain ⟨hn, hr⟩ := h
    rw [List.count_cons, List.lookup_cons, ih hr]
    by_cases hk : k = k'
    · subst hk
      rw [lookup_none_of_not_key rest k hn]
      by_cases hv : v' = v <;> simp [hv]
    · have h1 : (k == k') = false := by simpa using hk
      have h2 : ((k', v') == (k, v)) = false := by
        simp only [beq_eq_false_iff_ne, ne_eq, Prod.mk.injEq, not_and]
        intro e; exact absurd e.symm hk
      simp only [h1, h2]
      simp

theorem perm_of_lookup_eq {l1 l2 : List (Nat × Nat)} (h1 : (l1.map (·.1)).Nodup) (h2 : (l2.map (·.1)).Nodup)
    (h : ∀ k, l1.lookup k = l2.lookup k) : l1.Perm l2 := by
  rw [List.perm_iff_count]
  intro ⟨k, v⟩
  rw [count_of_nodup_keys _ h1, count_of_nodup_keys _ h2, h]

theorem lookup_map_no {σ : Type} (fm : List (Nat × Flow σ)) (k : Nat) :
    (fm.map fun p => (p.1, p.2.no)).lookup k = (fm.lookup k).map (·.no) := by
  induction fm with
  | nil => rfl
  | cons p rest ih =>
    obtain ⟨k', f⟩ := p
    simp only [List.map_cons, List.lookup_cons]
    by_cases hk : (k == k') = true
    · simp only [hk, Option.map_some]
    · have hk' : (k == k') = false := by simpa using hk
      simp only [hk']
      exact ih

theorem lookup_specAt (cur : List ((Addr × Nat) × Nat)) (a : Addr) (sid : Nat) :
    ((cur.filter fun p => p.1.1 = a).map fun p => (p.1.2, p.2)).lookup sid = cur.lookup (a, sid) := by
  induction cur with
  | nil => rfl
  | cons p rest ih =>
    obtain ⟨⟨a', s'⟩, n⟩ := p
    by_cases ha : a' = a
    · subst ha
      rw [List.filter_cons_of_pos (by simp)]
      simp only [List.map_cons, List.lookup_cons, ih]
      by_cases hs : sid = s'
      · subst hs; simp
      · have h1 : (sid == s') = false := by simpa using hs
        have h2 : ((a', sid) == (a', s')) = false := by simpa using hs
        simp only [h1, h2]
    · rw [List.filter_cons_of_neg (by simpa using ha), ih, List.lookup_cons]
      have h2 : ((a, sid) == (a', s')) = false := by
        simp only [beq_eq_false_iff_ne, ne_eq, Prod.mk.injEq, not_and]
        intro e; exact absurd e.symm ha
      simp only [h2]

theorem nodup_specAt (cur : List ((Addr × Nat) × Nat)) (h : (cur.map (·.1)).Nodup) (a : Addr) :
    (((cur.filter fun p => p.1.1 = a).map fun p => (p.1.2, p.2)).map (·.1)).Nodup := by
  induction cur with
  | nil => simp
  | cons p rest ih =>
    obtain ⟨⟨a', s'⟩, n⟩ := p
    simp only [List.map_cons, List.nodup_cons] at h
    obtain ⟨hn, hr⟩ := h
    by_cases ha : a' = a
    · subst ha
      rw [List.filter_cons_of_pos (by simp)]
      simp only [List.map_cons, List.nodup_cons]
      refine ⟨?_, ih hr⟩
      intro hm
      simp only [List.mem_map, List.mem_filter, decide_eq_true_eq] at hm
      obtain ⟨q, ⟨r, ⟨hr1, hr2⟩, rfl⟩, hq⟩ := hm
      apply hn
      simp only [List.mem_map]
      refine ⟨r, hr1, ?_⟩
      simp only at hq
      exact Prod.ext hr2 hq
    · rw [List.filter_cons_of_neg (by simpa using ha)]
      exact ih hr

/-- keys stay unique under any filter -/
theorem nodup_keys_filter {κ β : Type} (l : List (κ × β)) (q : κ × β → Bool) (h : (l.map (·.1)).Nodup) :
    ((l.filter q).map (·.1)).Nodup :=
  h.sublist (List.Sublist.map _ List.filter_sublist)

/-- **`perAddr` follows from the other fields and the uniqueness of the runtime's keys**: two association lists
with unique keys and the same lookup function are permutations of each other, and sorting forgets the order. -/
theorem perAddr_of_get {σ : Type} {st : St σ} (hw : WfSt st) {s : Spec}
    (hget : ∀ a sid, curNo st a sid = s.get a sid) (hnd : (s.cur.map (·.1)).Nodup) (a : Addr) :
    (((st.flows.lookup a).getD []).map fun p => p.2.no).mergeSort
      = ((s.cur.filter fun p => p.1.1 = a).map (·.2)).mergeSort := by
  apply mergeSort_eq_of_perm
  have hfm : ((((st.flows.lookup a).getD []).map fun p => (p.1, p.2.no)).map (·.1)).Nodup := by
    cases hl : st.flows.lookup a with
    | none => simp
    | some fm =>
      have := hw.fm_nodup hl
      simpa [List.map_map, Function.comp_def] using this
  have hperm : (((st.flows.lookup a).getD []).map fun p => (p.1, p.2.no)).Perm
      ((s.cur.filter fun p => p.1.1 = a).map fun p => (p.1.2, p.2)) := by
    apply perm_of_lookup_eq hfm (nodup_specAt s.cur hnd a)
    intro k
    rw [lookup_map_no, lookup_specAt]
    have := hget a k
    unfold curNo cur Spec.get at this
    rw [← this]
    cases st.flows.lookup a <;> rfl
  have := hperm.map (·.2)
  simpa [List.map_map, Function.comp_def] using this

theorem Abs.of_get {σ : Type} {st : St σ} {s : Spec} (hw : WfSt st)
    (hget : ∀ a sid, curNo st a sid = s.get a sid) (hnext : st.nextFlow = s.next)
    (hnd : (s.cur.map (·.1)).Nodup) : Abs st s :=
  ⟨hget, hnext, hnd, perAddr_of_get hw hget hnd⟩

theorem Abs_init {σ : Type} (sf : Nat) : Abs ({ (St.init : St σ) with sendFail := sf }) Spec.init := by
  refine ⟨?_, rfl, ?_, ?_⟩
  · intro a sid
    simp [curNo, cur, St.init, Spec.init, Spec.get]
  · simp [Spec.init]
  · intro a
    simp [St.init, Spec.init]

/-- `Abs` does not look at the send-failure budget -/
theorem Abs_applySf {σ : Type} {st : St σ} {s : Spec} (passed : List Rx) (h : Abs st s) : Abs (applySf st passed) s := by
  unfold applySf
  split
  · exact ⟨h.get, h.next, h.nodup, h.perAddr⟩
  · exact h

theorem WfSt_applySf {σ : Type} {st : St σ} (passed : List Rx) (h : WfSt st) : WfSt (applySf st passed) := by
  unfold applySf
  split
  · exact ⟨h.addrs, h.sids⟩
  · exact h

/-- the specification's map after forgetting one address -/
theorem lookup_filter_addr (l : List ((Addr × Nat) × Nat)) (a a' : Addr) (sid : Nat) :
    (l.filter fun p => p.1.1 ≠ a).lookup (a', sid) = if a' = a then none else l.lookup (a', sid) := by
  have h := lookup_filter_key l (fun k => decide (k.1 ≠ a)) (a', sid)
  simp only [decide_eq_true_eq] at h
  rw [h]
  by_cases ha : a' = a <;> simp [ha]

/-- the specification's map after forgetting one pair -/
theorem lookup_filter_pair (l : List ((Addr × Nat) × Nat)) (k0 k : Addr × Nat) :
    (l.filter fun p => p.1 ≠ k0).lookup k = if k = k0 then none else l.lookup k := by
  have h := lookup_filter_key l (fun k => decide (k ≠ k0)) k
  simp only [decide_eq_true_eq] at h
  rw [h]
  by_cases hk : k = k0 <;> simp [hk]

theorem isPrefixOf_self (l : List Ev) : l.isPrefixOf l = true := by
  rw [List.isPrefixOf_iff_prefix]
  exact List.prefix_refl l

/-- **One step refines the specification.** -/
theorem step_refines {σ : Type} (cfg : Cfg) (pol : Policy σ) (hb : pol.Bounded) (st : St σ) (hw : WfSt st)
    (s : Spec) (habs : Abs st s) (addr : Addr) (msg : Msg) :
    (∃ st' evs, step cfg pol st addr msg = .ok (.cont st' evs) ∧
        evs.filter isCallback = (specStep cfg.pick s addr msg).2 ∧
        Abs st' (specStep cfg.pick s addr msg).1 ∧ WfSt st') ∨
    (∃ st' evs, step cfg pol st addr msg = .ok (.fail st' evs) ∧
        (evs.filter isCallback).isPrefixOf (specStep cfg.pick s addr msg).2 = true) := by
  cases msg with
  | other r =>
    left
    exact ⟨st, [], rfl, rfl, habs, hw⟩
  | rdy id =>
    obtain ⟨st', evs, hstep, hcb, hcur, hoth, hnf, hw'⟩ := ready_drops_only_that_address cfg pol st hw addr id
    have hev : evs.filter isCallback = (specStep cfg.pick s addr (.rdy id)).2 := by
      rw [hcb]
      simp only [specStep, dropAll]
      rw [habs.perAddr addr]
    rcases hstep with hstep | hstep
    · left
      refine ⟨st', evs, hstep, hev, ?_, hw'⟩
      apply Abs.of_get hw'
      · intro a sid
        simp only [specStep, Spec.get]
        rw [lookup_filter_addr]
        by_cases ha : a = addr
        · subst ha
          rw [hcur sid, if_pos rfl]
        · rw [hoth a sid ha, if_neg ha]
          exact habs.get a sid
      · rw [hnf]
        exact habs.next
      · exact nodup_keys_filter s.cur _ habs.nodup
    · right
      refine ⟨st', evs, hstep, ?_⟩
      rw [hev]
      exact isPrefixOf_self _
  | cr c =>
    rcases create_one_handler cfg pol hb st hw addr c with
      ⟨st', evs, hstep, _, hcb, _⟩ | ⟨st', evs, hstep, hcb, hnew, hoth, hnf, hw'⟩
    · right
      refine ⟨st', evs, hstep, ?_⟩
      rw [hcb]
      rfl
    · left
      refine ⟨st', evs, hstep, ?_, ?_, hw'⟩
      · rw [hcb, habs.get, habs.next]
        rfl
      · apply Abs.of_get hw'
        · intro a sid
          simp only [specStep, Spec.get, List.lookup_cons]
          by_cases hk : (a, sid) = (addr, c.sid)
          · have h1 : a = addr := (Prod.mk.inj hk).1
            have h2 : sid = c.sid := (Prod.mk.inj hk).2
            subst h1
            subst h2
            rw [hnew, habs.next]
            simp
          · have hk' : ((a, sid) == (addr, c.sid)) = false := by simpa using hk
            rw [hoth a sid hk]
            simp only [hk']
            rw [lookup_filter_pair, if_neg hk]
            exact habs.get a sid
        · rw [hnf, habs.next]
          rfl
        · simp only [specStep, List.map_cons, List.nodup_cons]
          refine ⟨?_, nodup_keys_filter s.cur _ habs.nodup⟩
          intro hm
          obtain ⟨p, hp, e⟩ := List.mem_map.mp hm
          have := (List.mem_filter.mp hp).2
          simp only [decide_eq_true_eq] at this
          exact this e
  | ms m =>
    left
    cases hc : cur st addr m.sid with
    | none =>
      have hg : s.get addr m.sid = none := by
        rw [← habs.get]
        simp [curNo, hc]
      refine ⟨st, [], measure_unknown_ignored cfg pol st addr m hc, ?_, ?_, hw⟩
      · simp only [specStep, hg]
        rfl
      · simp only [specStep, hg]
        exact habs
    | some f =>
      have hg : s.get addr m.sid = some f.no := by
        rw [← habs.get]
        simp [curNo, hc]
      by_cases hn : m.numFields = 0
      · obtain ⟨st', evs, hstep, _, hcb, hnone, hoth, hnf, hw'⟩ :=
          close_once_and_forget cfg pol hb st hw addr m f hc hn
        refine ⟨st', _, hstep, ?_, ?_, hw'⟩
        · simp only [specStep, hg, hn, if_true]
          simp [List.filter_cons, List.filter_append, hcb, isCallback]
        · simp only [specStep, hg, hn, if_true]
          apply Abs.of_get hw'
          · intro a sid
            simp only [Spec.get]
            rw [lookup_filter_pair]
            by_cases hk : (a, sid) = (addr, m.sid)
            · have h1 : a = addr := (Prod.mk.inj hk).1
              have h2 : sid = m.sid := (Prod.mk.inj hk).2
              subst h1
              subst h2
              rw [hnone, if_pos rfl]
            · rw [hoth a sid hk, if_neg hk]
              exact habs.get a sid
          · rw [hnf]
            exact habs.next
          · exact nodup_keys_filter s.cur _ habs.nodup
      · obtain ⟨st', evs, hstep, _, hcb, hsame, hnf, hw'⟩ :=
          report_delivered cfg pol hb st hw addr m f hc hn
        refine ⟨st', _, hstep, ?_, ?_, hw'⟩
        · simp only [specStep, hg, hn, if_false]
          simp [List.filter_cons, hcb, isCallback]
        · simp only [specStep, hg, hn, if_false]
          apply Abs.of_get hw'
          · intro a sid
            rw [hsame a sid]
            exact habs.get a sid
          · rw [hnf]
            exact habs.next
          · exact habs.nodup

/-- the run's per-input callback lists against the specification's: equal, except that the last handled
input (where a failed install send may have ended the run) may show only a prefix -/
def matchesSpec : List (List Ev) → List (List Ev) → Bool
  | [], _ => true
  | [c], s :: _ => c.isPrefixOf s
  | c :: cs, s :: ss => c == s && matchesSpec cs ss
  | _ :: _, [] => false

def callbacksOf (tr : List (Addr × Msg × List Ev)) : List (List Ev) := tr.map fun r => r.2.2.filter isCallback

theorem matchesSpec_cons_self (c : List Ev) (cs ss : List (List Ev)) (h : matchesSpec cs ss = true) :
    matchesSpec (c :: cs) (c :: ss) = true := by
  cases cs with
  | nil =>
    simp only [matchesSpec]
    exact isPrefixOf_self c
  | cons d ds =>
    simp only [matchesSpec] at h ⊢
    simp [h]

/-- the same from any reachable pair of related states (the induction) -/
theorem history_refines_from {σ : Type} (cfg : Cfg) (pol : Policy σ) (hb : pol.Bounded) (st : St σ) (hw : WfSt st)
    (s : Spec) (habs : Abs st s) (hist : List (List Rx × Addr × Msg)) :
    matchesSpec (callbacksOf (C05.runHistSf cfg pol st hist))
      (specRun cfg.pick s (hist.map fun x => (x.2.1, x.2.2))) = true := by
  induction hist generalizing st s with
  | nil => rfl
  | cons x rest ih =>
    obtain ⟨passed, addr, msg⟩ := x
    obtain ⟨r, hr, hrun⟩ := C05.runHistSf_cons cfg pol hb st passed addr msg rest
    rw [hrun]
    simp only [List.map_cons, specRun]
    rcases step_refines cfg pol hb (applySf st passed) (WfSt_applySf passed hw) s (Abs_applySf passed habs) addr msg with
      ⟨st', evs, hs, hcb, habs', hw'⟩ | ⟨st', evs, hs, hpre⟩
    · rw [hs] at hr
      injection hr with hr
      subst hr
      simp only [callbacksOf, List.map_cons, StepRes.evs]
      rw [hcb]
      exact matchesSpec_cons_self _ _ _ (ih st' hw' _ habs')
    · rw [hs] at hr
      injection hr with hr
      subst hr
      simp only [callbacksOf, List.map_cons, List.map_nil, StepRes.evs, matchesSpec]
      exact hpre

/-- **C02 for every history.** For every configuration, bounded policy, initial send-failure budget and
input history (with send-failure script items between the inputs), the callbacks of the run are the
specification's. -/
theorem history_refines_flat_map {σ : Type} (cfg : Cfg) (pol : Policy σ) (hb : pol.Bounded) (sf : Nat)
    (hist : List (List Rx × Addr × Msg)) :
    matchesSpec (callbacksOf (C05.runHistSf cfg pol ({ (St.init : St σ) with sendFail := sf }) hist))
      (specRun cfg.pick Spec.init (hist.map fun x => (x.2.1, x.2.2))) = true :=
  history_refines_from cfg pol hb ({ (St.init : St σ) with sendFail := sf })
    ⟨(WfSt_init (σ := σ)).addrs, (WfSt_init (σ := σ)).sids⟩ Spec.init (Abs_init sf) hist

/-- a run that handled every input and did not end in a failure shows exactly the specification's callbacks -/
theorem complete_run_equals_spec {σ : Type} (cfg : Cfg) (pol : Policy σ) (hb : pol.Bounded) (st : St σ) (hw : WfSt st)
    (s : Spec) (habs : Abs st s) (hist : List (List Rx × Addr × Msg)) (extra : List Rx × Addr × Msg)
    (hlen : (C05.runHistSf cfg pol st (hist ++ [extra])).length = hist.length + 1) :
    (callbacksOf (C05.runHistSf cfg pol st (hist ++ [extra]))).take hist.length
      = specRun cfg.pick s (hist.map fun x => (x.2.1, x.2.2)) := by
  induction hist generalizing st s with
  | nil => rfl
  | cons x rest ih =>
    obtain ⟨passed, addr, msg⟩ := x
    obtain ⟨r, hr, hrun⟩ := C05.runHistSf_cons cfg pol hb st passed addr msg (rest ++ [extra])
    simp only [List.cons_append] at hlen ⊢
    rw [hrun] at hlen ⊢
    rcases step_refines cfg pol hb (applySf st passed) (WfSt_applySf passed hw) s (Abs_applySf passed habs) addr msg with
      ⟨st', evs, hs, hcb, habs', hw'⟩ | ⟨st', evs, hs, hpre⟩
    · rw [hs] at hr
      injection hr with hr
      subst hr
      simp only [List.length_cons] at hlen
      simp only [callbacksOf, List.map_cons, List.length_cons, List.take_succ_cons, specRun, StepRes.evs]
      rw [hcb]
      congr 1
      exact ih st' hw' _ habs' (by omega)
    · rw [hs] at hr
      injection hr with hr
      subst hr
      simp only [List.length_cons, List.length_nil] at hlen
      omega

/-! ## The property's sentences, read off the specification -/

/-- a measurement is delivered to the handler currently registered for (address, flow id) and to no other:
in the specification the only callback of a non-empty measurement is ONE report, to the flow the map holds -/
theorem report_reaches_current_handler_only (pick : Bytes → Nat) (s : Spec) (a : Addr) (m : Measure) (hn : m.numFields ≠ 0) :
    (specStep pick s a (.ms m)).2 =
      (match s.get a m.sid with | some n => [Ev.report n m.sid m.uid m.fields] | none => []) ∧
    (specStep pick s a (.ms m)).1 = s := by
  cases hg : s.get a m.sid with
  | none => simp [specStep, hg]
  | some n => simp [specStep, hg, hn]

/-- after an empty measurement the flow is forgotten: whatever else arrives for other flows, later
measurements for (address, flow id) invoke nothing until a create for that pair -/
theorem closed_flow_hears_nothing (pick : Bytes → Nat) (s : Spec) (hnd : (s.cur.map (·.1)).Nodup)
    (a : Addr) (m : Measure) (hn : m.numFields = 0) :
    ((specStep pick s a (.ms m)).1).get a m.sid = none := by
  have _ := hnd -- not needed: the filter removes every entry of the pair, unique or not
  simp only [specStep]
  cases hg : s.get a m.sid with
  | none => exact hg
  | some n =>
    simp only [hn, if_true, Spec.get]
    rw [lookup_filter_pair, if_pos rfl]

/-! ## Non-vacuity: the specification on a concrete history (two addresses, coinciding flow ids, a re-create, a close,
a report after the close, a restart) -/

def exCreate (sid : Nat) : Msg := .cr { sid := sid, cwnd := 10, mss := 1460, srcIp := 1, srcPort := 2, dstIp := 3, dstPort := 4, alg := none }
def exMeasure (sid uid : Nat) (fields : List Nat) : Msg := .ms { sid := sid, uid := uid, numFields := fields.length, fields := fields }

def exHist : List (Addr × Msg) :=
  [(5, .rdy 0), (5, exCreate 1), (6, exCreate 1), (5, exMeasure 1 7 [42]), (5, exCreate 1), (5, exMeasure 1 7 [43]),
   (5, exMeasure 1 7 []), (5, exMeasure 1 7 [44]), (6, exMeasure 1 7 [45]), (6, .rdy 0), (6, exMeasure 1 7 [46])]

example : specRun (fun _ => 0) Spec.init exHist =
    [ [], [.newFlow 1 0 ⟨1, 10, 1460, 1, 2, 3, 4⟩ 1], [.newFlow 2 0 ⟨1, 10, 1460, 1, 2, 3, 4⟩ 1], [.report 1 1 7 [42]],
      [.dropped 1, .newFlow 3 0 ⟨1, 10, 1460, 1, 2, 3, 4⟩ 1], [.report 3 1 7 [43]], [.closed 3, .dropped 3], [],
      [.report 2 1 7 [45]], [.dropped 2], [] ] := by
  decide +kernel

end Portus.C02
