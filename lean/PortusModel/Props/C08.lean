import PortusModel.Lemmas.Backend
import PortusModel.Props.C07
/-!
# C08 — the receive path frames datagrams correctly and never mixes in stale bytes

`Ipc.run` is the model of calling `Backend::next` until it returns `None`; `Ipc.specRun` is the
specification: a function of the datagram script alone (it has no buffer and no cursors).
-/
namespace Portus.C08
open Portus Portus.Wire Portus.Ipc

/-- `C08.check rx observed`: the observed yield sequence is what the script denotes. -/
def check (rx : List Rx) (observed : Out (List (Msg × Addr))) : Bool :=
  observed == .ok (specRun rx)

/-- **No stale bytes.** Whatever the receive buffer contained beforehand (any 1024 bytes, e.g. the
remains of earlier, longer datagrams), the yielded (message, sender) sequence is `specRun rx`,
a function of the datagrams alone; in particular it never panics. -/
theorem yields_function_of_datagrams (buf0 : Bytes) (h : buf0.length = 1024) (rx : List Rx) :
    run (rxFuel rx + 1) (Backend.new buf0) rx = .ok (specRun rx) :=
  run_eq_spec buf0 h rx _ (by omega)

/-- Two runs over the same script from different buffer contents yield the same sequence. -/
theorem stale_bytes_irrelevant (buf1 buf2 : Bytes) (h1 : buf1.length = 1024) (h2 : buf2.length = 1024)
    (rx : List Rx) :
    run (rxFuel rx + 1) (Backend.new buf1) rx = run (rxFuel rx + 1) (Backend.new buf2) rx := by
  rw [yields_function_of_datagrams buf1 h1, yields_function_of_datagrams buf2 h2]

/-- The same holds from every reachable state (any cursor position inside the current datagram):
what is still to be yielded is determined by the unread part of the *current* datagram
(`buf[read_until..tot_read]`) and the rest of the script. -/
theorem yields_from_any_state (b : Backend) (hinv : Inv b) (rx : List Rx) :
    run (measure b rx) b rx = .ok (pendingSpec b rx) :=
  run_eq_pending _ b rx hinv (Nat.le_refl _)

theorem check_model (buf0 : Bytes) (h : buf0.length = 1024) (rx : List Rx) :
    check rx (run (rxFuel rx + 1) (Backend.new buf0) rx) = true := by
  simp [check, yields_function_of_datagrams buf0 h rx]

/-- the yields of a datagram made of well-formed messages are those messages, from its sender -/
theorem decodeSeq_wellformed (a : Addr) (ms : List Msg) (h : ms.all C07.wfMsg = true) (fuel : Nat)
    (hf : (ms.flatMap C07.libccpBytes).length < fuel) :
    decodeSeq fuel a (ms.flatMap C07.libccpBytes) = (ms.map (·, a), true) := by
  induction ms generalizing fuel with
  | nil =>
    cases fuel with
    | zero => simp at hf
    | succ k => simp [decodeSeq]
  | cons m ms ih =>
    simp only [List.all_cons, Bool.and_eq_true] at h
    obtain ⟨b, _, hb2, hb3, hb4⟩ := C07.decode_encode m h.1 (ms.flatMap C07.libccpBytes)
    subst hb2
    cases fuel with
    | zero => simp at hf
    | succ k =>
      have hne : (C07.libccpBytes m ++ ms.flatMap C07.libccpBytes).isEmpty = false := by
        cases hx : C07.libccpBytes m with
        | nil => rw [hx] at hb3; simp at hb3
        | cons x t => rfl
      simp only [List.flatMap_cons, decodeSeq, hne, hb4, List.drop_left', Bool.false_eq_true, if_false]
      have hk : (ms.flatMap C07.libccpBytes).length < k := by
        simp only [List.flatMap_cons, List.length_append] at hf; omega
      rw [ih h.2 k hk]
      simp

/-- A script of datagrams, each a non-empty concatenation of in-range messages that fits the buffer. -/
def wfScript : List (Addr × List Msg) → Bool
  | [] => true
  | (_, ms) :: r =>
    ms.all C07.wfMsg && !ms.isEmpty && decide ((ms.flatMap C07.libccpBytes).length ≤ 1024) && wfScript r

def scriptRx (s : List (Addr × List Msg)) : List Rx :=
  s.map fun p => .dgram p.1 (p.2.flatMap C07.libccpBytes)

def scriptMsgs (s : List (Addr × List Msg)) : List (Msg × Addr) :=
  s.flatMap fun p => p.2.map (·, p.1)

/-- **Framing.** For every sequence of datagrams that are each a concatenation of well-formed
messages, reception yields exactly those messages, in order, each attributed to the sender of the
datagram that carried it — with failed receives interleaved anywhere (`noise`). -/
theorem wellformed_datagrams_yield_messages (s : List (Addr × List Msg)) (h : wfScript s = true) :
    specRun (scriptRx s) = scriptMsgs s := by
  induction s with
  | nil => rfl
  | cons p r ih =>
    obtain ⟨a, ms⟩ := p
    simp only [wfScript, Bool.and_eq_true, Bool.not_eq_true', decide_eq_true_eq] at h
    obtain ⟨⟨⟨h1, h2⟩, h3⟩, h4⟩ := h
    have hpos : 0 < (ms.flatMap C07.libccpBytes).length := by
      cases ms with
      | nil => simp at h2
      | cons m t =>
        simp only [List.all_cons, Bool.and_eq_true] at h1
        obtain ⟨b, _, hb2, hb3, _⟩ := C07.decode_encode m h1.1 []
        subst hb2
        simp only [List.flatMap_cons, List.length_append]; omega
    have htake : (ms.flatMap C07.libccpBytes).take 1024 = ms.flatMap C07.libccpBytes :=
      List.take_of_length_le h3
    simp only [scriptRx, List.map_cons, specRun, htake]
    rw [if_neg (by omega), decodeSeq_wellformed a ms h1 _ (by omega)]
    simp only [if_true]
    have := ih h4
    simp only [scriptRx] at this
    rw [this]
    simp [scriptMsgs]

private theorem parseAt_cases (b : Backend) (hinv : Inv b) (hlt : b.readUntil < b.totRead)
    (rx : List Rx) :
    parseAt b rx = .ok (none, b, rx) ∨
    ∃ m n, 1 ≤ n ∧ b.readUntil + n ≤ b.totRead ∧
      parseAt b rx = .ok (some (m, b.lastAddr), { b with readUntil := b.readUntil + n }, rx) := by
  have hl := hinv.len; have hru := hinv.ru; have htr := hinv.tr
  have hwl := window_length b hinv
  have hne : window b ≠ [] := by
    intro hh; rw [hh] at hwl; simp at hwl; omega
  unfold parseAt
  rw [sliceP_ok _ _ _ ⟨by omega, by omega⟩]
  simp only [Out.bind_ok]
  cases hfb : fromBuf ((b.buf.drop b.readUntil).take (b.totRead - b.readUntil)) with
  | panic => exact absurd hfb (fromBuf_no_panic _)
  | err => left; rfl
  | ok q =>
    obtain ⟨m, n⟩ := q
    have ⟨c1, c2⟩ := fromBuf_consumed (s := window b) hfb hne
    right
    exact ⟨m, n, c1, by omega, rfl⟩

/-- `next` never panics from a state satisfying the cursor invariant. -/
theorem next_no_panic (b : Backend) (hinv : Inv b) (rx : List Rx) : next b rx ≠ .panic := by
  unfold next
  split
  · rename_i hlt
    rcases parseAt_cases b hinv hlt rx with h | ⟨m, n, _, _, h⟩ <;> simp [h]
  · have hg := getNextRead_spec b rx hinv.len
    cases hgn : getNextRead b rx with
    | mk o p =>
      obtain ⟨b', rx'⟩ := p
      rw [hgn] at hg
      cases o with
      | none => simp
      | some r =>
        simp only at hg
        obtain ⟨h1, h2, h3, _, _⟩ := hg
        have hinv2 : Inv { b' with totRead := r, readUntil := 0 } := ⟨h3, Nat.zero_le _, h2⟩
        rcases parseAt_cases _ hinv2 h1 rx' with h | ⟨m, n, _, _, h⟩ <;> simp [h]

/-- **Reception advances.** Every call that yields a message either moves the cursor strictly
forward inside the current datagram or consumes part of the script (a new read happened); the
cursor invariant is preserved, so this can be iterated. -/
theorem reception_advances (b b' : Backend) (hinv : Inv b) (rx rx' : List Rx) (p : Msg × Addr)
    (h : next b rx = .ok (some p, b', rx')) :
    Inv b' ∧ ((rx' = rx ∧ b.readUntil < b'.readUntil ∧ b'.totRead = b.totRead) ∨
              rxFuel rx' < rxFuel rx) := by
  have hl := hinv.len; have htr := hinv.tr
  unfold next at h
  split at h
  · rename_i hlt
    rcases parseAt_cases b hinv hlt rx with h' | ⟨m, n, c1, c2, h'⟩
    · rw [h'] at h; simp at h
    · rw [h'] at h
      simp only [Out.ok.injEq, Prod.mk.injEq] at h
      obtain ⟨_, hb, hrx⟩ := h
      subst hb; subst hrx
      exact ⟨⟨hl, c2, htr⟩, Or.inl ⟨rfl, by show b.readUntil < b.readUntil + n; omega, rfl⟩⟩
  · have hg := getNextRead_spec b rx hl
    cases hgn : getNextRead b rx with
    | mk o q =>
      obtain ⟨b1, rx1⟩ := q
      rw [hgn] at hg h
      cases o with
      | none => simp at h
      | some r =>
        simp only at hg h
        obtain ⟨h1, h2, h3, h4, _⟩ := hg
        have hinv2 : Inv { b1 with totRead := r, readUntil := 0 } := ⟨h3, Nat.zero_le _, h2⟩
        rcases parseAt_cases _ hinv2 h1 rx1 with h' | ⟨m, n, c1, c2, h'⟩
        · rw [h'] at h; simp at h
        · rw [h'] at h
          simp only [Out.ok.injEq, Prod.mk.injEq] at h
          obtain ⟨_, hb, hrx⟩ := h
          subst hb; subst hrx
          exact ⟨⟨h3, c2, h2⟩, Or.inr (by omega)⟩

/-! ## Non-vacuity -/
example : wfScript [(1, [.rdy 7]), (2, [.ms ⟨9, 3, 1, [42]⟩, .rdy 8])] = true := by decide

end Portus.C08
