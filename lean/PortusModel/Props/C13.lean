import PortusModel.Lemmas.ScopeLemmas
/-!
# C13 — the scope returned for an accepted program is the slot assignment libccp uses

In the scope returned for any accepted program, distinct declared report variables occupy distinct
report slots that together are exactly `0..n-1`, distinct control variables distinct control slots,
distinct locals distinct local slots, each with the volatility and the initial value that was
declared (or supplied as a compile-time override); the built-in primitives and implicit registers
sit at the fixed indices libccp defines for every program.

* T1 `builtin_abi` — the closed table of built-in registers;
* T2 `regGet_regInsert_*`, `regGet_regSet_*` — the algebra of the register file;
* T3 `report_slots`, `report_slots_bijective`, `declareAll_no_panic` — the declaration pass;
* T4 `overrides` — the compile-time overrides;
* T5 `localsInv_*`, `locals_distinct`, `compile_keeps_slots`, `compile_keeps_nonlocals`,
  `compile_scope_slots` — the compiler;
* T6 `instrs_use_scope` — the scope's mapping is the one the emitted instructions use.

Quantifier of the final theorems: all accepted programs whose declared names are distinct from each
other and from the built-in names (`hnd`, `hfresh`); `locals_distinct`, `compile_keeps_slots`,
`overrides` and `declareAll_no_panic` need no such assumption.
-/
namespace Portus.C13
open Portus Portus.Lang

/-! ## T1 — the built-in registers -/

/-- The ABI shared with libccp: measurement primitives `0..14`, implicit registers `0..5`. -/
def abiTable : List (String × Reg) :=
  [ ("Ack.bytes_acked",        .primitive 0  (.num none)),
    ("Ack.bytes_misordered",   .primitive 1  (.num none)),
    ("Ack.ecn_bytes",          .primitive 2  (.num none)),
    ("Ack.ecn_packets",        .primitive 3  (.num none)),
    ("Ack.lost_pkts_sample",   .primitive 4  (.num none)),
    ("Ack.now",                .primitive 5  (.num none)),
    ("Ack.packets_acked",      .primitive 6  (.num none)),
    ("Ack.packets_misordered", .primitive 7  (.num none)),
    ("Flow.bytes_in_flight",   .primitive 8  (.num none)),
    ("Flow.bytes_pending",     .primitive 9  (.num none)),
    ("Flow.packets_in_flight", .primitive 10 (.num none)),
    ("Flow.rate_incoming",     .primitive 11 (.num none)),
    ("Flow.rate_outgoing",     .primitive 12 (.num none)),
    ("Flow.rtt_sample_us",     .primitive 13 (.num none)),
    ("Flow.was_timeout",       .primitive 14 (.bool none)),
    ("__eventFlag",            .implicit 0 (.bool none)),
    ("__shouldContinue",       .implicit 1 (.bool none)),
    ("__shouldReport",         .implicit 2 (.bool none)),
    ("Micros",                 .implicit 3 (.num none)),
    ("Cwnd",                   .implicit 4 (.num none)),
    ("Rate",                   .implicit 5 (.num none)) ]

/-- the index of a built-in is its position in `primitiveNames` / `implicitNames` -/
theorem abiTable_positions :
    abiTable =
      (primitiveNames.zipIdx.map fun p => (p.1.1, Reg.primitive p.2 p.1.2)) ++
      (implicitNames.zipIdx.map fun p => (p.1.1, Reg.implicit p.2 p.1.2)) := by
  rfl

/-- **T1.** For every program (every uid) the fresh scope binds exactly the 21 built-in names, at
the indices of `abiTable`. -/
theorem builtin_abi (uid : Nat) :
    (∀ p ∈ abiTable, (Scope.new uid).get p.1.toList = some p.2) ∧ (Scope.new uid).named.length = 21 := by
  constructor
  · intro p hp
    rw [Scope.new_get]
    revert p
    decide +kernel
  · rw [Scope.new_named]; rfl

/-- the stored (name-sorted) register file is a permutation of the ABI table: nothing else is bound -/
theorem builtin_only (uid : Nat) (n : Name) (r : Reg) (h : (Scope.new uid).get n = some r) :
    ∃ p ∈ abiTable, p.1.toList = n ∧ p.2 = r := by
  rw [Scope.new_get] at h
  have hm := regGet_some_mem h
  have : ∀ q ∈ builtinNamed, ∃ p ∈ abiTable, p.1.toList = q.1 ∧ p.2 = q.2 := by decide +kernel
  exact this _ hm

example : (Scope.new 7).get "Flow.was_timeout".toList = some (.primitive 14 (.bool none)) :=
  (builtin_abi 7).1 ("Flow.was_timeout", _) (by decide)

/-! ## T2 — the algebra of the register file (no sortedness assumption) -/

theorem strLt_irrefl (s : List Char) : strLt s s = false := Lang.strLt_irrefl s

theorem regGet_regInsert_self (n : Name) (r : Reg) (l : List (Name × Reg)) :
    regGet n (regInsert n r l) = some r := Lang.regGet_regInsert_self n r l

theorem regGet_regInsert_ne {m n : Name} (h : m ≠ n) (r : Reg) (l : List (Name × Reg)) :
    regGet m (regInsert n r l) = regGet m l := Lang.regGet_regInsert_ne h r l

theorem regGet_regSet_self (n : Name) (r : Reg) (l : List (Name × Reg)) :
    regGet n (regSet n r l) = if (regGet n l).isSome then some r else none := Lang.regGet_regSet_self n r l

theorem regGet_regSet_ne {m n : Name} (h : m ≠ n) (r : Reg) (l : List (Name × Reg)) :
    regGet m (regSet n r l) = regGet m l := Lang.regGet_regSet_ne h r l

/-- shadowing: inserting a name that is already there hides the old entry -/
example : regGet "a".toList (regInsert "a".toList (.immNum 2) [("a".toList, .immNum 1)]) = some (.immNum 2) := by
  decide

/-! ## T3 — the declaration pass

`reportsOf ds := ds.filter fun d => "Report.".toList.isPrefixOf d.var` and
`controlsOf ds := ds.filter fun d => !("Report.".toList.isPrefixOf d.var)` (`Lemmas/ScopeLemmas`) are
the two lists `declareAll` folds over; `defs` puts the `Report`-block entries first in `ds`. -/

example (ds : List Decl) : reportsOf ds = ds.filter fun d => "Report.".toList.isPrefixOf d.var := rfl
example (ds : List Decl) : controlsOf ds = ds.filter fun d => !("Report.".toList.isPrefixOf d.var) := rfl

private theorem report_control_ne {ds : List Decl} {r c : Decl} (hr : r ∈ reportsOf ds) (hc : c ∈ controlsOf ds) :
    c.var ≠ r.var := by
  intro e
  have h1 := (List.mem_filter.mp hr).2
  have h2 := (List.mem_filter.mp hc).2
  rw [e, h1] at h2
  cases h2

/-- **T3.** Report variables occupy exactly the report slots `0..n-1` in declaration order, control
variables the control slots `0..m-1`, each with its declared initial value and volatility; the
built-ins are untouched and nothing else is bound. -/
theorem report_slots (uid : Nat) (ds : List Decl) (sc : Scope)
    (hnd : (ds.map (·.var)).Nodup)
    (hfresh : ∀ d ∈ ds, (Scope.new uid).get d.var = none)
    (h : declareAll (Scope.new uid) ds = .ok sc) :
    (∀ k (hk : k < (reportsOf ds).length),
      sc.get (reportsOf ds)[k].var = some (.report k (reportsOf ds)[k].init (reportsOf ds)[k].vol)) ∧
    (∀ k (hk : k < (controlsOf ds).length),
      sc.get (controlsOf ds)[k].var = some (.control k (controlsOf ds)[k].init (controlsOf ds)[k].vol)) ∧
    (sc.numPerm = (reportsOf ds).length ∧ sc.numControl = (controlsOf ds).length ∧ sc.numLocal = 0 ∧
      sc.uid = uid) ∧
    (∀ n r, (Scope.new uid).get n = some r → sc.get n = some r) ∧
    (∀ n r, sc.get n = some r → (Scope.new uid).get n = some r ∨ ∃ d ∈ ds, d.var = n) := by
  obtain ⟨_, _, sc1, h1, h2⟩ := declareAll_ok h
  have ndr : ((reportsOf ds).map (·.var)).Nodup := hnd.sublist (List.Sublist.map _ List.filter_sublist)
  have ndc : ((controlsOf ds).map (·.var)).Nodup := hnd.sublist (List.Sublist.map _ List.filter_sublist)
  obtain ⟨a1, a2, a3, a4, _, a6, a7⟩ := foldl_newReport h1 ndr
  obtain ⟨b1, b2, b3, b4, _, b6, b7⟩ := foldl_newControl h2 ndc
  have z1 : (Scope.new uid).numPerm = 0 := rfl
  have z2 : (Scope.new uid).numControl = 0 := rfl
  have z3 : (Scope.new uid).numLocal = 0 := rfl
  have z4 : (Scope.new uid).uid = uid := rfl
  have other : ∀ n, (∀ d ∈ ds, d.var ≠ n) → sc.get n = (Scope.new uid).get n := by
    intro n hn
    rw [b7 n (fun d hd => hn d (List.mem_filter.mp hd).1), a7 n (fun d hd => hn d (List.mem_filter.mp hd).1)]
  refine ⟨?_, ?_, ⟨by omega, by omega, by omega, by rw [b4, a4, z4]⟩, ?_, ?_⟩
  · intro k hk
    rw [b7 _ (fun d hd => report_control_ne (List.getElem_mem hk) hd), a6 k hk, z1, Nat.zero_add]
  · intro k hk
    rw [b6 k hk, a2, z2, Nat.zero_add]
  · intro n r hg
    rw [other n ?_, hg]
    intro d hd e
    rw [← e, hfresh d hd] at hg
    cases hg
  · intro n r hg
    by_cases hx : ∃ d ∈ ds, d.var = n
    · exact Or.inr hx
    · left
      rw [← other n ?_, hg]
      intro d hd e
      exact hx ⟨d, hd, e⟩

/-- **T3, corollary.** The slot assignment is a bijection between the report (control) variables
and `0..n-1` (`0..m-1`): different positions have different names, and every report (control)
register bound in the scope is the one of the declaration at its index — so a report of
`numPerm` values contains every report variable exactly once. -/
theorem report_slots_bijective (uid : Nat) (ds : List Decl) (sc : Scope)
    (hnd : (ds.map (·.var)).Nodup)
    (hfresh : ∀ d ∈ ds, (Scope.new uid).get d.var = none)
    (h : declareAll (Scope.new uid) ds = .ok sc) :
    (∀ i j (hi : i < (reportsOf ds).length) (hj : j < (reportsOf ds).length),
      (reportsOf ds)[i].var = (reportsOf ds)[j].var → i = j) ∧
    (∀ n i t v, sc.get n = some (.report i t v) →
      ∃ hi : i < (reportsOf ds).length,
        n = (reportsOf ds)[i].var ∧ t = (reportsOf ds)[i].init ∧ v = (reportsOf ds)[i].vol) ∧
    (∀ i j (hi : i < (controlsOf ds).length) (hj : j < (controlsOf ds).length),
      (controlsOf ds)[i].var = (controlsOf ds)[j].var → i = j) ∧
    (∀ n i t v, sc.get n = some (.control i t v) →
      ∃ hi : i < (controlsOf ds).length,
        n = (controlsOf ds)[i].var ∧ t = (controlsOf ds)[i].init ∧ v = (controlsOf ds)[i].vol) ∧
    (reportsOf ds).length ≤ 255 ∧ (controlsOf ds).length ≤ 255 := by
  obtain ⟨ha, hb, _, _, he⟩ := report_slots uid ds sc hnd hfresh h
  have split : ∀ d ∈ ds, (∃ k, ∃ hk : k < (reportsOf ds).length, (reportsOf ds)[k] = d) ∨
      (∃ k, ∃ hk : k < (controlsOf ds).length, (controlsOf ds)[k] = d) := by
    intro d hd
    by_cases hp : "Report.".toList.isPrefixOf d.var = true
    · exact Or.inl (List.mem_iff_getElem.mp (List.mem_filter.mpr ⟨hd, hp⟩))
    · exact Or.inr (List.mem_iff_getElem.mp (List.mem_filter.mpr ⟨hd, by rw [Bool.not_eq_true] at hp; rw [hp]; rfl⟩))
  refine ⟨?_, ?_, ?_, ?_, (declareAll_ok h).1, (declareAll_ok h).2.1⟩
  · intro i j hi hj e
    have h1 := ha i hi
    rw [e, ha j hj] at h1
    simp only [Option.some.injEq, Reg.report.injEq] at h1
    exact h1.1.symm
  · intro n i t v hg
    rcases he n _ hg with hb' | ⟨d, hd, rfl⟩
    · have := Scope.new_get_builtin hb'; cases this
    · rcases split d hd with ⟨k, hk, rfl⟩ | ⟨k, hk, rfl⟩
      · rw [ha k hk] at hg
        simp only [Option.some.injEq, Reg.report.injEq] at hg
        obtain ⟨rfl, rfl, rfl⟩ := hg
        exact ⟨hk, rfl, rfl, rfl⟩
      · rw [hb k hk] at hg; cases hg
  · intro i j hi hj e
    have h1 := hb i hi
    rw [e, hb j hj] at h1
    simp only [Option.some.injEq, Reg.control.injEq] at h1
    exact h1.1.symm
  · intro n i t v hg
    rcases he n _ hg with hb' | ⟨d, hd, rfl⟩
    · have := Scope.new_get_builtin hb'; cases this
    · rcases split d hd with ⟨k, hk, rfl⟩ | ⟨k, hk, rfl⟩
      · rw [ha k hk] at hg; cases hg
      · rw [hb k hk] at hg
        simp only [Option.some.injEq, Reg.control.injEq] at hg
        obtain ⟨rfl, rfl, rfl⟩ := hg
        exact ⟨hk, rfl, rfl, rfl⟩

/-- the length guard makes the `u8` counters safe: the declaration pass never panics -/
theorem declareAll_no_panic (ds : List Decl) (sc : Scope) (h0 : sc.numPerm = 0 ∧ sc.numControl = 0) :
    declareAll sc ds ≠ .panic := by
  unfold declareAll
  simp only
  split
  · simp
  · rename_i hg
    obtain ⟨sc1, e1, e2⟩ := foldl_newReport_ok (ds.filter fun d => "Report.".toList.isPrefixOf d.var) sc
      (by omega)
    obtain ⟨sc2, e3⟩ := foldl_newControl_ok (ds.filter fun d => !("Report.".toList.isPrefixOf d.var)) sc1
      (by omega)
    rw [e1, Out.bind_ok, e3]
    simp

/-- … and it is accepted exactly when neither class has more than 255 members -/
theorem declareAll_ok_iff (ds : List Decl) (sc : Scope) (h0 : sc.numPerm = 0 ∧ sc.numControl = 0) :
    (∃ sc', declareAll sc ds = .ok sc') ↔ (reportsOf ds).length ≤ 255 ∧ (controlsOf ds).length ≤ 255 := by
  constructor
  · rintro ⟨sc', h⟩
    exact ⟨(declareAll_ok h).1, (declareAll_ok h).2.1⟩
  · rintro ⟨h1, h2⟩
    unfold declareAll
    simp only
    rw [if_neg (by simp only [reportsOf, controlsOf] at h1 h2; omega)]
    obtain ⟨sc1, e1, e2⟩ := foldl_newReport_ok (reportsOf ds) sc (by omega)
    obtain ⟨sc2, e3⟩ := foldl_newControl_ok (controlsOf ds) sc1 (by omega)
    exact ⟨sc2, by rw [e1, Out.bind_ok, e3]⟩

/-! ### Non-vacuity of T3 -/

/-- the declarations of a small program, as the parser delivers them -/
def exDecls : List Decl :=
  [ ⟨true, "Report.foo".toList, .num (some 0)⟩, ⟨false, "Report.acked".toList, .num (some 0)⟩,
    ⟨false, "bar".toList, .num (some 5)⟩ ]

def exSrc : List Char :=
  "(def (Report (volatile foo 0) (acked 0)) (bar 5)) (when true (:= x 1) (:= Report.foo (+ x bar)) (report))".toList

/-- `exDecls` is what the parser delivers for `exSrc` -/
theorem exSrc_parse : (parseSource exSrc).map (·.1) = some exDecls := by decide +kernel
theorem exDecls_nodup : (exDecls.map (·.var)).Nodup := by decide
theorem exDecls_fresh (uid : Nat) : ∀ d ∈ exDecls, (Scope.new uid).get d.var = none := by
  simp only [Scope.new_get]; decide +kernel
theorem exDecls_accepted : (declareAll (Scope.new 3) exDecls).isOk = true := by decide +kernel
example : ∃ sc, declareAll (Scope.new 3) exDecls = .ok sc ∧
    sc.get "Report.acked".toList = some (.report 1 (.num (some 0)) false) ∧
    sc.get "bar".toList = some (.control 0 (.num (some 5)) false) := by
  cases h : declareAll (Scope.new 3) exDecls with
  | ok sc =>
    obtain ⟨ha, hb, _⟩ := report_slots 3 exDecls sc exDecls_nodup (exDecls_fresh 3) h
    exact ⟨sc, rfl, ha 1 (by decide), hb 0 (by decide)⟩
  | err => have := exDecls_accepted; rw [h] at this; cases this
  | panic => have := exDecls_accepted; rw [h] at this; cases this

/-! ## T4 — the compile-time overrides -/

/-- **T4.** After `applyUpdates sc upd` the binding of every name `n` is `overrideSpec upd n`
of its binding before: unchanged if `n` does not occur in `upd`, and otherwise (with `v` the value of
the **last** occurrence of `n`, `lastVal`) a report / control / local register keeps class, index and
volatility and gets the recorded type `.num (some v)`, while an unbound name stays unbound and a
primitive / implicit register stays as it is. The counters are untouched. -/
theorem overrides (sc : Scope) (upd : List (Name × Nat)) :
    (∀ n, (applyUpdates sc upd).get n = overrideSpec upd n (sc.get n)) ∧
    (applyUpdates sc upd).uid = sc.uid ∧ (applyUpdates sc upd).numPerm = sc.numPerm ∧
    (applyUpdates sc upd).numControl = sc.numControl ∧ (applyUpdates sc upd).numLocal = sc.numLocal ∧
    (applyUpdates sc upd).tmp = sc.tmp :=
  ⟨applyUpdates_get sc upd, applyUpdates_counters sc upd⟩

/-- `lastVal n upd = some v` says `(n, v)` is the last entry for `n` in `upd` -/
theorem lastVal_spec {n : Name} {upd : List (Name × Nat)} {v : Nat} :
    lastVal n upd = some v ↔ ∃ pre post, upd = pre ++ (n, v) :: post ∧ ∀ p ∈ post, p.1 ≠ n :=
  lastVal_eq_some_iff

theorem lastVal_none {n : Name} {upd : List (Name × Nat)} :
    lastVal n upd = none ↔ ∀ p ∈ upd, p.1 ≠ n := by
  constructor
  · intro h p hp e
    cases hv : lastVal n upd with
    | some v => rw [h] at hv; cases hv
    | none =>
      obtain ⟨m, v⟩ := p
      simp only at e; subst e
      clear h
      induction upd with
      | nil => cases hp
      | cons q rest ih =>
        obtain ⟨q1, q2⟩ := q
        simp only [lastVal] at hv
        cases hl : lastVal m rest with
        | some w => rw [hl] at hv; cases hv
        | none =>
          rw [hl] at hv
          simp only at hv
          rcases List.mem_cons.mp hp with hq | hq
          · cases hq; simp at hv
          · exact ih hq hl
  · exact lastVal_none_of_not_mem

/-- T4 spelled out, one clause per case -/
theorem overrides_cases (sc : Scope) (upd : List (Name × Nat)) (n : Name) :
    -- not mentioned: unchanged
    ((∀ p ∈ upd, p.1 ≠ n) → (applyUpdates sc upd).get n = sc.get n) ∧
    -- unbound: stays unbound
    (sc.get n = none → (applyUpdates sc upd).get n = none) ∧
    (∀ v, lastVal n upd = some v →
      (∀ i t vol, sc.get n = some (.report i t vol) →
        (applyUpdates sc upd).get n = some (.report i (.num (some v)) vol)) ∧
      (∀ i t vol, sc.get n = some (.control i t vol) →
        (applyUpdates sc upd).get n = some (.control i (.num (some v)) vol)) ∧
      (∀ i t, sc.get n = some (.local i t) →
        (applyUpdates sc upd).get n = some (.local i (.num (some v))))) ∧
    -- primitive / implicit registers are never changed
    (∀ i t, sc.get n = some (.primitive i t) → (applyUpdates sc upd).get n = some (.primitive i t)) ∧
    (∀ i t, sc.get n = some (.implicit i t) → (applyUpdates sc upd).get n = some (.implicit i t)) := by
  rw [applyUpdates_get]
  unfold overrideSpec
  refine ⟨?_, ?_, ?_, ?_, ?_⟩
  · intro h; rw [lastVal_none.mpr h]
  · intro h; rw [h]; cases lastVal n upd <;> rfl
  · intro v hv
    rw [hv]
    refine ⟨?_, ?_, ?_⟩ <;> intros <;> simp only [*, Option.map_some] <;> rfl
  · intro i t h; rw [h]; cases lastVal n upd <;> rfl
  · intro i t h; rw [h]; cases lastVal n upd <;> rfl

/-- the recorded type after the overrides -/
def overrideTy (upd : List (Name × Nat)) (n : Name) (t : Ty) : Ty :=
  match lastVal n upd with
  | none => t
  | some v => .num (some v)

example : (applyUpdates ⟨0, [("a".toList, .control 0 (.num (some 1)) false), ("b".toList, .primitive 3 .none)], 1, 0, 0, []⟩
    [("a".toList, 7), ("b".toList, 8), ("c".toList, 9), ("a".toList, 10)]).named =
    [("a".toList, .control 0 (.num (some 10)) false), ("b".toList, .primitive 3 .none)] := by decide

/-! ## T5 — the compiler

`LocalsInv sc` (in `Lemmas/ScopeLemmas`): every local bound in `sc` has an index below `sc.numLocal`,
two names bound to locals of the same index are the same name, and `sc.numLocal ≤ 255`.
Shadowing is not a problem: `compileAtom` binds a local only at a name for which `get` is `none`,
and `regInsert` would put a new entry in front of an older one of the same name anyway. -/

theorem localsInv_def (sc : Scope) :
    LocalsInv sc ↔
      (∀ n i t, sc.get n = some (.local i t) → i < sc.numLocal) ∧
      (∀ n m i t u, sc.get n = some (.local i t) → sc.get m = some (.local i u) → n = m) ∧
      sc.numLocal ≤ 255 :=
  ⟨fun h => ⟨h.bound, h.inj, h.le⟩, fun h => ⟨h.1, h.2.1, h.2.2⟩⟩

/-- the declaration pass binds no locals (no assumption on the names) -/
theorem declareAll_no_locals {uid : Nat} {ds : List Decl} {sc : Scope}
    (h : declareAll (Scope.new uid) ds = .ok sc) :
    (∀ n r, sc.get n = some r → r.isLocal = false) ∧ sc.numLocal = 0 := by
  refine ⟨declareAll_all (P := fun r => r.isLocal = false) h (fun _ _ _ => ⟨rfl, rfl⟩) ?_,
    (declareAll_counters h).2.2.1⟩
  intro n r hg
  have := Scope.new_get_builtin hg
  cases r <;> first | rfl | cases this

theorem localsInv_declareAll {uid : Nat} {ds : List Decl} {sc : Scope}
    (h : declareAll (Scope.new uid) ds = .ok sc) : LocalsInv sc := by
  obtain ⟨h1, h2⟩ := declareAll_no_locals h
  refine ⟨?_, ?_, by omega⟩
  · intro n i t hg; have := h1 n _ hg; cases this
  · intro n m i t u hg; have := h1 n _ hg; cases this

theorem localsInv_applyUpdates {sc : Scope} (upd : List (Name × Nat)) (hi : LocalsInv sc) :
    LocalsInv (applyUpdates sc upd) := (applyUpdates_reach sc upd).localsInv hi

theorem localsInv_compileAtom {p : Prim} {sc : Scope} {c : CE} (hi : LocalsInv sc)
    (h : compileAtom p sc = .ok c) : LocalsInv c.sc :=
  (compileAtom_reach (F := False) (fun f => f.elim) h).1.localsInv hi

theorem localsInv_combine {o : Op} {is : List Instr} {left right : Reg} {sc : Scope} {c : CE}
    (hi : LocalsInv sc) (h : combine o is left right sc = .ok c) : LocalsInv c.sc :=
  (combine_reach (F := False) (fun f => f.elim) h).1.localsInv hi

theorem localsInv_compileExpr {e : Expr} {sc : Scope} {c : CE} (hi : LocalsInv sc)
    (h : compileExpr e sc = .ok c) : LocalsInv c.sc :=
  (compileExpr_reach (F := False) (fun f => f.elim) h).1.localsInv hi

theorem localsInv_compileFlag {flag : Expr} {sc sc' : Scope} {is : List Instr} (hi : LocalsInv sc)
    (h : compileFlag flag sc = .ok (is, sc')) : LocalsInv sc' :=
  (compileFlag_reach (F := False) (fun f => f.elim) h).localsInv hi

theorem localsInv_compileBody {body : List Expr} {sc sc' : Scope} {is : List Instr} (hi : LocalsInv sc)
    (h : compileBody body sc = .ok (is, sc')) : LocalsInv sc' :=
  (compileBody_reach (F := False) (fun f => f.elim) h).localsInv hi

theorem localsInv_compileEvents {evs : List Event} {idx : Nat} {sc : Scope} {cp : CP} (hi : LocalsInv sc)
    (h : compileEvents evs idx sc = .ok cp) : LocalsInv cp.sc :=
  (compileEvents_reach (F := False) (fun f => f.elim) h).localsInv hi

theorem localsInv_compileProg {evs : List Event} {sc sc' : Scope} {bin : Bin} (hi : LocalsInv sc)
    (h : compileProg evs sc = .ok (bin, sc')) : LocalsInv sc' :=
  (compileProg_reach (F := False) (fun f => f.elim) h).localsInv hi

/-- the pieces of an accepted compilation -/
theorem compile_ok {uid : Nat} {src : List Char} {upd : List (Name × Nat)} {bin : Bin} {sc : Scope}
    (h : compile uid src upd = .ok (bin, sc)) :
    ∃ ds evs sc0, parseSource src = some (ds, evs) ∧ declareAll (Scope.new uid) ds = .ok sc0 ∧
      compileProg evs (applyUpdates sc0 upd) = .ok (bin, sc) := by
  unfold compile at h
  obtain ⟨q, hq, h⟩ := Out.bind_eq_ok.mp h
  obtain ⟨evs, sc0⟩ := q
  unfold newWithScope at hq
  split at hq
  · cases hq
  · rename_i ds evs' hp
    obtain ⟨sc0', h0, hq⟩ := Out.bind_eq_ok.mp hq
    simp only [Out.pure_eq, Out.ok.injEq, Prod.mk.injEq] at hq
    obtain ⟨rfl, rfl⟩ := hq
    exact ⟨ds, evs', sc0', hp, h0, h⟩

/-- **T5 (locals).** In the scope returned for any accepted program, distinct local names have
distinct local indices, all below `sc.numLocal ≤ 255`. No assumption on the declared names. -/
theorem locals_distinct {uid : Nat} {src : List Char} {upd : List (Name × Nat)} {bin : Bin} {sc : Scope}
    (h : compile uid src upd = .ok (bin, sc)) :
    (∀ n i t, sc.get n = some (.local i t) → i < sc.numLocal) ∧
    (∀ n m i t u, sc.get n = some (.local i t) → sc.get m = some (.local i u) → n = m) ∧
    sc.numLocal ≤ 255 := by
  obtain ⟨ds, evs, sc0, _, h0, hc⟩ := compile_ok h
  exact (localsInv_def sc).mp
    (localsInv_compileProg (localsInv_applyUpdates upd (localsInv_declareAll h0)) hc)

/-- **T5 (slots survive compilation), from any scope.** Compilation never removes a binding and
never changes its class, index or volatility; primitive and implicit registers do not change at
all (`Reg.slot` erases the recorded type of report / control / local registers only). Conversely,
what is bound afterwards was bound before in the same slot, or is a local at a name that was
unbound. The counters of report and control registers and the uid do not move. -/
theorem compile_keeps_slots {evs : List Event} {sc sc' : Scope} {bin : Bin}
    (h : compileProg evs sc = .ok (bin, sc')) :
    (∀ n r, sc.get n = some r → ∃ r', sc'.get n = some r' ∧ r'.slot = r.slot) ∧
    (∀ n r', sc'.get n = some r' →
      (∃ r, sc.get n = some r ∧ r'.slot = r.slot) ∨ (sc.get n = none ∧ ∃ i t, r' = .local i t)) ∧
    sc'.uid = sc.uid ∧ sc'.numPerm = sc.numPerm ∧ sc'.numControl = sc.numControl ∧
    sc.numLocal ≤ sc'.numLocal := by
  have hr := compileProg_reach (F := False) (fun f => f.elim) h
  refine ⟨fun n r hg => hr.fwd hg, fun n r' hg => ?_, hr.counters⟩
  rcases hr.bwd hg with h1 | ⟨h1, h2⟩
  · exact Or.inl h1
  · exact Or.inr ⟨h1, Reg.isLocal_iff.mp h2⟩

/-- the same, class by class -/
theorem compile_keeps_slots_cases {evs : List Event} {sc sc' : Scope} {bin : Bin}
    (h : compileProg evs sc = .ok (bin, sc')) (n : Name) :
    (∀ i t v, sc.get n = some (.report i t v) → ∃ t', sc'.get n = some (.report i t' v)) ∧
    (∀ i t v, sc.get n = some (.control i t v) → ∃ t', sc'.get n = some (.control i t' v)) ∧
    (∀ i t, sc.get n = some (.local i t) → ∃ t', sc'.get n = some (.local i t')) ∧
    (∀ i t, sc.get n = some (.primitive i t) → sc'.get n = some (.primitive i t)) ∧
    (∀ i t, sc.get n = some (.implicit i t) → sc'.get n = some (.implicit i t)) := by
  have hf := (compile_keeps_slots h).1 n
  refine ⟨?_, ?_, ?_, ?_, ?_⟩
  · intro i t v hg
    obtain ⟨r', h1, h2⟩ := hf _ hg
    obtain ⟨t', rfl⟩ := Reg.slot_report h2
    exact ⟨t', h1⟩
  · intro i t v hg
    obtain ⟨r', h1, h2⟩ := hf _ hg
    obtain ⟨t', rfl⟩ := Reg.slot_control h2
    exact ⟨t', h1⟩
  · intro i t hg
    obtain ⟨r', h1, h2⟩ := hf _ hg
    obtain ⟨t', rfl⟩ := Reg.slot_local h2
    exact ⟨t', h1⟩
  · intro i t hg
    obtain ⟨r', h1, h2⟩ := hf _ hg
    cases r' <;> simp [Reg.slot] at h2
    obtain ⟨rfl, rfl⟩ := h2; exact h1
  · intro i t hg
    obtain ⟨r', h1, h2⟩ := hf _ hg
    cases r' <;> simp [Reg.slot] at h2
    obtain ⟨rfl, rfl⟩ := h2; exact h1

/-- **T5 (recorded types survive too).** `update_type` in the `Bind` arm is applied to the name
stored in the recorded type of the left operand. If, to begin with, every recorded type that is a
name is the name of a local (`NameInv`; in particular if no recorded type is a name, as after
the declaration pass and the overrides), only locals are ever re-typed: every binding that is not a
local is returned exactly as it was — class, index, volatility **and** recorded type. -/
theorem compile_keeps_nonlocals {evs : List Event} {sc sc' : Scope} {bin : Bin}
    (hn : NameInv sc) (h : compileProg evs sc = .ok (bin, sc')) :
    (∀ n r, sc.get n = some r → r.isLocal = false → sc'.get n = some r) ∧ NameInv sc' := by
  have hr := compileProg_reach (F := True) (fun _ => hn) h
  exact ⟨fun n r hg hl => hr.fine trivial hg hl, hr.nameInv trivial hn⟩

/-! ### The returned scope -/

theorem overrideSpec_report (upd : List (Name × Nat)) (n : Name) (i : Nat) (t : Ty) (v : Bool) :
    overrideSpec upd n (some (.report i t v)) = some (.report i (overrideTy upd n t) v) := by
  unfold overrideSpec overrideTy; cases lastVal n upd <;> rfl

theorem overrideSpec_control (upd : List (Name × Nat)) (n : Name) (i : Nat) (t : Ty) (v : Bool) :
    overrideSpec upd n (some (.control i t v)) = some (.control i (overrideTy upd n t) v) := by
  unfold overrideSpec overrideTy; cases lastVal n upd <;> rfl

theorem overrideSpec_builtin (upd : List (Name × Nat)) (n : Name) {r : Reg} (h : isBuiltinReg r = true) :
    overrideSpec upd n (some r) = some r := by
  unfold overrideSpec
  cases lastVal n upd with
  | none => rfl
  | some v => cases r <;> first | rfl | cases h

/-- a property of registers that overriding preserves holds after `applyUpdates` if it held before -/
theorem applyUpdates_all {P : Reg → Prop} (hP : ∀ r v, P r → P (r.override v)) {sc : Scope}
    (upd : List (Name × Nat)) (h0 : ∀ n r, sc.get n = some r → P r) :
    ∀ n r, (applyUpdates sc upd).get n = some r → P r := by
  intro n r hg
  rw [applyUpdates_get] at hg
  unfold overrideSpec at hg
  cases hl : lastVal n upd with
  | none => rw [hl] at hg; exact h0 n r hg
  | some v =>
    rw [hl] at hg
    cases h1 : sc.get n with
    | none => rw [h1] at hg; cases hg
    | some r0 =>
      rw [h1] at hg
      simp only [Option.map_some, Option.some.injEq] at hg
      subst hg
      exact hP _ _ (h0 n r0 h1)

/-- **C13, the returned scope.** For every accepted program whose declared names are distinct from
each other and from the built-in names, in the scope returned by `compile`:

1. the report variables sit in the report slots `0..n-1` in declaration order, each with its declared
   volatility and its declared initial value, or the overriding value if `upd` names it;
2. likewise the control variables in the control slots `0..m-1`;
3. `numPerm = n ≤ 255`, `numControl = m ≤ 255`, the uid is the caller's;
4. the built-in names are bound as in `abiTable`;
5. distinct local names have distinct local indices, all below `numLocal ≤ 255`;
6. nothing else is bound: every binding is a built-in one, the report (control) register of the
   declaration at its index — so the assignment is a bijection onto `0..n-1` (`0..m-1`) — or a local
   at a name that is neither built-in nor declared. -/
theorem compile_scope_slots (uid : Nat) (src : List Char) (upd : List (Name × Nat))
    (ds : List Decl) (evs : List Event) (bin : Bin) (sc : Scope)
    (hp : parseSource src = some (ds, evs))
    (hnd : (ds.map (·.var)).Nodup)
    (hfresh : ∀ d ∈ ds, (Scope.new uid).get d.var = none)
    (h : compile uid src upd = .ok (bin, sc)) :
    (∀ k (hk : k < (reportsOf ds).length),
      sc.get (reportsOf ds)[k].var =
        some (.report k (overrideTy upd (reportsOf ds)[k].var (reportsOf ds)[k].init) (reportsOf ds)[k].vol)) ∧
    (∀ k (hk : k < (controlsOf ds).length),
      sc.get (controlsOf ds)[k].var =
        some (.control k (overrideTy upd (controlsOf ds)[k].var (controlsOf ds)[k].init) (controlsOf ds)[k].vol)) ∧
    (sc.numPerm = (reportsOf ds).length ∧ sc.numControl = (controlsOf ds).length ∧ sc.uid = uid ∧
      (reportsOf ds).length ≤ 255 ∧ (controlsOf ds).length ≤ 255) ∧
    (∀ p ∈ abiTable, sc.get p.1.toList = some p.2) ∧
    ((∀ n i t, sc.get n = some (.local i t) → i < sc.numLocal) ∧
      (∀ n m i t u, sc.get n = some (.local i t) → sc.get m = some (.local i u) → n = m) ∧
      sc.numLocal ≤ 255) ∧
    (∀ n r, sc.get n = some r →
      (∃ p ∈ abiTable, p.1.toList = n ∧ p.2 = r) ∨
      (∃ k, ∃ hk : k < (reportsOf ds).length, n = (reportsOf ds)[k].var ∧
        r = .report k (overrideTy upd n (reportsOf ds)[k].init) (reportsOf ds)[k].vol) ∨
      (∃ k, ∃ hk : k < (controlsOf ds).length, n = (controlsOf ds)[k].var ∧
        r = .control k (overrideTy upd n (controlsOf ds)[k].init) (controlsOf ds)[k].vol) ∨
      (∃ i t, r = .local i t ∧ (Scope.new uid).get n = none ∧ ∀ d ∈ ds, d.var ≠ n)) := by
  obtain ⟨ds', evs', sc0, hp', h0, hc⟩ := compile_ok h
  rw [hp] at hp'
  simp only [Option.some.injEq, Prod.mk.injEq] at hp'
  obtain ⟨rfl, rfl⟩ := hp'
  obtain ⟨ha, hb, ⟨c1, c2, c3, c4⟩, hd, he⟩ := report_slots uid ds sc0 hnd hfresh h0
  -- no recorded type is a name before compilation starts
  have noName0 : ∀ n r, sc0.get n = some r → ∀ s, r.getType ≠ .name s := by
    refine declareAll_all (P := fun r => ∀ s, r.getType ≠ .name s) h0 ?_ ?_
    · intro d hd' i
      exact ⟨parseSource_init hp d hd', parseSource_init hp d hd'⟩
    · intro n r hg s
      have := Scope.new_get_builtin hg
      cases r <;> first
        | (cases this; done)
        | (rename_i i t; cases t <;> first | (cases this; done) | (intro e; cases e))
  have noName1 : ∀ n r, (applyUpdates sc0 upd).get n = some r → ∀ s, r.getType ≠ .name s := by
    refine applyUpdates_all (P := fun r => ∀ s, r.getType ≠ .name s) ?_ upd noName0
    intro r v hr s
    cases r <;> first | exact hr s | (intro e; cases e)
  have hn : NameInv (applyUpdates sc0 upd) := fun n r hg => RegOk.of_not_name (noName1 n r hg)
  obtain ⟨keep, _⟩ := compile_keeps_nonlocals hn hc
  have hr := compileProg_reach (F := True) (fun _ => hn) hc
  obtain ⟨u1, u2, u3, _⟩ := hr.counters
  obtain ⟨v1, v2, v3, _, _⟩ := applyUpdates_counters sc0 upd
  -- the three classes
  have repK : ∀ k (hk : k < (reportsOf ds).length), sc.get (reportsOf ds)[k].var =
      some (.report k (overrideTy upd (reportsOf ds)[k].var (reportsOf ds)[k].init) (reportsOf ds)[k].vol) := by
    intro k hk
    refine keep _ _ ?_ rfl
    rw [applyUpdates_get, ha k hk, overrideSpec_report]
  have ctlK : ∀ k (hk : k < (controlsOf ds).length), sc.get (controlsOf ds)[k].var =
      some (.control k (overrideTy upd (controlsOf ds)[k].var (controlsOf ds)[k].init) (controlsOf ds)[k].vol) := by
    intro k hk
    refine keep _ _ ?_ rfl
    rw [applyUpdates_get, hb k hk, overrideSpec_control]
  have builtinK : ∀ n r, (Scope.new uid).get n = some r → sc.get n = some r := by
    intro n r hg
    have hb' := Scope.new_get_builtin hg
    refine keep _ _ ?_ (by cases r <;> first | rfl | cases hb')
    rw [applyUpdates_get, hd n r hg, overrideSpec_builtin upd n hb']
  have split : ∀ d ∈ ds, (∃ k, ∃ hk : k < (reportsOf ds).length, (reportsOf ds)[k] = d) ∨
      (∃ k, ∃ hk : k < (controlsOf ds).length, (controlsOf ds)[k] = d) := by
    intro d hd
    by_cases hp : "Report.".toList.isPrefixOf d.var = true
    · exact Or.inl (List.mem_iff_getElem.mp (List.mem_filter.mpr ⟨hd, hp⟩))
    · exact Or.inr (List.mem_iff_getElem.mp
        (List.mem_filter.mpr ⟨hd, by rw [Bool.not_eq_true] at hp; rw [hp]; rfl⟩))
  refine ⟨repK, ctlK, ⟨by omega, by omega, by rw [u1, v1, c4], (declareAll_ok h0).1, (declareAll_ok h0).2.1⟩,
    fun p hp => builtinK _ _ ((builtin_abi uid).1 p hp), locals_distinct h, ?_⟩
  intro n r hg
  cases hg0 : sc0.get n with
  | some r0 =>
    rcases he n r0 hg0 with hbi | ⟨d, hd', rfl⟩
    · left
      have e : r0 = r := by rw [builtinK n r0 hbi] at hg; exact Option.some.inj hg
      subst e
      exact builtin_only uid n r0 hbi
    · rcases split d hd' with ⟨k, hk, rfl⟩ | ⟨k, hk, rfl⟩
      · right; left
        rw [repK k hk] at hg
        exact ⟨k, hk, rfl, (Option.some.inj hg).symm⟩
      · right; right; left
        rw [ctlK k hk] at hg
        exact ⟨k, hk, rfl, (Option.some.inj hg).symm⟩
  | none =>
    right; right; right
    have hg1 : (applyUpdates sc0 upd).get n = none := ((overrides_cases sc0 upd n).2.1) hg0
    rcases hr.bwd hg with ⟨r1, h1, _⟩ | ⟨_, h2⟩
    · rw [hg1] at h1; cases h1
    · obtain ⟨i, t, rfl⟩ := Reg.isLocal_iff.mp h2
      refine ⟨i, t, rfl, ?_, ?_⟩
      · cases hn0 : (Scope.new uid).get n with
        | none => rfl
        | some rb => rw [hd n rb hn0] at hg0; cases hg0
      · intro d hd' e
        subst e
        rcases split d hd' with ⟨k, hk, rfl⟩ | ⟨k, hk, rfl⟩
        · rw [ha k hk] at hg0; cases hg0
        · rw [hb k hk] at hg0; cases hg0

/-! ### Non-vacuity of the final theorem: `exSrc` compiled with the override `bar := 9` -/

/-- the program is accepted, and its local `x` got local slot 0 -/
theorem exSrc_local :
    (match compile 3 exSrc [("bar".toList, 9)] with
      | .ok (_, sc) => sc.get "x".toList
      | _ => none) = some (.local 0 (.num (some 1))) := by decide +kernel

theorem exSrc_accepted : (compile 3 exSrc [("bar".toList, 9)]).isOk = true := by
  have := exSrc_local
  cases h : compile 3 exSrc [("bar".toList, 9)] with
  | ok q => rfl
  | err => rw [h] at this; cases this
  | panic => rw [h] at this; cases this

example : ∃ bin sc, compile 3 exSrc [("bar".toList, 9)] = .ok (bin, sc) ∧
    sc.get "Report.foo".toList = some (.report 0 (.num (some 0)) true) ∧
    sc.get "Report.acked".toList = some (.report 1 (.num (some 0)) false) ∧
    sc.get "bar".toList = some (.control 0 (.num (some 9)) false) ∧
    sc.get "Cwnd".toList = some (.implicit 4 (.num none)) := by
  cases h : compile 3 exSrc [("bar".toList, 9)] with
  | ok q =>
    obtain ⟨bin, sc⟩ := q
    have hp : ∃ evs, parseSource exSrc = some (exDecls, evs) := by
      have := exSrc_parse
      cases hq : parseSource exSrc with
      | none => rw [hq] at this; cases this
      | some q =>
        obtain ⟨ds, evs⟩ := q
        rw [hq] at this
        simp only [Option.map_some, Option.some.injEq] at this
        exact ⟨evs, by rw [this]⟩
    obtain ⟨evs, hp⟩ := hp
    obtain ⟨ha, hb, _, hd, _⟩ := compile_scope_slots 3 exSrc _ exDecls evs bin sc hp exDecls_nodup
      (exDecls_fresh 3) h
    exact ⟨bin, sc, rfl, ha 0 (by decide), ha 1 (by decide), hb 0 (by decide),
      hd ("Cwnd", _) (by decide)⟩
  | err => have := exSrc_accepted; rw [h] at this; cases this
  | panic => have := exSrc_accepted; rw [h] at this; cases this

/-! ## T6 — the emitted instructions use the scope's mapping

`Known sc r`: an immediate, a temporary or the placeholder `Reg.none`; or a report / control / local /
primitive / implicit register that is, up to its recorded type, what `sc` binds to some name. -/

theorem known_cases (sc : Scope) (r : Reg) :
    Known sc r ↔
      match r with
      | .report i _ v => ∃ n t, sc.get n = some (.report i t v)
      | .control i _ v => ∃ n t, sc.get n = some (.control i t v)
      | .local i _ => ∃ n t, sc.get n = some (.local i t)
      | .primitive i t => ∃ n, sc.get n = some (.primitive i t)
      | .implicit i t => ∃ n, sc.get n = some (.implicit i t)
      | _ => True := by
  unfold Known
  cases r with
  | report i t v =>
    simp only [Reg.isNamed, true_implies]
    constructor
    · rintro ⟨n, r', h1, h2⟩; obtain ⟨t', rfl⟩ := Reg.slot_report h2; exact ⟨n, t', h1⟩
    · rintro ⟨n, t', h⟩; exact ⟨n, _, h, rfl⟩
  | control i t v =>
    simp only [Reg.isNamed, true_implies]
    constructor
    · rintro ⟨n, r', h1, h2⟩; obtain ⟨t', rfl⟩ := Reg.slot_control h2; exact ⟨n, t', h1⟩
    · rintro ⟨n, t', h⟩; exact ⟨n, _, h, rfl⟩
  | «local» i t =>
    simp only [Reg.isNamed, true_implies]
    constructor
    · rintro ⟨n, r', h1, h2⟩; obtain ⟨t', rfl⟩ := Reg.slot_local h2; exact ⟨n, t', h1⟩
    · rintro ⟨n, t', h⟩; exact ⟨n, _, h, rfl⟩
  | primitive i t =>
    simp only [Reg.isNamed, true_implies]
    constructor
    · rintro ⟨n, r', h1, h2⟩
      cases r' <;> simp [Reg.slot] at h2
      obtain ⟨rfl, rfl⟩ := h2; exact ⟨n, h1⟩
    · rintro ⟨n, h⟩; exact ⟨n, _, h, rfl⟩
  | implicit i t =>
    simp only [Reg.isNamed, true_implies]
    constructor
    · rintro ⟨n, r', h1, h2⟩
      cases r' <;> simp [Reg.slot] at h2
      obtain ⟨rfl, rfl⟩ := h2; exact ⟨n, h1⟩
    · rintro ⟨n, h⟩; exact ⟨n, _, h, rfl⟩
  | immNum _ => simp [Reg.isNamed]
  | immBool _ => simp [Reg.isNamed]
  | tmp _ _ => simp [Reg.isNamed]
  | none => simp [Reg.isNamed]

/-- **T6.** Every register operand of every emitted instruction — the `Def` prologue included — is
an immediate, a temporary, the placeholder, or the register (up to its recorded type) that the
returned scope binds to some name. With clause 6 of `compile_scope_slots` this name is unique and,
for a report / control register of index `i`, it is the `i`-th declared report / control variable. -/
theorem instrs_use_scope (uid : Nat) (src : List Char) (upd : List (Name × Nat))
    (ds : List Decl) (evs : List Event) (bin : Bin) (sc : Scope)
    (hp : parseSource src = some (ds, evs))
    (hnd : (ds.map (·.var)).Nodup)
    (hfresh : ∀ d ∈ ds, (Scope.new uid).get d.var = none)
    (h : compile uid src upd = .ok (bin, sc)) :
    ∀ ins ∈ bin.instrs, Known sc ins.res ∧ Known sc ins.left ∧ Known sc ins.right := by
  obtain ⟨ds', evs', sc0, hp', h0, hc⟩ := compile_ok h
  rw [hp] at hp'
  simp only [Option.some.injEq, Prod.mk.injEq] at hp'
  obtain ⟨rfl, rfl⟩ := hp'
  exact compileProg_known ((applyUpdates_reach sc0 upd).namesNodup (declareAll_namesNodup hnd hfresh h0)) hc

/-- the compiler's own transitions, from any scope with distinct names -/
theorem instrs_use_scope_compileProg {evs : List Event} {sc sc' : Scope} {bin : Bin}
    (hn : NamesNodup sc) (h : compileProg evs sc = .ok (bin, sc')) :
    (∀ ins ∈ bin.instrs, Known sc' ins.res ∧ Known sc' ins.left ∧ Known sc' ins.right) ∧ NamesNodup sc' :=
  ⟨compileProg_known hn h, (compileProg_reach (F := False) (fun f => f.elim) h).namesNodup hn⟩

end Portus.C13

/-! ## Oracle: the conclusion of `compile_scope_slots` as a decidable check of an observed scope -/
namespace Portus.C13
open Portus Portus.Lang

def isLocalReg : Reg → Bool
  | .local .. => true
  | _ => false

/-- is `r` an admissible binding of `n` in the scope returned for declarations `ds` and overrides `upd`? -/
def admissible (ds : List Decl) (upd : List (Name × Nat)) (n : Name) (r : Reg) : Bool :=
  abiTable.any (fun p => p.1.toList == n && p.2 == r) ||
  (reportsOf ds).zipIdx.any (fun p => p.1.var == n && r == .report p.2 (overrideTy upd n p.1.init) p.1.vol) ||
  (controlsOf ds).zipIdx.any (fun p => p.1.var == n && r == .control p.2 (overrideTy upd n p.1.init) p.1.vol) ||
  (isLocalReg r && !abiTable.any (fun p => p.1.toList == n) && !ds.any (fun d => d.var == n))

/-- two observed names bound to locals with the same index are the same name -/
def localsInjective (obs : List (Name × Option Reg)) : Bool :=
  obs.all fun a => obs.all fun b =>
    match a.2, b.2 with
    | some (.local i _), some (.local j _) => i != j || a.1 == b.1
    | _, _ => true

/-- `C13.check src upd observed`: `observed` lists `Scope::get(name)` for some names of the scope
returned by compiling `src` with overrides `upd`. When the declared names are pairwise distinct and
differ from the built-ins (the property's quantifier), every observed binding is exactly the one the
declarations, overrides and ABI prescribe; an unbound name is neither built-in nor declared; and locals
are injective. -/
def check (src : List Char) (upd : List (Name × Nat)) (obs : List (Name × Option Reg)) : Bool :=
  match parseSource src with
  | none => true
  | some (ds, _) =>
    if !(decide ((ds.map (·.var)).Nodup) && ds.all (fun d => ((Scope.new 0).get d.var).isNone)) then true
    else
      obs.all (fun p => match p.2 with
        | some r => admissible ds upd p.1 r
        | none => !abiTable.any (fun q => q.1.toList == p.1) && !ds.any (fun d => d.var == p.1)) &&
      localsInjective obs

theorem check_model (uid : Nat) (src : List Char) (upd : List (Name × Nat)) (bin : Bin) (sc : Scope)
    (h : compile uid src upd = .ok (bin, sc)) (names : List Name) :
    check src upd (names.map fun n => (n, sc.get n)) = true := by
  unfold check
  cases hp : parseSource src with
  | none => rfl
  | some p =>
    obtain ⟨ds, evs⟩ := p
    simp only
    split
    · rfl
    · rename_i hc
      simp only [Bool.not_eq_true', Bool.not_eq_false, Bool.and_eq_true, decide_eq_true_eq, List.all_eq_true,
        Option.isNone_iff_eq_none] at hc
      obtain ⟨hnd, hfr0⟩ := hc
      have hfresh : ∀ d ∈ ds, (Scope.new uid).get d.var = none := fun d hd => hfr0 d hd
      obtain ⟨ha, hb, _, habi, ⟨_, hinj, _⟩, hall⟩ := compile_scope_slots uid src upd ds evs bin sc hp hnd hfresh h
      simp only [Bool.and_eq_true, List.all_eq_true, List.mem_map, forall_exists_index, and_imp,
        forall_apply_eq_imp_iff₂]
      refine ⟨?_, ?_⟩
      · intro n _
        cases hg : sc.get n with
        | none =>
          simp only [Bool.and_eq_true, Bool.not_eq_true', List.any_eq_false, beq_iff_eq]
          refine ⟨?_, ?_⟩
          · intro q hq e
            have := habi q hq
            rw [e, hg] at this; cases this
          · intro d hd e
            by_cases hr : "Report.".toList.isPrefixOf d.var = true
            · have hm : d ∈ reportsOf ds := List.mem_filter.mpr ⟨hd, hr⟩
              obtain ⟨k, hk, hk2⟩ := List.getElem_of_mem hm
              have := ha k hk
              rw [hk2, e, hg] at this; cases this
            · have hr' : "Report.".toList.isPrefixOf d.var = false := by
                cases hh : "Report.".toList.isPrefixOf d.var
                · rfl
                · exact absurd hh hr
              have hm : d ∈ controlsOf ds := List.mem_filter.mpr ⟨hd, by rw [hr']; rfl⟩
              obtain ⟨k, hk, hk2⟩ := List.getElem_of_mem hm
              have := hb k hk
              rw [hk2, e, hg] at this; cases this
        | some r =>
          simp only [admissible, Bool.or_eq_true, List.any_eq_true, Bool.and_eq_true, beq_iff_eq,
            Bool.not_eq_true', List.any_eq_false]
          rcases hall n r hg with ⟨p, hp1, hp2, hp3⟩ | ⟨k, hk, e1, e2⟩ | ⟨k, hk, e1, e2⟩ | ⟨i, t, e1, e2, e3⟩
          · exact Or.inl (Or.inl (Or.inl ⟨p, hp1, hp2, hp3⟩))
          · refine Or.inl (Or.inl (Or.inr ⟨((reportsOf ds)[k], k), ?_, e1.symm, e2⟩))
            exact List.mem_zipIdx_iff_getElem?.mpr (by simp [hk])
          · refine Or.inl (Or.inr ⟨((controlsOf ds)[k], k), ?_, e1.symm, e2⟩)
            exact List.mem_zipIdx_iff_getElem?.mpr (by simp [hk])
          · refine Or.inr ⟨⟨by rw [e1]; rfl, ?_⟩, ?_⟩
            · intro q hq e
              have := builtin_abi uid
              have h1 := this.1 q hq
              rw [e, e2] at h1; cases h1
            · intro d hd e; exact e3 d hd e
      · unfold localsInjective
        simp only [List.all_eq_true, List.mem_map, forall_exists_index, and_imp, forall_apply_eq_imp_iff₂]
        intro n _ m _
        cases hgn : sc.get n with
        | none => simp
        | some rn =>
          cases hgm : sc.get m with
          | none => cases rn <;> simp
          | some rm =>
            cases rn <;> cases rm <;> simp
            rename_i i t j u
            by_cases e : i = j
            · subst e
              exact Or.inr (hinj n m i t u hgn hgm)
            · exact Or.inl e

end Portus.C13
