import PortusModel.Props.C16
/-!
# C18 — a stop request terminates the runtime promptly and cleanly (partial)

In the model the stop flag is polled exactly where the Rust code polls it: at the top of every
iteration of `get_next_read`, before each blocking `recv`. The script item `Rx.stop` is "this poll
read the flag false". Proved: at that poll no `recv` is made and nothing that the transport would
deliver afterwards is ever consumed; at most the messages still unparsed in the current datagram are
dispatched; the loop then ends with `Ok`, the remaining flows are dropped and nothing follows; if the
loop ends because a message fails to decode while no stop was requested, the result is `Err`.
Partial: wall-clock latency ("within about one receive timeout"), thread scheduling, and the
`Arc::into_raw/from_raw` bookkeeping are outside the model; they are observed by the `STOP` harness
command with a transport whose `recv` really blocks.
-/
namespace Portus.C18
open Portus Portus.Wire Portus.Ipc Portus.Rt

/-- **The poll that reads the flag false makes no `recv`**: reception ends there and everything the
transport holds afterwards (`suf`) stays unconsumed. -/
theorem stop_poll_ends_reception (b : Backend) (suf : List Rx) :
    getNextRead b (.stop :: suf) = (none, b, suf) := rfl

/-- `Ok` exactly when the loop ended at a stop poll; an undecodable message with the flag still set
("the message stream ends while no stop was requested") gives `Err`. -/
theorem result_ok_iff_stopped {σ : Type} (cfg : Cfg) (pol : Policy σ) (b : Backend) (rx : List Rx) (st : St σ)
    (b' : Backend) (rx' : List Rx) (h : next b rx = .ok (none, b', rx')) :
    loopStep cfg pol b rx st =
      .ok (.finished (if endedByStop b rx then .ok else .err) st (rxEvents (rx.take (rx.length - rx'.length)))) := by
  unfold loopStep
  rw [h]

/-- replace the script handed on by a `more` result -/
def retarget {σ : Type} (rx : List Rx) : Out (LoopRes σ) → Out (LoopRes σ)
  | .ok (.more b' _ st' evs) => .ok (.more b' rx st' evs)
  | o => o

private theorem parseAt_rx (b : Backend) (rx : List Rx) :
    parseAt b rx = match parseAt b [] with
      | .ok (o, b', _) => .ok (o, b', rx)
      | .err => .err
      | .panic => .panic := by
  unfold parseAt
  cases sliceP b.buf b.readUntil b.totRead with
  | panic => rfl
  | err => rfl
  | ok s =>
    simp only [Out.bind_ok]
    cases fromBuf s with
    | panic => rfl
    | err => rfl
    | ok p => rfl

/-- while bytes of the current datagram are pending, a trip round the loop does not look at the script -/
private theorem loopStep_pending {σ : Type} (cfg : Cfg) (pol : Policy σ) (b : Backend) (rx : List Rx) (st : St σ)
    (hlt : b.readUntil < b.totRead) :
    loopStep cfg pol b rx st = retarget rx (loopStep cfg pol b [] st) := by
  unfold loopStep next
  simp only [hlt, if_true]
  rw [parseAt_rx b rx]
  cases hp : parseAt b [] with
  | panic => rfl
  | err => rfl
  | ok y =>
    obtain ⟨o, b', rx0⟩ := y
    have hrx0 : rx0 = [] := by
      rw [parseAt_rx b []] at hp
      cases hq : parseAt b [] with
      | panic => rw [hq] at hp; cases hp
      | err => rw [hq] at hp; cases hp
      | ok z => rw [hq] at hp; obtain ⟨o2, b2, r2⟩ := z; simp at hp; exact hp.2.2
    subst hrx0
    cases o with
    | none => simp [endedByStop, hlt, retarget]
    | some p =>
      obtain ⟨msg, addr⟩ := p
      simp only [Nat.sub_self, List.take_zero, List.length_nil]
      cases step cfg pol (applySf st []) addr msg with
      | panic => rfl
      | err => rfl
      | ok r => cases r <;> rfl

/-- one trip round the loop with a stop poll at the head of the script: the rest of the script is
irrelevant and is handed on unchanged -/
private theorem loopStep_stop_head {σ : Type} (cfg : Cfg) (pol : Policy σ) (b : Backend) (suf : List Rx) (st : St σ) :
    (∃ r st' evs, loopStep cfg pol b (.stop :: suf) st = .ok (.finished r st' evs) ∧
                  loopStep cfg pol b [.stop] st = .ok (.finished r st' evs)) ∨
    (∃ b' st' evs, loopStep cfg pol b (.stop :: suf) st = .ok (.more b' (.stop :: suf) st' evs) ∧
                   loopStep cfg pol b [.stop] st = .ok (.more b' [.stop] st' evs)) ∨
    (loopStep cfg pol b (.stop :: suf) st = .panic ∧ loopStep cfg pol b [.stop] st = .panic) ∨
    (loopStep cfg pol b (.stop :: suf) st = .err ∧ loopStep cfg pol b [.stop] st = .err) := by
  by_cases hlt : b.readUntil < b.totRead
  · rw [loopStep_pending cfg pol b _ st hlt, loopStep_pending cfg pol b [.stop] st hlt]
    cases loopStep cfg pol b [] st with
    | panic => right; right; left; exact ⟨rfl, rfl⟩
    | err => right; right; right; exact ⟨rfl, rfl⟩
    | ok r =>
      cases r with
      | more b' rx' st' evs => right; left; exact ⟨b', st', evs, rfl, rfl⟩
      | finished r st' evs => left; exact ⟨r, st', evs, rfl, rfl⟩
  · left
    refine ⟨.ok, st, [], ?_, ?_⟩
    · unfold loopStep next
      simp only [hlt, if_false, getNextRead]
      simp [endedByStop, hlt, getNextRead, rxEvents]
    · unfold loopStep next
      simp only [hlt, if_false, getNextRead]
      simp [endedByStop, hlt, getNextRead, rxEvents]

/-- **Nothing after the stop poll matters.** From the moment a poll reads the flag false, the whole
remaining run — trace and result — is the same whatever the transport would still deliver; in
particular no further datagram is received (no `rx` event, no dispatch caused by `suf`). -/
theorem run_ignores_after_stop {σ : Type} (cfg : Cfg) (pol : Policy σ) (fuel : Nat) (b : Backend) (suf : List Rx)
    (st : St σ) (acc : List Ev) :
    runLoop cfg pol fuel b (.stop :: suf) st acc = runLoop cfg pol fuel b [.stop] st acc := by
  induction fuel generalizing b st acc with
  | zero => rfl
  | succ k ih =>
    simp only [runLoop]
    rcases loopStep_stop_head cfg pol b suf st with ⟨r, st', evs, h1, h2⟩ | ⟨b', st', evs, h1, h2⟩ | ⟨h1, h2⟩ | ⟨h1, h2⟩
    · rw [h1, h2]
    · rw [h1, h2]; exact ih b' st' (acc ++ evs)
    · rw [h1, h2]
    · rw [h1, h2]

/-- **A stop request with nothing pending returns `Ok` at once**, after dropping the remaining flows
(the transport is closed after them); nothing else happens. -/
theorem stop_returns_ok {σ : Type} (cfg : Cfg) (pol : Policy σ) (fuel : Nat) (b : Backend)
    (hb : ¬ b.readUntil < b.totRead) (suf : List Rx) (st : St σ) (acc : List Ev) :
    runLoop cfg pol (fuel + 1) b (.stop :: suf) st acc = .ok (acc ++ shutdown st, .ok) := by
  simp only [runLoop, loopStep, next, hb, if_false, getNextRead]
  simp [endedByStop, hb, getNextRead, rxEvents]

private theorem loopStep_more_next {σ : Type} (cfg : Cfg) (pol : Policy σ) (b : Backend) (rx : List Rx) (st : St σ)
    (b' : Backend) (rx' : List Rx) (st' : St σ) (evs : List Ev)
    (h : loopStep cfg pol b rx st = .ok (.more b' rx' st' evs)) : ∃ p, next b rx = .ok (some p, b', rx') := by
  unfold loopStep at h
  cases hnx : next b rx with
  | panic => rw [hnx] at h; cases h
  | err => rw [hnx] at h; cases h
  | ok y =>
    obtain ⟨o, b3, rx3⟩ := y
    rw [hnx] at h
    cases o with
    | none => cases h
    | some p =>
      obtain ⟨msg, addr⟩ := p
      simp only at h
      cases hstep : step cfg pol (applySf st (rx.take (rx.length - rx3.length))) addr msg with
      | panic => rw [hstep] at h; cases h
      | err => rw [hstep] at h; cases h
      | ok r =>
        rw [hstep] at h
        cases r with
        | cont s e =>
          simp only at h
          injection h with h
          injection h with f1 f2 f3 f4
          subst f1; subst f2
          exact ⟨(msg, addr), rfl⟩
        | fail s e => cases h

/-- with messages of the current datagram still unparsed, each further trip round the loop consumes
part of that datagram only — the script is handed on untouched and the cursor moves strictly forward
inside `[read_until, tot_read)`, so at most `tot_read − read_until` more messages are dispatched -/
theorem dispatch_after_stop_bounded {σ : Type} (cfg : Cfg) (pol : Policy σ) (b : Backend)
    (hinv : Ipc.Inv b) (suf : List Rx) (st : St σ) (b' : Backend) (st' : St σ) (evs : List Ev) (rx' : List Rx)
    (h : loopStep cfg pol b (.stop :: suf) st = .ok (.more b' rx' st' evs)) :
    rx' = .stop :: suf ∧ b.readUntil < b'.readUntil ∧ b'.readUntil ≤ b'.totRead ∧ b'.totRead = b.totRead := by
  obtain ⟨p, hn⟩ := loopStep_more_next cfg pol b _ st b' rx' st' evs h
  obtain ⟨hinv', hadv⟩ := C08.reception_advances b b' hinv _ _ p hn
  have hrx : rx' = .stop :: suf := by
    rcases loopStep_stop_head cfg pol b suf st with ⟨r, st2, evs2, h1, _⟩ | ⟨b2, st2, evs2, h1, _⟩ | ⟨h1, _⟩ | ⟨h1, _⟩
    · rw [h1] at h; cases h
    · rw [h1] at h
      injection h with h
      injection h with e1 e2 e3 e4
      exact e2.symm
    · rw [h1] at h; cases h
    · rw [h1] at h; cases h
  refine ⟨hrx, ?_⟩
  rcases hadv with ⟨_, h2, h3⟩ | hlt
  · exact ⟨h2, hinv'.ru, h3⟩
  · rw [hrx] at hlt; exact absurd hlt (Nat.lt_irrefl _)

/-- the final trace: everything dispatched, then the drops of the flows still alive, then nothing -/
theorem nothing_after_shutdown {σ : Type} (cfg : Cfg) (pol : Policy σ) (b : Backend) (rx : List Rx) (st : St σ)
    (acc : List Ev) (fuel : Nat) (r : Res) (st' : St σ) (evs : List Ev)
    (h : loopStep cfg pol b rx st = .ok (.finished r st' evs)) :
    runLoop cfg pol (fuel + 1) b rx st acc = .ok (acc ++ evs ++ shutdown st', r) := by
  simp only [runLoop, h]

end Portus.C18
