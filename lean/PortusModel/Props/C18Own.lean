import PortusModel.Conc.Own
/-!
# C18 / C19 — the hand-off of the stop handle is balanced, the socket is closed exactly once, a handle that outlives the
runtime cannot send

Over the reference-count model `Conc/Own.lean`, for EVERY sequence of handle operations user code and the loop perform:
-/
namespace Portus.C18
open Portus.Conc.Own

theorem apply_flag (w : W) (o : Op) : (apply w o).flag = w.flag ∧ (apply w o).sockStrong = w.sockStrong ∧
    (apply w o).closes = w.closes := by
  cases o <;> simp only [apply] <;> (try split) <;> simp

theorem fold_flag (ops : List Op) (w : W) : (ops.foldl apply w).flag = w.flag ∧ (ops.foldl apply w).sockStrong = w.sockStrong ∧
    (ops.foldl apply w).closes = w.closes := by
  induction ops generalizing w with
  | nil => simp
  | cons o r ih =>
    obtain ⟨a, b, c⟩ := ih (apply w o)
    obtain ⟨a', b', c'⟩ := apply_flag w o
    simp only [List.foldl_cons]
    exact ⟨a.trans a', b.trans b', c.trans c'⟩

/-- **The stop-handle hand-off is balanced**: whatever happened during the run, when `run` has returned the caller's
handles are the only ones left (`Arc::strong_count` is what it was before the builder was given a clone). -/
theorem stop_handle_balanced (c : Nat) (ops : List Op) : (runOps c ops).flag = c := by
  obtain ⟨h, _, _⟩ := fold_flag ops (start c)
  have h' : (ops.foldl apply (start c)).flag = c + 1 + 1 := h
  unfold runOps
  generalize ops.foldl apply (start c) = w at h'
  simp only [finish, dropBackend, h']
  omega

/-- **The socket is dropped, and closed at most once**; it is closed exactly once iff no copy of a handle outlives the runtime. -/
theorem close_called_once (c : Nat) (ops : List Op) :
    (runOps c ops).sockStrong = 0 ∧
    (runOps c ops).closes = if (ops.foldl apply (start c)).outside = 0 then 1 else 0 := by
  obtain ⟨_, h2, h3⟩ := fold_flag ops (start c)
  have h2' : (ops.foldl apply (start c)).sockStrong = 1 := h2
  have h3' : (ops.foldl apply (start c)).closes = 0 := h3
  unfold runOps
  generalize ops.foldl apply (start c) = w at h2' h3'
  simp only [finish, dropBackend, h2', h3']
  refine ⟨trivial, ?_⟩
  by_cases h : w.outside = 0 <;> simp [h]

/-- handles kept only inside flows never prevent the close -/
def insideOnly : List Op → Bool
  | [] => true
  | .park :: _ => false
  | _ :: r => insideOnly r

theorem outside_zero_of_insideOnly (ops : List Op) (w : W) (h : insideOnly ops = true) (hw : w.outside = 0) :
    (ops.foldl apply w).outside = 0 := by
  induction ops generalizing w with
  | nil => simpa
  | cons o r ih =>
    cases o with
    | park => simp [insideOnly] at h
    | newHandle => exact ih _ (by simpa [insideOnly] using h) (by simp [apply, hw])
    | cloneInside => exact ih _ (by simpa [insideOnly] using h) (by simp only [apply]; split <;> simp [hw])
    | dropInside => exact ih _ (by simpa [insideOnly] using h) (by simp [apply, hw])
    | dropOutside => exact ih _ (by simpa [insideOnly] using h) (by simp [apply, hw])

theorem close_exactly_once_under_discipline (c : Nat) (ops : List Op) (h : insideOnly ops = true) :
    (runOps c ops).closes = 1 := by
  rw [(close_called_once c ops).2, outside_zero_of_insideOnly ops (start c) h rfl]
  rfl

/-- **A handle that outlives the runtime cannot send** (C19: an error, not a panic — `Weak::upgrade` fails). -/
theorem dead_handle_cannot_send (c : Nat) (ops : List Op) : sendOk (runOps c ops) = false := by
  simp [sendOk, (close_called_once c ops).1]

/-- non-vacuity: two flows, one handle copied and parked outside: balanced, not closed, cannot send; without the park: closed once -/
example : (runOps 1 [.newHandle, .newHandle, .cloneInside, .park, .dropInside]).flag = 1 ∧
    (runOps 1 [.newHandle, .newHandle, .cloneInside, .park, .dropInside]).closes = 0 ∧
    (runOps 1 [.newHandle, .newHandle, .cloneInside, .dropInside]).closes = 1 := by decide

end Portus.C18
