import PortusModel.Lemmas.ParseInv
/-!
# C10 — the compiler is total: any source text yields Ok or Err, never a panic

`compileAndSerializeBytes` is the model of `compile_and_serialize(src: &[u8], updates)`: UTF-8
decoding, the nom parser, scope construction, `compile_expr`/`compile_prog`, and the encoder, with
every `unreachable!()`, `unwrap()`, `assert_eq!`, `u8 += 1` of the Rust source kept as a `panic`
outcome. The theorem says none of them is reachable, for every byte string and every override list.
Termination is part of the statement: all model functions are total Lean definitions (structural
or fuelled recursion with fuel = input length + 1).
-/
namespace Portus.C10
open Portus Portus.Lang

/-- `C10.check observed`: the observed outcome class of compiling a source is admissible -/
def check (obs : Out Unit) : Bool :=
  match obs with
  | .panic => false
  | _ => true

/-- `Prog::new_with_scope` never panics and establishes the scope invariant. -/
theorem new_with_scope_no_panic (uid : Nat) (src : List Char) : newWithScope uid src ≠ .panic := by
  unfold newWithScope
  split
  · simp
  · rename_i ds evs _
    obtain ⟨h1, _⟩ := declareAll_spec uid ds
    cases h : declareAll (Scope.new uid) ds <;> simp_all

/-- `lang::compile` never panics. -/
theorem compile_no_panic (uid : Nat) (src : List Char) (upd : List (Name × Nat)) :
    compile uid src upd ≠ .panic := by
  unfold compile newWithScope
  cases hp : parseSource src with
  | none => simp
  | some p =>
    obtain ⟨ds, evs⟩ := p
    simp only
    obtain ⟨h1, h2⟩ := declareAll_spec uid ds
    cases hd : declareAll (Scope.new uid) ds with
    | panic => exact absurd hd h1
    | err => simp
    | ok sc =>
      simp only [Out.bind_ok, Out.pure_eq]
      have hinv := applyUpdates_inv (h2 sc hd) upd
      exact (compileProg_spec evs (parseSource_NoDef src ds evs hp) _ hinv).1

/-- **The compiler is total.** For every source text (as decoded characters) and every list of
compile-time overrides, compiling and serializing returns an image or an error — never a panic. -/
theorem compile_and_serialize_no_panic (uid : Nat) (src : List Char) (upd : List (Name × Nat)) :
    compileAndSerialize uid src upd ≠ .panic := by
  unfold compileAndSerialize compile newWithScope
  cases hp : parseSource src with
  | none => simp
  | some p =>
    obtain ⟨ds, evs⟩ := p
    simp only
    obtain ⟨h1, h2⟩ := declareAll_spec uid ds
    cases hd : declareAll (Scope.new uid) ds with
    | panic => exact absurd hd h1
    | err => simp
    | ok sc =>
      simp only [Out.bind_ok, Out.pure_eq]
      have hinv := applyUpdates_inv (h2 sc hd) upd
      obtain ⟨c1, c2⟩ := compileProg_spec evs (parseSource_NoDef src ds evs hp) _ hinv
      cases hc : compileProg evs (applyUpdates sc upd) with
      | panic => exact absurd hc c1
      | err => simp
      | ok q =>
        obtain ⟨bin, sc'⟩ := q
        simp only [Out.bind_ok]
        have := Bin.serialize_no_panic bin (c2 bin sc' hc).1
        cases hs : bin.serialize <;> simp_all

/-- The same for raw bytes (invalid UTF-8 is an error). -/
theorem compile_and_serialize_bytes_no_panic (uid : Nat) (src : Bytes) (upd : List (Name × Nat)) :
    compileAndSerializeBytes uid src upd ≠ .panic := by
  unfold compileAndSerializeBytes
  split
  · simp
  · exact compile_and_serialize_no_panic uid _ upd

theorem check_model (uid : Nat) (src : Bytes) (upd : List (Name × Nat)) :
    check (match compileAndSerializeBytes uid src upd with
      | .ok _ => .ok () | .err => .err | .panic => .panic) = true := by
  have := compile_and_serialize_bytes_no_panic uid src upd
  cases h : compileAndSerializeBytes uid src upd <;> simp_all [check]

/-! ## Non-vacuity (executable checks, run by the compiler at build time — tests, not theorems; kernel
`decide` on whole-program compilation is too slow): the formerly panicking inputs (DESIGN 6.1 F7) are
errors, comments in bodies are accepted, and a valid program compiles. -/

#guard (compileAndSerialize 1 "(def (Report (x 0))) (when true (:= Report.x 1) (report))".toList []).isOk
#guard (compileAndSerialize 1 "(def (Report (x 0))) (when true # c\n (report))".toList []).isOk
#guard compileAndSerialize 1 "(def (Report (x 0))) (when (report) (report))".toList [] == .err
#guard compileAndSerialize 1 "(def (Report (x 0))) (when true (if true 1))".toList [] == .err
#guard compileAndSerialize 1 "(def (Report (x 0))) (when true (:= Cwnd (if true 1)))".toList [] == .err
#guard compileAndSerialize 1 "(def (Report (x 0))) (when Report.x (report))".toList [] == .err

end Portus.C10
