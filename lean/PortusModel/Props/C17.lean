import PortusModel.Generated.UidOp
import PortusModel.Props.C20
import PortusModel.Props.C06
import PortusModel.Lemmas.Rt
/-!
# C17 — program uids are unique across all compilations, even concurrent ones (partial)

The allocation code is *translated* from `/repo/src/lang/datapath.rs` on every run
(`Generated/UidOp.lean`). Proved: if one allocation is a single atomic read-modify-write
(`fetch_add(k)`, `k ≥ 1`, result `old + d`), then for every number of threads, every number of
allocations per thread and **every interleaving**, all returned uids are pairwise distinct (as long as
the counter does not wrap: fewer than `2^32 / k` allocations); the generated code has that form; the
uid of the returned scope is the allocated one, is what the install message carries and what
`set_program` names. Partial: atomicity / sequential consistency of `AtomicU32` is an assumption.
-/
namespace Portus.C17
open Portus Portus.Conc

def remaining (w : World) : Nat := (w.threads.map (·.todo)).sum

structure Inv (k d bound : Nat) (w : World) : Prop where
  idle : ∀ t ∈ w.threads, t.pc = []
  room : w.counter + k * remaining w + d < bound
  below : ∀ x ∈ w.out, x + k ≤ w.counter + d
  nodup : w.out.Nodup

private theorem sum_set_todo (ts : List Thread) (i : Nat) (t t' : Thread) (h : ts[i]? = some t)
    (ht : t'.todo + 1 = t.todo) :
    ((ts.set i t').map (·.todo)).sum + 1 = (ts.map (·.todo)).sum := by
  induction ts generalizing i with
  | nil => simp at h
  | cons a rest ih =>
    cases i with
    | zero =>
      simp only [List.getElem?_cons_zero, Option.some.injEq] at h
      subst h
      simp only [List.set_cons_zero, List.map_cons, List.sum_cons]
      omega
    | succ j =>
      simp only [List.getElem?_cons_succ] at h
      simp only [List.set_cons_succ, List.map_cons, List.sum_cons]
      have := ih j h
      omega

/-- what one step of a single-RMW allocation does from an idle state -/
private theorem step_eq (k d : Nat) (w : World) (i : Nat) (t : Thread) (ht : w.threads[i]? = some t)
    (hpc : t.pc = []) :
    stepThread [.fetchAdd k] d w i =
      if t.todo > 0 then
        { counter := (w.counter + k) % M,
          threads := w.threads.set i { pc := [], reg := w.counter, todo := t.todo - 1 },
          out := ((w.counter + d) % M) :: w.out }
      else w := by
  unfold stepThread
  simp only [ht, hpc, List.isEmpty_nil, true_and]
  by_cases htodo : t.todo > 0
  · simp [htodo]
  · simp [htodo, hpc]

/-- one step of single-RMW allocations preserves the invariant -/
theorem step_inv (k d : Nat) (hk : 1 ≤ k) (w : World) (i : Nat) (h : Inv k d M w) :
    Inv k d M (stepThread [.fetchAdd k] d w i) := by
  cases ht : w.threads[i]? with
  | none => unfold stepThread; simp only [ht]; exact h
  | some t =>
    have hmem : t ∈ w.threads := List.mem_of_getElem? ht
    have hpc := h.idle t hmem
    rw [step_eq k d w i t ht hpc]
    by_cases htodo : t.todo > 0
    · rw [if_pos htodo]
      have hroom := h.room
      have hs := sum_set_todo w.threads i t { pc := [], reg := w.counter, todo := t.todo - 1 } ht (by simp; omega)
      have hrem : 1 ≤ remaining w := by unfold remaining; omega
      have hmul : k ≤ k * remaining w := by
        have : k * 1 ≤ k * remaining w := Nat.mul_le_mul_left k hrem
        omega
      have hc : (w.counter + k) % M = w.counter + k := Nat.mod_eq_of_lt (by omega)
      have hr : (w.counter + d) % M = w.counter + d := Nat.mod_eq_of_lt (by omega)
      rw [hc, hr]
      refine ⟨?_, ?_, ?_, ?_⟩
      · intro t' ht'
        rcases List.mem_or_eq_of_mem_set ht' with h1 | h1
        · exact h.idle t' h1
        · rw [h1]
      · show w.counter + k + k * (List.map (·.todo) (w.threads.set i { pc := [], reg := w.counter, todo := t.todo - 1 })).sum + d < M
        have hm : k * ((List.map (·.todo) (w.threads.set i { pc := [], reg := w.counter, todo := t.todo - 1 })).sum + 1)
            = k * remaining w := by unfold remaining; rw [hs]
        rw [Nat.mul_add, Nat.mul_one] at hm
        omega
      · intro x hx
        show x + k ≤ w.counter + k + d
        have hx' : x = w.counter + d ∨ x ∈ w.out := by simpa using hx
        rcases hx' with rfl | hx'
        · omega
        · have := h.below x hx'; omega
      · show ((w.counter + d) :: w.out).Nodup
        rw [List.nodup_cons]
        refine ⟨?_, h.nodup⟩
        intro hin
        have := h.below _ hin
        omega
    · rw [if_neg htodo]
      exact h

/-- **Uniqueness under every interleaving.** If an allocation is one atomic `fetch_add(k)` (`k ≥ 1`)
returning `old + d`, then for every set of threads (`allocs` = how many allocations each performs),
and every schedule — any interleaving whatsoever, of any length — all uids returned are pairwise
distinct, provided the counter does not wrap (`c0 + k·(total allocations) + d < 2^32`). -/
theorem single_rmw_unique (k d c0 : Nat) (hk : 1 ≤ k) (allocs : List Nat) (sched : List Nat)
    (hM : c0 + k * allocs.sum + d < M) :
    (runSchedule [.fetchAdd k] d (World.init c0 allocs) sched).out.Nodup := by
  have hinit : Inv k d M (World.init c0 allocs) := by
    refine ⟨?_, ?_, ?_, ?_⟩
    · intro t ht
      simp only [World.init, List.mem_map] at ht
      obtain ⟨n, _, rfl⟩ := ht
      rfl
    · show c0 + k * remaining (World.init c0 allocs) + d < M
      have : remaining (World.init c0 allocs) = allocs.sum := by
        simp [remaining, World.init, List.map_map, Function.comp_def]
      rw [this]; exact hM
    · intro x hx; simp [World.init] at hx
    · simp [World.init]
  have : ∀ (s : List Nat) (w : World), Inv k d M w → Inv k d M (runSchedule [.fetchAdd k] d w s) := by
    intro s
    induction s with
    | nil => intro w h; exact h
    | cons i rest ih => intro w h; exact ih _ (step_inv k d hk w i h)
  exact (this sched _ hinit).nodup

/-- the step of an allocation that is ONE atomic read-modify-write -/
def singleRmw : List AOp → Option Nat
  | [.fetchAdd k] => some k
  | _ => none

/-- the step of the code on disk (0 when it is not a single read-modify-write) -/
def rmwK : Nat := (singleRmw Generated.allocOps).getD 0

/-- **The code on disk is a single read-modify-write** with a positive step — the obligation that a change to
`get_next_uid!` breaks (the file `Generated/UidOp.lean` is rewritten from `/repo` on every run). What is added to the value
read (`retDelta`) and where the counter starts do not matter for uniqueness (they matter to libccp: `C06.first_uid_is_marker`). -/
theorem generated_is_single_rmw : Generated.allocOps = [.fetchAdd rmwK] ∧ 1 ≤ rmwK := by
  decide

/-- hence: uids allocated by the code on disk are unique under every interleaving -/
theorem uids_unique (allocs : List Nat) (sched : List Nat)
    (hM : Generated.counterInit + rmwK * allocs.sum + Generated.retDelta < M) :
    (runSchedule Generated.allocOps Generated.retDelta (World.init Generated.counterInit allocs) sched).out.Nodup := by
  rw [generated_is_single_rmw.1]
  exact single_rmw_unique rmwK _ _ generated_is_single_rmw.2 allocs sched hM

/-! ## the uid flows through unchanged -/

/-- the scope returned by a compilation carries exactly the uid that was allocated for it -/
theorem scope_uid_is_allocated (u : Nat) (src : List Char) (upd : List (Lang.Name × Nat)) (bin : Lang.Bin)
    (sc : Lang.Scope) (h : Lang.compile u src upd = .ok (bin, sc)) : sc.uid = u := by
  have hi := Lang.compile_uid_indep u u src upd
  rw [h] at hi
  simp only [Lang.mapOut] at hi
  injection hi with hi
  have : sc = sc.withUid u := by
    have := congrArg Prod.snd hi
    simpa using this
  rw [this]; rfl

/-- the install message built from a scope carries that uid where libccp reads it (C06), and
`set_program` names the selected program's uid (`Rt.setProgram_ok`) -/
theorem uid_in_install (m : Wire.Install) (b : Bytes) (hb : C06.builtIN m) (h : Wire.serializeInstall m = .ok b)
    (hl : b.length ≤ 32678) : ∃ es ms, Libccp.readMsg b = some (.install m.sid m.uid es ms) := by
  obtain ⟨_, _, _, _, ms, hr, _⟩ := C06.install_read_by_libccp m b hb h hl
  exact ⟨_, ms, hr⟩

/-! ## Non-vacuity and the counter-example search used when the obligation breaks -/

-- compiler-evaluated tests (not theorems): a load followed by a store is *not* unique (two threads can both
-- read 0); the generated code has no duplicate among the two-thread interleavings; one concrete schedule
#guard (findDuplicate [.load, .store 1] 1 0).isSome
#guard (findDuplicate Generated.allocOps Generated.retDelta 0).isNone
#guard (runSchedule [.fetchAdd 1] 1 (World.init 0 [2, 1]) [0, 1, 0, 0, 1]).out == [3, 2, 1]

end Portus.C17
